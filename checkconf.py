"""Per-property configuration of ./check: Lean modules holding the property's theorems, the op
groups of the correspondence check (own group at full budget, groups it depends on at a reduced
one), and what is still missing for full strength."""

TRUSTED_BASE = [
    "Lean 4.33.0 kernel (lake build; thorough tier re-checks the .olean files with leanchecker)",
    "axioms: at most propext, Classical.choice, Quot.sound (audited per theorem with #print axioms on every run); no sorry/admit/native_decide/bv_decide/own axioms (grep on every run)",
    "Mathlib v4.33.0 modules imported by proof files only (Mathlib.Logic.Relation and single tactic/list modules); model files are import-free",
    "the hand-written Lean model of the Rust code (lean/OHVerif/Model) - tied to /repo only by the differential correspondence check run on every invocation",
    "the correspondence check itself: Rust harness generators and replay mode, the Rust side of the wire (printing cases; every line is re-printed by the Lean driver and must equal the canonical text, so the Rust printer is checked on every line, not trusted), catch_unwind, the dispatch of ops to relations in lean/OHVerif/Model/Dispatch.lean and Driver*.lean, and this Python driver. NOT trusted any more: the Lean side of the wire (total tokenizer/parser proved to invert the documented text format, Props/WireText: parseLineT_line; every decoder proved to invert its encoder and to accept only canonical encodings, Props/Wire: LawfulCodec/CanonicalCodec, enc_beq_iff) and the comparison relations: each comparator/oracle is proved to decide its specification relation (Props/Comparators, IsoCert, LaxDenote, LaxDenoteSet, C15Oracle, Oracles, C13Oracle, C16Oracle; and Props/HistoryOracle: runHistoryRen_true_iff - the history comparator of C09/C11 accepts exactly the traces that agree step by step up to the renumbering the quotient steps return, HistAgree; Props/HistoryRefl: runHistoryRen_refl - it accepts the model's own trace of EVERY history; Props/C14RefOracle: refRevDeriv_agrees_model - the dual-number reference derivative of the optic.deriv op returns exactly the model's (f x, J^T dy), so it cannot reject the model's answer)",
    "rustc/cargo; usize modelled as unbounded Nat (no overflow above 2^64); Clone/PartialEq on labels as Lean equality",
    "modelled, not verified: std's HashMap and sort; the Rust union-find (rank, path compression, HashMap renumbering) and HashMap sparse_bincount have a line-by-line model proved equal to the canonical-output algorithms the other theorems use (Props/C07UnionFind)",
    "serde/serde_json (C11's JSON clause): the documented text is a model function proved lossless (Props/C11Json); that the derives print it is compared on every case",
]

ASSUMPTIONS = [
    "the theorems are about the Lean model; they transfer to the Rust only as far as the correspondence check has compared the two (differential testing, coverage reported here)",
    "usize arithmetic never exceeds 2^64 (tables whose sums exceed addressable memory are out of scope)",
]

import os as _os
_LEAN = _os.path.join(_os.path.dirname(_os.path.abspath(__file__)), "lean")

# theorem modules that are finished (complete, no sorry, reviewed); a property is claimed once one
# of its modules is listed here
READY = {
    "OHVerif.Props.C06", "OHVerif.Props.C07", "OHVerif.Props.C08",
    "OHVerif.Lemmas.VecBackend", "OHVerif.Lemmas.Kahn",
    "OHVerif.Props.C01", "OHVerif.Props.C02", "OHVerif.Props.C05",
    "OHVerif.Props.C09", "OHVerif.Props.C11", "OHVerif.Props.C15",
    "OHVerif.Props.C12", "OHVerif.Props.C13", "OHVerif.Props.C14", "OHVerif.Props.C19",
    "OHVerif.Props.C04", "OHVerif.Props.C10", "OHVerif.Props.C17", "OHVerif.Props.C18",
    "OHVerif.Props.C16", "OHVerif.Props.C20", "OHVerif.Props.C03",
    "OHVerif.Props.C12Type", "OHVerif.Props.C14Optic", "OHVerif.Props.C19Build",
    "OHVerif.Props.C10Iso", "OHVerif.Props.C04Lax",
    "OHVerif.Props.C12Subst", "OHVerif.Props.C13Native", "OHVerif.Props.C19Sem", "OHVerif.Props.C14Deriv",
    "OHVerif.Props.C14Poly", "OHVerif.Props.C07UnionFind", "OHVerif.Props.IsoCert",
    "OHVerif.Props.C11Json", "OHVerif.Props.C08Iter", "OHVerif.Props.Comparators",
    "OHVerif.Props.LaxDenote", "OHVerif.Props.C15Oracle", "OHVerif.Props.Oracles", "OHVerif.Props.C13Oracle", "OHVerif.Props.C16Oracle", "OHVerif.Props.LaxDenoteSet",
    "OHVerif.Props.Wire", "OHVerif.Props.WireText", "OHVerif.Props.HistoryOracle", "OHVerif.Props.HistoryRefl", "OHVerif.Props.C14RefOracle",
}

def _mods(*names):
    return [n for n in names if n in READY and _os.path.exists(_os.path.join(_LEAN, n.replace(".", "/") + ".lean"))]

_ADV = lambda g, n: [("adv1:" + g, n), ("adv2:" + g, n)]

PROPS = {
    "C01": dict(modules=_mods("OHVerif.Props.C01", "OHVerif.Props.IsoCert"), groups=[("oh", 3000), ("law", 600)], deps=[("ff", 500), ("ic", 300), ("hg", 300)],
                missing=[]),
    "C02": dict(modules=_mods("OHVerif.Props.C02", "OHVerif.Props.Oracles"), groups=[("oh", 1500), ("law", 1500), ("lax.cat", 1500)], deps=[("ic", 300), ("ff", 300), ("hg", 300)]),
    "C03": dict(modules=_mods("OHVerif.Props.C03", "OHVerif.Props.IsoCert"), groups=[("law", 4000)], deps=[("oh", 800)]),
    "C04": dict(modules=_mods("OHVerif.Props.C04", "OHVerif.Props.C04Lax", "OHVerif.Props.IsoCert"), groups=[("law", 2500), ("oh", 1500), ("lax.cat", 1000), ("lawlax", 1500)], deps=[]),
    "C05": dict(modules=_mods("OHVerif.Props.C05", "OHVerif.Props.C12Type", "OHVerif.Props.C14Optic", "OHVerif.Props.Oracles"), groups=[("oh", 1500), ("hg", 1500), ("lax.cat", 800), ("functor", 300), ("dynfunctor", 400), ("optic", 300), ("ic", 1500), ("ff", 600), ("lax.edit", 1500), ("lax.quot", 1000)],
                deps=[("ff", 400), ("ic", 400)]),
    "C06": dict(modules=_mods("OHVerif.Props.C06"), groups=[("ff", 3000)], deps=[("prim", 500)]),
    "C07": dict(modules=_mods("OHVerif.Props.C07", "OHVerif.Lemmas.VecBackend", "OHVerif.Props.C07UnionFind", "OHVerif.Props.Comparators"), groups=[("prim", 3000)], deps=[], release=True),
    "C08": dict(modules=_mods("OHVerif.Props.C08", "OHVerif.Props.C08Iter"), groups=[("ic", 3000)], deps=[("ff", 500), ("prim", 500)]),
    "C09": dict(modules=_mods("OHVerif.Props.C09", "OHVerif.Props.Comparators", "OHVerif.Props.LaxDenoteSet", "OHVerif.Props.HistoryOracle", "OHVerif.Props.HistoryRefl"), groups=[("lax.quot", 3000)], deps=[]),
    "C10": dict(modules=_mods("OHVerif.Props.C10", "OHVerif.Props.C10Iso", "OHVerif.Props.IsoCert", "OHVerif.Props.Comparators", "OHVerif.Props.LaxDenote", "OHVerif.Props.LaxDenoteSet"), groups=[("lax.cat", 2500), ("lawlax", 1500)], deps=[("oh", 400)]),
    "C11": dict(modules=_mods("OHVerif.Props.C11", "OHVerif.Props.C11Json", "OHVerif.Props.HistoryOracle", "OHVerif.Props.HistoryRefl"), groups=[("lax.edit", 3000), ("lax.cat", 1500)], deps=[],
                missing=["JSON clause: the documented text format is a model function (Json.render) proved lossless and canonical (parse_render, parse_iff); that serde's derives print exactly this text is decided by correspondence (serde_json itself is outside the model) and the Rust round trip is executed on every case"]),
    "C12": dict(modules=_mods("OHVerif.Props.C12", "OHVerif.Props.C12Type", "OHVerif.Props.C12Subst", "OHVerif.Props.IsoCert", "OHVerif.Props.LaxDenote"), groups=[("dynfunctor", 1500), ("functor", 800)], deps=[("oh", 400), ("ff", 300)]),
    "C13": dict(modules=_mods("OHVerif.Props.C13", "OHVerif.Props.C13Native", "OHVerif.Props.IsoCert", "OHVerif.Props.LaxDenote", "OHVerif.Props.C13Oracle"), groups=[("dynfunctor", 2500)], deps=[("lax.cat", 400)]),
    "C14": dict(modules=_mods("OHVerif.Props.C14", "OHVerif.Props.C14Optic", "OHVerif.Props.C14Deriv", "OHVerif.Props.C14Poly", "OHVerif.Props.C14RefOracle"), groups=[("optic", 4000)], deps=[("dynfunctor", 300), ("eval", 300)]),
    "C15": dict(modules=_mods("OHVerif.Props.C15", "OHVerif.Lemmas.Kahn", "OHVerif.Props.C15Oracle"), groups=[("graph", 3000)], deps=[("ic", 400), ("prim", 300)]),
    "C16": dict(modules=_mods("OHVerif.Props.C16", "OHVerif.Props.C16Oracle"), groups=[("eval", 3000)], deps=[("graph", 600)]),
    "C17": dict(modules=_mods("OHVerif.Props.C17"), groups=[("oh", 2000), ("hg", 1500), ("graph", 800)], deps=[("prim", 300)], release=True),
    "C18": dict(modules=_mods("OHVerif.Props.C18", "OHVerif.Props.Oracles"), groups=[("graph", 3000)], deps=[("ic", 300)]),
    "C19": dict(modules=_mods("OHVerif.Props.C19", "OHVerif.Props.C19Build", "OHVerif.Props.C19Sem"), groups=[("var", 2500)], deps=[("dynfunctor", 300), ("lax.edit", 300)]),
    "C20": dict(modules=_mods("OHVerif.Props.C20", "OHVerif.Props.IsoCert", "OHVerif.Props.Comparators"),
                groups=_ADV("oh", 800) + _ADV("law", 600) + _ADV("graph", 700) + _ADV("eval", 600) + _ADV("functor", 300) + _ADV("ff", 500) + _ADV("prim", 500) + _ADV("hg", 400) + _ADV("ic", 300),
                deps=[]),
}
# which ops decide which property (regex on the op name without backend prefix); a disagreement in any
# other op met while running the groups is NOT this property's concern and is ignored by its check
ONLY = {
    "C01": r"oh\.compose$",
    "C02": r"(oh\.tensor|hg\.coproduct|ic\.tensor|ff\.tensor|lax\.tensor|lax\.tensor_assign|law\.tensor_\w+:eq)$",
    "C03": r"law\.(assoc|id_left|id_right|interchange|twist_natural|twist_twist|hexagon|hexagon_mirror)$",
    "C04": r"(oh\.dagger|oh\.spider|oh\.half_spider|lax\.dagger|lax\.spider|law\.dagger_\w+(:eq)?|law\.spider_fusion|law\.lax_spider_fusion|law\.strict_dagger|law\.strict_twist|law\.strict_identity|law\.lax_dagger_comp3|lax\.twist|lax\.identity|oh\.twist|oh\.identity|law\.identity_is_spider|law\.twist_is_spider)$",
    "C05": r"(lax\.edit|lax\.quot|hg\.new|oh\.new|ff\.new|ic\.new_\w+|ic\.from_semifinite_\w+|ic\.ops_new|oh\.\w+|lax\.(from_strict|to_strict|identity|spider|singleton|tensor|compose|lax_compose|twist|dagger|source|target)|functor\.\w+|lax\.functor\.\w+|lax\.optic\.\w+)$",
    "C06": r"ff\.",
    "C07": r"prim\.",
    "C08": r"ic\.",
    "C09": r"lax\.quot$",
    "C10": r"(lax\.(from_strict|to_strict|to_hypergraph|compose|lax_compose|tensor|tensor_assign|append|coproduct_assign|identity|twist|spider|dagger|singleton)|law\.(to_from_strict:eq|from_to_strict:lax-eq|tensor_assign_eq:lax-eq|append_eq:lax-eq|coproduct_assign_eq:lax-eq|strict_\w+))$",
    "C11": r"lax\.(edit|json)$",
    "C12": r"(functor\.\w+|lax\.functor\.map_arrow)$",
    "C13": r"lax\.functor\.(try_map_arrow|map_arrow_witness|map_arrow)$",
    "C14": r"(lax\.optic\.\w+|optic\.deriv)$",
    # the hook-level ops (converse, adjacency, indegree, kahn) are run and compared, but only the public
    # API decides the property: an internal helper may change without the layering changing
    "C15": r"graph\.(layer|layered_operations)$",
    "C16": r"eval\.eval$",
    "C17": r"(oh\.is_monogamous|oh\.is_acyclic|hg\.is_acyclic|hg\.in_degree|hg\.out_degree)$",
    "C18": r"graph\.(arrow_new|is_monomorphism|is_convex_subgraph)$",
    "C19": r"var\.",
    "C20": r"(oh\.(compose|tensor|is_monogamous|is_acyclic)|law\.\w+(:eq)?|graph\.(layer|layered_operations|arrow_new|is_monomorphism|is_convex_subgraph)|eval\.eval|functor\.identity_map_arrow|hg\.is_acyclic|ff\.coequalizer\w*|prim\.(argsort|sort_by|connected_components|sparse_bincount|scatter))$",
}
# C05 is about well-formedness and types only: a disagreement in a diagram-valued op counts for it
# only if the implementation's result is ill-formed or mistyped (fields computed by the driver)
WF_TYPE_ONLY = {"C05"}
# every check speaks the wire format: the codec round trips (Props/Wire.lean) and the parser/printer
# inverse theorem of the text layer (Props/WireText.lean) are audited with each
for _k in PROPS:
    PROPS[_k]["modules"] = PROPS[_k]["modules"] + _mods("OHVerif.Props.Wire", "OHVerif.Props.WireText")
    PROPS[_k]["deps"] = []   # a property's check looks only at the ops that decide it
PROPS = {k: v for k, v in PROPS.items() if v["modules"]}


# what is still NOT a theorem (reported in every evidence file under coverage.missing_for_full_strength)
MISSING = {
    "C06": ["cumulative_sum returns a well-formed finite function only when the table does not end in 0 (cumulativeSum_wf_iff) - a recorded finding of the Rust code, see known_findings.txt"],
    "C07": ["the model used by the other theorems computes components and sparse bincount by canonical-output algorithms; Props/C07UnionFind.lean adds a line-by-line model of the Rust union-find (rank, path compression, HashMap renumbering) and of the HashMap-based sparse_bincount and proves them EQUAL to the canonical ones (values and panic sites), so only std's HashMap/sort themselves remain trusted"],
    "C09": ["literal idempotence ('quotienting again changes nothing') is a theorem for backends that number an edgeless graph by the identity (Vec); for an arbitrary lawful backend it holds up to a renumbering (quotient_strict)"],
    "C10": ["the literal round trips are theorems for identity-numbering backends (Vec) and up to isomorphism for every lawful backend"],
    "C11": ["JSON clause: the documented JSON text is the model function Json.render, proved lossless and canonical (Props/C11Json: parse_render, render_injective, parse_iff); that serde's derives print exactly that text is decided by correspondence on every case (serde_json itself is outside the model), and the Rust round trip is executed too"],
    "C12": ["preservation of identities/composition/tensor/symmetry is proved for functors whose operation map is unit- and tensor-compatible (OpsUnit, OpsTensor: proved for the library's Identity and Dyn functors); FunctorHom alone does not imply it (counterexamples scalarF, countF in Props/C12Subst.lean)"],
    "C14": ["the derivative theorem (rev_correct_corrected; instantiated at the exact optic and u64 signature of the correspondence check in rd_rev_correct) assumes one ring element per object (|F(o)| = |R(o)| = 1), which is the polynomial-circuit case; the statement first written (rev_correct_statement) is refuted in the file"],
    "C17": ["'debug and release alike' = no usize subtraction remains in the modelled predicates (theorem) + the correspondence is run in both build profiles"],
    "C19": ["'building fails only when a variable handle outlives the builder' is Rc::try_unwrap: modelled by a flag, exercised by leaking a handle in the harness"],
    "C20": ["the quantifier 'all contract-conforming backends' is the universally quantified Backend.Lawful of the theorems; the Rust side is sampled at the Vec backend and two adversarial conforming backends"],
}
for _k, _v in MISSING.items():
    if _k in PROPS:
        PROPS[_k]["missing"] = _v

LEVEL_TEXT = {
    "default": "The property is stated as Lean 4 theorems about an executable model of the Rust code and proved for all inputs, all histories and every lawful array backend (kernel-checked and axiom-audited on every run; DESIGN.md §12 lists the theorems per clause). The model is hand-written; it is tied to /repo's current source by a differential correspondence check that runs the model and the real library (rebuilt from the working tree) on the same generated cases, a corpus of minimised past failures and the property's law instances on every run. So the claim is 'proof' for the model and 'differentially validated' for the tie - the right level here because the properties quantify over all inputs/backends (only a proof reaches that) while the Rust (GATs, closures, Rc) cannot be translated mechanically with the installed tools.",
}
LEVEL_NOTE = {
    "default": "Trusted: Lean kernel; axioms propext/Classical.choice/Quot.sound; the hand-written model and the correspondence check (harness generators, wire encoding, comparison relations); usize as unbounded Nat. Theorems not yet proved for a clause are listed under coverage.missing_for_full_strength in the evidence.",
}
NOT_APPLICABLE = {}
