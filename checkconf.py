"""Per-property configuration of ./check: Lean modules holding the property's theorems, the op
groups of the correspondence check (own group at full budget, groups it depends on at a reduced
one), and what is still missing for full strength."""

TRUSTED_BASE = [
    "Lean 4.33.0 kernel (lake build; thorough tier re-checks the .olean files with leanchecker)",
    "axioms: at most propext, Classical.choice, Quot.sound (audited per theorem with #print axioms on every run); no sorry/admit/native_decide/bv_decide/own axioms (grep on every run)",
    "Mathlib v4.33.0 modules imported by proof files only (Mathlib.Logic.Relation and single tactic/list modules); model files are import-free",
    "the hand-written Lean model of the Rust code (lean/OHVerif/Model) - tied to /repo only by the differential correspondence check run on every invocation",
    "the correspondence check itself: Rust harness generators, the wire encoding, the per-op comparison relations in lean/OHVerif/Model/Driver*.lean, catch_unwind",
    "rustc/cargo; usize modelled as unbounded Nat (no overflow above 2^64); Clone/PartialEq on labels as Lean equality",
    "modelled, not verified: union-find with path compression and HashMap-based to_dense/sparse_bincount are replaced in the model by canonical-output algorithms (observed only through the contract checks)",
]

ASSUMPTIONS = [
    "the theorems are about the Lean model; they transfer to the Rust only as far as the correspondence check has compared the two (differential testing, coverage reported here)",
    "usize arithmetic never exceeds 2^64 (tables whose sums exceed addressable memory are out of scope)",
]

PROPS = {
    "C06": dict(
        modules=["OHVerif.Props.C06"],
        groups=[("ff", 3000)],
        deps=[("prim", 500)],
        missing=[],
    ),
    "C07": dict(
        modules=["OHVerif.Props.C07", "OHVerif.Lemmas.VecBackend"],
        groups=[("prim", 3000)],
        deps=[],
        release=True,
        missing=[],
    ),
    "C08": dict(
        modules=["OHVerif.Props.C08"],
        groups=[("ic", 3000)],
        deps=[("ff", 500), ("prim", 500)],
        missing=[],
    ),
}

LEVEL_TEXT = {
    "default": "Theorems about the Lean model are proved for all inputs (kernel-checked, axioms audited); the model is tied to the Rust by a differential correspondence check on every run. The claim is 'proof' for the model and 'differentially validated' for the tie; see evidence for what is proved and what is still covered by correspondence only.",
}
LEVEL_NOTE = {
    "default": "Trusted: Lean kernel; axioms propext/Classical.choice/Quot.sound; the hand-written model and the correspondence check (harness generators, wire encoding, comparison relations); usize as unbounded Nat. Theorems not yet proved for a clause are listed under coverage.missing_for_full_strength in the evidence.",
}
NOT_APPLICABLE = {}
