"""Per-property configuration of ./check: Lean modules holding the property's theorems, the op
groups of the correspondence check (own group at full budget, groups it depends on at a reduced
one), and what is still missing for full strength."""

TRUSTED_BASE = [
    "Lean 4.33.0 kernel (lake build; thorough tier re-checks the .olean files with leanchecker)",
    "axioms: at most propext, Classical.choice, Quot.sound (audited per theorem with #print axioms on every run); no sorry/admit/native_decide/bv_decide/own axioms (grep on every run)",
    "Mathlib v4.33.0 modules imported by proof files only (Mathlib.Logic.Relation and single tactic/list modules); model files are import-free",
    "the hand-written Lean model of the Rust code (lean/OHVerif/Model) - tied to /repo only by the differential correspondence check run on every invocation",
    "the correspondence check itself: Rust harness generators, the wire encoding, the per-op comparison relations in lean/OHVerif/Model/Driver*.lean, catch_unwind",
    "rustc/cargo; usize modelled as unbounded Nat (no overflow above 2^64); Clone/PartialEq on labels as Lean equality",
    "modelled, not verified: union-find with path compression and HashMap-based to_dense/sparse_bincount are replaced in the model by canonical-output algorithms (observed only through the contract checks)",
]

ASSUMPTIONS = [
    "the theorems are about the Lean model; they transfer to the Rust only as far as the correspondence check has compared the two (differential testing, coverage reported here)",
    "usize arithmetic never exceeds 2^64 (tables whose sums exceed addressable memory are out of scope)",
]

import os as _os
_LEAN = _os.path.join(_os.path.dirname(_os.path.abspath(__file__)), "lean")

# theorem modules that are finished (complete, no sorry, reviewed); a property is claimed once one
# of its modules is listed here
READY = {
    "OHVerif.Props.C06", "OHVerif.Props.C07", "OHVerif.Props.C08",
    "OHVerif.Lemmas.VecBackend", "OHVerif.Lemmas.Kahn",
    "OHVerif.Props.C01", "OHVerif.Props.C02", "OHVerif.Props.C05",
    "OHVerif.Props.C09", "OHVerif.Props.C11", "OHVerif.Props.C15",
    "OHVerif.Props.C12", "OHVerif.Props.C13", "OHVerif.Props.C14", "OHVerif.Props.C19",
    "OHVerif.Props.C04", "OHVerif.Props.C10", "OHVerif.Props.C17", "OHVerif.Props.C18",
    "OHVerif.Props.C16", "OHVerif.Props.C20", "OHVerif.Props.C03",
    "OHVerif.Props.C12Type", "OHVerif.Props.C14Optic", "OHVerif.Props.C19Build",
    "OHVerif.Props.C10Iso", "OHVerif.Props.C04Lax",
    "OHVerif.Props.C12Subst", "OHVerif.Props.C13Native", "OHVerif.Props.C19Sem", "OHVerif.Props.C14Deriv",
}

def _mods(*names):
    return [n for n in names if n in READY and _os.path.exists(_os.path.join(_LEAN, n.replace(".", "/") + ".lean"))]

_ADV = lambda g, n: [("adv1:" + g, n), ("adv2:" + g, n)]

PROPS = {
    "C01": dict(modules=_mods("OHVerif.Props.C01"), groups=[("oh", 3000), ("law", 600)], deps=[("ff", 500), ("ic", 300), ("hg", 300)],
                missing=[]),
    "C02": dict(modules=_mods("OHVerif.Props.C02"), groups=[("oh", 1500), ("law", 1500), ("lax.cat", 1500)], deps=[("ic", 300), ("ff", 300), ("hg", 300)]),
    "C03": dict(modules=_mods("OHVerif.Props.C03"), groups=[("law", 4000)], deps=[("oh", 800)]),
    "C04": dict(modules=_mods("OHVerif.Props.C04", "OHVerif.Props.C04Lax"), groups=[("law", 2500), ("oh", 1500), ("lax.cat", 1000), ("lawlax", 1500)], deps=[]),
    "C05": dict(modules=_mods("OHVerif.Props.C05", "OHVerif.Props.C12Type", "OHVerif.Props.C14Optic"), groups=[("oh", 1500), ("hg", 1500), ("lax.cat", 800), ("functor", 300), ("dynfunctor", 400), ("optic", 300), ("ic", 1500), ("ff", 600)],
                deps=[("ff", 400), ("ic", 400)]),
    "C06": dict(modules=_mods("OHVerif.Props.C06"), groups=[("ff", 3000)], deps=[("prim", 500)]),
    "C07": dict(modules=_mods("OHVerif.Props.C07", "OHVerif.Lemmas.VecBackend"), groups=[("prim", 3000)], deps=[], release=True),
    "C08": dict(modules=_mods("OHVerif.Props.C08"), groups=[("ic", 3000)], deps=[("ff", 500), ("prim", 500)]),
    "C09": dict(modules=_mods("OHVerif.Props.C09"), groups=[("lax.quot", 3000)], deps=[]),
    "C10": dict(modules=_mods("OHVerif.Props.C10", "OHVerif.Props.C10Iso"), groups=[("lax.cat", 2500), ("lawlax", 1500)], deps=[("oh", 400)]),
    "C11": dict(modules=_mods("OHVerif.Props.C11"), groups=[("lax.edit", 3000), ("lax.cat", 1500)], deps=[],
                missing=["the JSON clause is decided by correspondence only (serde_json's text printer/parser is outside the model): the model's documented JSON text is compared with serde's output and the Rust round trip is executed"]),
    "C12": dict(modules=_mods("OHVerif.Props.C12", "OHVerif.Props.C12Type", "OHVerif.Props.C12Subst"), groups=[("dynfunctor", 1500), ("functor", 800)], deps=[("oh", 400), ("ff", 300)]),
    "C13": dict(modules=_mods("OHVerif.Props.C13", "OHVerif.Props.C13Native"), groups=[("dynfunctor", 2500)], deps=[("lax.cat", 400)]),
    "C14": dict(modules=_mods("OHVerif.Props.C14", "OHVerif.Props.C14Optic", "OHVerif.Props.C14Deriv"), groups=[("optic", 1500)], deps=[("dynfunctor", 300), ("eval", 300)]),
    "C15": dict(modules=_mods("OHVerif.Props.C15", "OHVerif.Lemmas.Kahn"), groups=[("graph", 3000)], deps=[("ic", 400), ("prim", 300)]),
    "C16": dict(modules=_mods("OHVerif.Props.C16"), groups=[("eval", 3000)], deps=[("graph", 600)]),
    "C17": dict(modules=_mods("OHVerif.Props.C17"), groups=[("oh", 2000), ("hg", 1500), ("graph", 800)], deps=[("prim", 300)], release=True),
    "C18": dict(modules=_mods("OHVerif.Props.C18"), groups=[("graph", 3000)], deps=[("ic", 300)]),
    "C19": dict(modules=_mods("OHVerif.Props.C19", "OHVerif.Props.C19Build", "OHVerif.Props.C19Sem"), groups=[("var", 2500)], deps=[("dynfunctor", 300), ("lax.edit", 300)]),
    "C20": dict(modules=_mods("OHVerif.Props.C20"),
                groups=_ADV("oh", 800) + _ADV("law", 600) + _ADV("graph", 700) + _ADV("eval", 600) + _ADV("functor", 300) + _ADV("ff", 500) + _ADV("prim", 500) + _ADV("hg", 400) + _ADV("ic", 300),
                deps=[]),
}
# which ops decide which property (regex on the op name without backend prefix); a disagreement in any
# other op met while running the groups is NOT this property's concern and is ignored by its check
ONLY = {
    "C01": r"oh\.compose$",
    "C02": r"(oh\.tensor|hg\.coproduct|ic\.tensor|ff\.tensor|lax\.tensor|law\.tensor_\w+:eq)$",
    "C03": r"law\.(assoc|id_left|id_right|interchange|twist_natural|twist_twist|hexagon|hexagon_mirror)$",
    "C04": r"(oh\.dagger|oh\.spider|oh\.half_spider|lax\.dagger|lax\.spider|law\.dagger_\w+(:eq)?|law\.spider_fusion|law\.lax_spider_fusion|law\.strict_dagger|law\.identity_is_spider:eq|law\.twist_is_spider:eq)$",
    "C05": r"(hg\.new|oh\.new|ff\.new|ic\.new_\w+|ic\.from_semifinite_\w+|ic\.ops_new|oh\.\w+|lax\.(from_strict|to_strict|identity|spider|singleton|tensor|compose|lax_compose|twist|dagger|source|target)|functor\.\w+|lax\.functor\.\w+|lax\.optic\.\w+)$",
    "C06": r"ff\.",
    "C07": r"prim\.",
    "C08": r"ic\.",
    "C09": r"lax\.edit$",
    "C10": r"(lax\.(from_strict|to_strict|to_hypergraph|compose|lax_compose|tensor|tensor_assign|append|coproduct_assign|identity|twist|spider|dagger|singleton)|law\.(to_from_strict:eq|from_to_strict:lax-eq|strict_\w+))$",
    "C11": r"lax\.(edit|json)$",
    "C12": r"(functor\.\w+|lax\.functor\.map_arrow)$",
    "C13": r"lax\.functor\.(try_map_arrow|map_arrow_witness|map_arrow)$",
    "C14": r"(lax\.optic\.\w+|optic\.deriv)$",
    # the hook-level ops (converse, adjacency, indegree, kahn) are run and compared, but only the public
    # API decides the property: an internal helper may change without the layering changing
    "C15": r"graph\.(layer|layered_operations)$",
    "C16": r"eval\.eval$",
    "C17": r"(oh\.is_monogamous|oh\.is_acyclic|hg\.is_acyclic|hg\.in_degree|hg\.out_degree)$",
    "C18": r"graph\.(arrow_new|is_monomorphism|is_convex_subgraph)$",
    "C19": r"var\.",
    "C20": r"(oh\.(compose|tensor|is_monogamous|is_acyclic)|law\.\w+(:eq)?|graph\.(layer|layered_operations|arrow_new|is_monomorphism|is_convex_subgraph)|eval\.eval|functor\.identity_map_arrow|hg\.is_acyclic|ff\.coequalizer\w*|prim\.(argsort|sort_by|connected_components|sparse_bincount|scatter))$",
}
# C05 is about well-formedness and types only: a disagreement in a diagram-valued op counts for it
# only if the implementation's result is ill-formed or mistyped (fields computed by the driver)
WF_TYPE_ONLY = {"C05"}
for _k in PROPS:
    PROPS[_k]["deps"] = []   # a property's check looks only at the ops that decide it
PROPS = {k: v for k, v in PROPS.items() if v["modules"]}

LEVEL_TEXT = {
    "default": "Theorems about the Lean model are proved for all inputs (kernel-checked, axioms audited); the model is tied to the Rust by a differential correspondence check on every run. The claim is 'proof' for the model and 'differentially validated' for the tie; see evidence for what is proved and what is still covered by correspondence only.",
}
LEVEL_NOTE = {
    "default": "Trusted: Lean kernel; axioms propext/Classical.choice/Quot.sound; the hand-written model and the correspondence check (harness generators, wire encoding, comparison relations); usize as unbounded Nat. Theorems not yet proved for a clause are listed under coverage.missing_for_full_strength in the evidence.",
}
NOT_APPLICABLE = {}
