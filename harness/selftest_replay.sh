#!/bin/bash
# Self-test of the replay mode (`--replay-file`).
#
#  1. for every group: generate N cases (default 300), feed the generated file back through
#     `--replay-file`, and require the replayed output to be byte-identical (same ids, ops,
#     args and freshly computed results);
#  2. the same with the trailing result removed, and with the result replaced by garbage
#     (the result of the input line must be ignored and recomputed);
#  3. every op name emitted anywhere in src/ops_*.rs must be known to the replay dispatcher,
#     and must have been exercised by step 1 (extra seeds are drawn for rare ops);
#  4. unknown ops / undecodable args give `<id> <op> (<args>) undecodable` and do not stop the run.
#
# Exit status: 0 iff everything agrees.
#
# Environment: BIN=<path to an ohharness binary> skips the build; COUNT=<n>; SEED=<n>.
# The binary is copied once and the copy is used throughout, so a concurrent `cargo build`
# (which replaces target/debug/ohharness) cannot disturb a run.
set -u
cd "$(dirname "$0")"
COUNT=${COUNT:-300}
SEED=${SEED:-1}
TMP=$(mktemp -d /tmp/ohreplay.XXXXXX)
trap 'rm -rf "$TMP"' EXIT

if [ -z "${BIN:-}" ]; then
  cargo build --offline 2>"$TMP/build.log" || { cat "$TMP/build.log"; echo "FAIL: build"; exit 1; }
  BIN=./target/debug/ohharness
fi
cp "$BIN" "$TMP/ohharness" || { echo "FAIL: no binary at $BIN"; exit 1; }
EXE="$TMP/ohharness"

GENERIC="prim ff ic hg oh law graph eval functor"
VECONLY="lax.edit lax.quot lax.cat lawlax dynfunctor optic var"
GROUPS_ALL="$GENERIC $VECONLY"
for g in $GENERIC; do GROUPS_ALL="$GROUPS_ALL adv1:$g adv2:$g"; done

fail=0
total=0

# `<id> <op> (<args>) <result>` -> `<id> <op> (<args>)`: cut after the first balanced list
strip_result() {
  awk '{
    line = $0; n = length(line); sp = 0; i = 1
    while (i <= n && sp < 2) { if (substr(line, i, 1) == " ") sp++; i++ }
    d = 0; end = 0
    for (j = i; j <= n; j++) {
      ch = substr(line, j, 1)
      if (ch == "(") d++
      else if (ch == ")") { d--; if (d == 0) { end = j; break } }
    }
    if (end > 0) print substr(line, 1, end); else print line
  }' "$1"
}

# one generate / replay round trip; $1 group, $2 seed, $3 count, $4 tag
round_trip() {
  local g=$1 s=$2 k=$3 tag=$4
  local base="$TMP/$tag"
  "$EXE" --group "$g" --seed "$s" --count "$k" >"$base.gen" 2>"$base.gen.err"
  local rc=$?
  if [ $rc -ne 0 ] || [ ! -s "$base.gen" ]; then
    echo "FAIL [$g seed $s]: generator exited $rc / no output"; fail=1; return
  fi
  "$EXE" --replay-file "$base.gen" >"$base.rep" 2>"$base.rep.err"
  rc=$?
  if [ $rc -ne 0 ]; then echo "FAIL [$g seed $s]: replay exited $rc"; fail=1; return; fi
  if ! cmp -s "$base.gen" "$base.rep"; then
    echo "FAIL [$g seed $s]: replayed output differs from generated output; first differences:"
    diff "$base.gen" "$base.rep" | head -6 | cut -c1-300
    fail=1
  fi
  if grep -q ' undecodable$' "$base.rep"; then
    echo "FAIL [$g seed $s]: generated cases reported undecodable:"
    grep ' undecodable$' "$base.rep" | head -3 | cut -c1-300
    fail=1
  fi
  # result absent / result garbage
  strip_result "$base.gen" >"$base.noresult"
  if cmp -s "$base.gen" "$base.noresult"; then
    echo "FAIL [$g seed $s]: result stripping did not change the file (self-test bug)"; fail=1
  fi
  "$EXE" --replay-file "$base.noresult" >"$base.rep2" 2>/dev/null
  cmp -s "$base.gen" "$base.rep2" || { echo "FAIL [$g seed $s]: replay without results differs"; fail=1; }
  sed 's/$/ (ok bogus 12345)/' "$base.noresult" >"$base.garbage"
  "$EXE" --replay-file "$base.garbage" >"$base.rep3" 2>/dev/null
  cmp -s "$base.gen" "$base.rep3" || { echo "FAIL [$g seed $s]: replay with garbage results differs"; fail=1; }
  local lines
  lines=$(wc -l <"$base.gen")
  total=$((total + lines))
  cut -d' ' -f2 "$base.gen" | sed -E 's/^adv[12]://' >>"$TMP/exercised.txt"
  printf '  %-14s seed %-3s %6d cases  ok\n' "$g" "$s" "$lines"
}

echo "== 1/2. generate -> replay round trips ($COUNT cases per group, seed $SEED)"
: >"$TMP/exercised.txt"
i=0
for g in $GROUPS_ALL; do
  i=$((i + 1))
  round_trip "$g" "$SEED" "$COUNT" "rt$i"
done

echo "== 3. op coverage"
grep -ho 'emit("[^"]*"' src/ops_*.rs | sed -e 's/^emit("//' -e 's/"$//' | sort -u >"$TMP/allops.txt"
nops=$(wc -l <"$TMP/allops.txt")
[ "$nops" -gt 100 ] || { echo "FAIL: found only $nops op names in src/ops_*.rs (self-test bug)"; fail=1; }
# 3a. every op name is known to the dispatcher (probe with an empty argument list)
awk '{ print NR " " $0 " ()" }' "$TMP/allops.txt" >"$TMP/probe.txt"
"$EXE" --replay-file "$TMP/probe.txt" >"$TMP/probe.out" 2>"$TMP/probe.err"
if grep -q 'unknown op' "$TMP/probe.err"; then
  echo "FAIL: ops emitted by the generators but unknown to the replay mode:"
  grep 'unknown op' "$TMP/probe.err" | sed 's/^/    /'
  fail=1
fi
# 3b. every op has been replayed at least once; rare ops get extra seeds
sort -u "$TMP/exercised.txt" >"$TMP/ex.txt"
comm -23 "$TMP/allops.txt" "$TMP/ex.txt" >"$TMP/missing.txt"
extra=0
while [ -s "$TMP/missing.txt" ] && [ $extra -lt 6 ]; do
  extra=$((extra + 1))
  echo "  not yet exercised: $(tr '\n' ' ' <"$TMP/missing.txt")-> extra round $extra"
  j=0
  for g in $GENERIC $VECONLY; do
    j=$((j + 1))
    round_trip "$g" $((SEED + 100 * extra)) $((COUNT * 4)) "x${extra}_$j" >/dev/null
  done
  sort -u "$TMP/exercised.txt" >"$TMP/ex.txt"
  comm -23 "$TMP/allops.txt" "$TMP/ex.txt" >"$TMP/missing.txt"
done
if [ -s "$TMP/missing.txt" ]; then
  echo "FAIL: ops never exercised by the round trips: $(tr '\n' ' ' <"$TMP/missing.txt")"
  fail=1
else
  echo "  all $nops op names known to the dispatcher and exercised"
fi

echo "== 4. undecodable input"
cat >"$TMP/bad.txt" <<'EOF'
# a comment, then an empty line

7 ff.compose (((0 1) 2) ((5 6) 7)) (ok ((5 6) 7))
8 no.such_op (1 2 3) (ok 4)
9 ff.compose (((0 1) 2)) none
10 ff.compose (((0 x) 2) ((5 6) 7))
11 ff.identity (340282366920938463463374607431768211455)
12 ff.identity (3
13 adv1:prim.argsort ((0 0 0 0 0 0))
14 adv2:prim.argsort ((0 0 0 0 0 0)) whatever
15 prim.argsort ((0 0 0 0 0 0))
16 lax.edit ((() () (() () () (() ()))) ((new_node 1) (frobnicate 2)))
17 lax.edit ((() () (() () () (() ()))) ((new_node 1) (add_edge_source 5 0) (new_node 2)))
19 adv2:lax.identity ((1 2))
0 hg.empty ()
20 hg.empty (1)
x1 ff.identity (3)
18 ff.identity (3) (ok junk
EOF
cat >"$TMP/bad.expected" <<'EOF'
7 ff.compose (((0 1) 2) ((5 6) 7)) (ok ((5 6) 7))
8 no.such_op (1 2 3) undecodable
9 ff.compose (((0 1) 2)) undecodable
10 ff.compose (((0 x) 2) ((5 6) 7)) undecodable
11 ff.identity (340282366920938463463374607431768211455) undecodable
12 ff.identity (3 undecodable
13 adv1:prim.argsort ((0 0 0 0 0 0)) (ok (5 4 3 2 1 0))
14 adv2:prim.argsort ((0 0 0 0 0 0)) (ok (0 5 2 4 1 3))
15 prim.argsort ((0 0 0 0 0 0)) (ok (0 1 2 3 4 5))
16 lax.edit ((() () (() () () (() ()))) ((new_node 1) (frobnicate 2))) undecodable
17 lax.edit ((() () (() () () (() ()))) ((new_node 1) (add_edge_source 5 0) (new_node 2))) (ok ((0 (() () ((1) () () (() ())))) panic))
19 adv2:lax.identity ((1 2)) (ok ((0 1) (0 1) ((1 2) () () (() ()))))
0 hg.empty () (ok (((() 1) (() 0)) ((() 1) (() 0)) () ()))
20 hg.empty (1) undecodable
x1 ff.identity (3) undecodable
18 ff.identity (3) (ok ((0 1 2) 3))
EOF
"$EXE" --replay-file "$TMP/bad.txt" >"$TMP/bad.out" 2>/dev/null
rc=$?
if [ $rc -ne 0 ] || ! cmp -s "$TMP/bad.out" "$TMP/bad.expected"; then
  echo "FAIL: handling of unknown ops / undecodable args / backend prefixes (exit $rc):"
  diff "$TMP/bad.expected" "$TMP/bad.out" | cut -c1-300
  fail=1
else
  echo "  unknown ops, undecodable args, backend prefixes, comments: ok"
fi
# standard input
"$EXE" --replay-file - <"$TMP/bad.txt" >"$TMP/bad.out2" 2>/dev/null
cmp -s "$TMP/bad.out" "$TMP/bad.out2" || { echo "FAIL: --replay-file - (stdin) differs"; fail=1; }

if [ $fail -eq 0 ]; then
  echo "PASS: $total cases replayed identically"
  exit 0
fi
echo "FAILED"
exit 1
