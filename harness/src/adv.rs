//! Adversarial, contract-conforming array backends (C20): the same data layout as the Vec
//! backend, but every choice the array contract leaves open is resolved differently:
//!   V = 1: argsort breaks ties by DESCENDING index; connected components numbered in reverse;
//!          sparse bincount lists keys in descending order; scatter fills with the LAST element.
//!   V = 2: argsort breaks ties by a scrambled index order; components numbered by first
//!          occurrence scanning nodes from the END; sparse bincount lists keys in order of
//!          LAST occurrence; scatter fills with the middle element; union by index parity.
use crate::kind::HK;
use core::ops::{Add, Deref, DerefMut, RangeBounds, Sub};
use open_hypergraphs::array::*;

#[derive(PartialEq, Eq, Clone, Debug)]
pub struct AdvKind<const V: u8> {}

#[derive(Clone, Debug, PartialEq)]
pub struct AdvArray<const V: u8, T>(pub Vec<T>);

impl<const V: u8> ArrayKind for AdvKind<V> {
    type Type<T> = AdvArray<V, T>;
    type I = usize;
    type Index = AdvArray<V, usize>;
    type Slice<'a, T: 'a> = &'a [T];
}

impl<const V: u8> AsRef<AdvArray<V, usize>> for AdvArray<V, usize> {
    fn as_ref(&self) -> &AdvArray<V, usize> {
        self
    }
}
impl<const V: u8> AsMut<AdvArray<V, usize>> for AdvArray<V, usize> {
    fn as_mut(&mut self) -> &mut AdvArray<V, usize> {
        self
    }
}
impl<const V: u8, T> Deref for AdvArray<V, T> {
    type Target = Vec<T>;
    fn deref(&self) -> &Vec<T> {
        &self.0
    }
}
impl<const V: u8, T> DerefMut for AdvArray<V, T> {
    fn deref_mut(&mut self) -> &mut Vec<T> {
        &mut self.0
    }
}

fn to_range<R: RangeBounds<usize>>(n: usize, r: R) -> core::ops::Range<usize> {
    use core::ops::Bound;
    let start = match r.start_bound().cloned() {
        Bound::Included(i) => i,
        Bound::Excluded(i) => i + 1,
        Bound::Unbounded => 0,
    };
    let end = match r.end_bound().cloned() {
        Bound::Included(i) => i + 1,
        Bound::Excluded(i) => i,
        Bound::Unbounded => n,
    };
    start..end
}

impl<const V: u8, T: Clone> Array<AdvKind<V>, T> for AdvArray<V, T> {
    fn empty() -> Self {
        AdvArray(vec![])
    }
    fn len(&self) -> usize {
        self.0.len()
    }
    fn from_slice(slice: &[T]) -> Self {
        AdvArray(slice.to_vec())
    }
    fn concatenate(&self, other: &Self) -> Self {
        let mut v = self.0.clone();
        v.extend_from_slice(&other.0);
        AdvArray(v)
    }
    fn fill(x: T, n: usize) -> Self {
        AdvArray(vec![x; n])
    }
    fn get(&self, i: usize) -> T {
        self.0[i].clone()
    }
    fn get_range<R: RangeBounds<usize>>(&self, rb: R) -> &[T] {
        &self.0[to_range(self.0.len(), rb)]
    }
    fn set_range<R: RangeBounds<usize>>(&mut self, rb: R, v: &AdvArray<V, T>) {
        let r = to_range(self.0.len(), rb);
        self.0[r].clone_from_slice(&v.0)
    }
    fn gather(&self, idx: &[usize]) -> Self {
        AdvArray(idx.iter().map(|i| self.0[*i].clone()).collect())
    }
    fn scatter(&self, idx: &[usize], n: usize) -> Self {
        if self.0.is_empty() {
            assert!(idx.is_empty());
            return AdvArray(vec![]);
        }
        // the filler is an open choice: last (V=1) or middle (V=2) element
        let filler = if V == 1 { self.0[self.0.len() - 1].clone() } else { self.0[self.0.len() / 2].clone() };
        let mut y = vec![filler; n];
        for (i, x) in self.0.iter().enumerate() {
            y[idx[i]] = x.clone();
        }
        AdvArray(y)
    }
    fn scatter_assign(&mut self, ixs: &AdvArray<V, usize>, values: Self) {
        for (i, x) in ixs.0.iter().zip(values.0.iter()) {
            self.0[*i] = x.clone();
        }
    }
    fn scatter_assign_constant(&mut self, ixs: &AdvArray<V, usize>, arg: T) {
        for &i in ixs.0.iter() {
            self.0[i] = arg.clone();
        }
    }
}

impl<const V: u8> Add<&AdvArray<V, usize>> for usize {
    type Output = AdvArray<V, usize>;
    fn add(self, rhs: &AdvArray<V, usize>) -> AdvArray<V, usize> {
        AdvArray(rhs.0.iter().map(|x| x + self).collect())
    }
}
impl<const V: u8, T: Clone + Add<Output = T>> Add<AdvArray<V, T>> for AdvArray<V, T> {
    type Output = AdvArray<V, T>;
    fn add(self, rhs: AdvArray<V, T>) -> AdvArray<V, T> {
        assert_eq!(self.0.len(), rhs.0.len());
        AdvArray(self.0.iter().zip(rhs.0.iter()).map(|(x, y)| x.clone() + y.clone()).collect())
    }
}
impl<const V: u8, T: Clone + Sub<Output = T>> Sub<AdvArray<V, T>> for AdvArray<V, T> {
    type Output = AdvArray<V, T>;
    fn sub(self, rhs: AdvArray<V, T>) -> AdvArray<V, T> {
        assert_eq!(self.0.len(), rhs.0.len());
        AdvArray(self.0.iter().zip(rhs.0.iter()).map(|(x, y)| x.clone() - y.clone()).collect())
    }
}

fn scramble(i: usize) -> usize {
    // a fixed bijection-ish key used only to order equal elements
    (i.wrapping_mul(0x9E3779B97F4A7C15usize)) ^ (i >> 3)
}

impl<const V: u8, T: Ord + Clone> OrdArray<AdvKind<V>, T> for AdvArray<V, T> {
    fn argsort(&self) -> AdvArray<V, usize> {
        let mut idx: Vec<usize> = (0..self.0.len()).collect();
        if V == 1 {
            idx.sort_by(|a, b| self.0[*a].cmp(&self.0[*b]).then(b.cmp(a)));
        } else {
            idx.sort_by(|a, b| self.0[*a].cmp(&self.0[*b]).then(scramble(*a).cmp(&scramble(*b))));
        }
        AdvArray(idx)
    }
}

fn find(parent: &mut Vec<usize>, x: usize) -> usize {
    let mut r = x;
    while parent[r] != r {
        r = parent[r];
    }
    let mut c = x;
    while parent[c] != r {
        let nxt = parent[c];
        parent[c] = r;
        c = nxt;
    }
    r
}

impl<const V: u8> NaturalArray<AdvKind<V>> for AdvArray<V, usize> {
    fn max(&self) -> Option<usize> {
        self.0.iter().max().copied()
    }
    fn cumulative_sum(&self) -> Self {
        let mut v = Vec::with_capacity(self.0.len() + 1);
        let mut a = 0;
        for x in self.0.iter() {
            v.push(a);
            a += x;
        }
        v.push(a);
        AdvArray(v)
    }
    fn arange(start: &usize, stop: &usize) -> Self {
        assert!(stop >= start);
        AdvArray((*start..*stop).collect())
    }
    fn repeat(&self, x: &[usize]) -> Self {
        assert_eq!(self.0.len(), x.len());
        let mut v = vec![];
        for (k, xi) in self.0.iter().zip(x) {
            for _ in 0..*k {
                v.push(*xi);
            }
        }
        AdvArray(v)
    }
    fn quot_rem(&self, d: usize) -> (Self, Self) {
        assert!(d != 0);
        (AdvArray(self.0.iter().map(|x| x / d).collect()), AdvArray(self.0.iter().map(|x| x % d).collect()))
    }
    fn mul_constant_add(&self, c: usize, x: &Self) -> Self {
        assert_eq!(self.0.len(), x.0.len());
        AdvArray(self.0.iter().zip(x.0.iter()).map(|(s, x)| s * c + x).collect())
    }
    fn connected_components(sources: &Self, targets: &Self, n: usize) -> (Self, usize) {
        assert_eq!(sources.0.len(), targets.0.len());
        assert!(n > 0 || sources.0.is_empty());
        let mut parent: Vec<usize> = (0..n).collect();
        for (u, v) in sources.0.iter().zip(targets.0.iter()) {
            let (ru, rv) = (find(&mut parent, *u), find(&mut parent, *v));
            if ru != rv {
                // union rule differs from the Vec backend (larger index wins / parity)
                if V == 1 {
                    let (a, b) = if ru > rv { (ru, rv) } else { (rv, ru) };
                    parent[b] = a;
                } else if (ru + rv) % 2 == 0 {
                    parent[ru] = rv;
                } else {
                    parent[rv] = ru;
                }
            }
        }
        let roots: Vec<usize> = (0..n).map(|i| find(&mut parent, i)).collect();
        // dense numbering: scan nodes from the END, then (V=1) reverse the numbers
        let mut number = vec![usize::MAX; n];
        let mut k = 0;
        for i in (0..n).rev() {
            if number[roots[i]] == usize::MAX {
                number[roots[i]] = k;
                k += 1;
            }
        }
        let labels: Vec<usize> = (0..n).map(|i| if V == 1 { k - 1 - number[roots[i]] } else { number[roots[i]] }).collect();
        // V=1: reversed numbering of a from-the-end scan = numbering by ... still a dense numbering;
        // make it differ from Vec's by rotating by one when there are at least two components
        let labels = if V == 1 && k >= 2 { labels.iter().map(|c| (c + 1) % k).collect() } else { labels };
        (AdvArray(labels), k)
    }
    fn bincount(&self, size: usize) -> AdvArray<V, usize> {
        let mut counts = vec![0; size];
        for &i in self.0.iter() {
            counts[i] += 1;
        }
        AdvArray(counts)
    }
    fn sparse_bincount(&self) -> (AdvArray<V, usize>, AdvArray<V, usize>) {
        let mut keys: Vec<usize> = vec![];
        if V == 1 {
            keys = self.0.clone();
            keys.sort_unstable_by(|a, b| b.cmp(a));
            keys.dedup();
        } else {
            // order of LAST occurrence
            for x in self.0.iter().rev() {
                if !keys.contains(x) {
                    keys.push(*x);
                }
            }
        }
        let counts: Vec<usize> = keys.iter().map(|k| self.0.iter().filter(|x| *x == k).count()).collect();
        (AdvArray(keys), AdvArray(counts))
    }
    fn zero(&self) -> AdvArray<V, usize> {
        AdvArray(self.0.iter().enumerate().filter(|(_, v)| **v == 0).map(|(i, _)| i).collect())
    }
    fn scatter_sub_assign(&mut self, ixs: &AdvArray<V, usize>, rhs: &AdvArray<V, usize>) {
        for i in 0..ixs.0.len() {
            self.0[ixs.0[i]] -= rhs.0[i];
        }
    }
}

impl<const V: u8> HK for AdvKind<V> {
    const NAME: &'static str = "adv";
    fn idx(v: Vec<usize>) -> AdvArray<V, usize> {
        AdvArray(v)
    }
    fn unidx(a: &AdvArray<V, usize>) -> Vec<usize> {
        a.0.clone()
    }
    fn arr(v: Vec<usize>) -> AdvArray<V, usize> {
        AdvArray(v)
    }
    fn unarr(a: &AdvArray<V, usize>) -> Vec<usize> {
        a.0.clone()
    }
    fn arr64(v: Vec<u64>) -> AdvArray<V, u64> {
        AdvArray(v)
    }
    fn unarr64(a: &AdvArray<V, u64>) -> Vec<u64> {
        a.0.clone()
    }
    fn slice<'a>(a: &'a [usize]) -> &'a [usize] {
        a
    }
}
