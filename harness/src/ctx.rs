//! Output context: one line per case, statistics for the evidence.
use crate::rng::Rng;
use crate::wire::Sx;
use std::collections::BTreeMap;
use std::panic::{catch_unwind, AssertUnwindSafe};

pub struct Ctx {
    pub out: String,
    pub id: usize,
    pub rng: Rng,
    pub prefix: &'static str,
    /// op -> result kind -> count
    pub stats: BTreeMap<String, BTreeMap<&'static str, usize>>,
    /// knob -> count
    pub knobs: BTreeMap<&'static str, usize>,
    pub size: usize,
}

impl Ctx {
    pub fn new(seed: u64, prefix: &'static str, size: usize) -> Self {
        Ctx {
            out: String::new(),
            id: 0,
            rng: Rng::new(seed),
            prefix,
            stats: BTreeMap::new(),
            knobs: BTreeMap::new(),
            size,
        }
    }
    pub fn knob(&mut self, k: &'static str) {
        *self.knobs.entry(k).or_insert(0) += 1;
    }
    /// run `f` (the real library code) under catch_unwind and write the case line
    pub fn emit(&mut self, op: &str, args: Vec<Sx>, f: impl FnOnce() -> Sx) {
        let r = match catch_unwind(AssertUnwindSafe(f)) {
            Ok(r) => r,
            Err(_) => Sx::S("panic"),
        };
        let kind: &'static str = match &r {
            Sx::S("panic") => "panic",
            Sx::S("none") => "none",
            Sx::S("reject") => "reject",
            Sx::L(v) if matches!(v.first(), Some(Sx::S("err"))) => "err",
            _ => "ok",
        };
        *self
            .stats
            .entry(op.to_string())
            .or_default()
            .entry(kind)
            .or_insert(0) += 1;
        self.id = self.id.wrapping_add(1); // (replay mode sets `id` from the input line)
        use std::fmt::Write;
        let _ = write!(self.out, "{} {}{} ", self.id, self.prefix, op);
        Sx::L(args).write(&mut self.out);
        self.out.push(' ');
        r.write(&mut self.out);
        self.out.push('\n');
    }
}
