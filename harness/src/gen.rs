//! Structured generators (mostly valid) and a malformed stream, all driven by one PRNG.
use crate::ctx::Ctx;
use crate::raw::*;
use crate::rng::Rng;

/// a list of length ≤ max_len with entries < bound (bound ≥ 1)
pub fn list_below(r: &mut Rng, max_len: usize, bound: usize) -> Vec<usize> {
    let len = r.size(max_len);
    r.vec_below(len, bound.max(1))
}

/// a finite function; well-formed unless `malformed`
pub fn ff(r: &mut Rng, max_src: usize, max_tgt: usize) -> RFF {
    let target = r.range(0, max_tgt);
    let len = if target == 0 { 0 } else { r.size(max_src) };
    RFF::new(r.vec_below(len, target.max(1)), target)
}

pub fn ff_to(r: &mut Rng, max_src: usize, target: usize) -> RFF {
    let len = if target == 0 { 0 } else { r.size(max_src) };
    RFF::new(r.vec_below(len, target.max(1)), target)
}

pub fn ff_from_to(r: &mut Rng, source: usize, target: usize) -> RFF {
    assert!(target > 0 || source == 0);
    RFF::new(r.vec_below(source, target.max(1)), target)
}

/// a finite function with exactly one entry out of range (by one or by more)
pub fn ff_malformed(r: &mut Rng, max_src: usize, max_tgt: usize) -> RFF {
    let mut f = ff(r, max_src.max(1), max_tgt);
    if f.table.is_empty() {
        f.table.push(0);
    }
    let i = r.below(f.table.len());
    f.table[i] = f.target + if r.chance(3, 4) { 0 } else { r.range(1, 3) };
    f
}

pub fn surjection(r: &mut Rng, max_src: usize, max_tgt: usize) -> RFF {
    let target = r.range(0, max_tgt);
    let extra = r.size(max_src.saturating_sub(target));
    let mut table: Vec<usize> = (0..target).collect();
    if target > 0 {
        for _ in 0..extra {
            table.push(r.below(target));
        }
    }
    r.shuffle(&mut table);
    RFF::new(table, target)
}

pub fn segs(r: &mut Rng, max_segs: usize, max_len: usize, bound: usize) -> Vec<Vec<usize>> {
    let k = r.size(max_segs);
    (0..k)
        .map(|_| {
            if bound == 0 {
                vec![]
            } else {
                let len = r.size(max_len);
                r.vec_below(len, bound)
            }
        })
        .collect()
}

pub fn segs_n(r: &mut Rng, k: usize, max_len: usize, bound: usize) -> Vec<Vec<usize>> {
    (0..k)
        .map(|_| {
            if bound == 0 {
                vec![]
            } else {
                let len = r.size(max_len);
                r.vec_below(len, bound)
            }
        })
        .collect()
}

pub fn icf(r: &mut Rng, max_segs: usize, max_len: usize, target: usize) -> RICF {
    RICF::from_segs(&segs(r, max_segs, max_len, target), target)
}
pub fn ics(r: &mut Rng, max_segs: usize, max_len: usize, labels: usize) -> RICS {
    RICS::from_segs(&segs(r, max_segs, max_len, labels.max(1)))
}

/// break the segmented-array invariant in exactly one way
pub fn icf_malformed(r: &mut Rng, max_segs: usize, max_len: usize, target: usize) -> RICF {
    let mut c = icf(r, max_segs.max(1), max_len, target.max(1));
    match r.below(4) {
        0 => c.sources.target += 1,
        1 => c.sources.target = c.sources.target.saturating_sub(1),
        2 => {
            if c.sources.table.is_empty() {
                c.sources.table.push(1)
            } else {
                let i = r.below(c.sources.table.len());
                c.sources.table[i] += 1
            }
        }
        _ => c.values.table.push(0),
    }
    c
}

#[derive(Clone, Copy)]
pub struct HgParams {
    pub max_nodes: usize,
    pub max_edges: usize,
    pub max_arity: usize,
    pub node_labels: usize,
    pub edge_labels: usize,
}

pub fn hg_params(size: usize) -> HgParams {
    HgParams {
        max_nodes: size,
        max_edges: (size * 2) / 3 + 1,
        max_arity: 3,
        node_labels: 3,
        edge_labels: 4,
    }
}

/// a well-formed hypergraph over `w` (node labels given)
pub fn hg_over(r: &mut Rng, w: Vec<usize>, p: &HgParams) -> RHG {
    let nn = w.len();
    let ne = r.size(p.max_edges);
    let s = RICF::from_segs(&segs_n(r, ne, p.max_arity, nn), nn);
    let t = RICF::from_segs(&segs_n(r, ne, p.max_arity, nn), nn);
    let x = r.vec_below(ne, p.edge_labels);
    RHG { s, t, w, x }
}

pub fn hg(r: &mut Rng, p: &HgParams) -> RHG {
    let nn = r.size(p.max_nodes);
    let w = r.vec_below(nn, p.node_labels);
    hg_over(r, w, p)
}

/// a well-formed open hypergraph; interfaces may repeat and share nodes
pub fn oh(r: &mut Rng, p: &HgParams) -> ROH {
    let h = hg(r, p);
    let nn = h.w.len();
    let s = ff_to(r, p.max_arity + 1, nn);
    let t = ff_to(r, p.max_arity + 1, nn);
    ROH { s, t, h }
}

/// an open hypergraph whose source type is the given label list
pub fn oh_with_source(r: &mut Rng, src_ty: &[usize], p: &HgParams) -> ROH {
    // choose nodes: first place the boundary (possibly sharing nodes of equal label), then extras
    let mut w: Vec<usize> = vec![];
    let mut s_table = vec![];
    for &lab in src_ty {
        // reuse an existing node of the same label with probability 1/3
        let cands: Vec<usize> = (0..w.len()).filter(|i| w[*i] == lab).collect();
        if !cands.is_empty() && r.chance(1, 3) {
            s_table.push(*r.pick(&cands));
        } else {
            w.push(lab);
            s_table.push(w.len() - 1);
        }
    }
    let extra = r.size(p.max_nodes);
    for _ in 0..extra {
        w.push(r.below(p.node_labels));
    }
    // shuffle node numbering so that boundary nodes are not always first
    let nn = w.len();
    let mut perm: Vec<usize> = (0..nn).collect();
    r.shuffle(&mut perm);
    let mut w2 = vec![0; nn];
    for i in 0..nn {
        w2[perm[i]] = w[i];
    }
    let s_table: Vec<usize> = s_table.iter().map(|i| perm[*i]).collect();
    let h = hg_over(r, w2, p);
    let t = ff_to(r, p.max_arity + 1, nn);
    ROH {
        s: RFF::new(s_table, nn),
        t,
        h,
    }
}

pub fn oh_type(f: &ROH) -> (Vec<usize>, Vec<usize>) {
    (
        f.s.table.iter().map(|i| f.h.w[*i]).collect(),
        f.t.table.iter().map(|i| f.h.w[*i]).collect(),
    )
}

/// an edge-less diagram (a spider) whose source type is `ty`: identity-like, permutation-like, or
/// with equal / unequal NON-INJECTIVE legs, possibly with isolated nodes
pub fn cospan_with_source(r: &mut Rng, src_ty: &[usize], p: &HgParams) -> ROH {
    let k = src_ty.len();
    // nodes: merge boundary points of equal label at random
    let mut w: Vec<usize> = vec![];
    let mut s_table = vec![];
    let merge = r.below(3); // 0: never (bijective leg), 1: sometimes, 2: as much as possible
    for &lab in src_ty {
        let cands: Vec<usize> = (0..w.len()).filter(|i| w[*i] == lab).collect();
        if !cands.is_empty() && (merge == 2 || (merge == 1 && r.chance(1, 2))) {
            s_table.push(*r.pick(&cands));
        } else {
            w.push(lab);
            s_table.push(w.len() - 1);
        }
    }
    match r.below(4) {
        0 => {
            // pad with isolated nodes so that the leg has as many entries as there are nodes or fewer
            for _ in 0..r.size(2) {
                w.push(r.below(p.node_labels));
            }
        }
        1 => {
            // as many boundary points as nodes although the leg is not injective
            while w.len() < k {
                w.push(r.below(p.node_labels));
            }
        }
        _ => {}
    }
    let nn = w.len();
    let t_table = match r.below(4) {
        0 | 1 => s_table.clone(), // equal legs
        2 => {
            let mut t = s_table.clone();
            r.shuffle(&mut t);
            t
        }
        _ => ff_to(r, p.max_arity + 1, nn).table,
    };
    ROH {
        s: RFF::new(s_table, nn),
        t: RFF::new(t_table, nn),
        h: RHG { s: RICF::from_segs(&[], nn), t: RICF::from_segs(&[], nn), w, x: vec![] },
    }
}

pub fn dagger(f: &ROH) -> ROH {
    ROH { s: f.t.clone(), t: f.s.clone(), h: f.h.clone() }
}

/// a pair composable at the boundary (f ; g defined); now and then one operand is a spider
pub fn composable_pair(r: &mut Rng, p: &HgParams) -> (ROH, ROH) {
    match r.below(8) {
        0 | 1 => {
            let f = oh(r, p);
            let (_, b) = oh_type(&f);
            let g = cospan_with_source(r, &b, p);
            (f, g)
        }
        2 => {
            // spider on the left: its dagger has the wanted TARGET type
            let g = oh(r, p);
            let (a, _) = oh_type(&g);
            let f = dagger(&cospan_with_source(r, &a, p));
            (f, g)
        }
        _ => {
            let f = oh(r, p);
            let (_, b) = oh_type(&f);
            let g = oh_with_source(r, &b, p);
            (f, g)
        }
    }
}

pub fn knobs_oh(c: &mut Ctx, f: &ROH) {
    if f.h.w.is_empty() {
        c.knob("oh:no-nodes");
    }
    if f.h.x.is_empty() {
        c.knob("oh:no-edges");
    }
    if f.s.table.is_empty() || f.t.table.is_empty() {
        c.knob("oh:empty-interface");
    }
    let mut seen = std::collections::HashSet::new();
    if f.s.table.iter().chain(f.t.table.iter()).any(|x| !seen.insert(*x)) {
        c.knob("oh:boundary-node-repeated-or-shared");
    }
    if f.h.s.sources.table.iter().zip(f.h.t.sources.table.iter()).any(|(a, b)| *a == 0 && *b == 0) {
        c.knob("oh:zero-arity-edge");
    }
    for seg in f.h.s.segs().iter().chain(f.h.t.segs().iter()) {
        let mut s2 = std::collections::HashSet::new();
        if seg.iter().any(|x| !s2.insert(*x)) {
            c.knob("oh:node-repeated-in-edge");
            break;
        }
    }
    let mut touched = vec![false; f.h.w.len()];
    for x in f.h.s.values.table.iter().chain(f.h.t.values.table.iter()) {
        touched[*x] = true;
    }
    if touched.iter().any(|t| !t) {
        c.knob("oh:isolated-node");
    }
}

/// make `h` acyclic by construction with paths of VARIED length: rank the nodes by a random
/// permutation, give every hyperedge a random threshold, keep its sources of rank <= threshold and
/// its targets of rank > threshold.  A node can then have predecessors at different depths (joins of
/// unequal arms, shortcuts).  Sometimes one backward connection is put back, closing a cycle that
/// runs through such a structure.
pub fn dagify(r: &mut Rng, h: &mut RHG) -> &'static str {
    let nn = h.w.len();
    let ne = h.x.len();
    if nn == 0 || ne == 0 {
        return "dag:empty";
    }
    let mut rank: Vec<usize> = (0..nn).collect();
    r.shuffle(&mut rank);
    let mut ss = h.s.segs();
    let mut ts = h.t.segs();
    for e in 0..ne {
        let th = r.below(nn);
        ss[e].retain(|v| rank[*v] <= th);
        ts[e].retain(|v| rank[*v] > th);
        if ss[e].is_empty() && r.chance(2, 3) {
            // keep the edge connected: a source of minimal rank
            let v = (0..nn).find(|v| rank[*v] <= th).unwrap();
            ss[e].push(v);
        }
        if ts[e].is_empty() && th + 1 < nn && r.chance(2, 3) {
            let v = (0..nn).find(|v| rank[*v] > th).unwrap();
            ts[e].push(v);
        }
    }
    let mut knob = "dag:by-rank";
    if r.chance(1, 4) {
        // one backward connection: target of rank <= some source's rank
        let e = r.below(ne);
        if let Some(&sv) = ss[e].first() {
            if let Some(v) = (0..nn).find(|v| rank[*v] <= rank[sv]) {
                ts[e].push(v);
                knob = "dag:by-rank+one-back-edge";
            }
        }
    }
    h.s = RICF::from_segs(&ss, nn);
    h.t = RICF::from_segs(&ts, nn);
    knob
}

/// a hypergraph with real dependency structure: 4..=(size+6) nodes ranked by a random permutation,
/// 3..=(size+4) hyperedges each with 1-2 sources and 1-3 targets, every target ranked above every
/// source (so it is acyclic, with joins of arms of unequal length, shared successors listed between
/// other successors, nodes reached twice in one step); sometimes one backward target closes a cycle.
pub fn dag_hg(r: &mut Rng, size: usize, p: &HgParams) -> (RHG, &'static str) {
    let nn = r.range(4, size + 6);
    let ne = r.range(3, size + 4);
    let mut rank: Vec<usize> = (0..nn).collect();
    r.shuffle(&mut rank);
    // by_rank[k] = the node of rank k
    let mut by_rank = vec![0usize; nn];
    for (v, k) in rank.iter().enumerate() {
        by_rank[*k] = v;
    }
    let mut ss: Vec<Vec<usize>> = vec![];
    let mut ts: Vec<Vec<usize>> = vec![];
    for _ in 0..ne {
        let cut = r.range(1, nn - 1); // sources among ranks < cut, targets among ranks >= cut
        let ns = r.range(1, 2);
        let nt = r.range(1, 3);
        // sources close to the cut or far below it; targets close to the cut or far above it
        ss.push((0..ns).map(|_| by_rank[if r.chance(1, 2) { cut - 1 } else { r.below(cut) }]).collect());
        ts.push((0..nt).map(|_| by_rank[if r.chance(1, 2) { cut } else { r.range(cut, nn - 1) }]).collect());
    }
    let mut knob = "dag:ranked-hyperedges";
    if r.chance(1, 5) {
        let e = r.below(ne);
        let lo = ss[e].iter().map(|v| rank[*v]).min().unwrap();
        ts[e].push(by_rank[r.below(lo + 1)]);
        knob = "dag:ranked-hyperedges+one-back-edge";
    }
    let w = r.vec_below(nn, p.node_labels);
    let x = r.vec_below(ne, p.edge_labels);
    (RHG { s: RICF::from_segs(&ss, nn), t: RICF::from_segs(&ts, nn), w, x }, knob)
}
