//! `HK`: an `ArrayKind` over `usize` whose arrays can be converted from/to `Vec`.
//! Every strict-module op of the harness is generic over it, so the same code drives the Vec
//! backend and the adversarial contract-conforming backends (C20).
use open_hypergraphs::array::vec::{VecArray, VecKind};
use open_hypergraphs::array::*;

pub trait HK: ArrayKind<I = usize> + Sized + 'static
where
    Self::Type<usize>: NaturalArray<Self> + PartialEq,
    Self::Type<u64>: Array<Self, u64> + PartialEq,
{
    const NAME: &'static str;
    fn idx(v: Vec<usize>) -> Self::Index;
    fn unidx(a: &Self::Index) -> Vec<usize>;
    fn arr(v: Vec<usize>) -> Self::Type<usize>;
    fn unarr(a: &Self::Type<usize>) -> Vec<usize>;
    fn arr64(v: Vec<u64>) -> Self::Type<u64>;
    fn unarr64(a: &Self::Type<u64>) -> Vec<u64>;
    /// a read-only slice view of an index array
    fn slice<'a>(a: &'a [usize]) -> Self::Slice<'a, usize>;
}

impl HK for VecKind {
    const NAME: &'static str = "vec";
    fn idx(v: Vec<usize>) -> VecArray<usize> {
        VecArray(v)
    }
    fn unidx(a: &VecArray<usize>) -> Vec<usize> {
        a.0.clone()
    }
    fn arr(v: Vec<usize>) -> VecArray<usize> {
        VecArray(v)
    }
    fn unarr(a: &VecArray<usize>) -> Vec<usize> {
        a.0.clone()
    }
    fn arr64(v: Vec<u64>) -> VecArray<u64> {
        VecArray(v)
    }
    fn unarr64(a: &VecArray<u64>) -> Vec<u64> {
        a.0.clone()
    }
    fn slice<'a>(a: &'a [usize]) -> &'a [usize] {
        a
    }
}
