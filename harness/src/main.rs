mod adv;
mod ctx;
mod gen;
mod kind;
mod ops_ff;
mod ops_functor;
mod ops_graph;
mod ops_ic;
mod ops_lax;
mod ops_prim;
mod ops_strict;
mod raw;
mod replay;
mod rng;
mod wire;

use ctx::Ctx;
use open_hypergraphs::array::vec::VecKind;
use std::io::Write;

fn arg(args: &[String], name: &str, default: &str) -> String {
    args.iter()
        .position(|a| a == name)
        .and_then(|i| args.get(i + 1).cloned())
        .unwrap_or_else(|| default.to_string())
}

fn main() {
    // panics of the library under test are expected and caught; keep stderr quiet
    std::panic::set_hook(Box::new(|_| {}));
    let args: Vec<String> = std::env::args().collect();
    let group = arg(&args, "--group", "prim");
    let seed: u64 = arg(&args, "--seed", "1").parse().unwrap();
    let count: usize = arg(&args, "--count", "1000").parse().unwrap();
    let size: usize = arg(&args, "--size", "6").parse().unwrap();
    let stats_path = arg(&args, "--stats", "");
    // replay mode: re-execute the cases of a file (one per line, the format printed below)
    // instead of generating them; `--group`, `--seed`, `--count`, `--size` are not used
    let replay_path = arg(&args, "--replay-file", "");

    let (backend, g) = if let Some(r) = group.strip_prefix("adv1:") {
        (1, r.to_string())
    } else if let Some(r) = group.strip_prefix("adv2:") {
        (2, r.to_string())
    } else {
        (0, group.clone())
    };
    let prefix: &'static str = match backend {
        1 => "adv1:",
        2 => "adv2:",
        _ => "",
    };
    let mut c = Ctx::new(seed ^ fxhash(&g), prefix, size);
    if !replay_path.is_empty() {
        if let Err(e) = replay::run_file(&mut c, &replay_path) {
            eprintln!("cannot read {}: {}", replay_path, e);
            std::process::exit(2);
        }
    } else {
        match backend {
            0 => run_generic::<VecKind>(&mut c, &g, count),
            1 => run_generic::<adv::AdvKind<1>>(&mut c, &g, count),
            _ => run_generic::<adv::AdvKind<2>>(&mut c, &g, count),
        }
    }
    let stdout = std::io::stdout();
    let mut lock = stdout.lock();
    lock.write_all(c.out.as_bytes()).unwrap();
    if !stats_path.is_empty() {
        let mut s = String::from("{\"ops\":{");
        let mut first = true;
        for (op, kinds) in &c.stats {
            if !first {
                s.push(',');
            }
            first = false;
            s.push_str(&format!("\"{}\":{{", op));
            let mut f2 = true;
            for (k, v) in kinds {
                if !f2 {
                    s.push(',');
                }
                f2 = false;
                s.push_str(&format!("\"{}\":{}", k, v));
            }
            s.push('}');
        }
        s.push_str("},\"knobs\":{");
        let mut first = true;
        for (k, v) in &c.knobs {
            if !first {
                s.push(',');
            }
            first = false;
            s.push_str(&format!("\"{}\":{}", k, v));
        }
        s.push_str("}}");
        std::fs::write(stats_path, s).unwrap();
    }
}

fn run_generic<K: kind::HK>(c: &mut Ctx, g: &str, count: usize)
where
    K::Type<usize>: open_hypergraphs::array::NaturalArray<K> + PartialEq,
    K::Type<u64>: open_hypergraphs::array::Array<K, u64> + PartialEq,
{
    match g {
        "prim" => ops_prim::PrimOps::<K>::run(c, count),
        "ff" => ops_ff::FfOps::<K>::run(c, count),
        "ic" => ops_ic::IcOps::<K>::run(c, count),
        "hg" => ops_strict::StrictOps::<K>::run_hg(c, count),
        "oh" => ops_strict::StrictOps::<K>::run_oh(c, count),
        "law" => ops_strict::StrictOps::<K>::run_law(c, count),
        "graph" => ops_graph::GraphOps::<K>::run_graph(c, count),
        "eval" => ops_graph::GraphOps::<K>::run_eval(c, count),
        "functor" => ops_functor::run_functor::<K>(c, count),
        // Vec-only groups (the lax module is written against VecKind)
        "lax.edit" => ops_lax::run_edit(c, count, false),
        "lax.quot" => ops_lax::run_edit(c, count, true),
        "lax.cat" => ops_lax::run_cat(c, count),
        "lawlax" => ops_lax::run_lawlax(c, count),
        "dynfunctor" => ops_functor::run_dyn(c, count),
        "optic" => ops_functor::run_optic(c, count),
        "var" => ops_functor::run_var(c, count),
        g => {
            eprintln!("unknown group {}", g);
            std::process::exit(2);
        }
    }
}

fn fxhash(s: &str) -> u64 {
    let mut h: u64 = 0xcbf29ce484222325;
    for b in s.bytes() {
        h ^= b as u64;
        h = h.wrapping_mul(0x100000001b3);
    }
    h
}
