mod ctx;
mod gen;
mod kind;
mod ops_ff;
mod ops_functor;
mod ops_graph;
mod ops_ic;
mod ops_lax;
mod ops_prim;
mod ops_strict;
mod raw;
mod rng;
mod wire;

use ctx::Ctx;
use open_hypergraphs::array::vec::VecKind;
use std::io::Write;

fn arg(args: &[String], name: &str, default: &str) -> String {
    args.iter()
        .position(|a| a == name)
        .and_then(|i| args.get(i + 1).cloned())
        .unwrap_or_else(|| default.to_string())
}

fn main() {
    // panics of the library under test are expected and caught; keep stderr quiet
    std::panic::set_hook(Box::new(|_| {}));
    let args: Vec<String> = std::env::args().collect();
    let group = arg(&args, "--group", "prim");
    let seed: u64 = arg(&args, "--seed", "1").parse().unwrap();
    let count: usize = arg(&args, "--count", "1000").parse().unwrap();
    let size: usize = arg(&args, "--size", "6").parse().unwrap();
    let stats_path = arg(&args, "--stats", "");

    let mut c = Ctx::new(seed ^ fxhash(&group), "", size);
    match group.as_str() {
        "prim" => ops_prim::PrimOps::<VecKind>::run(&mut c, count),
        "ff" => ops_ff::FfOps::<VecKind>::run(&mut c, count),
        "ic" => ops_ic::IcOps::<VecKind>::run(&mut c, count),
        "hg" => ops_strict::StrictOps::<VecKind>::run_hg(&mut c, count),
        "oh" => ops_strict::StrictOps::<VecKind>::run_oh(&mut c, count),
        "graph" => ops_graph::GraphOps::<VecKind>::run_graph(&mut c, count),
        "eval" => ops_graph::GraphOps::<VecKind>::run_eval(&mut c, count),
        "lax.edit" => ops_lax::run_edit(&mut c, count, false),
        "lax.quot" => ops_lax::run_edit(&mut c, count, true),
        "lax.cat" => ops_lax::run_cat(&mut c, count),
        "lawlax" => ops_lax::run_lawlax(&mut c, count),
        "functor" => ops_functor::run_functor::<VecKind>(&mut c, count),
        "dynfunctor" => ops_functor::run_dyn(&mut c, count),
        "optic" => ops_functor::run_optic(&mut c, count),
        "var" => ops_functor::run_var(&mut c, count),
        "law" => ops_strict::StrictOps::<VecKind>::run_law(&mut c, count),
        g => {
            eprintln!("unknown group {}", g);
            std::process::exit(2);
        }
    }
    let stdout = std::io::stdout();
    let mut lock = stdout.lock();
    lock.write_all(c.out.as_bytes()).unwrap();
    if !stats_path.is_empty() {
        let mut s = String::from("{\"ops\":{");
        let mut first = true;
        for (op, kinds) in &c.stats {
            if !first {
                s.push(',');
            }
            first = false;
            s.push_str(&format!("\"{}\":{{", op));
            let mut f2 = true;
            for (k, v) in kinds {
                if !f2 {
                    s.push(',');
                }
                f2 = false;
                s.push_str(&format!("\"{}\":{}", k, v));
            }
            s.push('}');
        }
        s.push_str("},\"knobs\":{");
        let mut first = true;
        for (k, v) in &c.knobs {
            if !first {
                s.push(',');
            }
            first = false;
            s.push_str(&format!("\"{}\":{}", k, v));
        }
        s.push_str("}}");
        std::fs::write(stats_path, s).unwrap();
    }
}

fn fxhash(s: &str) -> u64 {
    let mut h: u64 = 0xcbf29ce484222325;
    for b in s.bytes() {
        h ^= b as u64;
        h = h.wrapping_mul(0x100000001b3);
    }
    h
}
