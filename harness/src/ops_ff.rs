//! Group `ff`: finite functions (C06), at any `HK` backend.
use crate::ctx::Ctx;
use crate::gen;
use crate::kind::HK;
use crate::raw::*;
use crate::wire::*;
use open_hypergraphs::array::*;
use open_hypergraphs::category::*;
use open_hypergraphs::finite_function::{coequalizer_universal, FiniteFunction};
use open_hypergraphs::semifinite::*;
use std::marker::PhantomData;

pub struct FfOps<K>(PhantomData<K>);

/// raw data of one operand of `ff.semifinite_arrow_compose` (wire kinds 0, 1, 2)
#[derive(Clone, Debug)]
pub enum RSide {
    Identity,
    Finite(RFF),
    Semifinite(Vec<usize>),
}

impl<K: HK> FfOps<K>
where
    K::Type<usize>: NaturalArray<K> + PartialEq,
    K::Type<u64>: Array<K, u64> + PartialEq,
{
    fn e(f: &FF<K>) -> Sx {
        Cv::<K>::rff(f).enc()
    }
    fn eo(f: Option<FF<K>>) -> Sx {
        opt(f.map(|f| Self::e(&f)))
    }

    // ---- op bodies: the calls into the real library, shared by the generator and the replay mode

    pub fn op_new(table: Vec<usize>, target: usize) -> Sx {
        Self::eo(FiniteFunction::<K>::new(K::idx(table), target))
    }
    pub fn op_identity(a: usize) -> Sx {
        ok(Self::e(&FiniteFunction::<K>::identity(a)))
    }
    pub fn op_initial(a: usize) -> Sx {
        ok(Self::e(&FiniteFunction::<K>::initial(a)))
    }
    pub fn op_terminal(a: usize) -> Sx {
        ok(Self::e(&FiniteFunction::<K>::terminal(a)))
    }
    pub fn op_constant(a: usize, x: usize, b: usize) -> Sx {
        ok(Self::e(&FiniteFunction::<K>::constant(a, x, b)))
    }
    pub fn op_inject0(g: &RFF, k: usize) -> Sx {
        ok(Self::e(&Cv::<K>::ff(g).inject0(k)))
    }
    pub fn op_inject1(g: &RFF, k: usize) -> Sx {
        ok(Self::e(&Cv::<K>::ff(g).inject1(k)))
    }
    pub fn op_to_initial(g: &RFF) -> Sx {
        ok(Self::e(&Cv::<K>::ff(g).to_initial()))
    }
    pub fn op_compose(a: &RFF, b: &RFF) -> Sx {
        // `>>` is sugar for `compose`: used when the left table has odd length
        let (x, y) = (Cv::<K>::ff(a), Cv::<K>::ff(b));
        Self::eo(if a.table.len() % 2 == 1 { &x >> &y } else { x.compose(&y) })
    }
    pub fn op_compose_semifinite(a: &RFF, lb: &[usize]) -> Sx {
        let (x, y) = (Cv::<K>::ff(a), Cv::<K>::sf(lb));
        opt((if a.table.len() % 2 == 1 { &x >> &y } else { compose_semifinite(&x, &y) }).map(|r| l(&Cv::<K>::rsf(&r))))
    }
    pub fn op_coproduct(a: &RFF, b: &RFF) -> Sx {
        let (x, y) = (Cv::<K>::ff(a), Cv::<K>::ff(b));
        Self::eo(if a.table.len() % 2 == 1 { &x + &y } else { x.coproduct(&y) })
    }
    pub fn op_tensor(a: &RFF, b: &RFF) -> Sx {
        let (x, y) = (Cv::<K>::ff(a), Cv::<K>::ff(b));
        ok(Self::e(&(if a.table.len() % 2 == 1 { &x | &y } else { x.tensor(&y) })))
    }
    pub fn op_inj0(a: usize, b: usize) -> Sx {
        ok(Self::e(&FiniteFunction::<K>::inj0(a, b)))
    }
    pub fn op_inj1(a: usize, b: usize) -> Sx {
        ok(Self::e(&FiniteFunction::<K>::inj1(a, b)))
    }
    pub fn op_twist(a: usize, b: usize) -> Sx {
        ok(Self::e(&FiniteFunction::<K>::twist(a, b)))
    }
    pub fn op_transpose(a: usize, b: usize) -> Sx {
        ok(Self::e(&FiniteFunction::<K>::transpose(a, b)))
    }
    pub fn op_injections(ss: &RFF, aa: &RFF) -> Sx {
        Self::eo(Cv::<K>::ff(ss).injections(&Cv::<K>::ff(aa)))
    }
    pub fn op_cumulative_sum(g: &RFF) -> Sx {
        ok(Self::e(&Cv::<K>::ff(g).cumulative_sum()))
    }
    pub fn op_is_injective(g: &RFF) -> Sx {
        ok(b(Cv::<K>::ff(g).is_injective()))
    }
    pub fn op_coequalizer(a: &RFF, bb: &RFF) -> Sx {
        Self::eo(Cv::<K>::ff(a).coequalizer(&Cv::<K>::ff(bb)))
    }
    pub fn op_coequalizer_universal_arr(qq: &RFF, uu: Vec<usize>) -> Sx {
        opt(coequalizer_universal::<K, usize>(&Cv::<K>::ff(qq), &K::arr(uu)).map(|r| l(&K::unarr(&r))))
    }
    pub fn op_coequalizer_universal(qq: &RFF, uu: &RFF) -> Sx {
        Self::eo(Cv::<K>::ff(qq).coequalizer_universal(&Cv::<K>::ff(uu)))
    }
    pub fn op_semifinite_arrow_compose(sa: &RSide, sb: &RSide) -> Sx {
        let mk = |s: &RSide| -> SemifiniteArrow<K, usize> {
            match s {
                RSide::Identity => SemifiniteArrow::Identity,
                RSide::Finite(ff_) => SemifiniteArrow::Finite(Cv::<K>::ff(ff_)),
                RSide::Semifinite(lab) => SemifiniteArrow::Semifinite(Cv::<K>::sf(lab)),
            }
        };
        let r = mk(sa).compose(&mk(sb));
        opt(r.map(|h| match h {
            SemifiniteArrow::Identity => list(vec![n(0), list(vec![])]),
            SemifiniteArrow::Finite(h) => list(vec![n(1), Self::e(&h)]),
            SemifiniteArrow::Semifinite(h) => list(vec![n(2), l(&Cv::<K>::rsf(&h))]),
        }))
    }

    pub fn run(c: &mut Ctx, count: usize) {
        let m = c.size.max(2);
        for _ in 0..count {
            match c.rng.below(26) {
                0 => {
                    // checked constructor: valid and malformed tables
                    let f = if c.rng.chance(1, 3) {
                        c.knob("ff:malformed-table");
                        gen::ff_malformed(&mut c.rng, m, m)
                    } else {
                        gen::ff(&mut c.rng, m, m)
                    };
                    let g = f.clone();
                    c.emit("ff.new", vec![l(&f.table), n(f.target)], move || Self::op_new(g.table, g.target));
                }
                1 => {
                    let a = c.rng.size(m);
                    c.emit("ff.identity", vec![n(a)], move || Self::op_identity(a));
                    c.emit("ff.initial", vec![n(a)], move || Self::op_initial(a));
                    c.emit("ff.terminal", vec![n(a)], move || Self::op_terminal(a));
                }
                2 => {
                    let (a, x, b) = (c.rng.size(m), c.rng.size(m), c.rng.size(m));
                    c.emit("ff.constant", vec![n(a), n(x), n(b)], move || Self::op_constant(a, x, b));
                }
                3 => {
                    let f = gen::ff(&mut c.rng, m, m);
                    let k = c.rng.size(m);
                    let g = f.clone();
                    c.emit("ff.inject0", vec![f.enc(), n(k)], move || Self::op_inject0(&g, k));
                    let g = f.clone();
                    c.emit("ff.inject1", vec![f.enc(), n(k)], move || Self::op_inject1(&g, k));
                    let g = f.clone();
                    c.emit("ff.to_initial", vec![f.enc()], move || Self::op_to_initial(&g));
                }
                4 | 5 | 6 => {
                    // compose: mostly composable, sometimes mismatched by one
                    let f = gen::ff(&mut c.rng, m, m);
                    let gt = c.rng.range(if f.target > 0 { 1 } else { 0 }, m);
                    let mut gsrc = f.target;
                    if c.rng.chance(1, 5) {
                        c.knob("ff:compose-mismatch");
                        gsrc = if c.rng.chance(1, 2) { gsrc + 1 } else { gsrc.saturating_sub(1) };
                    }
                    let g = if gt == 0 { RFF::new(vec![], 0) } else { gen::ff_from_to(&mut c.rng, gsrc, gt) };
                    if f.table.is_empty() {
                        c.knob("ff:empty-domain");
                    }
                    let (a, b) = (f.clone(), g.clone());
                    c.emit("ff.compose", vec![f.enc(), g.enc()], move || Self::op_compose(&a, &b));
                    // pre-composition with a label array of the same length
                    let labels = c.rng.vec_below(gsrc, 5);
                    let (a, lb) = (f.clone(), labels.clone());
                    c.emit("ff.compose_semifinite", vec![f.enc(), l(&labels)], move || Self::op_compose_semifinite(&a, &lb));
                }
                7 => {
                    let f = gen::ff(&mut c.rng, m, m);
                    let g = if c.rng.chance(1, 5) { gen::ff(&mut c.rng, m, m) } else { gen::ff_to(&mut c.rng, m, f.target) };
                    let (a, b) = (f.clone(), g.clone());
                    c.emit("ff.coproduct", vec![f.enc(), g.enc()], move || Self::op_coproduct(&a, &b));
                    let (a, b) = (f.clone(), g.clone());
                    c.emit("ff.tensor", vec![f.enc(), g.enc()], move || Self::op_tensor(&a, &b));
                }
                8 => {
                    let (a, b) = (c.rng.size(m), c.rng.size(m));
                    c.emit("ff.inj0", vec![n(a), n(b)], move || Self::op_inj0(a, b));
                    c.emit("ff.inj1", vec![n(a), n(b)], move || Self::op_inj1(a, b));
                    c.emit("ff.twist", vec![n(a), n(b)], move || Self::op_twist(a, b));
                }
                9 | 10 => {
                    let (a, b) = (c.rng.size(m), c.rng.size(m));
                    c.emit("ff.transpose", vec![n(a), n(b)], move || Self::op_transpose(a, b));
                }
                11 | 12 | 13 => {
                    // block-wise injections: sizes s : X -> Nat, index map a : A -> X
                    let x = c.rng.size(m);
                    let sizes = c.rng.vec_below(x, 4);
                    let total: usize = sizes.iter().sum();
                    let s = RFF::new(sizes, total + 1);
                    let a = if c.rng.chance(1, 8) {
                        c.knob("ff:injections-mismatch");
                        gen::ff_to(&mut c.rng, m, x + 1)
                    } else {
                        gen::ff_to(&mut c.rng, m, x)
                    };
                    if a.table.is_empty() {
                        c.knob("ff:injections-empty-index");
                    }
                    let (ss, aa) = (s.clone(), a.clone());
                    c.emit("ff.injections", vec![s.enc(), a.enc()], move || Self::op_injections(&ss, &aa));
                }
                14 => {
                    let f = gen::ff(&mut c.rng, m, m);
                    let g = f.clone();
                    c.emit("ff.cumulative_sum", vec![f.enc()], move || Self::op_cumulative_sum(&g));
                }
                15 | 16 => {
                    let f = if c.rng.chance(1, 2) {
                        // injective by construction
                        let t = c.rng.range(0, m + 2);
                        let mut tab: Vec<usize> = (0..t).collect();
                        c.rng.shuffle(&mut tab);
                        tab.truncate(c.rng.range(0, t));
                        RFF::new(tab, t)
                    } else {
                        gen::ff(&mut c.rng, m, m)
                    };
                    let g = f.clone();
                    c.emit("ff.is_injective", vec![f.enc()], move || Self::op_is_injective(&g));
                }
                17 | 18 | 19 | 20 => {
                    // coequalizer of a parallel pair (sometimes not parallel)
                    let t = c.rng.range(0, m + 3);
                    let f = gen::ff_to(&mut c.rng, m + 2, t);
                    let mut g = gen::ff_from_to(&mut c.rng, f.table.len(), t);
                    // long identification chains: g(i) = f(i+1) now and then
                    if c.rng.chance(1, 4) && f.table.len() > 1 {
                        c.knob("ff:coeq-chain");
                        for i in 0..f.table.len() - 1 {
                            g.table[i] = f.table[i + 1];
                        }
                    }
                    if c.rng.chance(1, 8) {
                        c.knob("ff:coeq-not-parallel");
                        if c.rng.chance(1, 2) && t > 0 {
                            g.table.push(0);
                        } else {
                            g.target += 1;
                        }
                    }
                    let (a, bb) = (f.clone(), g.clone());
                    c.emit("ff.coequalizer", vec![f.enc(), g.enc()], move || Self::op_coequalizer(&a, &bb));
                }
                _ => {
                    // universal map through a surjection q; u constant on fibres or not
                    let q = gen::surjection(&mut c.rng, m + 3, m);
                    let per_class = c.rng.vec_below(q.target, 5);
                    let mut u: Vec<usize> = q.table.iter().map(|k| per_class[*k]).collect();
                    if c.rng.chance(1, 3) && !u.is_empty() {
                        c.knob("ff:universal-not-constant-on-fibres");
                        let i = c.rng.below(u.len());
                        u[i] = (u[i] + 1) % 5;
                    }
                    if c.rng.chance(1, 10) {
                        c.knob("ff:universal-length-mismatch");
                        u.push(0);
                    }
                    let (qq, uu) = (q.clone(), u.clone());
                    c.emit("ff.coequalizer_universal_arr", vec![q.enc(), l(&u)], move || Self::op_coequalizer_universal_arr(&qq, uu));
                    let uf = RFF::new(u.clone(), 5);
                    let (qq, uu) = (q.clone(), uf.clone());
                    c.emit("ff.coequalizer_universal", vec![q.enc(), uf.enc()], move || Self::op_coequalizer_universal(&qq, &uu));
                    // semifinite arrow composition (all nine kind combinations)
                    let (ka, kb) = (c.rng.below(3), c.rng.below(3));
                    let f = gen::ff(&mut c.rng, m, m);
                    let lab = c.rng.vec_below(f.target, 5);
                    let gt2 = c.rng.range(1, m);
                    let g = gen::ff_from_to(&mut c.rng, f.target, gt2);
                    let enc_side = |k: usize, ff_: &RFF, lab_: &Vec<usize>| match k {
                        0 => list(vec![]),
                        1 => ff_.enc(),
                        _ => l(lab_),
                    };
                    let args = vec![n(ka), enc_side(ka, &f, &lab), n(kb), enc_side(kb, &g, &lab)];
                    let side = |k: usize, ff_: &RFF, lab_: &Vec<usize>| match k {
                        0 => RSide::Identity,
                        1 => RSide::Finite(ff_.clone()),
                        _ => RSide::Semifinite(lab_.clone()),
                    };
                    let (sa, sb) = (side(ka, &f, &lab), side(kb, &g, &lab));
                    c.emit("ff.semifinite_arrow_compose", args, move || Self::op_semifinite_arrow_compose(&sa, &sb));
                }
            }
        }
    }
}
