//! Group `ff`: finite functions (C06), at any `HK` backend.
use crate::ctx::Ctx;
use crate::gen;
use crate::kind::HK;
use crate::raw::*;
use crate::wire::*;
use open_hypergraphs::array::*;
use open_hypergraphs::category::*;
use open_hypergraphs::finite_function::{coequalizer_universal, FiniteFunction};
use open_hypergraphs::semifinite::*;
use std::marker::PhantomData;

pub struct FfOps<K>(PhantomData<K>);

impl<K: HK> FfOps<K>
where
    K::Type<usize>: NaturalArray<K> + PartialEq,
    K::Type<u64>: Array<K, u64> + PartialEq,
{
    fn e(f: &FF<K>) -> Sx {
        Cv::<K>::rff(f).enc()
    }
    fn eo(f: Option<FF<K>>) -> Sx {
        opt(f.map(|f| Self::e(&f)))
    }

    pub fn run(c: &mut Ctx, count: usize) {
        let m = c.size.max(2);
        for _ in 0..count {
            match c.rng.below(26) {
                0 => {
                    // checked constructor: valid and malformed tables
                    let f = if c.rng.chance(1, 3) {
                        c.knob("ff:malformed-table");
                        gen::ff_malformed(&mut c.rng, m, m)
                    } else {
                        gen::ff(&mut c.rng, m, m)
                    };
                    let g = f.clone();
                    c.emit("ff.new", vec![l(&f.table), n(f.target)], move || {
                        Self::eo(FiniteFunction::<K>::new(K::idx(g.table), g.target))
                    });
                }
                1 => {
                    let a = c.rng.size(m);
                    c.emit("ff.identity", vec![n(a)], move || ok(Self::e(&FiniteFunction::<K>::identity(a))));
                    c.emit("ff.initial", vec![n(a)], move || ok(Self::e(&FiniteFunction::<K>::initial(a))));
                    c.emit("ff.terminal", vec![n(a)], move || ok(Self::e(&FiniteFunction::<K>::terminal(a))));
                }
                2 => {
                    let (a, x, b) = (c.rng.size(m), c.rng.size(m), c.rng.size(m));
                    c.emit("ff.constant", vec![n(a), n(x), n(b)], move || {
                        ok(Self::e(&FiniteFunction::<K>::constant(a, x, b)))
                    });
                }
                3 => {
                    let f = gen::ff(&mut c.rng, m, m);
                    let k = c.rng.size(m);
                    let g = f.clone();
                    c.emit("ff.inject0", vec![f.enc(), n(k)], move || ok(Self::e(&Cv::<K>::ff(&g).inject0(k))));
                    let g = f.clone();
                    c.emit("ff.inject1", vec![f.enc(), n(k)], move || ok(Self::e(&Cv::<K>::ff(&g).inject1(k))));
                    let g = f.clone();
                    c.emit("ff.to_initial", vec![f.enc()], move || ok(Self::e(&Cv::<K>::ff(&g).to_initial())));
                }
                4 | 5 | 6 => {
                    // compose: mostly composable, sometimes mismatched by one
                    let f = gen::ff(&mut c.rng, m, m);
                    let gt = c.rng.range(if f.target > 0 { 1 } else { 0 }, m);
                    let mut gsrc = f.target;
                    if c.rng.chance(1, 5) {
                        c.knob("ff:compose-mismatch");
                        gsrc = if c.rng.chance(1, 2) { gsrc + 1 } else { gsrc.saturating_sub(1) };
                    }
                    let g = if gt == 0 { RFF::new(vec![], 0) } else { gen::ff_from_to(&mut c.rng, gsrc, gt) };
                    if f.table.is_empty() {
                        c.knob("ff:empty-domain");
                    }
                    let (a, b) = (f.clone(), g.clone());
                    c.emit("ff.compose", vec![f.enc(), g.enc()], move || {
                        Self::eo(Cv::<K>::ff(&a).compose(&Cv::<K>::ff(&b)))
                    });
                    // pre-composition with a label array of the same length
                    let labels = c.rng.vec_below(gsrc, 5);
                    let (a, lb) = (f.clone(), labels.clone());
                    c.emit("ff.compose_semifinite", vec![f.enc(), l(&labels)], move || {
                        opt(compose_semifinite(&Cv::<K>::ff(&a), &Cv::<K>::sf(&lb)).map(|r| l(&Cv::<K>::rsf(&r))))
                    });
                }
                7 => {
                    let f = gen::ff(&mut c.rng, m, m);
                    let g = if c.rng.chance(1, 5) { gen::ff(&mut c.rng, m, m) } else { gen::ff_to(&mut c.rng, m, f.target) };
                    let (a, b) = (f.clone(), g.clone());
                    c.emit("ff.coproduct", vec![f.enc(), g.enc()], move || {
                        Self::eo(Cv::<K>::ff(&a).coproduct(&Cv::<K>::ff(&b)))
                    });
                    let (a, b) = (f.clone(), g.clone());
                    c.emit("ff.tensor", vec![f.enc(), g.enc()], move || ok(Self::e(&Cv::<K>::ff(&a).tensor(&Cv::<K>::ff(&b)))));
                }
                8 => {
                    let (a, b) = (c.rng.size(m), c.rng.size(m));
                    c.emit("ff.inj0", vec![n(a), n(b)], move || ok(Self::e(&FiniteFunction::<K>::inj0(a, b))));
                    c.emit("ff.inj1", vec![n(a), n(b)], move || ok(Self::e(&FiniteFunction::<K>::inj1(a, b))));
                    c.emit("ff.twist", vec![n(a), n(b)], move || ok(Self::e(&FiniteFunction::<K>::twist(a, b))));
                }
                9 | 10 => {
                    let (a, b) = (c.rng.size(m), c.rng.size(m));
                    c.emit("ff.transpose", vec![n(a), n(b)], move || ok(Self::e(&FiniteFunction::<K>::transpose(a, b))));
                }
                11 | 12 | 13 => {
                    // block-wise injections: sizes s : X -> Nat, index map a : A -> X
                    let x = c.rng.size(m);
                    let sizes = c.rng.vec_below(x, 4);
                    let total: usize = sizes.iter().sum();
                    let s = RFF::new(sizes, total + 1);
                    let a = if c.rng.chance(1, 8) {
                        c.knob("ff:injections-mismatch");
                        gen::ff_to(&mut c.rng, m, x + 1)
                    } else {
                        gen::ff_to(&mut c.rng, m, x)
                    };
                    if a.table.is_empty() {
                        c.knob("ff:injections-empty-index");
                    }
                    let (ss, aa) = (s.clone(), a.clone());
                    c.emit("ff.injections", vec![s.enc(), a.enc()], move || {
                        Self::eo(Cv::<K>::ff(&ss).injections(&Cv::<K>::ff(&aa)))
                    });
                }
                14 => {
                    let f = gen::ff(&mut c.rng, m, m);
                    let g = f.clone();
                    c.emit("ff.cumulative_sum", vec![f.enc()], move || ok(Self::e(&Cv::<K>::ff(&g).cumulative_sum())));
                }
                15 | 16 => {
                    let f = if c.rng.chance(1, 2) {
                        // injective by construction
                        let t = c.rng.range(0, m + 2);
                        let mut tab: Vec<usize> = (0..t).collect();
                        c.rng.shuffle(&mut tab);
                        tab.truncate(c.rng.range(0, t));
                        RFF::new(tab, t)
                    } else {
                        gen::ff(&mut c.rng, m, m)
                    };
                    let g = f.clone();
                    c.emit("ff.is_injective", vec![f.enc()], move || ok(b(Cv::<K>::ff(&g).is_injective())));
                }
                17 | 18 | 19 | 20 => {
                    // coequalizer of a parallel pair (sometimes not parallel)
                    let t = c.rng.range(0, m + 3);
                    let f = gen::ff_to(&mut c.rng, m + 2, t);
                    let mut g = gen::ff_from_to(&mut c.rng, f.table.len(), t);
                    // long identification chains: g(i) = f(i+1) now and then
                    if c.rng.chance(1, 4) && f.table.len() > 1 {
                        c.knob("ff:coeq-chain");
                        for i in 0..f.table.len() - 1 {
                            g.table[i] = f.table[i + 1];
                        }
                    }
                    if c.rng.chance(1, 8) {
                        c.knob("ff:coeq-not-parallel");
                        if c.rng.chance(1, 2) && t > 0 {
                            g.table.push(0);
                        } else {
                            g.target += 1;
                        }
                    }
                    let (a, bb) = (f.clone(), g.clone());
                    c.emit("ff.coequalizer", vec![f.enc(), g.enc()], move || {
                        Self::eo(Cv::<K>::ff(&a).coequalizer(&Cv::<K>::ff(&bb)))
                    });
                }
                _ => {
                    // universal map through a surjection q; u constant on fibres or not
                    let q = gen::surjection(&mut c.rng, m + 3, m);
                    let per_class = c.rng.vec_below(q.target, 5);
                    let mut u: Vec<usize> = q.table.iter().map(|k| per_class[*k]).collect();
                    if c.rng.chance(1, 3) && !u.is_empty() {
                        c.knob("ff:universal-not-constant-on-fibres");
                        let i = c.rng.below(u.len());
                        u[i] = (u[i] + 1) % 5;
                    }
                    if c.rng.chance(1, 10) {
                        c.knob("ff:universal-length-mismatch");
                        u.push(0);
                    }
                    let (qq, uu) = (q.clone(), u.clone());
                    c.emit("ff.coequalizer_universal_arr", vec![q.enc(), l(&u)], move || {
                        opt(coequalizer_universal::<K, usize>(&Cv::<K>::ff(&qq), &K::arr(uu)).map(|r| l(&K::unarr(&r))))
                    });
                    let uf = RFF::new(u.clone(), 5);
                    let (qq, uu) = (q.clone(), uf.clone());
                    c.emit("ff.coequalizer_universal", vec![q.enc(), uf.enc()], move || {
                        Self::eo(Cv::<K>::ff(&qq).coequalizer_universal(&Cv::<K>::ff(&uu)))
                    });
                    // semifinite arrow composition (all nine kind combinations)
                    let (ka, kb) = (c.rng.below(3), c.rng.below(3));
                    let f = gen::ff(&mut c.rng, m, m);
                    let lab = c.rng.vec_below(f.target, 5);
                    let gt2 = c.rng.range(1, m);
                    let g = gen::ff_from_to(&mut c.rng, f.target, gt2);
                    let enc_side = |k: usize, ff_: &RFF, lab_: &Vec<usize>| match k {
                        0 => list(vec![]),
                        1 => ff_.enc(),
                        _ => l(lab_),
                    };
                    let args = vec![n(ka), enc_side(ka, &f, &lab), n(kb), enc_side(kb, &g, &lab)];
                    let (f2, g2, lab2) = (f.clone(), g.clone(), lab.clone());
                    c.emit("ff.semifinite_arrow_compose", args, move || {
                        let mk = |k: usize, ff_: &RFF| -> SemifiniteArrow<K, usize> {
                            match k {
                                0 => SemifiniteArrow::Identity,
                                1 => SemifiniteArrow::Finite(Cv::<K>::ff(ff_)),
                                _ => SemifiniteArrow::Semifinite(Cv::<K>::sf(&lab2)),
                            }
                        };
                        let r = mk(ka, &f2).compose(&mk(kb, &g2));
                        opt(r.map(|h| match h {
                            SemifiniteArrow::Identity => list(vec![n(0), list(vec![])]),
                            SemifiniteArrow::Finite(h) => list(vec![n(1), Self::e(&h)]),
                            SemifiniteArrow::Semifinite(h) => list(vec![n(2), l(&Cv::<K>::rsf(&h))]),
                        }))
                    });
                }
            }
        }
    }
}
