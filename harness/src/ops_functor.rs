//! Groups `functor`, `lax.functor` (C12, C13), `optic` (C14) and `var` (C19).
use crate::ctx::Ctx;
use crate::gen;
use crate::kind::HK;
use crate::ops_graph::GraphOps;
use crate::ops_lax::*;
use crate::raw::*;
use crate::wire::*;
use open_hypergraphs::array::vec::VecKind;
use open_hypergraphs::array::*;
use open_hypergraphs::finite_function::FiniteFunction;
use open_hypergraphs::lax::functor::dyn_functor::{define_map_arrow, to_dyn_functor};
use open_hypergraphs::lax::functor::{map_arrow_witness, try_define_map_arrow, Functor as LaxFunctor};
use open_hypergraphs::lax::optic::Optic as LaxOptic;
use open_hypergraphs::lax::NodeId;
use open_hypergraphs::strict::functor::identity::Identity as StrictIdentity;
use open_hypergraphs::strict::functor::Functor as StrictFunctor;

pub fn fam_obj(variant: usize, k: usize) -> Vec<usize> {
    if variant == 0 {
        return vec![k];
    }
    if variant == 2 {
        // erase the even generators, keep the odd ones: sizes 0 / 1
        return if k % 2 == 0 { vec![] } else { vec![k] };
    }
    match k % 4 {
        0 => vec![],
        1 => vec![k],
        2 => vec![k, k + 1],
        _ => vec![k, 0, k],
    }
}

fn all_equal(a: &[usize], b: &[usize]) -> bool {
    let mut it = a.iter().chain(b.iter());
    match it.next() {
        Some(x) => it.all(|y| y == x),
        None => true,
    }
}

pub fn fam_op(ov: usize, pv: usize, a: usize, s: &[usize], t: &[usize]) -> Lf {
    let fs: Vec<usize> = s.iter().flat_map(|k| fam_obj(ov, *k)).collect();
    let ft: Vec<usize> = t.iter().flat_map(|k| fam_obj(ov, *k)).collect();
    let single = Lf::singleton(a, fs.clone(), ft.clone());
    if pv == 0 {
        return single;
    }
    match a % 4 {
        0 => single,
        1 => single.lax_compose(&Lf::singleton(a + 1, ft.clone(), ft.clone())).unwrap(),
        2 => {
            if !(fs.is_empty() && ft.is_empty()) && all_equal(&fs, &ft) {
                let label = *fs.iter().chain(ft.iter()).next().unwrap();
                Lf::spider(FiniteFunction::terminal(fs.len()), FiniteFunction::terminal(ft.len()), vec![label]).unwrap()
            } else {
                single
            }
        }
        _ => {
            if fs == ft {
                Lf::identity(fs)
            } else {
                single
            }
        }
    }
}

#[derive(Clone)]
pub struct Fam {
    pub ov: usize,
    pub pv: usize,
}
impl LaxFunctor<usize, usize, usize, usize> for Fam {
    fn map_object(&self, o: &usize) -> impl ExactSizeIterator<Item = usize> {
        fam_obj(self.ov, *o).into_iter()
    }
    fn map_operation(&self, a: &usize, source: &[usize], target: &[usize]) -> Lf {
        fam_op(self.ov, self.pv, *a, source, target)
    }
    fn map_arrow(&self, f: &Lf) -> Lf {
        define_map_arrow(self, f)
    }
}

fn enc_soh(f: &open_hypergraphs::strict::OpenHypergraph<VecKind, usize, usize>) -> Sx {
    Cv::<VecKind>::roh(f).enc()
}

// ---- op bodies: the calls into the real library, shared by the generator and the replay mode

pub fn op_identity_map_arrow<K: HK>(a: &ROH) -> Sx
where
    K::Type<usize>: NaturalArray<K> + PartialEq,
    K::Type<u64>: Array<K, u64> + PartialEq,
{
    let r = <StrictIdentity as StrictFunctor<K, usize, usize, usize, usize>>::map_arrow(&StrictIdentity, &Cv::<K>::oh(a));
    ok(Cv::<K>::roh(&r).enc())
}
pub fn op_dyn_map_object(ov: usize, a1: &[usize]) -> Sx {
    let d = to_dyn_functor(Fam { ov, pv: 0 });
    let r = StrictFunctor::<VecKind, usize, usize, usize, usize>::map_object(&d, &Cv::<VecKind>::sf(a1));
    ok(Cv::<VecKind>::rics(&r).enc())
}
pub fn op_dyn_map_arrow(ov: usize, pv: usize, a: &ROH) -> Sx {
    let d = to_dyn_functor(Fam { ov, pv });
    let r = StrictFunctor::<VecKind, usize, usize, usize, usize>::map_arrow(&d, &Cv::<VecKind>::oh(a));
    ok(enc_soh(&r))
}
pub fn op_lax_functor_map_arrow(ov: usize, pv: usize, a: &RLf) -> Sx {
    ok(enc_lf(&Fam { ov, pv }.map_arrow(&a.to_lf())))
}
pub fn op_lax_functor_try_map_arrow(ov: usize, pv: usize, a: &RLf) -> Sx {
    opt(try_define_map_arrow(&Fam { ov, pv }, &a.to_lf()).map(|r| enc_lf(&r)))
}
pub fn op_lax_functor_map_arrow_witness(ov: usize, pv: usize, a: &RLf) -> Sx {
    opt(map_arrow_witness(&Fam { ov, pv }, &a.to_lf()).map(|(r, w)| list(vec![enc_lf(&r), Cv::<VecKind>::ricf(&w).enc()])))
}

pub fn run_functor<K: HK>(c: &mut Ctx, count: usize)
where
    K::Type<usize>: NaturalArray<K> + PartialEq,
    K::Type<u64>: Array<K, u64> + PartialEq,
{
    let p = gen::hg_params(c.size.max(2));
    for _ in 0..count {
        let f = gen::oh(&mut c.rng, &p);
        gen::knobs_oh(c, &f);
        let a = f.clone();
        c.emit("functor.identity_map_arrow", vec![f.enc()], move || op_identity_map_arrow::<K>(&a));
    }
}

pub fn run_dyn(c: &mut Ctx, count: usize) {
    let p = gen::hg_params(c.size.max(2));
    for _ in 0..count {
        let (ov, pv) = (c.rng.below(2), c.rng.below(2));
        // node labels up to 7 so that all four object-image lengths occur; edge labels up to 7
        let mut pp = p;
        pp.node_labels = 8;
        pp.edge_labels = 8;
        match c.rng.below(8) {
            0 => {
                let a = gen::list_below(&mut c.rng, 5, 8);
                let a1 = a.clone();
                c.emit("functor.dyn_map_object", vec![n(ov), l(&a)], move || op_dyn_map_object(ov, &a1));
            }
            1 | 2 | 3 => {
                let mut f = gen::oh(&mut c.rng, &pp);
                let (mut ov, mut pv) = (ov, pv);
                if c.rng.chance(1, 4) {
                    // every operation image edge-free (spider-only or identity): uniform node labels,
                    // edge labels 2 or 3 mod 4, 1→1-ish arities where possible
                    c.knob("functor:all-operation-images-edge-free");
                    ov = 0;
                    pv = 1;
                    for x in f.h.w.iter_mut() {
                        *x = 1;
                    }
                    for x in f.h.x.iter_mut() {
                        *x = *c.rng.pick(&[2usize, 6, 3, 7]);
                    }
                    // identity images need equal source and target types: same arity
                    let ss = f.h.s.segs();
                    let mut ts = f.h.t.segs();
                    let nn = f.h.w.len();
                    for (e, lab) in f.h.x.iter().enumerate() {
                        if lab % 4 == 3 && nn > 0 {
                            let k = ss[e].len();
                            ts[e] = (0..k).map(|_| c.rng.below(nn)).collect();
                        }
                    }
                    f.h.t = RICF::from_segs(&ts, nn);
                }
                gen::knobs_oh(c, &f);
                let a = f.clone();
                c.emit("functor.dyn_map_arrow", vec![n(ov), n(pv), f.enc()], move || op_dyn_map_arrow(ov, pv, &a));
            }
            4 | 5 => {
                let pending = c.rng.chance(1, 3);
                let mut f = gen_lf(c, pending, true);
                relabel(c, &mut f);
                let a = f.clone();
                c.emit("lax.functor.map_arrow", vec![n(ov), n(pv), f.enc()], move || op_lax_functor_map_arrow(ov, pv, &a));
            }
            _ => {
                let pending = c.rng.chance(1, 4);
                if pending {
                    c.knob("functor:native-path-with-pending-unifications");
                }
                let mut f = gen_lf(c, pending, true);
                relabel(c, &mut f);
                let a = f.clone();
                c.emit("lax.functor.try_map_arrow", vec![n(ov), n(pv), f.enc()], move || op_lax_functor_try_map_arrow(ov, pv, &a));
                let a = f.clone();
                c.emit("lax.functor.map_arrow_witness", vec![n(ov), n(pv), f.enc()], move || op_lax_functor_map_arrow_witness(ov, pv, &a));
            }
        }
    }
}

/// spread node/edge labels over 0..8 so that every object/operation image kind occurs
fn relabel(c: &mut Ctx, f: &mut RLf) {
    // relabel consistently (a map on labels) so that unification pairs stay label-consistent
    let m: Vec<usize> = (0..3).map(|_| c.rng.below(8)).collect();
    for x in f.nodes.iter_mut() {
        *x = m[*x % 3];
    }
    for x in f.edges.iter_mut() {
        *x = c.rng.below(8);
    }
}

// ---------------------------------------------------------------------------------------------
// optics

fn residual_fam(a: usize) -> Vec<usize> {
    match a % 3 {
        0 => vec![],
        1 => vec![1],
        _ => vec![2, 0],
    }
}

#[derive(Clone)]
pub struct OpticFam {
    pub fov: usize,
    pub rov: usize,
}
impl LaxOptic<usize, usize, usize, usize> for OpticFam {
    fn fwd_object(&self, o: &usize) -> Vec<usize> {
        fam_obj(self.fov, *o)
    }
    fn rev_object(&self, o: &usize) -> Vec<usize> {
        fam_obj(self.rov, *o)
    }
    fn residual(&self, a: &usize) -> Vec<usize> {
        residual_fam(*a)
    }
    fn fwd_operation(&self, a: &usize, s: &[usize], t: &[usize]) -> Lf {
        let fs: Vec<usize> = s.iter().flat_map(|k| fam_obj(self.fov, *k)).collect();
        let mut ft: Vec<usize> = t.iter().flat_map(|k| fam_obj(self.fov, *k)).collect();
        ft.extend(residual_fam(*a));
        Lf::singleton(*a, fs, ft)
    }
    fn rev_operation(&self, a: &usize, s: &[usize], t: &[usize]) -> Lf {
        let rs: Vec<usize> = s.iter().flat_map(|k| fam_obj(self.rov, *k)).collect();
        let mut m = residual_fam(*a);
        m.extend(t.iter().flat_map(|k| fam_obj(self.rov, *k)));
        Lf::singleton(*a + 100, m, rs)
    }
}

pub const ADD: usize = 0;
pub const MUL: usize = 1;
pub const NEG: usize = 2;
pub const COPY: usize = 3;
pub const DISCARD: usize = 4;

/// the standard reverse-derivative lenses of polynomial circuits over one object (label 0)
#[derive(Clone)]
pub struct RdOptic;
impl LaxOptic<usize, usize, usize, usize> for RdOptic {
    fn fwd_object(&self, o: &usize) -> Vec<usize> {
        vec![*o]
    }
    fn rev_object(&self, o: &usize) -> Vec<usize> {
        vec![*o]
    }
    fn residual(&self, a: &usize) -> Vec<usize> {
        if *a == MUL {
            vec![0, 0]
        } else {
            vec![]
        }
    }
    fn fwd_operation(&self, a: &usize, s: &[usize], t: &[usize]) -> Lf {
        if *a == MUL {
            let mut f = Lf::empty();
            let (_, (sx, cx)) = f.new_operation(COPY, vec![0], vec![0, 0]);
            let (_, (sy, cy)) = f.new_operation(COPY, vec![0], vec![0, 0]);
            let (_, (mi, mo)) = f.new_operation(MUL, vec![0, 0], vec![0]);
            f.unify(cx[0], mi[0]);
            f.unify(cy[0], mi[1]);
            f.sources = vec![sx[0], sy[0]];
            f.targets = vec![mo[0], cx[1], cy[1]];
            f
        } else {
            Lf::singleton(*a, s.to_vec(), t.to_vec())
        }
    }
    fn rev_operation(&self, a: &usize, _s: &[usize], _t: &[usize]) -> Lf {
        match *a {
            ADD => Lf::singleton(COPY, vec![0], vec![0, 0]),
            MUL => {
                let mut f = Lf::empty();
                let (_, (s1, d)) = f.new_operation(COPY, vec![0], vec![0, 0]);
                let (_, (i2, o1)) = f.new_operation(MUL, vec![0, 0], vec![0]);
                let (_, (i3, o2)) = f.new_operation(MUL, vec![0, 0], vec![0]);
                f.unify(d[0], i2[1]);
                f.unify(d[1], i3[1]);
                f.sources = vec![i3[0], i2[0], s1[0]];
                f.targets = vec![o1[0], o2[0]];
                f
            }
            NEG => Lf::singleton(NEG, vec![0], vec![0]),
            COPY => Lf::singleton(ADD, vec![0, 0], vec![0]),
            DISCARD => Lf::singleton(10, vec![], vec![0]),
            _ => Lf::singleton(DISCARD, vec![0], vec![]),
        }
    }
}

fn oh_to_rlf(f: &ROH) -> RLf {
    let (ss, ts) = (f.h.s.segs(), f.h.t.segs());
    RLf {
        sources: f.s.table.clone(),
        targets: f.t.table.clone(),
        nodes: f.h.w.clone(),
        edges: f.h.x.clone(),
        adjacency: ss.into_iter().zip(ts.into_iter()).collect(),
        quotient: (vec![], vec![]),
    }
}

// ---- op bodies (optics), shared by the generator and the replay mode

pub fn op_lax_optic_map_arrow(fov: usize, rov: usize, a: &RLf) -> Sx {
    ok(enc_lf(&OpticFam { fov, rov }.map_arrow(a.to_lf())))
}
pub fn op_lax_optic_map_adapted(fov: usize, rov: usize, a: &RLf) -> Sx {
    ok(enc_lf(&OpticFam { fov, rov }.map_adapted(a.to_lf())))
}
pub fn op_optic_deriv(a: &RLf, x1: &[u64], d1: &[u64]) -> Sx {
    let adapted = RdOptic.map_adapted(a.to_lf());
    let strict = adapted.to_strict();
    let mono = strict.is_monogamous();
    let roh = Cv::<VecKind>::roh(&strict);
    let mut inp = x1.to_vec();
    inp.extend(d1.iter());
    match GraphOps::<VecKind>::eval_logged(&roh, &inp) {
        Sx::L(v) if v.len() == 2 => {
            // (ok (outs log)) -> keep outs only
            if let Sx::L(ol) = &v[1] {
                ok(list(vec![ol[0].clone(), b(mono)]))
            } else {
                none()
            }
        }
        _ => none(),
    }
}

pub fn run_optic(c: &mut Ctx, count: usize) {
    for _ in 0..count {
        match c.rng.below(6) {
            0 | 1 => {
                let (fov, rov) = (c.rng.below(3), c.rng.below(3));
                let pending = c.rng.chance(1, 4);
                let mut f = gen_lf(c, pending, true);
                relabel(c, &mut f);
                let a = f.clone();
                c.emit("lax.optic.map_arrow", vec![n(fov), n(rov), f.enc()], move || op_lax_optic_map_arrow(fov, rov, &a));
                let a = f.clone();
                c.emit("lax.optic.map_adapted", vec![n(fov), n(rov), f.enc()], move || op_lax_optic_map_adapted(fov, rov, &a));
            }
            _ => {
                // derivative clause: circuits over {add, mul, neg, copy, discard, const}
                let circ = rd_circuit(c);
                let x: Vec<u64> = (0..circ.s.table.len()).map(|_| small_or_random(c)).collect();
                let dy: Vec<u64> = (0..circ.t.table.len()).map(|_| small_or_random(c)).collect();
                let lf = oh_to_rlf(&circ);
                let args = vec![lf.enc(), Sx::L(x.iter().map(|v| Sx::N(*v as u128)).collect()), Sx::L(dy.iter().map(|v| Sx::N(*v as u128)).collect())];
                let (a, x1, d1) = (lf.clone(), x.clone(), dy.clone());
                c.emit("optic.deriv", args, move || op_optic_deriv(&a, &x1, &d1));
            }
        }
    }
}

fn small_or_random(c: &mut Ctx) -> u64 {
    match c.rng.below(3) {
        0 => c.rng.below(4) as u64,
        1 => u64::MAX - c.rng.below(3) as u64,
        _ => c.rng.next(),
    }
}

/// monogamous acyclic circuit over {add, mul, neg, copy, discard, const k}; all nodes labelled 0
pub fn rd_circuit(c: &mut Ctx) -> ROH {
    let mut f = GraphOps::<VecKind>::circuit(c, true);
    // restrict to the polynomial signature: map the bitwise gates onto arithmetic ones
    for x in f.h.x.iter_mut() {
        *x = match *x {
            6 => ADD,
            7 => MUL,
            8 => NEG,
            5 => 13,
            v => v,
        };
    }
    f
}

// ---------------------------------------------------------------------------------------------
// Var-built terms and forget

use open_hypergraphs::lax::var::forget::{forget, forget_monogamous};
use open_hypergraphs::lax::var::{build, fn_operation, operation, HasAdd, HasBitAnd, HasBitXor, HasMul, HasNeg, HasNot, HasVar, Var};

/// edge labels of the Var test signature (a newtype so that the operator traits can be
/// implemented for it): 99 is the variable label.  The result type of a binary operator depends on
/// BOTH operand types (add/mul widen to the maximum, `&` takes the right type, `^` mixes them), the
/// same table as `binResLabel` in Model/DriverOptic.lean
#[derive(Clone, Copy, Debug, PartialEq)]
pub struct Op(pub usize);
pub const VAR: usize = 99;
impl HasVar for Op {
    fn var() -> Self {
        Op(VAR)
    }
}
impl HasAdd<usize, Op> for Op {
    fn add(a: usize, b: usize) -> (usize, Op) {
        (a.max(b), Op(ADD))
    }
}
impl HasMul<usize, Op> for Op {
    fn mul(a: usize, b: usize) -> (usize, Op) {
        (a.max(b), Op(MUL))
    }
}
impl HasNeg<usize, Op> for Op {
    fn neg(a: usize) -> (usize, Op) {
        (a, Op(NEG))
    }
}
impl HasBitXor<usize, Op> for Op {
    fn bitxor(a: usize, b: usize) -> (usize, Op) {
        ((a + 2 * b) % 3, Op(7))
    }
}
impl HasBitAnd<usize, Op> for Op {
    fn bitand(_a: usize, b: usize) -> (usize, Op) {
        (b, Op(6))
    }
}
impl HasNot<usize, Op> for Op {
    fn not(a: usize) -> (usize, Op) {
        (a, Op(8))
    }
}

type LfOp = open_hypergraphs::lax::OpenHypergraph<usize, Op>;

fn enc_lf_op(f: &LfOp) -> Sx {
    let g: Lf = f.clone().map_edges(|o| o.0);
    enc_lf(&g)
}

/// a straight-line program over variables: instruction k defines variable n_in + k
#[derive(Clone, Debug)]
pub enum Ins {
    Bin(usize, usize, usize), // opcode (0 add, 1 mul, 6 and, 7 xor), lhs var, rhs var
    Un(usize, usize),         // opcode (2 neg, 8 not), operand
    Op2(usize, Vec<usize>, usize), // `operation` with label, argument vars, number of results
    FnOp(usize, Vec<usize>),  // `fn_operation`
}

// ---- op bodies (Var), shared by the generator and the replay mode

/// build a program through the real operator interface
pub fn op_var_build(n_in: usize, p1: &[Ins], o1: &[usize], leak: bool) -> Sx {
    let leaked: std::cell::RefCell<Option<Var<usize, Op>>> = std::cell::RefCell::new(None);
    let r = build(|state| {
        let mut vars: Vec<Var<usize, Op>> = (0..n_in).map(|i| Var::new(state.clone(), i % 3)).collect();
        let inputs = vars.clone();
        for ins in p1 {
            match ins {
                Ins::Bin(o, a, b2) => {
                    let (x, y) = (vars[*a].clone(), vars[*b2].clone());
                    let v = match o {
                        0 => x + y,
                        1 => x * y,
                        6 => x & y,
                        _ => x ^ y,
                    };
                    vars.push(v);
                }
                Ins::Un(o, a) => {
                    let x = vars[*a].clone();
                    vars.push(if *o == 2 { -x } else { !x });
                }
                Ins::Op2(lab, args, r) => {
                    let av: Vec<Var<usize, Op>> = args.iter().map(|i| vars[*i].clone()).collect();
                    let rs = operation(state, &av, (0..*r).map(|k| (*lab + k) % 3).collect(), Op(*lab));
                    vars.extend(rs);
                }
                Ins::FnOp(lab, args) => {
                    let av: Vec<Var<usize, Op>> = args.iter().map(|i| vars[*i].clone()).collect();
                    vars.push(fn_operation(state, &av, *lab % 3, Op(*lab)));
                }
            }
        }
        if leak && !vars.is_empty() {
            *leaked.borrow_mut() = Some(vars[0].clone());
        }
        let outv: Vec<Var<usize, Op>> = o1.iter().map(|i| vars[*i].clone()).collect();
        (inputs, outv)
    });
    match r {
        Ok(f) => ok(enc_lf_op(&f)),
        Err(rc) => {
            let f = rc.borrow().clone();
            list(vec![Sx::S("err"), enc_lf_op(&f)])
        }
    }
}
pub fn op_var_forget(a: &RLf) -> Sx {
    let g: LfOp = a.to_lf().map_edges(Op);
    ok(enc_lf_op(&forget(&g)))
}
pub fn op_var_forget_monogamous(a: &RLf) -> Sx {
    let g: LfOp = a.to_lf().map_edges(Op);
    ok(enc_lf_op(&forget_monogamous(&g)))
}

pub fn run_var(c: &mut Ctx, count: usize) {
    for _ in 0..count {
        match c.rng.below(5) {
            0 | 1 | 2 => {
                // build a program through the real operator interface
                let n_in = c.rng.range(0, 3);
                let n_ins = c.rng.range(0, c.size + 2);
                let mut nvars = n_in;
                let mut prog: Vec<Ins> = vec![];
                for _ in 0..n_ins {
                    let pickv = |c: &mut Ctx, nv: usize| c.rng.below(nv);
                    let ins = match c.rng.below(6) {
                        0 | 1 if nvars > 0 => Ins::Bin(*c.rng.pick(&[0usize, 1, 6, 7]), pickv(c, nvars), pickv(c, nvars)),
                        2 if nvars > 0 => Ins::Un(*c.rng.pick(&[2usize, 8]), pickv(c, nvars)),
                        3 => {
                            let k = c.rng.below(3);
                            let args: Vec<usize> = if nvars == 0 { vec![] } else { (0..k).map(|_| pickv(c, nvars)).collect() };
                            Ins::Op2(20 + c.rng.below(3), args, c.rng.range(0, 2))
                        }
                        _ => {
                            let k = c.rng.below(3);
                            let args: Vec<usize> = if nvars == 0 { vec![] } else { (0..k).map(|_| pickv(c, nvars)).collect() };
                            Ins::FnOp(30 + c.rng.below(3), args)
                        }
                    };
                    nvars += match &ins {
                        Ins::Op2(_, _, r) => *r,
                        _ => 1,
                    };
                    prog.push(ins);
                }
                let outs: Vec<usize> = if nvars == 0 { vec![] } else { (0..c.rng.range(0, 3)).map(|_| c.rng.below(nvars)).collect() };
                let leak = c.rng.chance(1, 12);
                if leak {
                    c.knob("var:handle-outlives-builder");
                }
                let enc_prog = list(
                    prog.iter()
                        .map(|i| match i {
                            Ins::Bin(o, a, b2) => list(vec![Sx::S("bin"), n(*o), n(*a), n(*b2)]),
                            Ins::Un(o, a) => list(vec![Sx::S("un"), n(*o), n(*a)]),
                            Ins::Op2(lab, args, r) => list(vec![Sx::S("op"), n(*lab), l(args), n(*r)]),
                            Ins::FnOp(lab, args) => list(vec![Sx::S("fnop"), n(*lab), l(args)]),
                        })
                        .collect(),
                );
                let args = vec![n(n_in), enc_prog, l(&outs), b(leak)];
                let (p1, o1) = (prog.clone(), outs.clone());
                c.emit("var.build", args, move || op_var_build(n_in, &p1, &o1, leak));
            }
            _ => {
                // forget on arbitrary lax terms with variable-labelled edges of any arity/labels
                let pending = c.rng.chance(1, 3);
                let mut f = gen_lf(c, pending, true);
                for x in f.edges.iter_mut() {
                    if c.rng.chance(1, 2) {
                        *x = VAR;
                    }
                }
                // make some variable edges uniformly labelled
                if c.rng.chance(1, 2) {
                    for x in f.nodes.iter_mut() {
                        *x = 0;
                    }
                    c.knob("var:uniform-labels");
                }
                let has_no_src = f.edges.iter().zip(f.adjacency.iter()).any(|(e, (s, t))| *e == VAR && s.is_empty() && !t.is_empty());
                if has_no_src {
                    c.knob("var:variable-edge-without-sources");
                }
                let a = f.clone();
                c.emit("var.forget", vec![f.enc()], move || op_var_forget(&a));
                let a = f.clone();
                c.emit("var.forget_monogamous", vec![f.enc()], move || op_var_forget_monogamous(&a));
            }
        }
    }
}

#[allow(dead_code)]
fn _u(_: NodeId) {}
