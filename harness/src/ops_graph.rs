//! Groups `graph` and `eval`: adjacency, Kahn layering, predicates on morphisms (C15, C17,
//! C18) and evaluation over a test signature (C16), at any `HK` backend.
use crate::ctx::Ctx;
use crate::gen;
use crate::kind::HK;
use crate::raw::*;
use crate::wire::*;
use open_hypergraphs::array::*;
use open_hypergraphs::indexed_coproduct::IndexedCoproduct;
use open_hypergraphs::semifinite::SemifiniteFunction;
use open_hypergraphs::strict::eval::eval;
use open_hypergraphs::strict::hypergraph::arrow::{HypergraphArrow, InvalidHypergraphArrow};
use open_hypergraphs::strict::layer::{layer, layered_operations};
use open_hypergraphs::verif_hooks as hooks;
use std::cell::RefCell;
use std::marker::PhantomData;

pub struct GraphOps<K>(PhantomData<K>);

/// the test signature: wrapping u64 arithmetic and bitwise gates; total on any argument list
pub fn opfn(label: usize, args: &[u64]) -> Vec<u64> {
    let h = args.first().copied().unwrap_or(0);
    match label {
        0 => vec![args.iter().fold(0u64, |a, b| a.wrapping_add(*b))],
        1 => vec![args.iter().fold(1u64, |a, b| a.wrapping_mul(*b))],
        2 => vec![0u64.wrapping_sub(h)],
        3 => vec![h, h],
        4 => vec![],
        5 => vec![3],
        6 => vec![args.iter().fold(u64::MAX, |a, b| a & *b)],
        7 => vec![args.iter().fold(0u64, |a, b| a ^ *b)],
        8 => vec![!h],
        l => vec![(l - 10) as u64],
    }
}
/// (arity, coarity) of the signature
pub fn sig(label: usize) -> (usize, usize) {
    match label {
        0 | 1 | 6 | 7 => (2, 1),
        2 | 8 => (1, 1),
        3 => (1, 2),
        4 => (1, 0),
        _ => (0, 1),
    }
}

fn arrow_err(e: &InvalidHypergraphArrow) -> &'static str {
    match e {
        InvalidHypergraphArrow::TypeMismatchW => "TypeMismatchW",
        InvalidHypergraphArrow::TypeMismatchX => "TypeMismatchX",
        InvalidHypergraphArrow::NotNaturalW => "NotNaturalW",
        InvalidHypergraphArrow::NotNaturalX => "NotNaturalX",
        InvalidHypergraphArrow::NotNaturalS => "NotNaturalS",
        InvalidHypergraphArrow::NotNaturalT => "NotNaturalT",
    }
}

impl<K: HK> GraphOps<K>
where
    K::Type<usize>: NaturalArray<K> + PartialEq,
    K::Type<u64>: Array<K, u64> + PartialEq,
{
    fn eic(c: &ICF<K>) -> Sx {
        Cv::<K>::ricf(c).enc()
    }
    fn eff(f: &FF<K>) -> Sx {
        Cv::<K>::rff(f).enc()
    }

    // ---- op bodies: the calls into the real library, shared by the generator and the replay mode

    pub fn op_converse(a: &RICF) -> Sx {
        ok(Self::eic(&hooks::converse(&Cv::<K>::icf(a))))
    }
    pub fn op_operation_adjacency(a: &RHG) -> Sx {
        ok(Self::eic(&hooks::operation_adjacency(&Cv::<K>::hg(a))))
    }
    pub fn op_node_adjacency(a: &RHG) -> Sx {
        ok(Self::eic(&hooks::node_adjacency(&Cv::<K>::hg(a))))
    }
    pub fn op_indegree(a: &RICF) -> Sx {
        ok(Self::eff(&hooks::indegree(&Cv::<K>::icf(a))))
    }
    pub fn op_dense_relative_indegree(a: &RICF, ff_: &RFF) -> Sx {
        ok(Self::eff(&hooks::dense_relative_indegree(&Cv::<K>::icf(a), &Cv::<K>::ff(ff_))))
    }
    pub fn op_sparse_relative_indegree(a: &RICF, ff_: &RFF) -> Sx {
        let (i, cn) = hooks::sparse_relative_indegree(&Cv::<K>::icf(a), &Cv::<K>::ff(ff_));
        ok(list(vec![Self::eff(&i), Self::eff(&cn)]))
    }
    pub fn op_kahn(a: &RICF) -> Sx {
        let (o, u) = hooks::kahn(&Cv::<K>::icf(a));
        ok(list(vec![l(&K::unidx(&o)), l(&K::unarr(&u))]))
    }
    pub fn op_layer(a: &ROH) -> Sx {
        let (o, u) = layer(&Cv::<K>::oh(a));
        ok(list(vec![Self::eff(&o), l(&K::unarr(&u))]))
    }
    pub fn op_layered_operations(a: &ROH) -> Sx {
        let (g, u) = layered_operations(&Cv::<K>::oh(a));
        ok(list(vec![list(g.iter().map(|x| l(&K::unidx(x))).collect()), l(&K::unidx(&u))]))
    }
    pub fn op_arrow_new(g1: &RHG, h1: &RHG, w1: &RFF, x1: &RFF) -> Sx {
        match HypergraphArrow::new(Cv::<K>::hg(g1), Cv::<K>::hg(h1), Cv::<K>::ff(w1), Cv::<K>::ff(x1)) {
            Ok(_) => ok(Sx::S("accept")),
            Err(e) => err(arrow_err(&e)),
        }
    }
    /// unchecked construction of an arrow (public fields)
    fn mk_arrow(g: &RHG, h: &RHG, w: &RFF, x: &RFF) -> HypergraphArrow<K, usize, usize> {
        HypergraphArrow::<K, usize, usize> {
            source: Cv::<K>::hg(g),
            target: Cv::<K>::hg(h),
            w: Cv::<K>::ff(w),
            x: Cv::<K>::ff(x),
        }
    }
    pub fn op_is_monomorphism(g1: &RHG, h1: &RHG, w1: &RFF, x1: &RFF) -> Sx {
        ok(b(Self::mk_arrow(g1, h1, w1, x1).is_monomorphism()))
    }
    pub fn op_is_convex_subgraph(g1: &RHG, h1: &RHG, w1: &RFF, x1: &RFF) -> Sx {
        ok(b(Self::mk_arrow(g1, h1, w1, x1).is_convex_subgraph()))
    }

    /// an adjacency relation N -> N* with parallel entries of high multiplicity and cycles
    fn adjacency(c: &mut Ctx, m: usize) -> RICF {
        let nn = c.rng.size(m);
        let mut segs = gen::segs_n(&mut c.rng, nn, 3, nn);
        if nn > 0 && c.rng.chance(1, 3) {
            // multiplicity up to 2n+2 towards one node
            c.knob("graph:high-multiplicity");
            let (a, bb) = (c.rng.below(nn), c.rng.below(nn));
            let k = c.rng.range(nn, 2 * nn + 2);
            for _ in 0..k {
                segs[a].push(bb);
            }
        }
        if c.rng.chance(1, 2) {
            // make it acyclic: keep only edges i -> j with i < j
            c.knob("graph:acyclic");
            for (i, s) in segs.iter_mut().enumerate() {
                s.retain(|j| *j > i);
            }
        }
        RICF::from_segs(&segs, nn)
    }

    /// an open hypergraph biased towards interesting dependency structure
    fn dep_oh(c: &mut Ctx) -> ROH {
        let p = gen::hg_params(c.size.max(2));
        if c.rng.chance(1, 4) {
            // ranked DAG (or one back edge): joins of arms of unequal length, nodes reached twice in a step
            let (d, k) = gen::dag_hg(&mut c.rng, c.size, &p);
            c.knob(k);
            let nn = d.w.len();
            return ROH { s: RFF::new(gen::list_below(&mut c.rng, 3, nn), nn), t: RFF::new(gen::list_below(&mut c.rng, 3, nn), nn), h: d };
        }
        let mut f = gen::oh(&mut c.rng, &p);
        let ne = f.h.x.len();
        let nn = f.h.w.len();
        if ne >= 2 && nn > 0 && c.rng.chance(1, 3) {
            // parallel dependency of multiplicity > #operations between two operations
            c.knob("graph:parallel-dependency-multiplicity>ops");
            let (a, bb) = (c.rng.below(ne), c.rng.below(ne));
            let v = c.rng.below(nn);
            let k = c.rng.range(ne + 1, 2 * ne + 2);
            let mut ss = f.h.s.segs();
            let mut ts = f.h.t.segs();
            for _ in 0..k {
                ts[a].push(v);
            }
            ss[bb].push(v);
            f.h.s = RICF::from_segs(&ss, nn);
            f.h.t = RICF::from_segs(&ts, nn);
        }
        if c.rng.chance(1, 2) && nn > 0 {
            // acyclic by construction: sources of edge e among low nodes, targets among high nodes
            c.knob("graph:acyclic-by-levels");
            let mut level: Vec<usize> = (0..nn).map(|_| c.rng.below(4)).collect();
            level[0] = 0;
            let mut ss = f.h.s.segs();
            let mut ts = f.h.t.segs();
            for e in 0..ne {
                let le = c.rng.below(3);
                ss[e].retain(|v| level[*v] <= le);
                ts[e].retain(|v| level[*v] > le);
            }
            f.h.s = RICF::from_segs(&ss, nn);
            f.h.t = RICF::from_segs(&ts, nn);
        }
        f
    }

    pub fn run_graph(c: &mut Ctx, count: usize) {
        let m = c.size.max(2);
        let p = gen::hg_params(m);
        for _ in 0..count {
            match c.rng.below(20) {
                0 | 1 => {
                    let t = c.rng.range(0, m);
                    let r = gen::icf(&mut c.rng, m, 3, t);
                    let a = r.clone();
                    c.emit("graph.converse", vec![r.enc()], move || Self::op_converse(&a));
                }
                2 | 3 => {
                    let f = Self::dep_oh(c);
                    let a = f.h.clone();
                    c.emit("graph.operation_adjacency", vec![f.h.enc()], move || Self::op_operation_adjacency(&a));
                    let a = f.h.clone();
                    c.emit("graph.node_adjacency", vec![f.h.enc()], move || Self::op_node_adjacency(&a));
                }
                4 | 5 => {
                    let adj = Self::adjacency(c, m);
                    let a = adj.clone();
                    c.emit("graph.indegree", vec![adj.enc()], move || Self::op_indegree(&a));
                    let nn = adj.sources.table.len();
                    let f = if c.rng.chance(1, 10) { gen::ff_to(&mut c.rng, m, nn + 1) } else { gen::ff_to(&mut c.rng, m, nn) };
                    let (a, ff_) = (adj.clone(), f.clone());
                    c.emit("graph.dense_relative_indegree", vec![adj.enc(), f.enc()], move || Self::op_dense_relative_indegree(&a, &ff_));
                    let (a, ff_) = (adj.clone(), f.clone());
                    c.emit("graph.sparse_relative_indegree", vec![adj.enc(), f.enc()], move || Self::op_sparse_relative_indegree(&a, &ff_));
                }
                6 | 7 | 8 => {
                    let adj = Self::adjacency(c, m);
                    let a = adj.clone();
                    c.emit("graph.kahn", vec![adj.enc()], move || Self::op_kahn(&a));
                }
                9 | 10 | 11 | 12 => {
                    let f = Self::dep_oh(c);
                    gen::knobs_oh(c, &f);
                    let a = f.clone();
                    c.emit("graph.layer", vec![f.enc()], move || Self::op_layer(&a));
                    let a = f.clone();
                    c.emit("graph.layered_operations", vec![f.enc()], move || Self::op_layered_operations(&a));
                }
                _ => {
                    // morphisms g -> h: sub-hypergraph inclusions (natural by construction), then
                    // possibly one naturality square broken
                    let h = if c.rng.chance(1, 2) {
                        // a sparse digraph-like hypergraph (mostly 1→1 edges, one label): long directed
                        // paths through edges outside a small sub-hypergraph are common here
                        c.knob("arrow:digraph-like-target");
                        let nn = c.rng.range(2, m + 3);
                        let ne = c.rng.range(1, m + 5);
                        let mut ss = vec![];
                        let mut ts = vec![];
                        for _ in 0..ne {
                            let a = c.rng.below(nn);
                            let mut bb = c.rng.below(nn);
                            if c.rng.chance(2, 3) && bb <= a && a + 1 < nn {
                                bb = c.rng.range(a + 1, nn - 1); // mostly forward edges: long acyclic paths
                            }
                            let extra = if c.rng.chance(1, 6) { vec![c.rng.below(nn)] } else { vec![] };
                            let mut sv = vec![a];
                            sv.extend(extra);
                            ss.push(sv);
                            ts.push(if c.rng.chance(1, 8) { vec![] } else { vec![bb] });
                        }
                        RHG { s: RICF::from_segs(&ss, nn), t: RICF::from_segs(&ts, nn), w: vec![0; nn], x: vec![0; ne] }
                    } else {
                        gen::hg(&mut c.rng, &p)
                    };
                    let (nn, ne) = (h.w.len(), h.x.len());
                    // choose a subset of edges and the nodes they touch plus a few more
                    let dens = c.rng.range(2, 4);
                    let mut xs: Vec<usize> = (0..ne).filter(|_| c.rng.chance(1, dens)).collect();
                    c.rng.shuffle(&mut xs);
                    let (hs, ht) = (h.s.segs(), h.t.segs());
                    let mut keep = vec![false; nn];
                    for e in &xs {
                        for v in hs[*e].iter().chain(ht[*e].iter()) {
                            keep[*v] = true;
                        }
                    }
                    for v in 0..nn {
                        if c.rng.chance(1, 3) {
                            keep[v] = true;
                        }
                    }
                    let mut ws: Vec<usize> = (0..nn).filter(|v| keep[*v]).collect();
                    c.rng.shuffle(&mut ws);
                    let mut inv = vec![usize::MAX; nn];
                    for (i, v) in ws.iter().enumerate() {
                        inv[*v] = i;
                    }
                    let gs: Vec<Vec<usize>> = xs.iter().map(|e| hs[*e].iter().map(|v| inv[*v]).collect()).collect();
                    let gt: Vec<Vec<usize>> = xs.iter().map(|e| ht[*e].iter().map(|v| inv[*v]).collect()).collect();
                    let mut g = RHG {
                        s: RICF::from_segs(&gs, ws.len()),
                        t: RICF::from_segs(&gt, ws.len()),
                        w: ws.iter().map(|v| h.w[*v]).collect(),
                        x: xs.iter().map(|e| h.x[*e]).collect(),
                    };
                    let mut w = RFF::new(ws.clone(), nn);
                    let mut x = RFF::new(xs.clone(), ne);
                    if ws.is_empty() && xs.is_empty() {
                        c.knob("arrow:empty-subgraph");
                    }
                    match c.rng.below(14) {
                        12 | 13 if g.x.len() >= 2 => {
                            // the flattened incidence stays the same but a segment boundary moves:
                            // [a b | c] vs [a | b c] (same-label neighbours, zero-arity edges included)
                            let src_side = c.rng.chance(1, 2);
                            let ic = if src_side { &mut g.s } else { &mut g.t };
                            let k = ic.sources.table.len();
                            let i = c.rng.below(k - 1);
                            if ic.sources.table[i] > 0 && c.rng.chance(1, 2) {
                                ic.sources.table[i] -= 1;
                                ic.sources.table[i + 1] += 1;
                                c.knob("arrow:segment-boundary-shifted");
                            } else if ic.sources.table[i + 1] > 0 {
                                ic.sources.table[i + 1] -= 1;
                                ic.sources.table[i] += 1;
                                c.knob("arrow:segment-boundary-shifted");
                            }
                        }
                        0 if !g.w.is_empty() => {
                            c.knob("arrow:node-label-changed");
                            g.w[0] = (g.w[0] + 1) % 3
                        }
                        1 if !g.x.is_empty() => {
                            c.knob("arrow:edge-label-changed");
                            g.x[0] = (g.x[0] + 1) % 4
                        }
                        2 if !g.s.values.table.is_empty() && g.w.len() > 1 => {
                            c.knob("arrow:source-list-changed");
                            let k = g.w.len();
                            g.s.values.table[0] = (g.s.values.table[0] + 1) % k
                        }
                        3 if !g.t.values.table.is_empty() && g.w.len() > 1 => {
                            c.knob("arrow:target-list-changed");
                            let k = g.w.len();
                            g.t.values.table[0] = (g.t.values.table[0] + 1) % k
                        }
                        4 => {
                            c.knob("arrow:w-mistyped");
                            w.target += 1
                        }
                        5 => {
                            c.knob("arrow:x-mistyped");
                            x.target += 1
                        }
                        6 if w.table.len() > 1 => {
                            c.knob("arrow:w-not-injective");
                            w.table[1] = w.table[0];
                        }
                        7 if x.table.len() > 1 => {
                            c.knob("arrow:x-not-injective");
                            x.table[1] = x.table[0];
                        }
                        _ => {
                            c.knob("arrow:inclusion");
                        }
                    }
                    let args = vec![g.enc(), h.enc(), w.enc(), x.enc()];
                    let (g1, h1, w1, x1) = (g.clone(), h.clone(), w.clone(), x.clone());
                    c.emit("graph.arrow_new", args.clone(), move || Self::op_arrow_new(&g1, &h1, &w1, &x1));
                    if w.wf() && x.wf() {
                        let (g1, h1, w1, x1) = (g.clone(), h.clone(), w.clone(), x.clone());
                        c.emit("graph.is_monomorphism", args.clone(), move || Self::op_is_monomorphism(&g1, &h1, &w1, &x1));
                        if w.target == nn && x.target == ne {
                            let (g1, h1, w1, x1) = (g.clone(), h.clone(), w.clone(), x.clone());
                            c.emit("graph.is_convex_subgraph", args, move || Self::op_is_convex_subgraph(&g1, &h1, &w1, &x1));
                        }
                    }
                }
            }
        }
    }

    /// a circuit over the test signature, arity-correct, every node written exactly once;
    /// `fanout` allows a node to be read several times; randomly renumbered
    pub fn circuit(c: &mut Ctx, monogamous: bool) -> ROH {
        let n_in = c.rng.size(3);
        let n_ops = c.rng.size(c.size.max(2) + 2);
        let mut nn = 0usize;
        let mut pool: Vec<usize> = vec![];
        let mut ins = vec![];
        for _ in 0..n_in {
            ins.push(nn);
            pool.push(nn);
            nn += 1;
        }
        let mut ssegs = vec![];
        let mut tsegs = vec![];
        let mut labels = vec![];
        for _ in 0..n_ops {
            let cands: Vec<usize> = [0usize, 1, 2, 3, 4, 5, 6, 7, 8, 12].iter().copied().filter(|l| sig(*l).0 <= pool.len()).collect();
            let lab = *c.rng.pick(&cands);
            let (ar, co) = sig(lab);
            let mut src = vec![];
            for _ in 0..ar {
                let k = c.rng.below(pool.len());
                if monogamous || c.rng.chance(2, 3) {
                    src.push(pool.swap_remove(k));
                } else {
                    src.push(pool[k]); // fan-out through a shared node
                }
            }
            let mut tgt = vec![];
            for _ in 0..co {
                tgt.push(nn);
                pool.push(nn);
                nn += 1;
            }
            ssegs.push(src);
            tsegs.push(tgt);
            labels.push(lab);
        }
        c.rng.shuffle(&mut pool);
        let outs = pool.clone();
        // random renumbering of nodes and of edges
        let mut np: Vec<usize> = (0..nn).collect();
        c.rng.shuffle(&mut np);
        let ne = labels.len();
        let mut ep: Vec<usize> = (0..ne).collect();
        c.rng.shuffle(&mut ep);
        let mut ss2 = vec![vec![]; ne];
        let mut ts2 = vec![vec![]; ne];
        let mut lab2 = vec![0; ne];
        for e in 0..ne {
            ss2[ep[e]] = ssegs[e].iter().map(|v| np[*v]).collect();
            ts2[ep[e]] = tsegs[e].iter().map(|v| np[*v]).collect();
            lab2[ep[e]] = labels[e];
        }
        ROH {
            s: RFF::new(ins.iter().map(|v| np[*v]).collect(), nn),
            t: RFF::new(outs.iter().map(|v| np[*v]).collect(), nn),
            h: RHG { s: RICF::from_segs(&ss2, nn), t: RICF::from_segs(&ts2, nn), w: vec![0; nn], x: lab2 },
        }
    }

    /// evaluate with the real library; returns (outputs, per-call log)
    pub fn eval_logged(f: &ROH, inputs: &[u64]) -> Sx {
        let log: RefCell<Vec<Sx>> = RefCell::new(vec![]);
        let r = eval::<K, usize, usize, u64>(&Cv::<K>::oh(f), K::arr64(inputs.to_vec()), |labels, args| {
            let labs = K::unarr(&labels.0);
            let sizes = K::unidx(&args.sources.table);
            let vals = K::unarr64(&args.values.0);
            let mut out_sizes = vec![];
            let mut out_vals = vec![];
            let mut call = vec![];
            let mut p = 0;
            for (i, lab) in labs.iter().enumerate() {
                let k = sizes.get(i).copied().unwrap_or(0);
                let a = &vals[p..p + k];
                p += k;
                call.push(list(vec![n(*lab), Sx::L(a.iter().map(|x| Sx::N(*x as u128)).collect())]));
                let o = opfn(*lab, a);
                out_sizes.push(o.len());
                out_vals.extend(o);
            }
            log.borrow_mut().push(list(call));
            IndexedCoproduct::from_semifinite(SemifiniteFunction(K::arr(out_sizes)), SemifiniteFunction(K::arr64(out_vals))).unwrap()
        });
        match r {
            Some(o) => ok(list(vec![Sx::L(K::unarr64(&o).iter().map(|x| Sx::N(*x as u128)).collect()), list(log.into_inner())])),
            None => none(),
        }
    }

    pub fn run_eval(c: &mut Ctx, count: usize) {
        let p = gen::hg_params(c.size.max(2));
        for _ in 0..count {
            let f = match c.rng.below(10) {
                0 | 1 | 2 | 3 => {
                    c.knob("eval:monogamous-circuit");
                    Self::circuit(c, true)
                }
                4 | 5 | 6 => {
                    c.knob("eval:fanout-circuit");
                    Self::circuit(c, false)
                }
                7 => {
                    // a circuit with one wire bent back: a dependency cycle
                    let mut f = Self::circuit(c, true);
                    let ne = f.h.x.len();
                    if ne >= 1 {
                        let mut ss = f.h.s.segs();
                        let ts = f.h.t.segs();
                        let e = c.rng.below(ne);
                        if !ss[e].is_empty() && !ts[e].is_empty() {
                            c.knob("eval:cycle-bent-wire");
                            ss[e][0] = ts[e][0];
                            f.h.s = RICF::from_segs(&ss, f.h.w.len());
                        }
                    }
                    f
                }
                _ => {
                    c.knob("eval:arbitrary-diagram");
                    let mut f = gen::oh(&mut c.rng, &p);
                    let k = f.h.x.len();
                    f.h.x = (0..k).map(|_| *c.rng.pick(&[0usize, 1, 2, 3, 4, 5, 6, 7, 8, 11])).collect();
                    f
                }
            };
            let inputs: Vec<u64> = (0..f.s.table.len())
                .map(|_| match c.rng.below(4) {
                    0 => c.rng.below(5) as u64,
                    1 => u64::MAX - c.rng.below(3) as u64,
                    _ => c.rng.next(),
                })
                .collect();
            let args = vec![f.enc(), Sx::L(inputs.iter().map(|x| Sx::N(*x as u128)).collect())];
            let (f1, i1) = (f.clone(), inputs.clone());
            c.emit("eval.eval", args, move || Self::eval_logged(&f1, &i1));
        }
    }
}
