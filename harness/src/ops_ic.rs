//! Group `ic`: segmented arrays and operation batches (C08), at any `HK` backend.
use crate::ctx::Ctx;
use crate::gen;
use crate::kind::HK;
use crate::raw::*;
use crate::wire::*;
use open_hypergraphs::array::vec::VecKind;
use open_hypergraphs::array::*;
use open_hypergraphs::indexed_coproduct::*;
use open_hypergraphs::operations::Operations;
use open_hypergraphs::semifinite::SemifiniteFunction;
use std::marker::PhantomData;

pub struct IcOps<K>(PhantomData<K>);

impl<K: HK> IcOps<K>
where
    K::Type<usize>: NaturalArray<K> + PartialEq,
    K::Type<u64>: Array<K, u64> + PartialEq,
{
    fn ef(c: &ICF<K>) -> Sx {
        Cv::<K>::ricf(c).enc()
    }
    fn es(c: &ICS<K>) -> Sx {
        Cv::<K>::rics(c).enc()
    }

    // ---- op bodies: the calls into the real library, shared by the generator and the replay mode

    pub fn op_new_ff(sources: &RFF, values: &RFF) -> Sx {
        opt(IndexedCoproduct::new(Cv::<K>::ff(sources), Cv::<K>::ff(values)).map(|x| Self::ef(&x)))
    }
    pub fn op_new_sf(sources: &RFF, values: &[usize]) -> Sx {
        opt(IndexedCoproduct::new(Cv::<K>::ff(sources), Cv::<K>::sf(values)).map(|x| Self::es(&x)))
    }
    pub fn op_from_semifinite_ff(sizes: &[usize], values: &RFF) -> Sx {
        opt(IndexedCoproduct::from_semifinite(SemifiniteFunction(K::arr(sizes.to_vec())), Cv::<K>::ff(values))
            .map(|x| Self::ef(&x)))
    }
    pub fn op_from_semifinite_sf(sizes: &[usize], values: &[usize]) -> Sx {
        opt(IndexedCoproduct::from_semifinite(SemifiniteFunction(K::arr(sizes.to_vec())), Cv::<K>::sf(values))
            .map(|x| Self::es(&x)))
    }
    pub fn op_singleton_ff(a: &RFF) -> Sx {
        ok(Self::ef(&IndexedCoproduct::singleton(Cv::<K>::ff(a))))
    }
    pub fn op_elements_ff(a: &RFF) -> Sx {
        ok(Self::ef(&IndexedCoproduct::elements(Cv::<K>::ff(a))))
    }
    pub fn op_singleton_sf(a: &[usize]) -> Sx {
        ok(Self::es(&IndexedCoproduct::singleton(Cv::<K>::sf(a))))
    }
    pub fn op_elements_sf(a: &[usize]) -> Sx {
        ok(Self::es(&IndexedCoproduct::elements(Cv::<K>::sf(a))))
    }
    pub fn op_initial(t: usize) -> Sx {
        ok(Self::ef(&IndexedCoproduct::<K, FF<K>>::initial(t)))
    }
    pub fn op_len(a: &RICF) -> Sx {
        ok(n(Cv::<K>::icf(a).len()))
    }
    pub fn op_flatmap_sources(a: &RICF, bb: &RICS) -> Sx {
        ok(Self::es(&Cv::<K>::icf(a).flatmap_sources(&Cv::<K>::ics(bb))))
    }
    pub fn op_flatmap_sources_sf(a: &RICS, bb: &RICS) -> Sx {
        ok(Self::es(&Cv::<K>::ics(a).flatmap_sources(&Cv::<K>::ics(bb))))
    }
    pub fn op_tensor(a: &RICF, bb: &RICF) -> Sx {
        ok(Self::ef(&Cv::<K>::icf(a).tensor(&Cv::<K>::icf(bb))))
    }
    pub fn op_coproduct_ff(a: &RICF, bb: &RICF) -> Sx {
        opt(Cv::<K>::icf(a).coproduct(&Cv::<K>::icf(bb)).map(|x| Self::ef(&x)))
    }
    pub fn op_coproduct_sf(a: &RICS, bb: &RICS) -> Sx {
        opt(Cv::<K>::ics(a).coproduct(&Cv::<K>::ics(bb)).map(|x| Self::es(&x)))
    }
    pub fn op_map_values(a: &RICF, xx: &RFF) -> Sx {
        opt(Cv::<K>::icf(a).map_values(&Cv::<K>::ff(xx)).map(|y| Self::ef(&y)))
    }
    pub fn op_map_semifinite(a: &RICF, ll_: &[usize]) -> Sx {
        opt(Cv::<K>::icf(a).map_semifinite(&Cv::<K>::sf(ll_)).map(|y| Self::es(&y)))
    }
    pub fn op_flatmap(a: &RICF, bb: &RICF) -> Sx {
        ok(Self::ef(&Cv::<K>::icf(a).flatmap(&Cv::<K>::icf(bb))))
    }
    pub fn op_map_indexes_ff(a: &RICF, xx: &RFF) -> Sx {
        opt(Cv::<K>::icf(a).map_indexes(&Cv::<K>::ff(xx)).map(|y| Self::ef(&y)))
    }
    pub fn op_indexed_values_ff(a: &RICF, xx: &RFF) -> Sx {
        opt(Cv::<K>::icf(a).indexed_values(&Cv::<K>::ff(xx)).map(|y| Cv::<K>::rff(&y).enc()))
    }
    pub fn op_map_indexes_sf(a: &RICS, xx: &RFF) -> Sx {
        opt(Cv::<K>::ics(a).map_indexes(&Cv::<K>::ff(xx)).map(|y| Self::es(&y)))
    }
    pub fn op_indexed_values_sf(a: &RICS, xx: &RFF) -> Sx {
        opt(Cv::<K>::ics(a).indexed_values(&Cv::<K>::ff(xx)).map(|y| l(&Cv::<K>::rsf(&y))))
    }
    pub fn op_iter_trace_ff(a: &RICF) -> Sx {
        let mut it = Cv::<K>::icf(a).into_iter();
        let mut tr = vec![];
        // the count reported before the first step must equal the number of slices
        let before = it.len();
        let (lo, hi) = it.size_hint();
        assert!(lo == before && hi == Some(before));
        while let Some(f) = it.next() {
            let (lo, hi) = it.size_hint();
            assert!(lo == it.len() && hi == Some(lo));
            tr.push(list(vec![l(&K::unidx(&f.table)), n(it.len())]));
        }
        // exhausted: it stays exhausted and keeps reporting that nothing is left
        for _ in 0..2 {
            assert!(it.next().is_none());
            assert!(it.len() == 0 && it.size_hint() == (0, Some(0)));
        }
        assert!(tr.len() == before);
        ok(list(tr))
    }
    pub fn op_iter_trace_sf(a: &RICS) -> Sx {
        let mut it = Cv::<K>::ics(a).into_iter();
        let mut tr = vec![];
        let before = it.len();
        while let Some(f) = it.next() {
            let (lo, hi) = it.size_hint();
            assert!(lo == it.len() && hi == Some(lo));
            tr.push(list(vec![l(&K::unarr(&f.0)), n(it.len())]));
        }
        for _ in 0..2 {
            assert!(it.next().is_none());
            assert!(it.len() == 0 && it.size_hint() == (0, Some(0)));
        }
        assert!(tr.len() == before);
        ok(list(tr))
    }
    pub fn op_ops_new(x1: &[usize], a1: &RICS, b1: &RICS) -> Sx {
        opt(Operations::<K, usize, usize>::new(Cv::<K>::sf(x1), Cv::<K>::ics(a1), Cv::<K>::ics(b1))
            .map(|o| list(vec![l(&Cv::<K>::rsf(&o.x)), Self::es(&o.a), Self::es(&o.b)])))
    }
    pub fn op_ops_singleton(lab: usize, sa1: &[usize], sb1: &[usize]) -> Sx {
        let o = Operations::<K, usize, usize>::singleton(lab, Cv::<K>::sf(sa1), Cv::<K>::sf(sb1));
        ok(list(vec![l(&Cv::<K>::rsf(&o.x)), Self::es(&o.a), Self::es(&o.b)]))
    }
    /// the per-operation view exists for the Vec backend only
    pub fn op_ops_iter(x1: &[usize], a1: &RICS, b1: &RICS) -> Sx {
        let o = Cv::<VecKind>::ops(x1, a1, b1);
        ok(list(o.iter().map(|(lab, s, t)| list(vec![n(*lab), l(s), l(t)])).collect()))
    }
    pub fn op_slice_iter(a1: &RICS) -> Sx {
        let ic = Cv::<VecKind>::ics(a1);
        ok(list(ic.iter().map(|s| l(s)).collect()))
    }

    fn some_icf(c: &mut Ctx, m: usize, target: usize) -> RICF {
        if c.rng.chance(1, 8) {
            c.knob("ic:malformed");
            gen::icf_malformed(&mut c.rng, m, 3, target)
        } else {
            let r = gen::icf(&mut c.rng, m, 3, target);
            if r.sources.table.iter().any(|k| *k == 0) {
                c.knob("ic:empty-segment");
            }
            if r.sources.table.is_empty() {
                c.knob("ic:no-segments");
            }
            r
        }
    }

    pub fn run(c: &mut Ctx, count: usize) {
        let m = c.size.max(2);
        for _ in 0..count {
            match c.rng.below(22) {
                0 | 1 => {
                    let t = c.rng.range(0, m);
                    let r = Self::some_icf(c, m, t);
                    let a = r.clone();
                    c.emit("ic.new_ff", vec![r.sources.enc(), r.values.enc()], move || Self::op_new_ff(&a.sources, &a.values));
                    let rs = RIC { sources: r.sources.clone(), values: r.values.table.clone() };
                    let a = rs.clone();
                    c.emit("ic.new_sf", vec![rs.sources.enc(), l(&rs.values)], move || Self::op_new_sf(&a.sources, &a.values));
                    let a = r.clone();
                    c.emit("ic.from_semifinite_ff", vec![l(&r.sources.table), r.values.enc()], move || Self::op_from_semifinite_ff(&a.sources.table, &a.values));
                    let a = rs.clone();
                    c.emit("ic.from_semifinite_sf", vec![l(&rs.sources.table), l(&rs.values)], move || Self::op_from_semifinite_sf(&a.sources.table, &a.values));
                }
                2 => {
                    let v = gen::ff(&mut c.rng, m, m);
                    let a = v.clone();
                    c.emit("ic.singleton_ff", vec![v.enc()], move || Self::op_singleton_ff(&a));
                    let a = v.clone();
                    c.emit("ic.elements_ff", vec![v.enc()], move || Self::op_elements_ff(&a));
                    let lab = v.table.clone();
                    let a = lab.clone();
                    c.emit("ic.singleton_sf", vec![l(&lab)], move || Self::op_singleton_sf(&a));
                    let a = lab.clone();
                    c.emit("ic.elements_sf", vec![l(&lab)], move || Self::op_elements_sf(&a));
                    let t = c.rng.size(m);
                    c.emit("ic.initial", vec![n(t)], move || Self::op_initial(t));
                }
                3 => {
                    let t = c.rng.range(0, m);
                    let r = Self::some_icf(c, m, t);
                    let a = r.clone();
                    c.emit("ic.len", vec![r.enc()], move || Self::op_len(&a));
                }
                4 | 5 => {
                    // flatmap_sources: total length of self = number of segments of other
                    let t = c.rng.range(1, m);
                    let r = gen::icf(&mut c.rng, m, 3, t);
                    let total = r.values.table.len();
                    let k = if c.rng.chance(1, 8) { total + 1 } else { total };
                    let other = RICS::from_segs(&gen::segs_n(&mut c.rng, k, 3, 5));
                    let (a, bb) = (r.clone(), other.clone());
                    c.emit("ic.flatmap_sources", vec![r.enc(), other.enc()], move || Self::op_flatmap_sources(&a, &bb));
                    let rs = RIC { sources: r.sources.clone(), values: r.values.table.clone() };
                    let (a, bb) = (rs.clone(), other.clone());
                    c.emit("ic.flatmap_sources_sf", vec![rs.enc(), other.enc()], move || Self::op_flatmap_sources_sf(&a, &bb));
                }
                6 | 7 => {
                    let (t1, t2) = (c.rng.range(0, m), c.rng.range(0, m));
                    let r1 = Self::some_icf(c, m, t1);
                    let r2 = Self::some_icf(c, m, t2);
                    let (a, bb) = (r1.clone(), r2.clone());
                    c.emit("ic.tensor", vec![r1.enc(), r2.enc()], move || Self::op_tensor(&a, &bb));
                    // coproduct needs a common codomain (sometimes not)
                    let r3 = if c.rng.chance(1, 6) { r2.clone() } else { gen::icf(&mut c.rng, m, 3, r1.values.target) };
                    let (a, bb) = (r1.clone(), r3.clone());
                    c.emit("ic.coproduct_ff", vec![r1.enc(), r3.enc()], move || Self::op_coproduct_ff(&a, &bb));
                    let s1 = RIC { sources: r1.sources.clone(), values: r1.values.table.clone() };
                    let s2 = RIC { sources: r2.sources.clone(), values: r2.values.table.clone() };
                    let (a, bb) = (s1.clone(), s2.clone());
                    c.emit("ic.coproduct_sf", vec![s1.enc(), s2.enc()], move || Self::op_coproduct_sf(&a, &bb));
                }
                8 | 9 => {
                    let t = c.rng.range(0, m);
                    let r = Self::some_icf(c, m, t);
                    let xt = c.rng.range(1, m);
                    let xs = if c.rng.chance(1, 6) { t + 1 } else { t };
                    let x = gen::ff_from_to(&mut c.rng, xs, xt);
                    let (a, xx) = (r.clone(), x.clone());
                    c.emit("ic.map_values", vec![r.enc(), x.enc()], move || Self::op_map_values(&a, &xx));
                    let lab = c.rng.vec_below(xs, 5);
                    let (a, ll_) = (r.clone(), lab.clone());
                    c.emit("ic.map_semifinite", vec![r.enc(), l(&lab)], move || Self::op_map_semifinite(&a, &ll_));
                }
                10 | 11 | 12 => {
                    // flatmap: self : A -> B*, other : B -> C*
                    let bsz = c.rng.range(0, m);
                    let csz = c.rng.range(0, m);
                    let r = gen::icf(&mut c.rng, m, 3, bsz);
                    let k = if c.rng.chance(1, 8) { bsz + 1 } else { bsz };
                    let other = RICF::from_segs(&gen::segs_n(&mut c.rng, k, 3, csz), csz);
                    let (a, bb) = (r.clone(), other.clone());
                    c.emit("ic.flatmap", vec![r.enc(), other.enc()], move || Self::op_flatmap(&a, &bb));
                }
                13 | 14 | 15 | 16 => {
                    // re-indexing along x : X -> segments (non-injective, empty)
                    let t = c.rng.range(0, m);
                    let r = Self::some_icf(c, m, t);
                    let nseg = r.sources.table.len();
                    let x = if c.rng.chance(1, 8) { gen::ff_to(&mut c.rng, m, nseg + 1) } else { gen::ff_to(&mut c.rng, m + 2, nseg) };
                    if x.table.is_empty() {
                        c.knob("ic:reindex-empty");
                    }
                    let mut seen = std::collections::HashSet::new();
                    if x.table.iter().any(|i| !seen.insert(*i)) {
                        c.knob("ic:reindex-non-injective");
                    }
                    let (a, xx) = (r.clone(), x.clone());
                    c.emit("ic.map_indexes_ff", vec![r.enc(), x.enc()], move || Self::op_map_indexes_ff(&a, &xx));
                    let (a, xx) = (r.clone(), x.clone());
                    c.emit("ic.indexed_values_ff", vec![r.enc(), x.enc()], move || Self::op_indexed_values_ff(&a, &xx));
                    let rs = RIC { sources: r.sources.clone(), values: r.values.table.clone() };
                    let (a, xx) = (rs.clone(), x.clone());
                    c.emit("ic.map_indexes_sf", vec![rs.enc(), x.enc()], move || Self::op_map_indexes_sf(&a, &xx));
                    let (a, xx) = (rs.clone(), x.clone());
                    c.emit("ic.indexed_values_sf", vec![rs.enc(), x.enc()], move || Self::op_indexed_values_sf(&a, &xx));
                }
                17 | 18 | 19 => {
                    // iterators: every slice once, in order, with the exact remaining count
                    let t = c.rng.range(1, m);
                    let r = gen::icf(&mut c.rng, m + 1, 3, t);
                    let a = r.clone();
                    c.emit("ic.iter_trace_ff", vec![r.enc()], move || Self::op_iter_trace_ff(&a));
                    let rs = RIC { sources: r.sources.clone(), values: r.values.table.clone() };
                    let a = rs.clone();
                    c.emit("ic.iter_trace_sf", vec![rs.enc()], move || Self::op_iter_trace_sf(&a));
                }
                _ => {
                    // operation batches
                    let k = c.rng.size(m);
                    let x = c.rng.vec_below(k, 4);
                    let ka = if c.rng.chance(1, 8) { k + 1 } else { k };
                    let kb = if c.rng.chance(1, 8) { k + 1 } else { k };
                    let a = RICS::from_segs(&gen::segs_n(&mut c.rng, ka, 3, 3));
                    let bb = RICS::from_segs(&gen::segs_n(&mut c.rng, kb, 3, 3));
                    let (x1, a1, b1) = (x.clone(), a.clone(), bb.clone());
                    c.emit("ic.ops_new", vec![l(&x), a.enc(), bb.enc()], move || Self::op_ops_new(&x1, &a1, &b1));
                    let (lab, sa, sb) = (c.rng.below(4), gen::list_below(&mut c.rng, 3, 3), gen::list_below(&mut c.rng, 3, 3));
                    let (sa1, sb1) = (sa.clone(), sb.clone());
                    c.emit("ic.ops_singleton", vec![n(lab), l(&sa), l(&sb)], move || Self::op_ops_singleton(lab, &sa1, &sb1));
                    if ka == k && kb == k {
                        // the per-operation view exists for the Vec backend only
                        let (x1, a1, b1) = (x.clone(), a.clone(), bb.clone());
                        c.emit("ic.ops_iter", vec![l(&x), a.enc(), bb.enc()], move || Self::op_ops_iter(&x1, &a1, &b1));
                        let a1 = a.clone();
                        c.emit("ic.slice_iter", vec![a.enc()], move || Self::op_slice_iter(&a1));
                    }
                }
            }
        }
    }
}
