//! Groups `lax.edit` (builder histories, C09/C11), `lax.cat` (C10, C02, C04) and the functor
//! groups (C12, C13) on the lax (Vec-only) representation.
use crate::ctx::Ctx;
use crate::gen;
use crate::raw::*;
use crate::wire::*;
use open_hypergraphs::array::vec::{VecArray, VecKind};
use open_hypergraphs::category::*;
use open_hypergraphs::lax::{EdgeId, Hyperedge, Hypergraph as LH, NodeId, OpenHypergraph as LF};
use std::panic::{catch_unwind, AssertUnwindSafe};

pub type Lh = LH<usize, usize>;
pub type Lf = LF<usize, usize>;

pub fn ids(v: &[NodeId]) -> Vec<usize> {
    v.iter().map(|x| x.0).collect()
}
pub fn nids(v: &[usize]) -> Vec<NodeId> {
    v.iter().map(|x| NodeId(*x)).collect()
}
pub fn enc_lh(h: &Lh) -> Sx {
    list(vec![
        l(&h.nodes),
        l(&h.edges),
        list(h.adjacency.iter().map(|e| list(vec![l(&ids(&e.sources)), l(&ids(&e.targets))])).collect()),
        list(vec![l(&ids(&h.quotient.0)), l(&ids(&h.quotient.1))]),
    ])
}
pub fn enc_lf(f: &Lf) -> Sx {
    list(vec![l(&ids(&f.sources)), l(&ids(&f.targets)), enc_lh(&f.hypergraph)])
}

/// raw lax data
#[derive(Clone, Debug)]
pub struct RLf {
    pub sources: Vec<usize>,
    pub targets: Vec<usize>,
    pub nodes: Vec<usize>,
    pub edges: Vec<usize>,
    pub adjacency: Vec<(Vec<usize>, Vec<usize>)>,
    pub quotient: (Vec<usize>, Vec<usize>),
}
impl RLf {
    pub fn to_lf(&self) -> Lf {
        LF {
            sources: nids(&self.sources),
            targets: nids(&self.targets),
            hypergraph: LH {
                nodes: self.nodes.clone(),
                edges: self.edges.clone(),
                adjacency: self.adjacency.iter().map(|(s, t)| Hyperedge { sources: nids(s), targets: nids(t) }).collect(),
                quotient: (nids(&self.quotient.0), nids(&self.quotient.1)),
            },
        }
    }
    pub fn enc(&self) -> Sx {
        enc_lf(&self.to_lf())
    }
    pub fn ty(&self) -> (Vec<usize>, Vec<usize>) {
        (self.sources.iter().map(|i| self.nodes[*i]).collect(), self.targets.iter().map(|i| self.nodes[*i]).collect())
    }
}

/// a well-formed lax open hypergraph; `pending`: with unification pairs; `consistent`: pairs only
/// between nodes of equal label
pub fn gen_lf(c: &mut Ctx, pending: bool, consistent: bool) -> RLf {
    let p = gen::hg_params(c.size.max(2));
    let nn = c.rng.size(p.max_nodes);
    let ne = if nn == 0 && c.rng.chance(1, 2) { 0 } else { c.rng.size(p.max_edges) };
    let nodes = c.rng.vec_below(nn, p.node_labels);
    let adjacency: Vec<(Vec<usize>, Vec<usize>)> = (0..ne)
        .map(|_| {
            let a = if nn == 0 { vec![] } else { gen::list_below(&mut c.rng, p.max_arity, nn) };
            let b = if nn == 0 { vec![] } else { gen::list_below(&mut c.rng, p.max_arity, nn) };
            (a, b)
        })
        .collect();
    let edges = c.rng.vec_below(ne, p.edge_labels);
    let sources = if nn == 0 { vec![] } else { gen::list_below(&mut c.rng, 3, nn) };
    let targets = if nn == 0 { vec![] } else { gen::list_below(&mut c.rng, 3, nn) };
    let mut q = (vec![], vec![]);
    if pending && nn > 0 {
        let k = c.rng.range(1, 4);
        for _ in 0..k {
            let a = c.rng.below(nn);
            let cands: Vec<usize> = if consistent { (0..nn).filter(|i| nodes[*i] == nodes[a]).collect() } else { (0..nn).collect() };
            let bb = *c.rng.pick(&cands);
            q.0.push(a);
            q.1.push(bb);
        }
    }
    RLf { sources, targets, nodes, edges, adjacency, quotient: q }
}

/// a lax diagram whose source type is `ty`
pub fn gen_lf_with_source(c: &mut Ctx, ty: &[usize], pending: bool) -> RLf {
    let mut f = gen_lf(c, pending, true);
    let mut srcs = vec![];
    for lab in ty {
        let cands: Vec<usize> = (0..f.nodes.len()).filter(|i| f.nodes[*i] == *lab).collect();
        if !cands.is_empty() && c.rng.chance(1, 2) {
            srcs.push(*c.rng.pick(&cands));
        } else {
            f.nodes.push(*lab);
            srcs.push(f.nodes.len() - 1);
        }
    }
    f.sources = srcs;
    f
}

fn some_id(c: &mut Ctx, n: usize) -> usize {
    // valid mostly; just out of range sometimes
    if n == 0 || c.rng.chance(1, 12) {
        n + c.rng.below(2)
    } else {
        c.rng.below(n)
    }
}
fn id_list(c: &mut Ctx, n: usize, max: usize) -> Vec<usize> {
    let k = c.rng.size(max);
    let mut v: Vec<usize> = (0..k).map(|_| if n == 0 { 0 } else { c.rng.below(n) }).collect();
    if n == 0 {
        v.clear();
    }
    if c.rng.chance(1, 4) && !v.is_empty() {
        c.knob("edit:duplicate-id");
        let x = v[0];
        v.push(x);
    }
    if c.rng.chance(1, 10) {
        c.knob("edit:id-out-of-range");
        v.push(n);
    }
    v
}

/// apply one step and produce its trace entry: `(output state)`, or `panic` when the step was
/// rejected (the history ends there)
pub fn step_traced(f: &mut Lf, op: &Sx) -> Sx {
    match step(f, op) {
        Some(out) => list(vec![out, enc_lf(f)]),
        None => Sx::S("panic"),
    }
}

/// re-run a whole history from `start` (replay mode): the trace `run_edit` records
pub fn replay_history(start: &RLf, ops: &[Sx]) -> Sx {
    let mut f = start.to_lf();
    let mut trace = vec![];
    for op in ops {
        let t = step_traced(&mut f, op);
        let rejected = t == Sx::S("panic");
        trace.push(t);
        if rejected {
            break;
        }
    }
    ok(list(trace))
}

/// apply one step to the real library; returns the output or None on panic
pub fn step(f: &mut Lf, op: &Sx) -> Option<Sx> {
    let parts = match op {
        Sx::L(v) => v.clone(),
        _ => return None,
    };
    let name = match &parts[0] {
        Sx::S(s) => *s,
        _ => return None,
    };
    let num = |i: usize| match &parts[i] {
        Sx::N(v) => *v as usize,
        _ => 0,
    };
    let lst = |i: usize| -> Vec<usize> {
        match &parts[i] {
            Sx::L(v) => v.iter().map(|x| if let Sx::N(k) = x { *k as usize } else { 0 }).collect(),
            _ => vec![],
        }
    };
    let r = catch_unwind(AssertUnwindSafe(|| -> Sx {
        match name {
            "new_node" => n(f.new_node(num(1)).0),
            "new_edge" => n(f.new_edge(num(1), Hyperedge { sources: nids(&lst(2)), targets: nids(&lst(3)) }).0),
            "new_operation" => {
                let (e, (s, t)) = f.new_operation(num(1), lst(2), lst(3));
                list(vec![n(e.0), l(&ids(&s)), l(&ids(&t))])
            }
            "add_edge_source" => n(f.add_edge_source(EdgeId(num(1)), num(2)).0),
            "add_edge_target" => n(f.add_edge_target(EdgeId(num(1)), num(2)).0),
            "unify" => {
                f.unify(NodeId(num(1)), NodeId(num(2)));
                list(vec![])
            }
            "delete_nodes" => {
                f.delete_nodes(&nids(&lst(1)));
                list(vec![])
            }
            "h_delete_nodes_witness" => {
                let w = f.hypergraph.delete_nodes_witness(&nids(&lst(1)));
                list(w.iter().map(|x| optval(x.map(n))).collect())
            }
            "delete_edges" => {
                let e: Vec<EdgeId> = lst(1).iter().map(|x| EdgeId(*x)).collect();
                // the deprecated alias `delete_edge` must behave identically: use it on odd-length lists
                if e.len() % 2 == 1 {
                    #[allow(deprecated)]
                    f.hypergraph.delete_edge(&e);
                } else {
                    f.delete_edges(&e);
                }
                list(vec![])
            }
            "map_nodes" => {
                let k = num(1);
                let g = std::mem::replace(f, LF::empty());
                *f = g.map_nodes(|x| x + k);
                list(vec![])
            }
            "map_edges" => {
                let k = num(1);
                let g = std::mem::replace(f, LF::empty());
                *f = g.map_edges(|x| x + k);
                list(vec![])
            }
            "with_nodes" => {
                let mode = num(1);
                let g = f.clone();
                match g.with_nodes(|mut ns: Vec<usize>| {
                    if mode == 0 {
                        ns.reverse()
                    } else {
                        ns.pop();
                    }
                    ns
                }) {
                    Some(r) => {
                        *f = r;
                        Sx::S("some")
                    }
                    None => Sx::S("nil"),
                }
            }
            "with_edges" => {
                let mode = num(1);
                let g = f.clone();
                match g.with_edges(|mut es: Vec<usize>| {
                    if mode == 0 {
                        es.reverse()
                    } else {
                        es.pop();
                    }
                    es
                }) {
                    Some(r) => {
                        *f = r;
                        Sx::S("some")
                    }
                    None => Sx::S("nil"),
                }
            }
            "set_sources" => {
                f.sources = nids(&lst(1));
                list(vec![])
            }
            "set_targets" => {
                f.targets = nids(&lst(1));
                list(vec![])
            }
            "is_strict" => b(f.hypergraph.is_strict()),
            // (the deprecated alias `quotient_witness` on diagrams with an odd number of nodes)
            "quotient" => match if f.hypergraph.nodes.len() % 2 == 1 {
                #[allow(deprecated)]
                f.quotient_witness()
            } else {
                f.quotient()
            } {
                Ok(q) => list(vec![Sx::S("Ok"), RFF::new(q.table.0.clone(), q.target).enc()]),
                Err(q) => list(vec![Sx::S("Err"), RFF::new(q.table.0.clone(), q.target).enc()]),
            },
            "h_quotient" => match f.hypergraph.quotient() {
                Ok(q) => list(vec![Sx::S("Ok"), RFF::new(q.table.0.clone(), q.target).enc()]),
                Err(q) => list(vec![Sx::S("Err"), RFF::new(q.table.0.clone(), q.target).enc()]),
            },
            "coequalizer" => {
                let q = f.hypergraph.coequalizer();
                RFF::new(q.table.0.clone(), q.target).enc()
            }
            _ => panic!("unknown step"),
        }
    }));
    r.ok()
}

fn sym(s: &'static str) -> Sx {
    Sx::S(s)
}

pub fn run_edit(c: &mut Ctx, count: usize, quot_heavy: bool) {
    for _ in 0..count {
        let start = if c.rng.chance(1, 2) {
            RLf { sources: vec![], targets: vec![], nodes: vec![], edges: vec![], adjacency: vec![], quotient: (vec![], vec![]) }
        } else {
            { let (p_, q_) = (c.rng.chance(1, 2), c.rng.chance(2, 3)); gen_lf(c, p_, q_) }
        };
        let mut f = start.to_lf();
        let steps = c.rng.range(1, c.size + 6);
        let mut ops = vec![];
        let mut trace = vec![];
        for _ in 0..steps {
            let nn = f.hypergraph.nodes.len();
            let ne = f.hypergraph.edges.len();
            let pick = if quot_heavy {
                *c.rng.pick(&[0usize, 2, 5, 5, 5, 12, 12, 12, 12, 13, 14, 3])
            } else {
                // the editing group (C11) makes no quotient calls: those belong to C09
                match c.rng.below(18) {
                    12 => 5,
                    13 => 3,
                    14 => 6,
                    k => k,
                }
            };
            let op = match pick {
                0 | 1 => list(vec![sym("new_node"), n(c.rng.below(3))]),
                2 => {
                    let s = id_list(c, nn, 3);
                    let t = id_list(c, nn, 3);
                    list(vec![sym("new_edge"), n(c.rng.below(4)), l(&s), l(&t)])
                }
                3 => list(vec![sym("new_operation"), n(c.rng.below(4)), l(&gen::list_below(&mut c.rng, 3, 3)), l(&gen::list_below(&mut c.rng, 3, 3))]),
                4 => {
                    let e = some_id(c, ne);
                    if c.rng.chance(1, 2) {
                        list(vec![sym("add_edge_source"), n(e), n(c.rng.below(3))])
                    } else {
                        list(vec![sym("add_edge_target"), n(e), n(c.rng.below(3))])
                    }
                }
                5 => {
                    // unify: mostly equal labels, sometimes across label boundaries, self pairs, repeats
                    let a = some_id(c, nn);
                    let same: Vec<usize> = (0..nn).filter(|i| a < nn && f.hypergraph.nodes[*i] == f.hypergraph.nodes[a]).collect();
                    let bb = if !same.is_empty() && c.rng.chance(3, 4) { *c.rng.pick(&same) } else { some_id(c, nn) };
                    if a < nn && bb < nn && f.hypergraph.nodes[a] != f.hypergraph.nodes[bb] {
                        c.knob("edit:unify-across-labels");
                    }
                    if a == bb {
                        c.knob("edit:unify-self-pair");
                    }
                    list(vec![sym("unify"), n(a), n(bb)])
                }
                6 | 7 => list(vec![sym("delete_nodes"), l(&id_list(c, nn, 3))]),
                8 => list(vec![sym("h_delete_nodes_witness"), l(&id_list(c, nn, 3))]),
                9 | 10 => list(vec![sym("delete_edges"), l(&id_list(c, ne, 3))]),
                11 => {
                    if c.rng.chance(1, 2) {
                        list(vec![sym("map_nodes"), n(c.rng.below(3))])
                    } else {
                        list(vec![sym("map_edges"), n(c.rng.below(3))])
                    }
                }
                12 => {
                    c.knob("edit:quotient");
                    // the hypergraph-level quotient knows nothing of the interfaces of the open
                    // hypergraph around it (they would be left pointing at the old numbering), so it
                    // is exercised on diagrams without interface entries only
                    let closed = f.sources.is_empty() && f.targets.is_empty();
                    list(vec![sym(if !closed || c.rng.chance(3, 4) { "quotient" } else { "h_quotient" })])
                }
                13 => list(vec![sym("is_strict")]),
                14 => list(vec![sym("coequalizer")]),
                15 => list(vec![sym(if c.rng.chance(1, 2) { "with_nodes" } else { "with_edges" }), n(c.rng.below(2))]),
                16 => list(vec![sym("set_sources"), l(&id_list(c, nn, 3))]),
                _ => list(vec![sym("set_targets"), l(&id_list(c, nn, 3))]),
            };
            ops.push(op.clone());
            let t = step_traced(&mut f, &op);
            let rejected = t == Sx::S("panic");
            trace.push(t);
            if rejected {
                c.knob("edit:history-ends-in-rejection");
                break;
            }
        }
        c.emit(if quot_heavy { "lax.quot" } else { "lax.edit" }, vec![start.enc(), list(ops)], move || ok(list(trace)));
    }
}

fn enc_oh(f: &open_hypergraphs::strict::OpenHypergraph<VecKind, usize, usize>) -> Sx {
    Cv::<VecKind>::roh(f).enc()
}

// ---- op bodies: the calls into the real library, shared by the generator and the replay mode

pub fn op_from_strict(a: &ROH) -> Sx {
    ok(enc_lf(&LF::from_strict(Cv::<VecKind>::oh(a))))
}
pub fn op_to_strict(a: &RLf) -> Sx {
    let f = a.to_lf();
    // (the deprecated alias `to_open_hypergraph` on diagrams with an odd number of edges)
    if f.hypergraph.edges.len() % 2 == 1 {
        #[allow(deprecated)]
        return ok(enc_oh(&f.to_open_hypergraph()));
    }
    ok(enc_oh(&f.to_strict()))
}
/// uses the hypergraph part of `a` only
pub fn op_to_hypergraph(a: &RLf) -> Sx {
    ok(Cv::<VecKind>::rhg(&a.to_lf().hypergraph.to_hypergraph()).enc())
}
pub fn op_identity(a1: Vec<usize>) -> Sx {
    ok(enc_lf(&Lf::identity(a1)))
}
pub fn op_twist(a1: Vec<usize>, b1: Vec<usize>) -> Sx {
    ok(enc_lf(&<Lf as SymmetricMonoidal>::twist(a1, b1)))
}
pub fn op_singleton(x: usize, a1: Vec<usize>, b1: Vec<usize>) -> Sx {
    ok(enc_lf(&Lf::singleton(x, a1, b1)))
}
pub fn op_spider(s1: &RFF, t1: &RFF, w1: Vec<usize>) -> Sx {
    opt(Lf::spider(Cv::<VecKind>::ff(s1), Cv::<VecKind>::ff(t1), w1).map(|f| enc_lf(&f)))
}
pub fn op_tensor(a: &RLf, bb: &RLf) -> Sx {
    let (x, y) = (a.to_lf(), bb.to_lf());
    ok(enc_lf(&(if x.hypergraph.nodes.len() % 2 == 1 { &x | &y } else { x.tensor(&y) })))
}
pub fn op_tensor_assign(a: &RLf, bb: &RLf) -> Sx {
    let mut x = a.to_lf();
    x.tensor_assign(bb.to_lf());
    ok(enc_lf(&x))
}
pub fn op_append(a: &RLf, bb: &RLf) -> Sx {
    let mut x = a.to_lf();
    let (s, t) = x.append(bb.to_lf());
    ok(list(vec![enc_lf(&x), list(vec![l(&ids(&s)), l(&ids(&t))])]))
}
/// C10: "the in-place tensor, append and coproduct produce exactly the same data as their pure
/// counterparts", judged on the implementation alone (pairs of lax diagrams that must be equal)
pub fn law_tensor_assign_eq(a: &RLf, bb: &RLf) -> Sx {
    let (x, y) = (a.to_lf(), bb.to_lf());
    let mut z = x.clone();
    z.tensor_assign(y.clone());
    ok(list(vec![enc_lf(&z), enc_lf(&x.tensor(&y))]))
}
pub fn law_append_eq(a: &RLf, bb: &RLf) -> Sx {
    // `append` leaves the interfaces of the accumulator alone and returns the shifted interfaces of
    // the appended diagram: together they are the interfaces of the tensor
    let (x, y) = (a.to_lf(), bb.to_lf());
    let mut z = x.clone();
    let (s, t) = z.append(y.clone());
    z.sources.extend(s);
    z.targets.extend(t);
    ok(list(vec![enc_lf(&z), enc_lf(&x.tensor(&y))]))
}
pub fn law_coproduct_assign_eq(a: &RLf, bb: &RLf) -> Sx {
    let (x, y) = (a.to_lf().hypergraph, bb.to_lf().hypergraph);
    let mut z = x.clone();
    z.coproduct_assign(y.clone());
    // (the pure hypergraph coproduct is crate-private: it is the hypergraph part of the pure tensor)
    let pure_ = LF { sources: vec![], targets: vec![], hypergraph: x }.tensor(&LF { sources: vec![], targets: vec![], hypergraph: y });
    ok(list(vec![enc_lh(&z), enc_lh(&pure_.hypergraph)]))
}
/// uses the hypergraph parts of `a` and `bb` only
pub fn op_coproduct_assign(a: &RLf, bb: &RLf) -> Sx {
    let mut x = a.to_lf().hypergraph;
    x.coproduct_assign(bb.to_lf().hypergraph);
    ok(enc_lh(&x))
}
pub fn op_compose(a: &RLf, bb: &RLf) -> Sx {
    let (x, y) = (a.to_lf(), bb.to_lf());
    opt((if x.hypergraph.nodes.len() % 2 == 1 { &x >> &y } else { x.compose(&y) }).map(|r| enc_lf(&r)))
}
pub fn op_lax_compose(a: &RLf, bb: &RLf) -> Sx {
    opt(a.to_lf().lax_compose(&bb.to_lf()).map(|r| enc_lf(&r)))
}
/// JSON (serde feature): documented field names, round trip
pub fn op_json(a: &RLf) -> Sx {
    let x = a.to_lf();
    let v = serde_json::to_value(&x).unwrap();
    let text = serde_json::to_string(&v).unwrap();
    let back: Lf = serde_json::from_str(&serde_json::to_string(&x).unwrap()).unwrap();
    ok(list(vec![Sx::Str(text), b(back == x)]))
}
pub fn op_dagger(a: &RLf) -> Sx {
    ok(enc_lf(&a.to_lf().dagger()))
}
pub fn op_source(a: &RLf) -> Sx {
    ok(l(&a.to_lf().source()))
}
pub fn op_target(a: &RLf) -> Sx {
    ok(l(&a.to_lf().target()))
}

type Soh = open_hypergraphs::strict::OpenHypergraph<VecKind, usize, usize>;
fn pair(a: &Soh, b: &Soh) -> Sx {
    ok(list(vec![enc_oh(a), enc_oh(b)]))
}
pub fn law_to_from_strict(a: &ROH) -> Sx {
    let s = Cv::<VecKind>::oh(a);
    pair(&LF::from_strict(s.clone()).to_strict(), &s)
}
pub fn law_from_to_strict(a: &RLf) -> Sx {
    let x = a.to_lf();
    let y = LF::from_strict(x.clone().to_strict());
    ok(list(vec![enc_lf(&y), enc_lf(&x)]))
}
pub fn law_strict_compose(a: &RLf, bb: &RLf) -> Sx {
    let (x, y) = (a.to_lf(), bb.to_lf());
    let lhs = x.compose(&y).unwrap().to_strict();
    let rhs = x.to_strict().compose(&y.to_strict()).unwrap();
    pair(&lhs, &rhs)
}
pub fn law_strict_tensor(a: &RLf, bb: &RLf) -> Sx {
    let (x, y) = (a.to_lf(), bb.to_lf());
    pair(&x.tensor(&y).to_strict(), &x.to_strict().tensor(&y.to_strict()))
}
/// lax spider fusion against the strict composite of the same two spiders
pub fn law_lax_spider_fusion(s1: &RFF, t1: &RFF, w1: &Vec<usize>, s2: &RFF, t2: &RFF, w2: &Vec<usize>) -> Sx {
    use open_hypergraphs::strict::OpenHypergraph as SOH;
    let a = Lf::spider(Cv::<VecKind>::ff(s1), Cv::<VecKind>::ff(t1), w1.clone()).unwrap();
    let bb = Lf::spider(Cv::<VecKind>::ff(s2), Cv::<VecKind>::ff(t2), w2.clone()).unwrap();
    let lhs = a.compose(&bb).unwrap().to_strict();
    let sa = SOH::<VecKind, usize, usize>::spider(Cv::<VecKind>::ff(s1), Cv::<VecKind>::ff(t1), Cv::<VecKind>::sf(w1)).unwrap();
    let sb = SOH::<VecKind, usize, usize>::spider(Cv::<VecKind>::ff(s2), Cv::<VecKind>::ff(t2), Cv::<VecKind>::sf(w2)).unwrap();
    let rhs = sa.compose(&sb).unwrap();
    pair(&lhs, &rhs)
}
/// C04, lax: dagger reverses composition, with NESTED composites on both sides (so that compose also
/// sees operands that still carry pending unifications, on the left and on the right):
/// strict(((f;g);h)†) ≅ strict(h† ; (g† ; f†))
pub fn law_lax_dagger_comp3(a: &RLf, bb: &RLf, cc: &RLf) -> Sx {
    let (f, g, h) = (a.to_lf(), bb.to_lf(), cc.to_lf());
    let lhs = f.compose(&g).unwrap().compose(&h).unwrap().dagger().to_strict();
    let rhs = h.dagger().compose(&g.dagger().compose(&f.dagger()).unwrap()).unwrap().to_strict();
    pair(&lhs, &rhs)
}
pub fn law_strict_dagger(a: &RLf) -> Sx {
    let x = a.to_lf();
    pair(&x.dagger().to_strict(), &x.to_strict().dagger())
}
pub fn law_strict_identity(a1: &Vec<usize>) -> Sx {
    use open_hypergraphs::strict::OpenHypergraph as SOH;
    pair(&Lf::identity(a1.clone()).to_strict(), &SOH::identity(Cv::<VecKind>::sf(a1)))
}
pub fn law_strict_twist(a1: &Vec<usize>, b1: &Vec<usize>) -> Sx {
    use open_hypergraphs::strict::OpenHypergraph as SOH;
    pair(&<Lf as SymmetricMonoidal>::twist(a1.clone(), b1.clone()).to_strict(), &SOH::twist(Cv::<VecKind>::sf(a1), Cv::<VecKind>::sf(b1)))
}
pub fn law_strict_singleton(x: usize, a1: &Vec<usize>, b1: &Vec<usize>) -> Sx {
    use open_hypergraphs::strict::OpenHypergraph as SOH;
    pair(&Lf::singleton(x, a1.clone(), b1.clone()).to_strict(), &SOH::singleton(x, Cv::<VecKind>::sf(a1), Cv::<VecKind>::sf(b1)))
}

pub fn run_cat(c: &mut Ctx, count: usize) {
    let p = gen::hg_params(c.size.max(2));
    for _ in 0..count {
        match c.rng.below(16) {
            0 | 1 => {
                let f = gen::oh(&mut c.rng, &p);
                let a = f.clone();
                c.emit("lax.from_strict", vec![f.enc()], move || op_from_strict(&a));
            }
            2 | 3 | 4 => {
                let pending = c.rng.chance(2, 3);
                let consistent = c.rng.chance(5, 6);
                let f = gen_lf(c, pending, consistent);
                if pending {
                    c.knob("cat:to_strict-with-pending-unifications");
                }
                let a = f.clone();
                c.emit("lax.to_strict", vec![f.enc()], move || op_to_strict(&a));
                let a = f.clone();
                c.emit("lax.to_hypergraph", vec![enc_lh(&f.to_lf().hypergraph)], move || op_to_hypergraph(&a));
            }
            5 => {
                let a = gen::list_below(&mut c.rng, 4, 3);
                let a1 = a.clone();
                c.emit("lax.identity", vec![l(&a)], move || op_identity(a1));
                let bb = gen::list_below(&mut c.rng, 4, 3);
                let (a1, b1) = (a.clone(), bb.clone());
                c.emit("lax.twist", vec![l(&a), l(&bb)], move || op_twist(a1, b1));
                let x = c.rng.below(4);
                let (a1, b1) = (a.clone(), bb.clone());
                c.emit("lax.singleton", vec![n(x), l(&a), l(&bb)], move || op_singleton(x, a1, b1));
            }
            6 => {
                let w = gen::list_below(&mut c.rng, 4, 3);
                let mut s = gen::ff_to(&mut c.rng, 4, w.len());
                let mut t = gen::ff_to(&mut c.rng, 4, w.len());
                match c.rng.below(6) {
                    0 => s.target += 1,
                    1 => t.target += 1,
                    _ => {}
                }
                let (s1, t1, w1) = (s.clone(), t.clone(), w.clone());
                c.emit("lax.spider", vec![s.enc(), t.enc(), l(&w)], move || op_spider(&s1, &t1, w1));
            }
            7 | 8 => {
                let f = { let p_ = c.rng.chance(1, 2); gen_lf(c, p_, true) };
                let g = { let p_ = c.rng.chance(1, 2); gen_lf(c, p_, true) };
                let (a, bb) = (f.clone(), g.clone());
                c.emit("lax.tensor", vec![f.enc(), g.enc()], move || op_tensor(&a, &bb));
                let (a, bb) = (f.clone(), g.clone());
                c.emit("lax.tensor_assign", vec![f.enc(), g.enc()], move || op_tensor_assign(&a, &bb));
                let (a, bb) = (f.clone(), g.clone());
                c.emit("lax.append", vec![f.enc(), g.enc()], move || op_append(&a, &bb));
                let (a, bb) = (f.clone(), g.clone());
                c.emit("lax.coproduct_assign", vec![enc_lh(&f.to_lf().hypergraph), enc_lh(&g.to_lf().hypergraph)], move || op_coproduct_assign(&a, &bb));
                let (a, bb) = (f.clone(), g.clone());
                c.emit("law.tensor_assign_eq:lax-eq", vec![f.enc(), g.enc()], move || law_tensor_assign_eq(&a, &bb));
                let (a, bb) = (f.clone(), g.clone());
                c.emit("law.append_eq:lax-eq", vec![f.enc(), g.enc()], move || law_append_eq(&a, &bb));
                let (a, bb) = (f.clone(), g.clone());
                c.emit("law.coproduct_assign_eq:lax-eq", vec![f.enc(), g.enc()], move || law_coproduct_assign_eq(&a, &bb));
            }
            9 | 10 | 11 => {
                let f = { let p_ = c.rng.chance(1, 2); gen_lf(c, p_, true) };
                let g = match c.rng.below(5) {
                    0 => {
                        c.knob("cat:compose-mismatch");
                        gen_lf(c, false, true)
                    }
                    1 => {
                        // near miss: the right type except at ONE boundary position (preferably a
                        // position whose node of f already occurred earlier on f's target boundary),
                        // same arity: a fresh node of g with a different label is put there
                        c.knob("cat:compose-one-label-differs");
                        let ty = f.ty().1;
                        let p_ = c.rng.chance(1, 2);
                        let mut g = gen_lf_with_source(c, &ty, p_);
                        if !ty.is_empty() {
                            let later: Vec<usize> = (0..ty.len()).filter(|i| f.targets[..*i].contains(&f.targets[*i])).collect();
                            let i = if !later.is_empty() && c.rng.chance(3, 4) { *c.rng.pick(&later) } else { c.rng.below(ty.len()) };
                            g.nodes.push(ty[i] + 1);
                            g.sources[i] = g.nodes.len() - 1;
                        }
                        g
                    }
                    2 => {
                        // a wiring that LOOKS like an identity (no hyperedges, as many nodes as boundary
                        // entries, sources == targets) but is not: legs that repeat a node, or pending
                        // unifications between its nodes
                        c.knob("cat:compose-with-identity-lookalike");
                        let ty = f.ty().1;
                        let k = ty.len();
                        let mut legs: Vec<usize> = (0..k).collect();
                        for i in 0..k {
                            let same: Vec<usize> = (0..k).filter(|j| ty[*j] == ty[i]).collect();
                            if c.rng.chance(1, 2) {
                                legs[i] = *c.rng.pick(&same);
                            }
                        }
                        let mut q = (vec![], vec![]);
                        if k >= 2 && c.rng.chance(1, 2) {
                            let i = c.rng.below(k);
                            let same: Vec<usize> = (0..k).filter(|j| ty[*j] == ty[i]).collect();
                            q.0.push(i);
                            q.1.push(*c.rng.pick(&same));
                        }
                        RLf { sources: legs.clone(), targets: legs, nodes: ty, edges: vec![], adjacency: vec![], quotient: q }
                    }
                    _ => { let p_ = c.rng.chance(1, 2); gen_lf_with_source(c, &f.ty().1, p_) },
                };
                // the same lookalike on the LEFT of a composition
                let (f, g) = if c.rng.chance(1, 8) && !g.sources.is_empty() {
                    c.knob("cat:compose-identity-lookalike-on-the-left");
                    let ty = g.ty().0;
                    let k = ty.len();
                    let mut legs: Vec<usize> = (0..k).collect();
                    for i in 0..k {
                        let same: Vec<usize> = (0..k).filter(|j| ty[*j] == ty[i]).collect();
                        if c.rng.chance(1, 2) {
                            legs[i] = *c.rng.pick(&same);
                        }
                    }
                    (RLf { sources: legs.clone(), targets: legs, nodes: ty, edges: vec![], adjacency: vec![], quotient: (vec![], vec![]) }, g)
                } else {
                    (f, g)
                };
                let (a, bb) = (f.clone(), g.clone());
                c.emit("lax.compose", vec![f.enc(), g.enc()], move || op_compose(&a, &bb));
                let (a, bb) = (f.clone(), g.clone());
                c.emit("lax.lax_compose", vec![f.enc(), g.enc()], move || op_lax_compose(&a, &bb));
            }
            15 => {
                // JSON (serde feature): documented field names, round trip
                let f = { let p_ = c.rng.chance(1, 2); gen_lf(c, p_, true) };
                let a = f.clone();
                c.emit("lax.json", vec![f.enc()], move || op_json(&a));
            }
            _ => {
                let f = { let p_ = c.rng.chance(1, 2); gen_lf(c, p_, true) };
                let a = f.clone();
                c.emit("lax.dagger", vec![f.enc()], move || op_dagger(&a));
                let a = f.clone();
                c.emit("lax.source", vec![f.enc()], move || op_source(&a));
                let a = f.clone();
                c.emit("lax.target", vec![f.enc()], move || op_target(&a));
            }
        }
    }
}

/// laws relating the lax and strict representations (C10) evaluated on the implementation
pub fn run_lawlax(c: &mut Ctx, count: usize) {
    let p = gen::hg_params(c.size.max(2));
    for _ in 0..count {
        match c.rng.below(8) {
            0 => {
                let f = gen::oh(&mut c.rng, &p);
                let a = f.clone();
                c.emit("law.to_from_strict:eq", vec![f.enc()], move || law_to_from_strict(&a));
            }
            1 => {
                let f = gen_lf(c, false, true);
                let a = f.clone();
                c.emit("law.from_to_strict:lax-eq", vec![f.enc()], move || law_from_to_strict(&a));
            }
            2 | 3 | 4 => {
                let f = { let p_ = c.rng.chance(1, 2); gen_lf(c, p_, true) };
                let g = { let p_ = c.rng.chance(1, 2); gen_lf_with_source(c, &f.ty().1, p_) };
                let (a, bb) = (f.clone(), g.clone());
                c.emit("law.strict_compose", vec![f.enc(), g.enc()], move || law_strict_compose(&a, &bb));
            }
            5 => {
                let f = { let p_ = c.rng.chance(1, 2); gen_lf(c, p_, true) };
                let g = { let p_ = c.rng.chance(1, 2); gen_lf(c, p_, true) };
                let (a, bb) = (f.clone(), g.clone());
                c.emit("law.strict_tensor", vec![f.enc(), g.enc()], move || law_strict_tensor(&a, &bb));
            }
            6 if c.rng.chance(1, 2) => {
                // lax spider fusion: both glued legs non-injective now and then
                let uniform = c.rng.chance(1, 2);
                let w = if uniform { vec![0; c.rng.range(1, 3)] } else { gen::list_below(&mut c.rng, 4, 2) };
                let s = gen::ff_to(&mut c.rng, 3, w.len());
                let t = if uniform {
                    // both glued legs non-injective with interleaved repeats (e.g. [0,1,0] against [0,1,1])
                    c.knob("law:fusion-both-legs-non-injective");
                    let k = c.rng.range(2, 5);
                    RFF::new(c.rng.vec_below(k, w.len()), w.len())
                } else {
                    gen::ff_to(&mut c.rng, 4, w.len())
                };
                let bty: Vec<usize> = t.table.iter().map(|i| w[*i]).collect();
                let sp2 = if uniform {
                    let n2 = c.rng.range(1, 3);
                    let s2 = RFF::new(c.rng.vec_below(bty.len(), n2), n2);
                    let t2 = gen::ff_to(&mut c.rng, 3, n2);
                    ROH { s: s2, t: t2, h: RHG { s: RICF::from_segs(&[], n2), t: RICF::from_segs(&[], n2), w: vec![0; n2], x: vec![] } }
                } else {
                    gen::cospan_with_source(&mut c.rng, &bty, &p)
                };
                let args = vec![s.enc(), t.enc(), l(&w), sp2.s.enc(), sp2.t.enc(), l(&sp2.h.w)];
                let (s1, t1, w1, q) = (s.clone(), t.clone(), w.clone(), sp2.clone());
                c.emit("law.lax_spider_fusion", args, move || law_lax_spider_fusion(&s1, &t1, &w1, &q.s, &q.t, &q.h.w));
            }
            6 if c.rng.chance(1, 2) => {
                let f = { let p_ = c.rng.chance(1, 2); gen_lf(c, p_, true) };
                let g = { let p_ = c.rng.chance(1, 2); gen_lf_with_source(c, &f.ty().1, p_) };
                let h = { let p_ = c.rng.chance(1, 2); gen_lf_with_source(c, &g.ty().1, p_) };
                let (a, bb, cc) = (f.clone(), g.clone(), h.clone());
                c.emit("law.lax_dagger_comp3", vec![f.enc(), g.enc(), h.enc()], move || law_lax_dagger_comp3(&a, &bb, &cc));
            }
            6 => {
                let f = { let p_ = c.rng.chance(1, 2); gen_lf(c, p_, true) };
                let a = f.clone();
                c.emit("law.strict_dagger", vec![f.enc()], move || law_strict_dagger(&a));
            }
            _ => {
                let a = gen::list_below(&mut c.rng, 4, 3);
                let bb = gen::list_below(&mut c.rng, 4, 3);
                let a1 = a.clone();
                c.emit("law.strict_identity", vec![l(&a)], move || law_strict_identity(&a1));
                let (a1, b1) = (a.clone(), bb.clone());
                c.emit("law.strict_twist", vec![l(&a), l(&bb)], move || law_strict_twist(&a1, &b1));
                let x = c.rng.below(4);
                let (a1, b1) = (a.clone(), bb.clone());
                c.emit("law.strict_singleton", vec![n(x), l(&a), l(&bb)], move || law_strict_singleton(x, &a1, &b1));
            }
        }
    }
}

#[allow(dead_code)]
fn _unused(_: VecArray<usize>) {}
