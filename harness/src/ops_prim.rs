//! Group `prim`: the array primitives (C07), at any `HK` backend.
use crate::ctx::Ctx;
use crate::gen;
use crate::kind::HK;
use crate::wire::*;
use open_hypergraphs::array::*;
use std::marker::PhantomData;

pub struct PrimOps<K>(PhantomData<K>);

fn range_sx(form: usize, a: usize, b: usize) -> Sx {
    match form {
        0 => list(vec![Sx::S("full")]),
        1 => list(vec![Sx::S("from"), n(a)]),
        2 => list(vec![Sx::S("to"), n(b)]),
        3 => list(vec![Sx::S("fromto"), n(a), n(b)]),
        4 => list(vec![Sx::S("toincl"), n(b)]),
        _ => list(vec![Sx::S("fromtoincl"), n(a), n(b)]),
    }
}

fn pair(a: Sx, b: Sx) -> Sx {
    list(vec![a, b])
}

impl<K: HK> PrimOps<K>
where
    K::Type<usize>: NaturalArray<K> + PartialEq,
    K::Type<u64>: Array<K, u64> + PartialEq,
{
    fn l64(v: &[u64]) -> Sx {
        Sx::L(v.iter().map(|x| Sx::N(*x as u128)).collect())
    }

    // ---- op bodies: the calls into the real library, shared by the generator and the replay mode

    pub fn op_gather(a: Vec<usize>, i: Vec<usize>) -> Sx {
        ok(l(&K::unidx(&K::idx(a).gather(K::idx(i).get_range(..)))))
    }
    /// the same at the second element type (u64)
    pub fn op_gather64(xs64: Vec<u64>, i2: Vec<usize>) -> Sx {
        ok(Self::l64(&K::unarr64(&K::arr64(xs64).gather(K::idx(i2).get_range(..)))))
    }
    pub fn op_get(a: Vec<usize>, i: usize) -> Sx {
        ok(n(K::idx(a).get(i)))
    }
    pub fn op_to_range(len: usize, form: usize, a: usize, b: usize) -> Sx {
        let xs = K::idx(vec![0; len]);
        let r = match form {
            0 => xs.to_range(..),
            1 => xs.to_range(a..),
            2 => xs.to_range(..b),
            3 => xs.to_range(a..b),
            4 => xs.to_range(..=b),
            _ => xs.to_range(a..=b),
        };
        ok(pair(n(r.start), n(r.end)))
    }
    pub fn op_get_range(ys: Vec<usize>, form: usize, a: usize, b: usize) -> Sx {
        let arr = K::idx(ys);
        let s = match form {
            0 => arr.get_range(..),
            1 => arr.get_range(a..),
            2 => arr.get_range(..b),
            3 => arr.get_range(a..b),
            4 => arr.get_range(..=b),
            _ => arr.get_range(a..=b),
        };
        ok(l(&K::unidx(&K::Index::from_slice(s))))
    }
    pub fn op_set_range(ys: Vec<usize>, form: usize, a: usize, b: usize, vv: Vec<usize>) -> Sx {
        let mut arr = K::idx(ys);
        let val: K::Type<usize> = K::idx(vv).into();
        match form {
            0 => arr.set_range(.., &val),
            1 => arr.set_range(a.., &val),
            2 => arr.set_range(..b, &val),
            3 => arr.set_range(a..b, &val),
            4 => arr.set_range(..=b, &val),
            _ => arr.set_range(a..=b, &val),
        };
        ok(l(&K::unidx(&arr)))
    }
    pub fn op_concatenate(x: Vec<usize>, y: Vec<usize>) -> Sx {
        ok(l(&K::unidx(&K::idx(x).concatenate(&K::idx(y)))))
    }
    pub fn op_fill(x: usize, k: usize) -> Sx {
        ok(l(&K::unidx(&K::Index::fill(x, k))))
    }
    pub fn op_scatter(a: Vec<usize>, i: Vec<usize>, size: usize) -> Sx {
        ok(l(&K::unidx(&K::idx(a).scatter(K::idx(i).get_range(..), size))))
    }
    pub fn op_scatter_assign(a: Vec<usize>, i: Vec<usize>, v: Vec<usize>) -> Sx {
        let mut arr = K::idx(a);
        arr.scatter_assign(&K::idx(i), K::idx(v));
        ok(l(&K::unidx(&arr)))
    }
    pub fn op_scatter_assign_constant(a: Vec<usize>, i: Vec<usize>, x: usize) -> Sx {
        let mut arr = K::idx(a);
        arr.scatter_assign_constant(&K::idx(i), x);
        ok(l(&K::unidx(&arr)))
    }
    pub fn op_scatter_sub_assign(a: Vec<usize>, i: Vec<usize>, v: Vec<usize>) -> Sx {
        let mut arr: K::Type<usize> = K::arr(a);
        arr.scatter_sub_assign(&K::idx(i), &K::idx(v));
        ok(l(&K::unarr(&arr)))
    }
    pub fn op_arange(a: usize, b: usize) -> Sx {
        ok(l(&K::unidx(&K::Index::arange(&a, &b))))
    }
    pub fn op_cumulative_sum(a: Vec<usize>) -> Sx {
        ok(l(&K::unidx(&K::idx(a).cumulative_sum())))
    }
    pub fn op_sum(a: Vec<usize>) -> Sx {
        ok(n(K::idx(a).sum()))
    }
    pub fn op_repeat(a: Vec<usize>, b: Vec<usize>) -> Sx {
        ok(l(&K::unidx(&K::idx(a).repeat(K::idx(b).get_range(..)))))
    }
    pub fn op_quot_rem(a: Vec<usize>, d: usize) -> Sx {
        let (q, r) = K::idx(a).quot_rem(d);
        ok(pair(l(&K::unidx(&q)), l(&K::unidx(&r))))
    }
    pub fn op_mul_constant_add(a: Vec<usize>, cst: usize, b: Vec<usize>) -> Sx {
        ok(l(&K::unidx(&K::idx(a).mul_constant_add(cst, &K::idx(b)))))
    }
    pub fn op_add(a: Vec<usize>, b: Vec<usize>) -> Sx {
        ok(l(&K::unidx(&(K::idx(a) + K::idx(b)))))
    }
    pub fn op_sub(a: Vec<usize>, b: Vec<usize>) -> Sx {
        ok(l(&K::unidx(&(K::idx(a) - K::idx(b)))))
    }
    pub fn op_bincount(a: Vec<usize>, size: usize) -> Sx {
        ok(l(&K::unidx(&K::idx(a).bincount(size))))
    }
    pub fn op_zero(a: Vec<usize>) -> Sx {
        ok(l(&K::unidx(&K::idx(a).zero())))
    }
    pub fn op_max(a: Vec<usize>) -> Sx {
        ok(optval(K::idx(a).max().map(n)))
    }
    pub fn op_segmented_sum(a: Vec<usize>, b: Vec<usize>) -> Sx {
        ok(l(&K::unidx(&K::idx(a).segmented_sum(&K::idx(b)))))
    }
    pub fn op_segmented_arange(a: Vec<usize>) -> Sx {
        ok(l(&K::unidx(&K::idx(a).segmented_arange())))
    }
    pub fn op_argsort(a: Vec<usize>) -> Sx {
        ok(l(&K::unidx(&K::idx(a).argsort())))
    }
    pub fn op_sort_by(v: Vec<usize>, k: Vec<usize>) -> Sx {
        ok(l(&K::unidx(&K::idx(v).sort_by(&K::idx(k)))))
    }
    pub fn op_sparse_bincount(a: Vec<usize>) -> Sx {
        let (k, cnt) = K::idx(a).sparse_bincount();
        ok(pair(l(&K::unidx(&k)), l(&K::unidx(&cnt))))
    }
    pub fn op_connected_components(a: Vec<usize>, b: Vec<usize>, nn: usize) -> Sx {
        let (lab, k) = K::Index::connected_components(&K::idx(a), &K::idx(b), nn);
        ok(pair(l(&K::unidx(&lab)), n(k)))
    }

    /// an index list mostly inside `0..len`, sometimes out of range by one or more
    fn idx_list(c: &mut Ctx, max_len: usize, len: usize) -> Vec<usize> {
        let k = c.rng.size(max_len);
        let bad = c.rng.chance(1, 8);
        let mut v: Vec<usize> = (0..k).map(|_| if len == 0 { 0 } else { c.rng.below(len) }).collect();
        if len == 0 && !bad {
            v.clear();
        }
        if bad {
            c.knob("prim:index-out-of-range");
            if v.is_empty() {
                v.push(len);
            } else {
                let i = c.rng.below(v.len());
                v[i] = len + c.rng.below(2);
            }
        }
        v
    }

    pub fn run(c: &mut Ctx, count: usize) {
        let m = c.size.max(2);
        for _ in 0..count {
            match c.rng.below(30) {
                0 => {
                    let xs = gen::list_below(&mut c.rng, m, 9);
                    let idx = Self::idx_list(c, m + 2, xs.len());
                    let (a, i) = (xs.clone(), idx.clone());
                    c.emit("prim.gather", vec![l(&xs), l(&idx)], move || Self::op_gather(a, i));
                    // the same at a second element type (u64 carrying a pair a*256+b)
                    let xs64: Vec<u64> = xs.iter().map(|x| (*x as u64) * 256 + 7).collect();
                    let xs64n: Vec<usize> = xs64.iter().map(|x| *x as usize).collect();
                    let i2 = idx.clone();
                    c.emit("prim.gather", vec![l(&xs64n), l(&idx)], move || Self::op_gather64(xs64, i2));
                }
                1 => {
                    let xs = gen::list_below(&mut c.rng, m, 9);
                    let i = c.rng.range(0, xs.len() + 1);
                    let a = xs.clone();
                    c.emit("prim.get", vec![l(&xs), n(i)], move || Self::op_get(a, i));
                }
                2 => {
                    let len = c.rng.size(m);
                    let form = c.rng.below(6);
                    let (a, b) = (c.rng.range(0, len + 1), c.rng.range(0, len + 1));
                    c.emit("prim.to_range", vec![n(len), range_sx(form, a, b)], move || Self::op_to_range(len, form, a, b));
                }
                3 => {
                    let xs = gen::list_below(&mut c.rng, m, 9);
                    let len = xs.len();
                    let form = c.rng.below(6);
                    let (mut a, mut b) = (c.rng.range(0, len + 1), c.rng.range(0, len + 1));
                    if c.rng.chance(3, 4) && a > b {
                        std::mem::swap(&mut a, &mut b);
                    }
                    let ys = xs.clone();
                    c.emit("prim.get_range", vec![l(&xs), range_sx(form, a, b)], move || Self::op_get_range(ys, form, a, b));
                }
                4 => {
                    let xs = gen::list_below(&mut c.rng, m, 9);
                    let len = xs.len();
                    let form = c.rng.below(6);
                    let (mut a, mut b) = (c.rng.range(0, len + 1), c.rng.range(0, len));
                    if a > b {
                        std::mem::swap(&mut a, &mut b);
                    }
                    // length of the addressed range (when valid)
                    let want = match form {
                        0 => len,
                        1 => len.saturating_sub(a),
                        2 => b,
                        3 => b - a,
                        4 => b + 1,
                        _ => b + 1 - a,
                    };
                    let vlen = if c.rng.chance(1, 6) { want + 1 } else { want };
                    let v = c.rng.vec_below(vlen, 9);
                    let (ys, vv) = (xs.clone(), v.clone());
                    c.emit("prim.set_range", vec![l(&xs), range_sx(form, a, b), l(&v)], move || Self::op_set_range(ys, form, a, b, vv));
                }
                5 => {
                    let a = gen::list_below(&mut c.rng, m, 9);
                    let b = gen::list_below(&mut c.rng, m, 9);
                    let (x, y) = (a.clone(), b.clone());
                    c.emit("prim.concatenate", vec![l(&a), l(&b)], move || Self::op_concatenate(x, y));
                }
                6 => {
                    let x = c.rng.below(9);
                    let k = c.rng.size(m);
                    c.emit("prim.fill", vec![n(x), n(k)], move || Self::op_fill(x, k));
                }
                7 => {
                    let k = c.rng.size(m);
                    let size = c.rng.range(0, m);
                    let xs = c.rng.vec_below(k, 9);
                    let mut idx = if size == 0 { vec![0; 0] } else { c.rng.vec_below(k, size) };
                    if size == 0 && k > 0 {
                        idx = vec![0; k];
                    }
                    if c.rng.chance(1, 10) && !idx.is_empty() {
                        let i = c.rng.below(idx.len());
                        idx[i] = size;
                    }
                    if c.rng.chance(1, 12) {
                        idx.push(0);
                    }
                    if xs.is_empty() {
                        c.knob("prim:scatter-empty-source");
                    }
                    let (a, i) = (xs.clone(), idx.clone());
                    c.emit("prim.scatter", vec![l(&xs), l(&idx), n(size)], move || Self::op_scatter(a, i, size));
                }
                8 => {
                    let me = gen::list_below(&mut c.rng, m, 9);
                    let ixs = Self::idx_list(c, m, me.len());
                    let dv = c.rng.range(0, 2);
                    let vals = c.rng.vec_below((ixs.len() + dv).saturating_sub(1), 9);
                    let (a, i, v) = (me.clone(), ixs.clone(), vals.clone());
                    c.emit("prim.scatter_assign", vec![l(&me), l(&ixs), l(&vals)], move || Self::op_scatter_assign(a, i, v));
                }
                9 => {
                    let me = gen::list_below(&mut c.rng, m, 9);
                    let ixs = Self::idx_list(c, m, me.len());
                    let x = c.rng.below(9);
                    let (a, i) = (me.clone(), ixs.clone());
                    c.emit("prim.scatter_assign_constant", vec![l(&me), l(&ixs), n(x)], move || Self::op_scatter_assign_constant(a, i, x));
                }
                10 => {
                    let me = gen::list_below(&mut c.rng, m, 6);
                    let ixs = Self::idx_list(c, m, me.len());
                    // mostly small subtrahends so that underflow is the exception
                    let rhs: Vec<usize> = ixs.iter().map(|_| c.rng.below(3)).collect();
                    let (a, i, v) = (me.clone(), ixs.clone(), rhs.clone());
                    c.emit("prim.scatter_sub_assign", vec![l(&me), l(&ixs), l(&rhs)], move || Self::op_scatter_sub_assign(a, i, v));
                }
                11 => {
                    let a = c.rng.below(m);
                    let b = if c.rng.chance(1, 8) { a.saturating_sub(1) } else { a + c.rng.size(m) };
                    c.emit("prim.arange", vec![n(a), n(b)], move || Self::op_arange(a, b));
                }
                12 => {
                    let xs = gen::list_below(&mut c.rng, m, 9);
                    let a = xs.clone();
                    c.emit("prim.cumulative_sum", vec![l(&xs)], move || Self::op_cumulative_sum(a));
                    let a = xs.clone();
                    c.emit("prim.sum", vec![l(&xs)], move || Self::op_sum(a));
                }
                13 => {
                    let x = gen::list_below(&mut c.rng, m, 9);
                    let klen = if c.rng.chance(1, 8) { x.len() + 1 } else { x.len() };
                    let k = c.rng.vec_below(klen, 4);
                    let (a, b) = (k.clone(), x.clone());
                    c.emit("prim.repeat", vec![l(&k), l(&x)], move || Self::op_repeat(a, b));
                }
                14 => {
                    let xs = gen::list_below(&mut c.rng, m, 50);
                    let d = if c.rng.chance(1, 10) { 0 } else { c.rng.range(1, 7) };
                    let a = xs.clone();
                    c.emit("prim.quot_rem", vec![l(&xs), n(d)], move || Self::op_quot_rem(a, d));
                }
                15 => {
                    let xs = gen::list_below(&mut c.rng, m, 9);
                    let ylen = if c.rng.chance(1, 8) { xs.len() + 1 } else { xs.len() };
                    let ys = c.rng.vec_below(ylen, 9);
                    let cst = c.rng.below(6);
                    let (a, b) = (xs.clone(), ys.clone());
                    c.emit("prim.mul_constant_add", vec![l(&xs), n(cst), l(&ys)], move || Self::op_mul_constant_add(a, cst, b));
                }
                16 => {
                    let xs = gen::list_below(&mut c.rng, m, 9);
                    let ylen = if c.rng.chance(1, 8) { xs.len() + 1 } else { xs.len() };
                    let ys = c.rng.vec_below(ylen, 9);
                    let (a, b) = (xs.clone(), ys.clone());
                    c.emit("prim.add", vec![l(&xs), l(&ys)], move || Self::op_add(a, b));
                    // sub: mostly ys ≤ xs pointwise
                    let ys2: Vec<usize> = xs.iter().map(|x| if c.rng.chance(1, 10) { x + 1 } else { c.rng.range(0, *x) }).collect();
                    let (a, b) = (xs.clone(), ys2.clone());
                    c.emit("prim.sub", vec![l(&xs), l(&ys2)], move || Self::op_sub(a, b));
                }
                17 => {
                    let size = c.rng.range(0, m);
                    let xs = Self::idx_list(c, m + 3, size);
                    let a = xs.clone();
                    c.emit("prim.bincount", vec![l(&xs), n(size)], move || Self::op_bincount(a, size));
                }
                18 => {
                    let xs = gen::list_below(&mut c.rng, m + 2, 3);
                    let a = xs.clone();
                    c.emit("prim.zero", vec![l(&xs)], move || Self::op_zero(a));
                    let a = xs.clone();
                    c.emit("prim.max", vec![l(&xs)], move || Self::op_max(a));
                }
                19 => {
                    let sizes = gen::list_below(&mut c.rng, m, 4);
                    let total: usize = sizes.iter().sum();
                    let xlen = match c.rng.below(10) {
                        0 => total + 1,
                        1 => total.saturating_sub(1),
                        _ => total,
                    };
                    let x = c.rng.vec_below(xlen, 9);
                    let (a, b) = (sizes.clone(), x.clone());
                    c.emit("prim.segmented_sum", vec![l(&sizes), l(&x)], move || Self::op_segmented_sum(a, b));
                }
                20 => {
                    let sizes = gen::list_below(&mut c.rng, m, 5);
                    let a = sizes.clone();
                    c.emit("prim.segmented_arange", vec![l(&sizes)], move || Self::op_segmented_arange(a));
                }
                21 | 22 => {
                    // few distinct keys: ties are the interesting case
                    let xs = gen::list_below(&mut c.rng, m + 4, 4);
                    let a = xs.clone();
                    c.emit("prim.argsort", vec![l(&xs)], move || Self::op_argsort(a));
                    let vals = c.rng.vec_below(xs.len(), 20);
                    let (v, k) = (vals.clone(), xs.clone());
                    c.emit("prim.sort_by", vec![l(&vals), l(&xs)], move || Self::op_sort_by(v, k));
                }
                23 | 24 => {
                    let xs = gen::list_below(&mut c.rng, m + 4, 5);
                    let a = xs.clone();
                    c.emit("prim.sparse_bincount", vec![l(&xs)], move || Self::op_sparse_bincount(a));
                }
                _ => {
                    let nn = c.rng.range(0, m + 2);
                    let e = if nn == 0 { if c.rng.chance(1, 4) { 1 } else { 0 } } else { c.rng.size(m + 2) };
                    let mut s = c.rng.vec_below(e, nn.max(1));
                    let t = c.rng.vec_below(e, nn.max(1));
                    if c.rng.chance(1, 15) && !s.is_empty() {
                        s[0] = nn;
                    }
                    if s.iter().zip(t.iter()).any(|(a, b)| a == b) {
                        c.knob("prim:cc-self-loop");
                    }
                    let (a, b) = (s.clone(), t.clone());
                    c.emit("prim.connected_components", vec![l(&s), l(&t), n(nn)], move || Self::op_connected_components(a, b, nn));
                }
            }
        }
    }
}
