//! Groups `hg`, `oh`, `law`: strict hypergraphs / open hypergraphs and law instances
//! (C01–C05, C17 predicates), at any `HK` backend.
use crate::ctx::Ctx;
use crate::gen;
use crate::kind::HK;
use crate::raw::*;
use crate::wire::*;
use open_hypergraphs::array::*;
use open_hypergraphs::category::*;
use open_hypergraphs::finite_function::{coequalizer_universal, FiniteFunction};
use open_hypergraphs::strict::hypergraph::{Hypergraph, InvalidHypergraph};
use open_hypergraphs::strict::open_hypergraph::{InvalidOpenHypergraph, OpenHypergraph};
use std::marker::PhantomData;

pub struct StrictOps<K>(PhantomData<K>);

fn hg_err<K: ArrayKind>(e: &InvalidHypergraph<K>) -> &'static str {
    match e {
        InvalidHypergraph::SourcesCount(..) => "SourcesCount",
        InvalidHypergraph::TargetsCount(..) => "TargetsCount",
        InvalidHypergraph::SourcesSet(..) => "SourcesSet",
        InvalidHypergraph::TargetsSet(..) => "TargetsSet",
    }
}
fn oh_err<K: ArrayKind>(e: &InvalidOpenHypergraph<K>) -> &'static str {
    match e {
        InvalidOpenHypergraph::CospanSourceType(..) => "CospanSourceType",
        InvalidOpenHypergraph::CospanTargetType(..) => "CospanTargetType",
        InvalidOpenHypergraph::InvalidHypergraph(e) => hg_err(e),
    }
}

impl<K: HK> StrictOps<K>
where
    K::Type<usize>: NaturalArray<K> + PartialEq,
    K::Type<u64>: Array<K, u64> + PartialEq,
{
    fn eh(h: &HG<K>) -> Sx {
        Cv::<K>::rhg(h).enc()
    }
    pub fn ef(f: &OH<K>) -> Sx {
        Cv::<K>::roh(f).enc()
    }
    fn eof(f: Option<OH<K>>) -> Sx {
        opt(f.map(|f| Self::ef(&f)))
    }
    fn pair(a: &OH<K>, b: &OH<K>) -> Sx {
        ok(list(vec![Self::ef(a), Self::ef(b)]))
    }

    // ---- op bodies: the calls into the real library, shared by the generator and the replay mode

    pub fn op_hg_new(a: &RHG) -> Sx {
        match Hypergraph::<K, usize, usize>::new(Cv::<K>::icf(&a.s), Cv::<K>::icf(&a.t), Cv::<K>::sf(&a.w), Cv::<K>::sf(&a.x)) {
            Ok(h) => ok(Self::eh(&h)),
            Err(e) => err(hg_err(&e)),
        }
    }
    pub fn op_hg_empty() -> Sx {
        ok(Self::eh(&Hypergraph::<K, usize, usize>::empty()))
    }
    pub fn op_hg_discrete(a: &[usize]) -> Sx {
        ok(Self::eh(&Hypergraph::<K, usize, usize>::discrete(Cv::<K>::sf(a))))
    }
    pub fn op_hg_is_discrete(a: &RHG) -> Sx {
        ok(b(Cv::<K>::hg(a).is_discrete()))
    }
    pub fn op_hg_coproduct(a: &RHG, bb: &RHG) -> Sx {
        let (x, y) = (Cv::<K>::hg(a), Cv::<K>::hg(bb));
        ok(Self::eh(&(if a.w.len() % 2 == 1 { &x + &y } else { x.coproduct(&y) })))
    }
    pub fn op_hg_tensor_operations(x1: &[usize], a1: &RICS, b1: &RICS) -> Sx {
        ok(Self::eh(&Hypergraph::tensor_operations(Cv::<K>::ops(x1, a1, b1))))
    }
    pub fn op_hg_in_degree(a: &RHG, v: usize) -> Sx {
        ok(n(Cv::<K>::hg(a).in_degree(v)))
    }
    pub fn op_hg_out_degree(a: &RHG, v: usize) -> Sx {
        ok(n(Cv::<K>::hg(a).out_degree(v)))
    }
    pub fn op_hg_coequalize_vertices(a: &RHG, qq: &RFF) -> Sx {
        opt(Cv::<K>::hg(a).coequalize_vertices(&Cv::<K>::ff(qq)).map(|r| Self::eh(&r)))
    }
    pub fn op_hg_is_acyclic(a: &RHG) -> Sx {
        ok(b(Cv::<K>::hg(a).is_acyclic()))
    }

    pub fn op_oh_new(s1: &RFF, t1: &RFF, a: &RHG) -> Sx {
        match OpenHypergraph::<K, usize, usize>::new(Cv::<K>::ff(s1), Cv::<K>::ff(t1), Cv::<K>::hg(a)) {
            Ok(f) => ok(Self::ef(&f)),
            Err(e) => err(oh_err(&e)),
        }
    }
    pub fn op_oh_singleton(x: usize, a1: &[usize], b1: &[usize]) -> Sx {
        ok(Self::ef(&OpenHypergraph::<K, usize, usize>::singleton(x, Cv::<K>::sf(a1), Cv::<K>::sf(b1))))
    }
    pub fn op_oh_tensor_operations(x1: &[usize], a1: &RICS, b1: &RICS) -> Sx {
        ok(Self::ef(&OpenHypergraph::tensor_operations(Cv::<K>::ops(x1, a1, b1))))
    }
    pub fn op_oh_source(a: &ROH) -> Sx {
        ok(l(&Cv::<K>::rsf(&Cv::<K>::oh(a).source())))
    }
    pub fn op_oh_target(a: &ROH) -> Sx {
        ok(l(&Cv::<K>::rsf(&Cv::<K>::oh(a).target())))
    }
    pub fn op_oh_dagger(a: &ROH) -> Sx {
        ok(Self::ef(&Cv::<K>::oh(a).dagger()))
    }
    pub fn op_oh_identity(a: &[usize]) -> Sx {
        ok(Self::ef(&OpenHypergraph::<K, usize, usize>::identity(Cv::<K>::sf(a))))
    }
    pub fn op_oh_twist(a: &[usize], bb: &[usize]) -> Sx {
        ok(Self::ef(&OpenHypergraph::<K, usize, usize>::twist(Cv::<K>::sf(a), Cv::<K>::sf(bb))))
    }
    pub fn op_oh_spider(s1: &RFF, t1: &RFF, w1: &[usize]) -> Sx {
        Self::eof(OpenHypergraph::<K, usize, usize>::spider(Cv::<K>::ff(s1), Cv::<K>::ff(t1), Cv::<K>::sf(w1)))
    }
    pub fn op_oh_half_spider(s1: &RFF, w1: &[usize]) -> Sx {
        Self::eof(<OpenHypergraph<K, usize, usize> as Spider<K>>::half_spider(Cv::<K>::ff(s1), Cv::<K>::sf(w1)))
    }
    pub fn op_oh_tensor(a: &ROH, bb: &ROH) -> Sx {
        // `|` and `>>` are sugar for tensor and compose: used when the left operand has an odd number of nodes
        let (x, y) = (Cv::<K>::oh(a), Cv::<K>::oh(bb));
        ok(Self::ef(&(if a.h.w.len() % 2 == 1 { &x | &y } else { x.tensor(&y) })))
    }
    pub fn op_oh_compose(a: &ROH, bb: &ROH) -> Sx {
        let (x, y) = (Cv::<K>::oh(a), Cv::<K>::oh(bb));
        Self::eof(if a.h.w.len() % 2 == 1 { &x >> &y } else { x.compose(&y) })
    }
    pub fn op_oh_is_monogamous(a: &ROH) -> Sx {
        ok(b(Cv::<K>::oh(a).is_monogamous()))
    }
    pub fn op_oh_is_acyclic(a: &ROH) -> Sx {
        ok(b(Cv::<K>::oh(a).is_acyclic()))
    }

    pub fn law_assoc(f1: &ROH, g1: &ROH, h1: &ROH) -> Sx {
        let (f, g, h) = (Cv::<K>::oh(f1), Cv::<K>::oh(g1), Cv::<K>::oh(h1));
        let lhs = f.compose(&g).unwrap().compose(&h).unwrap();
        let rhs = f.compose(&g.compose(&h).unwrap()).unwrap();
        Self::pair(&lhs, &rhs)
    }
    pub fn law_id_left(f1: &ROH) -> Sx {
        let f = Cv::<K>::oh(f1);
        let lhs = OpenHypergraph::identity(f.source()).compose(&f).unwrap();
        Self::pair(&lhs, &f)
    }
    pub fn law_id_right(f1: &ROH) -> Sx {
        let f = Cv::<K>::oh(f1);
        let lhs = f.compose(&OpenHypergraph::identity(f.target())).unwrap();
        Self::pair(&lhs, &f)
    }
    /// wire argument order: f, g, f2, g2
    pub fn law_interchange(a: &ROH, bb: &ROH, a2: &ROH, b2: &ROH) -> Sx {
        let (f, f2, g, g2) = (Cv::<K>::oh(a), Cv::<K>::oh(a2), Cv::<K>::oh(bb), Cv::<K>::oh(b2));
        let lhs = f.tensor(&g).compose(&f2.tensor(&g2)).unwrap();
        let rhs = f.compose(&f2).unwrap().tensor(&g.compose(&g2).unwrap());
        Self::pair(&lhs, &rhs)
    }
    pub fn law_twist_natural(a: &ROH, bb: &ROH) -> Sx {
        let (f, g) = (Cv::<K>::oh(a), Cv::<K>::oh(bb));
        let lhs = f.tensor(&g).compose(&OpenHypergraph::twist(f.target(), g.target())).unwrap();
        let rhs = OpenHypergraph::twist(f.source(), g.source()).compose(&g.tensor(&f)).unwrap();
        Self::pair(&lhs, &rhs)
    }
    pub fn law_twist_twist(a1: &[usize], b1: &[usize]) -> Sx {
        let (sa, sb) = (Cv::<K>::sf(a1), Cv::<K>::sf(b1));
        let lhs = OpenHypergraph::<K, usize, usize>::twist(sa.clone(), sb.clone())
            .compose(&OpenHypergraph::twist(sb.clone(), sa.clone()))
            .unwrap();
        let rhs = OpenHypergraph::identity(sa + sb);
        Self::pair(&lhs, &rhs)
    }
    pub fn law_hexagon(a1: &[usize], b1: &[usize], c1: &[usize]) -> Sx {
        let (sa, sb, sc) = (Cv::<K>::sf(a1), Cv::<K>::sf(b1), Cv::<K>::sf(c1));
        let id = |x: &SF<K>| OpenHypergraph::<K, usize, usize>::identity(x.clone());
        let lhs = OpenHypergraph::<K, usize, usize>::twist(sa.clone(), sb.clone() + sc.clone());
        let rhs = OpenHypergraph::twist(sa.clone(), sb.clone())
            .tensor(&id(&sc))
            .compose(&id(&sb).tensor(&OpenHypergraph::twist(sa.clone(), sc.clone())))
            .unwrap();
        Self::pair(&lhs, &rhs)
    }
    pub fn law_hexagon_mirror(a1: &[usize], b1: &[usize], c1: &[usize]) -> Sx {
        let (sa, sb, sc) = (Cv::<K>::sf(a1), Cv::<K>::sf(b1), Cv::<K>::sf(c1));
        let id = |x: &SF<K>| OpenHypergraph::<K, usize, usize>::identity(x.clone());
        let lhs = OpenHypergraph::<K, usize, usize>::twist(sa.clone() + sb.clone(), sc.clone());
        let rhs = id(&sa)
            .tensor(&OpenHypergraph::twist(sb.clone(), sc.clone()))
            .compose(&OpenHypergraph::twist(sa.clone(), sc.clone()).tensor(&id(&sb)))
            .unwrap();
        Self::pair(&lhs, &rhs)
    }
    pub fn law_dagger_comp(a: &ROH, bb: &ROH) -> Sx {
        let (f, g) = (Cv::<K>::oh(a), Cv::<K>::oh(bb));
        let lhs = f.compose(&g).unwrap().dagger();
        let rhs = g.dagger().compose(&f.dagger()).unwrap();
        Self::pair(&lhs, &rhs)
    }
    pub fn law_dagger_dagger(a: &ROH) -> Sx {
        let f = Cv::<K>::oh(a);
        Self::pair(&f.dagger().dagger(), &f)
    }
    pub fn law_dagger_tensor(a: &ROH, bb: &ROH) -> Sx {
        let (f, g) = (Cv::<K>::oh(a), Cv::<K>::oh(bb));
        Self::pair(&f.tensor(&g).dagger(), &f.dagger().tensor(&g.dagger()))
    }
    pub fn law_tensor_assoc(f1: &ROH, g1: &ROH, h1: &ROH) -> Sx {
        let (f, g, h) = (Cv::<K>::oh(f1), Cv::<K>::oh(g1), Cv::<K>::oh(h1));
        Self::pair(&f.tensor(&g).tensor(&h), &f.tensor(&g.tensor(&h)))
    }
    pub fn law_tensor_unit_left(f1: &ROH) -> Sx {
        let f = Cv::<K>::oh(f1);
        let e = OpenHypergraph::<K, usize, usize>::identity(Cv::<K>::sf(&[]));
        Self::pair(&e.tensor(&f), &f)
    }
    pub fn law_tensor_unit_right(f1: &ROH) -> Sx {
        let f = Cv::<K>::oh(f1);
        let e = OpenHypergraph::<K, usize, usize>::identity(Cv::<K>::sf(&[]));
        Self::pair(&f.tensor(&e), &f)
    }
    pub fn law_spider_fusion(sa: &RFF, ta: &RFF, wa: &Vec<usize>, sb: &RFF, tb: &RFF, wb: &Vec<usize>) -> Sx {
        let sp1 = OpenHypergraph::<K, usize, usize>::spider(Cv::<K>::ff(sa), Cv::<K>::ff(ta), Cv::<K>::sf(wa)).unwrap();
        let sp2 = OpenHypergraph::<K, usize, usize>::spider(Cv::<K>::ff(sb), Cv::<K>::ff(tb), Cv::<K>::sf(wb)).unwrap();
        let lhs = sp1.compose(&sp2).unwrap();
        // the fused spider, computed from the finite-function algebra
        let (n1, n2) = (wa.len(), wb.len());
        let q = Cv::<K>::ff(ta).inject0(n2).coequalizer(&Cv::<K>::ff(sb).inject1(n1)).unwrap();
        let s3 = Cv::<K>::ff(sa).inject0(n2).compose(&q).unwrap();
        let t3 = Cv::<K>::ff(tb).inject1(n1).compose(&q).unwrap();
        let mut wab = wa.clone();
        wab.extend(wb.iter());
        let w3 = coequalizer_universal::<K, usize>(&q, &K::arr(wab)).unwrap();
        let rhs = OpenHypergraph::<K, usize, usize>::spider(s3, t3, open_hypergraphs::semifinite::SemifiniteFunction(w3)).unwrap();
        assert!(lhs.h.is_discrete());
        Self::pair(&lhs, &rhs)
    }
    pub fn law_identity_is_spider(a1: &[usize]) -> Sx {
        let id = FiniteFunction::<K>::identity(a1.len());
        let sp = OpenHypergraph::<K, usize, usize>::spider(id.clone(), id, Cv::<K>::sf(a1)).unwrap();
        Self::pair(&OpenHypergraph::identity(Cv::<K>::sf(a1)), &sp)
    }
    pub fn law_twist_is_spider(a1: &[usize], b1: &[usize]) -> Sx {
        let s = FiniteFunction::<K>::twist(a1.len(), b1.len());
        let t = FiniteFunction::<K>::identity(a1.len() + b1.len());
        let mut ba = b1.to_vec();
        ba.extend(a1.iter());
        let sp = OpenHypergraph::<K, usize, usize>::spider(s, t, Cv::<K>::sf(&ba)).unwrap();
        Self::pair(&OpenHypergraph::twist(Cv::<K>::sf(a1), Cv::<K>::sf(b1)), &sp)
    }

    /// a hypergraph violating exactly one of the four documented equations (or none)
    fn maybe_broken_hg(c: &mut Ctx, p: &gen::HgParams) -> RHG {
        let mut h = gen::hg(&mut c.rng, p);
        match c.rng.below(8) {
            0 => {
                c.knob("hg:sources-count-broken");
                h.s = RICF::from_segs(&gen::segs_n(&mut c.rng, h.x.len() + 1, 2, h.w.len()), h.w.len());
            }
            1 => {
                c.knob("hg:targets-count-broken");
                h.t = RICF::from_segs(&gen::segs_n(&mut c.rng, h.x.len() + 1, 2, h.w.len()), h.w.len());
            }
            2 => {
                c.knob("hg:sources-set-broken");
                h.s.values.target += 1;
            }
            3 => {
                c.knob("hg:targets-set-broken");
                h.t.values.target += 1;
            }
            _ => {}
        }
        h
    }

    pub fn run_hg(c: &mut Ctx, count: usize) {
        let p = gen::hg_params(c.size.max(2));
        for _ in 0..count {
            match c.rng.below(12) {
                0 | 1 => {
                    let h = Self::maybe_broken_hg(c, &p);
                    let a = h.clone();
                    c.emit("hg.new", vec![h.s.enc(), h.t.enc(), l(&h.w), l(&h.x)], move || Self::op_hg_new(&a));
                }
                2 => {
                    c.emit("hg.empty", vec![], move || Self::op_hg_empty());
                    let w = gen::list_below(&mut c.rng, p.max_nodes, p.node_labels);
                    let a = w.clone();
                    c.emit("hg.discrete", vec![l(&w)], move || Self::op_hg_discrete(&a));
                    let h = if c.rng.chance(1, 2) { gen::hg(&mut c.rng, &p) } else { RHG { s: RICF::from_segs(&[], w.len()), t: RICF::from_segs(&[], w.len()), w: w.clone(), x: vec![] } };
                    let a = h.clone();
                    c.emit("hg.is_discrete", vec![h.enc()], move || Self::op_hg_is_discrete(&a));
                }
                3 | 4 => {
                    let g = gen::hg(&mut c.rng, &p);
                    let h = gen::hg(&mut c.rng, &p);
                    let (a, bb) = (g.clone(), h.clone());
                    c.emit("hg.coproduct", vec![g.enc(), h.enc()], move || Self::op_hg_coproduct(&a, &bb));
                }
                5 => {
                    let k = c.rng.size(p.max_edges);
                    let x = c.rng.vec_below(k, p.edge_labels);
                    let a = RICS::from_segs(&gen::segs_n(&mut c.rng, k, p.max_arity, p.node_labels));
                    let bb = RICS::from_segs(&gen::segs_n(&mut c.rng, k, p.max_arity, p.node_labels));
                    let (x1, a1, b1) = (x.clone(), a.clone(), bb.clone());
                    c.emit("hg.tensor_operations", vec![l(&x), a.enc(), bb.enc()], move || Self::op_hg_tensor_operations(&x1, &a1, &b1));
                }
                6 | 7 => {
                    let h = gen::hg(&mut c.rng, &p);
                    let v = c.rng.range(0, h.w.len());
                    if v >= h.w.len() {
                        c.knob("hg:degree-node-out-of-range");
                    }
                    let a = h.clone();
                    c.emit("hg.in_degree", vec![h.enc(), n(v)], move || Self::op_hg_in_degree(&a, v));
                    let a = h.clone();
                    c.emit("hg.out_degree", vec![h.enc(), n(v)], move || Self::op_hg_out_degree(&a, v));
                }
                8 | 9 => {
                    // quotient of the node set by a surjection that respects labels (mostly)
                    let h = gen::hg(&mut c.rng, &p);
                    let nn = h.w.len();
                    // classes: nodes with equal label may be merged
                    let mut q = vec![0usize; nn];
                    let mut reps: Vec<(usize, usize)> = vec![]; // (label, class)
                    let mut k = 0;
                    for i in 0..nn {
                        let cands: Vec<usize> = reps.iter().filter(|(lab, _)| *lab == h.w[i]).map(|(_, cl)| *cl).collect();
                        if !cands.is_empty() && c.rng.chance(1, 2) {
                            q[i] = *c.rng.pick(&cands);
                        } else {
                            q[i] = k;
                            reps.push((h.w[i], k));
                            k += 1;
                        }
                    }
                    let mut qf = RFF::new(q, k);
                    if c.rng.chance(1, 8) && nn >= 2 && h.w[0] != h.w[1] {
                        c.knob("hg:coequalize-label-conflict");
                        qf.table[1] = qf.table[0];
                        // keep q surjective: renumber densely
                        let mut seen: Vec<usize> = vec![];
                        for v in qf.table.iter_mut() {
                            let pos = seen.iter().position(|s| s == v).unwrap_or_else(|| {
                                seen.push(*v);
                                seen.len() - 1
                            });
                            *v = pos;
                        }
                        qf.target = seen.len();
                    }
                    let (a, qq) = (h.clone(), qf.clone());
                    c.emit("hg.coequalize_vertices", vec![h.enc(), qf.enc()], move || Self::op_hg_coequalize_vertices(&a, &qq));
                }
                _ => {
                    let mut h = gen::hg(&mut c.rng, &p);
                    match c.rng.below(3) {
                        0 => {
                            let k = gen::dagify(&mut c.rng, &mut h);
                            c.knob(k);
                        }
                        1 => {
                            let (d, k) = gen::dag_hg(&mut c.rng, c.size, &p);
                            h = d;
                            c.knob(k);
                        }
                        _ => {}
                    }
                    let a = h.clone();
                    c.emit("hg.is_acyclic", vec![h.enc()], move || Self::op_hg_is_acyclic(&a));
                }
            }
        }
    }

    pub fn run_oh(c: &mut Ctx, count: usize) {
        let p = gen::hg_params(c.size.max(2));
        for _ in 0..count {
            match c.rng.below(20) {
                0 | 1 => {
                    let h = Self::maybe_broken_hg(c, &p);
                    let mut s = gen::ff_to(&mut c.rng, 3, h.w.len());
                    let mut t = gen::ff_to(&mut c.rng, 3, h.w.len());
                    match c.rng.below(8) {
                        0 => {
                            c.knob("oh:source-leg-mistyped");
                            s.target += 1
                        }
                        1 => {
                            c.knob("oh:target-leg-mistyped");
                            t.target += 1
                        }
                        _ => {}
                    }
                    let (a, s1, t1) = (h.clone(), s.clone(), t.clone());
                    c.emit("oh.new", vec![s.enc(), t.enc(), h.enc()], move || Self::op_oh_new(&s1, &t1, &a));
                }
                2 => {
                    let (x, a, bb) = (c.rng.below(p.edge_labels), gen::list_below(&mut c.rng, 3, p.node_labels), gen::list_below(&mut c.rng, 3, p.node_labels));
                    let (a1, b1) = (a.clone(), bb.clone());
                    c.emit("oh.singleton", vec![n(x), l(&a), l(&bb)], move || Self::op_oh_singleton(x, &a1, &b1));
                    let k = c.rng.size(p.max_edges);
                    let xs = c.rng.vec_below(k, p.edge_labels);
                    let ia = RICS::from_segs(&gen::segs_n(&mut c.rng, k, p.max_arity, p.node_labels));
                    let ib = RICS::from_segs(&gen::segs_n(&mut c.rng, k, p.max_arity, p.node_labels));
                    let (x1, a1, b1) = (xs.clone(), ia.clone(), ib.clone());
                    c.emit("oh.tensor_operations", vec![l(&xs), ia.enc(), ib.enc()], move || Self::op_oh_tensor_operations(&x1, &a1, &b1));
                }
                3 => {
                    let f = gen::oh(&mut c.rng, &p);
                    gen::knobs_oh(c, &f);
                    let a = f.clone();
                    c.emit("oh.source", vec![f.enc()], move || Self::op_oh_source(&a));
                    let a = f.clone();
                    c.emit("oh.target", vec![f.enc()], move || Self::op_oh_target(&a));
                    let a = f.clone();
                    c.emit("oh.dagger", vec![f.enc()], move || Self::op_oh_dagger(&a));
                }
                4 => {
                    let w = gen::list_below(&mut c.rng, p.max_nodes, p.node_labels);
                    let a = w.clone();
                    c.emit("oh.identity", vec![l(&w)], move || Self::op_oh_identity(&a));
                    let w2 = gen::list_below(&mut c.rng, p.max_nodes, p.node_labels);
                    let (a, bb) = (w.clone(), w2.clone());
                    c.emit("oh.twist", vec![l(&w), l(&w2)], move || Self::op_oh_twist(&a, &bb));
                }
                5 | 6 => {
                    // spiders: legs that land (or not) in the node list
                    let w = gen::list_below(&mut c.rng, p.max_nodes, p.node_labels);
                    let mut s = gen::ff_to(&mut c.rng, 4, w.len());
                    let mut t = gen::ff_to(&mut c.rng, 4, w.len());
                    match c.rng.below(8) {
                        0 => {
                            c.knob("oh:spider-leg-mismatch");
                            s.target += 1
                        }
                        1 => {
                            c.knob("oh:spider-leg-mismatch");
                            t.target += 1
                        }
                        _ => {}
                    }
                    let (s1, t1, w1) = (s.clone(), t.clone(), w.clone());
                    c.emit("oh.spider", vec![s.enc(), t.enc(), l(&w)], move || Self::op_oh_spider(&s1, &t1, &w1));
                    let (s1, w1) = (s.clone(), w.clone());
                    c.emit("oh.half_spider", vec![s.enc(), l(&w)], move || Self::op_oh_half_spider(&s1, &w1));
                }
                7 | 8 => {
                    let f = gen::oh(&mut c.rng, &p);
                    let g = gen::oh(&mut c.rng, &p);
                    gen::knobs_oh(c, &f);
                    let (a, bb) = (f.clone(), g.clone());
                    c.emit("oh.tensor", vec![f.enc(), g.enc()], move || Self::op_oh_tensor(&a, &bb));
                }
                9 | 10 | 11 | 12 | 13 | 14 => {
                    let (f, g) = if c.rng.chance(1, 7) {
                        c.knob("oh:compose-type-mismatch");
                        (gen::oh(&mut c.rng, &p), gen::oh(&mut c.rng, &p))
                    } else if c.rng.chance(1, 8) {
                        // near miss: equal arities, ONE boundary label differs (a fresh node of g)
                        c.knob("oh:compose-one-label-differs");
                        let (f, mut g) = gen::composable_pair(&mut c.rng, &p);
                        if !g.s.table.is_empty() {
                            let i = c.rng.below(g.s.table.len());
                            let lab = g.h.w[g.s.table[i]] + 1;
                            g.h.w.push(lab);
                            let n2 = g.h.w.len();
                            g.s.table[i] = n2 - 1;
                            g.s.target = n2;
                            g.t.target = n2;
                            g.h.s.values.target = n2;
                            g.h.t.values.target = n2;
                        }
                        (f, g)
                    } else {
                        gen::composable_pair(&mut c.rng, &p)
                    };
                    gen::knobs_oh(c, &f);
                    gen::knobs_oh(c, &g);
                    let (a, bb) = (f.clone(), g.clone());
                    c.emit("oh.compose", vec![f.enc(), g.enc()], move || Self::op_oh_compose(&a, &bb));
                }
                15 | 16 | 17 => {
                    // monogamy: mostly monogamous-by-construction diagrams with one defect sometimes
                    let f = if c.rng.chance(1, 2) { gen::oh(&mut c.rng, &p) } else { Self::monogamous(c, &p) };
                    gen::knobs_oh(c, &f);
                    let a = f.clone();
                    c.emit("oh.is_monogamous", vec![f.enc()], move || Self::op_oh_is_monogamous(&a));
                }
                _ => {
                    let mut f = gen::oh(&mut c.rng, &p);
                    match c.rng.below(3) {
                        0 => {
                            let k = gen::dagify(&mut c.rng, &mut f.h);
                            c.knob(k);
                        }
                        1 => {
                            let (d, k) = gen::dag_hg(&mut c.rng, c.size, &p);
                            let nn = d.w.len();
                            f = ROH { s: RFF::new(gen::list_below(&mut c.rng, 3, nn), nn), t: RFF::new(gen::list_below(&mut c.rng, 3, nn), nn), h: d };
                            c.knob(k);
                        }
                        _ => {}
                    }
                    let a = f.clone();
                    c.emit("oh.is_acyclic", vec![f.enc()], move || Self::op_oh_is_acyclic(&a));
                }
            }
        }
    }

    /// a monogamous diagram by construction, possibly with one defect (isolated node, repeated
    /// interface entry, double use)
    pub fn monogamous(c: &mut Ctx, p: &gen::HgParams) -> ROH {
        // every node gets exactly one producer (an input position or an edge target) and one
        // consumer (an output position or an edge source)
        let nn = c.rng.size(p.max_nodes);
        let ne = c.rng.size(p.max_edges);
        let w = c.rng.vec_below(nn, p.node_labels);
        let mut producers: Vec<usize> = (0..nn).collect();
        let mut consumers: Vec<usize> = (0..nn).collect();
        c.rng.shuffle(&mut producers);
        c.rng.shuffle(&mut consumers);
        let mut ssegs: Vec<Vec<usize>> = vec![vec![]; ne];
        let mut tsegs: Vec<Vec<usize>> = vec![vec![]; ne];
        let mut ins = vec![];
        let mut outs = vec![];
        for v in producers {
            let k = c.rng.below(ne + 1);
            if k == ne {
                ins.push(v)
            } else {
                tsegs[k].push(v)
            }
        }
        for v in consumers {
            let k = c.rng.below(ne + 1);
            if k == ne {
                outs.push(v)
            } else {
                ssegs[k].push(v)
            }
        }
        let mut f = ROH {
            s: RFF::new(ins, nn),
            t: RFF::new(outs, nn),
            h: RHG { s: RICF::from_segs(&ssegs, nn), t: RICF::from_segs(&tsegs, nn), w, x: c.rng.vec_below(ne, p.edge_labels) },
        };
        match c.rng.below(8) {
            0 => {
                c.knob("mono:isolated-node-added");
                f.h.w.push(0);
                let n2 = f.h.w.len();
                f.s.target = n2;
                f.t.target = n2;
                f.h.s.values.target = n2;
                f.h.t.values.target = n2;
            }
            1 if !f.s.table.is_empty() => {
                c.knob("mono:interface-entry-repeated");
                let v = f.s.table[0];
                f.s.table.push(v);
            }
            2 if nn > 0 => {
                c.knob("mono:extra-output");
                f.t.table.push(c.rng.below(nn));
            }
            3 | 4 if nn > 1 => {
                // one port re-pointed at another node: one node gains a producer/consumer, another
                // loses one, so every total is unchanged (compensating violations)
                c.knob("mono:port-redirected");
                let v = c.rng.below(nn);
                let start = c.rng.below(4);
                for k in 0..4 {
                    let t: &mut Vec<usize> = match (start + k) % 4 {
                        0 => &mut f.s.table,
                        1 => &mut f.t.table,
                        2 => &mut f.h.s.values.table,
                        _ => &mut f.h.t.values.table,
                    };
                    if !t.is_empty() {
                        let i = c.rng.below(t.len());
                        t[i] = v;
                        break;
                    }
                }
            }
            _ => {
                c.knob("mono:by-construction");
            }
        }
        f
    }

    fn ty(f: &ROH) -> (Vec<usize>, Vec<usize>) {
        gen::oh_type(f)
    }

    pub fn run_law(c: &mut Ctx, count: usize) {
        let p = gen::hg_params(c.size.max(2));
        for _ in 0..count {
            match c.rng.below(17) {
                0 | 1 => {
                    let (f, g) = gen::composable_pair(&mut c.rng, &p);
                    let h = gen::oh_with_source(&mut c.rng, &Self::ty(&g).1, &p);
                    let (f1, g1, h1) = (f.clone(), g.clone(), h.clone());
                    c.emit("law.assoc", vec![f.enc(), g.enc(), h.enc()], move || Self::law_assoc(&f1, &g1, &h1));
                }
                2 => {
                    let f = gen::oh(&mut c.rng, &p);
                    let f1 = f.clone();
                    c.emit("law.id_left", vec![f.enc()], move || Self::law_id_left(&f1));
                    let f1 = f.clone();
                    c.emit("law.id_right", vec![f.enc()], move || Self::law_id_right(&f1));
                }
                3 | 4 => {
                    let (f, f2) = gen::composable_pair(&mut c.rng, &p);
                    let (g, g2) = gen::composable_pair(&mut c.rng, &p);
                    let (a, a2, bb, b2) = (f.clone(), f2.clone(), g.clone(), g2.clone());
                    c.emit("law.interchange", vec![f.enc(), g.enc(), f2.enc(), g2.enc()], move || Self::law_interchange(&a, &bb, &a2, &b2));
                }
                5 | 6 => {
                    let f = gen::oh(&mut c.rng, &p);
                    let g = gen::oh(&mut c.rng, &p);
                    let (a, bb) = (f.clone(), g.clone());
                    c.emit("law.twist_natural", vec![f.enc(), g.enc()], move || Self::law_twist_natural(&a, &bb));
                }
                7 => {
                    let a = gen::list_below(&mut c.rng, 4, p.node_labels);
                    let bb = gen::list_below(&mut c.rng, 4, p.node_labels);
                    let (a1, b1) = (a.clone(), bb.clone());
                    c.emit("law.twist_twist", vec![l(&a), l(&bb)], move || Self::law_twist_twist(&a1, &b1));
                }
                8 => {
                    let a = gen::list_below(&mut c.rng, 3, p.node_labels);
                    let bb = gen::list_below(&mut c.rng, 3, p.node_labels);
                    let cc = gen::list_below(&mut c.rng, 3, p.node_labels);
                    let (a1, b1, c1) = (a.clone(), bb.clone(), cc.clone());
                    c.emit("law.hexagon", vec![l(&a), l(&bb), l(&cc)], move || Self::law_hexagon(&a1, &b1, &c1));
                    let (a1, b1, c1) = (a.clone(), bb.clone(), cc.clone());
                    c.emit("law.hexagon_mirror", vec![l(&a), l(&bb), l(&cc)], move || Self::law_hexagon_mirror(&a1, &b1, &c1));
                }
                9 | 10 => {
                    let (f, g) = gen::composable_pair(&mut c.rng, &p);
                    let (a, bb) = (f.clone(), g.clone());
                    c.emit("law.dagger_comp", vec![f.enc(), g.enc()], move || Self::law_dagger_comp(&a, &bb));
                }
                11 => {
                    let f = gen::oh(&mut c.rng, &p);
                    let g = gen::oh(&mut c.rng, &p);
                    let a = f.clone();
                    c.emit("law.dagger_dagger:eq", vec![f.enc()], move || Self::law_dagger_dagger(&a));
                    let (a, bb) = (f.clone(), g.clone());
                    c.emit("law.dagger_tensor:eq", vec![f.enc(), g.enc()], move || Self::law_dagger_tensor(&a, &bb));
                }
                12 => {
                    let (f, g, h) = (gen::oh(&mut c.rng, &p), gen::oh(&mut c.rng, &p), gen::oh(&mut c.rng, &p));
                    let (f1, g1, h1) = (f.clone(), g.clone(), h.clone());
                    c.emit("law.tensor_assoc:eq", vec![f.enc(), g.enc(), h.enc()], move || Self::law_tensor_assoc(&f1, &g1, &h1));
                    let f1 = f.clone();
                    c.emit("law.tensor_unit_left:eq", vec![f.enc()], move || Self::law_tensor_unit_left(&f1));
                    let f1 = f.clone();
                    c.emit("law.tensor_unit_right:eq", vec![f.enc()], move || Self::law_tensor_unit_right(&f1));
                }
                13 | 14 | 15 => {
                    // spider fusion: (s,t,w);(s',t',w') with w∘t = w'∘s'
                    let w = gen::list_below(&mut c.rng, p.max_nodes, p.node_labels);
                    let s = gen::ff_to(&mut c.rng, 4, w.len());
                    let t = gen::ff_to(&mut c.rng, 4, w.len());
                    let bty: Vec<usize> = t.table.iter().map(|i| w[*i]).collect();
                    // second cospan: nodes for the boundary (sharing allowed) + extras
                    let mut w2: Vec<usize> = vec![];
                    let mut s2 = vec![];
                    for lab in &bty {
                        let cands: Vec<usize> = (0..w2.len()).filter(|i| w2[*i] == *lab).collect();
                        if !cands.is_empty() && c.rng.chance(1, 2) {
                            s2.push(*c.rng.pick(&cands));
                        } else {
                            w2.push(*lab);
                            s2.push(w2.len() - 1);
                        }
                    }
                    for _ in 0..c.rng.size(3) {
                        w2.push(c.rng.below(p.node_labels));
                    }
                    let s2 = RFF::new(s2, w2.len());
                    let t2 = gen::ff_to(&mut c.rng, 4, w2.len());
                    if w.is_empty() || w2.is_empty() {
                        c.knob("law:fusion-empty-node-set");
                    }
                    let args = vec![s.enc(), t.enc(), l(&w), s2.enc(), t2.enc(), l(&w2)];
                    let (sa, ta, wa, sb, tb, wb) = (s.clone(), t.clone(), w.clone(), s2.clone(), t2.clone(), w2.clone());
                    c.emit("law.spider_fusion", args, move || Self::law_spider_fusion(&sa, &ta, &wa, &sb, &tb, &wb));
                }
                _ => {
                    let a = gen::list_below(&mut c.rng, 4, p.node_labels);
                    let bb = gen::list_below(&mut c.rng, 4, p.node_labels);
                    let a1 = a.clone();
                    c.emit("law.identity_is_spider", vec![l(&a)], move || Self::law_identity_is_spider(&a1));
                    let (a1, b1) = (a.clone(), bb.clone());
                    c.emit("law.twist_is_spider", vec![l(&a), l(&bb)], move || Self::law_twist_is_spider(&a1, &b1));
                }
            }
        }
    }
}
