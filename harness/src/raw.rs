//! Backend-independent raw data for generators, their wire encoding, and conversion to the
//! library's types at any `HK` backend.
use crate::kind::HK;
use crate::wire::*;
use open_hypergraphs::array::*;
use open_hypergraphs::finite_function::FiniteFunction;
use open_hypergraphs::indexed_coproduct::IndexedCoproduct;
use open_hypergraphs::operations::Operations;
use open_hypergraphs::semifinite::SemifiniteFunction;
use open_hypergraphs::strict::hypergraph::Hypergraph;
use open_hypergraphs::strict::open_hypergraph::OpenHypergraph;

#[derive(Clone, Debug, PartialEq)]
pub struct RFF {
    pub table: Vec<usize>,
    pub target: usize,
}
#[derive(Clone, Debug, PartialEq)]
pub struct RIC<V> {
    pub sources: RFF,
    pub values: V,
}
pub type RICF = RIC<RFF>;
pub type RICS = RIC<Vec<usize>>;
#[derive(Clone, Debug, PartialEq)]
pub struct RHG {
    pub s: RICF,
    pub t: RICF,
    pub w: Vec<usize>,
    pub x: Vec<usize>,
}
#[derive(Clone, Debug, PartialEq)]
pub struct ROH {
    pub s: RFF,
    pub t: RFF,
    pub h: RHG,
}

impl RFF {
    pub fn new(table: Vec<usize>, target: usize) -> Self {
        RFF { table, target }
    }
    pub fn enc(&self) -> Sx {
        list(vec![l(&self.table), n(self.target)])
    }
    pub fn wf(&self) -> bool {
        self.table.iter().all(|x| *x < self.target)
    }
}
impl RICF {
    pub fn enc(&self) -> Sx {
        list(vec![self.sources.enc(), self.values.enc()])
    }
    pub fn from_segs(segs: &[Vec<usize>], target: usize) -> Self {
        let sizes: Vec<usize> = segs.iter().map(|s| s.len()).collect();
        let total: usize = sizes.iter().sum();
        RIC {
            sources: RFF::new(sizes, total + 1),
            values: RFF::new(segs.concat(), target),
        }
    }
    pub fn segs(&self) -> Vec<Vec<usize>> {
        let mut out = vec![];
        let mut p = 0;
        for k in &self.sources.table {
            out.push(self.values.table[p..p + k].to_vec());
            p += k;
        }
        out
    }
}
impl RICS {
    pub fn enc(&self) -> Sx {
        list(vec![self.sources.enc(), l(&self.values)])
    }
    pub fn from_segs(segs: &[Vec<usize>]) -> Self {
        let sizes: Vec<usize> = segs.iter().map(|s| s.len()).collect();
        let total: usize = sizes.iter().sum();
        RIC {
            sources: RFF::new(sizes, total + 1),
            values: segs.concat(),
        }
    }
}
impl RHG {
    pub fn enc(&self) -> Sx {
        list(vec![self.s.enc(), self.t.enc(), l(&self.w), l(&self.x)])
    }
}
impl ROH {
    pub fn enc(&self) -> Sx {
        list(vec![self.s.enc(), self.t.enc(), self.h.enc()])
    }
}

pub type FF<K> = FiniteFunction<K>;
pub type SF<K> = SemifiniteFunction<K, usize>;
pub type ICF<K> = IndexedCoproduct<K, FiniteFunction<K>>;
pub type ICS<K> = IndexedCoproduct<K, SemifiniteFunction<K, usize>>;
pub type HG<K> = Hypergraph<K, usize, usize>;
pub type OH<K> = OpenHypergraph<K, usize, usize>;
pub type OPS<K> = Operations<K, usize, usize>;

/// conversions between raw data and the library's types at backend `K`
pub struct Cv<K>(std::marker::PhantomData<K>);

impl<K: HK> Cv<K>
where
    K::Type<usize>: NaturalArray<K> + PartialEq,
    K::Type<u64>: Array<K, u64> + PartialEq,
{
    // ---- conversions to library types -------------------------------------------------------


    pub fn ff(r: &RFF) -> FF<K> {
        FiniteFunction {
            table: K::idx(r.table.clone()),
            target: r.target,
        }
    }
    pub fn sf(v: &[usize]) -> SF<K> {
        SemifiniteFunction(K::arr(v.to_vec()))
    }
    /// unchecked construction: build a valid value first, then overwrite the public fields
    pub fn icf(r: &RICF) -> ICF<K> {
        let mut c = IndexedCoproduct::singleton(Self::ff(&r.values));
        c.sources = Self::ff(&r.sources);
        c
    }
    pub fn ics(r: &RICS) -> ICS<K> {
        let mut c = IndexedCoproduct::singleton(Self::sf(&r.values));
        c.sources = Self::ff(&r.sources);
        c
    }
    pub fn hg(r: &RHG) -> HG<K> {
        Hypergraph {
            s: Self::icf(&r.s),
            t: Self::icf(&r.t),
            w: Self::sf(&r.w),
            x: Self::sf(&r.x),
        }
    }
    pub fn oh(r: &ROH) -> OH<K> {
        OpenHypergraph {
            s: Self::ff(&r.s),
            t: Self::ff(&r.t),
            h: Self::hg(&r.h),
        }
    }
    pub fn ops(x: &[usize], a: &RICS, b: &RICS) -> OPS<K> {
        let mut o = Operations::singleton(0usize, Self::sf(&[]), Self::sf(&[]));
        o.x = Self::sf(x);
        o.a = Self::ics(a);
        o.b = Self::ics(b);
        o
    }

    // ---- back from library types -------------------------------------------------------------

    pub fn rff(f: &FF<K>) -> RFF {
        RFF {
            table: K::unidx(&f.table),
            target: f.target,
        }
    }
    pub fn rsf(f: &SF<K>) -> Vec<usize> {
        K::unarr(&f.0)
    }
    pub fn ricf(c: &ICF<K>) -> RICF {
        RIC {
            sources: Self::rff(&c.sources),
            values: Self::rff(&c.values),
        }
    }
    pub fn rics(c: &ICS<K>) -> RICS {
        RIC {
            sources: Self::rff(&c.sources),
            values: Self::rsf(&c.values),
        }
    }
    pub fn rhg(h: &HG<K>) -> RHG {
        RHG {
            s: Self::ricf(&h.s),
            t: Self::ricf(&h.t),
            w: Self::rsf(&h.w),
            x: Self::rsf(&h.x),
        }
    }
    pub fn roh(f: &OH<K>) -> ROH {
        ROH {
            s: Self::rff(&f.s),
            t: Self::rff(&f.t),
            h: Self::rhg(&f.h),
        }
    }

}
