//! Replay mode: re-execute given cases instead of generating them.
//!
//! Input: one case per line, `<id> <op> (<arg1> <arg2> ...) [<result>]` (the format the generator
//! groups print; a trailing result is ignored; empty lines and lines starting with `#` are
//! skipped).  For every line the arguments are decoded (the inverse of the `enc` functions of
//! `raw.rs` / `ops_lax.rs` / `wire.rs`) and the SAME op body the generator uses (the `op_*` /
//! `law_*` functions of the `ops_*` modules) is run through `Ctx::emit`, so the output format and
//! the panic handling are those of the generator.  An op may carry the backend prefix `adv1:` /
//! `adv2:`; generic ops then run at `AdvKind<1>` / `AdvKind<2>` instead of `VecKind`.
//! Unknown ops and undecodable arguments give `<id> <op> (<args>) undecodable`.
use crate::adv::AdvKind;
use crate::ctx::Ctx;
use crate::kind::HK;
use crate::ops_ff::{FfOps, RSide};
use crate::ops_functor as fun;
use crate::ops_functor::Ins;
use crate::ops_graph::GraphOps;
use crate::ops_ic::IcOps;
use crate::ops_lax as lax;
use crate::ops_lax::RLf;
use crate::ops_prim::PrimOps;
use crate::ops_strict::StrictOps;
use crate::raw::*;
use crate::wire::Sx;
use open_hypergraphs::array::vec::VecKind;
use open_hypergraphs::array::*;
use std::collections::HashSet;
use std::sync::Mutex;

// ---------------------------------------------------------------------------------------------
// s-expression parser for the wire format

/// symbols are `&'static str` in `Sx`; parsed ones are interned (leaked once per distinct name)
fn intern(s: &str) -> &'static str {
    static TABLE: Mutex<Option<HashSet<&'static str>>> = Mutex::new(None);
    let mut g = TABLE.lock().unwrap_or_else(|e| e.into_inner());
    let t = g.get_or_insert_with(HashSet::new);
    if let Some(k) = t.get(s) {
        return k;
    }
    let k: &'static str = Box::leak(s.to_string().into_boxed_str());
    t.insert(k);
    k
}

const MAX_DEPTH: usize = 256;

struct Parser<'a> {
    s: &'a [u8],
    i: usize,
}

impl<'a> Parser<'a> {
    fn skip_ws(&mut self) {
        while self.i < self.s.len() && (self.s[self.i] as char).is_ascii_whitespace() {
            self.i += 1;
        }
    }
    /// one token delimited by whitespace (used for the id and the op name)
    fn word(&mut self) -> Option<&'a str> {
        self.skip_ws();
        let st = self.i;
        while self.i < self.s.len() && !(self.s[self.i] as char).is_ascii_whitespace() {
            self.i += 1;
        }
        if st == self.i {
            None
        } else {
            std::str::from_utf8(&self.s[st..self.i]).ok()
        }
    }
    fn atom(&mut self) -> Option<Sx> {
        let st = self.i;
        while self.i < self.s.len() {
            let ch = self.s[self.i];
            if ch == b'(' || ch == b')' || (ch as char).is_ascii_whitespace() {
                break;
            }
            self.i += 1;
        }
        if st == self.i {
            return None;
        }
        let t = std::str::from_utf8(&self.s[st..self.i]).ok()?;
        if t.bytes().all(|b| b.is_ascii_digit()) {
            // naturals up to u128; a longer digit string is kept as a text atom (never decodable)
            return Some(match t.parse::<u128>() {
                Ok(v) => Sx::N(v),
                Err(_) => Sx::Str(t.to_string()),
            });
        }
        let plain = t.bytes().all(|b| b.is_ascii_alphanumeric() || b"_.:-+*/<>=!?".contains(&b));
        Some(if plain { Sx::S(intern(t)) } else { Sx::Str(t.to_string()) })
    }
    fn sx(&mut self, depth: usize) -> Option<Sx> {
        self.skip_ws();
        if self.i >= self.s.len() || depth > MAX_DEPTH {
            return None;
        }
        match self.s[self.i] {
            b'(' => {
                self.i += 1;
                let mut xs = vec![];
                loop {
                    self.skip_ws();
                    if self.i >= self.s.len() {
                        return None;
                    }
                    if self.s[self.i] == b')' {
                        self.i += 1;
                        return Some(Sx::L(xs));
                    }
                    xs.push(self.sx(depth + 1)?);
                }
            }
            b')' => None,
            _ => self.atom(),
        }
    }
}

/// parse one complete s-expression (the whole text)
#[allow(dead_code)]
pub fn parse_sx(text: &str) -> Option<Sx> {
    let mut p = Parser { s: text.as_bytes(), i: 0 };
    let r = p.sx(0)?;
    p.skip_ws();
    if p.i == p.s.len() {
        Some(r)
    } else {
        None
    }
}

/// the balanced parenthesised prefix of `text` (verbatim), if there is one
fn balanced_prefix(text: &str) -> Option<&str> {
    let b = text.as_bytes();
    if b.first() != Some(&b'(') {
        return None;
    }
    let mut d = 0usize;
    for (i, ch) in b.iter().enumerate() {
        match ch {
            b'(' => d += 1,
            b')' => {
                d -= 1;
                if d == 0 {
                    return Some(&text[..=i]);
                }
            }
            _ => {}
        }
    }
    None
}

pub struct Line {
    pub id: String,
    pub op: String,
    /// the decoded argument list, or the argument text as found when it does not parse
    pub args: Result<Vec<Sx>, String>,
}

/// `<id> <op> (<args>) [<result>]`; `None` for lines to skip
pub fn parse_line(line: &str) -> Option<Line> {
    let t = line.trim();
    if t.is_empty() || t.starts_with('#') {
        return None;
    }
    let mut p = Parser { s: t.as_bytes(), i: 0 };
    let id = p.word().unwrap_or("?").to_string();
    let op = p.word().unwrap_or("?").to_string();
    p.skip_ws();
    let rest = &t[p.i.min(t.len())..];
    let args = match p.sx(0) {
        Some(Sx::L(xs)) => Ok(xs),
        _ => Err(balanced_prefix(rest).unwrap_or(rest).to_string()),
    };
    Some(Line { id, op, args })
}

// ---------------------------------------------------------------------------------------------
// decoders: the inverses of the `enc` functions

#[derive(Debug, Clone, Copy, PartialEq)]
pub enum Why {
    UnknownOp,
    BadArgs,
}
type R<T> = Result<T, Why>;
const BAD: Why = Why::BadArgs;

fn us(x: &Sx) -> R<usize> {
    match x {
        Sx::N(v) => usize::try_from(*v).map_err(|_| BAD),
        _ => Err(BAD),
    }
}
fn u64v(x: &Sx) -> R<u64> {
    match x {
        Sx::N(v) => u64::try_from(*v).map_err(|_| BAD),
        _ => Err(BAD),
    }
}
fn items(x: &Sx) -> R<&[Sx]> {
    match x {
        Sx::L(v) => Ok(v),
        _ => Err(BAD),
    }
}
fn vus(x: &Sx) -> R<Vec<usize>> {
    items(x)?.iter().map(us).collect()
}
fn v64(x: &Sx) -> R<Vec<u64>> {
    items(x)?.iter().map(u64v).collect()
}
fn boolean(x: &Sx) -> R<bool> {
    match x {
        Sx::S("true") => Ok(true),
        Sx::S("false") => Ok(false),
        _ => Err(BAD),
    }
}
/// `RFF::enc`: `((table) target)`
fn rff(x: &Sx) -> R<RFF> {
    match items(x)? {
        [t, k] => Ok(RFF::new(vus(t)?, us(k)?)),
        _ => Err(BAD),
    }
}
/// `RICF::enc`: `(sources values)`, both finite functions
fn ricf(x: &Sx) -> R<RICF> {
    match items(x)? {
        [s, v] => Ok(RIC { sources: rff(s)?, values: rff(v)? }),
        _ => Err(BAD),
    }
}
/// `RICS::enc`: `(sources (values))`
fn rics(x: &Sx) -> R<RICS> {
    match items(x)? {
        [s, v] => Ok(RIC { sources: rff(s)?, values: vus(v)? }),
        _ => Err(BAD),
    }
}
/// `RHG::enc`: `(s t (w) (x))`
fn rhg(x: &Sx) -> R<RHG> {
    match items(x)? {
        [s, t, w, e] => Ok(RHG { s: ricf(s)?, t: ricf(t)?, w: vus(w)?, x: vus(e)? }),
        _ => Err(BAD),
    }
}
/// `ROH::enc`: `(s t h)`
fn roh(x: &Sx) -> R<ROH> {
    match items(x)? {
        [s, t, h] => Ok(ROH { s: rff(s)?, t: rff(t)?, h: rhg(h)? }),
        _ => Err(BAD),
    }
}
/// `enc_lh`: `((nodes) (edges) (((s) (t)) ...) ((q0) (q1)))`, as lax data with an empty boundary
fn rlh(x: &Sx) -> R<RLf> {
    match items(x)? {
        [nodes, edges, adj, quot] => {
            let adjacency = items(adj)?
                .iter()
                .map(|e| match items(e)? {
                    [s, t] => Ok((vus(s)?, vus(t)?)),
                    _ => Err(BAD),
                })
                .collect::<R<Vec<_>>>()?;
            let quotient = match items(quot)? {
                [a, b] => (vus(a)?, vus(b)?),
                _ => return Err(BAD),
            };
            Ok(RLf { sources: vec![], targets: vec![], nodes: vus(nodes)?, edges: vus(edges)?, adjacency, quotient })
        }
        _ => Err(BAD),
    }
}
/// `enc_lf` / `RLf::enc`: `((sources) (targets) hypergraph)`
fn rlf(x: &Sx) -> R<RLf> {
    match items(x)? {
        [s, t, h] => {
            let mut f = rlh(h)?;
            f.sources = vus(s)?;
            f.targets = vus(t)?;
            Ok(f)
        }
        _ => Err(BAD),
    }
}
/// `range_sx` of `ops_prim`: (form, a, b)
fn range(x: &Sx) -> R<(usize, usize, usize)> {
    match items(x)? {
        [Sx::S("full")] => Ok((0, 0, 0)),
        [Sx::S("from"), a] => Ok((1, us(a)?, 0)),
        [Sx::S("to"), b] => Ok((2, 0, us(b)?)),
        [Sx::S("fromto"), a, b] => Ok((3, us(a)?, us(b)?)),
        [Sx::S("toincl"), b] => Ok((4, 0, us(b)?)),
        [Sx::S("fromtoincl"), a, b] => Ok((5, us(a)?, us(b)?)),
        _ => Err(BAD),
    }
}
/// one operand of `ff.semifinite_arrow_compose`: kind 0 `()`, 1 a finite function, 2 a label list
fn side(k: &Sx, x: &Sx) -> R<RSide> {
    match us(k)? {
        0 => match items(x)? {
            [] => Ok(RSide::Identity),
            _ => Err(BAD),
        },
        1 => Ok(RSide::Finite(rff(x)?)),
        2 => Ok(RSide::Semifinite(vus(x)?)),
        _ => Err(BAD),
    }
}
/// the program of `var.build`
fn prog(x: &Sx) -> R<Vec<Ins>> {
    items(x)?
        .iter()
        .map(|i| match items(i)? {
            [Sx::S("bin"), o, a, b] => Ok(Ins::Bin(us(o)?, us(a)?, us(b)?)),
            [Sx::S("un"), o, a] => Ok(Ins::Un(us(o)?, us(a)?)),
            [Sx::S("op"), lab, args, r] => Ok(Ins::Op2(us(lab)?, vus(args)?, us(r)?)),
            [Sx::S("fnop"), lab, args] => Ok(Ins::FnOp(us(lab)?, vus(args)?)),
            _ => Err(BAD),
        })
        .collect()
}
/// the steps of a `lax.edit` history, checked against the shapes `ops_lax::step` reads
fn steps(x: &Sx) -> R<Vec<Sx>> {
    let mut out = vec![];
    for st in items(x)? {
        let parts = items(st)?;
        let (name, rest) = match parts.split_first() {
            Some((Sx::S(name), rest)) => (*name, rest),
            _ => return Err(BAD),
        };
        // n: a natural, l: a list of naturals
        let shape: &str = match name {
            "new_node" | "map_nodes" | "map_edges" | "with_nodes" | "with_edges" => "n",
            "new_edge" | "new_operation" => "nll",
            "add_edge_source" | "add_edge_target" | "unify" => "nn",
            "delete_nodes" | "h_delete_nodes_witness" | "delete_edges" | "set_sources" | "set_targets" => "l",
            "is_strict" | "quotient" | "h_quotient" | "coequalizer" => "",
            _ => return Err(BAD),
        };
        if shape.len() != rest.len() {
            return Err(BAD);
        }
        for (k, a) in shape.bytes().zip(rest.iter()) {
            if k == b'n' {
                us(a)?;
            } else {
                vus(a)?;
            }
        }
        out.push(st.clone());
    }
    Ok(out)
}

// ---------------------------------------------------------------------------------------------
// dispatch: op name + decoded arguments -> the op body of the generator

type Job = Box<dyn FnOnce() -> Sx>;

macro_rules! job {
    ($e:expr) => {
        Ok(Box::new(move || $e) as Job)
    };
}

/// `prim.gather` is emitted at two element types with the same wire form; the second one (u64)
/// carries values `x * 256 + 7`.  Both give the same result at every backend.
fn looks_like_u64_gather(xs: &[usize]) -> bool {
    !xs.is_empty() && xs.iter().all(|x| x % 256 == 7 && *x >= 7)
}

pub fn job<K: HK>(op: &str, a: &[Sx]) -> R<Job>
where
    K::Type<usize>: NaturalArray<K> + PartialEq,
    K::Type<u64>: Array<K, u64> + PartialEq,
{
    // every arm: check the arity, decode, build the closure
    macro_rules! args {
        ($($p:pat),*) => {
            let [$($p),*] = a else { return Err(BAD) };
        };
    }
    match op {
        // ---- prim --------------------------------------------------------------------------
        "prim.gather" => {
            args!(xs, idx);
            let (xs, idx) = (vus(xs)?, vus(idx)?);
            if looks_like_u64_gather(&xs) {
                let xs64: Vec<u64> = xs.iter().map(|x| *x as u64).collect();
                job!(PrimOps::<K>::op_gather64(xs64, idx))
            } else {
                job!(PrimOps::<K>::op_gather(xs, idx))
            }
        }
        "prim.get" => {
            args!(xs, i);
            let (xs, i) = (vus(xs)?, us(i)?);
            job!(PrimOps::<K>::op_get(xs, i))
        }
        "prim.to_range" => {
            args!(len, r);
            let (len, (form, x, y)) = (us(len)?, range(r)?);
            job!(PrimOps::<K>::op_to_range(len, form, x, y))
        }
        "prim.get_range" => {
            args!(xs, r);
            let (xs, (form, x, y)) = (vus(xs)?, range(r)?);
            job!(PrimOps::<K>::op_get_range(xs, form, x, y))
        }
        "prim.set_range" => {
            args!(xs, r, v);
            let (xs, (form, x, y), v) = (vus(xs)?, range(r)?, vus(v)?);
            job!(PrimOps::<K>::op_set_range(xs, form, x, y, v))
        }
        "prim.concatenate" => {
            args!(x, y);
            let (x, y) = (vus(x)?, vus(y)?);
            job!(PrimOps::<K>::op_concatenate(x, y))
        }
        "prim.fill" => {
            args!(x, k);
            let (x, k) = (us(x)?, us(k)?);
            job!(PrimOps::<K>::op_fill(x, k))
        }
        "prim.scatter" => {
            args!(xs, idx, size);
            let (xs, idx, size) = (vus(xs)?, vus(idx)?, us(size)?);
            job!(PrimOps::<K>::op_scatter(xs, idx, size))
        }
        "prim.scatter_assign" => {
            args!(me, ixs, vals);
            let (me, ixs, vals) = (vus(me)?, vus(ixs)?, vus(vals)?);
            job!(PrimOps::<K>::op_scatter_assign(me, ixs, vals))
        }
        "prim.scatter_assign_constant" => {
            args!(me, ixs, x);
            let (me, ixs, x) = (vus(me)?, vus(ixs)?, us(x)?);
            job!(PrimOps::<K>::op_scatter_assign_constant(me, ixs, x))
        }
        "prim.scatter_sub_assign" => {
            args!(me, ixs, rhs);
            let (me, ixs, rhs) = (vus(me)?, vus(ixs)?, vus(rhs)?);
            job!(PrimOps::<K>::op_scatter_sub_assign(me, ixs, rhs))
        }
        "prim.arange" => {
            args!(x, y);
            let (x, y) = (us(x)?, us(y)?);
            job!(PrimOps::<K>::op_arange(x, y))
        }
        "prim.cumulative_sum" => {
            args!(xs);
            let xs = vus(xs)?;
            job!(PrimOps::<K>::op_cumulative_sum(xs))
        }
        "prim.sum" => {
            args!(xs);
            let xs = vus(xs)?;
            job!(PrimOps::<K>::op_sum(xs))
        }
        "prim.repeat" => {
            args!(k, x);
            let (k, x) = (vus(k)?, vus(x)?);
            job!(PrimOps::<K>::op_repeat(k, x))
        }
        "prim.quot_rem" => {
            args!(xs, d);
            let (xs, d) = (vus(xs)?, us(d)?);
            job!(PrimOps::<K>::op_quot_rem(xs, d))
        }
        "prim.mul_constant_add" => {
            args!(xs, cst, ys);
            let (xs, cst, ys) = (vus(xs)?, us(cst)?, vus(ys)?);
            job!(PrimOps::<K>::op_mul_constant_add(xs, cst, ys))
        }
        "prim.add" => {
            args!(xs, ys);
            let (xs, ys) = (vus(xs)?, vus(ys)?);
            job!(PrimOps::<K>::op_add(xs, ys))
        }
        "prim.sub" => {
            args!(xs, ys);
            let (xs, ys) = (vus(xs)?, vus(ys)?);
            job!(PrimOps::<K>::op_sub(xs, ys))
        }
        "prim.bincount" => {
            args!(xs, size);
            let (xs, size) = (vus(xs)?, us(size)?);
            job!(PrimOps::<K>::op_bincount(xs, size))
        }
        "prim.zero" => {
            args!(xs);
            let xs = vus(xs)?;
            job!(PrimOps::<K>::op_zero(xs))
        }
        "prim.max" => {
            args!(xs);
            let xs = vus(xs)?;
            job!(PrimOps::<K>::op_max(xs))
        }
        "prim.segmented_sum" => {
            args!(sizes, x);
            let (sizes, x) = (vus(sizes)?, vus(x)?);
            job!(PrimOps::<K>::op_segmented_sum(sizes, x))
        }
        "prim.segmented_arange" => {
            args!(sizes);
            let sizes = vus(sizes)?;
            job!(PrimOps::<K>::op_segmented_arange(sizes))
        }
        "prim.argsort" => {
            args!(xs);
            let xs = vus(xs)?;
            job!(PrimOps::<K>::op_argsort(xs))
        }
        "prim.sort_by" => {
            args!(vals, keys);
            let (vals, keys) = (vus(vals)?, vus(keys)?);
            job!(PrimOps::<K>::op_sort_by(vals, keys))
        }
        "prim.sparse_bincount" => {
            args!(xs);
            let xs = vus(xs)?;
            job!(PrimOps::<K>::op_sparse_bincount(xs))
        }
        "prim.connected_components" => {
            args!(s, t, nn);
            let (s, t, nn) = (vus(s)?, vus(t)?, us(nn)?);
            job!(PrimOps::<K>::op_connected_components(s, t, nn))
        }

        // ---- ff ----------------------------------------------------------------------------
        "ff.new" => {
            args!(table, target);
            let (table, target) = (vus(table)?, us(target)?);
            job!(FfOps::<K>::op_new(table, target))
        }
        "ff.identity" => {
            args!(x);
            let x = us(x)?;
            job!(FfOps::<K>::op_identity(x))
        }
        "ff.initial" => {
            args!(x);
            let x = us(x)?;
            job!(FfOps::<K>::op_initial(x))
        }
        "ff.terminal" => {
            args!(x);
            let x = us(x)?;
            job!(FfOps::<K>::op_terminal(x))
        }
        "ff.constant" => {
            args!(x, y, z);
            let (x, y, z) = (us(x)?, us(y)?, us(z)?);
            job!(FfOps::<K>::op_constant(x, y, z))
        }
        "ff.inject0" => {
            args!(f, k);
            let (f, k) = (rff(f)?, us(k)?);
            job!(FfOps::<K>::op_inject0(&f, k))
        }
        "ff.inject1" => {
            args!(f, k);
            let (f, k) = (rff(f)?, us(k)?);
            job!(FfOps::<K>::op_inject1(&f, k))
        }
        "ff.to_initial" => {
            args!(f);
            let f = rff(f)?;
            job!(FfOps::<K>::op_to_initial(&f))
        }
        "ff.compose" => {
            args!(f, g);
            let (f, g) = (rff(f)?, rff(g)?);
            job!(FfOps::<K>::op_compose(&f, &g))
        }
        "ff.compose_semifinite" => {
            args!(f, labels);
            let (f, labels) = (rff(f)?, vus(labels)?);
            job!(FfOps::<K>::op_compose_semifinite(&f, &labels))
        }
        "ff.coproduct" => {
            args!(f, g);
            let (f, g) = (rff(f)?, rff(g)?);
            job!(FfOps::<K>::op_coproduct(&f, &g))
        }
        "ff.tensor" => {
            args!(f, g);
            let (f, g) = (rff(f)?, rff(g)?);
            job!(FfOps::<K>::op_tensor(&f, &g))
        }
        "ff.inj0" => {
            args!(x, y);
            let (x, y) = (us(x)?, us(y)?);
            job!(FfOps::<K>::op_inj0(x, y))
        }
        "ff.inj1" => {
            args!(x, y);
            let (x, y) = (us(x)?, us(y)?);
            job!(FfOps::<K>::op_inj1(x, y))
        }
        "ff.twist" => {
            args!(x, y);
            let (x, y) = (us(x)?, us(y)?);
            job!(FfOps::<K>::op_twist(x, y))
        }
        "ff.transpose" => {
            args!(x, y);
            let (x, y) = (us(x)?, us(y)?);
            job!(FfOps::<K>::op_transpose(x, y))
        }
        "ff.injections" => {
            args!(s, x);
            let (s, x) = (rff(s)?, rff(x)?);
            job!(FfOps::<K>::op_injections(&s, &x))
        }
        "ff.cumulative_sum" => {
            args!(f);
            let f = rff(f)?;
            job!(FfOps::<K>::op_cumulative_sum(&f))
        }
        "ff.is_injective" => {
            args!(f);
            let f = rff(f)?;
            job!(FfOps::<K>::op_is_injective(&f))
        }
        "ff.coequalizer" => {
            args!(f, g);
            let (f, g) = (rff(f)?, rff(g)?);
            job!(FfOps::<K>::op_coequalizer(&f, &g))
        }
        "ff.coequalizer_universal_arr" => {
            args!(q, u);
            let (q, u) = (rff(q)?, vus(u)?);
            job!(FfOps::<K>::op_coequalizer_universal_arr(&q, u))
        }
        "ff.coequalizer_universal" => {
            args!(q, u);
            let (q, u) = (rff(q)?, rff(u)?);
            job!(FfOps::<K>::op_coequalizer_universal(&q, &u))
        }
        "ff.semifinite_arrow_compose" => {
            args!(ka, xa, kb, xb);
            let (sa, sb) = (side(ka, xa)?, side(kb, xb)?);
            job!(FfOps::<K>::op_semifinite_arrow_compose(&sa, &sb))
        }

        // ---- ic ----------------------------------------------------------------------------
        "ic.new_ff" => {
            args!(s, v);
            let (s, v) = (rff(s)?, rff(v)?);
            job!(IcOps::<K>::op_new_ff(&s, &v))
        }
        "ic.new_sf" => {
            args!(s, v);
            let (s, v) = (rff(s)?, vus(v)?);
            job!(IcOps::<K>::op_new_sf(&s, &v))
        }
        "ic.from_semifinite_ff" => {
            args!(s, v);
            let (s, v) = (vus(s)?, rff(v)?);
            job!(IcOps::<K>::op_from_semifinite_ff(&s, &v))
        }
        "ic.from_semifinite_sf" => {
            args!(s, v);
            let (s, v) = (vus(s)?, vus(v)?);
            job!(IcOps::<K>::op_from_semifinite_sf(&s, &v))
        }
        "ic.singleton_ff" => {
            args!(v);
            let v = rff(v)?;
            job!(IcOps::<K>::op_singleton_ff(&v))
        }
        "ic.elements_ff" => {
            args!(v);
            let v = rff(v)?;
            job!(IcOps::<K>::op_elements_ff(&v))
        }
        "ic.singleton_sf" => {
            args!(v);
            let v = vus(v)?;
            job!(IcOps::<K>::op_singleton_sf(&v))
        }
        "ic.elements_sf" => {
            args!(v);
            let v = vus(v)?;
            job!(IcOps::<K>::op_elements_sf(&v))
        }
        "ic.initial" => {
            args!(t);
            let t = us(t)?;
            job!(IcOps::<K>::op_initial(t))
        }
        "ic.len" => {
            args!(r);
            let r = ricf(r)?;
            job!(IcOps::<K>::op_len(&r))
        }
        "ic.flatmap_sources" => {
            args!(r, o);
            let (r, o) = (ricf(r)?, rics(o)?);
            job!(IcOps::<K>::op_flatmap_sources(&r, &o))
        }
        "ic.flatmap_sources_sf" => {
            args!(r, o);
            let (r, o) = (rics(r)?, rics(o)?);
            job!(IcOps::<K>::op_flatmap_sources_sf(&r, &o))
        }
        "ic.tensor" => {
            args!(r, o);
            let (r, o) = (ricf(r)?, ricf(o)?);
            job!(IcOps::<K>::op_tensor(&r, &o))
        }
        "ic.coproduct_ff" => {
            args!(r, o);
            let (r, o) = (ricf(r)?, ricf(o)?);
            job!(IcOps::<K>::op_coproduct_ff(&r, &o))
        }
        "ic.coproduct_sf" => {
            args!(r, o);
            let (r, o) = (rics(r)?, rics(o)?);
            job!(IcOps::<K>::op_coproduct_sf(&r, &o))
        }
        "ic.map_values" => {
            args!(r, x);
            let (r, x) = (ricf(r)?, rff(x)?);
            job!(IcOps::<K>::op_map_values(&r, &x))
        }
        "ic.map_semifinite" => {
            args!(r, lab);
            let (r, lab) = (ricf(r)?, vus(lab)?);
            job!(IcOps::<K>::op_map_semifinite(&r, &lab))
        }
        "ic.flatmap" => {
            args!(r, o);
            let (r, o) = (ricf(r)?, ricf(o)?);
            job!(IcOps::<K>::op_flatmap(&r, &o))
        }
        "ic.map_indexes_ff" => {
            args!(r, x);
            let (r, x) = (ricf(r)?, rff(x)?);
            job!(IcOps::<K>::op_map_indexes_ff(&r, &x))
        }
        "ic.indexed_values_ff" => {
            args!(r, x);
            let (r, x) = (ricf(r)?, rff(x)?);
            job!(IcOps::<K>::op_indexed_values_ff(&r, &x))
        }
        "ic.map_indexes_sf" => {
            args!(r, x);
            let (r, x) = (rics(r)?, rff(x)?);
            job!(IcOps::<K>::op_map_indexes_sf(&r, &x))
        }
        "ic.indexed_values_sf" => {
            args!(r, x);
            let (r, x) = (rics(r)?, rff(x)?);
            job!(IcOps::<K>::op_indexed_values_sf(&r, &x))
        }
        "ic.iter_trace_ff" => {
            args!(r);
            let r = ricf(r)?;
            job!(IcOps::<K>::op_iter_trace_ff(&r))
        }
        "ic.iter_trace_sf" => {
            args!(r);
            let r = rics(r)?;
            job!(IcOps::<K>::op_iter_trace_sf(&r))
        }
        "ic.ops_new" => {
            args!(x, s, t);
            let (x, s, t) = (vus(x)?, rics(s)?, rics(t)?);
            job!(IcOps::<K>::op_ops_new(&x, &s, &t))
        }
        "ic.ops_singleton" => {
            args!(lab, s, t);
            let (lab, s, t) = (us(lab)?, vus(s)?, vus(t)?);
            job!(IcOps::<K>::op_ops_singleton(lab, &s, &t))
        }
        "ic.ops_iter" => {
            args!(x, s, t);
            let (x, s, t) = (vus(x)?, rics(s)?, rics(t)?);
            job!(IcOps::<K>::op_ops_iter(&x, &s, &t))
        }
        "ic.slice_iter" => {
            args!(s);
            let s = rics(s)?;
            job!(IcOps::<K>::op_slice_iter(&s))
        }

        // ---- hg ----------------------------------------------------------------------------
        "hg.new" => {
            args!(s, t, w, x);
            let h = RHG { s: ricf(s)?, t: ricf(t)?, w: vus(w)?, x: vus(x)? };
            job!(StrictOps::<K>::op_hg_new(&h))
        }
        "hg.empty" => {
            args!();
            job!(StrictOps::<K>::op_hg_empty())
        }
        "hg.discrete" => {
            args!(w);
            let w = vus(w)?;
            job!(StrictOps::<K>::op_hg_discrete(&w))
        }
        "hg.is_discrete" => {
            args!(h);
            let h = rhg(h)?;
            job!(StrictOps::<K>::op_hg_is_discrete(&h))
        }
        "hg.coproduct" => {
            args!(g, h);
            let (g, h) = (rhg(g)?, rhg(h)?);
            job!(StrictOps::<K>::op_hg_coproduct(&g, &h))
        }
        "hg.tensor_operations" => {
            args!(x, s, t);
            let (x, s, t) = (vus(x)?, rics(s)?, rics(t)?);
            job!(StrictOps::<K>::op_hg_tensor_operations(&x, &s, &t))
        }
        "hg.in_degree" => {
            args!(h, v);
            let (h, v) = (rhg(h)?, us(v)?);
            job!(StrictOps::<K>::op_hg_in_degree(&h, v))
        }
        "hg.out_degree" => {
            args!(h, v);
            let (h, v) = (rhg(h)?, us(v)?);
            job!(StrictOps::<K>::op_hg_out_degree(&h, v))
        }
        "hg.coequalize_vertices" => {
            args!(h, q);
            let (h, q) = (rhg(h)?, rff(q)?);
            job!(StrictOps::<K>::op_hg_coequalize_vertices(&h, &q))
        }
        "hg.is_acyclic" => {
            args!(h);
            let h = rhg(h)?;
            job!(StrictOps::<K>::op_hg_is_acyclic(&h))
        }

        // ---- oh ----------------------------------------------------------------------------
        "oh.new" => {
            args!(s, t, h);
            let (s, t, h) = (rff(s)?, rff(t)?, rhg(h)?);
            job!(StrictOps::<K>::op_oh_new(&s, &t, &h))
        }
        "oh.singleton" => {
            args!(x, s, t);
            let (x, s, t) = (us(x)?, vus(s)?, vus(t)?);
            job!(StrictOps::<K>::op_oh_singleton(x, &s, &t))
        }
        "oh.tensor_operations" => {
            args!(x, s, t);
            let (x, s, t) = (vus(x)?, rics(s)?, rics(t)?);
            job!(StrictOps::<K>::op_oh_tensor_operations(&x, &s, &t))
        }
        "oh.source" => {
            args!(f);
            let f = roh(f)?;
            job!(StrictOps::<K>::op_oh_source(&f))
        }
        "oh.target" => {
            args!(f);
            let f = roh(f)?;
            job!(StrictOps::<K>::op_oh_target(&f))
        }
        "oh.dagger" => {
            args!(f);
            let f = roh(f)?;
            job!(StrictOps::<K>::op_oh_dagger(&f))
        }
        "oh.identity" => {
            args!(w);
            let w = vus(w)?;
            job!(StrictOps::<K>::op_oh_identity(&w))
        }
        "oh.twist" => {
            args!(w, w2);
            let (w, w2) = (vus(w)?, vus(w2)?);
            job!(StrictOps::<K>::op_oh_twist(&w, &w2))
        }
        "oh.spider" => {
            args!(s, t, w);
            let (s, t, w) = (rff(s)?, rff(t)?, vus(w)?);
            job!(StrictOps::<K>::op_oh_spider(&s, &t, &w))
        }
        "oh.half_spider" => {
            args!(s, w);
            let (s, w) = (rff(s)?, vus(w)?);
            job!(StrictOps::<K>::op_oh_half_spider(&s, &w))
        }
        "oh.tensor" => {
            args!(f, g);
            let (f, g) = (roh(f)?, roh(g)?);
            job!(StrictOps::<K>::op_oh_tensor(&f, &g))
        }
        "oh.compose" => {
            args!(f, g);
            let (f, g) = (roh(f)?, roh(g)?);
            job!(StrictOps::<K>::op_oh_compose(&f, &g))
        }
        "oh.is_monogamous" => {
            args!(f);
            let f = roh(f)?;
            job!(StrictOps::<K>::op_oh_is_monogamous(&f))
        }
        "oh.is_acyclic" => {
            args!(f);
            let f = roh(f)?;
            job!(StrictOps::<K>::op_oh_is_acyclic(&f))
        }

        // ---- law (strict) --------------------------------------------------------------------
        "law.assoc" => {
            args!(f, g, h);
            let (f, g, h) = (roh(f)?, roh(g)?, roh(h)?);
            job!(StrictOps::<K>::law_assoc(&f, &g, &h))
        }
        "law.id_left" => {
            args!(f);
            let f = roh(f)?;
            job!(StrictOps::<K>::law_id_left(&f))
        }
        "law.id_right" => {
            args!(f);
            let f = roh(f)?;
            job!(StrictOps::<K>::law_id_right(&f))
        }
        "law.interchange" => {
            args!(f, g, f2, g2);
            let (f, g, f2, g2) = (roh(f)?, roh(g)?, roh(f2)?, roh(g2)?);
            job!(StrictOps::<K>::law_interchange(&f, &g, &f2, &g2))
        }
        "law.twist_natural" => {
            args!(f, g);
            let (f, g) = (roh(f)?, roh(g)?);
            job!(StrictOps::<K>::law_twist_natural(&f, &g))
        }
        "law.twist_twist" => {
            args!(x, y);
            let (x, y) = (vus(x)?, vus(y)?);
            job!(StrictOps::<K>::law_twist_twist(&x, &y))
        }
        "law.hexagon" => {
            args!(x, y, z);
            let (x, y, z) = (vus(x)?, vus(y)?, vus(z)?);
            job!(StrictOps::<K>::law_hexagon(&x, &y, &z))
        }
        "law.hexagon_mirror" => {
            args!(x, y, z);
            let (x, y, z) = (vus(x)?, vus(y)?, vus(z)?);
            job!(StrictOps::<K>::law_hexagon_mirror(&x, &y, &z))
        }
        "law.dagger_comp" => {
            args!(f, g);
            let (f, g) = (roh(f)?, roh(g)?);
            job!(StrictOps::<K>::law_dagger_comp(&f, &g))
        }
        "law.dagger_dagger:eq" => {
            args!(f);
            let f = roh(f)?;
            job!(StrictOps::<K>::law_dagger_dagger(&f))
        }
        "law.dagger_tensor:eq" => {
            args!(f, g);
            let (f, g) = (roh(f)?, roh(g)?);
            job!(StrictOps::<K>::law_dagger_tensor(&f, &g))
        }
        "law.tensor_assoc:eq" => {
            args!(f, g, h);
            let (f, g, h) = (roh(f)?, roh(g)?, roh(h)?);
            job!(StrictOps::<K>::law_tensor_assoc(&f, &g, &h))
        }
        "law.tensor_unit_left:eq" => {
            args!(f);
            let f = roh(f)?;
            job!(StrictOps::<K>::law_tensor_unit_left(&f))
        }
        "law.tensor_unit_right:eq" => {
            args!(f);
            let f = roh(f)?;
            job!(StrictOps::<K>::law_tensor_unit_right(&f))
        }
        "law.spider_fusion" => {
            args!(s, t, w, s2, t2, w2);
            let (s, t, w, s2, t2, w2) = (rff(s)?, rff(t)?, vus(w)?, rff(s2)?, rff(t2)?, vus(w2)?);
            job!(StrictOps::<K>::law_spider_fusion(&s, &t, &w, &s2, &t2, &w2))
        }
        "law.identity_is_spider" => {
            args!(x);
            let x = vus(x)?;
            job!(StrictOps::<K>::law_identity_is_spider(&x))
        }
        "law.twist_is_spider" => {
            args!(x, y);
            let (x, y) = (vus(x)?, vus(y)?);
            job!(StrictOps::<K>::law_twist_is_spider(&x, &y))
        }

        // ---- graph, eval ---------------------------------------------------------------------
        "graph.converse" => {
            args!(r);
            let r = ricf(r)?;
            job!(GraphOps::<K>::op_converse(&r))
        }
        "graph.operation_adjacency" => {
            args!(h);
            let h = rhg(h)?;
            job!(GraphOps::<K>::op_operation_adjacency(&h))
        }
        "graph.node_adjacency" => {
            args!(h);
            let h = rhg(h)?;
            job!(GraphOps::<K>::op_node_adjacency(&h))
        }
        "graph.indegree" => {
            args!(r);
            let r = ricf(r)?;
            job!(GraphOps::<K>::op_indegree(&r))
        }
        "graph.dense_relative_indegree" => {
            args!(r, f);
            let (r, f) = (ricf(r)?, rff(f)?);
            job!(GraphOps::<K>::op_dense_relative_indegree(&r, &f))
        }
        "graph.sparse_relative_indegree" => {
            args!(r, f);
            let (r, f) = (ricf(r)?, rff(f)?);
            job!(GraphOps::<K>::op_sparse_relative_indegree(&r, &f))
        }
        "graph.kahn" => {
            args!(r);
            let r = ricf(r)?;
            job!(GraphOps::<K>::op_kahn(&r))
        }
        "graph.layer" => {
            args!(f);
            let f = roh(f)?;
            job!(GraphOps::<K>::op_layer(&f))
        }
        "graph.layered_operations" => {
            args!(f);
            let f = roh(f)?;
            job!(GraphOps::<K>::op_layered_operations(&f))
        }
        "graph.arrow_new" => {
            args!(g, h, w, x);
            let (g, h, w, x) = (rhg(g)?, rhg(h)?, rff(w)?, rff(x)?);
            job!(GraphOps::<K>::op_arrow_new(&g, &h, &w, &x))
        }
        "graph.is_monomorphism" => {
            args!(g, h, w, x);
            let (g, h, w, x) = (rhg(g)?, rhg(h)?, rff(w)?, rff(x)?);
            job!(GraphOps::<K>::op_is_monomorphism(&g, &h, &w, &x))
        }
        "graph.is_convex_subgraph" => {
            args!(g, h, w, x);
            let (g, h, w, x) = (rhg(g)?, rhg(h)?, rff(w)?, rff(x)?);
            job!(GraphOps::<K>::op_is_convex_subgraph(&g, &h, &w, &x))
        }
        "eval.eval" => {
            args!(f, inputs);
            let (f, inputs) = (roh(f)?, v64(inputs)?);
            job!(GraphOps::<K>::eval_logged(&f, &inputs))
        }

        // ---- functors, optics, Var -------------------------------------------------------------
        "functor.identity_map_arrow" => {
            args!(f);
            let f = roh(f)?;
            job!(fun::op_identity_map_arrow::<K>(&f))
        }
        // the remaining ops are written against the Vec backend (as in the generator)
        "functor.dyn_map_object" => {
            args!(ov, x);
            let (ov, x) = (us(ov)?, vus(x)?);
            job!(fun::op_dyn_map_object(ov, &x))
        }
        "functor.dyn_map_arrow" => {
            args!(ov, pv, f);
            let (ov, pv, f) = (us(ov)?, us(pv)?, roh(f)?);
            job!(fun::op_dyn_map_arrow(ov, pv, &f))
        }
        "lax.functor.map_arrow" => {
            args!(ov, pv, f);
            let (ov, pv, f) = (us(ov)?, us(pv)?, rlf(f)?);
            job!(fun::op_lax_functor_map_arrow(ov, pv, &f))
        }
        "lax.functor.try_map_arrow" => {
            args!(ov, pv, f);
            let (ov, pv, f) = (us(ov)?, us(pv)?, rlf(f)?);
            job!(fun::op_lax_functor_try_map_arrow(ov, pv, &f))
        }
        "lax.functor.map_arrow_witness" => {
            args!(ov, pv, f);
            let (ov, pv, f) = (us(ov)?, us(pv)?, rlf(f)?);
            job!(fun::op_lax_functor_map_arrow_witness(ov, pv, &f))
        }
        "lax.optic.map_arrow" => {
            args!(fov, rov, f);
            let (fov, rov, f) = (us(fov)?, us(rov)?, rlf(f)?);
            job!(fun::op_lax_optic_map_arrow(fov, rov, &f))
        }
        "lax.optic.map_adapted" => {
            args!(fov, rov, f);
            let (fov, rov, f) = (us(fov)?, us(rov)?, rlf(f)?);
            job!(fun::op_lax_optic_map_adapted(fov, rov, &f))
        }
        "optic.deriv" => {
            args!(f, x, dy);
            let (f, x, dy) = (rlf(f)?, v64(x)?, v64(dy)?);
            job!(fun::op_optic_deriv(&f, &x, &dy))
        }
        "var.build" => {
            args!(n_in, p, outs, leak);
            let (n_in, p, outs, leak) = (us(n_in)?, prog(p)?, vus(outs)?, boolean(leak)?);
            job!(fun::op_var_build(n_in, &p, &outs, leak))
        }
        "var.forget" => {
            args!(f);
            let f = rlf(f)?;
            job!(fun::op_var_forget(&f))
        }
        "var.forget_monogamous" => {
            args!(f);
            let f = rlf(f)?;
            job!(fun::op_var_forget_monogamous(&f))
        }

        // ---- lax: histories, category ops, JSON -------------------------------------------------
        "lax.edit" | "lax.quot" => {
            args!(start, ops);
            let (start, ops) = (rlf(start)?, steps(ops)?);
            job!(lax::replay_history(&start, &ops))
        }
        "lax.from_strict" => {
            args!(f);
            let f = roh(f)?;
            job!(lax::op_from_strict(&f))
        }
        "lax.to_strict" => {
            args!(f);
            let f = rlf(f)?;
            job!(lax::op_to_strict(&f))
        }
        "lax.to_hypergraph" => {
            args!(h);
            let h = rlh(h)?;
            job!(lax::op_to_hypergraph(&h))
        }
        "lax.identity" => {
            args!(x);
            let x = vus(x)?;
            job!(lax::op_identity(x))
        }
        "lax.twist" => {
            args!(x, y);
            let (x, y) = (vus(x)?, vus(y)?);
            job!(lax::op_twist(x, y))
        }
        "lax.singleton" => {
            args!(lab, x, y);
            let (lab, x, y) = (us(lab)?, vus(x)?, vus(y)?);
            job!(lax::op_singleton(lab, x, y))
        }
        "lax.spider" => {
            args!(s, t, w);
            let (s, t, w) = (rff(s)?, rff(t)?, vus(w)?);
            job!(lax::op_spider(&s, &t, w))
        }
        "lax.tensor" => {
            args!(f, g);
            let (f, g) = (rlf(f)?, rlf(g)?);
            job!(lax::op_tensor(&f, &g))
        }
        "lax.tensor_assign" => {
            args!(f, g);
            let (f, g) = (rlf(f)?, rlf(g)?);
            job!(lax::op_tensor_assign(&f, &g))
        }
        "lax.append" => {
            args!(f, g);
            let (f, g) = (rlf(f)?, rlf(g)?);
            job!(lax::op_append(&f, &g))
        }
        "lax.coproduct_assign" => {
            args!(g, h);
            let (g, h) = (rlh(g)?, rlh(h)?);
            job!(lax::op_coproduct_assign(&g, &h))
        }
        "lax.compose" => {
            args!(f, g);
            let (f, g) = (rlf(f)?, rlf(g)?);
            job!(lax::op_compose(&f, &g))
        }
        "lax.lax_compose" => {
            args!(f, g);
            let (f, g) = (rlf(f)?, rlf(g)?);
            job!(lax::op_lax_compose(&f, &g))
        }
        "lax.json" => {
            args!(f);
            let f = rlf(f)?;
            job!(lax::op_json(&f))
        }
        "lax.dagger" => {
            args!(f);
            let f = rlf(f)?;
            job!(lax::op_dagger(&f))
        }
        "lax.source" => {
            args!(f);
            let f = rlf(f)?;
            job!(lax::op_source(&f))
        }
        "lax.target" => {
            args!(f);
            let f = rlf(f)?;
            job!(lax::op_target(&f))
        }

        // ---- law (lax vs strict) -----------------------------------------------------------------
        "law.to_from_strict:eq" => {
            args!(f);
            let f = roh(f)?;
            job!(lax::law_to_from_strict(&f))
        }
        "law.tensor_assign_eq:lax-eq" => {
            args!(f, g);
            let (f, g) = (rlf(f)?, rlf(g)?);
            job!(lax::law_tensor_assign_eq(&f, &g))
        }
        "law.append_eq:lax-eq" => {
            args!(f, g);
            let (f, g) = (rlf(f)?, rlf(g)?);
            job!(lax::law_append_eq(&f, &g))
        }
        "law.coproduct_assign_eq:lax-eq" => {
            args!(f, g);
            let (f, g) = (rlf(f)?, rlf(g)?);
            job!(lax::law_coproduct_assign_eq(&f, &g))
        }
        "law.from_to_strict:lax-eq" => {
            args!(f);
            let f = rlf(f)?;
            job!(lax::law_from_to_strict(&f))
        }
        "law.strict_compose" => {
            args!(f, g);
            let (f, g) = (rlf(f)?, rlf(g)?);
            job!(lax::law_strict_compose(&f, &g))
        }
        "law.strict_tensor" => {
            args!(f, g);
            let (f, g) = (rlf(f)?, rlf(g)?);
            job!(lax::law_strict_tensor(&f, &g))
        }
        "law.lax_dagger_comp3" => {
            args!(f, g, h);
            let (f, g, h) = (rlf(f)?, rlf(g)?, rlf(h)?);
            job!(lax::law_lax_dagger_comp3(&f, &g, &h))
        }
        "law.strict_dagger" => {
            args!(f);
            let f = rlf(f)?;
            job!(lax::law_strict_dagger(&f))
        }
        "law.strict_identity" => {
            args!(x);
            let x = vus(x)?;
            job!(lax::law_strict_identity(&x))
        }
        "law.strict_twist" => {
            args!(x, y);
            let (x, y) = (vus(x)?, vus(y)?);
            job!(lax::law_strict_twist(&x, &y))
        }
        "law.strict_singleton" => {
            args!(lab, x, y);
            let (lab, x, y) = (us(lab)?, vus(x)?, vus(y)?);
            job!(lax::law_strict_singleton(lab, &x, &y))
        }
        "law.lax_spider_fusion" => {
            args!(s, t, w, s2, t2, w2);
            let (s, t, w, s2, t2, w2) = (rff(s)?, rff(t)?, vus(w)?, rff(s2)?, rff(t2)?, vus(w2)?);
            job!(lax::law_lax_spider_fusion(&s, &t, &w, &s2, &t2, &w2))
        }

        _ => Err(Why::UnknownOp),
    }
}

// ---------------------------------------------------------------------------------------------
// driver

fn split_backend(op: &str) -> (u8, &'static str, &str) {
    if let Some(r) = op.strip_prefix("adv1:") {
        (1, "adv1:", r)
    } else if let Some(r) = op.strip_prefix("adv2:") {
        (2, "adv2:", r)
    } else {
        (0, "", op)
    }
}

/// re-execute one line; appends exactly one line to `c.out` (none for skipped lines)
pub fn replay_line(c: &mut Ctx, text: &str) {
    let Some(line) = parse_line(text) else { return };
    let (backend, prefix, bare) = split_backend(&line.op);
    let attempt: R<(usize, Vec<Sx>, Job)> = (|| {
        let id: usize = line.id.parse().map_err(|_| BAD)?;
        let args = line.args.clone().map_err(|_| BAD)?;
        let j = match backend {
            0 => job::<VecKind>(bare, &args)?,
            1 => job::<AdvKind<1>>(bare, &args)?,
            _ => job::<AdvKind<2>>(bare, &args)?,
        };
        Ok((id, args, j))
    })();
    match attempt {
        Ok((id, args, j)) => {
            c.prefix = prefix;
            c.id = id.wrapping_sub(1);
            c.emit(bare, args, j);
        }
        Err(why) => {
            if why == Why::UnknownOp {
                eprintln!("replay: unknown op {} (case {})", line.op, line.id);
            } else {
                eprintln!("replay: undecodable arguments of {} (case {})", line.op, line.id);
            }
            *c.stats.entry(bare.to_string()).or_default().entry("undecodable").or_insert(0) += 1;
            let args_text = match &line.args {
                Ok(xs) => Sx::L(xs.clone()).to_string(),
                Err(raw) => raw.clone(),
            };
            c.out.push_str(&format!("{} {} {} undecodable\n", line.id, line.op, args_text));
        }
    }
}

/// `--replay-file <path>` (`-`: standard input)
pub fn run_file(c: &mut Ctx, path: &str) -> std::io::Result<()> {
    let text = if path == "-" {
        let mut s = String::new();
        std::io::Read::read_to_string(&mut std::io::stdin(), &mut s)?;
        s
    } else {
        std::fs::read_to_string(path)?
    };
    // written line by line: an allocation failure inside the library aborts the process (it is
    // not a panic), and the cases replayed so far should not be lost with it
    let stdout = std::io::stdout();
    for line in text.lines() {
        replay_line(c, line);
        if !c.out.is_empty() {
            use std::io::Write;
            let mut lock = stdout.lock();
            lock.write_all(c.out.as_bytes())?;
            lock.flush()?;
            c.out.clear();
        }
    }
    Ok(())
}
