//! Canonical text encoding shared with the Lean driver: s-expressions over naturals and symbols.
use std::fmt::Write;

#[derive(Clone, Debug, PartialEq)]
pub enum Sx {
    N(u128),
    S(&'static str),
    /// a text atom without spaces or parentheses (compact JSON)
    Str(String),
    L(Vec<Sx>),
}

impl Sx {
    pub fn write(&self, out: &mut String) {
        match self {
            Sx::N(v) => {
                let _ = write!(out, "{}", v);
            }
            Sx::S(s) => out.push_str(s),
            Sx::Str(s) => out.push_str(s),
            Sx::L(xs) => {
                out.push('(');
                for (i, x) in xs.iter().enumerate() {
                    if i > 0 {
                        out.push(' ');
                    }
                    x.write(out);
                }
                out.push(')');
            }
        }
    }
    pub fn to_string(&self) -> String {
        let mut s = String::new();
        self.write(&mut s);
        s
    }
    /// number of atoms (a size measure used for the non-triviality rule)
    pub fn atoms(&self) -> usize {
        match self {
            Sx::L(xs) => xs.iter().map(|x| x.atoms()).sum(),
            _ => 1,
        }
    }
}

pub fn n(v: usize) -> Sx {
    Sx::N(v as u128)
}
pub fn b(v: bool) -> Sx {
    Sx::S(if v { "true" } else { "false" })
}
pub fn l(v: &[usize]) -> Sx {
    Sx::L(v.iter().map(|x| n(*x)).collect())
}
pub fn ll(v: &[Vec<usize>]) -> Sx {
    Sx::L(v.iter().map(|x| l(x)).collect())
}
pub fn list(v: Vec<Sx>) -> Sx {
    Sx::L(v)
}
pub fn ok(x: Sx) -> Sx {
    Sx::L(vec![Sx::S("ok"), x])
}
pub fn none() -> Sx {
    Sx::S("none")
}
pub fn opt(x: Option<Sx>) -> Sx {
    match x {
        Some(x) => ok(x),
        None => none(),
    }
}
/// Lean's `Enc (Option α)`
pub fn optval(x: Option<Sx>) -> Sx {
    match x {
        Some(x) => Sx::L(vec![Sx::S("some"), x]),
        None => Sx::S("nil"),
    }
}
pub fn err(variant: &'static str) -> Sx {
    Sx::L(vec![Sx::S("err"), Sx::S(variant)])
}
