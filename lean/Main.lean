import OHVerif.Model.Dispatch
open OH

partial def loop (h : IO.FS.Stream) (out : IO.FS.Stream) : IO Unit := do
  let line ← h.getLine
  if line.isEmpty then return ()
  let t := line.trimAscii.toString
  if t.isEmpty || t.startsWith "#" then loop h out
  else
    out.putStrLn (Drv.verdictLine t)
    loop h out

def main : IO Unit := do
  let stdin ← IO.getStdin
  let stdout ← IO.getStdout
  loop stdin stdout
