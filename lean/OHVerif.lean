import OHVerif.Model.Dispatch
import OHVerif.Spec.Lawful
