import OHVerif.Model.Dispatch
import OHVerif.Spec.Lawful
import OHVerif.Spec.Diagram
import OHVerif.Lemmas.VecBackend
import OHVerif.Lemmas.Prim
import OHVerif.Lemmas.FinFun
import OHVerif.Props.C06
import OHVerif.Props.C07
