import OHVerif.Model.Dispatch
