/-
  `converse`, `operationAdjacency`, `nodeAdjacency` (src/strict/graph.rs) characterised for every
  lawful backend: the converse of a relation given as a segmented array, and the two adjacency
  relations of a hypergraph derived from it.
-/
import Mathlib.Data.List.Perm.Basic
import OHVerif.Lemmas.Segs
import OHVerif.Props.C08
import OHVerif.Lemmas.Kahn

namespace OH.Graph
open OH OH.Prim

variable {β : Type}

/-! ### a list sorted by a key splits into its key classes -/

theorem sorted_split (key : β → Nat) (a : Nat) (l : List β)
    (hs : (l.map key).Pairwise (· ≤ ·)) (hge : ∀ x ∈ l, a ≤ key x) :
    l = l.filter (fun x => key x = a) ++ l.filter (fun x => !decide (key x = a)) := by
  induction l with
  | nil => rfl
  | cons x xs ih =>
    have hs' : (xs.map key).Pairwise (· ≤ ·) := (List.pairwise_cons.1 hs).2
    have hx : ∀ y ∈ xs, key x ≤ key y := fun y hy =>
      (List.pairwise_cons.1 hs).1 (key y) (List.mem_map.2 ⟨y, hy, rfl⟩)
    by_cases hxa : key x = a
    · have ih' := ih hs' (fun y hy => hge y (by simp [hy]))
      simp only [List.filter_cons, hxa, decide_true, if_true, Bool.not_true, Bool.false_eq_true,
        if_false, List.cons_append]
      exact congrArg (x :: ·) ih'
    · have hgt : a < key x := Nat.lt_of_le_of_ne (hge x (by simp)) (fun e => hxa e.symm)
      have h1 : xs.filter (fun y => key y = a) = [] := by
        rw [List.filter_eq_nil_iff]
        intro y hy
        have := hx y hy
        simp only [decide_eq_true_eq]
        omega
      have h2 : xs.filter (fun y => !decide (key y = a)) = xs := by
        rw [List.filter_eq_self]
        intro y hy
        have := hx y hy
        simp only [Bool.not_eq_eq_eq_not, Bool.not_true, decide_eq_false_iff_not]
        omega
      rw [List.filter_cons, List.filter_cons, h1, h2]
      simp [hxa]

theorem splitSegs_sorted (key : β → Nat) (m : Nat) : ∀ (a : Nat) (l : List β),
    (l.map key).Pairwise (· ≤ ·) → (∀ x ∈ l, a ≤ key x) →
    splitSegs ((List.range' a m).map (fun j => (l.filter (fun x => key x = j)).length)) l =
      (List.range' a m).map (fun j => l.filter (fun x => key x = j)) := by
  induction m with
  | zero => intro a l _ _; rfl
  | succ m ih =>
    intro a l hs hge
    have hsplit := sorted_split key a l hs hge
    set F := l.filter (fun x => key x = a) with hF
    set G := l.filter (fun x => !decide (key x = a)) with hG
    have hGs : (G.map key).Pairwise (· ≤ ·) :=
      hs.sublist ((List.filter_sublist).map key)
    have hGge : ∀ x ∈ G, a + 1 ≤ key x := by
      intro x hx
      obtain ⟨hx1, hx2⟩ := List.mem_filter.1 hx
      have := hge x hx1
      simp only [Bool.not_eq_eq_eq_not, Bool.not_true, decide_eq_false_iff_not] at hx2
      omega
    have hGf : ∀ j ∈ List.range' (a + 1) m, G.filter (fun x => key x = j) =
        l.filter (fun x => key x = j) := by
      intro j hj
      have hja : a < j := by have := (List.mem_range'_1.1 hj).1; omega
      rw [hG, List.filter_filter]
      apply List.filter_congr
      intro x _
      by_cases hxj : key x = j
      · simp [hxj]; omega
      · simp [hxj]
    have ih' := ih (a + 1) G hGs hGge
    rw [List.range'_succ, List.map_cons, List.map_cons, splitSegs_cons]
    have htake : l.take F.length = F := by
      conv_lhs => rw [hsplit]
      simp
    have hdrop : l.drop F.length = G := by
      conv_lhs => rw [hsplit]
      simp
    rw [htake, hdrop]
    congr 1
    rw [← List.map_congr_left (fun j hj => congrArg List.length (hGf j hj)),
      ← List.map_congr_left hGf]
    exact ih'

/-! ### counting in the pair list of a relation -/

theorem count_zip_replicate (a i j : Nat) (seg : List Nat) :
    ((List.replicate seg.length a).zip seg).count (i, j) = if i = a then seg.count j else 0 := by
  induction seg with
  | nil => simp
  | cons y ys ih =>
    simp only [List.length_cons, List.replicate_succ, List.zip_cons_cons, List.count_cons, ih,
      beq_iff_eq, Prod.mk.injEq]
    by_cases hia : i = a
    · by_cases hyj : y = j <;> simp [hia, hyj]
    · have hai : ¬ a = i := fun e => hia e.symm
      by_cases hyj : y = j <;> simp [hia, hai, hyj]

/-- the relation `{(i, j) | j ∈ L[i]}` laid out as `repeat`ed segment numbers zipped with the
    values: `(i, j)` occurs as often as `j` occurs in `L[i]` -/
theorem count_pairs (L : List (List Nat)) (a i j : Nat) :
    ((repeatP (L.map List.length) (List.range' a L.length)).zip L.flatten).count (i, j) =
      if a ≤ i then (L.getD (i - a) []).count j else 0 := by
  induction L generalizing a with
  | nil => simp [repeatP]
  | cons seg L ih =>
    rw [List.length_cons, List.range'_succ, List.map_cons, repeatP, List.flatten_cons,
      List.zip_append (by simp), List.count_append, count_zip_replicate, ih]
    by_cases h1 : i = a
    · subst h1
      simp
    · by_cases h2 : a ≤ i
      · have h3 : a + 1 ≤ i := by omega
        have h4 : i - a = (i - (a + 1)) + 1 := by omega
        simp [h1, h2, h3, h4]
      · have h3 : ¬ a + 1 ≤ i := by omega
        simp [h1, h2, h3]

theorem count_filter_map_fst (l : List (Nat × Nat)) (i j : Nat) :
    ((l.filter (fun p => p.2 = j)).map (·.1)).count i = l.count (i, j) := by
  induction l with
  | nil => rfl
  | cons p l ih =>
    obtain ⟨p1, p2⟩ := p
    by_cases h2 : p2 = j <;> by_cases h1 : p1 = i <;>
      simp [ih, h1, h2]

/-! ### small facts about `bincount` and `repeat` -/

theorem length_filter_lt_succ (xs : List Nat) (T : Nat) :
    (xs.filter (· < T + 1)).length = (xs.filter (· < T)).length + xs.count T := by
  induction xs with
  | nil => rfl
  | cons x xs ih =>
    simp only [List.filter_cons, List.count_cons, beq_iff_eq]
    by_cases h1 : x < T
    · have h2 : x < T + 1 := by omega
      have h3 : ¬ x = T := by omega
      simp [h1, h2, h3, ih]
      omega
    · by_cases h3 : x = T
      · subst h3
        simp [ih]
        omega
      · have h2 : ¬ x < T + 1 := by omega
        simp [h1, h2, h3, ih]

theorem sum_bincount (xs : List Nat) (T : Nat) :
    ((List.range T).map (fun v => xs.count v)).sum = (xs.filter (· < T)).length := by
  induction T with
  | zero => simp
  | succ T ih =>
    rw [List.range_succ, List.map_append, List.sum_append, ih, length_filter_lt_succ]
    simp

theorem sum_bincount_of_lt (xs : List Nat) (T : Nat) (h : ∀ x ∈ xs, x < T) :
    ((List.range T).map (fun v => xs.count v)).sum = xs.length := by
  rw [sum_bincount, List.filter_eq_self.2 (fun x hx => by simpa using h x hx)]

theorem mem_repeatP {α : Type} (ks : List Nat) (xs : List α) (y : α) (h : y ∈ repeatP ks xs) :
    y ∈ xs := by
  induction ks generalizing xs with
  | nil => simp [repeatP] at h
  | cons k ks ih =>
    cases xs with
    | nil => simp [repeatP] at h
    | cons x xs =>
      simp only [repeatP, List.mem_append, List.mem_replicate] at h
      rcases h with ⟨_, rfl⟩ | h
      · simp
      · exact List.mem_cons_of_mem _ (ih xs h)

/-! ### converse -/

/-- the value array `converse` produces: position `p` of the flat value array of `r` is labelled
    with the number of the segment it lies in, and the labels are listed in the order in which
    `argsort` arranges the values -/
def converseValues (B : Backend) (r : IC FinFun) : List Nat :=
  (B.argsort r.values.table).map
    (fun p => (repeatP r.sources.table (List.range r.len)).getD p 0)

theorem wf_unpack' (r : IC FinFun) (hr : r.wf = true) :
    r.valid = true ∧ r.sources.WF ∧ r.values.WF := by
  simp only [IC.wf, Bool.and_eq_true] at hr
  exact ⟨hr.1.1, (FinFun.wf_iff _).1 hr.1.2, (FinFun.wf_iff _).1 hr.2⟩

theorem wf_pack (r : IC FinFun) (h1 : r.valid = true) (h2 : r.sources.WF) (h3 : r.values.WF) :
    r.wf = true := by
  simp only [IC.wf, Bool.and_eq_true]
  exact ⟨⟨h1, (FinFun.wf_iff _).2 h2⟩, (FinFun.wf_iff _).2 h3⟩

theorem unsorted_length (r : IC FinFun) (hv : r.valid = true) :
    (repeatP r.sources.table (List.range r.len)).length = r.values.table.length := by
  rw [repeatP_length _ _ (by simp [IC.len, FinFun.source])]
  exact ((IC.valid_iff r).1 hv).2

theorem converseValues_lt (B : Backend) (hB : B.Lawful) (r : IC FinFun) (hv : r.valid = true) :
    ∀ x ∈ converseValues B r, x < r.len := by
  intro x hx
  obtain ⟨p, hp, rfl⟩ := List.mem_map.1 hx
  have hp' : p < r.values.table.length :=
    List.mem_range.1 ((hB.argsort_perm r.values.table).mem_iff.1 hp)
  rw [← unsorted_length r hv] at hp'
  rw [List.getD_eq_getElem?_getD, List.getElem?_eq_getElem hp', Option.getD_some]
  exact List.mem_range.1 (mem_repeatP _ _ _ (List.getElem_mem hp'))

/-- closed form of `converse`: it returns for every well-formed argument -/
theorem converse_eq (B : Backend) (hB : B.Lawful) (r : IC FinFun) (hr : r.wf = true) :
    converse B r = .ok
      ⟨⟨(List.range r.values.target).map (fun v => r.values.table.count v),
          r.values.table.length + 1⟩,
       ⟨converseValues B r, r.len⟩⟩ := by
  obtain ⟨hv, _, hvw⟩ := wf_unpack' r hr
  have hul : (repeatP r.sources.table (List.range r.sources.source)).length =
      r.values.table.length := unsorted_length r hv
  have hperm := hB.argsort_perm r.values.table
  unfold converse
  rw [FinFun.arange_zero, Res.ok_bind,
    Prim.repeat_ok' _ _ (by simp [FinFun.source]), Res.ok_bind,
    (sortBy_ok B _ _ hperm hul).1, Res.ok_bind, bincount_ok _ _ hvw, Res.ok_bind]
  have hg : gatherP (repeatP r.sources.table (List.range r.sources.source))
      (B.argsort r.values.table) = converseValues B r := by
    apply FinFun.gatherP_eq_map
    intro i hi
    have hi' : i < r.values.table.length := List.mem_range.1 (hperm.mem_iff.1 hi)
    rw [← hul] at hi'
    show _ = some ((repeatP r.sources.table (List.range r.sources.source)).getD i 0)
    rw [List.getD_eq_getElem?_getD, List.getElem?_eq_getElem hi']
    rfl
  rw [hg, IC.finfun_new_ok _ _ (by
      intro x hx
      obtain ⟨v, _, rfl⟩ := List.mem_map.1 hx
      exact Nat.lt_succ_of_le List.count_le_length),
    Res.unwrap_ok, Res.ok_bind, IC.finfun_new_ok _ _ (converseValues_lt B hB r hv),
    Res.unwrap_ok, Res.ok_bind]
  have hvalid : (⟨⟨(List.range r.values.target).map (fun v => r.values.table.count v),
      r.values.table.length + 1⟩, ⟨converseValues B r, r.len⟩⟩ : IC FinFun).valid = true := by
    apply IC.mk_valid
    · simp only [sum_bincount_of_lt _ _ hvw]
    · simp only [sum_bincount_of_lt _ _ hvw]
      simp [converseValues, (hperm.length_eq)]
  rw [IC.new, IC.validate_ok _ hvalid]
  rfl

theorem length_filter_key (key : β → Nat) (l : List β) (j : Nat) :
    (l.filter (fun x => key x = j)).length = (l.map key).count j := by
  induction l with
  | nil => rfl
  | cons x xs ih =>
    by_cases h : key x = j <;> simp [h, ih]

theorem range_map_getD_pair (u v : List Nat) (n : Nat) (hu : u.length = n) (hv : v.length = n) :
    (List.range n).map (fun p => (u.getD p 0, v.getD p 0)) = u.zip v := by
  apply List.ext_getElem
  · simp [hu, hv]
  · intro k h1 h2
    simp only [List.length_map, List.length_range] at h1
    simp [List.getD_eq_getElem?_getD, List.getElem?_eq_getElem (hu ▸ h1 : k < u.length),
      List.getElem?_eq_getElem (hv ▸ h1 : k < v.length)]

theorem count_flatMap_replicate (n a : Nat) (f : Nat → Nat) :
    ((List.range n).flatMap (fun i => List.replicate (f i) i)).count a =
      if a < n then f a else 0 := by
  induction n with
  | zero => simp
  | succ n ih =>
    rw [List.range_succ, List.flatMap_append, List.count_append, ih]
    by_cases h1 : a < n
    · have h2 : ¬ n = a := by omega
      have h3 : a < n + 1 := by omega
      simp [h1, h2, h3, List.count_replicate]
    · by_cases h2 : n = a
      · subst h2
        simp
      · have h3 : ¬ a < n + 1 := by omega
        simp [h1, h2, h3, List.count_replicate]

/-- the segments of the result of `converse`, up to the order inside each segment -/
theorem converse_segs_count (B : Backend) (hB : B.Lawful) (r : IC FinFun) (hr : r.wf = true)
    (i j : Nat) :
    ((splitSegs ((List.range r.values.target).map (fun v => r.values.table.count v))
        (converseValues B r)).getD j []).count i = (r.segs.getD i []).count j := by
  obtain ⟨hv, _, hvw⟩ := wf_unpack' r hr
  have hul := unsorted_length r hv
  have hperm := hB.argsort_perm r.values.table
  set u := repeatP r.sources.table (List.range r.len) with hu
  set vals := r.values.table with hvals
  -- the pair list in the order chosen by `argsort`
  set l : List (Nat × Nat) := (B.argsort vals).map (fun p => (u.getD p 0, vals.getD p 0)) with hl
  have hlperm : l.Perm (u.zip vals) := by
    rw [← range_map_getD_pair u vals vals.length hul rfl]
    exact hperm.map _
  have hfst : converseValues B r = l.map (·.1) := by
    rw [hl, List.map_map]
    rfl
  have hsnd : l.map (·.2) = (B.argsort vals).map (fun p => vals.getD p 0) := by
    simp [hl, List.map_map, Function.comp_def]
  have hsorted : (l.map (·.2)).Pairwise (· ≤ ·) := by
    rw [hsnd]; exact hB.argsort_sorted vals
  have hsndperm : (l.map (·.2)).Perm vals := by
    have := (hlperm.map (·.2))
    rwa [List.map_snd_zip (Nat.le_of_eq hul.symm)] at this
  have hcounts : (List.range r.values.target).map (fun v => vals.count v) =
      (List.range' 0 r.values.target).map
        (fun j => (l.filter (fun x => x.2 = j)).length) := by
    rw [List.range_eq_range']
    apply List.map_congr_left
    intro v _
    rw [length_filter_key (·.2) l v, hsndperm.count_eq]
  rw [hcounts, hfst, splitSegs_map, splitSegs_sorted (·.2) _ 0 l hsorted (fun _ _ => Nat.zero_le _)]
  by_cases hj : j < r.values.target
  · rw [List.getD_eq_getElem?_getD, List.getElem?_map, List.getElem?_map,
      ← List.range_eq_range', List.getElem?_range hj]
    simp only [Option.map_some, Option.getD_some]
    rw [((hlperm.filter _).map _).count_eq, count_filter_map_fst]
    have h1 := IC.segs_map_length r hv
    have h2 := IC.segs_flatten r hv
    have h3 := IC.segs_length r
    have := count_pairs r.segs 0 i j
    rw [h1, h2, h3, ← List.range_eq_range'] at this
    simpa using this
  · rw [List.getD_eq_getElem?_getD, List.getElem?_eq_none (by simp; omega)]
    simp only [Option.getD_none, List.count_nil]
    symm
    rw [List.count_eq_zero]
    intro hmem
    apply hj
    apply hvw
    rw [← IC.segs_flatten r hv, List.mem_flatten]
    refine ⟨r.segs.getD i [], ?_, hmem⟩
    rw [List.getD_eq_getElem?_getD] at hmem ⊢
    cases h : r.segs[i]? with
    | none => rw [h] at hmem; simp at hmem
    | some seg => exact List.mem_of_getElem? h

/-- **`converse`** returns for every well-formed relation `r` (segment `i` lists the `j` related
    to `i`) the converse relation: a well-formed segmented array with one segment per possible
    value `j`, in which `i` occurs exactly as often as `j` occurs in segment `i` of `r`.
    Equivalently every segment is a permutation of the increasing list (with multiplicity) of the
    `i` whose segment contains `j`; the order inside a segment depends on how `argsort` breaks
    ties and is not determined by the array contract. -/
theorem converse_spec (B : Backend) (hB : B.Lawful) (r : IC FinFun) (hr : r.wf = true) :
    ∃ c, converse B r = .ok c ∧ c.wf = true ∧ c.len = r.values.target ∧
      c.values.target = r.len ∧ c.values.table.length = r.values.table.length ∧
      (∀ i j, (c.segs.getD j []).count i = (r.segs.getD i []).count j) ∧
      (∀ j, (c.segs.getD j []).Perm
        ((List.range r.len).flatMap (fun i => List.replicate ((r.segs.getD i []).count j) i))) := by
  obtain ⟨hv, _, hvw⟩ := wf_unpack' r hr
  have hcount := converse_segs_count B hB r hr
  refine ⟨_, converse_eq B hB r hr, ?_, ?_, rfl, ?_, hcount, ?_⟩
  · apply wf_pack
    · apply IC.mk_valid
      · simp only [sum_bincount_of_lt _ _ hvw]
      · simp only [sum_bincount_of_lt _ _ hvw]
        simp [converseValues, (hB.argsort_perm r.values.table).length_eq]
    · intro x hx
      obtain ⟨v, _, rfl⟩ := List.mem_map.1 hx
      exact Nat.lt_succ_of_le List.count_le_length
    · exact converseValues_lt B hB r hv
  · simp [IC.len, FinFun.source]
  · simp [converseValues, (hB.argsort_perm r.values.table).length_eq]
  · intro j
    rw [List.perm_iff_count]
    intro i
    rw [count_flatMap_replicate]
    show ((splitSegs _ _).getD j []).count i = _
    rw [hcount i j]
    by_cases hi : i < r.len
    · simp [hi]
    · rw [if_neg hi, List.getD_eq_getElem?_getD,
        List.getElem?_eq_none (by rw [IC.segs_length]; omega)]
      rfl

example : (⟨⟨[2, 0, 3], 6⟩, ⟨[1, 3, 0, 1, 1], 4⟩⟩ : IC FinFun).wf = true ∧
    (⟨⟨[2, 0, 3], 6⟩, ⟨[1, 3, 0, 1, 1], 4⟩⟩ : IC FinFun).segs = [[1, 3], [], [0, 1, 1]] := by
  decide

/-! ### hypergraphs: unpacking well-formedness, the plain edge list -/

variable {O A : Type}

theorem hg_wf_unpack (h : HG O A) (hwf : h.wf = true) :
    h.s.wf = true ∧ h.t.wf = true ∧ h.s.len = h.x.length ∧ h.t.len = h.x.length ∧
      h.s.values.target = h.w.length ∧ h.t.values.target = h.w.length := by
  simp only [HG.wf, Bool.and_eq_true, beq_iff_eq] at hwf
  obtain ⟨⟨⟨⟨⟨h1, h2⟩, h3⟩, h4⟩, h5⟩, h6⟩ := hwf
  exact ⟨h1, h2, h3, h4, h5, h6⟩

theorem toPlainEdges_length (h : HG O A) (hwf : h.wf = true) :
    h.toPlainEdges.length = h.x.length := by
  obtain ⟨_, _, h3, h4, _, _⟩ := hg_wf_unpack h hwf
  simp [HG.toPlainEdges, IC.segs_length, h3, h4]

/-- edge number `x` of the plain view: label, source list and target list of operation `x` -/
theorem toPlainEdges_getElem? (h : HG O A) (hwf : h.wf = true) (x : Nat) (e : PEdge A) :
    h.toPlainEdges[x]? = some e ↔
      x < h.x.length ∧ h.x[x]? = some e.label ∧ e.src = h.s.segs.getD x [] ∧
        e.tgt = h.t.segs.getD x [] := by
  obtain ⟨_, _, h3, h4, _, _⟩ := hg_wf_unpack h hwf
  have hs := IC.segs_length h.s
  have ht := IC.segs_length h.t
  by_cases hx : x < h.x.length
  · have hxs : x < h.s.segs.length := by omega
    have hxt : x < h.t.segs.length := by omega
    have hx' : x < h.toPlainEdges.length := by rw [toPlainEdges_length h hwf]; exact hx
    have hval : h.toPlainEdges[x] = ⟨h.x[x], h.s.segs[x], h.t.segs[x]⟩ := by
      simp [HG.toPlainEdges]
    rw [List.getElem?_eq_getElem hx', hval, List.getD_eq_getElem?_getD, List.getD_eq_getElem?_getD,
      List.getElem?_eq_getElem hx, List.getElem?_eq_getElem hxs, List.getElem?_eq_getElem hxt]
    obtain ⟨el, es, et⟩ := e
    simp only [Option.some.injEq, PEdge.mk.injEq, Option.getD_some, hx, true_and]
    constructor
    · rintro ⟨rfl, rfl, rfl⟩; exact ⟨rfl, rfl, rfl⟩
    · rintro ⟨rfl, rfl, rfl⟩; exact ⟨rfl, rfl, rfl⟩
  · have hlen := toPlainEdges_length h hwf
    rw [List.getElem?_eq_none (by omega)]
    simp [hx]

theorem mem_toPlainEdges (h : HG O A) (hwf : h.wf = true) (e : PEdge A) :
    e ∈ h.toPlainEdges ↔ ∃ x, x < h.x.length ∧ h.x[x]? = some e.label ∧
      e.src = h.s.segs.getD x [] ∧ e.tgt = h.t.segs.getD x [] := by
  rw [List.mem_iff_getElem?]
  exact exists_congr fun x => toPlainEdges_getElem? h hwf x e

/-! ### segments, membership and `adjDep` -/

theorem mem_segs_getD_lt (r : IC FinFun) (hr : r.wf = true) (i v : Nat)
    (h : v ∈ r.segs.getD i []) : i < r.len ∧ v < r.values.target := by
  obtain ⟨hv, _, hvw⟩ := wf_unpack' r hr
  rw [List.getD_eq_getElem?_getD] at h
  cases hs : r.segs[i]? with
  | none => rw [hs] at h; simp at h
  | some seg =>
    rw [hs] at h
    refine ⟨?_, ?_⟩
    · rw [← IC.segs_length]
      exact (List.getElem?_eq_some_iff.1 hs).1
    · apply hvw
      rw [← IC.segs_flatten r hv, List.mem_flatten]
      exact ⟨seg, List.mem_of_getElem? hs, h⟩

theorem adjDep_iff_mem (a : IC FinFun) (x y : Nat) : adjDep a x y ↔ y ∈ a.segs.getD x [] := by
  unfold adjDep
  rw [List.getD_eq_getElem?_getD]
  cases a.segs[x]? with
  | none => simp
  | some seg => simp

theorem wf_of_valid_segs (e : IC FinFun) (hv : e.valid = true)
    (h : ∀ seg ∈ e.segs, ∀ y ∈ seg, y < e.values.target) : e.wf = true := by
  have hv' := (IC.valid_iff e).1 hv
  apply wf_pack e hv
  · intro x hx
    have := le_sum_of_mem' _ x hx
    rw [hv'.1]
    omega
  · intro y hy
    rw [← IC.segs_flatten e hv, List.mem_flatten] at hy
    obtain ⟨seg, hseg, hy⟩ := hy
    exact h seg hseg y hy

theorem getD_map_flatMap (L : List (List Nat)) (g : Nat → List Nat) (x : Nat) :
    (L.map (fun seg => seg.flatMap g)).getD x [] = (L.getD x []).flatMap g := by
  rw [List.getD_eq_getElem?_getD, List.getD_eq_getElem?_getD, List.getElem?_map]
  cases L[x]? <;> rfl

/-! ### operation adjacency -/

/-- **`operation_adjacency`** returns for every well-formed hypergraph an adjacency on the
    operations (one segment per operation, entries are operation numbers) in which `y` is listed
    under `x` once for every pair (target position of `x`, source position of `y`) carrying the
    same node; in particular `y` is listed under `x` iff `y` depends on `x`. -/
theorem operationAdjacency_spec (B : Backend) (hB : B.Lawful) (h : HG O A) (hwf : h.wf = true) :
    ∃ a, operationAdjacency B h = .ok a ∧ AdjWF a ∧ a.len = h.x.length ∧
      (∀ x y, (a.segs.getD x []).count y =
        ((h.t.segs.getD x []).map (fun v => (h.s.segs.getD y []).count v)).sum) ∧
      (∀ x y, adjDep a x y ↔ opDep (⟨h.w, h.toPlainEdges, [], []⟩ : PDiag O A) x y) := by
  obtain ⟨hs, ht, hsl, htl, hst, htt⟩ := hg_wf_unpack h hwf
  obtain ⟨htv, _, htw⟩ := wf_unpack' h.t ht
  obtain ⟨c, hc, hcwf, hclen, hctgt, _, hccount, _⟩ := converse_spec B hB h.s hs
  obtain ⟨hcv, _, hcw⟩ := wf_unpack' c hcwf
  obtain ⟨a, ha, hav, hatgt, hasegs⟩ :=
    C08.flatmap_spec h.t c htv htw hcv (by rw [hclen, htt, hst])
  have halen : a.len = h.x.length := by
    rw [← IC.segs_length, hasegs, List.length_map, IC.segs_length, htl]
  have hmemc : ∀ v y, y ∈ c.segs.getD v [] ↔ v ∈ h.s.segs.getD y [] := by
    intro v y
    rw [← List.count_pos_iff, ← List.count_pos_iff, hccount]
  have hcnt : ∀ x y, (a.segs.getD x []).count y =
      ((h.t.segs.getD x []).map (fun v => (h.s.segs.getD y []).count v)).sum := by
    intro x y
    rw [hasegs, getD_map_flatMap, List.count_flatMap]
    congr 1
    apply List.map_congr_left
    intro v _
    exact hccount y v
  have hdep : ∀ x y, adjDep a x y ↔
      ∃ v, v ∈ h.t.segs.getD x [] ∧ v ∈ h.s.segs.getD y [] := by
    intro x y
    rw [adjDep_iff_mem, hasegs, getD_map_flatMap, List.mem_flatMap]
    exact exists_congr fun v => and_congr_right fun _ => hmemc v y
  refine ⟨a, ?_, ⟨?_, ?_⟩, halen, hcnt, ?_⟩
  · unfold operationAdjacency
    rw [hc, Res.ok_bind, ha]
  · apply wf_of_valid_segs a hav
    intro seg hseg y hy
    rw [hasegs, List.mem_map] at hseg
    obtain ⟨tseg, _, rfl⟩ := hseg
    obtain ⟨v, _, hy⟩ := List.mem_flatMap.1 hy
    rw [hatgt, hctgt]
    exact (mem_segs_getD_lt h.s hs y v ((hmemc v y).1 hy)).1
  · rw [hatgt, hctgt, halen, hsl]
  · intro x y
    rw [hdep]
    unfold opDep
    simp only [toPlainEdges_getElem? h hwf]
    constructor
    · rintro ⟨v, hvx, hvy⟩
      have hx : x < h.x.length := by
        rw [← htl]; exact (mem_segs_getD_lt h.t ht x v hvx).1
      have hy : y < h.x.length := by
        rw [← hsl]; exact (mem_segs_getD_lt h.s hs y v hvy).1
      exact ⟨⟨h.x[x], _, _⟩, ⟨h.x[y], _, _⟩, v,
        ⟨hx, List.getElem?_eq_getElem hx, rfl, rfl⟩, ⟨hy, List.getElem?_eq_getElem hy, rfl, rfl⟩,
        hvx, hvy⟩
    · rintro ⟨ex, ey, v, ⟨_, _, _, hxt⟩, ⟨_, _, hys, _⟩, hvx, hvy⟩
      exact ⟨v, hxt ▸ hvx, hys ▸ hvy⟩

/-! ### node adjacency -/

theorem sum_replicate' (k x : Nat) : (List.replicate k x).sum = k * x := by
  induction k with
  | zero => simp
  | succ k ih => rw [List.replicate_succ, List.sum_cons, ih, Nat.succ_mul, Nat.add_comm]

theorem sum_map_flatMap_replicate (l : List Nat) (f φ : Nat → Nat) :
    ((l.flatMap (fun i => List.replicate (f i) i)).map φ).sum =
      (l.map (fun i => f i * φ i)).sum := by
  induction l with
  | nil => rfl
  | cons i l ih =>
    rw [List.flatMap_cons, List.map_append, List.sum_append, ih, List.map_replicate,
      sum_replicate', List.map_cons, List.sum_cons]

/-- **`node_adjacency`** returns for every well-formed hypergraph an adjacency on the nodes in
    which `w` is listed under `v` once for every triple (operation, source position holding `v`,
    target position holding `w`); in particular `w` is listed under `v` iff some operation leads
    from `v` to `w`. -/
theorem nodeAdjacency_spec (B : Backend) (hB : B.Lawful) (h : HG O A) (hwf : h.wf = true) :
    ∃ a, nodeAdjacency B h = .ok a ∧ AdjWF a ∧ a.len = h.w.length ∧
      (∀ v w, (a.segs.getD v []).count w =
        ((List.range h.x.length).map (fun e =>
          (h.s.segs.getD e []).count v * (h.t.segs.getD e []).count w)).sum) ∧
      (∀ v w, adjDep a v w ↔ nodeStep (⟨h.w, h.toPlainEdges, [], []⟩ : PDiag O A) v w) := by
  obtain ⟨hs, ht, hsl, htl, hst, htt⟩ := hg_wf_unpack h hwf
  obtain ⟨htv, _, htw⟩ := wf_unpack' h.t ht
  obtain ⟨c, hc, hcwf, hclen, hctgt, _, hccount, hcperm⟩ := converse_spec B hB h.s hs
  obtain ⟨hcv, _, hcw⟩ := wf_unpack' c hcwf
  obtain ⟨a, ha, hav, hatgt, hasegs⟩ :=
    C08.flatmap_spec c h.t hcv hcw htv (by rw [hctgt, hsl, htl])
  have halen : a.len = h.w.length := by
    rw [← IC.segs_length, hasegs, List.length_map, IC.segs_length, hclen, hst]
  have hmemc : ∀ v e, e ∈ c.segs.getD v [] ↔ v ∈ h.s.segs.getD e [] := by
    intro v e
    rw [← List.count_pos_iff, ← List.count_pos_iff, hccount]
  have hdep : ∀ v w, adjDep a v w ↔
      ∃ e, v ∈ h.s.segs.getD e [] ∧ w ∈ h.t.segs.getD e [] := by
    intro v w
    rw [adjDep_iff_mem, hasegs, getD_map_flatMap, List.mem_flatMap]
    exact exists_congr fun e => and_congr_left fun _ => hmemc v e
  refine ⟨a, ?_, ⟨?_, ?_⟩, halen, ?_, ?_⟩
  · unfold nodeAdjacency nodeAdjacencyFromIncidence
    rw [hc, Res.ok_bind, ha]
  · apply wf_of_valid_segs a hav
    intro seg hseg y hy
    rw [hasegs, List.mem_map] at hseg
    obtain ⟨cseg, _, rfl⟩ := hseg
    obtain ⟨e, _, hy⟩ := List.mem_flatMap.1 hy
    rw [hatgt]
    exact (mem_segs_getD_lt h.t ht e y hy).2
  · rw [hatgt, htt, halen]
  · intro v w
    rw [hasegs, getD_map_flatMap, List.count_flatMap, ((hcperm v).map _).sum_nat, hsl,
      sum_map_flatMap_replicate]
    rfl
  · intro v w
    rw [hdep]
    unfold nodeStep
    simp only [mem_toPlainEdges h hwf]
    constructor
    · rintro ⟨e, hve, hwe⟩
      have he : e < h.x.length := by
        rw [← hsl]; exact (mem_segs_getD_lt h.s hs e v hve).1
      exact ⟨⟨h.x[e], _, _⟩, ⟨e, he, List.getElem?_eq_getElem he, rfl, rfl⟩, hve, hwe⟩
    · rintro ⟨e, ⟨x, _, _, hes, het⟩, hve, hwe⟩
      exact ⟨x, hes ▸ hve, het ▸ hwe⟩

/-- a well-formed hypergraph with shared nodes, an operation without sources and one without
    targets -/
example : (⟨⟨⟨[2, 0, 1], 4⟩, ⟨[0, 1, 2], 4⟩⟩, ⟨⟨[1, 2, 0], 4⟩, ⟨[2, 0, 3], 4⟩⟩,
    ["a", "b", "c", "d"], ["f", "g", "h"]⟩ : HG String String).wf = true := by decide

end OH.Graph
