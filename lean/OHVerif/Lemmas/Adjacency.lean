/-
  `converse`, `operationAdjacency`, `nodeAdjacency` (src/strict/graph.rs) characterised for every
  lawful backend: the converse of a relation given as a segmented array, and the two adjacency
  relations of a hypergraph derived from it.
-/
import Mathlib.Data.List.Perm.Basic
import OHVerif.Lemmas.Segs
import OHVerif.Lemmas.Kahn

namespace OH.Graph
open OH OH.Prim

variable {β : Type}

/-! ### a list sorted by a key splits into its key classes -/

theorem sorted_split (key : β → Nat) (a : Nat) (l : List β)
    (hs : (l.map key).Pairwise (· ≤ ·)) (hge : ∀ x ∈ l, a ≤ key x) :
    l = l.filter (fun x => key x = a) ++ l.filter (fun x => !decide (key x = a)) := by
  induction l with
  | nil => rfl
  | cons x xs ih =>
    have hs' : (xs.map key).Pairwise (· ≤ ·) := (List.pairwise_cons.1 hs).2
    have hx : ∀ y ∈ xs, key x ≤ key y := fun y hy =>
      (List.pairwise_cons.1 hs).1 (key y) (List.mem_map.2 ⟨y, hy, rfl⟩)
    by_cases hxa : key x = a
    · have ih' := ih hs' (fun y hy => hge y (by simp [hy]))
      simp only [List.filter_cons, hxa, decide_true, if_true, Bool.not_true, Bool.false_eq_true,
        if_false, List.cons_append]
      exact congrArg (x :: ·) ih'
    · have hgt : a < key x := Nat.lt_of_le_of_ne (hge x (by simp)) (fun e => hxa e.symm)
      have h1 : xs.filter (fun y => key y = a) = [] := by
        rw [List.filter_eq_nil_iff]
        intro y hy
        have := hx y hy
        simp only [decide_eq_true_eq]
        omega
      have h2 : xs.filter (fun y => !decide (key y = a)) = xs := by
        rw [List.filter_eq_self]
        intro y hy
        have := hx y hy
        simp only [Bool.not_eq_eq_eq_not, Bool.not_true, decide_eq_false_iff_not]
        omega
      rw [List.filter_cons, List.filter_cons, h1, h2]
      simp [hxa]

theorem splitSegs_sorted (key : β → Nat) (m : Nat) : ∀ (a : Nat) (l : List β),
    (l.map key).Pairwise (· ≤ ·) → (∀ x ∈ l, a ≤ key x) →
    splitSegs ((List.range' a m).map (fun j => (l.filter (fun x => key x = j)).length)) l =
      (List.range' a m).map (fun j => l.filter (fun x => key x = j)) := by
  induction m with
  | zero => intro a l _ _; rfl
  | succ m ih =>
    intro a l hs hge
    have hsplit := sorted_split key a l hs hge
    set F := l.filter (fun x => key x = a) with hF
    set G := l.filter (fun x => !decide (key x = a)) with hG
    have hGs : (G.map key).Pairwise (· ≤ ·) :=
      hs.sublist ((List.filter_sublist).map key)
    have hGge : ∀ x ∈ G, a + 1 ≤ key x := by
      intro x hx
      obtain ⟨hx1, hx2⟩ := List.mem_filter.1 hx
      have := hge x hx1
      simp only [Bool.not_eq_eq_eq_not, Bool.not_true, decide_eq_false_iff_not] at hx2
      omega
    have hGf : ∀ j ∈ List.range' (a + 1) m, G.filter (fun x => key x = j) =
        l.filter (fun x => key x = j) := by
      intro j hj
      have hja : a < j := by have := (List.mem_range'_1.1 hj).1; omega
      rw [hG, List.filter_filter]
      apply List.filter_congr
      intro x _
      by_cases hxj : key x = j
      · simp [hxj]; omega
      · simp [hxj]
    have ih' := ih (a + 1) G hGs hGge
    rw [List.range'_succ, List.map_cons, List.map_cons, splitSegs_cons]
    have htake : l.take F.length = F := by
      conv_lhs => rw [hsplit]
      simp
    have hdrop : l.drop F.length = G := by
      conv_lhs => rw [hsplit]
      simp
    rw [htake, hdrop]
    congr 1
    rw [← List.map_congr_left (fun j hj => congrArg List.length (hGf j hj)),
      ← List.map_congr_left hGf]
    exact ih'

/-! ### counting in the pair list of a relation -/

theorem count_zip_replicate (a i j : Nat) (seg : List Nat) :
    ((List.replicate seg.length a).zip seg).count (i, j) = if i = a then seg.count j else 0 := by
  induction seg with
  | nil => simp
  | cons y ys ih =>
    simp only [List.length_cons, List.replicate_succ, List.zip_cons_cons, List.count_cons, ih,
      beq_iff_eq, Prod.mk.injEq]
    by_cases hia : i = a
    · by_cases hyj : y = j <;> simp [hia, hyj]
    · have hai : ¬ a = i := fun e => hia e.symm
      by_cases hyj : y = j <;> simp [hia, hai, hyj]

/-- the relation `{(i, j) | j ∈ L[i]}` laid out as `repeat`ed segment numbers zipped with the
    values: `(i, j)` occurs as often as `j` occurs in `L[i]` -/
theorem count_pairs (L : List (List Nat)) (a i j : Nat) :
    ((repeatP (L.map List.length) (List.range' a L.length)).zip L.flatten).count (i, j) =
      if a ≤ i then (L.getD (i - a) []).count j else 0 := by
  induction L generalizing a with
  | nil => simp [repeatP]
  | cons seg L ih =>
    rw [List.length_cons, List.range'_succ, List.map_cons, repeatP, List.flatten_cons,
      List.zip_append (by simp), List.count_append, count_zip_replicate, ih]
    by_cases h1 : i = a
    · subst h1
      simp
    · by_cases h2 : a ≤ i
      · have h3 : a + 1 ≤ i := by omega
        have h4 : i - a = (i - (a + 1)) + 1 := by omega
        simp [h1, h2, h3, h4]
      · have h3 : ¬ a + 1 ≤ i := by omega
        simp [h1, h2, h3]

theorem count_filter_map_fst (l : List (Nat × Nat)) (i j : Nat) :
    ((l.filter (fun p => p.2 = j)).map (·.1)).count i = l.count (i, j) := by
  induction l with
  | nil => rfl
  | cons p l ih =>
    obtain ⟨p1, p2⟩ := p
    by_cases h2 : p2 = j <;> by_cases h1 : p1 = i <;>
      simp [ih, h1, h2]

end OH.Graph
