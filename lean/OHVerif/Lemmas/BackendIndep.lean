/-
  Helper lemmas for C20 (independence of the backend's open choices):
  * a bijection between initial segments of `Nat` forces equal sizes (`BijOn.card_eq`);
  * two surjective tables on the same domain with the same kernel differ by a bijective
    renumbering of their codomains, which therefore have equally many elements
    (`tables_same_kernel`);
  * a relation on `Res` lifting a relation on values (`ResRel`) and its compatibility with
    `bind` / `unwrap`;
  * gluing is a congruence for `≅`: gluings of isomorphic well-formed operands are isomorphic
    (`isGluing_congr`, via `C04.iso_of_quotMaps_over_iso` and the block sum of the two node
    bijections); so is juxtaposition (`juxt_congr`).
-/
import OHVerif.Lemmas.Quot
import OHVerif.Props.C04
import Mathlib.Data.List.Nodup
import Mathlib.Data.List.Perm.Subperm

namespace OH

/-! ### cardinality of initial segments -/

theorem BijOn.le {n m : Nat} {π : Nat → Nat} (h : BijOn n m π) : n ≤ m := by
  have hnd : ((List.range n).map π).Nodup := by
    apply List.Nodup.map_on _ List.nodup_range
    intro a ha b hb hab
    exact h.2.1 a b (List.mem_range.1 ha) (List.mem_range.1 hb) hab
  have hsub : (List.range n).map π ⊆ List.range m := by
    intro x hx
    obtain ⟨i, hi, rfl⟩ := List.mem_map.1 hx
    exact List.mem_range.2 (h.1 i (List.mem_range.1 hi))
  have := (hnd.subperm hsub).length_le
  simpa using this

/-- a bijection `[0,n) → [0,m)` exists only for `n = m` -/
theorem BijOn.card_eq {n m : Nat} {π : Nat → Nat} (h : BijOn n m π) : n = m :=
  Nat.le_antisymm h.le h.inv.le

/-! ### surjective tables with the same kernel -/

/-- two tables of length `n`, onto `[0,k₁)` resp. `[0,k₂)`, that identify the same pairs of
    positions: the second is the first followed by a bijection `[0,k₁) → [0,k₂)`; in particular
    `k₁ = k₂` (the number of classes is determined by the kernel). -/
theorem tables_same_kernel {n k₁ k₂ : Nat} {t₁ t₂ : List Nat}
    (l₁ : t₁.length = n) (l₂ : t₂.length = n)
    (lt₁ : ∀ x ∈ t₁, x < k₁) (lt₂ : ∀ x ∈ t₂, x < k₂)
    (on₁ : ∀ c, c < k₁ → c ∈ t₁) (on₂ : ∀ c, c < k₂ → c ∈ t₂)
    (hker : ∀ i j, i < n → j < n → (t₁[i]? = t₁[j]? ↔ t₂[i]? = t₂[j]?)) :
    k₁ = k₂ ∧ ∃ π, BijOn k₁ k₂ π ∧ t₂ = t₁.map π := by
  let q₁ : Nat → Nat := fun i => t₁.getD i 0
  let q₂ : Nat → Nat := fun i => t₂.getD i 0
  have g₁ : ∀ i, i < n → t₁[i]? = some (q₁ i) := by
    intro i hi
    have hi' : i < t₁.length := by omega
    simp [q₁, List.getD_eq_getElem?_getD, List.getElem?_eq_getElem hi']
  have g₂ : ∀ i, i < n → t₂[i]? = some (q₂ i) := by
    intro i hi
    have hi' : i < t₂.length := by omega
    simp [q₂, List.getD_eq_getElem?_getD, List.getElem?_eq_getElem hi']
  have ker : ∀ i j, i < n → j < n → (q₁ i = q₁ j ↔ q₂ i = q₂ j) := by
    intro i j hi hj
    have := hker i j hi hj
    rw [g₁ i hi, g₁ j hj, g₂ i hi, g₂ j hj, Option.some.injEq, Option.some.injEq] at this
    exact this
  have onto₁ : ∀ c, c < k₁ → ∃ i, i < n ∧ q₁ i = c := by
    intro c hc
    obtain ⟨i, hi⟩ := List.mem_iff_getElem?.1 (on₁ c hc)
    have hin : i < n := l₁ ▸ (List.getElem?_eq_some_iff.1 hi).1
    rw [g₁ i hin] at hi
    exact ⟨i, hin, Option.some.inj hi⟩
  have onto₂ : ∀ c, c < k₂ → ∃ i, i < n ∧ q₂ i = c := by
    intro c hc
    obtain ⟨i, hi⟩ := List.mem_iff_getElem?.1 (on₂ c hc)
    have hin : i < n := l₂ ▸ (List.getElem?_eq_some_iff.1 hi).1
    rw [g₂ i hin] at hi
    exact ⟨i, hin, Option.some.inj hi⟩
  have lt₂' : ∀ i, i < n → q₂ i < k₂ := fun i hi => lt₂ _ (List.mem_of_getElem? (g₂ i hi))
  have lt₁' : ∀ i, i < n → q₁ i < k₁ := fun i hi => lt₁ _ (List.mem_of_getElem? (g₁ i hi))
  have key : ∀ i, i < n → q₂ (invOn n q₁ (q₁ i)) = q₂ i := by
    intro i hi
    obtain ⟨h1, h2⟩ := invOn_spec (n := n) (π := q₁) (k := q₁ i) ⟨i, hi, rfl⟩
    exact (ker _ _ h1 hi).1 h2
  have hbij : BijOn k₁ k₂ (fun k => q₂ (invOn n q₁ k)) := by
    refine ⟨?_, ?_, ?_⟩
    · intro k hk
      exact lt₂' _ (invOn_spec (onto₁ k hk)).1
    · intro k l hk hl hkl
      obtain ⟨a1, a2⟩ := invOn_spec (onto₁ k hk)
      obtain ⟨b1, b2⟩ := invOn_spec (onto₁ l hl)
      have := (ker _ _ a1 b1).2 hkl
      rw [a2, b2] at this
      exact this
    · intro m hm
      obtain ⟨i, hi, rfl⟩ := onto₂ m hm
      exact ⟨q₁ i, lt₁' i hi, key i hi⟩
  refine ⟨hbij.card_eq, _, hbij, ?_⟩
  apply List.ext_getElem?
  intro i
  rw [List.getElem?_map]
  by_cases hi : i < n
  · rw [g₁ i hi, g₂ i hi, Option.map_some, key i hi]
  · rw [List.getElem?_eq_none (by omega), List.getElem?_eq_none (by omega)]
    rfl

/-! ### lifting a relation on values to results -/

/-- both results are `none`, or both panic at the same site, or both are values related by `R` -/
def ResRel {α : Type} (R : α → α → Prop) : Res α → Res α → Prop
  | .ok a, .ok b => R a b
  | .none, .none => True
  | .panic s, .panic s' => s = s'
  | _, _ => False

section
variable {α β : Type}

theorem ResRel.unwrap {R : α → α → Prop} {x y : Res α} (s : String) (h : ResRel R x y) :
    ResRel R (x.unwrap s) (y.unwrap s) := by
  cases x <;> cases y <;> simp_all [ResRel, Res.unwrap]

theorem ResRel.bind {R : α → α → Prop} {S : β → β → Prop} {x y : Res α} {k₁ k₂ : α → Res β}
    (h : ResRel R x y) (hk : ∀ a b, R a b → ResRel S (k₁ a) (k₂ b)) :
    ResRel S (x >>= k₁) (y >>= k₂) := by
  cases x <;> cases y <;> simp_all [ResRel]

theorem ResRel.bind_same {S : β → β → Prop} (x : Res α) {k₁ k₂ : α → Res β}
    (hk : ∀ a, x = .ok a → ResRel S (k₁ a) (k₂ a)) : ResRel S (x >>= k₁) (x >>= k₂) := by
  cases x <;> simp_all [ResRel]

theorem ResRel.ok_iff {R : α → α → Prop} (a b : α) : ResRel R (.ok a) (.ok b) ↔ R a b := Iff.rfl

theorem ResRel.mono {α : Type} {R S : α → α → Prop} {x y : Res α} (h : ∀ a b, R a b → S a b)
    (hxy : ResRel R x y) : ResRel S x y := by
  cases x <;> cases y <;> simp_all [ResRel]

theorem ResRel.refl_of {α : Type} {R : α → α → Prop} (x : Res α) (h : ∀ a, x = .ok a → R a a) :
    ResRel R x x := by
  cases x <;> simp_all [ResRel]

theorem Res.unwrap_eq_ok {x : Res α} {s : String} {a : α} (h : x.unwrap s = .ok a) : x = .ok a := by
  cases x <;> simp_all [Res.unwrap]
end

section
open Relation
variable {O A : Type}

/-! ### block sum of two maps -/

/-- `π` on `[0,n)`, `π'` (shifted to start at `n'`) from `n` on -/
def sumMap (n n' : Nat) (π π' : Nat → Nat) (i : Nat) : Nat :=
  if i < n then π i else n' + π' (i - n)

theorem sumMap_left {n n' : Nat} {π π' : Nat → Nat} {i : Nat} (h : i < n) :
    sumMap n n' π π' i = π i := by simp [sumMap, h]

theorem sumMap_right (n n' : Nat) (π π' : Nat → Nat) (v : Nat) :
    sumMap n n' π π' (n + v) = n' + π' v := by
  unfold sumMap
  rw [if_neg (by omega), Nat.add_sub_cancel_left]

theorem BijOn.sum {n m n' m' : Nat} {π π' : Nat → Nat} (h : BijOn n n' π) (h' : BijOn m m' π') :
    BijOn (n + m) (n' + m') (sumMap n n' π π') := by
  refine ⟨?_, ?_, ?_⟩
  · intro i hi
    by_cases hl : i < n
    · rw [sumMap_left hl]; have := h.1 i hl; omega
    · have := h'.1 (i - n) (by omega)
      simp only [sumMap, hl, if_false]; omega
  · intro i j hi hj hij
    by_cases hl : i < n <;> by_cases hr : j < n
    · rw [sumMap_left hl, sumMap_left hr] at hij
      exact h.2.1 i j hl hr hij
    · have := h.1 i hl
      simp only [sumMap, hl, hr, if_true, if_false] at hij; omega
    · have := h.1 j hr
      simp only [sumMap, hl, hr, if_true, if_false] at hij; omega
    · simp only [sumMap, hl, hr, if_false] at hij
      have := h'.2.1 (i - n) (j - n) (by omega) (by omega) (by omega)
      omega
  · intro k hk
    by_cases hl : k < n'
    · obtain ⟨i, hi, rfl⟩ := h.2.2 k hl
      exact ⟨i, by omega, sumMap_left hi⟩
    · obtain ⟨i, hi, hik⟩ := h'.2.2 (k - n') (by omega)
      exact ⟨n + i, by omega, by rw [sumMap_right, hik]; omega⟩

theorem eqvGen_map {α β : Type} {r : α → α → Prop} {s : β → β → Prop} (f : α → β)
    (h : ∀ a b, r a b → s (f a) (f b)) {a b : α} (hab : EqvGen r a b) : EqvGen s (f a) (f b) := by
  induction hab with
  | rel a b hr => exact EqvGen.rel _ _ (h a b hr)
  | refl a => exact EqvGen.refl _
  | symm a b _ ih => exact EqvGen.symm _ _ ih
  | trans a b c _ _ ih1 ih2 => exact EqvGen.trans _ _ _ ih1 ih2

/-! ### gluing is a congruence for `≅` -/

/-- gluings of isomorphic well-formed operands are isomorphic -/
theorem isGluing_congr {F G F' G' R R' : PDiag O A} (hF : F.wf = true) (hG : G.wf = true)
    (iF : F ≅ F') (iG : G ≅ G') (h : IsGluing F G R) (h' : IsGluing F' G' R') : R ≅ R' := by
  obtain ⟨π, ρ, bπ, bρ, nπ, eπ, insπ, outsπ⟩ := iF
  obtain ⟨π', ρ', bπ', bρ', nπ', eπ', insπ', outsπ'⟩ := iG
  obtain ⟨f1, f2, f3⟩ := (PDiag.wf_iff F).1 hF
  obtain ⟨g1, g2, g3⟩ := (PDiag.wf_iff G).1 hG
  obtain ⟨q1, hq1, k1⟩ := (isQuot_iff _ _ _).1 h
  obtain ⟨q2, hq2, k2⟩ := (isQuot_iff _ _ _).1 h'
  have hn1 : (gluePre F G).n = F.n + G.n := gluePre_n F G
  have hn2 : (gluePre F' G').n = F'.n + G'.n := gluePre_n F' G'
  let σ := sumMap F.n F'.n π π'
  have bσ : BijOn (gluePre F G).n (gluePre F' G').n σ := by
    rw [hn1, hn2]; exact bπ.sum bπ'
  have hσl : ∀ i, i < F.n → σ i = π i := fun i hi => sumMap_left hi
  have hσr : ∀ v, σ (F.n + v) = F'.n + π' v := fun v => sumMap_right _ _ _ _ v
  have bρ'' : BijOn (gluePre F G).edges.length (gluePre F' G').edges.length
      (sumMap F.edges.length F'.edges.length ρ ρ') := by
    have e1 : (gluePre F G).edges.length = F.edges.length + G.edges.length := by simp [gluePre]
    have e2 : (gluePre F' G').edges.length = F'.edges.length + G'.edges.length := by simp [gluePre]
    rw [e1, e2]; exact bρ.sum bρ'
  -- the relation is transported forward
  have fwd : ∀ a b, (a < (gluePre F G).n ∧ b < (gluePre F G).n ∧ glueRel F G a b) →
      (σ a < (gluePre F' G').n ∧ σ b < (gluePre F' G').n ∧ glueRel F' G' (σ a) (σ b)) := by
    rintro a b ⟨ha, hb, k, hk1, hk2⟩
    refine ⟨bσ.1 a ha, bσ.1 b hb, k, ?_, ?_⟩
    · have hal : a < F.n := f2 a (List.mem_of_getElem? hk1)
      rw [outsπ, List.getElem?_map, hk1, hσl a hal]; rfl
    · cases hgk : G.ins[k]? with
      | none => rw [hgk] at hk2; cases hk2
      | some c =>
        rw [hgk] at hk2
        simp only [Option.map_some, Option.some.injEq] at hk2
        subst hk2
        rw [insπ', List.getElem?_map, hgk, hσr]; rfl
  -- … and backward along the inverse of `σ`
  let τ := invOn (gluePre F G).n σ
  have bwd : ∀ x y, (x < (gluePre F' G').n ∧ y < (gluePre F' G').n ∧ glueRel F' G' x y) →
      (τ x < (gluePre F G).n ∧ τ y < (gluePre F G).n ∧ glueRel F G (τ x) (τ y)) := by
    rintro x y ⟨hx, hy, k, hk1, hk2⟩
    rw [outsπ, List.getElem?_map] at hk1
    rw [insπ', List.getElem?_map] at hk2
    cases hfk : F.outs[k]? with
    | none => rw [hfk] at hk1; cases hk1
    | some a =>
      cases hgk : G.ins[k]? with
      | none => rw [hgk] at hk2; cases hk2
      | some c =>
        rw [hfk] at hk1
        rw [hgk] at hk2
        simp only [Option.map_some, Option.some.injEq] at hk1 hk2
        have hal : a < F.n := f2 a (List.mem_of_getElem? hfk)
        have hcl : c < G.n := g1 c (List.mem_of_getElem? hgk)
        have hx' : τ x = a := by
          rw [← hk1, ← hσl a hal]
          exact bσ.invOn_left a (by omega)
        have hy' : τ y = F.n + c := by
          rw [← hk2, ← hσr c]
          exact bσ.invOn_left _ (by omega)
        rw [hx', hy']
        exact ⟨by omega, by omega, k, hfk, by rw [hgk]; rfl⟩
  apply C04.iso_of_quotMaps_over_iso (gluePre_wf hF hG) bσ bρ'' ?_ ?_ ?_ ?_ hq1 hq2 ?_
  · -- nodes
    intro i hi
    show (F'.nodes ++ G'.nodes)[σ i]? = (F.nodes ++ G.nodes)[i]?
    rw [hn1] at hi
    by_cases hl : i < F.n
    · have := bπ.1 i hl
      rw [hσl i hl, List.getElem?_append_left this, List.getElem?_append_left hl]
      exact nπ i hl
    · obtain ⟨v, rfl⟩ : ∃ v, i = F.n + v := ⟨i - F.n, by omega⟩
      rw [hσr]
      show (F'.nodes ++ G'.nodes)[F'.nodes.length + π' v]? = (F.nodes ++ G.nodes)[F.nodes.length + v]?
      rw [List.getElem?_append_right (Nat.le_add_right _ _),
        List.getElem?_append_right (Nat.le_add_right _ _)]
      simp only [Nat.add_sub_cancel_left]
      exact nπ' v (by omega)
  · -- edges
    intro e he
    have e1 : (gluePre F G).edges.length = F.edges.length + G.edges.length := by simp [gluePre]
    rw [e1] at he
    show (F'.edges ++ G'.edges.map (PEdge.mapNodes (F'.n + ·)))[_]? =
      ((F.edges ++ G.edges.map (PEdge.mapNodes (F.n + ·)))[e]?).map (PEdge.mapNodes σ)
    by_cases hl : e < F.edges.length
    · have := bρ.1 e hl
      rw [sumMap_left hl, List.getElem?_append_left this, List.getElem?_append_left hl, eπ e hl,
        List.getElem?_eq_getElem hl]
      simp only [Option.map_some, Option.some.injEq]
      obtain ⟨hs, ht⟩ := f3 _ (List.getElem_mem hl)
      exact PEdge.mapNodes_congr (fun v hv => (hσl v (hs v hv)).symm)
        (fun v hv => (hσl v (ht v hv)).symm)
    · obtain ⟨v, rfl⟩ : ∃ v, e = F.edges.length + v := ⟨e - F.edges.length, by omega⟩
      have hv : v < G.edges.length := by omega
      rw [sumMap_right, List.getElem?_append_right (Nat.le_add_right _ _),
        List.getElem?_append_right (Nat.le_add_right _ _)]
      simp only [Nat.add_sub_cancel_left, List.getElem?_map]
      rw [eπ' v hv, List.getElem?_eq_getElem hv]
      simp only [Option.map_some, Option.some.injEq, PEdge.mapNodes_comp]
      exact PEdge.mapNodes_congr (fun w _ => (hσr w).symm) (fun w _ => (hσr w).symm)
  · -- inputs
    show F'.ins = F.ins.map σ
    rw [insπ]
    exact List.map_congr_left (fun v hv => (hσl v (f1 v hv)).symm)
  · -- outputs
    show G'.outs.map (F'.n + ·) = (G.outs.map (F.n + ·)).map σ
    rw [outsπ', List.map_map, List.map_map]
    exact List.map_congr_left (fun v _ => (hσr v).symm)
  · -- kernels
    intro i j hi hj
    rw [k1 i j hi hj, k2 _ _ (bσ.1 i hi) (bσ.1 j hj)]
    constructor
    · exact eqvGen_map σ fwd
    · intro hE
      have : EqvGen (fun a b => a < (gluePre F G).n ∧ b < (gluePre F G).n ∧ glueRel F G a b)
          (τ (σ i)) (τ (σ j)) := eqvGen_map τ bwd hE
      rw [show τ (σ i) = i from bσ.invOn_left i hi, show τ (σ j) = j from bσ.invOn_left j hj] at this
      exact this

/-- juxtaposition is a congruence for `≅` (the left operand well-formed) -/
theorem juxt_congr {F G F' G' : PDiag O A} (hF : F.wf = true) (iF : F ≅ F') (iG : G ≅ G') :
    PDiag.juxt F G ≅ PDiag.juxt F' G' := by
  obtain ⟨π, ρ, bπ, bρ, nπ, eπ, insπ, outsπ⟩ := iF
  obtain ⟨π', ρ', bπ', bρ', nπ', eπ', insπ', outsπ'⟩ := iG
  obtain ⟨f1, f2, f3⟩ := (PDiag.wf_iff F).1 hF
  have hn1 : (PDiag.juxt F G).n = F.n + G.n := by simp [PDiag.juxt, PDiag.n]
  have hn2 : (PDiag.juxt F' G').n = F'.n + G'.n := by simp [PDiag.juxt, PDiag.n]
  have e1 : (PDiag.juxt F G).edges.length = F.edges.length + G.edges.length := by simp [PDiag.juxt]
  have e2 : (PDiag.juxt F' G').edges.length = F'.edges.length + G'.edges.length := by
    simp [PDiag.juxt]
  have hσl : ∀ i, i < F.n → sumMap F.n F'.n π π' i = π i := fun i hi => sumMap_left hi
  have hσr : ∀ v, sumMap F.n F'.n π π' (F.n + v) = F'.n + π' v := fun v => sumMap_right _ _ _ _ v
  refine ⟨sumMap F.n F'.n π π', sumMap F.edges.length F'.edges.length ρ ρ', ?_, ?_, ?_, ?_, ?_, ?_⟩
  · rw [hn1, hn2]; exact bπ.sum bπ'
  · rw [e1, e2]; exact bρ.sum bρ'
  · intro i hi
    show (F'.nodes ++ G'.nodes)[_]? = (F.nodes ++ G.nodes)[i]?
    rw [hn1] at hi
    by_cases hl : i < F.n
    · have := bπ.1 i hl
      rw [hσl i hl, List.getElem?_append_left this, List.getElem?_append_left hl]
      exact nπ i hl
    · obtain ⟨v, rfl⟩ : ∃ v, i = F.n + v := ⟨i - F.n, by omega⟩
      rw [hσr]
      show (F'.nodes ++ G'.nodes)[F'.nodes.length + π' v]? = (F.nodes ++ G.nodes)[F.nodes.length + v]?
      rw [List.getElem?_append_right (Nat.le_add_right _ _),
        List.getElem?_append_right (Nat.le_add_right _ _)]
      simp only [Nat.add_sub_cancel_left]
      exact nπ' v (by omega)
  · intro e he
    rw [e1] at he
    show (F'.edges ++ G'.edges.map (PEdge.mapNodes (F'.n + ·)))[_]? =
      ((F.edges ++ G.edges.map (PEdge.mapNodes (F.n + ·)))[e]?).map (PEdge.mapNodes _)
    by_cases hl : e < F.edges.length
    · have := bρ.1 e hl
      rw [sumMap_left hl, List.getElem?_append_left this, List.getElem?_append_left hl, eπ e hl,
        List.getElem?_eq_getElem hl]
      simp only [Option.map_some, Option.some.injEq]
      obtain ⟨hs, ht⟩ := f3 _ (List.getElem_mem hl)
      exact PEdge.mapNodes_congr (fun v hv => (hσl v (hs v hv)).symm)
        (fun v hv => (hσl v (ht v hv)).symm)
    · obtain ⟨v, rfl⟩ : ∃ v, e = F.edges.length + v := ⟨e - F.edges.length, by omega⟩
      have hv : v < G.edges.length := by omega
      rw [sumMap_right, List.getElem?_append_right (Nat.le_add_right _ _),
        List.getElem?_append_right (Nat.le_add_right _ _)]
      simp only [Nat.add_sub_cancel_left, List.getElem?_map]
      rw [eπ' v hv, List.getElem?_eq_getElem hv]
      simp only [Option.map_some, Option.some.injEq, PEdge.mapNodes_comp]
      exact PEdge.mapNodes_congr (fun w _ => (hσr w).symm) (fun w _ => (hσr w).symm)
  · show F'.ins ++ G'.ins.map (F'.n + ·) = (F.ins ++ G.ins.map (F.n + ·)).map _
    rw [List.map_append, insπ, insπ', List.map_map, List.map_map]
    congr 1
    · exact List.map_congr_left (fun v hv => (hσl v (f1 v hv)).symm)
    · exact List.map_congr_left (fun v _ => (hσr v).symm)
  · show F'.outs ++ G'.outs.map (F'.n + ·) = (F.outs ++ G.outs.map (F.n + ·)).map _
    rw [List.map_append, outsπ, outsπ', List.map_map, List.map_map]
    congr 1
    · exact List.map_congr_left (fun v hv => (hσl v (f2 v hv)).symm)
    · exact List.map_congr_left (fun v _ => (hσr v).symm)
end

end OH
