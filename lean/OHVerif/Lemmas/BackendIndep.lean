/-
  Helper lemmas for C20 (independence of the backend's open choices):
  * a bijection between initial segments of `Nat` forces equal sizes (`BijOn.card_eq`);
  * two surjective tables on the same domain with the same kernel differ by a bijective
    renumbering of their codomains, which therefore have equally many elements
    (`tables_same_kernel`);
  * a relation on `Res` lifting a relation on values (`ResRel`).
-/
import OHVerif.Lemmas.Quot
import Mathlib.Data.List.Nodup
import Mathlib.Data.List.Perm.Subperm

namespace OH

/-! ### cardinality of initial segments -/

theorem BijOn.le {n m : Nat} {π : Nat → Nat} (h : BijOn n m π) : n ≤ m := by
  have hnd : ((List.range n).map π).Nodup := by
    apply List.Nodup.map_on _ List.nodup_range
    intro a ha b hb hab
    exact h.2.1 a b (List.mem_range.1 ha) (List.mem_range.1 hb) hab
  have hsub : (List.range n).map π ⊆ List.range m := by
    intro x hx
    obtain ⟨i, hi, rfl⟩ := List.mem_map.1 hx
    exact List.mem_range.2 (h.1 i (List.mem_range.1 hi))
  have := (hnd.subperm hsub).length_le
  simpa using this

/-- a bijection `[0,n) → [0,m)` exists only for `n = m` -/
theorem BijOn.card_eq {n m : Nat} {π : Nat → Nat} (h : BijOn n m π) : n = m :=
  Nat.le_antisymm h.le h.inv.le

/-! ### surjective tables with the same kernel -/

/-- two tables of length `n`, onto `[0,k₁)` resp. `[0,k₂)`, that identify the same pairs of
    positions: the second is the first followed by a bijection `[0,k₁) → [0,k₂)`; in particular
    `k₁ = k₂` (the number of classes is determined by the kernel). -/
theorem tables_same_kernel {n k₁ k₂ : Nat} {t₁ t₂ : List Nat}
    (l₁ : t₁.length = n) (l₂ : t₂.length = n)
    (lt₁ : ∀ x ∈ t₁, x < k₁) (lt₂ : ∀ x ∈ t₂, x < k₂)
    (on₁ : ∀ c, c < k₁ → c ∈ t₁) (on₂ : ∀ c, c < k₂ → c ∈ t₂)
    (hker : ∀ i j, i < n → j < n → (t₁[i]? = t₁[j]? ↔ t₂[i]? = t₂[j]?)) :
    k₁ = k₂ ∧ ∃ π, BijOn k₁ k₂ π ∧ t₂ = t₁.map π := by
  let q₁ : Nat → Nat := fun i => t₁.getD i 0
  let q₂ : Nat → Nat := fun i => t₂.getD i 0
  have g₁ : ∀ i, i < n → t₁[i]? = some (q₁ i) := by
    intro i hi
    have hi' : i < t₁.length := by omega
    simp [q₁, List.getD_eq_getElem?_getD, List.getElem?_eq_getElem hi']
  have g₂ : ∀ i, i < n → t₂[i]? = some (q₂ i) := by
    intro i hi
    have hi' : i < t₂.length := by omega
    simp [q₂, List.getD_eq_getElem?_getD, List.getElem?_eq_getElem hi']
  have ker : ∀ i j, i < n → j < n → (q₁ i = q₁ j ↔ q₂ i = q₂ j) := by
    intro i j hi hj
    have := hker i j hi hj
    rw [g₁ i hi, g₁ j hj, g₂ i hi, g₂ j hj, Option.some.injEq, Option.some.injEq] at this
    exact this
  have onto₁ : ∀ c, c < k₁ → ∃ i, i < n ∧ q₁ i = c := by
    intro c hc
    obtain ⟨i, hi⟩ := List.mem_iff_getElem?.1 (on₁ c hc)
    have hin : i < n := l₁ ▸ (List.getElem?_eq_some_iff.1 hi).1
    rw [g₁ i hin] at hi
    exact ⟨i, hin, Option.some.inj hi⟩
  have onto₂ : ∀ c, c < k₂ → ∃ i, i < n ∧ q₂ i = c := by
    intro c hc
    obtain ⟨i, hi⟩ := List.mem_iff_getElem?.1 (on₂ c hc)
    have hin : i < n := l₂ ▸ (List.getElem?_eq_some_iff.1 hi).1
    rw [g₂ i hin] at hi
    exact ⟨i, hin, Option.some.inj hi⟩
  have lt₂' : ∀ i, i < n → q₂ i < k₂ := fun i hi => lt₂ _ (List.mem_of_getElem? (g₂ i hi))
  have lt₁' : ∀ i, i < n → q₁ i < k₁ := fun i hi => lt₁ _ (List.mem_of_getElem? (g₁ i hi))
  have key : ∀ i, i < n → q₂ (invOn n q₁ (q₁ i)) = q₂ i := by
    intro i hi
    obtain ⟨h1, h2⟩ := invOn_spec (n := n) (π := q₁) (k := q₁ i) ⟨i, hi, rfl⟩
    exact (ker _ _ h1 hi).1 h2
  have hbij : BijOn k₁ k₂ (fun k => q₂ (invOn n q₁ k)) := by
    refine ⟨?_, ?_, ?_⟩
    · intro k hk
      exact lt₂' _ (invOn_spec (onto₁ k hk)).1
    · intro k l hk hl hkl
      obtain ⟨a1, a2⟩ := invOn_spec (onto₁ k hk)
      obtain ⟨b1, b2⟩ := invOn_spec (onto₁ l hl)
      have := (ker _ _ a1 b1).2 hkl
      rw [a2, b2] at this
      exact this
    · intro m hm
      obtain ⟨i, hi, rfl⟩ := onto₂ m hm
      exact ⟨q₁ i, lt₁' i hi, key i hi⟩
  refine ⟨hbij.card_eq, _, hbij, ?_⟩
  apply List.ext_getElem?
  intro i
  rw [List.getElem?_map]
  by_cases hi : i < n
  · rw [g₁ i hi, g₂ i hi, Option.map_some, key i hi]
  · rw [List.getElem?_eq_none (by omega), List.getElem?_eq_none (by omega)]
    rfl

/-! ### lifting a relation on values to results -/

/-- both results are `none`, or both panic at the same site, or both are values related by `R` -/
def ResRel {α : Type} (R : α → α → Prop) : Res α → Res α → Prop
  | .ok a, .ok b => R a b
  | .none, .none => True
  | .panic s, .panic s' => s = s'
  | _, _ => False

end OH
