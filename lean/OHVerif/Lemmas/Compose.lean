/-
  Helper lemmas for C01 (composition of open hypergraphs): deep well-formedness unpacked,
  assembling plain edges from segment lists, the closed form of `OHG.tensor` and of
  `OHG.compose` on well-formed composable arguments (for every lawful backend), and the proof
  that the result is the gluing of the two plain diagrams.
  Everything lives in the namespace `OH.Compose` (no clashes with other helper libraries).
-/
import OHVerif.Props.C06
import OHVerif.Lemmas.Segs
import OHVerif.Lemmas.Quot

namespace OH.Compose
open OH Relation

variable {O A : Type}

/-! ### deep well-formedness, unpacked -/

structure WF (f : OHG O A) : Prop where
  sv : f.h.s.valid = true
  sw : f.h.s.values.WF
  tv : f.h.t.valid = true
  tw : f.h.t.values.WF
  sl : f.h.s.len = f.h.x.length
  tl : f.h.t.len = f.h.x.length
  sn : f.h.s.values.target = f.h.w.length
  tn : f.h.t.values.target = f.h.w.length
  iw : f.s.WF
  ow : f.t.WF
  it : f.s.target = f.h.w.length
  ot : f.t.target = f.h.w.length

theorem sources_wf_of_valid {V : Type} [HasLen V] (c : IC V) (h : c.valid = true) :
    c.sources.WF := by
  have h1 := ((IC.valid_iff c).1 h).1
  intro x hx
  have := le_sum_of_mem' _ x hx
  omega

theorem wf_iff (f : OHG O A) : f.wf = true ↔ WF f := by
  simp only [OHG.wf, HG.wf, IC.wf, Bool.and_eq_true, beq_iff_eq, FinFun.wf_iff]
  constructor
  · rintro ⟨⟨⟨⟨⟨⟨⟨⟨⟨⟨⟨a, _⟩, c⟩, ⟨⟨d, _⟩, e⟩⟩, f1⟩, f2⟩, f3⟩, f4⟩, f5⟩, f6⟩, f7⟩, f8⟩
    exact ⟨a, c, d, e, f1, f2, f3, f4, f5, f6, f7, f8⟩
  · intro h
    exact ⟨⟨⟨⟨⟨⟨⟨⟨⟨⟨⟨h.sv, sources_wf_of_valid _ h.sv⟩, h.sw⟩, ⟨⟨h.tv, sources_wf_of_valid _ h.tv⟩, h.tw⟩⟩,
      h.sl⟩, h.tl⟩, h.sn⟩, h.tn⟩, h.iw⟩, h.ow⟩, h.it⟩, h.ot⟩

/-! ### assembling plain edges from labels and two lists of segments -/

def mkEdges (x : List A) (S T : List (List Nat)) : List (PEdge A) :=
  List.zipWith (fun x st => ⟨x, st.1, st.2⟩) x (S.zip T)

theorem toPlainEdges_eq (h : HG O A) : h.toPlainEdges = mkEdges h.x h.s.segs h.t.segs := rfl

theorem mkEdges_append (x1 x2 : List A) (S1 S2 T1 T2 : List (List Nat))
    (h1 : x1.length = S1.length) (h2 : S1.length = T1.length) :
    mkEdges (x1 ++ x2) (S1 ++ S2) (T1 ++ T2) = mkEdges x1 S1 T1 ++ mkEdges x2 S2 T2 := by
  unfold mkEdges
  rw [List.zip_append h2, List.zipWith_append]
  simp [h1, h2]

theorem mkEdges_map (φ : Nat → Nat) (x : List A) (S T : List (List Nat)) :
    mkEdges x (S.map (·.map φ)) (T.map (·.map φ)) = (mkEdges x S T).map (PEdge.mapNodes φ) := by
  induction x generalizing S T with
  | nil => simp [mkEdges]
  | cons a xs ih =>
    cases S with
    | nil => simp [mkEdges]
    | cons s S =>
      cases T with
      | nil => simp [mkEdges]
      | cons t T =>
        have := ih S T
        simp only [mkEdges] at this
        simp [mkEdges, this, PEdge.mapNodes]

theorem mem_mkEdges {x : List A} {S T : List (List Nat)} {e : PEdge A} (h : e ∈ mkEdges x S T) :
    e.src ∈ S ∧ e.tgt ∈ T := by
  induction x generalizing S T with
  | nil => simp [mkEdges] at h
  | cons a xs ih =>
    cases S with
    | nil => simp [mkEdges] at h
    | cons s S =>
      cases T with
      | nil => simp [mkEdges] at h
      | cons t T =>
        simp only [mkEdges, List.zip_cons_cons, List.zipWith_cons_cons, List.mem_cons] at h
        rcases h with rfl | h
        · simp
        · have := ih (S := S) (T := T) h
          exact ⟨List.mem_cons_of_mem _ this.1, List.mem_cons_of_mem _ this.2⟩

/-- the plain view of a well-formed open hypergraph is a well-formed plain diagram -/
theorem toPlain_wf {f : OHG O A} (hf : WF f) : f.toPlain.wf = true := by
  refine (PDiag.wf_iff _).2 ⟨?_, ?_, ?_⟩
  · intro i hi
    have := hf.iw i hi
    rw [hf.it] at this
    exact this
  · intro i hi
    have := hf.ow i hi
    rw [hf.ot] at this
    exact this
  · intro e he
    obtain ⟨h1, h2⟩ := mem_mkEdges (show e ∈ mkEdges f.h.x f.h.s.segs f.h.t.segs from he)
    constructor
    · intro v hv
      have := hf.sw v (mem_of_mem_splitSegs _ _ _ _ h1 hv)
      rw [hf.sn] at this
      exact this
    · intro v hv
      have := hf.tw v (mem_of_mem_splitSegs _ _ _ _ h2 hv)
      rw [hf.tn] at this
      exact this

/-! ### tensor -/

/-- the segmented array `IC.tensor` returns on valid arguments -/
def tensIC (c d : IC FinFun) : IC FinFun :=
  ⟨⟨c.sources.table ++ d.sources.table, (c.sources.table ++ d.sources.table).sum + 1⟩,
    ⟨c.values.table ++ d.values.table.map (c.values.target + ·),
      c.values.target + d.values.target⟩⟩

theorem tensor_ok (f g : OHG O A) (hf : WF f) (hg : WF g) :
    OHG.tensor f g = .ok ⟨FinFun.tensor f.s g.s, FinFun.tensor f.t g.t,
      ⟨tensIC f.h.s g.h.s, tensIC f.h.t g.h.t, f.h.w ++ g.h.w, f.h.x ++ g.h.x⟩⟩ := by
  simp only [OHG.tensor, HG.coproduct, IC.tensor_eq _ _ hf.sv hg.sv, IC.tensor_eq _ _ hf.tv hg.tv,
    Res.ok_bind, Res.pure_eq, tensIC]

theorem tensIC_segs_map (c d : IC FinFun) (hc : c.valid = true) (φ : Nat → Nat) (k : Nat) :
    (⟨(tensIC c d).sources, ⟨(tensIC c d).values.table.map φ, k⟩⟩ : IC FinFun).segs =
      (c.segs ++ d.segs.map (·.map (c.values.target + ·))).map (·.map φ) := by
  have hc2 := ((IC.valid_iff c).1 hc).2
  show splitSegs _ _ = _
  simp only [tensIC]
  rw [splitSegs_map, splitSegs_append _ _ _ _ hc2, splitSegs_map]
  rfl

theorem tensIC_mapped_valid (c d : IC FinFun) (hc : c.valid = true) (hd : d.valid = true)
    (φ : Nat → Nat) (k : Nat) :
    (⟨(tensIC c d).sources, ⟨(tensIC c d).values.table.map φ, k⟩⟩ : IC FinFun).valid = true := by
  have hc2 := ((IC.valid_iff c).1 hc).2
  have hd2 := ((IC.valid_iff d).1 hd).2
  apply IC.mk_valid _ _ rfl
  simp only [tensIC, IC.len_finfun, List.length_map, List.length_append, List.sum_append] at *
  omega

/-! ### the type equation, pointwise -/

theorem target_eq (f : OHG O A) (hf : WF f) :
    f.target = .ok (Prim.gatherP f.h.w f.t.table) := by
  simp only [OHG.target, FinFun.composeSemi_ok f.t f.h.w hf.ow hf.ot, Res.unwrap_ok]

theorem source_eq (f : OHG O A) (hf : WF f) :
    f.source = .ok (Prim.gatherP f.h.w f.s.table) := by
  simp only [OHG.source, FinFun.composeSemi_ok f.s f.h.w hf.iw hf.it, Res.unwrap_ok]

theorem outs_lt {f : OHG O A} (hf : WF f) : ∀ i ∈ f.t.table, i < f.h.w.length := fun i hi => by
  have := hf.ow i hi; rw [hf.ot] at this; exact this

theorem ins_lt {f : OHG O A} (hf : WF f) : ∀ i ∈ f.s.table, i < f.h.w.length := fun i hi => by
  have := hf.iw i hi; rw [hf.it] at this; exact this

theorem boundary_length {f g : OHG O A} (hf : WF f) (hg : WF g)
    (hty : Prim.gatherP f.h.w f.t.table = Prim.gatherP g.h.w g.s.table) :
    f.t.table.length = g.s.table.length := by
  have := congrArg List.length hty
  rwa [FinFun.gatherP_length _ _ (outs_lt hf), FinFun.gatherP_length _ _ (ins_lt hg)] at this

theorem boundary_labels {f g : OHG O A} (hf : WF f) (hg : WF g)
    (hty : Prim.gatherP f.h.w f.t.table = Prim.gatherP g.h.w g.s.table) (k a b : Nat)
    (ha : f.t.table[k]? = some a) (hb : g.s.table[k]? = some b) : f.h.w[a]? = g.h.w[b]? := by
  have := congrArg (·[k]?) hty
  simp only [FinFun.gatherP_getElem? _ _ (outs_lt hf), FinFun.gatherP_getElem? _ _ (ins_lt hg),
    ha, hb, Option.bind_some] at this
  exact this

/-! ### the closed form of `compose` -/

/-- everything `compose` computes on well-formed arguments whose boundary types agree -/
theorem compose_eq [DecidableEq O] (B : Backend) (hB : B.Lawful) (f g : OHG O A)
    (hf : WF f) (hg : WF g)
    (hty : Prim.gatherP f.h.w f.t.table = Prim.gatherP g.h.w g.s.table) :
    ∃ (q : FinFun) (w' : List O),
      q.table.length = f.h.w.length + g.h.w.length ∧ q.WF ∧
      (∀ c : Nat, c < q.target → ∃ i : Nat, i < f.h.w.length + g.h.w.length ∧ q.table[i]? = some c) ∧
      (∀ i j : Nat, i < f.h.w.length + g.h.w.length → j < f.h.w.length + g.h.w.length →
        (q.table[i]? = q.table[j]? ↔
          EqvGen (fun a b => ∃ k : Nat, f.t.table[k]? = some a ∧
            (g.s.table[k]?).map (f.h.w.length + ·) = some b) i j)) ∧
      w'.length = q.target ∧
      (∀ i : Nat, i < f.h.w.length + g.h.w.length →
        (q.table[i]?.bind fun c => w'[c]?) = (f.h.w ++ g.h.w)[i]?) ∧
      OHG.compose B f g = .ok
        ⟨⟨f.s.table.map (fun i => q.table.getD i 0), q.target⟩,
         ⟨(g.t.table.map (f.h.w.length + ·)).map (fun i => q.table.getD i 0), q.target⟩,
         ⟨⟨(tensIC f.h.s g.h.s).sources,
            ⟨(tensIC f.h.s g.h.s).values.table.map (fun i => q.table.getD i 0), q.target⟩⟩,
          ⟨(tensIC f.h.t g.h.t).sources,
            ⟨(tensIC f.h.t g.h.t).values.table.map (fun i => q.table.getD i 0), q.target⟩⟩,
          w', f.h.x ++ g.h.x⟩⟩ := by
  have hlen := boundary_length hf hg hty
  -- the coequalizer of the two injected legs
  have hL : (FinFun.inject0 f.t g.h.w.length).WF := C06.inject0_wf _ _ hf.ow
  have hR : (FinFun.inject1 g.s f.h.w.length).WF := C06.inject1_wf _ _ hg.iw
  have hsrc : (FinFun.inject0 f.t g.h.w.length).source = (FinFun.inject1 g.s f.h.w.length).source := by
    simp [FinFun.source, FinFun.inject0, FinFun.inject1, hlen]
  have htgt : (FinFun.inject0 f.t g.h.w.length).target = (FinFun.inject1 g.s f.h.w.length).target := by
    simp only [FinFun.inject0, FinFun.inject1, hf.ot, hg.it]
    omega
  have hLt : (FinFun.inject0 f.t g.h.w.length).target = f.h.w.length + g.h.w.length := by
    simp only [FinFun.inject0, hf.ot]; omega
  obtain ⟨q, hq, hqs, hqw, hqo, hqk, _⟩ := C06.coequalizer_spec B hB _ _ hL hR hsrc htgt
  rw [hLt] at hqs hqo hqk
  have hqs' : q.table.length = f.h.w.length + g.h.w.length := hqs
  have hgetD : ∀ i, i < f.h.w.length + g.h.w.length → q.table[i]? = some (q.table.getD i 0) := by
    intro i hi
    rw [← hqs'] at hi
    simp [List.getD_eq_getElem?_getD, List.getElem?_eq_getElem hi]
  -- the generating relation in the vocabulary of `glueRel`
  have hrel : (fun a b => ∃ k : Nat, (FinFun.inject0 f.t g.h.w.length).table[k]? = some a ∧
        (FinFun.inject1 g.s f.h.w.length).table[k]? = some b) =
      (fun a b => ∃ k : Nat, f.t.table[k]? = some a ∧
        (g.s.table[k]?).map (f.h.w.length + ·) = some b) := by
    funext a b
    simp only [FinFun.inject0, FinFun.inject1, List.getElem?_map]
  rw [hrel] at hqk
  -- the labels are constant on the fibres of `q`
  have hsurj : C06.Surj q := by
    intro c hc
    obtain ⟨i, _, hi⟩ := hqo c hc
    exact List.mem_of_getElem? hi
  have key : ∀ i j : Nat, EqvGen (fun a b => ∃ k : Nat, f.t.table[k]? = some a ∧
        (g.s.table[k]?).map (f.h.w.length + ·) = some b) i j →
      (f.h.w ++ g.h.w)[i]? = (f.h.w ++ g.h.w)[j]? := by
    intro i j e
    induction e with
    | rel a b hab =>
      obtain ⟨k, hka, hkb⟩ := hab
      cases hgk : g.s.table[k]? with
      | none => rw [hgk] at hkb; cases hkb
      | some b' =>
        rw [hgk] at hkb
        simp only [Option.map_some, Option.some.injEq] at hkb
        subst hkb
        have ha : a < f.h.w.length := outs_lt hf a (List.mem_of_getElem? hka)
        rw [List.getElem?_append_left ha, List.getElem?_append_right (Nat.le_add_right _ _),
          Nat.add_sub_cancel_left]
        exact boundary_labels hf hg hty k a b' hka hgk
    | refl a => rfl
    | symm a b _ ih => exact ih.symm
    | trans a b c _ _ ih1 ih2 => exact ih1.trans ih2
  have hconst : FinFun.ConstOnFibres q (f.h.w ++ g.h.w) := by
    intro i j hij hi hj
    have hi' : i < f.h.w.length + g.h.w.length := hqs ▸ hi
    have hj' : j < f.h.w.length + g.h.w.length := hqs ▸ hj
    exact key i j ((hqk i j hi' hj').1 hij)
  obtain ⟨hu, _, _⟩ := C06.universal_spec B q hqw hsurj (f.h.w ++ g.h.w)
  obtain ⟨w', hw', hw'l, hw'p, _, _⟩ := hu (by rw [hqs]; simp) hconst
  rw [hqs] at hw'p
  refine ⟨q, w', hqs', hqw, hqo, hqk, hw'l, hw'p, ?_⟩
  -- the two interface legs
  have hs : FinFun.compose (FinFun.inject0 f.s g.h.w.length) q =
      .ok ⟨f.s.table.map (fun i => q.table.getD i 0), q.target⟩ := by
    apply FinFun.compose_ok_map (FinFun.inject0 f.s g.h.w.length) q (fun i => q.table.getD i 0)
    · show g.h.w.length + f.s.target = q.source
      rw [hqs, hf.it]; omega
    · intro i hi
      have := ins_lt hf i hi
      exact hgetD i (by omega)
  have ht : FinFun.compose (FinFun.inject1 g.t f.h.w.length) q =
      .ok ⟨(g.t.table.map (f.h.w.length + ·)).map (fun i => q.table.getD i 0), q.target⟩ := by
    apply FinFun.compose_ok_map (FinFun.inject1 g.t f.h.w.length) q (fun i => q.table.getD i 0)
    · show f.h.w.length + g.t.target = q.source
      rw [hqs, hg.ot]
    · intro i hi
      obtain ⟨j, hj, rfl⟩ := List.mem_map.1 hi
      have := outs_lt hg j hj
      exact hgetD _ (by omega)
  -- the hypergraph
  have hms : IC.mapValues (tensIC f.h.s g.h.s) q = .ok ⟨(tensIC f.h.s g.h.s).sources,
      ⟨(tensIC f.h.s g.h.s).values.table.map (fun i => q.table.getD i 0), q.target⟩⟩ := by
    apply IC.mapValues_eq
    · exact C06.tensor_wf _ _ hf.sw hg.sw
    · show f.h.s.values.target + g.h.s.values.target = q.source
      rw [hqs, hf.sn, hg.sn]
  have hmt : IC.mapValues (tensIC f.h.t g.h.t) q = .ok ⟨(tensIC f.h.t g.h.t).sources,
      ⟨(tensIC f.h.t g.h.t).values.table.map (fun i => q.table.getD i 0), q.target⟩⟩ := by
    apply IC.mapValues_eq
    · exact C06.tensor_wf _ _ hf.tw hg.tw
    · show f.h.t.values.target + g.h.t.values.target = q.source
      rw [hqs, hf.tn, hg.tn]
  simp only [OHG.compose, target_eq f hf, source_eq g hg, Res.ok_bind, hty, ne_eq,
    not_true_eq_false, if_false, hq, Res.unwrap_ok, hs, ht, tensor_ok f g hf hg,
    HG.coequalizeVertices, hms, hmt, hw', Res.pure_eq]

/-- `compose` reports absence when the boundary types differ -/
theorem compose_none [DecidableEq O] (B : Backend) (f g : OHG O A) (hf : WF f) (hg : WF g)
    (hty : Prim.gatherP f.h.w f.t.table ≠ Prim.gatherP g.h.w g.s.table) :
    OHG.compose B f g = .none := by
  simp only [OHG.compose, target_eq f hf, source_eq g hg, Res.ok_bind, ne_eq, hty,
    not_false_eq_true, if_true]

/-! ### the result is well-formed and is the gluing -/

theorem compose_spec [DecidableEq O] (B : Backend) (hB : B.Lawful) (f g : OHG O A)
    (hf : WF f) (hg : WF g)
    (hty : Prim.gatherP f.h.w f.t.table = Prim.gatherP g.h.w g.s.table) :
    ∃ r, OHG.compose B f g = .ok r ∧ WF r ∧ IsGluing f.toPlain g.toPlain r.toPlain := by
  obtain ⟨q, w', hql, hqw, hqo, hqk, hwl, hwp, hr⟩ := compose_eq B hB f g hf hg hty
  refine ⟨_, hr, ?_, ?_⟩
  · -- well-formedness
    have hφ : ∀ i, i < f.h.w.length + g.h.w.length → q.table.getD i 0 < q.target := by
      intro i hi
      rw [← hql] at hi
      apply hqw
      simp [List.getD_eq_getElem?_getD, List.getElem?_eq_getElem hi]
    refine ⟨tensIC_mapped_valid _ _ hf.sv hg.sv _ _, ?_, tensIC_mapped_valid _ _ hf.tv hg.tv _ _, ?_,
      ?_, ?_, hwl.symm, hwl.symm, ?_, ?_, hwl.symm, hwl.symm⟩
    · intro y hy
      obtain ⟨i, hi, rfl⟩ := List.mem_map.1 hy
      have := C06.tensor_wf _ _ hf.sw hg.sw i hi
      apply hφ
      rw [← hf.sn, ← hg.sn]; exact this
    · intro y hy
      obtain ⟨i, hi, rfl⟩ := List.mem_map.1 hy
      have := C06.tensor_wf _ _ hf.tw hg.tw i hi
      apply hφ
      rw [← hf.tn, ← hg.tn]; exact this
    · have h1 := hf.sl
      have h2 := hg.sl
      simp only [IC.len, FinFun.source, tensIC, List.length_append] at *
      omega
    · have h1 := hf.tl
      have h2 := hg.tl
      simp only [IC.len, FinFun.source, tensIC, List.length_append] at *
      omega
    · intro y hy
      obtain ⟨i, hi, rfl⟩ := List.mem_map.1 hy
      have := ins_lt hf i hi
      exact hφ i (by omega)
    · intro y hy
      obtain ⟨i, hi, rfl⟩ := List.mem_map.1 hy
      obtain ⟨j, hj, rfl⟩ := List.mem_map.1 hi
      have := outs_lt hg j hj
      exact hφ _ (by omega)
  · -- the gluing
    have hn : (gluePre f.toPlain g.toPlain).n = f.h.w.length + g.h.w.length := by
      rw [gluePre_n]; rfl
    have hgetD : ∀ i, i < f.h.w.length + g.h.w.length → q.table[i]? = some (q.table.getD i 0) := by
      intro i hi
      rw [← hql] at hi
      simp [List.getD_eq_getElem?_getD, List.getElem?_eq_getElem hi]
    refine ⟨fun i => q.table.getD i 0, ?_, ?_, ?_, ?_, ?_, rfl, rfl⟩
    · intro i hi
      rw [hn] at hi
      show q.table.getD i 0 < w'.length
      rw [hwl]
      exact hqw.getElem?_lt (hgetD i hi)
    · intro k hk
      have hk' : k < q.target := by rw [← hwl]; exact hk
      obtain ⟨i, hi, hik⟩ := hqo k hk'
      refine ⟨i, by rw [hn]; exact hi, ?_⟩
      have := hgetD i hi
      rw [hik] at this
      exact (Option.some.inj this).symm
    · intro i j hi hj
      rw [hn] at hi hj
      have h1 := hqk i j hi hj
      rw [hgetD i hi, hgetD j hj, Option.some.injEq] at h1
      rw [h1]
      exact (eqvGen_restrict_iff
        (glueRel_lt (toPlain_wf hf) (toPlain_wf hg)) i j).symm
    · intro i hi
      rw [hn] at hi
      have := hwp i hi
      rw [hgetD i hi, Option.bind_some] at this
      exact this
    · show mkEdges _ _ _ = _
      rw [tensIC_segs_map _ _ hf.sv, tensIC_segs_map _ _ hf.tv, mkEdges_map, hf.sn, hf.tn,
        mkEdges_append _ _ _ _ _ _ (by rw [IC.segs_length, hf.sl])
          (by rw [IC.segs_length, IC.segs_length, hf.sl, hf.tl]),
        mkEdges_map]
      rfl

end OH.Compose
