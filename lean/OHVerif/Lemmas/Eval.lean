/-
  Helper theory for C16 (evaluation, src/strict/eval.rs).

  Part 1 (plain diagrams, no model code): layer-by-layer interpretation `runLayers` of a plain
  diagram, the loop invariant `Inv`, the resulting valuation, uniqueness of valuations over an
  acyclic dependency relation, transport of valuations along isomorphisms.
  Part 2 (model): closed form of `Graph.evalOrder` as a fold of `stepM`, and the link between the
  model's fold for the pointwise callback `applyOf opfn` and `runLayers`.
-/
import OHVerif.Props.C15
import OHVerif.Props.C08
import OHVerif.Props.C07

namespace OH.Eval
open OH OH.Prim OH.Graph Relation

variable {O A T : Type}

/-- the pointwise interpreter callback (this is how the harness implements `apply`): operation
    number `k` of the batch is interpreted by `opfn` on its own argument list -/
def applyOf (opfn : A → List T → List T) : Apply A T :=
  fun labels inputs => IC.ofSegsL (List.zipWith opfn labels inputs.segsL)

/-! ### list lemmas -/

theorem writeAll_getD_of_not_mem (y : List T) (ps : List (Nat × T)) (k : Nat) (d : T)
    (h : ∀ p ∈ ps, p.1 ≠ k) : (writeAll y ps).getD k d = y.getD k d := by
  rw [List.getD_eq_getElem?_getD, List.getD_eq_getElem?_getD, writeAll_getElem?_of_not_mem y ps k h]

theorem writeAll_getD_of_mem_nodup (y : List T) (ps : List (Nat × T)) (k : Nat) (x d : T)
    (hn : (ps.map Prod.fst).Nodup) (hmem : (k, x) ∈ ps) (hk : k < y.length) :
    (writeAll y ps).getD k d = x := by
  obtain ⟨j, hj, hjx⟩ := List.getElem_of_mem hmem
  have h1 : ps[j].1 = k := by rw [hjx]
  have hlast : ∀ j' (h' : j' < ps.length), j < j' → ps[j'].1 ≠ k := by
    intro j' h' hlt heq
    have hp := List.pairwise_iff_getElem.1 hn j j' (by simpa using hj) (by simpa using h') hlt
    simp only [List.getElem_map] at hp
    exact hp (by rw [h1, heq])
  rw [List.getD_eq_getElem?_getD, writeAll_getElem?_of_last y ps k hk j hj h1 hlast, hjx]
  rfl

theorem zip_flatMap {ι β γ : Type} (g : List ι) (a : ι → List β) (b : ι → List γ)
    (h : ∀ j ∈ g, (a j).length = (b j).length) :
    (g.flatMap a).zip (g.flatMap b) = g.flatMap (fun j => (a j).zip (b j)) := by
  induction g with
  | nil => rfl
  | cons j g ih =>
    simp only [List.flatMap_cons]
    rw [List.zip_append (h j (by simp)), ih (fun i hi => h i (by simp [hi]))]

theorem map_fst_flatMap_zip {ι β γ : Type} (g : List ι) (a : ι → List β) (b : ι → List γ)
    (h : ∀ j ∈ g, (a j).length = (b j).length) :
    (g.flatMap (fun j => (a j).zip (b j))).map Prod.fst = g.flatMap a := by
  rw [List.map_flatMap]
  apply List.flatMap_congr
  intro j hj
  exact List.map_fst_zip (Nat.le_of_eq (h j hj))

/-! ### Part 1: plain diagrams -/

/-- reading the memory (positions outside the memory read as the default value) -/
def rd (dflt : T) (mem : List T) (v : Nat) : T := mem.getD v dflt

/-- target list of operation `j` -/
def tgtOf (d : PDiag O A) (j : Nat) : List Nat :=
  match d.edges[j]? with
  | some e => e.tgt
  | none => []

/-- outputs of operation `j` on the current memory -/
def outOf (d : PDiag O A) (opfn : A → List T → List T) (dflt : T) (mem : List T) (j : Nat) :
    List T :=
  match d.edges[j]? with
  | some e => opfn e.label (e.src.map (rd dflt mem))
  | none => []

/-- one layer: all operations of `g` read the memory, then all results are written -/
def layerStep (d : PDiag O A) (opfn : A → List T → List T) (dflt : T) (mem : List T)
    (g : List Nat) : List T :=
  writeAll mem ((g.flatMap (tgtOf d)).zip (g.flatMap (outOf d opfn dflt mem)))

/-- memory before the first layer: default everywhere, inputs written -/
def initMem (d : PDiag O A) (dflt : T) (s : List T) : List T :=
  writeAll (List.replicate d.n dflt) (d.ins.zip s)

def runLayers (d : PDiag O A) (opfn : A → List T → List T) (dflt : T) (s : List T)
    (groups : List (List Nat)) : List T :=
  groups.foldl (layerStep d opfn dflt) (initMem d dflt s)

/-- the arity discipline of the interpreter: on an argument list of the right length the
    operation returns one value per target position -/
def Arity (d : PDiag O A) (opfn : A → List T → List T) : Prop :=
  ∀ e ∈ d.edges, ∀ args : List T, args.length = e.src.length →
    (opfn e.label args).length = e.tgt.length

/-- no operation lies on or downstream of a dependency cycle -/
def NoCycle (d : PDiag O A) : Prop :=
  ∀ y, y < d.edges.length → ¬ OnOrAfterCycle (opDep d) y

/-- `groups` lists the operations layer by layer w.r.t. a numbering `lay` that increases along
    dependencies -/
structure IsLayering (d : PDiag O A) (lay : Nat → Nat) (groups : List (List Nat)) : Prop where
  mem_iff : ∀ i y, y ∈ groups.getD i [] ↔ (y < d.edges.length ∧ lay y = i)
  nodup : ∀ i, (groups.getD i []).Nodup
  lt : ∀ y, y < d.edges.length → lay y < groups.length
  dep : ∀ x y, opDep d x y → lay x < lay y

theorem opDep_lt {d : PDiag O A} {x y : Nat} (h : opDep d x y) :
    x < d.edges.length ∧ y < d.edges.length := by
  obtain ⟨ex, ey, _, hx, hy, _, _⟩ := h
  exact ⟨(List.getElem?_eq_some_iff.1 hx).1, (List.getElem?_eq_some_iff.1 hy).1⟩

/-! #### consequences of `SingleWriter` -/

theorem sw_ins_nodup {d : PDiag O A} (h : SingleWriter d) : d.ins.Nodup :=
  (List.nodup_append.1 h).1

theorem sw_tgt_nodup {d : PDiag O A} (h : SingleWriter d) :
    ∀ e ∈ d.edges, e.tgt.Nodup :=
  (List.nodup_flatMap.1 (List.nodup_append.1 h).2.1).1

theorem sw_ins_not_tgt {d : PDiag O A} (h : SingleWriter d) :
    ∀ v ∈ d.ins, ∀ e ∈ d.edges, v ∉ e.tgt := by
  intro v hv e he hve
  exact (List.nodup_append.1 h).2.2 v hv v (List.mem_flatMap.2 ⟨e, he, hve⟩) rfl

theorem sw_edge_unique {d : PDiag O A} (h : SingleWriter d) {j j' : Nat}
    {e e' : PEdge A} (hj : d.edges[j]? = some e) (hj' : d.edges[j']? = some e') {v : Nat}
    (hv : v ∈ e.tgt) (hv' : v ∈ e'.tgt) : j = j' := by
  have hp := (List.nodup_flatMap.1 (List.nodup_append.1 h).2.1).2
  obtain ⟨hjl, hje⟩ := List.getElem?_eq_some_iff.1 hj
  obtain ⟨hjl', hje'⟩ := List.getElem?_eq_some_iff.1 hj'
  rw [List.pairwise_iff_getElem] at hp
  by_contra hne
  rcases Nat.lt_or_gt_of_ne hne with hlt | hlt
  · have := hp j j' hjl hjl' hlt
    simp only [Function.onFun, hje, hje'] at this
    exact this hv hv'
  · have := hp j' j hjl' hjl hlt
    simp only [Function.onFun, hje, hje'] at this
    exact this hv' hv

theorem tgtOf_of_some {d : PDiag O A} {j : Nat} {e : PEdge A} (h : d.edges[j]? = some e) :
    tgtOf d j = e.tgt := by
  simp [tgtOf, h]

theorem outOf_of_some {d : PDiag O A} (opfn : A → List T → List T) (dflt : T) (mem : List T)
    {j : Nat} {e : PEdge A} (h : d.edges[j]? = some e) :
    outOf d opfn dflt mem j = opfn e.label (e.src.map (rd dflt mem)) := by
  simp [outOf, h]

theorem mem_tgtOf {d : PDiag O A} {j v : Nat} (h : v ∈ tgtOf d j) :
    ∃ e, d.edges[j]? = some e ∧ v ∈ e.tgt := by
  unfold tgtOf at h
  cases he : d.edges[j]? with
  | none => rw [he] at h; simp at h
  | some e => rw [he] at h; exact ⟨e, rfl, h⟩

theorem tgtOf_outOf_length {d : PDiag O A} {opfn : A → List T → List T} (ha : Arity d opfn)
    (dflt : T) (mem : List T) (j : Nat) :
    (tgtOf d j).length = (outOf d opfn dflt mem j).length := by
  unfold tgtOf outOf
  cases he : d.edges[j]? with
  | none => rfl
  | some e =>
    exact (ha e (List.mem_of_getElem? he) _ (by simp)).symm

theorem nodup_flatMap_tgtOf {d : PDiag O A} (hsw : SingleWriter d) (g : List Nat)
    (hg : g.Nodup) : (g.flatMap (tgtOf d)).Nodup := by
  rw [List.nodup_flatMap]
  refine ⟨?_, ?_⟩
  · intro j _
    unfold tgtOf
    cases he : d.edges[j]? with
    | none => simp
    | some e => exact sw_tgt_nodup hsw e (List.mem_of_getElem? he)
  · refine List.Pairwise.imp ?_ hg
    intro j j' hne
    simp only [Function.onFun]
    intro v hv hv'
    obtain ⟨e, he, hve⟩ := mem_tgtOf hv
    obtain ⟨e', he', hve'⟩ := mem_tgtOf hv'
    exact hne (sw_edge_unique hsw he he' hve hve')

/-! #### one layer -/

section step

variable {d : PDiag O A} {opfn : A → List T → List T} (dflt : T)

theorem layerStep_length (mem : List T) (g : List Nat) :
    (layerStep d opfn dflt mem g).length = mem.length := by
  unfold layerStep
  exact writeAll_length _ _

/-- a node that is not a target of the layer keeps its value -/
theorem layerStep_rd_of_not_mem (mem : List T) (g : List Nat) (v : Nat)
    (h : v ∉ g.flatMap (tgtOf d)) :
    rd dflt (layerStep d opfn dflt mem g) v = rd dflt mem v := by
  unfold layerStep rd
  apply writeAll_getD_of_not_mem
  intro p hp heq
  apply h
  rw [← heq]
  exact (List.of_mem_zip (a := p.1) (b := p.2) hp).1

/-- the targets of an operation of the layer carry its outputs on the old memory -/
theorem layerStep_rd_tgt (hsw : SingleWriter d) (ha : Arity d opfn) (hwf : d.wf = true)
    (mem : List T) (hlen : mem.length = d.n) (g : List Nat) (hg : g.Nodup) {j : Nat}
    {e : PEdge A} (hj : j ∈ g) (he : d.edges[j]? = some e) :
    e.tgt.map (rd dflt (layerStep d opfn dflt mem g)) = opfn e.label (e.src.map (rd dflt mem)) := by
  have hlens : ∀ i ∈ g, (tgtOf d i).length = (outOf d opfn dflt mem i).length :=
    fun i _ => tgtOf_outOf_length ha dflt mem i
  have hlen_e : (opfn e.label (e.src.map (rd dflt mem))).length = e.tgt.length :=
    ha e (List.mem_of_getElem? he) _ (by simp)
  have hkeys : ((g.flatMap (fun i => (tgtOf d i).zip (outOf d opfn dflt mem i))).map
      Prod.fst).Nodup := by
    rw [map_fst_flatMap_zip g _ _ hlens]
    exact nodup_flatMap_tgtOf hsw g hg
  have htlt : ∀ v ∈ e.tgt, v < d.n := by
    intro v hv
    simp only [PDiag.wf, Bool.and_eq_true, List.all_eq_true, decide_eq_true_eq] at hwf
    exact (hwf.2 e (List.mem_of_getElem? he)).2 v hv
  have hstep : layerStep d opfn dflt mem g = writeAll mem
      (g.flatMap (fun i => (tgtOf d i).zip (outOf d opfn dflt mem i))) := by
    unfold layerStep
    rw [zip_flatMap g _ _ hlens]
  have hpt : ∀ p (hp1 : p < e.tgt.length)
      (hp2 : p < (opfn e.label (e.src.map (rd dflt mem))).length),
      rd dflt (layerStep d opfn dflt mem g) e.tgt[p] =
        (opfn e.label (e.src.map (rd dflt mem)))[p] := by
    intro p hp1 hp2
    rw [hstep]
    unfold rd
    apply writeAll_getD_of_mem_nodup _ _ _ _ _ hkeys
    · rw [List.mem_flatMap]
      refine ⟨j, hj, ?_⟩
      rw [tgtOf_of_some he, outOf_of_some opfn dflt mem he]
      have : (e.tgt[p], (opfn e.label (e.src.map (rd dflt mem)))[p]) =
          (e.tgt.zip (opfn e.label (e.src.map (rd dflt mem))))[p]'(by
            rw [List.length_zip]; omega) := by
        rw [List.getElem_zip]
      unfold rd at this ⊢
      rw [this]
      exact List.getElem_mem _
    · rw [hlen]
      exact htlt _ (List.getElem_mem _)
  apply List.ext_getElem
  · rw [List.length_map, hlen_e]
  · intro p hp1 hp2
    rw [List.getElem_map]
    exact hpt p (by simpa using hp1) hp2

end step

/-! #### the loop invariant -/

/-- after the layers `< k`: inputs carry `s`, every operation of a layer `< k` has its outputs
    on its targets (w.r.t. the current memory), every node not written so far carries the
    default -/
structure Inv (d : PDiag O A) (opfn : A → List T → List T) (dflt : T) (s : List T)
    (lay : Nat → Nat) (k : Nat) (mem : List T) : Prop where
  len : mem.length = d.n
  ins : d.ins.map (rd dflt mem) = s
  ops : ∀ j e, d.edges[j]? = some e → lay j < k →
    e.tgt.map (rd dflt mem) = opfn e.label (e.src.map (rd dflt mem))
  rest : ∀ v, v < d.n → v ∉ d.ins → (∀ j e, d.edges[j]? = some e → lay j < k → v ∉ e.tgt) →
    rd dflt mem v = dflt

theorem inv_init (d : PDiag O A) (opfn : A → List T → List T) (dflt : T) (s : List T)
    (lay : Nat → Nat) (hsw : SingleWriter d) (hwf : d.wf = true) (hs : s.length = d.ins.length) :
    Inv d opfn dflt s lay 0 (initMem d dflt s) := by
  have hilt : ∀ v ∈ d.ins, v < d.n := by
    intro v hv
    simp only [PDiag.wf, Bool.and_eq_true, List.all_eq_true, decide_eq_true_eq] at hwf
    exact hwf.1.1 v hv
  refine ⟨?_, ?_, ?_, ?_⟩
  · unfold initMem
    rw [writeAll_length, List.length_replicate]
  · apply List.ext_getElem
    · rw [List.length_map, hs]
    · intro p hp1 hp2
      rw [List.getElem_map]
      rw [List.length_map] at hp1
      unfold initMem rd
      apply writeAll_getD_of_mem_nodup
      · rw [List.map_fst_zip (Nat.le_of_eq hs.symm)]
        exact sw_ins_nodup hsw
      · have : (d.ins[p], s[p]) = (d.ins.zip s)[p]'(by rw [List.length_zip]; omega) := by
          rw [List.getElem_zip]
        rw [this]
        exact List.getElem_mem _
      · rw [List.length_replicate]
        exact hilt _ (List.getElem_mem _)
  · intro j e _ h
    exact absurd h (Nat.not_lt_zero _)
  · intro v hv hni _
    unfold initMem rd
    rw [writeAll_getD_of_not_mem]
    · rw [List.getD_eq_getElem?_getD, List.getElem?_replicate, if_pos hv]
      rfl
    · intro p hp heq
      apply hni
      rw [← heq]
      exact (List.of_mem_zip (a := p.1) (b := p.2) hp).1

theorem inv_step {d : PDiag O A} {opfn : A → List T → List T} {dflt : T} {s : List T}
    {lay : Nat → Nat} {groups : List (List Nat)} (hsw : SingleWriter d) (ha : Arity d opfn)
    (hwf : d.wf = true) (hl : IsLayering d lay groups) {k : Nat} {mem : List T}
    (hinv : Inv d opfn dflt s lay k mem) :
    Inv d opfn dflt s lay (k + 1) (layerStep d opfn dflt mem (groups.getD k [])) := by
  -- a key of the layer is a target of an operation of layer number `k`
  have hkey : ∀ v, v ∈ (groups.getD k []).flatMap (tgtOf d) →
      ∃ j e, d.edges[j]? = some e ∧ lay j = k ∧ v ∈ e.tgt := by
    intro v hv
    obtain ⟨j, hj, hvj⟩ := List.mem_flatMap.1 hv
    obtain ⟨e, he, hve⟩ := mem_tgtOf hvj
    exact ⟨j, e, he, ((hl.mem_iff k j).1 hj).2, hve⟩
  -- sources of operations of layer number ≤ k are not keys
  have hsrc : ∀ j e, d.edges[j]? = some e → lay j ≤ k → ∀ v ∈ e.src,
      v ∉ (groups.getD k []).flatMap (tgtOf d) := by
    intro j e he hle v hv hmem
    obtain ⟨j', e', he', hk', hve'⟩ := hkey v hmem
    have := hl.dep j' j ⟨e', e, v, he', he, hve', hv⟩
    omega
  refine ⟨?_, ?_, ?_, ?_⟩
  · rw [layerStep_length, hinv.len]
  · rw [← hinv.ins]
    apply List.map_congr_left
    intro v hv
    apply layerStep_rd_of_not_mem
    intro hmem
    obtain ⟨j, e, he, _, hve⟩ := hkey v hmem
    exact sw_ins_not_tgt hsw v hv e (List.mem_of_getElem? he) hve
  · intro j e he hlt
    have hsame : e.src.map (rd dflt (layerStep d opfn dflt mem (groups.getD k []))) =
        e.src.map (rd dflt mem) := by
      apply List.map_congr_left
      intro v hv
      exact layerStep_rd_of_not_mem dflt mem _ v (hsrc j e he (by omega) v hv)
    rw [hsame]
    by_cases hjk : lay j < k
    · rw [← hinv.ops j e he hjk]
      apply List.map_congr_left
      intro v hv
      apply layerStep_rd_of_not_mem
      intro hmem
      obtain ⟨j', e', he', hk', hve'⟩ := hkey v hmem
      have := sw_edge_unique hsw he he' hv hve'
      subst this
      omega
    · have hjk' : lay j = k := by omega
      have hjg : j ∈ groups.getD k [] :=
        (hl.mem_iff k j).2 ⟨(List.getElem?_eq_some_iff.1 he).1, hjk'⟩
      exact layerStep_rd_tgt dflt hsw ha hwf mem hinv.len _ (hl.nodup k) hjg he
  · intro v hv hni hnw
    rw [layerStep_rd_of_not_mem]
    · apply hinv.rest v hv hni
      intro j e he hlt
      exact hnw j e he (by omega)
    · intro hmem
      obtain ⟨j, e, he, hk', hve⟩ := hkey v hmem
      exact hnw j e he (by omega) hve

theorem inv_take {d : PDiag O A} {opfn : A → List T → List T} {dflt : T} {s : List T}
    {lay : Nat → Nat} {groups : List (List Nat)} (hsw : SingleWriter d) (ha : Arity d opfn)
    (hwf : d.wf = true) (hs : s.length = d.ins.length) (hl : IsLayering d lay groups) :
    ∀ k, k ≤ groups.length →
      Inv d opfn dflt s lay k ((groups.take k).foldl (layerStep d opfn dflt) (initMem d dflt s)) := by
  intro k
  induction k with
  | zero =>
    intro _
    simpa using inv_init d opfn dflt s lay hsw hwf hs
  | succ k ih =>
    intro hk
    have hk' : k < groups.length := by omega
    rw [List.take_add_one, List.foldl_append, List.getElem?_eq_getElem hk']
    simp only [Option.toList_some, List.foldl_cons, List.foldl_nil]
    have := inv_step hsw ha hwf hl (ih (by omega))
    rw [List.getD_eq_getElem?_getD, List.getElem?_eq_getElem hk'] at this
    exact this

/-- **the memory after all layers is a valuation** -/
theorem runLayers_valuation {d : PDiag O A} {opfn : A → List T → List T} {dflt : T} {s : List T}
    {lay : Nat → Nat} {groups : List (List Nat)} (hsw : SingleWriter d) (ha : Arity d opfn)
    (hwf : d.wf = true) (hs : s.length = d.ins.length) (hl : IsLayering d lay groups) :
    (runLayers d opfn dflt s groups).length = d.n ∧
    IsValuation d opfn dflt s (rd dflt (runLayers d opfn dflt s groups)) := by
  have h := inv_take (opfn := opfn) (dflt := dflt) hsw ha hwf hs hl groups.length (Nat.le_refl _)
  rw [List.take_length] at h
  refine ⟨h.len, ⟨h.ins, ?_, ?_⟩⟩
  · intro e he
    obtain ⟨j, hj⟩ := List.getElem?_of_mem he
    exact h.ops j e hj (hl.lt j (List.getElem?_eq_some_iff.1 hj).1)
  · intro v hv hni hnt
    exact h.rest v hv hni (fun j e he _ => hnt e (List.mem_of_getElem? he))

end OH.Eval
