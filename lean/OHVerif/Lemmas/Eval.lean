/-
  Helper theory for C16 (evaluation, src/strict/eval.rs).

  Part 1 (plain diagrams, no model code): layer-by-layer interpretation `runLayers` of a plain
  diagram, the loop invariant `Inv`, the resulting valuation, uniqueness of valuations over an
  acyclic dependency relation, transport of valuations along isomorphisms.
  Part 2 (model): closed form of `Graph.evalOrder` as a fold of `stepM`, and the link between the
  model's fold for the pointwise callback `applyOf opfn` and `runLayers`.
-/
import OHVerif.Props.C15
import OHVerif.Props.C08
import OHVerif.Props.C07
import OHVerif.Lemmas.StrictWF

namespace OH.Eval
open OH OH.Prim OH.Graph Relation

variable {O A T : Type}

/-- the pointwise interpreter callback (this is how the harness implements `apply`): operation
    number `k` of the batch is interpreted by `opfn` on its own argument list -/
def applyOf (opfn : A → List T → List T) : Apply A T :=
  fun labels inputs => IC.ofSegsL (List.zipWith opfn labels inputs.segsL)

/-! ### list lemmas -/

theorem writeAll_getD_of_not_mem (y : List T) (ps : List (Nat × T)) (k : Nat) (d : T)
    (h : ∀ p ∈ ps, p.1 ≠ k) : (writeAll y ps).getD k d = y.getD k d := by
  rw [List.getD_eq_getElem?_getD, List.getD_eq_getElem?_getD, writeAll_getElem?_of_not_mem y ps k h]

theorem writeAll_getD_of_mem_nodup (y : List T) (ps : List (Nat × T)) (k : Nat) (x d : T)
    (hn : (ps.map Prod.fst).Nodup) (hmem : (k, x) ∈ ps) (hk : k < y.length) :
    (writeAll y ps).getD k d = x := by
  obtain ⟨j, hj, hjx⟩ := List.getElem_of_mem hmem
  have h1 : ps[j].1 = k := by rw [hjx]
  have hlast : ∀ j' (h' : j' < ps.length), j < j' → ps[j'].1 ≠ k := by
    intro j' h' hlt heq
    have hp := List.pairwise_iff_getElem.1 hn j j' (by simpa using hj) (by simpa using h') hlt
    simp only [List.getElem_map] at hp
    exact hp (by rw [h1, heq])
  rw [List.getD_eq_getElem?_getD, writeAll_getElem?_of_last y ps k hk j hj h1 hlast, hjx]
  rfl

theorem zip_flatMap {ι β γ : Type} (g : List ι) (a : ι → List β) (b : ι → List γ)
    (h : ∀ j ∈ g, (a j).length = (b j).length) :
    (g.flatMap a).zip (g.flatMap b) = g.flatMap (fun j => (a j).zip (b j)) := by
  induction g with
  | nil => rfl
  | cons j g ih =>
    simp only [List.flatMap_cons]
    rw [List.zip_append (h j (by simp)), ih (fun i hi => h i (by simp [hi]))]

theorem map_fst_flatMap_zip {ι β γ : Type} (g : List ι) (a : ι → List β) (b : ι → List γ)
    (h : ∀ j ∈ g, (a j).length = (b j).length) :
    (g.flatMap (fun j => (a j).zip (b j))).map Prod.fst = g.flatMap a := by
  rw [List.map_flatMap]
  apply List.flatMap_congr
  intro j hj
  exact List.map_fst_zip (Nat.le_of_eq (h j hj))

/-! ### Part 1: plain diagrams -/

/-- reading the memory (positions outside the memory read as the default value) -/
def rd (dflt : T) (mem : List T) (v : Nat) : T := mem.getD v dflt

/-- target list of operation `j` -/
def tgtOf (d : PDiag O A) (j : Nat) : List Nat :=
  match d.edges[j]? with
  | some e => e.tgt
  | none => []

/-- outputs of operation `j` on the current memory -/
def outOf (d : PDiag O A) (opfn : A → List T → List T) (dflt : T) (mem : List T) (j : Nat) :
    List T :=
  match d.edges[j]? with
  | some e => opfn e.label (e.src.map (rd dflt mem))
  | none => []

/-- one layer: all operations of `g` read the memory, then all results are written -/
def layerStep (d : PDiag O A) (opfn : A → List T → List T) (dflt : T) (mem : List T)
    (g : List Nat) : List T :=
  writeAll mem ((g.flatMap (tgtOf d)).zip (g.flatMap (outOf d opfn dflt mem)))

/-- memory before the first layer: default everywhere, inputs written -/
def initMem (d : PDiag O A) (dflt : T) (s : List T) : List T :=
  writeAll (List.replicate d.n dflt) (d.ins.zip s)

def runLayers (d : PDiag O A) (opfn : A → List T → List T) (dflt : T) (s : List T)
    (groups : List (List Nat)) : List T :=
  groups.foldl (layerStep d opfn dflt) (initMem d dflt s)

/-- the arity discipline of the interpreter: on an argument list of the right length the
    operation returns one value per target position -/
def Arity (d : PDiag O A) (opfn : A → List T → List T) : Prop :=
  ∀ e ∈ d.edges, ∀ args : List T, args.length = e.src.length →
    (opfn e.label args).length = e.tgt.length

/-- no operation lies on or downstream of a dependency cycle -/
def NoCycle (d : PDiag O A) : Prop :=
  ∀ y, y < d.edges.length → ¬ OnOrAfterCycle (opDep d) y

/-- `groups` lists the operations layer by layer w.r.t. a numbering `lay` that increases along
    dependencies -/
structure IsLayering (d : PDiag O A) (lay : Nat → Nat) (groups : List (List Nat)) : Prop where
  mem_iff : ∀ i y, y ∈ groups.getD i [] ↔ (y < d.edges.length ∧ lay y = i)
  nodup : ∀ i, (groups.getD i []).Nodup
  lt : ∀ y, y < d.edges.length → lay y < groups.length
  dep : ∀ x y, opDep d x y → lay x < lay y

theorem opDep_lt {d : PDiag O A} {x y : Nat} (h : opDep d x y) :
    x < d.edges.length ∧ y < d.edges.length := by
  obtain ⟨ex, ey, _, hx, hy, _, _⟩ := h
  exact ⟨(List.getElem?_eq_some_iff.1 hx).1, (List.getElem?_eq_some_iff.1 hy).1⟩

/-! #### consequences of `SingleWriter` -/

theorem sw_ins_nodup {d : PDiag O A} (h : SingleWriter d) : d.ins.Nodup :=
  (List.nodup_append.1 h).1

theorem sw_tgt_nodup {d : PDiag O A} (h : SingleWriter d) :
    ∀ e ∈ d.edges, e.tgt.Nodup :=
  (List.nodup_flatMap.1 (List.nodup_append.1 h).2.1).1

theorem sw_ins_not_tgt {d : PDiag O A} (h : SingleWriter d) :
    ∀ v ∈ d.ins, ∀ e ∈ d.edges, v ∉ e.tgt := by
  intro v hv e he hve
  exact (List.nodup_append.1 h).2.2 v hv v (List.mem_flatMap.2 ⟨e, he, hve⟩) rfl

theorem sw_edge_unique {d : PDiag O A} (h : SingleWriter d) {j j' : Nat}
    {e e' : PEdge A} (hj : d.edges[j]? = some e) (hj' : d.edges[j']? = some e') {v : Nat}
    (hv : v ∈ e.tgt) (hv' : v ∈ e'.tgt) : j = j' := by
  have hp := (List.nodup_flatMap.1 (List.nodup_append.1 h).2.1).2
  obtain ⟨hjl, hje⟩ := List.getElem?_eq_some_iff.1 hj
  obtain ⟨hjl', hje'⟩ := List.getElem?_eq_some_iff.1 hj'
  rw [List.pairwise_iff_getElem] at hp
  by_contra hne
  rcases Nat.lt_or_gt_of_ne hne with hlt | hlt
  · have := hp j j' hjl hjl' hlt
    simp only [Function.onFun, hje, hje'] at this
    exact this hv hv'
  · have := hp j' j hjl' hjl hlt
    simp only [Function.onFun, hje, hje'] at this
    exact this hv' hv

theorem tgtOf_of_some {d : PDiag O A} {j : Nat} {e : PEdge A} (h : d.edges[j]? = some e) :
    tgtOf d j = e.tgt := by
  simp [tgtOf, h]

theorem outOf_of_some {d : PDiag O A} (opfn : A → List T → List T) (dflt : T) (mem : List T)
    {j : Nat} {e : PEdge A} (h : d.edges[j]? = some e) :
    outOf d opfn dflt mem j = opfn e.label (e.src.map (rd dflt mem)) := by
  simp [outOf, h]

theorem mem_tgtOf {d : PDiag O A} {j v : Nat} (h : v ∈ tgtOf d j) :
    ∃ e, d.edges[j]? = some e ∧ v ∈ e.tgt := by
  unfold tgtOf at h
  cases he : d.edges[j]? with
  | none => rw [he] at h; simp at h
  | some e => rw [he] at h; exact ⟨e, rfl, h⟩

theorem tgtOf_outOf_length {d : PDiag O A} {opfn : A → List T → List T} (ha : Arity d opfn)
    (dflt : T) (mem : List T) (j : Nat) :
    (tgtOf d j).length = (outOf d opfn dflt mem j).length := by
  unfold tgtOf outOf
  cases he : d.edges[j]? with
  | none => rfl
  | some e =>
    exact (ha e (List.mem_of_getElem? he) _ (by simp)).symm

theorem nodup_flatMap_tgtOf {d : PDiag O A} (hsw : SingleWriter d) (g : List Nat)
    (hg : g.Nodup) : (g.flatMap (tgtOf d)).Nodup := by
  rw [List.nodup_flatMap]
  refine ⟨?_, ?_⟩
  · intro j _
    unfold tgtOf
    cases he : d.edges[j]? with
    | none => simp
    | some e => exact sw_tgt_nodup hsw e (List.mem_of_getElem? he)
  · refine List.Pairwise.imp ?_ hg
    intro j j' hne
    simp only [Function.onFun]
    intro v hv hv'
    obtain ⟨e, he, hve⟩ := mem_tgtOf hv
    obtain ⟨e', he', hve'⟩ := mem_tgtOf hv'
    exact hne (sw_edge_unique hsw he he' hve hve')

/-! #### one layer -/

section step

variable {d : PDiag O A} {opfn : A → List T → List T} (dflt : T)

theorem layerStep_length (mem : List T) (g : List Nat) :
    (layerStep d opfn dflt mem g).length = mem.length := by
  unfold layerStep
  exact writeAll_length _ _

/-- a node that is not a target of the layer keeps its value -/
theorem layerStep_rd_of_not_mem (mem : List T) (g : List Nat) (v : Nat)
    (h : v ∉ g.flatMap (tgtOf d)) :
    rd dflt (layerStep d opfn dflt mem g) v = rd dflt mem v := by
  unfold layerStep rd
  apply writeAll_getD_of_not_mem
  intro p hp heq
  apply h
  rw [← heq]
  exact (List.of_mem_zip (a := p.1) (b := p.2) hp).1

/-- the targets of an operation of the layer carry its outputs on the old memory -/
theorem layerStep_rd_tgt (hsw : SingleWriter d) (ha : Arity d opfn) (hwf : d.wf = true)
    (mem : List T) (hlen : mem.length = d.n) (g : List Nat) (hg : g.Nodup) {j : Nat}
    {e : PEdge A} (hj : j ∈ g) (he : d.edges[j]? = some e) :
    e.tgt.map (rd dflt (layerStep d opfn dflt mem g)) = opfn e.label (e.src.map (rd dflt mem)) := by
  have hlens : ∀ i ∈ g, (tgtOf d i).length = (outOf d opfn dflt mem i).length :=
    fun i _ => tgtOf_outOf_length ha dflt mem i
  have hlen_e : (opfn e.label (e.src.map (rd dflt mem))).length = e.tgt.length :=
    ha e (List.mem_of_getElem? he) _ (by simp)
  have hkeys : ((g.flatMap (fun i => (tgtOf d i).zip (outOf d opfn dflt mem i))).map
      Prod.fst).Nodup := by
    rw [map_fst_flatMap_zip g _ _ hlens]
    exact nodup_flatMap_tgtOf hsw g hg
  have htlt : ∀ v ∈ e.tgt, v < d.n := by
    intro v hv
    simp only [PDiag.wf, Bool.and_eq_true, List.all_eq_true, decide_eq_true_eq] at hwf
    exact (hwf.2 e (List.mem_of_getElem? he)).2 v hv
  have hstep : layerStep d opfn dflt mem g = writeAll mem
      (g.flatMap (fun i => (tgtOf d i).zip (outOf d opfn dflt mem i))) := by
    unfold layerStep
    rw [zip_flatMap g _ _ hlens]
  have hpt : ∀ p (hp1 : p < e.tgt.length)
      (hp2 : p < (opfn e.label (e.src.map (rd dflt mem))).length),
      rd dflt (layerStep d opfn dflt mem g) e.tgt[p] =
        (opfn e.label (e.src.map (rd dflt mem)))[p] := by
    intro p hp1 hp2
    rw [hstep]
    unfold rd
    apply writeAll_getD_of_mem_nodup _ _ _ _ _ hkeys
    · rw [List.mem_flatMap]
      refine ⟨j, hj, ?_⟩
      rw [tgtOf_of_some he, outOf_of_some opfn dflt mem he]
      have : (e.tgt[p], (opfn e.label (e.src.map (rd dflt mem)))[p]) =
          (e.tgt.zip (opfn e.label (e.src.map (rd dflt mem))))[p]'(by
            rw [List.length_zip]; omega) := by
        rw [List.getElem_zip]
      unfold rd at this ⊢
      rw [this]
      exact List.getElem_mem _
    · rw [hlen]
      exact htlt _ (List.getElem_mem _)
  apply List.ext_getElem
  · rw [List.length_map, hlen_e]
  · intro p hp1 hp2
    rw [List.getElem_map]
    exact hpt p (by simpa using hp1) hp2

end step

/-! #### the loop invariant -/

/-- after the layers `< k`: inputs carry `s`, every operation of a layer `< k` has its outputs
    on its targets (w.r.t. the current memory), every node not written so far carries the
    default -/
structure Inv (d : PDiag O A) (opfn : A → List T → List T) (dflt : T) (s : List T)
    (lay : Nat → Nat) (k : Nat) (mem : List T) : Prop where
  len : mem.length = d.n
  ins : d.ins.map (rd dflt mem) = s
  ops : ∀ j e, d.edges[j]? = some e → lay j < k →
    e.tgt.map (rd dflt mem) = opfn e.label (e.src.map (rd dflt mem))
  rest : ∀ v, v < d.n → v ∉ d.ins → (∀ j e, d.edges[j]? = some e → lay j < k → v ∉ e.tgt) →
    rd dflt mem v = dflt

theorem inv_init (d : PDiag O A) (opfn : A → List T → List T) (dflt : T) (s : List T)
    (lay : Nat → Nat) (hsw : SingleWriter d) (hwf : d.wf = true) (hs : s.length = d.ins.length) :
    Inv d opfn dflt s lay 0 (initMem d dflt s) := by
  have hilt : ∀ v ∈ d.ins, v < d.n := by
    intro v hv
    simp only [PDiag.wf, Bool.and_eq_true, List.all_eq_true, decide_eq_true_eq] at hwf
    exact hwf.1.1 v hv
  refine ⟨?_, ?_, ?_, ?_⟩
  · unfold initMem
    rw [writeAll_length, List.length_replicate]
  · apply List.ext_getElem
    · rw [List.length_map, hs]
    · intro p hp1 hp2
      rw [List.getElem_map]
      rw [List.length_map] at hp1
      unfold initMem rd
      apply writeAll_getD_of_mem_nodup
      · rw [List.map_fst_zip (Nat.le_of_eq hs.symm)]
        exact sw_ins_nodup hsw
      · have : (d.ins[p], s[p]) = (d.ins.zip s)[p]'(by rw [List.length_zip]; omega) := by
          rw [List.getElem_zip]
        rw [this]
        exact List.getElem_mem _
      · rw [List.length_replicate]
        exact hilt _ (List.getElem_mem _)
  · intro j e _ h
    exact absurd h (Nat.not_lt_zero _)
  · intro v hv hni _
    unfold initMem rd
    rw [writeAll_getD_of_not_mem]
    · rw [List.getD_eq_getElem?_getD, List.getElem?_replicate, if_pos hv]
      rfl
    · intro p hp heq
      apply hni
      rw [← heq]
      exact (List.of_mem_zip (a := p.1) (b := p.2) hp).1

theorem inv_step {d : PDiag O A} {opfn : A → List T → List T} {dflt : T} {s : List T}
    {lay : Nat → Nat} {groups : List (List Nat)} (hsw : SingleWriter d) (ha : Arity d opfn)
    (hwf : d.wf = true) (hl : IsLayering d lay groups) {k : Nat} {mem : List T}
    (hinv : Inv d opfn dflt s lay k mem) :
    Inv d opfn dflt s lay (k + 1) (layerStep d opfn dflt mem (groups.getD k [])) := by
  -- a key of the layer is a target of an operation of layer number `k`
  have hkey : ∀ v, v ∈ (groups.getD k []).flatMap (tgtOf d) →
      ∃ j e, d.edges[j]? = some e ∧ lay j = k ∧ v ∈ e.tgt := by
    intro v hv
    obtain ⟨j, hj, hvj⟩ := List.mem_flatMap.1 hv
    obtain ⟨e, he, hve⟩ := mem_tgtOf hvj
    exact ⟨j, e, he, ((hl.mem_iff k j).1 hj).2, hve⟩
  -- sources of operations of layer number ≤ k are not keys
  have hsrc : ∀ j e, d.edges[j]? = some e → lay j ≤ k → ∀ v ∈ e.src,
      v ∉ (groups.getD k []).flatMap (tgtOf d) := by
    intro j e he hle v hv hmem
    obtain ⟨j', e', he', hk', hve'⟩ := hkey v hmem
    have := hl.dep j' j ⟨e', e, v, he', he, hve', hv⟩
    omega
  refine ⟨?_, ?_, ?_, ?_⟩
  · rw [layerStep_length, hinv.len]
  · rw [← hinv.ins]
    apply List.map_congr_left
    intro v hv
    apply layerStep_rd_of_not_mem
    intro hmem
    obtain ⟨j, e, he, _, hve⟩ := hkey v hmem
    exact sw_ins_not_tgt hsw v hv e (List.mem_of_getElem? he) hve
  · intro j e he hlt
    have hsame : e.src.map (rd dflt (layerStep d opfn dflt mem (groups.getD k []))) =
        e.src.map (rd dflt mem) := by
      apply List.map_congr_left
      intro v hv
      exact layerStep_rd_of_not_mem dflt mem _ v (hsrc j e he (by omega) v hv)
    rw [hsame]
    by_cases hjk : lay j < k
    · rw [← hinv.ops j e he hjk]
      apply List.map_congr_left
      intro v hv
      apply layerStep_rd_of_not_mem
      intro hmem
      obtain ⟨j', e', he', hk', hve'⟩ := hkey v hmem
      have := sw_edge_unique hsw he he' hv hve'
      subst this
      omega
    · have hjk' : lay j = k := by omega
      have hjg : j ∈ groups.getD k [] :=
        (hl.mem_iff k j).2 ⟨(List.getElem?_eq_some_iff.1 he).1, hjk'⟩
      exact layerStep_rd_tgt dflt hsw ha hwf mem hinv.len _ (hl.nodup k) hjg he
  · intro v hv hni hnw
    rw [layerStep_rd_of_not_mem]
    · apply hinv.rest v hv hni
      intro j e he hlt
      exact hnw j e he (by omega)
    · intro hmem
      obtain ⟨j, e, he, hk', hve⟩ := hkey v hmem
      exact hnw j e he (by omega) hve

theorem inv_take {d : PDiag O A} {opfn : A → List T → List T} {dflt : T} {s : List T}
    {lay : Nat → Nat} {groups : List (List Nat)} (hsw : SingleWriter d) (ha : Arity d opfn)
    (hwf : d.wf = true) (hs : s.length = d.ins.length) (hl : IsLayering d lay groups) :
    ∀ k, k ≤ groups.length →
      Inv d opfn dflt s lay k ((groups.take k).foldl (layerStep d opfn dflt) (initMem d dflt s)) := by
  intro k
  induction k with
  | zero =>
    intro _
    simpa using inv_init d opfn dflt s lay hsw hwf hs
  | succ k ih =>
    intro hk
    have hk' : k < groups.length := by omega
    rw [List.take_add_one, List.foldl_append, List.getElem?_eq_getElem hk']
    simp only [Option.toList_some, List.foldl_cons, List.foldl_nil]
    have := inv_step hsw ha hwf hl (ih (by omega))
    rw [List.getD_eq_getElem?_getD, List.getElem?_eq_getElem hk'] at this
    exact this

/-- **the memory after all layers is a valuation** -/
theorem runLayers_valuation {d : PDiag O A} {opfn : A → List T → List T} {dflt : T} {s : List T}
    {lay : Nat → Nat} {groups : List (List Nat)} (hsw : SingleWriter d) (ha : Arity d opfn)
    (hwf : d.wf = true) (hs : s.length = d.ins.length) (hl : IsLayering d lay groups) :
    (runLayers d opfn dflt s groups).length = d.n ∧
    IsValuation d opfn dflt s (rd dflt (runLayers d opfn dflt s groups)) := by
  have h := inv_take (opfn := opfn) (dflt := dflt) hsw ha hwf hs hl groups.length (Nat.le_refl _)
  rw [List.take_length] at h
  refine ⟨h.len, ⟨h.ins, ?_, ?_⟩⟩
  · intro e he
    obtain ⟨j, hj⟩ := List.getElem?_of_mem he
    exact h.ops j e hj (hl.lt j (List.getElem?_eq_some_iff.1 hj).1)
  · intro v hv hni hnt
    exact h.rest v hv hni (fun j e he _ => hnt e (List.mem_of_getElem? he))

/-! #### uniqueness of valuations -/

theorem pdiag_wf_unpack {d : PDiag O A} (hwf : d.wf = true) :
    (∀ v ∈ d.ins, v < d.n) ∧ (∀ v ∈ d.outs, v < d.n) ∧
      ∀ e ∈ d.edges, (∀ v ∈ e.src, v < d.n) ∧ (∀ v ∈ e.tgt, v < d.n) := by
  simp only [PDiag.wf, Bool.and_eq_true, List.all_eq_true, decide_eq_true_eq] at hwf
  exact ⟨hwf.1.1, hwf.1.2, hwf.2⟩

/-- two valuations of a diagram whose dependency relation admits a strictly increasing numbering
    agree on every node (no single-writer hypothesis is needed for uniqueness) -/
theorem valuation_unique_of_lay {d : PDiag O A} {opfn : A → List T → List T} {dflt : T}
    {s : List T} {val val' : Nat → T} (lay : Nat → Nat) (hwf : d.wf = true)
    (hdep : ∀ x y, opDep d x y → lay x < lay y)
    (h : IsValuation d opfn dflt s val) (h' : IsValuation d opfn dflt s val') :
    ∀ v, v < d.n → val v = val' v := by
  obtain ⟨_, _, hedges⟩ := pdiag_wf_unpack hwf
  have hins : ∀ v ∈ d.ins, val v = val' v := List.map_inj_left.1 (h.ins.trans h'.ins.symm)
  have hedge : ∀ k j e, lay j = k → d.edges[j]? = some e → ∀ v ∈ e.tgt, val v = val' v := by
    intro k
    induction k using Nat.strong_induction_on with
    | _ k ih =>
      intro j e hk he
      have hmem := List.mem_of_getElem? he
      have hsrc : e.src.map val = e.src.map val' := by
        apply List.map_congr_left
        intro u hu
        have hun : u < d.n := (hedges e hmem).1 u hu
        by_cases hui : u ∈ d.ins
        · exact hins u hui
        · by_cases hut : ∃ j' : Nat, ∃ e' : PEdge A, d.edges[j']? = some e' ∧ u ∈ e'.tgt
          · obtain ⟨j', e', he', hue'⟩ := hut
            have := hdep j' j ⟨e', e, u, he', he, hue', hu⟩
            exact ih (lay j') (by omega) j' e' rfl he' u hue'
          · have hno : ∀ e' ∈ d.edges, u ∉ e'.tgt := by
              intro e' he' hue'
              obtain ⟨j', hj'⟩ := List.getElem?_of_mem he'
              exact hut ⟨j', e', hj', hue'⟩
            rw [h.rest u hun hui hno, h'.rest u hun hui hno]
      exact List.map_inj_left.1 (by rw [h.ops e hmem, h'.ops e hmem, hsrc])
  intro v hv
  by_cases hvi : v ∈ d.ins
  · exact hins v hvi
  · by_cases hvt : ∃ j : Nat, ∃ e : PEdge A, d.edges[j]? = some e ∧ v ∈ e.tgt
    · obtain ⟨j, e, he, hve⟩ := hvt
      exact hedge (lay j) j e rfl he v hve
    · have hno : ∀ e ∈ d.edges, v ∉ e.tgt := by
        intro e he hve
        obtain ⟨j, hj⟩ := List.getElem?_of_mem he
        exact hvt ⟨j, e, hj, hve⟩
      rw [h.rest v hv hvi hno, h'.rest v hv hvi hno]

/-- an acyclic dependency relation admits a strictly increasing numbering (the depth) -/
theorem exists_lay_of_noCycle (d : PDiag O A) (h : NoCycle d) :
    ∃ lay : Nat → Nat, ∀ x y, opDep d x y → lay x < lay y := by
  classical
  have hdl : ∀ x z, opDep d x z → x < d.edges.length := fun x z hxz => (opDep_lt hxz).1
  have hex : ∀ y, y < d.edges.length → ∃ k, HasDepth (opDep d) y k := fun y hy =>
    (Kahn.exists_hasDepth_iff hdl hy).2 (h y hy)
  refine ⟨fun y => if hy : ∃ k, HasDepth (opDep d) y k then Classical.choose hy else 0, ?_⟩
  intro x y hxy
  obtain ⟨hx, hy⟩ := opDep_lt hxy
  simp only [dif_pos (hex x hx), dif_pos (hex y hy)]
  have hdx := Classical.choose_spec (hex x hx)
  have hdy := Classical.choose_spec (hex y hy)
  by_contra hlt
  exact hdy.2 (Kahn.chainTo_mono (by omega) (ChainTo.snoc x y _ hdx.1 hxy))

theorem valuation_unique {d : PDiag O A} {opfn : A → List T → List T} {dflt : T}
    {s : List T} {val val' : Nat → T} (hwf : d.wf = true) (hac : NoCycle d)
    (h : IsValuation d opfn dflt s val) (h' : IsValuation d opfn dflt s val') :
    ∀ v, v < d.n → val v = val' v := by
  obtain ⟨lay, hlay⟩ := exists_lay_of_noCycle d hac
  exact valuation_unique_of_lay lay hwf hlay h h'

/-- `NoCycle` says that the dependency relation has no cycle -/
theorem exists_onOrAfterCycle_iff (dep : Nat → Nat → Prop) :
    (∃ y, OnOrAfterCycle dep y) ↔ ∃ c, TransGen dep c c := by
  constructor
  · rintro ⟨_, c, hc, _⟩
    exact ⟨c, hc⟩
  · rintro ⟨c, hc⟩
    exact ⟨c, c, hc, ReflTransGen.refl⟩

theorem transGen_right_dep {dep : Nat → Nat → Prop} {a b : Nat} (h : TransGen dep a b) :
    ∃ x, dep x b := by
  cases h with
  | single h => exact ⟨_, h⟩
  | tail _ h => exact ⟨_, h⟩

theorem noCycle_iff (d : PDiag O A) : NoCycle d ↔ ¬ ∃ c, TransGen (opDep d) c c := by
  constructor
  · rintro h ⟨c, hc⟩
    obtain ⟨x, hx⟩ := transGen_right_dep hc
    exact h c (opDep_lt hx).2 ⟨c, hc, ReflTransGen.refl⟩
  · intro h y _ hy
    exact h ((exists_onOrAfterCycle_iff _).1 ⟨y, hy⟩)

theorem exists_lt_onOrAfterCycle_iff (d : PDiag O A) :
    (∃ y, y < d.edges.length ∧ OnOrAfterCycle (opDep d) y) ↔ ∃ c, TransGen (opDep d) c c := by
  constructor
  · rintro ⟨y, _, hy⟩
    exact (exists_onOrAfterCycle_iff _).1 ⟨y, hy⟩
  · rintro ⟨c, hc⟩
    obtain ⟨x, hx⟩ := transGen_right_dep hc
    exact ⟨c, (opDep_lt hx).2, c, hc, ReflTransGen.refl⟩

/-! #### transport along an isomorphism -/

/-- a valuation of `Q` pulled back along an isomorphism `P ≅ Q` is a valuation of `P` -/
theorem valuation_of_iso {P Q : PDiag O A} {opfn : A → List T → List T} {dflt : T} {s : List T}
    {val : Nat → T} (hiso : P ≅ Q) (hwf : P.wf = true) (h : IsValuation Q opfn dflt s val) :
    ∃ π : Nat → Nat, (∀ i, i < P.n → π i < Q.n) ∧ Q.outs = P.outs.map π ∧
      IsValuation P opfn dflt s (fun v => val (π v)) := by
  obtain ⟨π, ρ, ⟨hπlt, hπinj, _⟩, ⟨hρlt, _, hρsurj⟩, _, hedge, hins, houts⟩ := hiso
  obtain ⟨hPins, _, hPedges⟩ := pdiag_wf_unpack hwf
  refine ⟨π, hπlt, houts, ⟨?_, ?_, ?_⟩⟩
  · rw [← h.ins, hins, List.map_map]
    rfl
  · intro e he
    obtain ⟨j, hj⟩ := List.getElem?_of_mem he
    have hjl := (List.getElem?_eq_some_iff.1 hj).1
    have hq := hedge j hjl
    rw [hj, Option.map_some] at hq
    have := h.ops _ (List.mem_of_getElem? hq)
    simp only [PEdge.mapNodes, List.map_map] at this
    exact this
  · intro v hv hni hnt
    apply h.rest (π v) (hπlt v hv)
    · rw [hins, List.mem_map]
      rintro ⟨u, hu, hπu⟩
      have := hπinj u v (hPins u hu) hv hπu
      exact hni (this ▸ hu)
    · intro e' he' hve'
      obtain ⟨k, hk⟩ := List.getElem?_of_mem he'
      obtain ⟨j, hjl, hρj⟩ := hρsurj k (List.getElem?_eq_some_iff.1 hk).1
      have hq := hedge j hjl
      rw [hρj, hk, List.getElem?_eq_getElem hjl, Option.map_some] at hq
      injection hq with hq
      rw [hq] at hve'
      simp only [PEdge.mapNodes, List.mem_map] at hve'
      obtain ⟨u, hu, hπu⟩ := hve'
      have hmem : P.edges[j] ∈ P.edges := List.getElem_mem _
      have := hπinj u v ((hPedges _ hmem).2 u hu) hv hπu
      exact hnt _ hmem (this ▸ hu)

/-! ### Part 2: the model's `evalOrder` -/

/-- the body of the `for op_ix in order` loop of `eval_order` -/
def evalBody (f : OHG O A) (apply : Apply A T) (mem : List T) (opIx : List Nat) : Res (List T) := do
  let opFF : FinFun := ⟨opIx, f.h.x.length⟩
  let labels ← (FinFun.composeSemi opFF f.h.x).unwrap "eval:unwrap-labels"
  let inIdx ← (IC.mapIndexes f.h.s opFF).unwrap "eval:unwrap-in-indexes"
  let inVals ← (IC.mapSemifinite inIdx mem).unwrap "eval:unwrap-in-values"
  let outputs := apply labels inVals
  let outIdx ← (IC.mapIndexes f.h.t opFF).unwrap "eval:unwrap-out-indexes"
  scatterAssign mem outIdx.values.table outputs.values

theorem evalOrder_unfold (f : OHG O A) (dflt : T) (s : List T) (order : List (List Nat))
    (apply : Apply A T) :
    evalOrder f dflt s order apply = (do
      let mem1 ← scatterAssign (List.replicate f.h.w.length dflt) f.s.table s
      let mem ← order.foldlM (evalBody f apply) mem1
      let outs ← gather mem f.t.table
      pure (mem, outs)) := rfl

/-- closed form of one loop iteration: the labels and the argument lists of the operations in
    `g` are handed to `apply`, the flat result is written to the flat list of target nodes -/
def stepM (f : OHG O A) (dflt : T) (apply : Apply A T) (mem : List T) (g : List Nat) : List T :=
  writeAll mem ((g.flatMap (fun j => f.h.t.segs.getD j [])).zip
    (apply (gatherP f.h.x g)
      (IC.ofSegsL (g.map (fun j => (f.h.s.segs.getD j []).map (rd dflt mem))))).values)

theorem stepM_length (f : OHG O A) (dflt : T) (apply : Apply A T) (mem : List T) (g : List Nat) :
    (stepM f dflt apply mem g).length = mem.length := writeAll_length _ _

/-- re-indexing one of the incidence arrays of a well-formed hypergraph by a group of
    operations -/
theorem mapIndexes_group (c : IC FinFun) (hc : c.wf = true) (g : List Nat) (m : Nat)
    (hm : m = c.len) (hg : ∀ j ∈ g, j < m) :
    ∃ e, IC.mapIndexes c ⟨g, m⟩ = .ok e ∧ e.valid = true ∧ e.values.WF ∧
      e.values.target = c.values.target ∧ e.segs = g.map (fun j => c.segs.getD j []) ∧
      e.values.table = g.flatMap (fun j => c.segs.getD j []) := by
  obtain ⟨hcv, _, _⟩ := wf_unpack' c hc
  obtain ⟨e, he, hev, het, hesegs, _, _⟩ :=
    C08.mapIndexes_spec c ⟨g, m⟩ hcv (fun j hj => hg j hj) hm
  have hflat : e.values.table = g.flatMap (fun j => c.segs.getD j []) := by
    rw [← IC.segs_flatten e hev, hesegs, List.flatMap_def]
  refine ⟨e, he, hev, ?_, het, hesegs, hflat⟩
  intro v hv
  rw [hflat, List.mem_flatMap] at hv
  obtain ⟨j, _, hvj⟩ := hv
  rw [het]
  exact (mem_segs_getD_lt c hc j v hvj).2

theorem evalBody_eq (f : OHG O A) (hf : f.wf = true) (dflt : T) (apply : Apply A T)
    (mem : List T) (hmem : mem.length = f.h.w.length) (g : List Nat)
    (hg : ∀ j ∈ g, j < f.h.x.length) :
    evalBody f apply mem g = .ok (stepM f dflt apply mem g) := by
  obtain ⟨hs, ht, hsl, htl, hst, htt⟩ := hg_wf_unpack f.h (C15.ohg_wf_h f hf)
  obtain ⟨ei, hei, heiv, heiw, heit, heisegs, _⟩ := mapIndexes_group f.h.s hs g _ hsl.symm hg
  obtain ⟨eo, heo, _, heow, heot, _, heoflat⟩ := mapIndexes_group f.h.t ht g _ htl.symm hg
  obtain ⟨ev, hev, hevv, _, _, hevsegs⟩ :=
    C08.mapSemifinite_spec ei mem heiv heiw (by rw [heit, hst, hmem])
  have hevsegs' := hevsegs (rd dflt mem) (by
    intro i hi
    unfold rd
    rw [List.getD_eq_getElem?_getD, List.getElem?_eq_getElem hi]
    rfl)
  have hevEq : ev = IC.ofSegsL (g.map (fun j => (f.h.s.segs.getD j []).map (rd dflt mem))) := by
    rw [← IC.ofSegsL_segsL ev hevv, hevsegs', heisegs, List.map_map]
    rfl
  have hlab : FinFun.composeSemi ⟨g, f.h.x.length⟩ f.h.x = .ok (gatherP f.h.x g) :=
    FinFun.composeSemi_ok ⟨g, f.h.x.length⟩ f.h.x (fun j hj => hg j hj) rfl
  unfold evalBody
  simp only [hlab, hei, hev, heo, Res.unwrap_ok, Res.ok_bind]
  rw [scatterAssign_ok]
  · rw [hevEq, heoflat]
    rfl
  · intro p hp
    have := heow p.1 (List.of_mem_zip (a := p.1) (b := p.2) hp).1
    rw [heot, htt, ← hmem] at this
    exact this

theorem foldlM_evalBody (f : OHG O A) (hf : f.wf = true) (dflt : T) (apply : Apply A T) :
    ∀ (groups : List (List Nat)) (mem : List T), mem.length = f.h.w.length →
      (∀ g ∈ groups, ∀ j ∈ g, j < f.h.x.length) →
      groups.foldlM (evalBody f apply) mem = .ok (groups.foldl (stepM f dflt apply) mem) := by
  intro groups
  induction groups with
  | nil => intro mem _ _; rfl
  | cons g groups ih =>
    intro mem hmem hg
    rw [List.foldlM_cons, evalBody_eq f hf dflt apply mem hmem g (hg g (by simp)), Res.ok_bind,
      List.foldl_cons]
    exact ih _ (by rw [stepM_length, hmem]) (fun g' hg' => hg g' (by simp [hg']))

theorem foldl_stepM_length (f : OHG O A) (dflt : T) (apply : Apply A T) :
    ∀ (groups : List (List Nat)) (mem : List T),
      (groups.foldl (stepM f dflt apply) mem).length = mem.length := by
  intro groups
  induction groups with
  | nil => intro mem; rfl
  | cons g groups ih =>
    intro mem
    rw [List.foldl_cons, ih, stepM_length]

theorem ohg_wf_unpack (f : OHG O A) (hf : f.wf = true) :
    f.h.wf = true ∧ f.s.WF ∧ f.t.WF ∧ f.s.target = f.h.w.length ∧ f.t.target = f.h.w.length := by
  simp only [OHG.wf, Bool.and_eq_true, beq_iff_eq] at hf
  obtain ⟨⟨⟨⟨h1, h2⟩, h3⟩, h4⟩, h5⟩ := hf
  exact ⟨h1, (FinFun.wf_iff _).1 h2, (FinFun.wf_iff _).1 h3, h4, h5⟩

/-- memory of the model before the first layer -/
def initM (f : OHG O A) (dflt : T) (s : List T) : List T :=
  writeAll (List.replicate f.h.w.length dflt) (f.s.table.zip s)

/-- **closed form of `eval_order`** for a well-formed diagram, an ARBITRARY callback and any
    grouping whose entries are operation numbers: it returns (never panics, never `none`); the
    memory is the fold of `stepM`, the outputs are the memory read at the output interface -/
theorem evalOrder_eq (f : OHG O A) (hf : f.wf = true) (dflt : T) (s : List T)
    (groups : List (List Nat)) (hg : ∀ g ∈ groups, ∀ j ∈ g, j < f.h.x.length)
    (apply : Apply A T) :
    evalOrder f dflt s groups apply =
      .ok (groups.foldl (stepM f dflt apply) (initM f dflt s),
        f.t.table.map (rd dflt (groups.foldl (stepM f dflt apply) (initM f dflt s)))) := by
  obtain ⟨_, hsw, htw, hst, htt⟩ := ohg_wf_unpack f hf
  have hlen0 : (initM f dflt s).length = f.h.w.length := by
    unfold initM
    rw [writeAll_length, List.length_replicate]
  have h1 : scatterAssign (List.replicate f.h.w.length dflt) f.s.table s = .ok (initM f dflt s) := by
    apply scatterAssign_ok
    intro p hp
    have := hsw p.1 (List.of_mem_zip (a := p.1) (b := p.2) hp).1
    rw [List.length_replicate, ← hst]
    exact this
  have hlenF : (groups.foldl (stepM f dflt apply) (initM f dflt s)).length = f.h.w.length := by
    rw [foldl_stepM_length, hlen0]
  have h3 : gather (groups.foldl (stepM f dflt apply) (initM f dflt s)) f.t.table =
      .ok (f.t.table.map (rd dflt (groups.foldl (stepM f dflt apply) (initM f dflt s)))) := by
    have hlt : ∀ i ∈ f.t.table,
        i < (groups.foldl (stepM f dflt apply) (initM f dflt s)).length := by
      intro i hi
      rw [hlenF, ← htt]
      exact htw i hi
    rw [gather_ok _ _ hlt, FinFun.gatherP_eq_map _ _ (rd dflt _)]
    intro i hi
    unfold rd
    rw [List.getD_eq_getElem?_getD, List.getElem?_eq_getElem (hlt i hi)]
    rfl
  rw [evalOrder_unfold, h1, Res.ok_bind, foldlM_evalBody f hf dflt apply groups _ hlen0 hg,
    Res.ok_bind, h3]
  rfl

/-! #### the pointwise callback: the model's fold is `runLayers` on the plain diagram -/

theorem toPlain_edges_getElem? (f : OHG O A) (hf : f.wf = true) (j : Nat)
    (hj : j < f.h.x.length) :
    f.toPlain.edges[j]? = some ⟨f.h.x[j], f.h.s.segs.getD j [], f.h.t.segs.getD j []⟩ := by
  show f.h.toPlainEdges[j]? = _
  rw [toPlainEdges_getElem? f.h (C15.ohg_wf_h f hf)]
  exact ⟨hj, List.getElem?_eq_getElem hj, rfl, rfl⟩

theorem toPlain_edges_length (f : OHG O A) (hf : f.wf = true) :
    f.toPlain.edges.length = f.h.x.length :=
  toPlainEdges_length f.h (C15.ohg_wf_h f hf)

theorem zipWith_opfn_eq (f : OHG O A) (hf : f.wf = true) (opfn : A → List T → List T)
    (dflt : T) (mem : List T) (g : List Nat) (hg : ∀ j ∈ g, j < f.h.x.length) :
    List.zipWith opfn (gatherP f.h.x g)
        (g.map (fun j => (f.h.s.segs.getD j []).map (rd dflt mem))) =
      g.map (outOf f.toPlain opfn dflt mem) := by
  induction g with
  | nil => rfl
  | cons j g ih =>
    have hj := hg j (by simp)
    have ih' := ih (fun i hi => hg i (by simp [hi]))
    have hhead : gatherP f.h.x (j :: g) = f.h.x[j] :: gatherP f.h.x g := by
      simp [gatherP, List.getElem?_eq_getElem hj]
    rw [hhead, List.map_cons, List.zipWith_cons_cons, ih', List.map_cons,
      outOf_of_some opfn dflt mem (toPlain_edges_getElem? f hf j hj)]

theorem stepM_applyOf (f : OHG O A) (hf : f.wf = true) (opfn : A → List T → List T)
    (dflt : T) (mem : List T) (g : List Nat) (hg : ∀ j ∈ g, j < f.h.x.length) :
    stepM f dflt (applyOf opfn) mem g = layerStep f.toPlain opfn dflt mem g := by
  unfold stepM layerStep applyOf
  rw [IC.segsL_ofSegsL, zipWith_opfn_eq f hf opfn dflt mem g hg]
  have h1 : g.flatMap (fun j => f.h.t.segs.getD j []) = g.flatMap (tgtOf f.toPlain) := by
    apply List.flatMap_congr
    intro j hj
    rw [tgtOf_of_some (toPlain_edges_getElem? f hf j (hg j hj))]
  rw [h1, List.flatMap_def (f := outOf f.toPlain opfn dflt mem)]
  rfl

theorem foldl_stepM_applyOf (f : OHG O A) (hf : f.wf = true) (opfn : A → List T → List T)
    (dflt : T) : ∀ (groups : List (List Nat)) (mem : List T),
      (∀ g ∈ groups, ∀ j ∈ g, j < f.h.x.length) →
      groups.foldl (stepM f dflt (applyOf opfn)) mem =
        groups.foldl (layerStep f.toPlain opfn dflt) mem := by
  intro groups
  induction groups with
  | nil => intro mem _; rfl
  | cons g groups ih =>
    intro mem hg
    rw [List.foldl_cons, List.foldl_cons, stepM_applyOf f hf opfn dflt mem g (hg g (by simp))]
    exact ih _ (fun g' hg' => hg g' (by simp [hg']))

/-- `eval_order` with the pointwise callback runs the layers of the plain diagram -/
theorem evalOrder_applyOf (f : OHG O A) (hf : f.wf = true) (opfn : A → List T → List T)
    (dflt : T) (s : List T) (groups : List (List Nat))
    (hg : ∀ g ∈ groups, ∀ j ∈ g, j < f.h.x.length) :
    evalOrder f dflt s groups (applyOf opfn) =
      .ok (runLayers f.toPlain opfn dflt s groups,
        f.t.table.map (rd dflt (runLayers f.toPlain opfn dflt s groups))) := by
  rw [evalOrder_eq f hf dflt s groups hg, foldl_stepM_applyOf f hf opfn dflt groups _ hg]
  rfl

/-! #### `eval`: layering, cycle test, evaluation -/

theorem eval_unfold (B : Backend) (f : OHG O A) (dflt : T) (s : List T) (apply : Apply A T)
    (order : FinFun) (unv : List Nat) (groups : List (List Nat))
    (hl : layer B f = .ok (order, unv)) (hc : converseIter B order = .ok groups) :
    eval B f dflt s apply =
      if (Prim.max unv).getD 0 = 0 then
        (evalOrder f dflt s groups apply) >>= fun r => .ok r.2
      else .none := by
  unfold eval
  rw [hl, Res.ok_bind]
  simp only [hc, Res.ok_bind]
  rfl

/-- the data `eval` computes before the loop, with everything C15 says about them -/
theorem eval_layers (B : Backend) (hB : B.Lawful) (f : OHG O A) (hf : f.wf = true) :
    ∃ order unv groups, layer B f = .ok (⟨order, f.h.x.length⟩, unv) ∧
      converseIter B ⟨order, f.h.x.length⟩ = .ok groups ∧
      order.length = f.h.x.length ∧ unv.length = f.h.x.length ∧
      (∀ k ∈ order, k < f.h.x.length) ∧ groups.length = f.h.x.length ∧
      (∀ i y, (groups.getD i []).count y = if order[y]? = some i then 1 else 0) ∧
      (∀ y, y < f.h.x.length →
        (unv[y]? = some 0 ↔ ¬ OnOrAfterCycle (opDep f.toPlain) y) ∧
        (unv[y]? = some 0 ∨ unv[y]? = some 1)) := by
  obtain ⟨order, unv, groups, hl, hlo, hglen, hol, hlt, hcount⟩ :=
    C15.layeredOperations_core B hB f hf
  obtain ⟨order', unv', hl', _, hul, _, _⟩ := C15.layer_core B hB f hf
  rw [hl] at hl'
  injection hl' with hl'
  injection hl' with ho hu
  injection ho with ho
  subst ho hu
  have hspec := C15.layer_spec B hB f hf _ _ hl
  refine ⟨order, unv, groups, hl, ?_, hol, hul, hlt, hglen, hcount, ?_⟩
  · unfold layeredOperations at hlo
    rw [hl, Res.ok_bind] at hlo
    dsimp only at hlo
    cases hc : converseIter B ⟨order, f.h.x.length⟩ with
    | ok g' =>
      rw [hc] at hlo
      simp only [Res.ok_bind, Res.pure_eq] at hlo
      injection hlo with hlo
      injection hlo with hg _
      rw [hg]
    | none => rw [hc] at hlo; cases hlo
    | panic site => rw [hc] at hlo; cases hlo
  · intro y hy
    exact ⟨(hspec y hy).2.1, (hspec y hy).2.2.1⟩

theorem groups_in_range {groups : List (List Nat)} {order : List Nat} {m : Nat}
    (hol : order.length = m)
    (hcount : ∀ i y, (groups.getD i []).count y = if order[y]? = some i then 1 else 0) :
    ∀ g ∈ groups, ∀ j ∈ g, j < m := by
  intro g hg j hj
  obtain ⟨i, hi, rfl⟩ := List.getElem_of_mem hg
  have hc := hcount i j
  rw [List.getD_eq_getElem?_getD, List.getElem?_eq_getElem hi, Option.getD_some] at hc
  have hpos : 0 < (groups[i]).count j := List.count_pos_iff.2 hj
  by_cases h : order[j]? = some i
  · rw [← hol]
    exact (List.getElem?_eq_some_iff.1 h).1
  · rw [if_neg h] at hc
    omega

/-- the cycle test of `eval`: the maximum of the marks is 0 iff every operation is visited -/
theorem max_unvisited_eq_zero_iff (unv : List Nat) :
    (Prim.max unv).getD 0 = 0 ↔ ∀ y, y < unv.length → unv[y]? = some 0 := by
  constructor
  · intro h y hy
    cases hm : Prim.max unv with
    | none =>
      rw [max_eq_none_iff] at hm
      subst hm
      exact absurd hy (Nat.not_lt_zero _)
    | some mx =>
      rw [hm] at h
      simp only [Option.getD_some] at h
      have := (max_eq_some unv mx hm).2 unv[y] (List.getElem_mem _)
      rw [List.getElem?_eq_getElem hy]
      congr 1
      omega
  · intro h
    cases hm : Prim.max unv with
    | none => rfl
    | some mx =>
      obtain ⟨i, hi, hix⟩ := List.getElem_of_mem (max_eq_some unv mx hm).1
      have := h i hi
      rw [List.getElem?_eq_getElem hi, hix] at this
      exact congrArg (fun o => Option.getD o 0) this

/-- **`eval` in closed form** (arbitrary callback): no result iff some operation is on or after a
    dependency cycle, otherwise the outputs of the fold of `stepM` over the layers -/
theorem eval_cases (B : Backend) (hB : B.Lawful) (f : OHG O A) (hf : f.wf = true) (dflt : T)
    (s : List T) (apply : Apply A T) :
    ∃ (order : List Nat) (groups : List (List Nat)), groups.length = f.h.x.length ∧
      order.length = f.h.x.length ∧ (∀ k ∈ order, k < f.h.x.length) ∧
      (∀ i y, (groups.getD i []).count y = if order[y]? = some i then 1 else 0) ∧
      (∀ g ∈ groups, ∀ j ∈ g, j < f.h.x.length) ∧
      ((∃ y, y < f.h.x.length ∧ OnOrAfterCycle (opDep f.toPlain) y) →
        eval B f dflt s apply = .none) ∧
      ((∀ y, y < f.h.x.length → ¬ OnOrAfterCycle (opDep f.toPlain) y) →
        layer B f = .ok (⟨order, f.h.x.length⟩, List.replicate f.h.x.length 0) ∧
        eval B f dflt s apply =
          .ok (f.t.table.map (rd dflt (groups.foldl (stepM f dflt apply) (initM f dflt s))))) := by
  obtain ⟨order, unv, groups, hl, hc, hol, hul, hlt, hglen, hcount, hspec⟩ :=
    eval_layers B hB f hf
  have hrange := groups_in_range hol hcount
  have hev := eval_unfold B f dflt s apply _ unv groups hl hc
  refine ⟨order, groups, hglen, hol, hlt, hcount, hrange, ?_, ?_⟩
  · rintro ⟨y, hy, hcyc⟩
    rw [hev, if_neg]
    rw [max_unvisited_eq_zero_iff]
    intro h
    exact ((hspec y hy).1.1 (h y (by rw [hul]; exact hy))) hcyc
  · intro hac
    have hall : ∀ y, y < unv.length → unv[y]? = some 0 := by
      intro y hy
      rw [hul] at hy
      exact (hspec y hy).1.2 (hac y hy)
    have hunv : unv = List.replicate f.h.x.length 0 := by
      apply List.ext_getElem?
      intro y
      by_cases hy : y < unv.length
      · rw [hall y hy, List.getElem?_replicate, if_pos (hul ▸ hy)]
      · rw [List.getElem?_eq_none (by omega), List.getElem?_eq_none (by
          rw [List.length_replicate]; omega)]
    refine ⟨by rw [hl, hunv], ?_⟩
    rw [hev, if_pos ((max_unvisited_eq_zero_iff unv).2 hall),
      evalOrder_eq f hf dflt s groups hrange apply]
    rfl

/-- the layering computed by `eval` on an acyclic diagram is a layering in the sense of Part 1 -/
theorem isLayering_of_layer (B : Backend) (hB : B.Lawful) (f : OHG O A) (hf : f.wf = true)
    (order : List Nat) (groups : List (List Nat))
    (hl : layer B f = .ok (⟨order, f.h.x.length⟩, List.replicate f.h.x.length 0))
    (hglen : groups.length = f.h.x.length) (hol : order.length = f.h.x.length)
    (hlt : ∀ k ∈ order, k < f.h.x.length)
    (hcount : ∀ i y, (groups.getD i []).count y = if order[y]? = some i then 1 else 0) :
    IsLayering f.toPlain (fun y => order.getD y 0) groups := by
  have hm := toPlain_edges_length f hf
  refine ⟨?_, ?_, ?_, ?_⟩
  · intro i y
    rw [← List.count_pos_iff, hcount, hm]
    by_cases h : order[y]? = some i
    · have hy := (List.getElem?_eq_some_iff.1 h).1
      rw [if_pos h]
      refine ⟨fun _ => ⟨hol ▸ hy, ?_⟩, fun _ => Nat.one_pos⟩
      rw [List.getD_eq_getElem?_getD, h]
      rfl
    · rw [if_neg h]
      refine ⟨fun h0 => absurd h0 (Nat.lt_irrefl 0), ?_⟩
      rintro ⟨hy, heq⟩
      exfalso
      apply h
      rw [List.getD_eq_getElem?_getD, List.getElem?_eq_getElem (hol ▸ hy)] at heq
      rw [List.getElem?_eq_getElem (hol ▸ hy)]
      simpa using heq
  · intro i
    rw [List.nodup_iff_count_le_one]
    intro y
    rw [hcount]
    split <;> omega
  · intro y hy
    rw [hm] at hy
    rw [hglen, List.getD_eq_getElem?_getD, List.getElem?_eq_getElem (hol ▸ hy)]
    exact hlt _ (List.getElem_mem _)
  · intro x y hxy
    obtain ⟨hx, hy⟩ := C15.dep_lt f hf hxy
    have hvis : (List.replicate f.h.x.length 0)[y]? = some 0 := by
      rw [List.getElem?_replicate, if_pos hy]
    obtain ⟨i, j, hi, hj, hij⟩ := C15.layer_respects_deps B hB f hf _ _ hl hvis hxy
    simp only [List.getD_eq_getElem?_getD] at hi hj ⊢
    rw [hi, hj]
    exact hij

theorem toPlain_wf (f : OHG O A) (hf : f.wf = true) : f.toPlain.wf = true :=
  ((OHG.wf_iff f).1 hf).toPlain_wf

/-! ### the sequential interpreter (one operation at a time) -/

/-- interpret operation `j`: read its sources, write its targets -/
def seqStep (d : PDiag O A) (opfn : A → List T → List T) (dflt : T) (mem : List T) (j : Nat) :
    List T :=
  writeAll mem ((tgtOf d j).zip (outOf d opfn dflt mem j))

/-- interpret the operations in the order `σ` -/
def seqRun (d : PDiag O A) (opfn : A → List T → List T) (dflt : T) (s : List T) (σ : List Nat) :
    List T :=
  σ.foldl (seqStep d opfn dflt) (initMem d dflt s)

theorem seqRun_eq_runLayers (d : PDiag O A) (opfn : A → List T → List T) (dflt : T) (s : List T)
    (σ : List Nat) : seqRun d opfn dflt s σ = runLayers d opfn dflt s (σ.map (fun j => [j])) := by
  unfold seqRun runLayers
  rw [List.foldl_map]
  congr 1
  funext mem j
  simp [layerStep, seqStep]

/-- an order of all operations that respects the dependencies is a layering by singletons -/
theorem isLayering_of_order (d : PDiag O A) (σ : List Nat)
    (hperm : σ.Perm (List.range d.edges.length))
    (hresp : ∀ x y, opDep d x y → σ.idxOf x < σ.idxOf y) :
    IsLayering d (fun y => σ.idxOf y) (σ.map (fun j => [j])) := by
  have hnd : σ.Nodup := hperm.nodup_iff.2 List.nodup_range
  have hmem : ∀ y, y ∈ σ ↔ y < d.edges.length := fun y => by
    rw [hperm.mem_iff, List.mem_range]
  have hget : ∀ i, (σ.map (fun j => [j])).getD i [] = (σ[i]?.map (fun j => [j])).getD [] := by
    intro i
    rw [List.getD_eq_getElem?_getD, List.getElem?_map]
  refine ⟨?_, ?_, ?_, hresp⟩
  · intro i y
    rw [hget, ← hmem]
    cases hi : σ[i]? with
    | none =>
      simp only [Option.map_none, Option.getD_none, List.not_mem_nil, false_iff, not_and]
      intro hy heq
      rw [← heq, List.getElem?_eq_none_iff] at hi
      exact absurd (List.idxOf_lt_length_iff.2 hy) (by omega)
    | some z =>
      obtain ⟨hil, hiz⟩ := List.getElem?_eq_some_iff.1 hi
      simp only [Option.map_some, Option.getD_some, List.mem_singleton]
      constructor
      · rintro rfl
        refine ⟨hiz ▸ List.getElem_mem _, ?_⟩
        rw [← hiz]
        exact List.Nodup.idxOf_getElem hnd i hil
      · rintro ⟨hy, heq⟩
        rw [← hiz]
        subst heq
        exact (List.getElem_idxOf _).symm
  · intro i
    rw [hget]
    cases σ[i]? with
    | none => simp
    | some z => simp
  · intro y hy
    rw [List.length_map]
    exact List.idxOf_lt_length_iff.2 ((hmem y).2 hy)

/-! ### a checkable criterion for acyclicity (for concrete diagrams) -/

/-- executable form of `opDep` -/
def depB (d : PDiag O A) (x y : Nat) : Bool :=
  match d.edges[x]?, d.edges[y]? with
  | some ex, some ey => ex.tgt.any (fun v => ey.src.contains v)
  | _, _ => false

theorem opDep_iff_depB (d : PDiag O A) (x y : Nat) : opDep d x y ↔ depB d x y = true := by
  unfold opDep depB
  cases hx : d.edges[x]? with
  | none => simp
  | some ex =>
    cases hy : d.edges[y]? with
    | none => simp
    | some ey => simp

theorem noCycle_of_lay (d : PDiag O A) (lay : Nat → Nat)
    (h : ∀ x y, opDep d x y → lay x < lay y) : NoCycle d := by
  rw [noCycle_iff]
  rintro ⟨c, hc⟩
  have hmono : ∀ a b, TransGen (opDep d) a b → lay a < lay b := by
    intro a b hab
    induction hab with
    | single h1 => exact h _ _ h1
    | tail _ h2 ih => exact Nat.lt_trans ih (h _ _ h2)
  exact Nat.lt_irrefl _ (hmono c c hc)

/-- acyclicity from a decidable check: a numbering that strictly increases along `depB` -/
theorem noCycle_of_check (d : PDiag O A) (lay : Nat → Nat)
    (h : ∀ x, x < d.edges.length → ∀ y, y < d.edges.length → depB d x y = true → lay x < lay y) :
    NoCycle d := by
  apply noCycle_of_lay d lay
  intro x y hxy
  obtain ⟨hx, hy⟩ := opDep_lt hxy
  exact h x hx y hy ((opDep_iff_depB d x y).1 hxy)

/-! ### the hypotheses are invariant under isomorphism -/

section iso

variable {P Q : PDiag O A} {π ρ : Nat → Nat}

theorem iso_edge_fwd
    (hedge : ∀ e, e < P.edges.length → Q.edges[ρ e]? = (P.edges[e]?).map (PEdge.mapNodes π))
    {j : Nat} {e : PEdge A} (hj : P.edges[j]? = some e) :
    Q.edges[ρ j]? = some (e.mapNodes π) := by
  rw [hedge j (List.getElem?_eq_some_iff.1 hj).1, hj, Option.map_some]

theorem iso_edge_bwd (hρ : BijOn P.edges.length Q.edges.length ρ)
    (hedge : ∀ e, e < P.edges.length → Q.edges[ρ e]? = (P.edges[e]?).map (PEdge.mapNodes π))
    {k : Nat} {e' : PEdge A} (hk : Q.edges[k]? = some e') :
    ∃ j e, P.edges[j]? = some e ∧ ρ j = k ∧ e' = e.mapNodes π := by
  obtain ⟨j, hjl, hρj⟩ := hρ.2.2 k (List.getElem?_eq_some_iff.1 hk).1
  refine ⟨j, P.edges[j], List.getElem?_eq_getElem hjl, hρj, ?_⟩
  have := iso_edge_fwd hedge (List.getElem?_eq_getElem hjl)
  rw [hρj, hk] at this
  injection this

theorem arity_of_iso {opfn : A → List T → List T} (hiso : P ≅ Q) (ha : Arity P opfn) :
    Arity Q opfn := by
  obtain ⟨π, ρ, _, hρ, _, hedge, _, _⟩ := hiso
  intro e' he' args hargs
  obtain ⟨k, hk⟩ := List.getElem?_of_mem he'
  obtain ⟨j, e, hj, _, rfl⟩ := iso_edge_bwd hρ hedge hk
  simp only [PEdge.mapNodes, List.length_map] at hargs ⊢
  exact ha e (List.mem_of_getElem? hj) args hargs

theorem opDep_of_iso (hπ : BijOn P.n Q.n π) (hwf : P.wf = true)
    (hedge : ∀ e, e < P.edges.length → Q.edges[ρ e]? = (P.edges[e]?).map (PEdge.mapNodes π))
    {x y : Nat} (hx : x < P.edges.length) (hy : y < P.edges.length)
    (h : opDep Q (ρ x) (ρ y)) : opDep P x y := by
  obtain ⟨_, _, hPedges⟩ := pdiag_wf_unpack hwf
  obtain ⟨ex', ey', v, hex', hey', hvt, hvs⟩ := h
  have h1 := iso_edge_fwd hedge (List.getElem?_eq_getElem hx)
  have h2 := iso_edge_fwd hedge (List.getElem?_eq_getElem hy)
  rw [hex'] at h1
  rw [hey'] at h2
  injection h1 with h1
  injection h2 with h2
  subst h1 h2
  simp only [PEdge.mapNodes, List.mem_map] at hvt hvs
  obtain ⟨a, ha, hπa⟩ := hvt
  obtain ⟨b, hb, hπb⟩ := hvs
  have hab : a = b := hπ.2.1 a b ((hPedges _ (List.getElem_mem hx)).2 a ha)
    ((hPedges _ (List.getElem_mem hy)).1 b hb) (by rw [hπa, hπb])
  subst hab
  exact ⟨_, _, a, List.getElem?_eq_getElem hx, List.getElem?_eq_getElem hy, ha, hb⟩

theorem noCycle_of_iso (hiso : P ≅ Q) (hwf : P.wf = true) (hac : NoCycle P) : NoCycle Q := by
  classical
  obtain ⟨π, ρ, hπ, hρ, _, hedge, _, _⟩ := hiso
  obtain ⟨lay, hlay⟩ := exists_lay_of_noCycle P hac
  have hex : ∀ k, k < Q.edges.length → ∃ j, j < P.edges.length ∧ ρ j = k := hρ.2.2
  apply noCycle_of_lay Q
    (fun k => if h : ∃ j, j < P.edges.length ∧ ρ j = k then lay (Classical.choose h) else 0)
  intro x' y' hxy
  obtain ⟨hx', hy'⟩ := opDep_lt hxy
  simp only [dif_pos (hex x' hx'), dif_pos (hex y' hy')]
  obtain ⟨hx, hρx⟩ := Classical.choose_spec (hex x' hx')
  obtain ⟨hy, hρy⟩ := Classical.choose_spec (hex y' hy')
  apply hlay
  apply opDep_of_iso hπ hwf hedge hx hy
  rw [hρx, hρy]
  exact hxy

theorem singleWriter_of_iso (hiso : P ≅ Q) (hwf : P.wf = true) (hsw : SingleWriter P) :
    SingleWriter Q := by
  obtain ⟨π, ρ, hπ, hρ, _, hedge, hins, _⟩ := hiso
  obtain ⟨hPins, _, hPedges⟩ := pdiag_wf_unpack hwf
  have hinj := hπ.2.1
  -- preimage of a target of an edge of `Q`
  have hpre : ∀ k e' v, Q.edges[k]? = some e' → v ∈ e'.tgt →
      ∃ j e u, P.edges[j]? = some e ∧ ρ j = k ∧ u ∈ e.tgt ∧ u < P.n ∧ π u = v := by
    intro k e' v hk hv
    obtain ⟨j, e, hj, hρj, rfl⟩ := iso_edge_bwd hρ hedge hk
    simp only [PEdge.mapNodes, List.mem_map] at hv
    obtain ⟨u, hu, hπu⟩ := hv
    exact ⟨j, e, u, hj, hρj, hu, (hPedges e (List.mem_of_getElem? hj)).2 u hu, hπu⟩
  unfold SingleWriter
  rw [List.nodup_append]
  refine ⟨?_, ?_, ?_⟩
  · rw [hins]
    exact List.Nodup.map_on (fun a ha b hb hab => hinj a b (hPins a ha) (hPins b hb) hab)
      (sw_ins_nodup hsw)
  · rw [List.nodup_flatMap]
    refine ⟨?_, ?_⟩
    · intro e' he'
      obtain ⟨k, hk⟩ := List.getElem?_of_mem he'
      obtain ⟨j, e, hj, _, rfl⟩ := iso_edge_bwd hρ hedge hk
      have hmem := List.mem_of_getElem? hj
      exact List.Nodup.map_on (fun a ha b hb hab =>
        hinj a b ((hPedges e hmem).2 a ha) ((hPedges e hmem).2 b hb) hab) (sw_tgt_nodup hsw e hmem)
    · rw [List.pairwise_iff_getElem]
      intro i j hi hj hij
      simp only [Function.onFun]
      intro v hv hv'
      obtain ⟨a, ea, u, hea, hρa, hu, hun, hπu⟩ :=
        hpre i _ v (List.getElem?_eq_getElem hi) hv
      obtain ⟨b, eb, u', heb, hρb, hu', hun', hπu'⟩ :=
        hpre j _ v (List.getElem?_eq_getElem hj) hv'
      have huu : u = u' := hinj u u' hun hun' (by rw [hπu, hπu'])
      subst huu
      have hab := sw_edge_unique hsw hea heb hu hu'
      subst hab
      omega
  · intro v hv w hw hvw
    subst hvw
    rw [hins, List.mem_map] at hv
    obtain ⟨u, hu, hπu⟩ := hv
    obtain ⟨e', he', hve'⟩ := List.mem_flatMap.1 hw
    obtain ⟨k, hk⟩ := List.getElem?_of_mem he'
    obtain ⟨j, e, u', hj, _, hu', hun', hπu'⟩ := hpre k e' v hk hve'
    have huu : u = u' := hinj u u' (hPins u hu) hun' (by rw [hπu, hπu'])
    subst huu
    exact sw_ins_not_tgt hsw u hu e (List.mem_of_getElem? hj) hu'

end iso

/-! ### the input list is not length-checked -/

theorem map_fst_zip_take {β γ : Type} : ∀ (a : List β) (b : List γ),
    (a.zip b).map Prod.fst = a.take b.length
  | [], _ => by simp
  | _ :: _, [] => by simp
  | x :: a, y :: b => by simp [map_fst_zip_take a b]

/-- reading the initial memory: input node number `i` carries `s[i]` if the list is long enough
    and the default otherwise; all other nodes carry the default -/
theorem initMem_rd (d : PDiag O A) (dflt : T) (s : List T) (hn : d.ins.Nodup)
    (hlt : ∀ v ∈ d.ins, v < d.n) :
    (∀ i (hi : i < d.ins.length), rd dflt (initMem d dflt s) d.ins[i] = s.getD i dflt) ∧
    (∀ v, v ∉ d.ins → rd dflt (initMem d dflt s) v = dflt) := by
  have hrep : ∀ v, (List.replicate d.n dflt).getD v dflt = dflt := by
    intro v
    rw [List.getD_eq_getElem?_getD, List.getElem?_replicate]
    split <;> rfl
  constructor
  · intro i hi
    unfold initMem rd
    by_cases his : i < s.length
    · rw [List.getD_eq_getElem?_getD (l := s), List.getElem?_eq_getElem his, Option.getD_some]
      apply writeAll_getD_of_mem_nodup
      · rw [map_fst_zip_take]
        exact hn.sublist (List.take_sublist _ _)
      · have : (d.ins[i], s[i]) = (d.ins.zip s)[i]'(by rw [List.length_zip]; omega) := by
          rw [List.getElem_zip]
        rw [this]
        exact List.getElem_mem _
      · rw [List.length_replicate]
        exact hlt _ (List.getElem_mem _)
    · rw [List.getD_eq_getElem?_getD (l := s), List.getElem?_eq_none (by omega), Option.getD_none,
        writeAll_getD_of_not_mem, hrep]
      intro p hp heq
      have hmem : p.1 ∈ (d.ins.zip s).map Prod.fst := List.mem_map_of_mem hp
      rw [map_fst_zip_take, heq, List.mem_take_iff_getElem] at hmem
      obtain ⟨j, hj, hji⟩ := hmem
      have := (hn.getElem_inj_iff (hi := by omega) (hj := hi)).1 hji
      omega
  · intro v hv
    unfold initMem rd
    rw [writeAll_getD_of_not_mem, hrep]
    intro p hp heq
    apply hv
    rw [← heq]
    exact (List.of_mem_zip (a := p.1) (b := p.2) hp).1

theorem eq_of_rd_eq (dflt : T) (m₁ m₂ : List T) (hlen : m₁.length = m₂.length)
    (h : ∀ v, rd dflt m₁ v = rd dflt m₂ v) : m₁ = m₂ := by
  apply List.ext_getElem hlen
  intro v h1 h2
  have := h v
  unfold rd at this
  rw [List.getD_eq_getElem?_getD, List.getD_eq_getElem?_getD, List.getElem?_eq_getElem h1,
    List.getElem?_eq_getElem h2] at this
  exact this

/-- the input list cut or padded with the default to the length of the input interface -/
def normInput (k : Nat) (dflt : T) (s : List T) : List T := (List.range k).map (s.getD · dflt)

theorem normInput_length (k : Nat) (dflt : T) (s : List T) : (normInput k dflt s).length = k := by
  simp [normInput]

theorem normInput_of_length (dflt : T) (s : List T) : normInput s.length dflt s = s := by
  apply List.ext_getElem (normInput_length _ _ _)
  intro i h1 h2
  simp [normInput, List.getD_eq_getElem?_getD, List.getElem?_eq_getElem h2]

theorem initMem_normInput (d : PDiag O A) (dflt : T) (s : List T) (hn : d.ins.Nodup)
    (hlt : ∀ v ∈ d.ins, v < d.n) :
    initMem d dflt (normInput d.ins.length dflt s) = initMem d dflt s := by
  apply eq_of_rd_eq dflt
  · unfold initMem
    rw [writeAll_length, writeAll_length]
  · intro v
    obtain ⟨h1, h2⟩ := initMem_rd d dflt s hn hlt
    obtain ⟨h1', h2'⟩ := initMem_rd d dflt (normInput d.ins.length dflt s) hn hlt
    by_cases hv : v ∈ d.ins
    · obtain ⟨i, hi, rfl⟩ := List.getElem_of_mem hv
      rw [h1 i hi, h1' i hi]
      simp [normInput, List.getD_eq_getElem?_getD, hi]
    · rw [h2 v hv, h2' v hv]

/-- `eval` depends on the input list only through the initial memory -/
theorem eval_congr_input (B : Backend) (hB : B.Lawful) (f : OHG O A) (hf : f.wf = true)
    (dflt : T) (s s' : List T) (apply : Apply A T) (h : initM f dflt s = initM f dflt s') :
    eval B f dflt s apply = eval B f dflt s' apply := by
  obtain ⟨order, unv, groups, hl, hc, hol, hul, hlt, hglen, hcount, hspec⟩ :=
    eval_layers B hB f hf
  have hrange := groups_in_range hol hcount
  rw [eval_unfold B f dflt s apply _ unv groups hl hc,
    eval_unfold B f dflt s' apply _ unv groups hl hc,
    evalOrder_eq f hf dflt s groups hrange apply, evalOrder_eq f hf dflt s' groups hrange apply, h]

end OH.Eval
