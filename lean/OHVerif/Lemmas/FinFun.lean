/-
  Helper lemmas for C06 (finite functions): scalar specifications of the primitives the
  `FinFun` operations are built from, and explicit closed forms of every `FinFun` operation.
  Self-contained (does not depend on OHVerif.Lemmas.Prim).
-/
import OHVerif.Model.FinFun

namespace OH.FinFun
open OH OH.Prim

variable {α : Type}

/-! ### gather -/

theorem gatherP_eq_map (xs : List α) (idx : List Nat) (f : Nat → α)
    (h : ∀ i ∈ idx, xs[i]? = some (f i)) : gatherP xs idx = idx.map f := by
  induction idx with
  | nil => rfl
  | cons i is ih =>
    have hi := h i (by simp)
    have ih' := ih (fun j hj => h j (by simp [hj]))
    simp only [gatherP] at ih' ⊢
    simp [hi, ih']

theorem gatherP_length (xs : List α) (idx : List Nat) (h : ∀ i ∈ idx, i < xs.length) :
    (gatherP xs idx).length = idx.length := by
  induction idx with
  | nil => rfl
  | cons i is ih =>
    have hi := h i (by simp)
    have ih' := ih (fun j hj => h j (by simp [hj]))
    simp only [gatherP] at ih' ⊢
    simp [List.getElem?_eq_getElem hi, ih']

theorem gatherP_getElem? (xs : List α) (idx : List Nat) (h : ∀ i ∈ idx, i < xs.length) (k : Nat) :
    (gatherP xs idx)[k]? = idx[k]?.bind (fun i => xs[i]?) := by
  induction idx generalizing k with
  | nil => simp [gatherP]
  | cons i is ih =>
    have hi := h i (by simp)
    have ih' := ih (fun j hj => h j (by simp [hj]))
    simp only [gatherP] at ih' ⊢
    cases k with
    | zero => simp [List.getElem?_eq_getElem hi]
    | succ k => simp [List.getElem?_eq_getElem hi, ih']

theorem gather_ok (xs : List α) (idx : List Nat) (h : ∀ i ∈ idx, i < xs.length) :
    gather xs idx = .ok (gatherP xs idx) := by
  unfold gather
  rw [if_pos]
  simpa using h

theorem gather_ne_none (xs : List α) (idx : List Nat) : gather xs idx ≠ .none := by
  unfold gather; split <;> simp

/-! ### arange -/

theorem arange_ok (a b : Nat) (h : a ≤ b) : arange a b = .ok (List.range' a (b - a)) := by
  simp [arange, h]

theorem arange_zero (a : Nat) : arange 0 a = .ok (List.range a) := by
  simp [arange, List.range_eq_range']

/-! ### sums, running sums -/

theorem foldl_add_eq (xs : List Nat) (a : Nat) : xs.foldl (· + ·) a = a + xs.sum := by
  induction xs generalizing a with
  | nil => simp
  | cons x xs ih => simp [ih, Nat.add_assoc]

theorem sum_eq (xs : List Nat) : Prim.sum xs = xs.sum := by
  simp [Prim.sum, foldl_add_eq]

theorem cumsumFrom_length (a : Nat) (xs : List Nat) : (cumsumFrom a xs).length = xs.length + 1 := by
  induction xs generalizing a with
  | nil => rfl
  | cons x xs ih => simp [cumsumFrom, ih]

theorem cumsumFrom_getElem? (a : Nat) (xs : List Nat) (k : Nat) (hk : k ≤ xs.length) :
    (cumsumFrom a xs)[k]? = some (a + (xs.take k).sum) := by
  induction xs generalizing a k with
  | nil =>
    have : k = 0 := by simpa using hk
    subst this; simp [cumsumFrom]
  | cons x xs ih =>
    cases k with
    | zero => simp [cumsumFrom]
    | succ k =>
      have hk' : k ≤ xs.length := by simpa using hk
      simp [cumsumFrom, ih _ _ hk', Nat.add_assoc]

theorem cumsumFrom_take (a : Nat) (xs : List Nat) :
    (cumsumFrom a xs).take xs.length = (List.range xs.length).map (fun k => a + (xs.take k).sum) := by
  apply List.ext_getElem?
  intro k
  by_cases hk : k < xs.length
  · rw [List.getElem?_take, if_pos hk, cumsumFrom_getElem? a xs k (Nat.le_of_lt hk)]
    simp [hk]
  · rw [List.getElem?_take, if_neg hk]
    simp [hk]

theorem sum_take_le (xs : List Nat) (k : Nat) : (xs.take k).sum ≤ xs.sum := by
  have := congrArg List.sum (List.take_append_drop k xs)
  rw [List.sum_append] at this
  omega

theorem sum_take_succ (xs : List Nat) (k : Nat) (hk : k < xs.length) :
    (xs.take (k + 1)).sum = (xs.take k).sum + xs[k] := by
  rw [List.take_succ_eq_append_getElem hk, List.sum_append]; simp

/-! ### repeat -/

theorem repeatP_nil_left (xs : List α) : repeatP [] xs = [] := by
  cases xs <;> rfl

theorem repeatP_take (ks : List Nat) (xs : List α) :
    repeatP ks (xs.take ks.length) = repeatP ks xs := by
  induction ks generalizing xs with
  | nil => simp [repeatP_nil_left]
  | cons k ks ih =>
    cases xs with
    | nil => rfl
    | cons x xs => simp [repeatP, ih]

theorem repeatP_map_map {ι : Type} (idx : List ι) (sz : ι → Nat) (pv : ι → α) :
    repeatP (idx.map sz) (idx.map pv) = idx.flatMap (fun x => List.replicate (sz x) (pv x)) := by
  induction idx with
  | nil => rfl
  | cons i is ih => simp [repeatP, ih]

theorem repeatP_length (ks : List Nat) (xs : List α) (h : ks.length ≤ xs.length) :
    (repeatP ks xs).length = ks.sum := by
  induction ks generalizing xs with
  | nil => simp [repeatP_nil_left]
  | cons k ks ih =>
    cases xs with
    | nil => simp at h
    | cons x xs =>
      have h' : ks.length ≤ xs.length := by simpa using h
      simp [repeatP, ih xs h']

/-! ### sub -/

theorem subP_append (A B A' B' R1 R2 : List Nat) (hlen : A.length = B.length)
    (h1 : subP A B = .ok R1) (h2 : subP A' B' = .ok R2) :
    subP (A ++ A') (B ++ B') = .ok (R1 ++ R2) := by
  induction A generalizing B R1 with
  | nil =>
    cases B with
    | nil =>
      have : R1 = [] := by
        cases A' <;> simp [subP] at h1 <;> exact h1
      subst this; simpa using h2
    | cons y B => simp at hlen
  | cons x A ih =>
    cases B with
    | nil => simp at hlen
    | cons y B =>
      have hlen' : A.length = B.length := by simpa using hlen
      simp only [subP, List.cons_append] at h1 ⊢
      by_cases hyx : y ≤ x
      · simp only [hyx, if_true] at h1 ⊢
        cases hsub : subP A B with
        | ok R =>
          rw [hsub] at h1
          simp only [Res.ok_bind, Res.ok.injEq] at h1
          subst h1
          rw [ih B R hlen' hsub]; rfl
        | none => rw [hsub] at h1; simp at h1
        | panic s => rw [hsub] at h1; simp at h1
      · simp [hyx] at h1

theorem subP_range'_replicate (c d k : Nat) :
    subP (List.range' (c + d) k) (List.replicate k c) = .ok (List.range' d k) := by
  induction k generalizing d with
  | zero => rfl
  | succ k ih =>
    have := ih (d + 1)
    rw [← Nat.add_assoc] at this
    simp [List.range'_succ, List.replicate_succ, subP, this]

theorem subP_segments (c : Nat) (ks : List Nat) :
    subP (List.range' c ks.sum) (repeatP ks (cumsumFrom c ks)) = .ok (ks.flatMap List.range) := by
  induction ks generalizing c with
  | nil => simp [repeatP_nil_left, subP]
  | cons k ks ih =>
    simp only [List.sum_cons, cumsumFrom, repeatP, List.flatMap_cons]
    rw [← List.range'_append_1]
    apply subP_append
    · simp
    · have := subP_range'_replicate c 0 k
      simpa [List.range_eq_range'] using this
    · exact ih (c + k)

/-- `segmented_arange`: for every segment its own `0..size` -/
theorem segmentedArange_ok (ks : List Nat) :
    segmentedArange ks = .ok (ks.flatMap List.range) := by
  have hlen := cumsumFrom_length 0 ks
  have hget := cumsumFrom_getElem? 0 ks ks.length (Nat.le_refl _)
  have hget' : get (Prim.cumulativeSum ks) ks.length = .ok ks.sum := by
    simp [Prim.get, Prim.cumulativeSum, hget, Res.ofOption]
  have hrange : getRange (Prim.cumulativeSum ks) (.to ks.length) =
      .ok ((cumsumFrom 0 ks).take ks.length) := by
    simp [getRange, toRange, slice, Prim.cumulativeSum, hlen]
  have hrep : «repeat» ks ((cumsumFrom 0 ks).take ks.length) =
      .ok (repeatP ks (cumsumFrom 0 ks)) := by
    simp [«repeat», hlen, repeatP_take]
  have hsub : sub (List.range' 0 ks.sum) (repeatP ks (cumsumFrom 0 ks)) =
      .ok (ks.flatMap List.range) := by
    unfold sub
    rw [if_pos, subP_segments]
    rw [repeatP_length _ _ (by rw [hlen]; exact Nat.le_succ _)]; simp
  unfold segmentedArange
  simp only [Prim.cumulativeSum] at *
  simp [hlen, checkedSub, hget', hrange, hrep, arange, hsub]

/-! ### add -/

theorem add_ok (xs ys : List Nat) (h : xs.length = ys.length) :
    add xs ys = .ok (List.zipWith (· + ·) xs ys) := by
  simp [add, h]

theorem zipWith_add_range_replicate (p k : Nat) :
    List.zipWith (· + ·) (List.range k) (List.replicate k p) = List.range' p k := by
  apply List.ext_getElem?
  intro i
  by_cases hi : i < k
  · simp [hi, Nat.add_comm]
  · simp [hi]

theorem zipWith_add_blocks {ι : Type} (idx : List ι) (sz pv : ι → Nat) :
    List.zipWith (· + ·) (idx.flatMap (fun x => List.range (sz x)))
      (idx.flatMap (fun x => List.replicate (sz x) (pv x))) =
      idx.flatMap (fun x => List.range' (pv x) (sz x)) := by
  induction idx with
  | nil => rfl
  | cons i is ih =>
    simp only [List.flatMap_cons]
    rw [List.zipWith_append (by simp), ih, zipWith_add_range_replicate]

/-! ### foldl max -/

theorem foldl_max_le_iff (xs : List Nat) (x k : Nat) :
    xs.foldl Nat.max x ≤ k ↔ x ≤ k ∧ ∀ y ∈ xs, y ≤ k := by
  induction xs generalizing x with
  | nil => simp
  | cons y ys ih =>
    simp only [List.foldl_cons, List.mem_cons, forall_eq_or_imp, ih, Nat.max_le]
    constructor
    · rintro ⟨⟨h1, h2⟩, h3⟩; exact ⟨h1, h2, h3⟩
    · rintro ⟨h1, h2, h3⟩; exact ⟨⟨h1, h2⟩, h3⟩

/-! ### well-formedness -/

theorem wf_iff (f : FinFun) : f.wf = true ↔ f.WF := by
  simp [wf, WF]

instance (f : FinFun) : Decidable f.WF := decidable_of_iff _ (wf_iff f)

theorem WF.getElem?_lt {f : FinFun} (h : f.WF) {i x : Nat} (hx : f.table[i]? = some x) :
    x < f.target := h x (List.mem_of_getElem? hx)

/-! ### closed forms of the constructors -/

theorem identity_eq (a : Nat) : identity a = .ok ⟨List.range a, a⟩ := by
  simp [identity, arange_zero]

theorem inj0_eq (a b : Nat) : inj0 a b = .ok ⟨List.range a, a + b⟩ := by
  simp [inj0, arange_zero]

theorem inj1_eq (a b : Nat) : inj1 a b = .ok ⟨List.range' a b, a + b⟩ := by
  simp [inj1, arange]

theorem twist_eq (a b : Nat) : twist a b = .ok ⟨List.range' b a ++ List.range b, a + b⟩ := by
  simp [twist, arange, List.range_eq_range']

theorem transpose_eq (a b : Nat) (ha : a ≠ 0) :
    transpose a b = .ok ⟨(List.range (b * a)).map (fun i => (i % a) * b + i / a), b * a⟩ := by
  simp [transpose, ha, arange_zero, quotRem, mulConstantAdd]

theorem transpose_zero (b : Nat) : transpose 0 b = .ok ⟨[], 0⟩ := by
  simp [transpose, initial]

/-! ### compose -/

theorem compose_ok (f g : FinFun) (hf : f.WF) (h : f.target = g.source) :
    compose f g = .ok ⟨gatherP g.table f.table, g.target⟩ := by
  have hr : ∀ i ∈ f.table, i < g.table.length := fun i hi => by
    have := hf i hi; rw [h] at this; exact this
  simp [compose, h, gather_ok _ _ hr]

theorem compose_ok_map (f g : FinFun) (φ : Nat → Nat) (h : f.target = g.source)
    (hφ : ∀ i ∈ f.table, g.table[i]? = some (φ i)) :
    compose f g = .ok ⟨f.table.map φ, g.target⟩ := by
  have hr : ∀ i ∈ f.table, i < g.table.length := fun i hi => by
    have := hφ i hi
    exact (List.getElem?_eq_some_iff.mp this).1
  simp [compose, h, gather_ok _ _ hr, gatherP_eq_map _ _ φ hφ]

theorem compose_ne_panic (f g : FinFun) (hf : f.WF) (s : String) : compose f g ≠ .panic s := by
  by_cases h : f.target = g.source
  · rw [compose_ok f g hf h]; simp
  · simp [compose, h]

theorem compose_none (f g : FinFun) (h : f.target ≠ g.source) : compose f g = .none := by
  simp [compose, h]

theorem composeSemi_ok (f : FinFun) (g : List α) (hf : f.WF) (h : f.target = g.length) :
    composeSemi f g = .ok (gatherP g f.table) := by
  have hr : ∀ i ∈ f.table, i < g.length := fun i hi => by
    have := hf i hi; rw [h] at this; exact this
  simp [composeSemi, h, gather_ok _ _ hr]

/-! ### injections, cumulative sum -/

theorem injections_ok (s a : FinFun) (ha : a.WF) (h : a.target = s.source) :
    injections s a = .ok ⟨a.table.flatMap
      (fun x => List.range' (s.table.take x).sum (s.table.getD x 0)), s.table.sum⟩ := by
  have hlt : ∀ i ∈ a.table, i < s.table.length := fun i hi => by
    have := ha i hi; rw [h] at this; exact this
  have hk : compose a s = .ok ⟨a.table.map (fun x => s.table.getD x 0), s.target⟩ := by
    apply compose_ok_map a s _ h
    intro i hi
    simp [List.getElem?_eq_getElem (hlt i hi)]
  have hseg : segmentedArange (a.table.map (fun x => s.table.getD x 0)) =
      .ok (a.table.flatMap (fun x => List.range (s.table.getD x 0))) := by
    rw [segmentedArange_ok, List.flatMap_map]
  have hlen := cumsumFrom_length 0 s.table
  have hval : gather (Prim.cumulativeSum s.table) a.table =
      .ok (a.table.map (fun x => (s.table.take x).sum)) := by
    have hφ : ∀ i ∈ a.table, (Prim.cumulativeSum s.table)[i]? = some ((s.table.take i).sum) := by
      intro i hi
      have := cumsumFrom_getElem? 0 s.table i (Nat.le_of_lt (hlt i hi))
      simpa [Prim.cumulativeSum] using this
    rw [gather_ok, gatherP_eq_map _ _ _ hφ]
    intro i hi
    simp only [Prim.cumulativeSum, hlen]
    exact Nat.lt_succ_of_lt (hlt i hi)
  have hrep : «repeat» (a.table.map (fun x => s.table.getD x 0))
      (a.table.map (fun x => (s.table.take x).sum)) =
      .ok (a.table.flatMap (fun x => List.replicate (s.table.getD x 0) (s.table.take x).sum)) := by
    simp [«repeat», repeatP_map_map]
  have hadd : add (a.table.flatMap (fun x => List.range (s.table.getD x 0)))
      (a.table.flatMap (fun x => List.replicate (s.table.getD x 0) (s.table.take x).sum)) =
      .ok (a.table.flatMap
        (fun x => List.range' (s.table.take x).sum (s.table.getD x 0))) := by
    rw [add_ok, zipWith_add_blocks]
    simp [List.length_flatMap]
  have hget : Prim.get (Prim.cumulativeSum s.table) s.table.length = .ok s.table.sum := by
    have := cumsumFrom_getElem? 0 s.table s.table.length (Nat.le_refl _)
    simp [Prim.get, Prim.cumulativeSum, this, Res.ofOption]
  have hcs : checkedSub (Prim.cumulativeSum s.table).length 1 "injections:underflow" =
      .ok s.table.length := by
    simp [checkedSub, Prim.cumulativeSum, hlen]
  simp only [injections, hk, hseg, hval, hrep, hadd, hcs, hget, Res.ok_bind, Res.pure_eq]

theorem injections_none (s a : FinFun) (h : a.target ≠ s.source) : injections s a = .none := by
  simp [injections, compose_none a s h]

theorem cumulativeSum_ok (f : FinFun) :
    f.cumulativeSum = .ok ⟨(List.range f.source).map (fun k => (f.table.take k).sum), f.table.sum⟩ := by
  have hlen := cumsumFrom_length 0 f.table
  have hget : Prim.get (Prim.cumulativeSum f.table) f.table.length = .ok f.table.sum := by
    have := cumsumFrom_getElem? 0 f.table f.table.length (Nat.le_refl _)
    simp [Prim.get, Prim.cumulativeSum, this, Res.ofOption]
  have hrange : getRange (Prim.cumulativeSum f.table) (.to f.table.length) =
      .ok ((List.range f.table.length).map (fun k => (f.table.take k).sum)) := by
    have := cumsumFrom_take 0 f.table
    simp only [Nat.zero_add] at this
    simp [getRange, toRange, slice, Prim.cumulativeSum, hlen, this]
  simp [FinFun.cumulativeSum, source, hget, hrange]

/-! ### injectivity test -/

theorem bincount_ok (xs : List Nat) (n : Nat) (h : ∀ x ∈ xs, x < n) :
    bincount xs n = .ok ((List.range n).map (fun v => xs.count v)) := by
  unfold bincount
  rw [if_pos]
  simpa using h

theorem isInjective_ok (f : FinFun) (hf : f.WF) :
    isInjective f = .ok (decide f.table.Nodup) := by
  unfold isInjective
  by_cases h0 : f.source = 0
  · have : f.table = [] := List.eq_nil_of_length_eq_zero h0
    simp [h0, this]
  · rw [if_neg h0, bincount_ok _ _ hf]
    simp only [Res.ok_bind, Res.pure_eq, Res.ok.injEq]
    have key : (∀ c ∈ (List.range f.target).map (fun v => f.table.count v), c ≤ 1) ↔
        f.table.Nodup := by
      rw [List.nodup_iff_count]
      constructor
      · intro hc v
        by_cases hv : v ∈ f.table
        · exact hc _ (List.mem_map.mpr ⟨v, List.mem_range.mpr (hf v hv), rfl⟩)
        · rw [List.count_eq_zero_of_not_mem hv]; exact Nat.zero_le _
      · intro hc c hmem
        obtain ⟨v, _, rfl⟩ := List.mem_map.mp hmem
        exact hc v
    cases hcounts : (List.range f.target).map (fun v => f.table.count v) with
    | nil =>
      rw [hcounts] at key
      simp only [Prim.max]
      have : f.table.Nodup := key.mp (by simp)
      simp [this]
    | cons c cs =>
      rw [hcounts] at key
      simp only [Prim.max]
      have h2 := foldl_max_le_iff cs c 1
      have h3 : (c ≤ 1 ∧ ∀ y ∈ cs, y ≤ 1) ↔ ∀ y ∈ c :: cs, y ≤ 1 := by simp
      rw [h3, key] at h2
      by_cases hm : cs.foldl Nat.max c ≤ 1
      · simp [hm, h2.mp hm]
      · have : ¬ f.table.Nodup := fun hc => hm (h2.mpr hc)
        simp [hm, this]

/-! ### scatter and the universal map through a surjection -/

theorem writeAll_length (ps : List (Nat × α)) (y : List α) : (writeAll y ps).length = y.length := by
  induction ps generalizing y with
  | nil => rfl
  | cons p ps ih => obtain ⟨i, x⟩ := p; simp [writeAll, ih]

/-- after the writes, position `c` holds the value of one of the writes to `c`, or — if there was
    none — what it held before -/
theorem writeAll_getElem? (ps : List (Nat × α)) (y : List α) (c : Nat) (hc : c < y.length) :
    ((writeAll y ps)[c]? = y[c]? ∧ ∀ p ∈ ps, p.1 ≠ c) ∨
      ∃ p ∈ ps, p.1 = c ∧ (writeAll y ps)[c]? = some p.2 := by
  induction ps generalizing y with
  | nil => left; simp [writeAll]
  | cons p ps ih =>
    obtain ⟨i, x⟩ := p
    have hc' : c < (y.set i x).length := by simpa using hc
    rcases ih (y.set i x) hc' with ⟨h1, h2⟩ | ⟨p, hp, hpc, hval⟩
    · by_cases hic : i = c
      · right
        refine ⟨(i, x), by simp, hic, ?_⟩
        simp only [writeAll]
        rw [h1, hic, List.getElem?_set_self hc]
      · left
        refine ⟨?_, ?_⟩
        · simp only [writeAll]
          rw [h1, List.getElem?_set_ne hic]
        · intro p hp
          rcases List.mem_cons.mp hp with rfl | hp
          · exact hic
          · exact h2 p hp
    · right
      exact ⟨p, by simp [hp], hpc, by simpa [writeAll] using hval⟩

theorem mem_zip_iff_getElem? {β : Type} (s : List α) (t : List β) (a : α) (b : β) :
    (a, b) ∈ s.zip t ↔ ∃ k : Nat, s[k]? = some a ∧ t[k]? = some b := by
  rw [List.mem_iff_getElem?]
  constructor
  · rintro ⟨k, hk⟩
    exact ⟨k, List.getElem?_zip_eq_some.mp hk⟩
  · rintro ⟨k, hk⟩
    exact ⟨k, List.getElem?_zip_eq_some.mpr hk⟩

/-- `scatter` of labels `u` along a well-formed `q`: every hit position holds the label of one of
    the indices that hit it -/
theorem scatter_spec (B : Backend) (q : FinFun) (u : List α) (hq : q.WF)
    (hlen : u.length = q.source) (h0 : q.table = [] → q.target = 0) :
    ∃ table, scatter B u q.table q.target = .ok table ∧ table.length = q.target ∧
      ∀ i c : Nat, q.table[i]? = some c →
        ∃ j : Nat, q.table[j]? = some c ∧ table[c]? = u[j]? ∧ j < u.length := by
  cases u with
  | nil =>
    have hqt : q.table = [] := List.eq_nil_of_length_eq_zero (by simpa [source] using hlen.symm)
    refine ⟨[], by simp [scatter, hqt], by simp [h0 hqt], ?_⟩
    intro i c hic
    simp [hqt] at hic
  | cons x0 xs =>
    have hlen' : (x0 :: xs).length = q.table.length := hlen
    refine ⟨writeAll (List.replicate q.target ((x0 :: xs).getD (B.fillerIdx (x0 :: xs).length) x0))
      (q.table.zip (x0 :: xs)), ?_, ?_, ?_⟩
    · unfold scatter
      simp only
      rw [if_pos]
      · rw [hlen', List.take_length]
      · refine ⟨by rw [hlen']; exact Nat.le_refl _, ?_⟩
        rw [hlen', List.take_length]
        simpa [WF] using hq
    · rw [writeAll_length]; simp
    · intro i c hic
      have hcn : c < q.target := hq.getElem?_lt hic
      have hil : i < (x0 :: xs).length := by
        rw [hlen']; exact (List.getElem?_eq_some_iff.mp hic).1
      rcases writeAll_getElem? (q.table.zip (x0 :: xs))
          (List.replicate q.target ((x0 :: xs).getD (B.fillerIdx (x0 :: xs).length) x0)) c
          (by simpa using hcn) with ⟨_, h2⟩ | ⟨p, hp, hpc, hval⟩
      · exfalso
        have hmem : (c, (x0 :: xs)[i]) ∈ q.table.zip (x0 :: xs) :=
          (mem_zip_iff_getElem? _ _ _ _).mpr ⟨i, hic, List.getElem?_eq_getElem hil⟩
        exact h2 _ hmem rfl
      · obtain ⟨a, b⟩ := p
        obtain ⟨j, hj1, hj2⟩ := (mem_zip_iff_getElem? _ _ _ _).mp hp
        simp only at hpc hval
        subst hpc
        exact ⟨j, hj1, by rw [hval, hj2], (List.getElem?_eq_some_iff.mp hj2).1⟩

/-- `u` is constant on the fibres of `q` -/
def ConstOnFibres (q : FinFun) (u : List α) : Prop :=
  ∀ i j : Nat, q.table[i]? = q.table[j]? → i < q.source → j < q.source → u[i]? = u[j]?

theorem universalArr_core [DecidableEq α] (B : Backend) (q : FinFun) (u : List α) (hq : q.WF)
    (hlen : u.length = q.source) (h0 : q.table = [] → q.target = 0) :
    ∃ table : List α, table.length = q.target ∧
      (∀ i c : Nat, q.table[i]? = some c →
        ∃ j : Nat, q.table[j]? = some c ∧ table[c]? = u[j]? ∧ j < u.length) ∧
      coequalizerUniversalArr B q u =
        if gatherP table q.table = u then .ok table else .none := by
  obtain ⟨table, hsc, htl, hprop⟩ := scatter_spec B q u hq hlen h0
  refine ⟨table, htl, hprop, ?_⟩
  unfold coequalizerUniversalArr
  rw [if_neg (by simp [hlen])]
  simp only [hsc, Res.ok_bind, composeSemi_ok q table hq htl.symm, Res.unwrap_ok]

theorem universalArr_ok [DecidableEq α] (B : Backend) (q : FinFun) (u : List α) (hq : q.WF)
    (hlen : u.length = q.source) (h0 : q.table = [] → q.target = 0) (hc : ConstOnFibres q u) :
    ∃ v, coequalizerUniversalArr B q u = .ok v ∧ v.length = q.target ∧
      (∀ i c : Nat, q.table[i]? = some c → v[c]? = u[i]?) ∧ gatherP v q.table = u := by
  obtain ⟨table, htl, hprop, heq⟩ := universalArr_core B q u hq hlen h0
  have hpt : ∀ i c : Nat, q.table[i]? = some c → table[c]? = u[i]? := by
    intro i c hic
    obtain ⟨j, hj1, hj2, hj3⟩ := hprop i c hic
    rw [hj2]
    have hi : i < q.source := (List.getElem?_eq_some_iff.mp hic).1
    exact hc j i (by rw [hj1, hic]) (by rw [← hlen]; exact hj3) hi
  have hg : gatherP table q.table = u := by
    have hr : ∀ i ∈ q.table, i < table.length := fun i hi => by rw [htl]; exact hq i hi
    apply List.ext_getElem?
    intro i
    rw [gatherP_getElem? _ _ hr]
    by_cases hi : i < q.table.length
    · rw [List.getElem?_eq_getElem hi]
      simp only [Option.bind_some]
      exact hpt i _ (List.getElem?_eq_getElem hi)
    · have h1 : q.table[i]? = none := List.getElem?_eq_none (Nat.le_of_not_lt hi)
      have h2 : u[i]? = none := List.getElem?_eq_none (by rw [hlen]; exact Nat.le_of_not_lt hi)
      rw [h1, h2]; rfl
  refine ⟨table, ?_, htl, hpt, hg⟩
  rw [heq, if_pos hg]

theorem universalArr_none [DecidableEq α] (B : Backend) (q : FinFun) (u : List α) (hq : q.WF)
    (hlen : u.length = q.source) (hc : ¬ ConstOnFibres q u) :
    coequalizerUniversalArr B q u = .none := by
  have h0 : q.table = [] → q.target = 0 := by
    intro hqt
    exfalso; apply hc
    intro i j _ hi _
    simp [source, hqt] at hi
  obtain ⟨table, htl, _, heq⟩ := universalArr_core B q u hq hlen h0
  rw [heq, if_neg]
  intro hgu
  apply hc
  intro i j hij _ _
  have hr : ∀ i ∈ q.table, i < table.length := fun i hi => by rw [htl]; exact hq i hi
  rw [← hgu, gatherP_getElem? _ _ hr, gatherP_getElem? _ _ hr, hij]

theorem universalArr_len_none [DecidableEq α] (B : Backend) (q : FinFun) (u : List α)
    (hlen : u.length ≠ q.source) : coequalizerUniversalArr B q u = .none := by
  unfold coequalizerUniversalArr
  rw [if_pos (fun h => hlen h.symm)]

theorem eq_range_of_getElem? (l : List Nat) (n : Nat) (hl : l.length = n)
    (h : ∀ i : Nat, i < n → l[i]? = some i) : l = List.range n := by
  apply List.ext_getElem?
  intro i
  by_cases hi : i < n
  · rw [h i hi]; simp [hi]
  · rw [List.getElem?_eq_none (by omega), List.getElem?_eq_none (by simp; omega)]

theorem nodup_iff_inj (l : List Nat) :
    l.Nodup ↔ ∀ i j : Nat, i < l.length → j < l.length → l[i]? = l[j]? → i = j := by
  rw [List.Nodup, List.pairwise_iff_getElem]
  constructor
  · intro h i j hi hj hij
    rw [List.getElem?_eq_getElem hi, List.getElem?_eq_getElem hj, Option.some.injEq] at hij
    rcases Nat.lt_trichotomy i j with hlt | heq | hgt
    · exact absurd hij (h i j hi hj hlt)
    · exact heq
    · exact absurd hij.symm (h j i hj hi hgt)
  · intro h i j hi hj hlt heq
    have := h i j hi hj (by rw [List.getElem?_eq_getElem hi, List.getElem?_eq_getElem hj, heq])
    omega

end OH.FinFun
