/-
  Helper library for C19 (second half): the `Forget` functor, read on plain diagrams.

  * `juxtR`, `blocksFrom`, `locate`: right-nested juxtaposition of a list of diagrams, the offset
    of every block, and the block a node lies in;
  * `IsQuot.pullback`: a quotient of `P` is a quotient of every diagram isomorphic to `P` by an
    isomorphism that keeps the hyperedges in place;
  * `Erased`, `forgetPre`, `forgetRel`: the presentation of the forgotten diagram (delete the erased
    variable edges, identify the nodes incident to a common erased edge);
  * `piece`: the image of one hyperedge under `Forget::map_operation`, as a plain diagram;
  * `forget_retract`: the substitution presentation with the juxtaposed pieces retracts onto
    `forgetPre / forgetRel`.
-/
import OHVerif.Props.C12Subst
import OHVerif.Props.C16
import OHVerif.Lemmas.Predicates

namespace OH.ForgetSem
open OH Relation Subst

variable {O A : Type} {α : Type}

/-! ### right-nested juxtaposition, blocks -/

/-- right-nested juxtaposition of a list of diagrams -/
def juxtR : List (PDiag O A) → PDiag O A
  | [] => PDiag.empty
  | d :: l => PDiag.juxt d (juxtR l)

/-- every item with the offset of the first node of its block -/
def blocksFrom (img : α → PDiag O A) : Nat → List α → List (α × Nat)
  | _, [] => []
  | o, e :: es => (e, o) :: blocksFrom img (o + (img e).n) es

/-- the item whose block contains node `x`, and the position of `x` inside that block -/
def locate (img : α → PDiag O A) : List α → Nat → Option (α × Nat)
  | [], _ => none
  | e :: es, x => if x < (img e).n then some (e, x) else locate img es (x - (img e).n)

theorem juxtR_cons_n (d : PDiag O A) (l : List (PDiag O A)) :
    (juxtR (d :: l)).n = d.n + (juxtR l).n := juxt_n d (juxtR l)

theorem blocksFrom_map_fst (img : α → PDiag O A) (o : Nat) (es : List α) :
    (blocksFrom img o es).map (·.1) = es := by
  induction es generalizing o with
  | nil => rfl
  | cons e es ih => simp [blocksFrom, ih]

theorem juxtR_ins (img : α → PDiag O A) (o : Nat) (es : List α) :
    (juxtR (es.map img)).ins.map (o + ·) =
      (blocksFrom img o es).flatMap (fun p => (img p.1).ins.map (p.2 + ·)) := by
  induction es generalizing o with
  | nil => rfl
  | cons e es ih =>
    show ((img e).ins ++ (juxtR (es.map img)).ins.map ((img e).n + ·)).map (o + ·) = _
    rw [List.map_append, List.map_map]
    simp only [blocksFrom, List.flatMap_cons]
    rw [← ih (o + (img e).n)]
    congr 1
    apply List.map_congr_left
    intro x _
    show o + ((img e).n + x) = o + (img e).n + x
    omega

theorem juxtR_outs (img : α → PDiag O A) (o : Nat) (es : List α) :
    (juxtR (es.map img)).outs.map (o + ·) =
      (blocksFrom img o es).flatMap (fun p => (img p.1).outs.map (p.2 + ·)) := by
  induction es generalizing o with
  | nil => rfl
  | cons e es ih =>
    show ((img e).outs ++ (juxtR (es.map img)).outs.map ((img e).n + ·)).map (o + ·) = _
    rw [List.map_append, List.map_map]
    simp only [blocksFrom, List.flatMap_cons]
    rw [← ih (o + (img e).n)]
    congr 1
    apply List.map_congr_left
    intro x _
    show o + ((img e).n + x) = o + (img e).n + x
    omega

theorem juxtR_edges (img : α → PDiag O A) (o : Nat) (es : List α) :
    (juxtR (es.map img)).edges.map (PEdge.mapNodes (o + ·)) =
      (blocksFrom img o es).flatMap (fun p => (img p.1).edges.map (PEdge.mapNodes (p.2 + ·))) := by
  induction es generalizing o with
  | nil => rfl
  | cons e es ih =>
    show ((img e).edges ++ (juxtR (es.map img)).edges.map (PEdge.mapNodes ((img e).n + ·))).map
      (PEdge.mapNodes (o + ·)) = _
    rw [List.map_append, List.map_map]
    simp only [blocksFrom, List.flatMap_cons]
    rw [← ih (o + (img e).n)]
    congr 1
    apply List.map_congr_left
    intro x _
    show PEdge.mapNodes _ (PEdge.mapNodes _ x) = _
    rw [PEdge.mapNodes_comp]
    apply PEdge.mapNodes_congr <;> intro v _ <;> omega

/-- everything about one block: where it sits, its node labels, and `locate` on its nodes -/
theorem block_spec (img : α → PDiag O A) (es : List α) (o : Nat) (e : α) (o' : Nat)
    (h : (e, o') ∈ blocksFrom img o es) :
    ∃ d, o' = o + d ∧ d + (img e).n ≤ (juxtR (es.map img)).n ∧
      ∀ j, j < (img e).n → (juxtR (es.map img)).nodes[d + j]? = (img e).nodes[j]? ∧
        locate img es (d + j) = some (e, j) := by
  induction es generalizing o with
  | nil => cases h
  | cons e0 es ih =>
    simp only [blocksFrom, List.mem_cons] at h
    have hn : (juxtR ((e0 :: es).map img)).n = (img e0).n + (juxtR (es.map img)).n :=
      juxtR_cons_n _ _
    rcases h with h | h
    · cases h
      refine ⟨0, by omega, by omega, ?_⟩
      intro j hj
      refine ⟨?_, ?_⟩
      · show ((img e).nodes ++ (juxtR (es.map img)).nodes)[0 + j]? = _
        rw [Nat.zero_add, List.getElem?_append_left hj]
      · rw [Nat.zero_add]
        show (if j < (img e).n then _ else _) = _
        rw [if_pos hj]
    · obtain ⟨d, hd, hle, hj⟩ := ih _ h
      refine ⟨(img e0).n + d, by omega, by omega, ?_⟩
      intro j hjn
      obtain ⟨h1, h2⟩ := hj j hjn
      refine ⟨?_, ?_⟩
      · show ((img e0).nodes ++ (juxtR (es.map img)).nodes)[(img e0).n + d + j]? = _
        rw [List.getElem?_append_right (by show (img e0).nodes.length ≤ _; unfold PDiag.n; omega)]
        have : (img e0).n + d + j - (img e0).nodes.length = d + j := by
          show (img e0).nodes.length + d + j - (img e0).nodes.length = d + j; omega
        rw [this, h1]
      · show (if (img e0).n + d + j < (img e0).n then _ else _) = _
        rw [if_neg (by omega)]
        have : (img e0).n + d + j - (img e0).n = d + j := by omega
        rw [this, h2]

/-- every node of the juxtaposition lies in a block -/
theorem locate_some (img : α → PDiag O A) (es : List α) (o x : Nat)
    (hx : x < (juxtR (es.map img)).n) :
    ∃ e j d, (e, o + d) ∈ blocksFrom img o es ∧ j < (img e).n ∧ x = d + j := by
  induction es generalizing o x with
  | nil => exact absurd hx (Nat.not_lt_zero _)
  | cons e0 es ih =>
    have hn : (juxtR ((e0 :: es).map img)).n = (img e0).n + (juxtR (es.map img)).n :=
      juxtR_cons_n _ _
    by_cases h : x < (img e0).n
    · exact ⟨e0, x, 0, by simp [blocksFrom], h, by omega⟩
    · obtain ⟨e, j, d, h1, h2, h3⟩ := ih (o + (img e0).n) (x - (img e0).n) (by omega)
      refine ⟨e, j, (img e0).n + d, ?_, h2, by omega⟩
      simp only [blocksFrom, List.mem_cons]
      right
      rw [← Nat.add_assoc]
      exact h1

/-! ### pulling a quotient back along an isomorphism that keeps the hyperedges in place -/

theorem bijOn_id_eq {n m : Nat} (h : BijOn n m (fun e => e)) : n = m := by
  obtain ⟨h1, _, h3⟩ := h
  have h1' : ∀ i, i < n → i < m := h1
  have h3' : ∀ k, k < m → ∃ i, i < n ∧ i = k := h3
  apply Nat.le_antisymm
  · cases n with
    | zero => omega
    | succ n => have := h1' n (by omega); omega
  · apply Nat.le_of_not_lt
    intro hlt
    obtain ⟨i, hi, rfl⟩ := h3' n hlt
    omega

theorem isoVia_edges_eq {P' P : PDiag O A} {σ : Nat → Nat} (hσ : IsoVia P' P σ (fun e => e)) :
    P.edges = P'.edges.map (PEdge.mapNodes σ) := by
  have hl := bijOn_id_eq hσ.ebij
  apply List.ext_getElem?
  intro e
  by_cases he : e < P'.edges.length
  · rw [hσ.edges e he, List.getElem?_map]
  · rw [List.getElem?_eq_none (by omega), List.getElem?_eq_none (by simp; omega)]

/-- a quotient of `P` is a quotient of any `P'` isomorphic to `P` with the hyperedges in place -/
theorem isQuot_pullback {P' P r : PDiag O A} {R : Nat → Nat → Prop} {σ : Nat → Nat}
    (hσ : IsoVia P' P σ (fun e => e)) (h : IsQuot P R r) :
    IsQuot P' (fun a b => R (σ a) (σ b)) r := by
  obtain ⟨q, hq, hk⟩ := (isQuot_iff _ _ _).1 h
  refine (isQuot_iff _ _ _).2 ⟨fun i => q (σ i), ⟨?_, ?_, ?_, ?_, ?_, ?_⟩, ?_⟩
  · intro i hi; exact hq.lt _ (hσ.nbij.1 i hi)
  · intro k hk'
    obtain ⟨x, hx, rfl⟩ := hq.onto k hk'
    obtain ⟨i, hi, rfl⟩ := hσ.nbij.2.2 x hx
    exact ⟨i, hi, rfl⟩
  · intro i hi
    rw [hq.nodes _ (hσ.nbij.1 i hi), hσ.nodes i hi]
  · rw [hq.edges, isoVia_edges_eq hσ, List.map_map]
    apply List.map_congr_left
    intro e _
    exact PEdge.mapNodes_comp σ q e
  · rw [hq.ins, hσ.ins, List.map_map]; rfl
  · rw [hq.outs, hσ.outs, List.map_map]; rfl
  · intro i j hi hj
    rw [hk _ _ (hσ.nbij.1 i hi) (hσ.nbij.1 j hj)]
    constructor
    · intro e
      have := EqvOn.map (φ := invOn P'.n σ) (R' := fun a b => R (σ a) (σ b)) (m := P'.n) ?_ e
      · rwa [hσ.nbij.invOn_left i hi, hσ.nbij.invOn_left j hj] at this
      · intro a b ha hb r
        obtain ⟨a1, a2⟩ := hσ.nbij.invOn_right a ha
        obtain ⟨b1, b2⟩ := hσ.nbij.invOn_right b hb
        exact EqvOn.of_rel a1 b1 (by rw [a2, b2]; exact r)
    · apply EqvOn.map (φ := σ)
      intro a b ha hb r
      exact EqvOn.of_rel (hσ.nbij.1 a ha) (hσ.nbij.1 b hb) r

/-! ### boundary pairs of a juxtaposition, block by block -/

/-- pairs "position `k` of the concatenated selections ~ position `k` of the interface of the
    juxtaposition" are the pairs of the blocks, shifted by the block offsets -/
theorem pairs_blocks (img : α → PDiag O A) (sel : α → List Nat) (io : PDiag O A → List Nat)
    (es : List α)
    (hio : (io (juxtR (es.map img))).map (0 + ·) =
      (blocksFrom img 0 es).flatMap (fun p => (io (img p.1)).map (p.2 + ·)))
    (hlen : ∀ e ∈ es, (io (img e)).length = (sel e).length) (a c : Nat) :
    (∃ k : Nat, (es.flatMap sel)[k]? = some a ∧ (io (juxtR (es.map img)))[k]? = some c) ↔
      ∃ p ∈ blocksFrom img 0 es, ∃ k j : Nat, (sel p.1)[k]? = some a ∧
        (io (img p.1))[k]? = some j ∧ c = p.2 + j := by
  have h0 : (io (juxtR (es.map img))).map (0 + ·) = io (juxtR (es.map img)) := by
    conv => rhs; rw [← List.map_id (io (juxtR (es.map img)))]
    exact List.map_congr_left (fun x _ => Nat.zero_add x)
  rw [h0] at hio
  have hsel : es.flatMap sel = (blocksFrom img 0 es).flatMap (fun p => sel p.1) := by
    conv => lhs; rw [← blocksFrom_map_fst img 0 es]
    rw [List.flatMap_map]
  rw [pairs_iff_mem_zip, hio, hsel, Eval.zip_flatMap _ _ _ (by
    intro p hp
    have : p.1 ∈ es := by
      rw [← blocksFrom_map_fst img 0 es]; exact List.mem_map_of_mem hp
    rw [List.length_map, hlen _ this]), List.mem_flatMap]
  constructor
  · rintro ⟨p, hp, hm⟩
    rw [← pairs_iff_mem_zip] at hm
    obtain ⟨k, h1, h2⟩ := hm
    rw [List.getElem?_map] at h2
    cases hj : (io (img p.1))[k]? with
    | none => rw [hj] at h2; cases h2
    | some j =>
      rw [hj] at h2
      exact ⟨p, hp, k, j, h1, hj, (Option.some.inj h2).symm⟩
  · rintro ⟨p, hp, k, j, h1, h2, rfl⟩
    refine ⟨p, hp, ?_⟩
    rw [← pairs_iff_mem_zip]
    exact ⟨k, h1, by rw [List.getElem?_map, h2]; rfl⟩

theorem mem_blocks_of_mem (img : α → PDiag O A) (o : Nat) (es : List α) (e : α) (he : e ∈ es) :
    ∃ o', (e, o') ∈ blocksFrom img o es := by
  rw [← blocksFrom_map_fst img o es] at he
  obtain ⟨p, hp, rfl⟩ := List.mem_map.1 he
  exact ⟨p.2, hp⟩

theorem fst_mem_of_mem_blocks (img : α → PDiag O A) (o : Nat) (es : List α) (p : α × Nat)
    (hp : p ∈ blocksFrom img o es) : p.1 ∈ es := by
  rw [← blocksFrom_map_fst img o es]; exact List.mem_map_of_mem hp

theorem juxtR_wf (l : List (PDiag O A)) (h : ∀ d ∈ l, d.wf = true) : (juxtR l).wf = true := by
  induction l with
  | nil => rfl
  | cons d l ih =>
    exact juxt_wf (h d (by simp)) (ih (fun d' hd' => h d' (by simp [hd'])))

theorem flatMap_ite_eq_filter {β : Type} (c : β → Prop) [DecidablePred c] (l : List β) :
    l.flatMap (fun e => if c e then [] else [e]) = l.filter (fun e => ¬ c e) := by
  induction l with
  | nil => rfl
  | cons e l ih =>
    rw [List.flatMap_cons, ih]
    by_cases h : c e <;> simp [h]

/-! ### the presentation of the forgotten diagram -/

section forget
set_option linter.unusedSectionVars false
variable [DecidableEq O] [DecidableEq A]

/-- the hyperedge `e` is erased by `Forget`: it carries the variable label and all its incident
    nodes carry one label -/
def Erased (var : A) (w : List O) (e : PEdge A) : Prop :=
  e.label = var ∧ ∀ u ∈ e.src ++ e.tgt, ∀ v ∈ e.src ++ e.tgt, w[u]? = w[v]?

instance (var : A) (w : List O) (e : PEdge A) : Decidable (Erased var w e) := by
  unfold Erased; infer_instance

/-- same nodes, the hyperedges that are NOT erased (with their labels and ordered source / target
    lists), same interfaces -/
def forgetPre (var : A) (d : PDiag O A) : PDiag O A :=
  ⟨d.nodes, d.edges.filter (fun e => ¬ Erased var d.nodes e), d.ins, d.outs⟩

/-- two nodes are identified iff they are incident to a common erased hyperedge -/
def forgetRel (var : A) (d : PDiag O A) (a b : Nat) : Prop :=
  ∃ e ∈ d.edges, Erased var d.nodes e ∧ a ∈ e.src ++ e.tgt ∧ b ∈ e.src ++ e.tgt

/-- the image of one hyperedge under `Forget::map_operation`, as a plain diagram: the hyperedge
    itself on fresh nodes, or one node (none if the edge has no incident node) -/
def piece (var : A) (w : List O) (e : PEdge A) : PDiag O A :=
  if Erased var w e then
    ⟨Prim.gatherP w ((e.src ++ e.tgt).take 1), [], List.replicate e.src.length 0,
      List.replicate e.tgt.length 0⟩
  else
    ⟨Prim.gatherP w e.src ++ Prim.gatherP w e.tgt,
     [⟨e.label, List.range e.src.length, List.range' e.src.length e.tgt.length⟩],
     List.range e.src.length, List.range' e.src.length e.tgt.length⟩

/-- the node of the diagram a node of the piece stands for -/
def psi (var : A) (w : List O) (e : PEdge A) (j : Nat) : Nat :=
  (e.src ++ e.tgt).getD (if Erased var w e then 0 else j) 0

/-- node `a` of the diagram is glued to node `j` of the piece of `e` -/
def Link (var : A) (w : List O) (e : PEdge A) (a j : Nat) : Prop :=
  ∃ p : Nat, (e.src[p]? = some a ∧ (piece var w e).ins[p]? = some j) ∨
    (e.tgt[p]? = some a ∧ (piece var w e).outs[p]? = some j)

variable (var : A) (w : List O) (e : PEdge A)

theorem piece_kept (h : ¬ Erased var w e) : piece var w e =
    ⟨Prim.gatherP w e.src ++ Prim.gatherP w e.tgt,
     [⟨e.label, List.range e.src.length, List.range' e.src.length e.tgt.length⟩],
     List.range e.src.length, List.range' e.src.length e.tgt.length⟩ := by
  unfold piece; rw [if_neg h]

theorem piece_erased (h : Erased var w e) : piece var w e =
    ⟨Prim.gatherP w ((e.src ++ e.tgt).take 1), [], List.replicate e.src.length 0,
      List.replicate e.tgt.length 0⟩ := by
  unfold piece; rw [if_pos h]

theorem piece_ins_length : (piece var w e).ins.length = e.src.length := by
  by_cases h : Erased var w e
  · rw [piece_erased var w e h]; simp
  · rw [piece_kept var w e h]; simp

theorem piece_outs_length : (piece var w e).outs.length = e.tgt.length := by
  by_cases h : Erased var w e
  · rw [piece_erased var w e h]; simp
  · rw [piece_kept var w e h]; simp

theorem piece_n_kept (hr : ∀ v ∈ e.src ++ e.tgt, v < w.length) (h : ¬ Erased var w e) :
    (piece var w e).n = (e.src ++ e.tgt).length := by
  rw [piece_kept var w e h]
  show (Prim.gatherP w e.src ++ Prim.gatherP w e.tgt).length = _
  rw [← gatherP_append_idx, Prim.gatherP_length _ _ hr]

theorem piece_n_erased (hr : ∀ v ∈ e.src ++ e.tgt, v < w.length) (h : Erased var w e) :
    (piece var w e).n = ((e.src ++ e.tgt).take 1).length := by
  rw [piece_erased var w e h]
  show (Prim.gatherP w ((e.src ++ e.tgt).take 1)).length = _
  rw [Prim.gatherP_length _ _ (fun v hv => hr v (List.mem_of_mem_take hv))]

theorem link_kept (h : ¬ Erased var w e) (a j : Nat) :
    Link var w e a j ↔ (e.src ++ e.tgt)[j]? = some a := by
  unfold Link
  rw [piece_kept var w e h]
  constructor
  · rintro ⟨p, ⟨h1, h2⟩ | ⟨h1, h2⟩⟩
    · have hp : p < e.src.length := (List.getElem?_eq_some_iff.1 h1).1
      have h2' : (List.range e.src.length)[p]? = some j := h2
      rw [List.getElem?_range hp] at h2'
      cases h2'
      rw [List.getElem?_append_left hp]; exact h1
    · have hp : p < e.tgt.length := (List.getElem?_eq_some_iff.1 h1).1
      have h2' : (List.range' e.src.length e.tgt.length)[p]? = some j := h2
      rw [List.getElem?_range' hp, Nat.one_mul] at h2'
      cases h2'
      rw [List.getElem?_append_right (by omega), Nat.add_sub_cancel_left]; exact h1
  · intro hj
    by_cases hlt : j < e.src.length
    · rw [List.getElem?_append_left hlt] at hj
      exact ⟨j, Or.inl ⟨hj, List.getElem?_range hlt⟩⟩
    · rw [List.getElem?_append_right (by omega)] at hj
      have hp : j - e.src.length < e.tgt.length := (List.getElem?_eq_some_iff.1 hj).1
      refine ⟨j - e.src.length, Or.inr ⟨hj, ?_⟩⟩
      show (List.range' e.src.length e.tgt.length)[j - e.src.length]? = some j
      rw [List.getElem?_range' hp, Nat.one_mul]
      congr 1; omega

theorem link_erased (h : Erased var w e) (a j : Nat) :
    Link var w e a j ↔ j = 0 ∧ a ∈ e.src ++ e.tgt := by
  unfold Link
  rw [piece_erased var w e h]
  constructor
  · rintro ⟨p, ⟨h1, h2⟩ | ⟨h1, h2⟩⟩
    · have h2' : (List.replicate e.src.length 0)[p]? = some j := h2
      rw [List.getElem?_replicate] at h2'
      split at h2'
      · cases h2'; exact ⟨rfl, List.mem_append_left _ (List.mem_of_getElem? h1)⟩
      · cases h2'
    · have h2' : (List.replicate e.tgt.length 0)[p]? = some j := h2
      rw [List.getElem?_replicate] at h2'
      split at h2'
      · cases h2'; exact ⟨rfl, List.mem_append_right _ (List.mem_of_getElem? h1)⟩
      · cases h2'
  · rintro ⟨rfl, ha⟩
    rcases List.mem_append.1 ha with ha | ha
    · obtain ⟨p, hp, rfl⟩ := List.getElem_of_mem ha
      refine ⟨p, Or.inl ⟨List.getElem?_eq_getElem hp, ?_⟩⟩
      show (List.replicate e.src.length 0)[p]? = some 0
      rw [List.getElem?_replicate, if_pos hp]
    · obtain ⟨p, hp, rfl⟩ := List.getElem_of_mem ha
      refine ⟨p, Or.inr ⟨List.getElem?_eq_getElem hp, ?_⟩⟩
      show (List.replicate e.tgt.length 0)[p]? = some 0
      rw [List.getElem?_replicate, if_pos hp]

theorem getD_mem {l : List Nat} (j : Nat) (hj : j < l.length) : l.getD j 0 ∈ l := by
  rw [List.getD_eq_getElem?_getD, List.getElem?_eq_getElem hj]
  exact List.getElem_mem hj

theorem getElem?_getD {l : List Nat} (j : Nat) (hj : j < l.length) : l[j]? = some (l.getD j 0) := by
  rw [List.getD_eq_getElem?_getD, List.getElem?_eq_getElem hj]; rfl

theorem take_one_length_pos {l : List Nat} {a : Nat} (ha : a ∈ l) : (l.take 1).length = 1 := by
  cases l with
  | nil => cases ha
  | cons x l => simp

/-- a glued pair: the piece node exists and stands for the diagram node, or for a node incident to
    the same erased hyperedge -/
theorem link_spec (hr : ∀ v ∈ e.src ++ e.tgt, v < w.length) (a j : Nat) (h : Link var w e a j) :
    j < (piece var w e).n ∧ a ∈ e.src ++ e.tgt ∧ psi var w e j ∈ e.src ++ e.tgt ∧
      (a = psi var w e j ∨ Erased var w e) := by
  by_cases he : Erased var w e
  · obtain ⟨rfl, ha⟩ := (link_erased var w e he a j).1 h
    have h1 := take_one_length_pos ha
    have hpos : 0 < (e.src ++ e.tgt).length := by
      cases hl : e.src ++ e.tgt with
      | nil => rw [hl] at ha; cases ha
      | cons x l => simp
    refine ⟨by rw [piece_n_erased var w e hr he, h1]; omega, ha, ?_, Or.inr he⟩
    unfold psi; rw [if_pos he]; exact getD_mem 0 hpos
  · have hj := (link_kept var w e he a j).1 h
    have hlt : j < (e.src ++ e.tgt).length := (List.getElem?_eq_some_iff.1 hj).1
    have hps : psi var w e j = a := by
      unfold psi; rw [if_neg he, List.getD_eq_getElem?_getD, hj]; rfl
    refine ⟨by rw [piece_n_kept var w e hr he]; exact hlt, List.mem_of_getElem? hj, ?_, Or.inl hps.symm⟩
    rw [hps]; exact List.mem_of_getElem? hj

/-- every node of the piece is glued to the node it stands for -/
theorem link_psi (hr : ∀ v ∈ e.src ++ e.tgt, v < w.length) (j : Nat)
    (hj : j < (piece var w e).n) : Link var w e (psi var w e j) j := by
  by_cases he : Erased var w e
  · rw [piece_n_erased var w e hr he] at hj
    have hpos : 0 < (e.src ++ e.tgt).length := by
      cases hl : e.src ++ e.tgt with
      | nil => rw [hl] at hj; simp at hj
      | cons x l => simp
    have hj0 : j = 0 := by
      have : ((e.src ++ e.tgt).take 1).length ≤ 1 := by simp; omega
      omega
    subst hj0
    rw [link_erased var w e he]
    refine ⟨rfl, ?_⟩
    unfold psi; rw [if_pos he]; exact getD_mem 0 hpos
  · rw [piece_n_kept var w e hr he] at hj
    rw [link_kept var w e he]
    unfold psi; rw [if_neg he]; exact getElem?_getD j hj

/-- the nodes incident to an erased hyperedge are all glued to the single node of its piece -/
theorem link_zero (he : Erased var w e) (a : Nat) (ha : a ∈ e.src ++ e.tgt) :
    Link var w e a 0 := (link_erased var w e he a 0).2 ⟨rfl, ha⟩

theorem piece_nodes (hr : ∀ v ∈ e.src ++ e.tgt, v < w.length) (j : Nat)
    (hj : j < (piece var w e).n) : (piece var w e).nodes[j]? = w[psi var w e j]? := by
  by_cases he : Erased var w e
  · rw [piece_n_erased var w e hr he] at hj
    have hj0 : j = 0 := by
      have : ((e.src ++ e.tgt).take 1).length ≤ 1 := by simp; omega
      omega
    subst hj0
    rw [piece_erased var w e he]
    show (Prim.gatherP w ((e.src ++ e.tgt).take 1))[0]? = _
    rw [Prim.gatherP_getElem? _ _ (fun v hv => hr v (List.mem_of_mem_take hv)) 0 hj]
    unfold psi
    rw [if_pos he]
    congr 1
    generalize e.src ++ e.tgt = l at hj
    cases l with
    | nil => simp at hj
    | cons x l => simp
  · rw [piece_n_kept var w e hr he] at hj
    rw [piece_kept var w e he]
    show (Prim.gatherP w e.src ++ Prim.gatherP w e.tgt)[j]? = _
    rw [← gatherP_append_idx, Prim.gatherP_getElem? _ _ hr j hj]
    unfold psi
    rw [if_neg he, List.getD_eq_getElem?_getD, List.getElem?_eq_getElem hj]
    rfl

theorem map_getD_range_eq (l : List Nat) : (List.range l.length).map (fun j => l.getD j 0) = l := by
  apply List.ext_getElem (by simp)
  intro i h1 h2
  simp [List.getD_eq_getElem?_getD, List.getElem?_eq_getElem h2]

theorem piece_edges_psi : (piece var w e).edges.map (PEdge.mapNodes (psi var w e)) =
    if Erased var w e then [] else [e] := by
  by_cases he : Erased var w e
  · rw [piece_erased var w e he, if_pos he]; rfl
  · rw [piece_kept var w e he, if_neg he]
    show [PEdge.mapNodes (psi var w e) _] = [e]
    congr 1
    have hps : psi var w e = fun j => (e.src ++ e.tgt).getD j 0 := by
      funext j; unfold psi; rw [if_neg he]
    rw [hps]
    cases e with
    | mk l s t =>
      simp only [PEdge.mapNodes, PEdge.mk.injEq, true_and]
      constructor
      · apply List.ext_getElem (by simp)
        intro i h1 h2
        simp only [List.length_map, List.length_range] at h1
        simp [List.getD_eq_getElem?_getD, List.getElem?_append_left h1, List.getElem?_eq_getElem h1]
      · apply List.ext_getElem (by simp)
        intro i h1 h2
        simp only [List.length_map, List.length_range'] at h1
        simp only [List.getElem_map, List.getElem_range', Nat.one_mul, List.getD_eq_getElem?_getD]
        rw [List.getElem?_append_right (by omega), Nat.add_sub_cancel_left,
          List.getElem?_eq_getElem h1]
        rfl

theorem piece_wf (hr : ∀ v ∈ e.src ++ e.tgt, v < w.length) : (piece var w e).wf = true := by
  by_cases he : Erased var w e
  · have hn := piece_n_erased var w e hr he
    rw [PDiag.wf_iff]
    refine ⟨?_, ?_, ?_⟩
    · intro i hi
      rw [piece_erased var w e he] at hi
      have hi' : i ∈ List.replicate e.src.length 0 := hi
      obtain ⟨hne, rfl⟩ := List.mem_replicate.1 hi'
      cases hs : e.src with
      | nil => rw [hs] at hne; simp at hne
      | cons x l => rw [hn, hs]; simp
    · intro i hi
      rw [piece_erased var w e he] at hi
      have hi' : i ∈ List.replicate e.tgt.length 0 := hi
      obtain ⟨hne, rfl⟩ := List.mem_replicate.1 hi'
      cases ht : e.tgt with
      | nil => rw [ht] at hne; simp at hne
      | cons x l =>
        rw [hn, ht]
        cases e.src <;> simp
    · intro e' he'
      rw [piece_erased var w e he] at he'
      cases he'
  · have hn := piece_n_kept var w e hr he
    rw [PDiag.wf_iff, hn, List.length_append]
    rw [piece_kept var w e he]
    refine ⟨?_, ?_, ?_⟩
    · intro i hi
      have := List.mem_range.1 hi; omega
    · intro i hi
      have := List.mem_range'_1.1 hi; omega
    · intro e' he'
      have : e' = ⟨e.label, List.range e.src.length, List.range' e.src.length e.tgt.length⟩ := by
        simpa using he'
      subst this
      constructor
      · intro i hi
        have := List.mem_range.1 hi; omega
      · intro i hi
        have := List.mem_range'_1.1 hi; omega

/-! ### the presentation is invariant under a renumbering of the nodes -/

theorem erased_mapNodes {d d' : PDiag O A} {σ : Nat → Nat}
    (hn : ∀ i, i < d.n → d'.nodes[σ i]? = d.nodes[i]?) (e : PEdge A)
    (he : ∀ v ∈ e.src ++ e.tgt, v < d.n) :
    Erased var d'.nodes (PEdge.mapNodes σ e) ↔ Erased var d.nodes e := by
  unfold Erased
  apply and_congr Iff.rfl
  have hinc : (PEdge.mapNodes σ e).src ++ (PEdge.mapNodes σ e).tgt = (e.src ++ e.tgt).map σ := by
    simp
  rw [hinc]
  constructor
  · intro h u hu v hv
    have := h (σ u) (List.mem_map_of_mem hu) (σ v) (List.mem_map_of_mem hv)
    rwa [hn u (he u hu), hn v (he v hv)] at this
  · intro h u' hu' v' hv'
    obtain ⟨u, hu, rfl⟩ := List.mem_map.1 hu'
    obtain ⟨v, hv, rfl⟩ := List.mem_map.1 hv'
    rw [hn u (he u hu), hn v (he v hv)]
    exact h u hu v hv

/-- a renumbering of the nodes (hyperedges in place) renumbers the presentation of the forgotten
    diagram -/
theorem forgetPre_isoVia {d d' : PDiag O A} {σ : Nat → Nat} (hd : d.wf = true)
    (h : IsoVia d d' σ (fun e => e)) :
    IsoVia (forgetPre var d) (forgetPre var d') σ (fun e => e) ∧
    ∀ a b, a < d.n → b < d.n → (forgetRel var d' (σ a) (σ b) ↔ forgetRel var d a b) := by
  obtain ⟨_, _, d3⟩ := (PDiag.wf_iff d).1 hd
  have hinr : ∀ e ∈ d.edges, ∀ v ∈ e.src ++ e.tgt, v < d.n := by
    intro e he v hv
    rcases List.mem_append.1 hv with hv | hv
    · exact (d3 e he).1 v hv
    · exact (d3 e he).2 v hv
  have hE := isoVia_edges_eq h
  have hfil : (forgetPre var d').edges = (forgetPre var d).edges.map (PEdge.mapNodes σ) := by
    show d'.edges.filter _ = (d.edges.filter _).map _
    rw [hE, List.filter_map]
    congr 1
    apply List.filter_congr
    intro e he
    simp only [Function.comp, decide_eq_decide]
    exact not_congr (erased_mapNodes var h.nodes e (hinr e he))
  refine ⟨⟨h.nbij, ?_, h.nodes, ?_, h.ins, h.outs⟩, ?_⟩
  · rw [hfil, List.length_map]; exact BijOn.refl _
  · intro e _
    rw [hfil, List.getElem?_map]
  · intro a b ha hb
    constructor
    · rintro ⟨e', he', hE', ha', hb'⟩
      rw [hE] at he'
      obtain ⟨e, he, rfl⟩ := List.mem_map.1 he'
      have hinc : (PEdge.mapNodes σ e).src ++ (PEdge.mapNodes σ e).tgt = (e.src ++ e.tgt).map σ := by
        simp
      rw [hinc] at ha' hb'
      obtain ⟨u, hu, hua⟩ := List.mem_map.1 ha'
      obtain ⟨v, hv, hvb⟩ := List.mem_map.1 hb'
      have e1 := h.nbij.2.1 u a (hinr e he u hu) ha hua
      have e2 := h.nbij.2.1 v b (hinr e he v hv) hb hvb
      subst e1 e2
      exact ⟨e, he, (erased_mapNodes var h.nodes e (hinr e he)).1 hE', hu, hv⟩
    · rintro ⟨e, he, hE', ha', hb'⟩
      refine ⟨PEdge.mapNodes σ e, by rw [hE]; exact List.mem_map_of_mem he,
        (erased_mapNodes var h.nodes e (hinr e he)).2 hE', ?_, ?_⟩
      · have : (PEdge.mapNodes σ e).src ++ (PEdge.mapNodes σ e).tgt = (e.src ++ e.tgt).map σ := by
          simp
        rw [this]; exact List.mem_map_of_mem ha'
      · have : (PEdge.mapNodes σ e).src ++ (PEdge.mapNodes σ e).tgt = (e.src ++ e.tgt).map σ := by
          simp
        rw [this]; exact List.mem_map_of_mem hb'

/-! ### the retraction -/

/-- the node of the diagram a node of the juxtaposed pieces stands for -/
def phiX (es : List (PEdge A)) (y : Nat) : Nat :=
  match locate (piece var w) es y with
  | some (e, j) => psi var w e j
  | none => 0

/-- the retraction of the substitution presentation onto the nodes of the diagram -/
def phi (es : List (PEdge A)) (x : Nat) : Nat :=
  if x < w.length then x else phiX var w es (x - w.length)

/-- the gluing pairs of the substitution presentation, block by block -/
theorem substR_iff_link (es : List (PEdge A)) (a b : Nat) :
    substR w (es.flatMap (·.src)) (es.flatMap (·.tgt)) (juxtR (es.map (piece var w))) a b ↔
      ∃ p ∈ blocksFrom (piece var w) 0 es, ∃ j, Link var w p.1 a j ∧ b = w.length + (p.2 + j) := by
  have pi := pairs_blocks (piece var w) (·.src) (·.ins) es (juxtR_ins _ 0 es)
    (fun e _ => piece_ins_length var w e)
  have po := pairs_blocks (piece var w) (·.tgt) (·.outs) es (juxtR_outs _ 0 es)
    (fun e _ => piece_outs_length var w e)
  constructor
  · rintro (⟨k, h1, h2⟩ | ⟨k, h1, h2⟩)
    · cases hc : (juxtR (es.map (piece var w))).ins[k]? with
      | none => rw [hc] at h2; cases h2
      | some c =>
        rw [hc] at h2
        obtain ⟨p, hp, k', j, s1, s2, rfl⟩ := (pi a c).1 ⟨k, h1, hc⟩
        exact ⟨p, hp, j, ⟨k', Or.inl ⟨s1, s2⟩⟩, (Option.some.inj h2).symm⟩
    · cases hc : (juxtR (es.map (piece var w))).outs[k]? with
      | none => rw [hc] at h2; cases h2
      | some c =>
        rw [hc] at h2
        obtain ⟨p, hp, k', j, s1, s2, rfl⟩ := (po a c).1 ⟨k, h1, hc⟩
        exact ⟨p, hp, j, ⟨k', Or.inr ⟨s1, s2⟩⟩, (Option.some.inj h2).symm⟩
  · rintro ⟨p, hp, j, ⟨k', ⟨s1, s2⟩ | ⟨s1, s2⟩⟩, rfl⟩
    · obtain ⟨k, h1, hc⟩ := (pi a (p.2 + j)).2 ⟨p, hp, k', j, s1, s2, rfl⟩
      exact Or.inl ⟨k, h1, by rw [hc]; rfl⟩
    · obtain ⟨k, h1, hc⟩ := (po a (p.2 + j)).2 ⟨p, hp, k', j, s1, s2, rfl⟩
      exact Or.inr ⟨k, h1, by rw [hc]; rfl⟩

/-- FORGET AS A PRESENTATION (plain level): the substitution presentation whose substituted diagram
    is the juxtaposition of the pieces of all hyperedges retracts onto "delete the erased
    hyperedges, identify the nodes incident to a common erased hyperedge" -/
theorem forget_retract (d : PDiag O A) (hd : d.wf = true) {r : PDiag O A}
    (h : IsQuot (substP d.nodes d.ins d.outs (juxtR (d.edges.map (piece var d.nodes))))
      (substR d.nodes (d.edges.flatMap (·.src)) (d.edges.flatMap (·.tgt))
        (juxtR (d.edges.map (piece var d.nodes)))) r) :
    IsQuot (forgetPre var d) (forgetRel var d) r := by
  obtain ⟨d1, d2, d3⟩ := (PDiag.wf_iff d).1 hd
  have hr : ∀ e ∈ d.edges, ∀ v ∈ e.src ++ e.tgt, v < d.nodes.length := by
    intro e he v hv
    rcases List.mem_append.1 hv with hv | hv
    · exact (d3 e he).1 v hv
    · exact (d3 e he).2 v hv
  have hX : (juxtR (d.edges.map (piece var d.nodes))).wf = true := by
    apply juxtR_wf
    intro p hp
    obtain ⟨e, he, rfl⟩ := List.mem_map.1 hp
    exact piece_wf var _ e (hr e he)
  have hP := substP_wf (W := d.nodes) hX d1 d2
  have hPn := substP_n d.nodes d.ins d.outs (juxtR (d.edges.map (piece var d.nodes)))
  have hSn : (forgetPre var d).n = d.nodes.length := rfl
  -- facts about one block
  have blk : ∀ p ∈ blocksFrom (piece var d.nodes) 0 d.edges,
      p.1 ∈ d.edges ∧ p.2 + (piece var d.nodes p.1).n ≤ (juxtR (d.edges.map (piece var d.nodes))).n ∧
      ∀ j, j < (piece var d.nodes p.1).n →
        phi var d.nodes d.edges (d.nodes.length + (p.2 + j)) = psi var d.nodes p.1 j := by
    intro p hp
    obtain ⟨k, hk, hle, hj⟩ := block_spec (piece var d.nodes) d.edges 0 p.1 p.2 hp
    have hk' : p.2 = k := by omega
    refine ⟨fst_mem_of_mem_blocks _ _ _ p hp, by omega, ?_⟩
    intro j hjn
    unfold phi
    rw [if_neg (by omega), Nat.add_sub_cancel_left]
    unfold phiX
    rw [hk', (hj j hjn).2]
  have phi_lt : ∀ x, x < d.nodes.length → phi var d.nodes d.edges x = x := fun x hx => if_pos hx
  have Rlt : ∀ a b, substR d.nodes (d.edges.flatMap (·.src)) (d.edges.flatMap (·.tgt))
      (juxtR (d.edges.map (piece var d.nodes))) a b →
      a < d.nodes.length + (juxtR (d.edges.map (piece var d.nodes))).n ∧
      b < d.nodes.length + (juxtR (d.edges.map (piece var d.nodes))).n := by
    intro a b hab
    obtain ⟨p, hp, j, hl, rfl⟩ := (substR_iff_link var d.nodes d.edges a b).1 hab
    obtain ⟨b1, b2, _⟩ := blk p hp
    obtain ⟨l1, l2, _, _⟩ := link_spec var d.nodes p.1 (hr _ b1) a j hl
    have := hr _ b1 a l2
    omega
  refine isQuot_retract (σ := fun a => a) (φ := phi var d.nodes d.edges) hP h ?_ ?_ ?_ ?_ ?_ ?_ ?_ ?_ ?_ ?_
  · intro a ha; rw [hPn]; rw [hSn] at ha; omega
  · intro a ha; exact phi_lt a ha
  · intro x hx
    rw [hPn] at hx
    show _ < d.nodes.length
    by_cases hlt : x < d.nodes.length
    · rw [phi_lt x hlt]; exact hlt
    · obtain ⟨e, j, k, h1, h2, h3⟩ := locate_some (piece var d.nodes) d.edges 0
        (x - d.nodes.length) (by omega)
      obtain ⟨b1, b2, b3⟩ := blk _ h1
      have hx' : x = d.nodes.length + ((0 + k) + j) := by omega
      rw [hx', b3 j h2]
      obtain ⟨_, _, l3, _⟩ := link_spec var d.nodes e (hr _ b1) _ j (link_psi var d.nodes e (hr _ b1) j h2)
      exact hr _ b1 _ l3
  · intro x hx
    by_cases hlt : x < d.nodes.length
    · rw [phi_lt x hlt]; exact EqvGen.refl _
    · rw [hPn] at hx
      obtain ⟨e, j, k, h1, h2, h3⟩ := locate_some (piece var d.nodes) d.edges 0
        (x - d.nodes.length) (by omega)
      obtain ⟨b1, b2, b3⟩ := blk _ h1
      have hx' : x = d.nodes.length + ((0 + k) + j) := by omega
      have hl := link_psi var d.nodes e (hr _ b1) j h2
      have hR := (substR_iff_link var d.nodes d.edges _ x).2 ⟨_, h1, j, hl, hx'⟩
      rw [hx', b3 j h2, ← hx']
      obtain ⟨r1, r2⟩ := Rlt _ _ hR
      exact EqvGen.symm _ _ (EqvOn.of_rel (by rw [hPn]; exact r1) (by rw [hPn]; exact r2) hR)
  · intro x y _ _ hxy
    obtain ⟨p, hp, j, hl, rfl⟩ := (substR_iff_link var d.nodes d.edges x y).1 hxy
    obtain ⟨b1, b2, b3⟩ := blk p hp
    obtain ⟨l1, l2, l3, l4⟩ := link_spec var d.nodes p.1 (hr _ b1) x j hl
    have hxlt := hr _ b1 x l2
    rw [phi_lt x hxlt, b3 j l1]
    rcases l4 with l4 | l4
    · rw [← l4]; exact EqvGen.refl _
    · exact EqvOn.of_rel (by rw [hSn]; exact hxlt) (by rw [hSn]; exact hr _ b1 _ l3)
        ⟨p.1, b1, l4, l2, l3⟩
  · rintro a b _ _ ⟨e, he, hE, ha, hb⟩
    obtain ⟨o', ho'⟩ := mem_blocks_of_mem (piece var d.nodes) 0 d.edges e he
    have hRa := (substR_iff_link var d.nodes d.edges a _).2
      ⟨(e, o'), ho', 0, link_zero var d.nodes e hE a ha, rfl⟩
    have hRb := (substR_iff_link var d.nodes d.edges b _).2
      ⟨(e, o'), ho', 0, link_zero var d.nodes e hE b hb, rfl⟩
    obtain ⟨r1, r2⟩ := Rlt _ _ hRa
    obtain ⟨r3, _⟩ := Rlt _ _ hRb
    exact EqvGen.trans _ _ _ (EqvOn.of_rel (by rw [hPn]; exact r1) (by rw [hPn]; exact r2) hRa)
      (EqvGen.symm _ _ (EqvOn.of_rel (by rw [hPn]; exact r3) (by rw [hPn]; exact r2) hRb))
  · intro a ha
    show (d.nodes ++ _)[a]? = d.nodes[a]?
    exact List.getElem?_append_left ha
  · show d.edges.filter _ = ((juxtR (d.edges.map (piece var d.nodes))).edges.map _).map _
    rw [List.map_map]
    have e0 : ∀ x : PEdge A, (PEdge.mapNodes (phi var d.nodes d.edges) ∘
        PEdge.mapNodes (d.nodes.length + ·)) x =
        PEdge.mapNodes (fun v => phi var d.nodes d.edges (d.nodes.length + (0 + v)))
          x := by
      intro x
      show PEdge.mapNodes _ (PEdge.mapNodes _ x) = _
      rw [PEdge.mapNodes_comp]
      apply PEdge.mapNodes_congr <;> intro v _ <;> simp
    rw [List.map_congr_left (fun x _ => e0 x)]
    have e1 : (juxtR (d.edges.map (piece var d.nodes))).edges.map
        (PEdge.mapNodes (fun v => phi var d.nodes d.edges (d.nodes.length + (0 + v)))) =
        ((juxtR (d.edges.map (piece var d.nodes))).edges.map (PEdge.mapNodes (0 + ·))).map
          (PEdge.mapNodes (fun v => phi var d.nodes d.edges (d.nodes.length + v))) := by
      rw [List.map_map]
      apply List.map_congr_left
      intro x _
      show _ = PEdge.mapNodes _ (PEdge.mapNodes _ x)
      rw [PEdge.mapNodes_comp]
    rw [e1, juxtR_edges, List.map_flatMap]
    have e2 : ∀ p ∈ blocksFrom (piece var d.nodes) 0 d.edges,
        ((piece var d.nodes p.1).edges.map (PEdge.mapNodes (p.2 + ·))).map
          (PEdge.mapNodes (fun v => phi var d.nodes d.edges (d.nodes.length + v))) =
        (fun e => if Erased var d.nodes e then [] else [e]) p.1 := by
      intro p hp
      obtain ⟨b1, b2, b3⟩ := blk p hp
      show _ = if Erased var d.nodes p.1 then [] else [p.1]
      rw [← piece_edges_psi, List.map_map]
      apply List.map_congr_left
      intro x hx
      show PEdge.mapNodes _ (PEdge.mapNodes _ x) = _
      rw [PEdge.mapNodes_comp]
      obtain ⟨_, _, w3⟩ := (PDiag.wf_iff _).1 (piece_wf var d.nodes p.1 (hr _ b1))
      apply PEdge.mapNodes_congr
      · intro v hv; exact b3 v ((w3 x hx).1 v hv)
      · intro v hv; exact b3 v ((w3 x hx).2 v hv)
    rw [List.flatMap_congr e2]
    have e3 : (blocksFrom (piece var d.nodes) 0 d.edges).flatMap
        (fun p => (fun e => if Erased var d.nodes e then [] else [e]) p.1) =
        ((blocksFrom (piece var d.nodes) 0 d.edges).map (·.1)).flatMap
          (fun e => if Erased var d.nodes e then [] else [e]) := by
      rw [List.flatMap_map]
    rw [e3, blocksFrom_map_fst, flatMap_ite_eq_filter]
  · show d.ins = d.ins.map _
    conv => lhs; rw [← List.map_id d.ins]
    exact List.map_congr_left (fun v hv => (phi_lt v (d1 v hv)).symm)
  · show d.outs = d.outs.map _
    conv => lhs; rw [← List.map_id d.outs]
    exact List.map_congr_left (fun v hv => (phi_lt v (d2 v hv)).symm)

end forget

/-! ### the model: `Forget` through `DynFunctor` -/

section model
open LaxStrict LaxIso

theorem plain_empty : plain (LOHG.empty : LOHG O A) = PDiag.empty := rfl

/-- the plain reading of the left-nested lax tensor is the right-nested juxtaposition -/
theorem plain_tensorAll (ds : List (LOHG O A)) (h : ∀ d ∈ ds, d.wf = true) :
    plain (LaxType.tensorAll LOHG.empty ds) = juxtR (ds.map plain) := by
  induction ds with
  | nil => rfl
  | cons d ds ih =>
    have e : LaxType.tensorAll LOHG.empty (d :: ds) =
        LOHG.tensor d (LaxType.tensorAll LOHG.empty ds) := by
      show LaxType.tensorAll (LOHG.tensor LOHG.empty d) ds = _
      rw [C12.tensorAll_acc, C02.lax_tensor_unit_left]
    rw [e, plain_tensor d _ (h d (by simp)), ih (fun d' hd' => h d' (by simp [hd']))]
    rfl

theorem tensorAll_nopending (ds : List (LOHG O A)) (acc : LOHG O A)
    (ha : acc.hypergraph.quotient = ([], []))
    (h : ∀ d ∈ ds, d.hypergraph.quotient = ([], [])) :
    (LaxType.tensorAll acc ds).hypergraph.quotient = ([], []) := by
  induction ds generalizing acc with
  | nil => exact ha
  | cons d ds ih =>
    show (LaxType.tensorAll (LOHG.tensor acc d) ds).hypergraph.quotient = _
    apply ih _ _ (fun d' hd' => h d' (by simp [hd']))
    have hd := h d (by simp)
    simp [LOHG.tensor, LHG.coproduct, ha, hd]

/-- the operation batch of a well-formed diagram, read off its plain hyperedges -/
theorem opTriples_eq (f : OHG O A) (hf : f.WF) :
    C12.opTriples (C12.opsOf f) =
      f.toPlain.edges.map
        (fun e => (e.label, Prim.gatherP f.h.w e.src, Prim.gatherP f.h.w e.tgt)) := by
  have key : ∀ (ks : List Nat) (S : List Nat), (∀ v ∈ S, v < f.h.w.length) →
      splitSegs ks (Prim.gatherP f.h.w S) = (splitSegs ks S).map (Prim.gatherP f.h.w) := by
    intro ks S hS
    have h1 : ((splitSegs ks (Prim.gatherP f.h.w S)).map (·.map some)) =
        ((splitSegs ks S).map (Prim.gatherP f.h.w)).map (·.map some) := by
      rw [← splitSegs_map, gatherP_map_some _ _ hS, splitSegs_map, List.map_map]
      apply List.map_congr_left
      intro seg hseg
      show seg.map _ = (Prim.gatherP f.h.w seg).map some
      rw [gatherP_map_some _ _ (fun v hv => hS v (mem_of_mem_splitSegs _ _ _ _ hseg hv))]
    have inj : ∀ (a b : List (List O)), a.map (·.map some) = b.map (·.map some) → a = b := by
      intro a
      induction a with
      | nil => intro b hb; cases b <;> simp_all
      | cons x a ih =>
        intro b hb
        cases b with
        | nil => simp at hb
        | cons y b =>
          simp only [List.map_cons, List.cons.injEq] at hb
          rw [map_some_inj _ _ hb.1, ih b hb.2]
    exact inj _ _ h1
  have gen : ∀ (x : List A) (S T : List (List Nat)) (g : List Nat → List O),
      (List.zipWith (fun x st => (⟨x, st.1, st.2⟩ : PEdge A)) x (S.zip T)).map
        (fun e => (e.label, g e.src, g e.tgt)) = x.zip ((S.map g).zip (T.map g)) := by
    intro x
    induction x with
    | nil => intro S T g; simp
    | cons a x ih =>
      intro S T g
      cases S with
      | nil => simp
      | cons s S =>
        cases T with
        | nil => simp
        | cons t T => simp [ih S T g]
  show f.h.x.zip ((splitSegs f.h.s.sources.table (Prim.gatherP f.h.w f.h.s.values.table)).zip
    (splitSegs f.h.t.sources.table (Prim.gatherP f.h.w f.h.t.values.table))) = _
  rw [key _ _ hf.hyper.src_lt, key _ _ hf.hyper.tgt_lt]
  exact (gen f.h.x f.h.s.segs f.h.t.segs (Prim.gatherP f.h.w)).symm

theorem mem_gatherP (w : List O) (l : List Nat) (x : O) :
    x ∈ Prim.gatherP w l ↔ ∃ u ∈ l, w[u]? = some x := by
  simp [Prim.gatherP, List.mem_filterMap]

variable [DecidableEq O] [DecidableEq A]

/-- the image of a generator under `Forget::map_operation`, read as a plain diagram, is the piece
    of the corresponding hyperedge -/
theorem plain_forget_image (var : A) (w : List O) (e : PEdge A)
    (hr : ∀ v ∈ e.src ++ e.tgt, v < w.length) :
    plain (C12.imgOf (C12.forgetL var) e.label (Prim.gatherP w e.src) (Prim.gatherP w e.tgt)) =
      piece var w e := by
  obtain ⟨h1, h2, h3⟩ := C19.forgetOperation_cases var e.label (Prim.gatherP w e.src)
    (Prim.gatherP w e.tgt)
  have hls : (Prim.gatherP w e.src).length = e.src.length :=
    Prim.gatherP_length _ _ (fun v hv => hr v (List.mem_append_left _ hv))
  have hlt : (Prim.gatherP w e.tgt).length = e.tgt.length :=
    Prim.gatherP_length _ _ (fun v hv => hr v (List.mem_append_right _ hv))
  have hcond : (e.label = var ∧ ∀ x ∈ Prim.gatherP w e.src ++ Prim.gatherP w e.tgt,
      ∀ y ∈ Prim.gatherP w e.src ++ Prim.gatherP w e.tgt, x = y) ↔ Erased var w e := by
    rw [← gatherP_append_idx]
    unfold Erased
    apply and_congr Iff.rfl
    constructor
    · intro hc u hu v hv
      have hu' := hr u hu
      have hv' := hr v hv
      rw [List.getElem?_eq_getElem hu', List.getElem?_eq_getElem hv']
      congr 1
      exact hc _ ((mem_gatherP w _ _).2 ⟨u, hu, List.getElem?_eq_getElem hu'⟩) _
        ((mem_gatherP w _ _).2 ⟨v, hv, List.getElem?_eq_getElem hv'⟩)
    · intro hc x hx y hy
      obtain ⟨u, hu, hux⟩ := (mem_gatherP w _ _).1 hx
      obtain ⟨v, hv, hvy⟩ := (mem_gatherP w _ _).1 hy
      have := hc u hu v hv
      rw [hux, hvy] at this
      exact Option.some.inj this
  have himg : ∀ d, (C12.forgetL (O := O) var).mapOperation e.label (Prim.gatherP w e.src)
      (Prim.gatherP w e.tgt) = .ok d →
      C12.imgOf (C12.forgetL var) e.label (Prim.gatherP w e.src) (Prim.gatherP w e.tgt) = d := by
    intro d hd
    simp [C12.imgOf, hd]
  by_cases he : Erased var w e
  · have hc := hcond.2 he
    rw [piece_erased var w e he]
    cases hl : e.src ++ e.tgt with
    | nil =>
      have hs : e.src = [] := (List.append_eq_nil_iff.1 hl).1
      have ht : e.tgt = [] := (List.append_eq_nil_iff.1 hl).2
      have hs' : Prim.gatherP w e.src = [] := by rw [hs]; rfl
      have ht' : Prim.gatherP w e.tgt = [] := by rw [ht]; rfl
      rw [himg _ (h1 hc.1 hs' ht'), hs, ht]
      rfl
    | cons v L =>
      have hv : v < w.length := hr v (by rw [hl]; simp)
      have hg : Prim.gatherP w e.src ++ Prim.gatherP w e.tgt = w[v] :: Prim.gatherP w L := by
        rw [← gatherP_append_idx, hl]
        simp [Prim.gatherP, List.getElem?_eq_getElem hv]
      have hall : ∀ x ∈ Prim.gatherP w e.src ++ Prim.gatherP w e.tgt, x = w[v] := by
        intro x hx
        exact hc.2 x hx _ (by rw [hg]; simp)
      rw [himg _ (h2 _ _ hc.1 hg hall), hls, hlt]
      show PDiag.mk [w[v]] [] _ _ = PDiag.mk (Prim.gatherP w (List.take 1 (v :: L))) [] _ _
      congr 1
      simp [Prim.gatherP, List.getElem?_eq_getElem hv]
  · have hc : ¬ (e.label = var ∧ ∀ x ∈ Prim.gatherP w e.src ++ Prim.gatherP w e.tgt,
        ∀ y ∈ Prim.gatherP w e.src ++ Prim.gatherP w e.tgt, x = y) := fun h => he (hcond.1 h)
    rw [himg _ (h3 hc), piece_kept var w e he, C19.singleton_eq, ← hls, ← hlt]
    rfl

omit [DecidableEq O] [DecidableEq A] in
/-- the plain hyperedges of a well-formed strict diagram: their flattened source / target lists are
    the flat incidence arrays -/
theorem edges_flatMap_src (f : OHG O A) (hf : f.wf = true) :
    f.toPlain.edges.flatMap (·.src) = f.h.s.values.table ∧
    f.toPlain.edges.flatMap (·.tgt) = f.h.t.values.table := by
  have hW := (OHG.wf_iff_Wf f).1 hf
  have hWF := (OHG.wf_iff f).1 hf
  constructor
  · show f.h.toPlainEdges.flatMap (·.src) = _
    rw [List.flatMap_def, HG.toPlainEdges_map_src f.h hW.h, IC.segs_flatten _ hWF.hyper.src.valid]
  · show f.h.toPlainEdges.flatMap (·.tgt) = _
    rw [List.flatMap_def, HG.toPlainEdges_map_tgt f.h hW.h, IC.segs_flatten _ hWF.hyper.tgt.valid]

/-- FORGET ON A STRICT DIAGRAM (every lawful backend): `define_map_arrow` with the `DynFunctor` of
    `Forget` is defined, well-formed, type preserving, and its plain diagram IS the quotient of
    "delete the erased variable edges" by "incident to a common erased variable edge" -/
theorem forget_strict_spec (B : Backend) (hB : B.Lawful) (var : A) (f : OHG O A)
    (hf : f.wf = true) :
    ∃ sg, SFunctor.mapArrow B (LFunctor.toDyn B (C12.forgetL var)) f = .ok sg ∧ sg.wf = true ∧
      sg.source = f.source ∧ sg.target = f.target ∧
      IsQuot (forgetPre var f.toPlain) (forgetRel var f.toPlain) sg.toPlain := by
  have hfW := (OHG.wf_iff f).1 hf
  have hG : ∀ a s t, C12.GenOK (C12.forgetL (O := O) var) a s t
      (C12.imgOf (C12.forgetL var) a s t) := by
    intro a s t
    obtain ⟨d, hd⟩ := C12.forget_genOK (O := O) var a s t
    exact C12.genOK_imgOf _ _ _ _ d hd
  obtain ⟨fw, hobj, hseg, hv, _, hfwv⟩ := C12.dyn_mapObject_spec B (C12.forgetL var) f.h.w
  obtain ⟨va, vb⟩ := SFunctor.toOperations_valid f hfW
  obtain ⟨fx, hfx, _⟩ := C12.dyn_mapOperations_spec B hB (C12.forgetL var)
    (C12.imgOf (C12.forgetL var)) (C12.opsOf f) va vb
    (by show f.h.x.length = f.h.s.sources.table.length; exact hfW.hyper.src_count.symm)
    (by show f.h.x.length = f.h.t.sources.table.length; exact hfW.hyper.tgt_count.symm)
    (fun t _ => hG t.1 t.2.1 t.2.2)
  obtain ⟨hok, _⟩ := C12.functorOK_of_objHom _ (C12.forgetL var).mapObject f hfW fw fx hobj hv hseg hfx
  obtain ⟨sg, hsg, hsgw, _, _, hq⟩ := C12.mapArrow_subst B hB _ f fw fx hfW hok
  obtain ⟨sg', hsg', _, hs, ht⟩ := C12.forget_mapArrow_ok_type B hB var f hfW
  rw [hsg] at hsg'
  cases hsg'
  refine ⟨sg, hsg, hsgw, hs, ht, ?_⟩
  -- the object images: one singleton segment per node
  obtain ⟨hval, hks⟩ := C12.fw_values_of_hom fw hv f.h.w (C12.forgetL var).mapObject hseg
  have hW : fw.values = f.h.w := by
    rw [hval]
    show f.h.w.flatMap (fun o => [o]) = f.h.w
    induction f.h.w with
    | nil => rfl
    | cons x l ih => simp
  have hks' : fw.sources.table = List.replicate f.h.w.length 1 := by
    rw [hks]
    show f.h.w.map (fun _ => 1) = _
    exact List.map_const'
  have hexp : ∀ ids : List Nat, (∀ i ∈ ids, i < f.h.w.length) → C12.expand fw ids = ids := by
    intro ids hids
    rw [expand_eq fw hv, hks']
    exact flatMap_blockS_replicate_one _ _ hids
  rw [C12.substPre_eq, C12.substRel_eq, hexp _ hfW.src_lt, hexp _ hfW.tgt_lt,
    hexp _ hfW.hyper.src_lt, hexp _ hfW.hyper.tgt_lt, hW] at hq
  -- the image of the batch: `to_strict` of the tensor of the generator images
  have hfx1 := hfx.1
  rw [C12.dyn_mapOperations_eq B (C12.forgetL var) (C12.imgOf (C12.forgetL var)) (C12.opsOf f) va vb
    (fun t _ => (hG t.1 t.2.1 t.2.2).img)] at hfx1
  have hds : ∀ d ∈ (C12.opTriples (C12.opsOf f)).map
      (fun t => C12.imgOf (C12.forgetL var) t.1 t.2.1 t.2.2),
      d.wf = true ∧ C09.LabelConsistent d.hypergraph := by
    intro d hd
    obtain ⟨t, _, rfl⟩ := List.mem_map.1 hd
    exact ⟨(hG _ _ _).wf, (hG _ _ _).consistent⟩
  have hqd : ∀ d ∈ (C12.opTriples (C12.opsOf f)).map
      (fun t => C12.imgOf (C12.forgetL var) t.1 t.2.1 t.2.2),
      d.hypergraph.quotient = ([], []) := by
    intro d hd
    obtain ⟨t, _, rfl⟩ := List.mem_map.1 hd
    obtain ⟨r, hr, _⟩ := C19.forgetOperation_type var t.1 t.2.1 t.2.2
    obtain ⟨c1, c2, c3⟩ := C19.forgetOperation_cases var t.1 t.2.1 t.2.2
    have himg : C12.imgOf (C12.forgetL var) t.1 t.2.1 t.2.2 = r := by
      show (match Var.forgetOperation var t.1 t.2.1 t.2.2 with | .ok d => d | _ => LOHG.empty) = r
      rw [hr]
    rw [himg]
    by_cases h : t.1 = var ∧ ∀ x ∈ t.2.1 ++ t.2.2, ∀ y ∈ t.2.1 ++ t.2.2, x = y
    · cases hst : t.2.1 ++ t.2.2 with
      | nil =>
        simp only [List.append_eq_nil_iff] at hst
        have := c1 h.1 hst.1 hst.2
        rw [this] at hr; cases hr; rfl
      | cons l rest =>
        have := c2 l rest h.1 hst (fun x hx => h.2 x hx l (by rw [hst]; simp))
        rw [this] at hr; cases hr; rfl
    · have := c3 h
      rw [this] at hr; cases hr
      rw [C19.singleton_eq]
  have haccw := (LaxType.tensorAll_spec _ LOHG.empty rfl LaxType.labelConsistent_empty hds).1
  obtain ⟨_, hfxw, hfq, _⟩ := toStrict_quot_of_ok B hB _ fx haccw hfx1
  have hnp := tensorAll_nopending _ (LOHG.empty : LOHG O A) rfl hqd
  have hfq' : IsQuot (plain (LaxType.tensorAll LOHG.empty ((C12.opTriples (C12.opsOf f)).map
      (fun t => C12.imgOf (C12.forgetL var) t.1 t.2.1 t.2.2)))) (fun _ _ => False) fx.toPlain := by
    refine IsQuot.congr hfq ?_
    intro a b _ _
    constructor
    · rintro ⟨k, h1, _⟩
      rw [hnp] at h1
      simp at h1
    · exact False.elim
  -- … whose plain reading is the juxtaposition of the pieces
  have hX0 : plain (LaxType.tensorAll LOHG.empty ((C12.opTriples (C12.opsOf f)).map
      (fun t => C12.imgOf (C12.forgetL var) t.1 t.2.1 t.2.2))) =
      juxtR (f.toPlain.edges.map (piece var f.h.w)) := by
    rw [plain_tensorAll _ (fun d hd => (hds d hd).1), opTriples_eq f hfW, List.map_map, List.map_map]
    congr 1
    apply List.map_congr_left
    intro e he
    obtain ⟨_, _, w3⟩ := (PDiag.wf_iff _).1 (C03.wfP hf)
    have hr : ∀ v ∈ e.src ++ e.tgt, v < f.h.w.length := by
      intro v hv
      rcases List.mem_append.1 hv with hv | hv
      · exact (w3 e he).1 v hv
      · exact (w3 e he).2 v hv
    exact plain_forget_image var f.h.w e hr
  rw [hX0] at hfq'
  have hX0w : (juxtR (f.toPlain.edges.map (piece var f.h.w))).wf = true := by
    rw [← hX0]; exact plain_wf _ haccw
  obtain ⟨q, hqm, hqk⟩ := (isQuot_iff _ _ _).1 hfq'
  have hinj : ∀ i j, i < (juxtR (f.toPlain.edges.map (piece var f.h.w))).n →
      j < (juxtR (f.toPlain.edges.map (piece var f.h.w))).n → q i = q j → i = j := by
    intro i j hi hj hij
    exact (kernel_id _ i j).2 ((hqk i j hi hj).1 hij)
  have hiso := substP_isoVia (W := f.h.w) hfW.src_lt hfW.tgt_lt (hqm.isoVia hinj)
  have hq' := isQuot_pullback hiso hq
  obtain ⟨eS, eT⟩ := edges_flatMap_src f hf
  obtain ⟨x1, x2, _⟩ := (PDiag.wf_iff _).1 hX0w
  apply forget_retract var f.toPlain (C03.wfP hf)
  show IsQuot (substP f.h.w f.s.table f.t.table (juxtR (f.toPlain.edges.map (piece var f.h.w))))
    (substR f.h.w (f.toPlain.edges.flatMap (·.src)) (f.toPlain.edges.flatMap (·.tgt))
      (juxtR (f.toPlain.edges.map (piece var f.h.w)))) sg.toPlain
  rw [eS, eT]
  refine IsQuot.congr hq' ?_
  intro a b ha hb
  rw [substP_n] at ha hb
  -- the pairs correspond under the renumbering `q` of the nodes of the image of the batch
  have side : ∀ (es : List Nat) (I I' : List Nat), (∀ v ∈ es, v < f.h.w.length) →
      (∀ v ∈ I, v < (juxtR (f.toPlain.edges.map (piece var f.h.w))).n) → I' = I.map q →
      ((∃ k : Nat, es[k]? = some (plusMap f.h.w.length f.h.w.length (fun i => i) q a) ∧
          (I'[k]?).map (f.h.w.length + ·) = some (plusMap f.h.w.length f.h.w.length (fun i => i) q b)) ↔
        (∃ k : Nat, es[k]? = some a ∧ (I[k]?).map (f.h.w.length + ·) = some b)) := by
    intro es I I' hes hI hI'
    subst hI'
    constructor
    · rintro ⟨k, h1, h2⟩
      rw [List.getElem?_map] at h2
      cases hc : I[k]? with
      | none => rw [hc] at h2; cases h2
      | some c =>
        rw [hc] at h2
        have hc' := hI c (List.mem_of_getElem? hc)
        have e2 : f.h.w.length + q c = plusMap f.h.w.length f.h.w.length (fun i => i) q b :=
          Option.some.inj h2
        have h1' := hes _ (List.mem_of_getElem? h1)
        have ha' : a < f.h.w.length := by
          by_contra hn
          rw [plusMap_ge (by omega)] at h1'
          omega
        rw [plusMap_left ha'] at h1
        have hb' : f.h.w.length ≤ b := by
          by_contra hn
          rw [plusMap_left (by omega)] at e2
          omega
        rw [plusMap_ge hb'] at e2
        have : q c = q (b - f.h.w.length) := by omega
        have := hinj _ _ hc' (by omega) this
        refine ⟨k, h1, ?_⟩
        rw [hc]
        show some (f.h.w.length + c) = some b
        congr 1; omega
    · rintro ⟨k, h1, h2⟩
      cases hc : I[k]? with
      | none => rw [hc] at h2; cases h2
      | some c =>
        rw [hc] at h2
        have e2 : f.h.w.length + c = b := Option.some.inj h2
        have ha' := hes _ (List.mem_of_getElem? h1)
        refine ⟨k, by rw [plusMap_left ha']; exact h1, ?_⟩
        rw [List.getElem?_map, hc, ← e2, plusMap_right]
        rfl
  exact or_congr (side _ _ _ hfW.hyper.src_lt x1 hqm.ins) (side _ _ _ hfW.hyper.tgt_lt x2 hqm.outs)

end model

/-! ### evaluation: erased variable edges read as copies -/

section copy
set_option linter.unusedSectionVars false
variable [DecidableEq O] [DecidableEq A] {T : Type}

/-- a valuation of `d` in which every erased variable edge is read as a COPY (each of its targets
    carries the value of its source) and every other hyperedge is interpreted by `opfn` -/
structure IsCopyValuation (var : A) (d : PDiag O A) (opfn : A → List T → List T) (dflt : T)
    (s : List T) (val : Nat → T) : Prop where
  ins : d.ins.map val = s
  ops : ∀ e ∈ d.edges, ¬ Erased var d.nodes e → e.tgt.map val = opfn e.label (e.src.map val)
  copies : ∀ e ∈ d.edges, Erased var d.nodes e → ∀ u ∈ e.src, ∀ v ∈ e.tgt, val v = val u
  rest : ∀ v, v < d.n → v ∉ d.ins → (∀ e ∈ d.edges, v ∉ e.tgt) → val v = dflt

/-- every erased variable edge has exactly one source (it is a copy `1 → n`) -/
def OneSource (var : A) (d : PDiag O A) : Prop :=
  ∀ e ∈ d.edges, Erased var d.nodes e → e.src.length = 1

/-- the arity discipline of the interpreter on the hyperedges that are kept -/
def KeptArity (var : A) (d : PDiag O A) (opfn : A → List T → List T) : Prop :=
  ∀ e ∈ d.edges, ¬ Erased var d.nodes e → ∀ args : List T, args.length = e.src.length →
    (opfn e.label args).length = e.tgt.length

/-- an erased edge leads from `a` to `b` -/
def eStep (var : A) (d : PDiag O A) (a b : Nat) : Prop :=
  ∃ e ∈ d.edges, Erased var d.nodes e ∧ a ∈ e.src ∧ b ∈ e.tgt

/-- `v` is not written by an erased edge -/
def NotETgt (var : A) (d : PDiag O A) (v : Nat) : Prop :=
  ∀ e ∈ d.edges, Erased var d.nodes e → v ∉ e.tgt

variable {var : A} {d : PDiag O A}

omit [DecidableEq O] [DecidableEq A] in
theorem sw_edge_eq (hsw : SingleWriter d) {e e' : PEdge A} (he : e ∈ d.edges) (he' : e' ∈ d.edges)
    {v : Nat} (hv : v ∈ e.tgt) (hv' : v ∈ e'.tgt) : e = e' := by
  obtain ⟨j, hj⟩ := List.getElem?_of_mem he
  obtain ⟨j', hj'⟩ := List.getElem?_of_mem he'
  have := Eval.sw_edge_unique hsw hj hj' hv hv'
  subst this
  rw [hj] at hj'
  exact Option.some.inj hj'

theorem forgetRel_symm {a b : Nat} (h : forgetRel var d a b) : forgetRel var d b a := by
  obtain ⟨e, he, hE, ha, hb⟩ := h
  exact ⟨e, he, hE, hb, ha⟩

/-- the descendants of a node not written by an erased edge are closed under "incident to a
    common erased edge" -/
theorem desc_closed (hsw : SingleWriter d) (h1 : OneSource var d) {v x y : Nat}
    (hv : NotETgt var d v) (hx : ReflTransGen (eStep var d) v x) (hxy : forgetRel var d x y) :
    ReflTransGen (eStep var d) v y := by
  obtain ⟨e, he, hE, hxe, hye⟩ := hxy
  obtain ⟨a, ha⟩ := List.length_eq_one_iff.1 (h1 e he hE)
  have hva : ReflTransGen (eStep var d) v a := by
    rcases List.mem_append.1 hxe with hxs | hxt
    · rw [ha] at hxs
      have : x = a := by simpa using hxs
      rw [← this]; exact hx
    · rcases ReflTransGen.cases_tail hx with rfl | ⟨c, hc, e', he', hE', hce', hxe'⟩
      · exact absurd hxt (hv e he hE)
      · have := sw_edge_eq hsw he' he hxe' hxt
        subst this
        rw [ha] at hce'
        have : c = a := by simpa using hce'
        rw [← this]; exact hc
  rcases List.mem_append.1 hye with hys | hyt
  · rw [ha] at hys
    have : y = a := by simpa using hys
    rw [this]; exact hva
  · exact ReflTransGen.tail hva ⟨e, he, hE, by rw [ha]; simp, hyt⟩

/-- the equivalence class of a node not written by an erased edge consists of its descendants -/
theorem class_desc (hsw : SingleWriter d) (h1 : OneSource var d) {v y : Nat}
    (hv : NotETgt var d v) (h : EqvOn d.n (forgetRel var d) v y) :
    ReflTransGen (eStep var d) v y := by
  have key : ∀ x y, EqvOn d.n (forgetRel var d) x y →
      (ReflTransGen (eStep var d) v x ↔ ReflTransGen (eStep var d) v y) := by
    intro x y hxy
    induction hxy with
    | rel x y hr =>
      exact ⟨fun hx => desc_closed hsw h1 hv hx hr.2.2,
        fun hy => desc_closed hsw h1 hv hy (forgetRel_symm hr.2.2)⟩
    | refl x => exact Iff.rfl
    | symm x y _ ih => exact ih.symm
    | trans x y z _ _ ih1 ih2 => exact ih1.trans ih2
  exact (key v y h).1 ReflTransGen.refl

/-- a class contains at most one node that is not written by an erased edge -/
theorem root_unique (hsw : SingleWriter d) (h1 : OneSource var d) {v v' : Nat}
    (hv : NotETgt var d v) (hv' : NotETgt var d v')
    (h : EqvOn d.n (forgetRel var d) v v') : v = v' := by
  rcases ReflTransGen.cases_tail (class_desc hsw h1 hv h) with rfl | ⟨c, _, e, he, hE, _, hve⟩
  · rfl
  · exact absurd hve (hv' e he hE)

theorem desc_nodePath {v y : Nat} (h : ReflTransGen (eStep var d) v y) :
    ReflTransGen (nodeStep d) v y := by
  induction h with
  | refl => exact ReflTransGen.refl
  | tail _ hab ih =>
    obtain ⟨e, he, _, ha, hb⟩ := hab
    exact ih.tail ⟨e, he, ha, hb⟩

/-- nodes written by an input position or by a kept hyperedge are not written by an erased edge -/
theorem notETgt_of_writer (hsw : SingleWriter d) {v : Nat}
    (h : v ∈ d.ins ∨ ∃ e ∈ d.edges, ¬ Erased var d.nodes e ∧ v ∈ e.tgt) : NotETgt var d v := by
  intro e' he' hE' hv'
  rcases h with h | ⟨e, he, hE, hv⟩
  · exact Eval.sw_ins_not_tgt hsw v h e' he' hv'
  · have := sw_edge_eq hsw he he' hv hv'
    subst this
    exact hE hE'

theorem mem_kept {e : PEdge A} :
    e ∈ (forgetPre var d).edges ↔ e ∈ d.edges ∧ ¬ Erased var d.nodes e := by
  simp [forgetPre]

/-- node-level acyclicity implies acyclicity of the dependency relation of the operations -/
theorem nodePath_of_opPath' {x y : Nat} (h : TransGen (opDep d) x y) :
    ∀ ex ey, d.edges[x]? = some ex → d.edges[y]? = some ey →
      ∀ u ∈ ex.src, ∀ w ∈ ey.tgt, TransGen (nodeStep d) u w := by
  induction h with
  | single h1 =>
    intro ex ey hx hy u hu w hw
    obtain ⟨ex', ey', v, hx', hy', hv1, hv2⟩ := h1
    rw [hx] at hx'; rw [hy] at hy'
    cases hx'; cases hy'
    exact TransGen.tail (TransGen.single ⟨ex, List.mem_of_getElem? hx, hu, hv1⟩)
      ⟨ey, List.mem_of_getElem? hy, hv2, hw⟩
  | tail _ h2 ih =>
    intro ex ez hx hz u hu w hw
    obtain ⟨ey, ez', v, hy, hz', hv1, hv2⟩ := h2
    rw [hz] at hz'
    cases hz'
    exact TransGen.tail (ih ex ey hx hy u hu v hv1) ⟨ez, List.mem_of_getElem? hz, hv2, hw⟩

theorem noCycle_of_nodeAcyclic (h : Acyclic d) : Eval.NoCycle d := by
  rw [Eval.noCycle_iff]
  rintro ⟨c, hc⟩
  apply h
  cases hc with
  | single h1 =>
    obtain ⟨ex, ey, v, hx, hy, hv1, hv2⟩ := h1
    rw [hx] at hy
    cases hy
    exact ⟨v, TransGen.single ⟨ex, List.mem_of_getElem? hx, hv2, hv1⟩⟩
  | tail h1 h2 =>
    obtain ⟨ey, ec, v, hy, hc', hv1, hv2⟩ := h2
    exact ⟨v, nodePath_of_opPath' h1 ec ey hc' hy v hv2 v hv1⟩

theorem filter_flatMap_sublist {β γ : Type} (p : β → Bool) (g : β → List γ) (l : List β) :
    ((l.filter p).flatMap g).Sublist (l.flatMap g) := by
  induction l with
  | nil => exact List.Sublist.refl _
  | cons x l ih =>
    by_cases hx : p x = true
    · rw [List.filter_cons_of_pos hx, List.flatMap_cons, List.flatMap_cons]
      exact List.Sublist.append (List.Sublist.refl _) ih
    · rw [List.filter_cons_of_neg hx, List.flatMap_cons]
      exact List.Sublist.trans ih (List.sublist_append_right _ _)

section quot
variable (hd : d.wf = true) (hsw : SingleWriter d) (h1 : OneSource var d)
  {r : PDiag O A} {q : Nat → Nat} (hq : IsQuotMap (forgetPre var d) r q)
  (hk : ∀ i j, i < d.n → j < d.n → (q i = q j ↔ EqvOn d.n (forgetRel var d) i j))
include hd hsw h1 hq hk

/-- the nodes written in the forgotten diagram come from nodes that are not written by an erased
    edge -/
theorem writer_root {x : Nat}
    (hx : x ∈ d.ins ++ (forgetPre var d).edges.flatMap (·.tgt)) :
    x < d.n ∧ NotETgt var d x := by
  obtain ⟨d1, _, d3⟩ := (PDiag.wf_iff d).1 hd
  rcases List.mem_append.1 hx with hx | hx
  · exact ⟨d1 x hx, notETgt_of_writer hsw (Or.inl hx)⟩
  · obtain ⟨e, he, hxe⟩ := List.mem_flatMap.1 hx
    obtain ⟨he1, he2⟩ := mem_kept.1 he
    exact ⟨(d3 e he1).2 x hxe, notETgt_of_writer hsw (Or.inr ⟨e, he1, he2, hxe⟩)⟩

theorem quot_tgt_eq : r.edges.flatMap (·.tgt) = ((forgetPre var d).edges.flatMap (·.tgt)).map q := by
  rw [hq.edges, List.flatMap_map, List.map_flatMap]
  rfl

/-- SINGLE WRITER is inherited by the forgotten diagram -/
theorem quot_singleWriter : SingleWriter r := by
  unfold SingleWriter
  rw [quot_tgt_eq hd hsw h1 hq hk, hq.ins, ← List.map_append]
  apply List.Nodup.map_on
  · intro x hx y hy hxy
    obtain ⟨x1, x2⟩ := writer_root hd hsw h1 hq hk hx
    obtain ⟨y1, y2⟩ := writer_root hd hsw h1 hq hk hy
    exact root_unique hsw h1 x2 y2 ((hk x y x1 y1).1 hxy)
  · refine List.Nodup.sublist ?_ hsw
    exact List.Sublist.append (List.Sublist.refl _) (filter_flatMap_sublist _ _ _)

theorem nodeStep_lift {k k' : Nat} (h : nodeStep r k k') :
    ∃ u v, u < d.n ∧ v < d.n ∧ q u = k ∧ q v = k' ∧ NotETgt var d v ∧ nodeStep d u v := by
  obtain ⟨_, _, d3⟩ := (PDiag.wf_iff d).1 hd
  obtain ⟨e', he', hk1, hk2⟩ := h
  rw [hq.edges] at he'
  obtain ⟨e, he, rfl⟩ := List.mem_map.1 he'
  obtain ⟨he1, he2⟩ := mem_kept.1 he
  obtain ⟨u, hu, rfl⟩ := List.mem_map.1 hk1
  obtain ⟨v, hv, rfl⟩ := List.mem_map.1 hk2
  exact ⟨u, v, (d3 e he1).1 u hu, (d3 e he1).2 v hv, rfl, rfl,
    notETgt_of_writer hsw (Or.inr ⟨e, he1, he2, hv⟩), e, he1, hu, hv⟩

theorem nodePath_lift {k k' : Nat} (h : TransGen (nodeStep r) k k') :
    ∃ u v, u < d.n ∧ v < d.n ∧ q u = k ∧ q v = k' ∧ NotETgt var d v ∧
      TransGen (nodeStep d) u v := by
  induction h with
  | single hs =>
    obtain ⟨u, v, a1, a2, a3, a4, a5, a6⟩ := nodeStep_lift hd hsw h1 hq hk hs
    exact ⟨u, v, a1, a2, a3, a4, a5, TransGen.single a6⟩
  | tail _ hs ih =>
    obtain ⟨u, v, a1, a2, a3, a4, a5, a6⟩ := ih
    obtain ⟨u', v', b1, b2, b3, b4, b5, b6⟩ := nodeStep_lift hd hsw h1 hq hk hs
    have hcl := class_desc hsw h1 a5 ((hk v u' a2 b1).1 (a4.trans b3.symm))
    exact ⟨u, v', a1, b2, a3, b4, b5, (a6.trans_left (desc_nodePath hcl)).tail b6⟩

/-- ACYCLICITY is inherited by the forgotten diagram -/
theorem quot_acyclic (hac : Acyclic d) : Acyclic r := by
  rintro ⟨k, hc⟩
  obtain ⟨u, v, a1, a2, a3, a4, a5, a6⟩ := nodePath_lift hd hsw h1 hq hk hc
  have hcl := class_desc hsw h1 a5 ((hk v u a2 a1).1 (a4.trans a3.symm))
  exact hac ⟨u, a6.trans_left (desc_nodePath hcl)⟩

/-- the arity discipline on the kept hyperedges is the arity discipline of the forgotten diagram -/
theorem quot_arity {opfn : A → List T → List T} (har : KeptArity var d opfn) :
    Eval.Arity r opfn := by
  intro e' he' args hargs
  rw [hq.edges] at he'
  obtain ⟨e, he, rfl⟩ := List.mem_map.1 he'
  obtain ⟨he1, he2⟩ := mem_kept.1 he
  have := har e he1 he2 args (by simpa using hargs)
  simpa using this

/-- a valuation of the forgotten diagram, read through the identification of the nodes, is a
    valuation of the original diagram with the erased variable edges read as copies -/
theorem copyValuation_of_quot {opfn : A → List T → List T} {dflt : T} {s : List T}
    {val' : Nat → T} (hv : IsValuation r opfn dflt s val') :
    IsCopyValuation var d opfn dflt s (fun v => val' (q v)) := by
  obtain ⟨d1, _, d3⟩ := (PDiag.wf_iff d).1 hd
  refine ⟨?_, ?_, ?_, ?_⟩
  · have := hv.ins
    rw [hq.ins, List.map_map] at this
    exact this
  · intro e he hE
    have hm : PEdge.mapNodes q e ∈ r.edges := by
      rw [hq.edges]; exact List.mem_map_of_mem (mem_kept.2 ⟨he, hE⟩)
    have := hv.ops _ hm
    simpa [List.map_map, Function.comp_def] using this
  · intro e he hE u hu v hv'
    have hu' := (d3 e he).1 u hu
    have hv'' := (d3 e he).2 v hv'
    have : q v = q u := (hk v u hv'' hu').2 (EqvOn.of_rel hv'' hu'
      ⟨e, he, hE, List.mem_append_right _ hv', List.mem_append_left _ hu⟩)
    show val' (q v) = val' (q u)
    rw [this]
  · intro v hvn hvi hvt
    have hroot : NotETgt var d v := fun e he _ => hvt e he
    apply hv.rest (q v) (hq.lt v hvn)
    · intro hmem
      rw [hq.ins] at hmem
      obtain ⟨u, hu, huv⟩ := List.mem_map.1 hmem
      have hu' : u < d.n := d1 u hu
      rcases ReflTransGen.cases_tail (class_desc hsw h1 hroot ((hk v u hvn hu').1 huv.symm)) with
        rfl | ⟨c, _, e, he, _, _, hue⟩
      · exact hvi hu
      · exact Eval.sw_ins_not_tgt hsw u hu e he hue
    · intro e' he' hmem
      rw [hq.edges] at he'
      obtain ⟨e, he, rfl⟩ := List.mem_map.1 he'
      obtain ⟨he1, he2⟩ := mem_kept.1 he
      obtain ⟨u, hu, huv⟩ := List.mem_map.1 hmem
      have hu' : u < d.n := (d3 e he1).2 u hu
      rcases ReflTransGen.cases_tail (class_desc hsw h1 hroot ((hk v u hvn hu').1 huv.symm)) with
        rfl | ⟨c, _, e2, he2', hE2, _, hue⟩
      · exact hvt e he1 hu
      · have := sw_edge_eq hsw he1 he2' hu hue
        subst this
        exact he2 hE2

end quot

/-- valuations with copies are unique on an acyclic diagram whose erased edges have one source -/
theorem copyValuation_unique {opfn : A → List T → List T} {dflt : T} {s : List T}
    {val val' : Nat → T} (hd : d.wf = true) (hac : Eval.NoCycle d) (h1 : OneSource var d)
    (h : IsCopyValuation var d opfn dflt s val) (h' : IsCopyValuation var d opfn dflt s val') :
    ∀ v, v < d.n → val v = val' v := by
  obtain ⟨lay, hdep⟩ := Eval.exists_lay_of_noCycle d hac
  obtain ⟨_, _, hedges⟩ := (PDiag.wf_iff d).1 hd
  have hins : ∀ v ∈ d.ins, val v = val' v := List.map_inj_left.1 (h.ins.trans h'.ins.symm)
  have hedge : ∀ k j e, lay j = k → d.edges[j]? = some e → ∀ v ∈ e.tgt, val v = val' v := by
    intro k
    induction k using Nat.strong_induction_on with
    | _ k ih =>
      intro j e hk he
      have hmem := List.mem_of_getElem? he
      have hsrc : ∀ u ∈ e.src, val u = val' u := by
        intro u hu
        have hun : u < d.n := (hedges e hmem).1 u hu
        by_cases hui : u ∈ d.ins
        · exact hins u hui
        · by_cases hut : ∃ j' : Nat, ∃ e' : PEdge A, d.edges[j']? = some e' ∧ u ∈ e'.tgt
          · obtain ⟨j', e', he', hue'⟩ := hut
            have := hdep j' j ⟨e', e, u, he', he, hue', hu⟩
            exact ih (lay j') (by omega) j' e' rfl he' u hue'
          · have hno : ∀ e' ∈ d.edges, u ∉ e'.tgt := by
              intro e' he' hue'
              obtain ⟨j', hj'⟩ := List.getElem?_of_mem he'
              exact hut ⟨j', e', hj', hue'⟩
            rw [h.rest u hun hui hno, h'.rest u hun hui hno]
      by_cases hE : Erased var d.nodes e
      · obtain ⟨a, ha⟩ := List.length_eq_one_iff.1 (h1 e hmem hE)
        intro v hv
        have ha' : a ∈ e.src := by rw [ha]; simp
        rw [h.copies e hmem hE a ha' v hv, h'.copies e hmem hE a ha' v hv]
        exact hsrc a ha'
      · have : e.src.map val = e.src.map val' := List.map_congr_left hsrc
        exact List.map_inj_left.1 (by rw [h.ops e hmem hE, h'.ops e hmem hE, this])
  intro v hv
  by_cases hvi : v ∈ d.ins
  · exact hins v hvi
  · by_cases hvt : ∃ j : Nat, ∃ e : PEdge A, d.edges[j]? = some e ∧ v ∈ e.tgt
    · obtain ⟨j, e, he, hve⟩ := hvt
      exact hedge (lay j) j e rfl he v hve
    · have hno : ∀ e ∈ d.edges, v ∉ e.tgt := by
        intro e he hve
        obtain ⟨j, hj⟩ := List.getElem?_of_mem he
        exact hvt ⟨j, e, hj, hve⟩
      rw [h.rest v hv hvi hno, h'.rest v hv hvi hno]

/-- EVALUATION OF THE FORGOTTEN DIAGRAM (strict level): if `sg` presents "delete the erased variable
    edges of `d`, identify the nodes incident to a common erased edge", `d` is acyclic and
    single-writer and its erased edges have exactly one source, then `sg` is acyclic and
    single-writer, `d` has a valuation with copies, and `eval` on `sg` returns the output values of
    EVERY valuation of `d` in which the erased edges are read as copies -/
theorem forget_eval_core (B : Backend) (hB : B.Lawful) (sg : OHG O A) (hsgw : sg.wf = true)
    (hd : d.wf = true) (hQ : IsQuot (forgetPre var d) (forgetRel var d) sg.toPlain)
    (hac : Acyclic d) (hsw : SingleWriter d) (h1 : OneSource var d)
    (opfn : A → List T → List T) (dflt : T) (s : List T) (har : KeptArity var d opfn)
    (hs : s.length = d.ins.length) :
    C16.OpAcyclic sg ∧ SingleWriter sg.toPlain ∧ C16.ArityOK sg opfn ∧
    (∃ val, IsCopyValuation var d opfn dflt s val) ∧
    ∀ val, IsCopyValuation var d opfn dflt s val →
      Graph.eval B sg dflt s (Eval.applyOf opfn) = .ok (d.outs.map val) := by
  obtain ⟨_, d2, _⟩ := (PDiag.wf_iff d).1 hd
  obtain ⟨q, hq, hk⟩ := (isQuot_iff _ _ _).1 hQ
  have hk' : ∀ i j, i < d.n → j < d.n → (q i = q j ↔ EqvOn d.n (forgetRel var d) i j) := hk
  have hA := quot_singleWriter hd hsw h1 hq hk'
  have hB' := quot_acyclic hd hsw h1 hq hk' hac
  have hC : Eval.Arity sg.toPlain opfn := quot_arity hd hsw h1 hq hk' har
  have hacg : C16.OpAcyclic sg :=
    (C16.opAcyclic_iff_noCycle sg hsgw).2 (noCycle_of_nodeAcyclic hB')
  have hs' : s.length = sg.s.table.length := by
    have : sg.s.table = d.ins.map q := hq.ins
    rw [this, List.length_map]; exact hs
  obtain ⟨outs, val', hev, hval', houts⟩ := C16.eval_spec B hB sg hsgw opfn dflt s hacg hA hC hs'
  have hcv := copyValuation_of_quot hd hsw h1 hq hk' hval'
  refine ⟨hacg, hA, hC, ⟨_, hcv⟩, ?_⟩
  intro val hval
  rw [hev, houts]
  congr 1
  have : sg.t.table = d.outs.map q := hq.outs
  rw [this, List.map_map]
  apply List.map_congr_left
  intro v hv
  exact copyValuation_unique hd (noCycle_of_nodeAcyclic hac) h1 hcv hval v (d2 v hv)

end copy

end OH.ForgetSem
