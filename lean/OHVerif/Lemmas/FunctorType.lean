/-
  Helper lemmas for the typing clause of C12 ("a functor maps a diagram of type A → B to one of
  type F(A) → F(B)"): the expansion of an interface along the object images, the closed form of
  `to_operations`, and the analysis of `spider_map_arrow` (every `unwrap` unreachable, result
  well-formed, boundary types the expanded boundary types).
-/
import OHVerif.Model.Functor
import OHVerif.Lemmas.StrictWF
import OHVerif.Props.C05
import OHVerif.Props.C12

namespace OH

variable {O A O1 A1 O2 A2 : Type}

namespace SFunctor

/-- `F`-expansion of a list of node indices of the source diagram along the object images `fw`
    (one segment `F(w_j)` per node `j`): the concatenation `F(w_{i 0}) ++ F(w_{i 1}) ++ …` -/
def expandTy (fw : IC (List O2)) (ids : List Nat) : List O2 :=
  ids.flatMap (fun j => fw.segsL.getD j [])

theorem expandTy_append (fw : IC (List O2)) (a b : List Nat) :
    expandTy fw (a ++ b) = expandTy fw a ++ expandTy fw b := by
  simp [expandTy]

/-- when the object images are given pointwise by `obj`, the expansion of an interface is the
    pointwise image of its type -/
theorem expandTy_eq_flatMap (fw : IC (List O2)) (w : List O1) (obj : O1 → List O2)
    (hseg : fw.segsL = w.map obj) (ids : List Nat) (hid : ∀ i ∈ ids, i < w.length) :
    expandTy fw ids = (Prim.gatherP w ids).flatMap obj := by
  induction ids with
  | nil => rfl
  | cons i is ih =>
    have hi : i < w.length := hid i (by simp)
    have ih' := ih (fun j hj => hid j (by simp [hj]))
    have e1 : expandTy fw (i :: is) = fw.segsL.getD i [] ++ expandTy fw is := by
      simp [expandTy]
    have e2 : Prim.gatherP w (i :: is) = w[i] :: Prim.gatherP w is := by
      simp [Prim.gatherP, List.getElem?_eq_getElem hi]
    rw [e1, e2, ih', hseg]
    simp [List.getD_eq_getElem?_getD, List.getElem?_map, List.getElem?_eq_getElem hi]

/-- closed form of `to_operations` on a well-formed diagram: the source (target) type array of the
    batch is the node labels read through the flat source (target) incidence array -/
theorem toOperations_eq (f : OHG O A) (hf : f.WF) :
    toOperations f = .ok ⟨f.h.x, ⟨f.h.s.sources, Prim.gatherP f.h.w f.h.s.values.table⟩,
      ⟨f.h.t.sources, Prim.gatherP f.h.w f.h.t.values.table⟩⟩ := by
  unfold toOperations
  rw [IC.mapSemifinite_eq _ _ hf.hyper.src.range hf.hyper.src_nodes,
    IC.mapSemifinite_eq _ _ hf.hyper.tgt.range hf.hyper.tgt_nodes]
  rfl

/-- the batch returned by `to_operations` satisfies the `Operations` invariants -/
theorem toOperations_valid (f : OHG O A) (hf : f.WF) :
    (⟨f.h.s.sources, Prim.gatherP f.h.w f.h.s.values.table⟩ : IC (List O)).valid = true ∧
    (⟨f.h.t.sources, Prim.gatherP f.h.w f.h.t.values.table⟩ : IC (List O)).valid = true := by
  constructor
  · rw [IC.valid_iff]
    refine ⟨hf.hyper.src.bound, ?_⟩
    show _ = (Prim.gatherP f.h.w f.h.s.values.table).length
    rw [FinFun.gatherP_length _ _ hf.hyper.src_lt]
    exact hf.hyper.src.sizes
  · rw [IC.valid_iff]
    refine ⟨hf.hyper.tgt.bound, ?_⟩
    show _ = (Prim.gatherP f.h.w f.h.t.values.table).length
    rw [FinFun.gatherP_length _ _ hf.hyper.tgt_lt]
    exact hf.hyper.tgt.sizes

/-! ### `spider_map_arrow` -/

/-- the left "distribution" spider of `spider_map_arrow`: source interface the expanded interface
    `fs`, target interface all image nodes followed by the expanded incidence positions `es` -/
theorem spider_leg_WF (fw : List O2) (fs es : FinFun) (hfs : fs.WF) (hes : es.WF)
    (hfst : fs.target = fw.length) (hest : es.target = fw.length) :
    (⟨fs, ⟨List.range fw.length ++ es.table, fw.length⟩, HG.discrete fw⟩ : OHG O2 A2).WF ∧
    (⟨⟨List.range fw.length ++ es.table, fw.length⟩, fs, HG.discrete fw⟩ : OHG O2 A2).WF := by
  have hleg : (⟨List.range fw.length ++ es.table, fw.length⟩ : FinFun).WF := by
    intro x hx
    rcases List.mem_append.1 hx with hx | hx
    · simpa using hx
    · show x < fw.length
      rw [← hest]; exact hes x hx
  exact ⟨⟨HG.discrete_WF fw, hfs, hleg, hfst, rfl⟩, ⟨HG.discrete_WF fw, hleg, hfs, rfl, hfst⟩⟩

/-- Analysis of `spider_map_arrow` for every lawful backend.  Given a well-formed `f`, object
    images `fw` (one segment per node of `f`) and a well-formed tensor of operation images `fx`
    whose boundary types are the expanded source / target incidence types of `f`, every `unwrap`
    is unreachable; the result is well-formed, its boundary types are the expanded boundary types
    of `f`, its hyperedges are exactly those of `fx` (same labels, same arities, same order) and
    every node label comes from an object image or from `fx`. -/
theorem spiderMapArrow_ok_type [DecidableEq O2] (B : Backend) (hB : B.Lawful) (f : OHG O1 A1)
    (hf : f.WF) (fw : IC (List O2)) (hv : fw.valid = true) (hl : fw.len = f.h.w.length)
    (fx : OHG O2 A2) (hx : fx.WF)
    (hs : fx.source = .ok (expandTy fw f.h.s.values.table))
    (ht : fx.target = .ok (expandTy fw f.h.t.values.table)) :
    ∃ r, spiderMapArrow B f fw fx = .ok r ∧ r.WF ∧
      r.source = .ok (expandTy fw f.s.table) ∧ r.target = .ok (expandTy fw f.t.table) ∧
      r.h.x = fx.h.x ∧ r.h.s.sources.table = fx.h.s.sources.table ∧
      r.h.t.sources.table = fx.h.t.sources.table ∧
      (∀ l ∈ r.h.w, l ∈ fw.values ∨ l ∈ fx.h.w) := by
  obtain ⟨fs, hfs, hfst, hfsw, _, _, hfsg⟩ :=
    C12.mapHalfSpider_spec fw f.s hv hf.src_wf (hf.src_nodes.trans hl.symm)
  obtain ⟨ft, hft, hftt, hftw, _, _, hftg⟩ :=
    C12.mapHalfSpider_spec fw f.t hv hf.tgt_wf (hf.tgt_nodes.trans hl.symm)
  obtain ⟨es, hes, hest, hesw, _, _, hesg⟩ :=
    C12.mapHalfSpider_spec fw f.h.s.values hv hf.hyper.src.range (hf.hyper.src_nodes.trans hl.symm)
  obtain ⟨et, het, hett, hetw, _, _, hetg⟩ :=
    C12.mapHalfSpider_spec fw f.h.t.values hv hf.hyper.tgt.range (hf.hyper.tgt_nodes.trans hl.symm)
  -- the four pieces
  obtain ⟨hsxW, _⟩ := spider_leg_WF (A2 := A2) fw.values fs es hfsw hesw hfst hest
  obtain ⟨_, hytW⟩ := spider_leg_WF (A2 := A2) fw.values ft et hftw hetw hftt hett
  obtain ⟨i, hi, hiW, his, hit, _⟩ := C05.identity_wf_type (A := A2) fw.values
  have hi' := hi
  rw [OHG.identity_eq] at hi'
  injection hi' with hi'
  obtain ⟨ifx, a, a', b, b', hifx, hifxW, ha, ha', hifxs, hb, hb', hifxt, hifxw, hifxx, _, _, _, _⟩ :=
    C05.tensor_wf_type i fx hiW hx
  rw [his] at ha; injection ha with ha; subst ha
  rw [hs] at ha'; injection ha' with ha'; subst ha'
  rw [hit] at hb; injection hb with hb; subst hb
  rw [ht] at hb'; injection hb' with hb'; subst hb'
  have hifx_eq : ifx = OHG.tensorR i fx := by
    have h := OHG.tensor_eq i fx hiW hx
    rw [hifx] at h
    injection h
  -- boundary types of the two spiders
  have hsx_s : (⟨fs, ⟨List.range fw.values.length ++ es.table, fw.values.length⟩,
      HG.discrete fw.values⟩ : OHG O2 A2).source = .ok (expandTy fw f.s.table) := by
    rw [OHG.source_eq _ hsxW.src_wf hsxW.src_nodes]
    show Res.ok (Prim.gatherP fw.values fs.table) = _
    rw [hfsg]; rfl
  have hsx_t : (⟨fs, ⟨List.range fw.values.length ++ es.table, fw.values.length⟩,
      HG.discrete fw.values⟩ : OHG O2 A2).target =
        .ok (fw.values ++ expandTy fw f.h.s.values.table) := by
    rw [OHG.target_eq _ hsxW.tgt_wf hsxW.tgt_nodes]
    show Res.ok (Prim.gatherP fw.values (List.range fw.values.length ++ es.table)) = _
    rw [gatherP_append_idx, Prim.gatherP_range, hesg]; rfl
  have hyt_s : (⟨⟨List.range fw.values.length ++ et.table, fw.values.length⟩, ft,
      HG.discrete fw.values⟩ : OHG O2 A2).source =
        .ok (fw.values ++ expandTy fw f.h.t.values.table) := by
    rw [OHG.source_eq _ hytW.src_wf hytW.src_nodes]
    show Res.ok (Prim.gatherP fw.values (List.range fw.values.length ++ et.table)) = _
    rw [gatherP_append_idx, Prim.gatherP_range, hetg]; rfl
  have hyt_t : (⟨⟨List.range fw.values.length ++ et.table, fw.values.length⟩, ft,
      HG.discrete fw.values⟩ : OHG O2 A2).target = .ok (expandTy fw f.t.table) := by
    rw [OHG.target_eq _ hytW.tgt_wf hytW.tgt_nodes]
    show Res.ok (Prim.gatherP fw.values ft.table) = _
    rw [hftg]; rfl
  -- first composition
  obtain ⟨c1, hc1, hc1W, hc1s, hc1t, hc1x, hc1ss, hc1ts, hc1w⟩ :=
    (C05.compose_spec B hB _ ifx hsxW hifxW).1 (by rw [hsx_t, hifxs])
  -- second composition
  obtain ⟨c2, hc2, hc2W, hc2s, hc2t, hc2x, hc2ss, hc2ts, hc2w⟩ :=
    (C05.compose_spec B hB c1 _ hc1W hytW).1 (by rw [hc1t, hifxt, hyt_s])
  refine ⟨c2, ?_, hc2W, ?_, ?_, ?_, ?_, ?_, ?_⟩
  · unfold spiderMapArrow
    rw [hi, hfs, hes, hft, het]
    simp only [Res.ok_bind, ← hi']
    have e1 : FinFun.coproduct (⟨List.range fw.values.length, fw.values.length⟩ : FinFun) es =
        .ok ⟨List.range fw.values.length ++ es.table, fw.values.length⟩ := by
      simp [FinFun.coproduct, hest]
    have e2 : FinFun.coproduct (⟨List.range fw.values.length, fw.values.length⟩ : FinFun) et =
        .ok ⟨List.range fw.values.length ++ et.table, fw.values.length⟩ := by
      simp [FinFun.coproduct, hett]
    rw [e1, e2]
    simp only [Res.unwrap_ok, Res.ok_bind]
    rw [OHG.spider_eq, if_pos ⟨hfst, rfl⟩, OHG.spider_eq, if_pos ⟨rfl, hftt⟩]
    simp only [Res.unwrap_ok, Res.ok_bind]
    have ew : (HG.discrete fw.values : HG O2 A2).w = fw.values := rfl
    simp only [ew]
    rw [hi', hifx]
    simp only [Res.ok_bind]
    rw [hc1]
    simp only [Res.unwrap_ok, Res.ok_bind]
    rw [hc2]
    rfl
  · rw [hc2s, hc1s, hsx_s]
  · rw [hc2t, hyt_t]
  · rw [hc2x, hc1x, hifxx, ← hi']; simp [HG.discrete]
  · rw [hc2ss, hc1ss, hifx_eq, ← hi']
    simp [OHG.tensorR, HG.coproductR, IC.tensorR, HG.discrete, IC.initial, FinFun.initial]
  · rw [hc2ts, hc1ts, hifx_eq, ← hi']
    simp [OHG.tensorR, HG.coproductR, IC.tensorR, HG.discrete, IC.initial, FinFun.initial]
  · intro l hl
    have h2 := hc2w l hl
    have ew : (HG.discrete fw.values : HG O2 A2).w = fw.values := rfl
    rw [ew] at h2
    rcases List.mem_append.1 h2 with h2 | h2
    · have h1 := hc1w l h2
      rw [ew, hifxw, ← hi', ew] at h1
      simp only [List.mem_append] at h1
      rcases h1 with h1 | h1 | h1
      · exact Or.inl h1
      · exact Or.inl h1
      · exact Or.inr h1
    · exact Or.inl h2

end SFunctor
end OH
