/-
  Helper lemmas for the typing clause of C12 ("a functor maps a diagram of type A → B to one of
  type F(A) → F(B)"): the expansion of an interface along the object images, the closed form of
  `to_operations`, and the analysis of `spider_map_arrow` (every `unwrap` unreachable, result
  well-formed, boundary types the expanded boundary types).
-/
import OHVerif.Model.Functor
import OHVerif.Lemmas.StrictWF
import OHVerif.Props.C05
import OHVerif.Props.C12
import OHVerif.Props.C09

namespace OH

variable {O A O1 A1 O2 A2 : Type}

namespace SFunctor

/-- `F`-expansion of a list of node indices of the source diagram along the object images `fw`
    (one segment `F(w_j)` per node `j`): the concatenation `F(w_{i 0}) ++ F(w_{i 1}) ++ …` -/
def expandTy (fw : IC (List O2)) (ids : List Nat) : List O2 :=
  ids.flatMap (fun j => fw.segsL.getD j [])

theorem expandTy_append (fw : IC (List O2)) (a b : List Nat) :
    expandTy fw (a ++ b) = expandTy fw a ++ expandTy fw b := by
  simp [expandTy]

/-- when the object images are given pointwise by `obj`, the expansion of an interface is the
    pointwise image of its type -/
theorem expandTy_eq_flatMap (fw : IC (List O2)) (w : List O1) (obj : O1 → List O2)
    (hseg : fw.segsL = w.map obj) (ids : List Nat) (hid : ∀ i ∈ ids, i < w.length) :
    expandTy fw ids = (Prim.gatherP w ids).flatMap obj := by
  induction ids with
  | nil => rfl
  | cons i is ih =>
    have hi : i < w.length := hid i (by simp)
    have ih' := ih (fun j hj => hid j (by simp [hj]))
    have e1 : expandTy fw (i :: is) = fw.segsL.getD i [] ++ expandTy fw is := by
      simp [expandTy]
    have e2 : Prim.gatherP w (i :: is) = w[i] :: Prim.gatherP w is := by
      simp [Prim.gatherP, List.getElem?_eq_getElem hi]
    rw [e1, e2, ih', hseg]
    simp [List.getD_eq_getElem?_getD, List.getElem?_map, List.getElem?_eq_getElem hi]

/-- closed form of `to_operations` on a well-formed diagram: the source (target) type array of the
    batch is the node labels read through the flat source (target) incidence array -/
theorem toOperations_eq (f : OHG O A) (hf : f.WF) :
    toOperations f = .ok ⟨f.h.x, ⟨f.h.s.sources, Prim.gatherP f.h.w f.h.s.values.table⟩,
      ⟨f.h.t.sources, Prim.gatherP f.h.w f.h.t.values.table⟩⟩ := by
  unfold toOperations
  rw [IC.mapSemifinite_eq _ _ hf.hyper.src.range hf.hyper.src_nodes,
    IC.mapSemifinite_eq _ _ hf.hyper.tgt.range hf.hyper.tgt_nodes]
  rfl

/-- the batch returned by `to_operations` satisfies the `Operations` invariants -/
theorem toOperations_valid (f : OHG O A) (hf : f.WF) :
    (⟨f.h.s.sources, Prim.gatherP f.h.w f.h.s.values.table⟩ : IC (List O)).valid = true ∧
    (⟨f.h.t.sources, Prim.gatherP f.h.w f.h.t.values.table⟩ : IC (List O)).valid = true := by
  constructor
  · rw [IC.valid_iff]
    refine ⟨hf.hyper.src.bound, ?_⟩
    show _ = (Prim.gatherP f.h.w f.h.s.values.table).length
    rw [FinFun.gatherP_length _ _ hf.hyper.src_lt]
    exact hf.hyper.src.sizes
  · rw [IC.valid_iff]
    refine ⟨hf.hyper.tgt.bound, ?_⟩
    show _ = (Prim.gatherP f.h.w f.h.t.values.table).length
    rw [FinFun.gatherP_length _ _ hf.hyper.tgt_lt]
    exact hf.hyper.tgt.sizes

/-! ### `spider_map_arrow` -/

/-- the left "distribution" spider of `spider_map_arrow`: source interface the expanded interface
    `fs`, target interface all image nodes followed by the expanded incidence positions `es` -/
theorem spider_leg_WF (fw : List O2) (fs es : FinFun) (hfs : fs.WF) (hes : es.WF)
    (hfst : fs.target = fw.length) (hest : es.target = fw.length) :
    (⟨fs, ⟨List.range fw.length ++ es.table, fw.length⟩, HG.discrete fw⟩ : OHG O2 A2).WF ∧
    (⟨⟨List.range fw.length ++ es.table, fw.length⟩, fs, HG.discrete fw⟩ : OHG O2 A2).WF := by
  have hleg : (⟨List.range fw.length ++ es.table, fw.length⟩ : FinFun).WF := by
    intro x hx
    rcases List.mem_append.1 hx with hx | hx
    · simpa using hx
    · show x < fw.length
      rw [← hest]; exact hes x hx
  exact ⟨⟨HG.discrete_WF fw, hfs, hleg, hfst, rfl⟩, ⟨HG.discrete_WF fw, hleg, hfs, rfl, hfst⟩⟩

/-- Analysis of `spider_map_arrow` for every lawful backend.  Given a well-formed `f`, object
    images `fw` (one segment per node of `f`) and a well-formed tensor of operation images `fx`
    whose boundary types are the expanded source / target incidence types of `f`, every `unwrap`
    is unreachable; the result is well-formed, its boundary types are the expanded boundary types
    of `f`, its hyperedges are exactly those of `fx` (same labels, same arities, same order) and
    every node label comes from an object image or from `fx`. -/
theorem spiderMapArrow_ok_type [DecidableEq O2] (B : Backend) (hB : B.Lawful) (f : OHG O1 A1)
    (hf : f.WF) (fw : IC (List O2)) (hv : fw.valid = true) (hl : fw.len = f.h.w.length)
    (fx : OHG O2 A2) (hx : fx.WF)
    (hs : fx.source = .ok (expandTy fw f.h.s.values.table))
    (ht : fx.target = .ok (expandTy fw f.h.t.values.table)) :
    ∃ r, spiderMapArrow B f fw fx = .ok r ∧ r.WF ∧
      r.source = .ok (expandTy fw f.s.table) ∧ r.target = .ok (expandTy fw f.t.table) ∧
      r.h.x = fx.h.x ∧ r.h.s.sources.table = fx.h.s.sources.table ∧
      r.h.t.sources.table = fx.h.t.sources.table ∧
      (∀ l ∈ r.h.w, l ∈ fw.values ∨ l ∈ fx.h.w) := by
  obtain ⟨fs, hfs, hfst, hfsw, _, _, hfsg⟩ :=
    C12.mapHalfSpider_spec fw f.s hv hf.src_wf (hf.src_nodes.trans hl.symm)
  obtain ⟨ft, hft, hftt, hftw, _, _, hftg⟩ :=
    C12.mapHalfSpider_spec fw f.t hv hf.tgt_wf (hf.tgt_nodes.trans hl.symm)
  obtain ⟨es, hes, hest, hesw, _, _, hesg⟩ :=
    C12.mapHalfSpider_spec fw f.h.s.values hv hf.hyper.src.range (hf.hyper.src_nodes.trans hl.symm)
  obtain ⟨et, het, hett, hetw, _, _, hetg⟩ :=
    C12.mapHalfSpider_spec fw f.h.t.values hv hf.hyper.tgt.range (hf.hyper.tgt_nodes.trans hl.symm)
  -- the four pieces
  obtain ⟨hsxW, _⟩ := spider_leg_WF (A2 := A2) fw.values fs es hfsw hesw hfst hest
  obtain ⟨_, hytW⟩ := spider_leg_WF (A2 := A2) fw.values ft et hftw hetw hftt hett
  obtain ⟨i, hi, hiW, his, hit, _⟩ := C05.identity_wf_type (A := A2) fw.values
  have hi' := hi
  rw [OHG.identity_eq] at hi'
  injection hi' with hi'
  obtain ⟨ifx, a, a', b, b', hifx, hifxW, ha, ha', hifxs, hb, hb', hifxt, hifxw, hifxx, _, _, _, _⟩ :=
    C05.tensor_wf_type i fx hiW hx
  rw [his] at ha; injection ha with ha; subst ha
  rw [hs] at ha'; injection ha' with ha'; subst ha'
  rw [hit] at hb; injection hb with hb; subst hb
  rw [ht] at hb'; injection hb' with hb'; subst hb'
  have hifx_eq : ifx = OHG.tensorR i fx := by
    have h := OHG.tensor_eq i fx hiW hx
    rw [hifx] at h
    injection h
  -- boundary types of the two spiders
  have hsx_s : (⟨fs, ⟨List.range fw.values.length ++ es.table, fw.values.length⟩,
      HG.discrete fw.values⟩ : OHG O2 A2).source = .ok (expandTy fw f.s.table) := by
    rw [OHG.source_eq _ hsxW.src_wf hsxW.src_nodes]
    show Res.ok (Prim.gatherP fw.values fs.table) = _
    rw [hfsg]; rfl
  have hsx_t : (⟨fs, ⟨List.range fw.values.length ++ es.table, fw.values.length⟩,
      HG.discrete fw.values⟩ : OHG O2 A2).target =
        .ok (fw.values ++ expandTy fw f.h.s.values.table) := by
    rw [OHG.target_eq _ hsxW.tgt_wf hsxW.tgt_nodes]
    show Res.ok (Prim.gatherP fw.values (List.range fw.values.length ++ es.table)) = _
    rw [gatherP_append_idx, Prim.gatherP_range, hesg]; rfl
  have hyt_s : (⟨⟨List.range fw.values.length ++ et.table, fw.values.length⟩, ft,
      HG.discrete fw.values⟩ : OHG O2 A2).source =
        .ok (fw.values ++ expandTy fw f.h.t.values.table) := by
    rw [OHG.source_eq _ hytW.src_wf hytW.src_nodes]
    show Res.ok (Prim.gatherP fw.values (List.range fw.values.length ++ et.table)) = _
    rw [gatherP_append_idx, Prim.gatherP_range, hetg]; rfl
  have hyt_t : (⟨⟨List.range fw.values.length ++ et.table, fw.values.length⟩, ft,
      HG.discrete fw.values⟩ : OHG O2 A2).target = .ok (expandTy fw f.t.table) := by
    rw [OHG.target_eq _ hytW.tgt_wf hytW.tgt_nodes]
    show Res.ok (Prim.gatherP fw.values ft.table) = _
    rw [hftg]; rfl
  -- first composition
  obtain ⟨c1, hc1, hc1W, hc1s, hc1t, hc1x, hc1ss, hc1ts, hc1w⟩ :=
    (C05.compose_spec B hB _ ifx hsxW hifxW).1 (by rw [hsx_t, hifxs])
  -- second composition
  obtain ⟨c2, hc2, hc2W, hc2s, hc2t, hc2x, hc2ss, hc2ts, hc2w⟩ :=
    (C05.compose_spec B hB c1 _ hc1W hytW).1 (by rw [hc1t, hifxt, hyt_s])
  refine ⟨c2, ?_, hc2W, ?_, ?_, ?_, ?_, ?_, ?_⟩
  · unfold spiderMapArrow
    rw [hi, hfs, hes, hft, het]
    simp only [Res.ok_bind, ← hi']
    have e1 : FinFun.coproduct (⟨List.range fw.values.length, fw.values.length⟩ : FinFun) es =
        .ok ⟨List.range fw.values.length ++ es.table, fw.values.length⟩ := by
      simp [FinFun.coproduct, hest]
    have e2 : FinFun.coproduct (⟨List.range fw.values.length, fw.values.length⟩ : FinFun) et =
        .ok ⟨List.range fw.values.length ++ et.table, fw.values.length⟩ := by
      simp [FinFun.coproduct, hett]
    rw [e1, e2]
    simp only [Res.unwrap_ok, Res.ok_bind]
    rw [OHG.spider_eq, if_pos ⟨hfst, rfl⟩, OHG.spider_eq, if_pos ⟨rfl, hftt⟩]
    simp only [Res.unwrap_ok, Res.ok_bind]
    have ew : (HG.discrete fw.values : HG O2 A2).w = fw.values := rfl
    simp only [ew]
    rw [hi', hifx]
    simp only [Res.ok_bind]
    rw [hc1]
    simp only [Res.unwrap_ok, Res.ok_bind]
    rw [hc2]
    rfl
  · rw [hc2s, hc1s, hsx_s]
  · rw [hc2t, hyt_t]
  · rw [hc2x, hc1x, hifxx, ← hi']; simp [HG.discrete]
  · rw [hc2ss, hc1ss, hifx_eq, ← hi']
    simp [OHG.tensorR, HG.coproductR, IC.tensorR, HG.discrete, IC.initial, FinFun.initial]
  · rw [hc2ts, hc1ts, hifx_eq, ← hi']
    simp [OHG.tensorR, HG.coproductR, IC.tensorR, HG.discrete, IC.initial, FinFun.initial]
  · intro l hl
    have h2 := hc2w l hl
    have ew : (HG.discrete fw.values : HG O2 A2).w = fw.values := rfl
    rw [ew] at h2
    rcases List.mem_append.1 h2 with h2 | h2
    · have h1 := hc1w l h2
      rw [ew, hifxw, ← hi', ew] at h1
      simp only [List.mem_append] at h1
      rcases h1 with h1 | h1 | h1
      · exact Or.inl h1
      · exact Or.inl h1
      · exact Or.inr h1
    · exact Or.inl h2

end SFunctor

/-! ### lax diagrams: boundary types through `to_strict` and `tensor` -/

namespace LaxType
open LaxEdit LaxStrict

theorem filterMap_congr' {α β : Type} (l : List α) (f g : α → Option β)
    (h : ∀ a ∈ l, f a = g a) : l.filterMap f = l.filterMap g := by
  induction l with
  | nil => rfl
  | cons a l ih =>
    simp only [List.filterMap_cons, h a (by simp)]
    rw [ih (fun b hb => h b (by simp [hb]))]

/-- boundary types of a well-formed lax diagram -/
theorem source_ok (d : LOHG O A) (hwf : d.wf = true) :
    d.source = .ok (Prim.gatherP d.hypergraph.nodes d.sources) ∧
    d.target = .ok (Prim.gatherP d.hypergraph.nodes d.targets) := by
  have hw := (owf_iff d).1 hwf
  constructor
  · rw [LaxStrict.source_eq, if_pos hw.src]
  · rw [LaxStrict.target_eq, if_pos hw.tgt]

/-- `to_strict` of a well-formed, label-consistent lax diagram, for every lawful backend: defined,
    well-formed, same boundary types, same hyperedges (labels, arities, order), node labels among
    the old node labels. -/
theorem toStrict_type [DecidableEq O] (B : Backend) (hB : B.Lawful) (d : LOHG O A)
    (hwf : d.wf = true) (hc : C09.LabelConsistent d.hypergraph) :
    ∃ r, LOHG.toStrict B d = .ok r ∧ r.WF ∧ r.source = d.source ∧ r.target = d.target ∧
      r.h.x = d.hypergraph.edges ∧
      r.h.s.sources.table = d.hypergraph.adjacency.map (·.sources.length) ∧
      r.h.t.sources.table = d.hypergraph.adjacency.map (·.targets.length) ∧
      (∀ l ∈ r.h.w, l ∈ d.hypergraph.nodes) := by
  have hw := (owf_iff d).1 hwf
  have hhwf : d.hypergraph.wf = true := (LaxEdit.wf_iff _).2 hw.hg
  obtain ⟨q, h', hqH, hlen, htgt, hin, honto, _, hlab, hedges, hadj, _, _⟩ :=
    C09.quotient_ok B hB d.hypergraph hhwf hc
  obtain ⟨q2, h2, hqH2, hq2, hwf2⟩ := (C09.quotient_open B hB d hwf).1 hc
  rw [hqH] at hqH2
  injection hqH2 with hqH2
  injection hqH2 with _ hqH2
  injection hqH2 with e1 e2
  subst e1; subst e2
  have hts := toStrict_of_quotient B d _ q hq2 hwf2
  have hpW := (OHG.wf_iff _).1 (pack_wf _ hwf2)
  have hty : ∀ ids : List Nat, (∀ i ∈ ids, i < d.hypergraph.nodes.length) →
      Prim.gatherP h'.nodes (ids.map (fun i => q.table.getD i 0)) =
        Prim.gatherP d.hypergraph.nodes ids := by
    intro ids hids
    rw [gatherP_map_idx]
    exact filterMap_congr' _ _ _ (fun i hi => hlab i (hids i hi))
  refine ⟨_, hts, hpW, ?_, ?_, hedges, ?_, ?_, ?_⟩
  · rw [OHG.source_eq _ hpW.src_wf hpW.src_nodes, (source_ok d hwf).1]
    exact congrArg Res.ok (hty _ hw.src)
  · rw [OHG.target_eq _ hpW.tgt_wf hpW.tgt_nodes, (source_ok d hwf).2]
    exact congrArg Res.ok (hty _ hw.tgt)
  · show (h'.adjacency.map (·.sources)).map List.length = _
    rw [hadj]
    simp [C09.mapEdge, List.map_map, Function.comp_def]
  · show (h'.adjacency.map (·.targets)).map List.length = _
    rw [hadj]
    simp [C09.mapEdge, List.map_map, Function.comp_def]
  · intro l hl
    show l ∈ d.hypergraph.nodes
    have hl' : l ∈ h'.nodes := hl
    obtain ⟨c, hc'⟩ := List.mem_iff_getElem?.1 hl'
    have hcl : c < h'.nodes.length := (List.getElem?_eq_some_iff.1 hc').1
    obtain ⟨i, hi, hqi⟩ := honto c hcl
    have := hlab i hi
    have hgd : q.table.getD i 0 = c := by
      simp [List.getD_eq_getElem?_getD, hqi]
    rw [hgd, hc'] at this
    exact List.mem_of_getElem? this.symm

/-- boundary types of a lax tensor: concatenation -/
theorem tensor_type (f g : LOHG O A) (hf : f.wf = true) (hg : g.wf = true) :
    (LOHG.tensor f g).wf = true ∧
    (LOHG.tensor f g).source =
      .ok (Prim.gatherP f.hypergraph.nodes f.sources ++ Prim.gatherP g.hypergraph.nodes g.sources) ∧
    (LOHG.tensor f g).target =
      .ok (Prim.gatherP f.hypergraph.nodes f.targets ++ Prim.gatherP g.hypergraph.nodes g.targets) := by
  have hwf := LaxStrict.tensor_wf f g hf hg
  have hfw := (owf_iff f).1 hf
  have key : ∀ fs gs : List Nat, (∀ i ∈ fs, i < f.hypergraph.nodes.length) →
      Prim.gatherP (f.hypergraph.nodes ++ g.hypergraph.nodes)
        (fs ++ gs.map (· + f.hypergraph.nodes.length)) =
      Prim.gatherP f.hypergraph.nodes fs ++ Prim.gatherP g.hypergraph.nodes gs := by
    intro fs gs hfs
    have e : (fun x => x + f.hypergraph.nodes.length) = (fun x => f.hypergraph.nodes.length + x) :=
      funext fun x => Nat.add_comm _ _
    rw [gatherP_append_idx, gatherP_append_left _ _ _ hfs, e, gatherP_append_right]
  refine ⟨hwf, ?_, ?_⟩
  · rw [(source_ok _ hwf).1]
    exact congrArg Res.ok (key _ _ hfw.src)
  · rw [(source_ok _ hwf).2]
    exact congrArg Res.ok (key _ _ hfw.tgt)

/-- a recorded pair of a coproduct comes from one of the two summands -/
theorem pairs_coproduct (g h : LHG O A) (hg : WF g) {a b : Nat}
    (hp : C09.Pairs (LHG.coproduct g h) a b) :
    C09.Pairs g a b ∨ ∃ a' b', a = a' + g.nodes.length ∧ b = b' + g.nodes.length ∧
      C09.Pairs h a' b' := by
  obtain ⟨k, h1, h2⟩ := hp
  simp only [LHG.coproduct] at h1 h2
  by_cases hk : k < g.quotient.1.length
  · left
    rw [List.getElem?_append_left hk] at h1
    rw [List.getElem?_append_left (by rw [← hg.qlen]; exact hk)] at h2
    exact ⟨k, h1, h2⟩
  · right
    have hk' : g.quotient.1.length ≤ k := Nat.le_of_not_lt hk
    rw [List.getElem?_append_right hk'] at h1
    rw [List.getElem?_append_right (by rw [← hg.qlen]; exact hk')] at h2
    simp only [List.getElem?_map, Option.map_eq_some_iff] at h1 h2
    obtain ⟨a', ha', rfl⟩ := h1
    obtain ⟨b', hb', rfl⟩ := h2
    refine ⟨a', b', rfl, rfl, k - g.quotient.1.length, ha', ?_⟩
    rw [hg.qlen]; exact hb'

/-- the classes of a coproduct stay inside the summands -/
theorem eqvGen_coproduct (g h : LHG O A) (hg : WF g) {i j : Nat}
    (he : Relation.EqvGen (C09.Pairs (LHG.coproduct g h)) i j) :
    i = j ∨ (i < g.nodes.length ∧ j < g.nodes.length ∧ Relation.EqvGen (C09.Pairs g) i j) ∨
      (g.nodes.length ≤ i ∧ g.nodes.length ≤ j ∧
        Relation.EqvGen (C09.Pairs h) (i - g.nodes.length) (j - g.nodes.length)) := by
  induction he with
  | rel a b hab =>
    rcases pairs_coproduct g h hg hab with hp | ⟨a', b', rfl, rfl, hp⟩
    · obtain ⟨h1, h2⟩ := C09.pairs_lt g hg hp
      exact Or.inr (Or.inl ⟨h1, h2, Relation.EqvGen.rel _ _ hp⟩)
    · refine Or.inr (Or.inr ⟨Nat.le_add_left _ _, Nat.le_add_left _ _, ?_⟩)
      simp only [Nat.add_sub_cancel]
      exact Relation.EqvGen.rel _ _ hp
  | refl a => exact Or.inl rfl
  | symm a b _ ih =>
    rcases ih with ih | ⟨h1, h2, h3⟩ | ⟨h1, h2, h3⟩
    · exact Or.inl ih.symm
    · exact Or.inr (Or.inl ⟨h2, h1, h3.symm _ _⟩)
    · exact Or.inr (Or.inr ⟨h2, h1, h3.symm _ _⟩)
  | trans a b c _ _ ih1 ih2 =>
    rcases ih1 with ih1 | ⟨h1, h2, h3⟩ | ⟨h1, h2, h3⟩
    · subst ih1; exact ih2
    · rcases ih2 with ih2 | ⟨k1, k2, k3⟩ | ⟨k1, k2, k3⟩
      · subst ih2; exact Or.inr (Or.inl ⟨h1, h2, h3⟩)
      · exact Or.inr (Or.inl ⟨h1, k2, h3.trans _ _ _ k3⟩)
      · omega
    · rcases ih2 with ih2 | ⟨k1, k2, k3⟩ | ⟨k1, k2, k3⟩
      · subst ih2; exact Or.inr (Or.inr ⟨h1, h2, h3⟩)
      · omega
      · exact Or.inr (Or.inr ⟨h1, k2, h3.trans _ _ _ k3⟩)

/-- label consistency is preserved by the coproduct -/
theorem labelConsistent_coproduct (g h : LHG O A) (hg : WF g) (cg : C09.LabelConsistent g)
    (ch : C09.LabelConsistent h) : C09.LabelConsistent (LHG.coproduct g h) := by
  intro i j he
  show (g.nodes ++ h.nodes)[i]? = (g.nodes ++ h.nodes)[j]?
  rcases eqvGen_coproduct g h hg he with e | ⟨h1, h2, h3⟩ | ⟨h1, h2, h3⟩
  · rw [e]
  · rw [List.getElem?_append_left h1, List.getElem?_append_left h2]
    exact cg i j h3
  · rw [List.getElem?_append_right h1, List.getElem?_append_right h2]
    exact ch _ _ h3

/-- no pending unification: trivially label-consistent -/
theorem labelConsistent_of_nopending (h : LHG O A) (hq : h.quotient = ([], [])) :
    C09.LabelConsistent h := by
  intro i j he
  rw [C09.eqvGen_nopairs h hq he]

theorem labelConsistent_empty : C09.LabelConsistent (LHG.empty : LHG O A) := by
  intro i j _
  simp [LHG.empty]

/-- left-nested tensor of a list of lax diagrams onto `acc` (what the `tensor_assign` loop of
    `DynFunctor::map_operations` computes) -/
def tensorAll (acc : LOHG O A) (ds : List (LOHG O A)) : LOHG O A := ds.foldl LOHG.tensor acc

/-- the boundary type of a well-formed lax diagram as a list -/
def srcTy (d : LOHG O A) : List O := Prim.gatherP d.hypergraph.nodes d.sources
def tgtTy (d : LOHG O A) : List O := Prim.gatherP d.hypergraph.nodes d.targets

theorem tensorAll_spec (ds : List (LOHG O A)) :
    ∀ (acc : LOHG O A), acc.wf = true → C09.LabelConsistent acc.hypergraph →
    (∀ d ∈ ds, d.wf = true ∧ C09.LabelConsistent d.hypergraph) →
    (tensorAll acc ds).wf = true ∧ C09.LabelConsistent (tensorAll acc ds).hypergraph ∧
    srcTy (tensorAll acc ds) = srcTy acc ++ ds.flatMap srcTy ∧
    tgtTy (tensorAll acc ds) = tgtTy acc ++ ds.flatMap tgtTy ∧
    (tensorAll acc ds).hypergraph.edges =
      acc.hypergraph.edges ++ ds.flatMap (·.hypergraph.edges) ∧
    (tensorAll acc ds).hypergraph.adjacency.map (·.sources.length) =
      acc.hypergraph.adjacency.map (·.sources.length) ++
        ds.flatMap (·.hypergraph.adjacency.map (·.sources.length)) ∧
    (tensorAll acc ds).hypergraph.adjacency.map (·.targets.length) =
      acc.hypergraph.adjacency.map (·.targets.length) ++
        ds.flatMap (·.hypergraph.adjacency.map (·.targets.length)) ∧
    (tensorAll acc ds).hypergraph.nodes =
      acc.hypergraph.nodes ++ ds.flatMap (·.hypergraph.nodes) := by
  induction ds with
  | nil =>
    intro acc hacc cacc _
    simp [tensorAll, hacc, cacc]
  | cons d ds ih =>
    intro acc hacc cacc hds
    obtain ⟨hd, cd⟩ := hds d (by simp)
    obtain ⟨hw, hs, ht⟩ := tensor_type acc d hacc hd
    have hc : C09.LabelConsistent (LOHG.tensor acc d).hypergraph :=
      labelConsistent_coproduct _ _ ((owf_iff acc).1 hacc).hg cacc cd
    obtain ⟨i1, i2, i3, i4, i5, i6, i7, i8⟩ :=
      ih (LOHG.tensor acc d) hw hc (fun d' hd' => hds d' (by simp [hd']))
    have es : srcTy (LOHG.tensor acc d) = srcTy acc ++ srcTy d := by
      have := (source_ok _ hw).1
      rw [hs] at this
      injection this with this
      exact this.symm
    have et : tgtTy (LOHG.tensor acc d) = tgtTy acc ++ tgtTy d := by
      have := (source_ok _ hw).2
      rw [ht] at this
      injection this with this
      exact this.symm
    have e0 : tensorAll acc (d :: ds) = tensorAll (LOHG.tensor acc d) ds := rfl
    rw [e0]
    refine ⟨i1, i2, ?_, ?_, ?_, ?_, ?_, ?_⟩
    · rw [i3, es]; simp
    · rw [i4, et]; simp
    · rw [i5]; simp [LOHG.tensor, LHG.coproduct]
    · rw [i6]; simp [LOHG.tensor, LHG.coproduct, List.map_map, Function.comp_def]
    · rw [i7]; simp [LOHG.tensor, LHG.coproduct, List.map_map, Function.comp_def]
    · rw [i8]; simp [LOHG.tensor, LHG.coproduct]

/-- the `tensor_assign` loop of `DynFunctor::map_operations`, when every generator image is
    defined -/
theorem foldlM_tensorAssign {O1 A1 O2 A2 : Type} (G : LFunctor O1 A1 O2 A2)
    (img : A1 → List O1 → List O1 → LOHG O2 A2) (triples : List (A1 × List O1 × List O1)) :
    ∀ acc : LOHG O2 A2,
    (∀ t ∈ triples, G.mapOperation t.1 t.2.1 t.2.2 = .ok (img t.1 t.2.1 t.2.2)) →
    triples.foldlM (fun acc t => do
        let im ← G.mapOperation t.1 t.2.1 t.2.2
        pure (LOHG.tensorAssign acc im)) acc =
      .ok (tensorAll acc (triples.map (fun t => img t.1 t.2.1 t.2.2))) := by
  induction triples with
  | nil => intro acc _; rfl
  | cons t ts ih =>
    intro acc h
    rw [List.foldlM_cons, h t (by simp)]
    exact ih _ (fun t' ht' => h t' (by simp [ht']))

end LaxType
end OH
