/-
  The level-synchronous Kahn algorithm `OH.Graph.kahn` computes longest-chain depth and flags
  exactly the nodes on or downstream of a cycle, and never panics, for every lawful backend.

  Supporting files: `KahnRel` (pure theory of `ChainTo`/`HasDepth`/`OnOrAfterCycle`),
  `KahnSegs` (segments, `indexedValues`, `indegree`, `sparseRelativeIndegree`),
  `KahnStep` (array-level description of one round, remaining-indegree bookkeeping).
-/
import OHVerif.Lemmas.KahnRel
import OHVerif.Lemmas.KahnStep

namespace OH.Graph
open OH OH.Prim OH.Kahn Relation

/-- well-formed adjacency on n = adj.len nodes -/
def AdjWF (adj : IC FinFun) : Prop := adj.wf = true ∧ adj.values.target = adj.len
/-- y is a successor of x -/
def adjDep (adj : IC FinFun) (x y : Nat) : Prop := ∃ seg, adj.segs[x]? = some seg ∧ y ∈ seg

/-! ### the dependency relation of an adjacency -/

theorem adjDep_lt_left {adj : IC FinFun} {x y : Nat} (h : adjDep adj x y) : x < adj.len := by
  obtain ⟨seg, hs, _⟩ := h
  rw [← segs_length adj]
  exact (List.getElem?_eq_some_iff.mp hs).1

theorem adjDep_lt_right {adj : IC FinFun} (hw : AdjWF adj) {x y : Nat} (h : adjDep adj x y) :
    y < adj.len := by
  obtain ⟨seg, hs, hy⟩ := h
  rw [← hw.2]
  exact segs_lt adj hw.1 seg (List.mem_of_getElem? hs) y hy

/-- `indexedValues` of an adjacency along a frontier is the concatenation of the frontier's
    successor lists -/
theorem indexedValues_frontier (adj : IC FinFun) (hw : AdjWF adj) (fr : List Nat)
    (hlt : ∀ x ∈ fr, x < adj.len) :
    IC.indexedValues adj ⟨fr, adj.len⟩ =
      .ok ⟨fr.flatMap (fun x => adj.segs.getD x []), adj.values.target⟩ :=
  indexedValues_eq adj hw.1 ⟨fr, adj.len⟩ hlt rfl

theorem mem_reached_iff (adj : IC FinFun) (fr : List Nat) (y : Nat) :
    y ∈ reached adj fr ↔ ∃ x ∈ fr, adjDep adj x y :=
  mem_reached adj fr y

theorem mem_values_iff (adj : IC FinFun) (hw : AdjWF adj) (y : Nat) :
    y ∈ adj.values.table ↔ ∃ x, adjDep adj x y := by
  rw [← segs_flatten adj hw.1, List.mem_flatten]
  constructor
  · rintro ⟨seg, hs, hy⟩
    obtain ⟨x, hx⟩ := List.getElem?_of_mem hs
    exact ⟨x, seg, hx, hy⟩
  · rintro ⟨x, seg, hx, hy⟩
    exact ⟨seg, List.mem_of_getElem? hx, hy⟩

/-- the dense indegree: never panics, entry `y` is the number of occurrences of `y` among all
    successor entries -/
theorem indegree_spec (adj : IC FinFun) (hw : AdjWF adj) :
    ∃ f, indegree adj = .ok f ∧ f.target = adj.values.source + 1 ∧ f.table.length = adj.len ∧
      ∀ y, y < adj.len → f.table[y]? = some (adj.values.table.count y) :=
  ⟨_, indegree_eq adj hw.1 hw.2, rfl, by simp, fun y hy => bincount_getElem? _ _ y hy⟩

/-- the sparse relative indegree along a duplicate-free frontier, for a lawful backend:
    never panics; the keys are the distinct reached nodes, the counts their multiplicities -/
theorem sparseRelativeIndegree_spec (B : Backend) (hB : B.Lawful) (adj : IC FinFun)
    (hw : AdjWF adj) (fr : List Nat) (hnd : fr.Nodup) (hlt : ∀ x ∈ fr, x < adj.len) :
    ∃ keys counts, sparseRelativeIndegree B adj ⟨fr, adj.len⟩ =
        .ok (⟨keys, adj.len⟩, ⟨counts, adj.values.source + 1⟩) ∧
      keys.Nodup ∧ counts.length = keys.length ∧
      (∀ y, y ∈ keys ↔ ∃ x ∈ fr, adjDep adj x y) ∧
      (∀ (k y : Nat), keys[k]? = some y → counts[k]? = some ((reached adj fr).count y)) ∧
      (∀ y ∈ keys, y < adj.len) ∧ (∀ c ∈ counts, c ≤ adj.values.source) := by
  refine ⟨_, _, sparseRelativeIndegree_eq B hB adj hw.1 hw.2 fr hnd hlt, hB.sb_nodup _,
    hB.sb_length _, ?_, hB.sb_count _, ?_, ?_⟩
  · intro y
    rw [hB.sb_mem]
    exact mem_reached adj fr y
  · intro y hy
    rw [hB.sb_mem] at hy
    rw [← hw.2]
    exact reached_lt adj hw.1 fr y hy
  · intro c hc
    obtain ⟨k, hk, rfl⟩ := List.getElem_of_mem hc
    have hk' : k < (B.sparseBincount (reached adj fr)).1.length := by
      rw [← hB.sb_length]; exact hk
    have := hB.sb_count (reached adj fr) k _ (List.getElem?_eq_getElem hk')
    have h2 : (B.sparseBincount (reached adj fr)).2[k]? = some (B.sparseBincount (reached adj fr)).2[k] :=
      List.getElem?_eq_getElem hk
    rw [h2] at this
    injection this with this
    show (B.sparseBincount (reached adj fr)).2[k] ≤ _
    rw [this]
    exact Nat.le_trans List.count_le_length (reached_length_le adj hw.1 fr hnd hlt)

/-! ### the loop invariant -/

/-- invariant before round `k = st.depth` -/
structure Inv (adj : IC FinFun) (st : KahnState) : Prop where
  lenO : st.order.length = adj.len
  lenU : st.unvisited.length = adj.len
  lenI : st.indegree.length = adj.len
  /-- the frontier lists, without repetition, exactly the nodes of depth `k` -/
  nodup : st.frontier.Nodup
  front : ∀ y, y ∈ st.frontier ↔ y < adj.len ∧ HasDepth (adjDep adj) y st.depth
  /-- nodes of depth `j < k` are visited and carry their depth -/
  visited : ∀ y j, y < adj.len → j < st.depth → HasDepth (adjDep adj) y j →
    st.unvisited[y]? = some 0 ∧ st.order[y]? = some j
  /-- all other nodes are unvisited with order `0` -/
  unvisited : ∀ y, y < adj.len → (¬ ∃ j, j < st.depth ∧ HasDepth (adjDep adj) y j) →
    st.unvisited[y]? = some 1 ∧ st.order[y]? = some 0
  /-- the indegree counts the entries `y` in the successor lists of the unvisited nodes -/
  indeg : ∀ y, y < adj.len → st.indegree[y]? = some (remDeg adj.segs st.unvisited y)

theorem Inv.unv_le {adj : IC FinFun} {st : KahnState} (inv : Inv adj st) :
    ∀ u ∈ st.unvisited, u ≤ 1 := by
  intro u hu
  obtain ⟨y, hy, rfl⟩ := List.getElem_of_mem hu
  have hy' : y < adj.len := by rw [← inv.lenU]; exact hy
  have hget : st.unvisited[y]? = some st.unvisited[y] := List.getElem?_eq_getElem hy
  by_cases hd : ∃ j, j < st.depth ∧ HasDepth (adjDep adj) y j
  · obtain ⟨j, hj, hd⟩ := hd
    have := (inv.visited y j hy' hj hd).1
    rw [hget] at this; injection this with this; omega
  · have := (inv.unvisited y hy' hd).1
    rw [hget] at this; injection this with this; omega

theorem Inv.frontier_unv {adj : IC FinFun} {st : KahnState} (inv : Inv adj st) :
    ∀ x ∈ st.frontier, ∃ u, st.unvisited[x]? = some u ∧ u ≠ 0 := by
  intro x hx
  obtain ⟨hxn, hxd⟩ := (inv.front x).mp hx
  refine ⟨1, (inv.unvisited x hxn ?_).1, by omega⟩
  rintro ⟨j, hj, hd⟩
  have := hasDepth_unique hd hxd
  omega

/-- the initial state satisfies the invariant -/
theorem inv_init (adj : IC FinFun) (hw : AdjWF adj) :
    Inv adj ⟨List.replicate adj.len 0, List.replicate adj.len 1,
      (List.range adj.len).map (fun y => adj.values.table.count y),
      zero ((List.range adj.len).map (fun y => adj.values.table.count y)), 0⟩ where
  lenO := by simp
  lenU := by simp
  lenI := by simp
  nodup := (zero_pairwise _).imp (fun h => Nat.ne_of_lt h)
  front := by
    intro y
    simp only
    rw [mem_zero, hasDepth_zero_iff, ← mem_values_iff adj hw, ← List.count_eq_zero]
    constructor
    · intro h
      have hy : y < adj.len := by
        have := (List.getElem?_eq_some_iff.mp h).1
        simpa using this
      rw [bincount_getElem? _ _ y hy] at h
      injection h with h
      exact ⟨hy, h⟩
    · rintro ⟨hy, h⟩
      rw [bincount_getElem? _ _ y hy, h]
  visited := by intro y j _ hj; simp at hj
  unvisited := by
    intro y hy _
    simp [hy]
  indeg := by
    intro y hy
    simp only
    rw [bincount_getElem? _ _ y hy, ← segs_length adj, remDeg_replicate, segs_flatten adj hw.1]

/-- one round preserves the invariant and does not panic -/
theorem inv_step (B : Backend) (hB : B.Lawful) (adj : IC FinFun) (hw : AdjWF adj)
    (st : KahnState) (inv : Inv adj st) :
    ∃ st', kahnStep B adj st = .ok st' ∧ Inv adj st' ∧ st'.depth = st.depth + 1 := by
  have hfr_lt : ∀ x ∈ st.frontier, x < adj.len := fun x hx => ((inv.front x).mp hx).1
  have hfr_lt' : ∀ x ∈ st.frontier, x < adj.segs.length := by rw [segs_length]; exact hfr_lt
  have hrem : ∀ y, remDeg adj.segs (writeAll st.unvisited (st.frontier.map (fun i => (i, 0)))) y +
      (reached adj st.frontier).count y = remDeg adj.segs st.unvisited y :=
    fun y => remDeg_writeAll adj.segs st.unvisited st.frontier y inv.nodup hfr_lt' inv.frontier_unv
  have hdeg : ∀ (y v : Nat), st.indegree[y]? = some v → (reached adj st.frontier).count y ≤ v := by
    intro y v hv
    have hy : y < adj.len := by
      rw [← inv.lenI]; exact (List.getElem?_eq_some_iff.mp hv).1
    rw [inv.indeg y hy] at hv
    injection hv with hv
    have := hrem y
    omega
  obtain ⟨indeg', fr', hstep, hlen', hindeg', hnd', hfr'⟩ :=
    kahnStep_eq B hB adj hw.1 hw.2 st inv.lenU inv.lenO inv.lenI inv.nodup hfr_lt hdeg inv.unv_le
  generalize hunv' : writeAll st.unvisited (st.frontier.map (fun i => (i, 0))) = unv'
    at hstep hfr' hrem
  generalize hord' : writeAll st.order (st.frontier.map (fun i => (i, st.depth))) = ord' at hstep
  have hunv'_get : ∀ k, unv'[k]? = if k ∈ st.frontier then some 0 else st.unvisited[k]? := by
    intro k; rw [← hunv']
    exact writeAll_const_getElem? st.unvisited st.frontier 0 (by rw [inv.lenU]; exact hfr_lt) k
  have hord'_get : ∀ k, ord'[k]? = if k ∈ st.frontier then some st.depth else st.order[k]? := by
    intro k; rw [← hord']
    exact writeAll_const_getElem? st.order st.frontier st.depth (by rw [inv.lenO]; exact hfr_lt) k
  -- visited / unvisited at depth + 1
  have hvis : ∀ y j, y < adj.len → j < st.depth + 1 → HasDepth (adjDep adj) y j →
      unv'[y]? = some 0 ∧ ord'[y]? = some j := by
    intro y j hy hj hd
    rw [hunv'_get, hord'_get]
    by_cases hjk : j < st.depth
    · have hnf : y ∉ st.frontier := by
        intro hm
        have := hasDepth_unique hd ((inv.front y).mp hm).2
        omega
      rw [if_neg hnf, if_neg hnf]
      exact inv.visited y j hy hjk hd
    · have hjeq : j = st.depth := by omega
      subst hjeq
      have hf : y ∈ st.frontier := (inv.front y).mpr ⟨hy, hd⟩
      rw [if_pos hf, if_pos hf]
      exact ⟨rfl, rfl⟩
  have hunvis : ∀ y, y < adj.len → (¬ ∃ j, j < st.depth + 1 ∧ HasDepth (adjDep adj) y j) →
      unv'[y]? = some 1 ∧ ord'[y]? = some 0 := by
    intro y hy hno
    have hnf : y ∉ st.frontier := by
      intro hm
      exact hno ⟨st.depth, Nat.lt_succ_self _, ((inv.front y).mp hm).2⟩
    rw [hunv'_get, hord'_get, if_neg hnf, if_neg hnf]
    apply inv.unvisited y hy
    rintro ⟨j, hj, hd⟩
    exact hno ⟨j, Nat.lt_succ_of_lt hj, hd⟩
  have hunv'_len : unv'.length = adj.len := by rw [← hunv', Prim.writeAll_length, inv.lenU]
  have hind : ∀ y, y < adj.len → indeg'[y]? = some (remDeg adj.segs unv' y) := by
    intro y hy
    rw [hindeg' y _ (inv.indeg y hy)]
    have := hrem y
    congr 1; omega
  refine ⟨_, hstep, ?_, rfl⟩
  refine ⟨by rw [← hord', Prim.writeAll_length, inv.lenO], hunv'_len, hlen', hnd', ?_, hvis,
    hunvis, hind⟩
  -- the new frontier
  intro y
  show y ∈ fr' ↔ y < adj.len ∧ HasDepth (adjDep adj) y (st.depth + 1)
  rw [hfr', mem_reached_iff, hasDepth_succ_iff]
  constructor
  · rintro ⟨⟨x, hxf, hxy⟩, h0, h1⟩
    have hy : y < adj.len := adjDep_lt_right hw hxy
    refine ⟨hy, ⟨x, hxy, ((inv.front x).mp hxf).2⟩, ?_⟩
    intro x' hx'y
    have hx' : x' < adj.len := adjDep_lt_left hx'y
    rw [hind y hy] at h0
    injection h0 with h0
    rw [remDeg_eq_zero_iff _ _ _ (by rw [hunv'_len, segs_length])] at h0
    by_contra hno
    have hno' : ¬ ∃ j, j < st.depth + 1 ∧ HasDepth (adjDep adj) x' j := by
      rintro ⟨j, hj, hd⟩
      exact hno ⟨j, by omega, hd⟩
    obtain ⟨seg, hs, hys⟩ := hx'y
    exact h0 x' 1 seg (hunvis x' hx' hno').1 hs (by omega) hys
  · rintro ⟨hy, ⟨x, hxy, hxd⟩, hall⟩
    have hx : x < adj.len := adjDep_lt_left hxy
    refine ⟨⟨x, (inv.front x).mpr ⟨hx, hxd⟩, hxy⟩, ?_, ?_⟩
    · rw [hind y hy]
      congr 1
      rw [remDeg_eq_zero_iff _ _ _ (by rw [hunv'_len, segs_length])]
      intro x' u seg hu hs hne hys
      have hx'y : adjDep adj x' y := ⟨seg, hs, hys⟩
      obtain ⟨j, hj, hd⟩ := hall x' hx'y
      have := (hvis x' j (adjDep_lt_left hx'y) (by omega) hd).1
      rw [hu] at this
      injection this with this
      exact hne this
    · apply (hunvis y hy _).1
      rintro ⟨j, hj, hd⟩
      have := hasDepth_unique hd (hasDepth_succ_iff.mpr ⟨⟨x, hxy, hxd⟩, hall⟩)
      omega

/-- a non-empty frontier at round `k` forces `k < n`: the guard `depth ≤ n` is never the reason
    to leave the loop -/
theorem Inv.depth_lt {adj : IC FinFun} {st : KahnState} (inv : Inv adj st)
    (hne : st.frontier ≠ []) : st.depth < adj.len := by
  obtain ⟨y, hy⟩ := List.exists_mem_of_ne_nil _ hne
  obtain ⟨hyn, hyd⟩ := (inv.front y).mp hy
  exact hasDepth_lt (fun x z h => adjDep_lt_left h) hyn hyd

/-- the loop runs until the frontier is empty, keeping the invariant -/
theorem kahnLoop_spec (B : Backend) (hB : B.Lawful) (adj : IC FinFun) (hw : AdjWF adj) :
    ∀ (fuel : Nat) (st : KahnState), Inv adj st → adj.len + 2 ≤ fuel + st.depth →
      ∃ st', kahnLoop B adj fuel st = .ok st' ∧ Inv adj st' ∧ st'.frontier = [] := by
  intro fuel
  induction fuel with
  | zero =>
    intro st inv hfuel
    refine ⟨st, rfl, inv, ?_⟩
    by_contra hne
    have := inv.depth_lt hne
    omega
  | succ fuel ih =>
    intro st inv hfuel
    by_cases hne : st.frontier = []
    · refine ⟨st, ?_, inv, hne⟩
      unfold kahnLoop
      rw [if_pos (Or.inl (by simp [hne]))]
    · have hlt := inv.depth_lt hne
      obtain ⟨st1, hstep, inv1, hd1⟩ := inv_step B hB adj hw st inv
      obtain ⟨st', hloop, inv', hfr'⟩ := ih st1 inv1 (by omega)
      refine ⟨st', ?_, inv', hfr'⟩
      unfold kahnLoop
      rw [if_neg, hstep]
      · exact hloop
      · rintro (h | h)
        · exact hne (by simpa using h)
        · omega

/-- exit lemma: with an empty frontier every depth is below the round counter -/
theorem Inv.exit {adj : IC FinFun} {st : KahnState} (inv : Inv adj st) (hfr : st.frontier = [])
    {y j : Nat} (hy : y < adj.len) (hd : HasDepth (adjDep adj) y j) : j < st.depth := by
  by_contra hge
  obtain ⟨x, hxd, hx⟩ := hasDepth_downward hd (Nat.le_of_not_lt hge)
  have hxn : x < adj.len := by
    rcases hx with rfl | ⟨z, hz⟩
    · exact hy
    · exact adjDep_lt_left hz
  have : x ∈ st.frontier := (inv.front x).mpr ⟨hxn, hxd⟩
  rw [hfr] at this
  simp at this

/-- what the final state says about a node -/
theorem Inv.final {adj : IC FinFun} {st : KahnState} (inv : Inv adj st) (hfr : st.frontier = [])
    {y : Nat} (hy : y < adj.len) :
    (st.unvisited[y]? = some 1 ↔ OnOrAfterCycle (adjDep adj) y) ∧
    (st.unvisited[y]? = some 0 ↔ ¬ OnOrAfterCycle (adjDep adj) y) ∧
    (st.unvisited[y]? = some 0 → ∃ k, st.order[y]? = some k ∧ HasDepth (adjDep adj) y k) ∧
    (st.unvisited[y]? = some 1 → st.order[y]? = some 0) := by
  have hiff := exists_hasDepth_iff (dep := adjDep adj) (n := adj.len)
    (fun x z h => adjDep_lt_left h) hy
  by_cases hd : ∃ j, HasDepth (adjDep adj) y j
  · obtain ⟨j, hd⟩ := hd
    have hj := inv.exit hfr hy hd
    obtain ⟨hu, ho⟩ := inv.visited y j hy hj hd
    have hnc : ¬ OnOrAfterCycle (adjDep adj) y := hiff.mp ⟨j, hd⟩
    rw [hu]
    refine ⟨⟨fun h => by simp at h, fun h => absurd h hnc⟩, ⟨fun _ => hnc, fun _ => rfl⟩,
      fun _ => ⟨j, ho, hd⟩, fun h => by simp at h⟩
  · have hc : OnOrAfterCycle (adjDep adj) y := by
      by_contra hnc
      exact hd (hiff.mpr hnc)
    obtain ⟨hu, ho⟩ := inv.unvisited y hy (fun ⟨j, _, h⟩ => hd ⟨j, h⟩)
    rw [hu]
    refine ⟨⟨fun _ => hc, fun _ => rfl⟩, ⟨fun h => by simp at h, fun h => absurd hc h⟩,
      fun h => by simp at h, fun _ => ho⟩

/-- `kahn` never panics and returns the final state of the loop, which satisfies the invariant
    and has an empty frontier -/
theorem kahn_ok (B : Backend) (hB : B.Lawful) (adj : IC FinFun) (h : AdjWF adj) :
    ∃ st, kahn B adj = .ok (st.order, st.unvisited) ∧ Inv adj st ∧ st.frontier = [] := by
  obtain ⟨st, hloop, inv, hfr⟩ := kahnLoop_spec B hB adj h (adj.len + 2) _ (inv_init adj h)
    (Nat.le_add_right _ _)
  refine ⟨st, ?_, inv, hfr⟩
  unfold kahn
  rw [indegree_eq adj h.1 h.2]
  simp only [Res.ok_bind]
  rw [hloop]
  rfl

/-- **Kahn layering.**  For every lawful backend and every well-formed adjacency, `kahn` returns
    (never panics); `unvisited` flags exactly the nodes on or downstream of a cycle; every other
    node is assigned its longest-chain depth; flagged nodes keep order `0`. -/
theorem kahn_spec (B : Backend) (hB : B.Lawful) (adj : IC FinFun) (h : AdjWF adj) :
    ∃ order unv, kahn B adj = .ok (order, unv) ∧ order.length = adj.len ∧ unv.length = adj.len ∧
      ∀ y, y < adj.len →
        (unv[y]? = some 1 ↔ OnOrAfterCycle (adjDep adj) y) ∧
        (unv[y]? = some 0 ↔ ¬ OnOrAfterCycle (adjDep adj) y) ∧
        (unv[y]? = some 0 → ∃ k, order[y]? = some k ∧ HasDepth (adjDep adj) y k) ∧
        (unv[y]? = some 1 → order[y]? = some 0) := by
  obtain ⟨st, hk, inv, hfr⟩ := kahn_ok B hB adj h
  exact ⟨st.order, st.unvisited, hk, inv.lenO, inv.lenU, fun y hy => inv.final hfr hy⟩

/-- the depth reported for a visited node is below the number of nodes -/
theorem kahn_order_lt (B : Backend) (hB : B.Lawful) (adj : IC FinFun) (h : AdjWF adj) :
    ∃ order unv, kahn B adj = .ok (order, unv) ∧ ∀ k ∈ order, k < adj.len := by
  obtain ⟨st, hk, inv, hfr⟩ := kahn_ok B hB adj h
  refine ⟨st.order, st.unvisited, hk, ?_⟩
  intro k hk
  obtain ⟨y, hy, rfl⟩ := List.getElem_of_mem hk
  have hy' : y < adj.len := by rw [← inv.lenO]; exact hy
  have hget : st.order[y]? = some st.order[y] := List.getElem?_eq_getElem hy
  by_cases hd : ∃ j, j < st.depth ∧ HasDepth (adjDep adj) y j
  · obtain ⟨j, hj, hd⟩ := hd
    have := (inv.visited y j hy' hj hd).2
    rw [hget] at this; injection this with this
    rw [this]
    exact hasDepth_lt (fun x z h => adjDep_lt_left h) hy' hd
  · have := (inv.unvisited y hy' hd).2
    rw [hget] at this; injection this with this
    omega

/-- the Vec backend instance -/
theorem kahn_spec_vec (adj : IC FinFun) (h : AdjWF adj) :
    ∃ order unv, kahn vecBackend adj = .ok (order, unv) ∧ order.length = adj.len ∧
      unv.length = adj.len ∧
      ∀ y, y < adj.len →
        (unv[y]? = some 1 ↔ OnOrAfterCycle (adjDep adj) y) ∧
        (unv[y]? = some 0 ↔ ¬ OnOrAfterCycle (adjDep adj) y) ∧
        (unv[y]? = some 0 → ∃ k, order[y]? = some k ∧ HasDepth (adjDep adj) y k) ∧
        (unv[y]? = some 1 → order[y]? = some 0) :=
  kahn_spec vecBackend vecBackend_lawful adj h

end OH.Graph
