/-
  Pure relation theory about `ChainTo`, `HasDepth` and `OnOrAfterCycle`
  (vocabulary of `OHVerif.Spec.Diagram`).
-/
import Mathlib.Logic.Relation
import Mathlib.Data.List.Nodup
import Mathlib.Data.List.Range
import Mathlib.Data.List.Perm.Subperm
import OHVerif.Spec.Diagram

namespace OH.Kahn
open OH Relation

variable {dep : Nat → Nat → Prop}

theorem chainTo_succ_iff {y k : Nat} : ChainTo dep y (k + 1) ↔ ∃ x, dep x y ∧ ChainTo dep x k := by
  constructor
  · intro h
    cases h with
    | snoc x _ _ hx hxy => exact ⟨x, hxy, hx⟩
  · rintro ⟨x, hxy, hx⟩
    exact ChainTo.snoc x y k hx hxy

theorem chainTo_pred {y k : Nat} (h : ChainTo dep y (k + 1)) : ChainTo dep y k := by
  induction k generalizing y with
  | zero => exact ChainTo.nil y
  | succ k ih =>
    obtain ⟨x, hxy, hx⟩ := chainTo_succ_iff.mp h
    exact ChainTo.snoc x y k (ih hx) hxy

theorem chainTo_mono {y j k : Nat} (hjk : j ≤ k) (h : ChainTo dep y k) : ChainTo dep y j := by
  induction hjk with
  | refl => exact h
  | step _ ih => exact ih (chainTo_pred h)

theorem hasDepth_unique {y j k : Nat} (hj : HasDepth dep y j) (hk : HasDepth dep y k) : j = k := by
  rcases Nat.lt_trichotomy j k with hlt | heq | hgt
  · exact absurd (chainTo_mono hlt hk.1) hj.2
  · exact heq
  · exact absurd (chainTo_mono hgt hj.1) hk.2

theorem hasDepth_zero_iff {y : Nat} : HasDepth dep y 0 ↔ ¬ ∃ x, dep x y := by
  constructor
  · rintro ⟨_, h⟩ ⟨x, hxy⟩
    exact h (ChainTo.snoc x y 0 (ChainTo.nil x) hxy)
  · intro h
    refine ⟨ChainTo.nil y, fun hc => ?_⟩
    obtain ⟨x, hxy, _⟩ := chainTo_succ_iff.mp hc
    exact h ⟨x, hxy⟩

theorem exists_hasDepth_of_not_chainTo {y m : Nat} (h : ¬ ChainTo dep y m) :
    ∃ j, j < m ∧ HasDepth dep y j := by
  induction m with
  | zero => exact absurd (ChainTo.nil y) h
  | succ m ih =>
    by_cases hm : ChainTo dep y m
    · exact ⟨m, Nat.lt_succ_self m, hm, h⟩
    · obtain ⟨j, hj, hd⟩ := ih hm
      exact ⟨j, Nat.lt_succ_of_lt hj, hd⟩

theorem hasDepth_succ_iff {y k : Nat} :
    HasDepth dep y (k + 1) ↔
      (∃ x, dep x y ∧ HasDepth dep x k) ∧ ∀ x, dep x y → ∃ j, j ≤ k ∧ HasDepth dep x j := by
  constructor
  · rintro ⟨hc, hn⟩
    have hno : ∀ x, dep x y → ¬ ChainTo dep x (k + 1) := fun x hxy hx =>
      hn (ChainTo.snoc x y (k + 1) hx hxy)
    refine ⟨?_, ?_⟩
    · obtain ⟨x, hxy, hx⟩ := chainTo_succ_iff.mp hc
      exact ⟨x, hxy, hx, hno x hxy⟩
    · intro x hxy
      obtain ⟨j, hj, hd⟩ := exists_hasDepth_of_not_chainTo (hno x hxy)
      exact ⟨j, Nat.le_of_lt_succ hj, hd⟩
  · rintro ⟨⟨x, hxy, hx, _⟩, hall⟩
    refine ⟨ChainTo.snoc x y k hx hxy, fun hc => ?_⟩
    obtain ⟨x', hxy', hx'⟩ := chainTo_succ_iff.mp hc
    obtain ⟨j, hj, hd⟩ := hall x' hxy'
    exact hd.2 (chainTo_mono (Nat.succ_le_succ hj) hx')

/-- depths are downward closed along a chain -/
theorem hasDepth_downward {y j k : Nat} (hy : HasDepth dep y j) (hk : k ≤ j) :
    ∃ x, HasDepth dep x k ∧ (x = y ∨ ∃ z, dep x z) := by
  induction j generalizing y with
  | zero =>
    obtain rfl : k = 0 := Nat.le_zero.mp hk
    exact ⟨y, hy, Or.inl rfl⟩
  | succ j ih =>
    rcases Nat.eq_or_lt_of_le hk with heq | hlt
    · subst heq
      exact ⟨y, hy, Or.inl rfl⟩
    · obtain ⟨⟨x, hxy, hx⟩, _⟩ := hasDepth_succ_iff.mp hy
      obtain ⟨x', hx', hor⟩ := ih hx (Nat.le_of_lt_succ hlt)
      refine ⟨x', hx', Or.inr ?_⟩
      rcases hor with rfl | hz
      · exact ⟨y, hxy⟩
      · exact hz

theorem chainTo_transGen {a b m : Nat} (ha : ChainTo dep a m) (hab : TransGen dep a b) :
    ∃ m', m < m' ∧ ChainTo dep b m' := by
  induction hab with
  | single h => exact ⟨m + 1, Nat.lt_succ_self m, ChainTo.snoc _ _ m ha h⟩
  | tail _ h ih =>
    obtain ⟨m', hm', hc⟩ := ih
    exact ⟨m' + 1, Nat.lt_succ_of_lt hm', ChainTo.snoc _ _ m' hc h⟩

theorem chainTo_of_cycle {c : Nat} (hc : TransGen dep c c) : ∀ m, ChainTo dep c m := by
  have key : ∀ m, ∃ m', m ≤ m' ∧ ChainTo dep c m' := by
    intro m
    induction m with
    | zero => exact ⟨0, Nat.le_refl 0, ChainTo.nil c⟩
    | succ m ih =>
      obtain ⟨m', hm', h⟩ := ih
      obtain ⟨m'', hm'', h'⟩ := chainTo_transGen h hc
      exact ⟨m'', Nat.succ_le_of_lt (Nat.lt_of_le_of_lt hm' hm''), h'⟩
  intro m
  obtain ⟨m', hm', h⟩ := key m
  exact chainTo_mono hm' h

theorem chainTo_of_reflTransGen {c y : Nat} (hc : ∀ m, ChainTo dep c m)
    (hcy : ReflTransGen dep c y) : ∀ m, ChainTo dep y m := by
  induction hcy with
  | refl => exact hc
  | tail _ h ih => exact fun m => chainTo_pred (ChainTo.snoc _ _ m (ih m) h)

theorem chainTo_of_onOrAfterCycle {y : Nat} (h : OnOrAfterCycle dep y) : ∀ m, ChainTo dep y m := by
  obtain ⟨c, hcc, hcy⟩ := h
  exact chainTo_of_reflTransGen (chainTo_of_cycle hcc) hcy

/-- a chain of `m` steps into a node that is not on or after a cycle visits `m + 1` distinct nodes -/
theorem exists_nodup_of_chainTo {y m : Nat} (h : ChainTo dep y m) (hy : ¬ OnOrAfterCycle dep y) :
    ∃ l : List Nat, l.Nodup ∧ l.length = m + 1 ∧ ∀ z ∈ l, ReflTransGen dep z y := by
  induction h with
  | nil y =>
    exact ⟨[y], List.nodup_singleton y, rfl, fun z hz => by
      rw [List.mem_singleton] at hz; subst hz; exact ReflTransGen.refl⟩
  | snoc x y k _ hxy ih =>
    have hx : ¬ OnOrAfterCycle dep x := fun ⟨c, hcc, hcx⟩ => hy ⟨c, hcc, hcx.tail hxy⟩
    obtain ⟨l, hnd, hlen, hreach⟩ := ih hx
    have hyl : y ∉ l := fun hmem =>
      hy ⟨y, TransGen.tail' (hreach y hmem) hxy, ReflTransGen.refl⟩
    refine ⟨y :: l, List.nodup_cons.mpr ⟨hyl, hnd⟩, by simp [hlen], ?_⟩
    intro z hz
    rcases List.mem_cons.mp hz with rfl | hz
    · exact ReflTransGen.refl
    · exact (hreach z hz).tail hxy

/-- pigeonhole: on a graph all of whose edge sources are < n, a chain of n steps into y < n forces
    a cycle -/
theorem onOrAfterCycle_of_chainTo {n y : Nat} (hdep : ∀ x z, dep x z → x < n) (hy : y < n)
    (h : ChainTo dep y n) : OnOrAfterCycle dep y := by
  by_contra hno
  obtain ⟨l, hnd, hlen, hreach⟩ := exists_nodup_of_chainTo h hno
  have hsub : l ⊆ List.range n := by
    intro z hz
    rw [List.mem_range]
    rcases (hreach z hz).cases_head with rfl | ⟨w, hzw, _⟩
    · exact hy
    · exact hdep z w hzw
  have hle := (List.subperm_of_subset hnd hsub).length_le
  rw [hlen, List.length_range] at hle
  exact Nat.not_succ_le_self n hle

theorem hasDepth_lt {n y k : Nat} (hdep : ∀ x z, dep x z → x < n) (hy : y < n)
    (h : HasDepth dep y k) : k < n := by
  by_contra hnk
  have hc : ChainTo dep y n := chainTo_mono (Nat.le_of_not_lt hnk) h.1
  exact h.2 (chainTo_of_onOrAfterCycle (onOrAfterCycle_of_chainTo hdep hy hc) (k + 1))

theorem exists_hasDepth_iff {n y : Nat} (hdep : ∀ x z, dep x z → x < n) (hy : y < n) :
    (∃ j, HasDepth dep y j) ↔ ¬ OnOrAfterCycle dep y := by
  constructor
  · rintro ⟨j, hj⟩ hoac
    exact hj.2 (chainTo_of_onOrAfterCycle hoac (j + 1))
  · intro hno
    have hn : ¬ ChainTo dep y n := fun hc => hno (onOrAfterCycle_of_chainTo hdep hy hc)
    obtain ⟨j, _, hd⟩ := exists_hasDepth_of_not_chainTo hn
    exact ⟨j, hd⟩

end OH.Kahn
