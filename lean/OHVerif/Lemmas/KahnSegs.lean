/-
  Array-level facts used by the verification of `OH.Graph.kahn`:
  segments of a well-formed segmented array, `indexedValues` along a frontier,
  `indegree`, `sparseRelativeIndegree`.
-/
import OHVerif.Model.Plain
import OHVerif.Lemmas.Prim
import OHVerif.Lemmas.FinFun
import OHVerif.Props.C06
import OHVerif.Spec.Lawful
import Mathlib.Data.List.Basic
import Mathlib.Data.List.Induction
import Mathlib.Data.List.Perm.Subperm

namespace OH.Kahn
open OH OH.Prim

variable {α : Type}

/-! ### `splitSegs` -/

theorem splitSegs_length (ks : List Nat) (vs : List α) : (splitSegs ks vs).length = ks.length := by
  induction ks generalizing vs with
  | nil => rfl
  | cons k ks ih => simp [splitSegs, ih]

theorem splitSegs_flatten (ks : List Nat) (vs : List α) (h : ks.sum = vs.length) :
    (splitSegs ks vs).flatten = vs := by
  induction ks generalizing vs with
  | nil =>
    simp at h
    simp [splitSegs, List.length_eq_zero_iff.mp h.symm]
  | cons k ks ih =>
    simp only [splitSegs, List.flatten_cons]
    rw [ih (vs.drop k) (by simp at h ⊢; omega), List.take_append_drop]

theorem splitSegs_getElem? (ks : List Nat) (vs : List α) (x : Nat) (hx : x < ks.length) :
    (splitSegs ks vs)[x]? = some ((vs.drop (ks.take x).sum).take (ks.getD x 0)) := by
  induction ks generalizing vs x with
  | nil => simp at hx
  | cons k ks ih =>
    cases x with
    | zero => simp [splitSegs]
    | succ x =>
      simp only [splitSegs, List.getElem?_cons_succ, List.take_succ_cons, List.sum_cons]
      rw [ih (vs.drop k) x (by simpa using hx)]
      simp [List.drop_drop]

theorem mem_of_mem_splitSegs (ks : List Nat) (vs : List α) (seg : List α) (y : α)
    (hs : seg ∈ splitSegs ks vs) (hy : y ∈ seg) : y ∈ vs := by
  induction ks generalizing vs with
  | nil => simp [splitSegs] at hs
  | cons k ks ih =>
    simp only [splitSegs, List.mem_cons] at hs
    rcases hs with rfl | hs
    · exact List.mem_of_mem_take hy
    · exact List.mem_of_mem_drop (ih _ hs)

/-! ### gather along ranges -/

theorem gatherP_append (xs : List α) (a b : List Nat) :
    gatherP xs (a ++ b) = gatherP xs a ++ gatherP xs b := by
  simp [gatherP, List.filterMap_append]

theorem gatherP_flatMap {ι : Type} (xs : List α) (l : List ι) (g : ι → List Nat) :
    gatherP xs (l.flatMap g) = l.flatMap (fun x => gatherP xs (g x)) := by
  induction l with
  | nil => rfl
  | cons a l ih => simp [List.flatMap_cons, gatherP_append, ih]

theorem gatherP_range' (xs : List α) (a k : Nat) (h : a + k ≤ xs.length) :
    gatherP xs (List.range' a k) = (xs.drop a).take k := by
  induction k generalizing a with
  | zero => simp [gatherP]
  | succ k ih =>
    have ha : a < xs.length := by omega
    have := ih (a + 1) (by omega)
    simp only [gatherP] at this ⊢
    rw [List.range'_succ, List.filterMap_cons, List.getElem?_eq_getElem ha, this,
      List.drop_eq_getElem_cons ha, List.take_succ_cons]

/-! ### facts about a well-formed adjacency -/

theorem wf_unpack (adj : IC FinFun) (hwf : adj.wf = true) :
    adj.sources.table.sum = adj.values.table.length ∧ adj.values.WF := by
  unfold IC.wf IC.valid at hwf
  simp only [Bool.and_eq_true, decide_eq_true_eq] at hwf
  obtain ⟨⟨⟨_, h2⟩, _⟩, h4⟩ := hwf
  refine ⟨?_, (FinFun.wf_iff _).mp h4⟩
  rw [FinFun.sum_eq] at h2
  exact h2

theorem segs_length (adj : IC FinFun) : adj.segs.length = adj.len := by
  simp [IC.segs, splitSegs_length, IC.len, FinFun.source]

theorem segs_flatten (adj : IC FinFun) (hwf : adj.wf = true) :
    adj.segs.flatten = adj.values.table :=
  splitSegs_flatten _ _ (wf_unpack adj hwf).1

theorem segs_lt (adj : IC FinFun) (hwf : adj.wf = true) (seg : List Nat) (hs : seg ∈ adj.segs)
    (y : Nat) (hy : y ∈ seg) : y < adj.values.target :=
  (wf_unpack adj hwf).2 y (mem_of_mem_splitSegs _ _ seg y hs hy)

theorem range_flatMap_getD (l : List (List α)) :
    (List.range l.length).flatMap (fun x => l.getD x []) = l.flatten := by
  induction l using List.reverseRecOn with
  | nil => rfl
  | append_singleton l a ih =>
    rw [List.length_append, List.length_singleton, List.range_succ, List.flatMap_append,
      List.flatten_append]
    congr 1
    · rw [← ih]
      apply List.flatMap_congr
      intro x hx
      have : x < l.length := List.mem_range.mp hx
      simp [List.getD, List.getElem?_append_left this]
    · simp [List.getD]

/-- `indexedValues` of a segmented array along `f` is the concatenation of the selected
    segments -/
theorem indexedValues_eq (adj : IC FinFun) (hwf : adj.wf = true) (f : FinFun) (hf : f.WF)
    (ht : f.target = adj.len) :
    IC.indexedValues adj f =
      .ok ⟨f.table.flatMap (fun x => adj.segs.getD x []), adj.values.target⟩ := by
  obtain ⟨hsum, _⟩ := wf_unpack adj hwf
  obtain ⟨inj, hinj, htgt, htab, _, hwfi⟩ := C06.injections_spec adj.sources f hf ht
  have hcomp := FinFun.compose_ok inj adj.values hwfi (by rw [htgt, hsum]; rfl)
  have hstep : IC.indexedValues adj f = FinFun.compose inj adj.values := by
    show (FinFun.injections adj.sources f >>= fun i => FinFun.compose i adj.values) = _
    rw [hinj]; rfl
  rw [hstep, hcomp, htab, gatherP_flatMap]
  congr 2
  apply List.flatMap_congr
  intro x hx
  have hxl : x < adj.sources.table.length := by
    have := hf x hx; rw [ht] at this; exact this
  have h1 := FinFun.sum_take_succ adj.sources.table x hxl
  have h2 := FinFun.sum_take_le adj.sources.table (x + 1)
  have h4 : adj.sources.table.getD x 0 = adj.sources.table[x] := by
    simp [List.getD, List.getElem?_eq_getElem hxl]
  rw [gatherP_range' _ _ _ (by omega)]
  simp [IC.segs, List.getD, splitSegs_getElem? _ _ x hxl]

/-! ### `FinFun.new` -/

theorem new_ok (t : List Nat) (k : Nat) (h : ∀ x ∈ t, x < k) : FinFun.new t k = .ok ⟨t, k⟩ :=
  (C06.new_accepts_iff t k).1.mpr h

/-! ### dense indegree -/

open Graph in
/-- the dense indegree: entry `y` is the number of occurrences of `y` among all successor
    lists; the codomain `adj.values.source + 1` always suffices -/
theorem indegree_eq (adj : IC FinFun) (hwf : adj.wf = true) (ht : adj.values.target = adj.len) :
    indegree adj = .ok ⟨(List.range adj.len).map (fun y => adj.values.table.count y),
      adj.values.source + 1⟩ := by
  have hid : (⟨List.range adj.len, adj.len⟩ : FinFun).WF := by
    intro x hx; exact List.mem_range.mp hx
  have hiv := indexedValues_eq adj hwf ⟨List.range adj.len, adj.len⟩ hid rfl
  simp only at hiv
  rw [← segs_length adj, range_flatMap_getD, segs_flatten adj hwf] at hiv
  have hlt : ∀ i ∈ adj.values.table, i < adj.len := by
    intro i hi; rw [← ht]; exact (wf_unpack adj hwf).2 i hi
  have hnew : FinFun.new ((List.range adj.len).map (fun y => adj.values.table.count y))
      (adj.values.source + 1) = .ok ⟨(List.range adj.len).map (fun y => adj.values.table.count y),
        adj.values.source + 1⟩ := by
    apply new_ok
    intro c hc
    obtain ⟨y, _, rfl⟩ := List.mem_map.mp hc
    have := List.count_le_length (a := y) (l := adj.values.table)
    simp only [FinFun.source]
    omega
  unfold indegree denseRelativeIndegree
  rw [FinFun.identity_eq]
  simp only [Res.ok_bind, ne_eq, not_true_eq_false, if_false]
  rw [segs_length] at hiv
  rw [hiv]
  simp only [Res.unwrap_ok, Res.ok_bind]
  rw [Prim.bincount_ok _ _ hlt]
  simp only [Res.ok_bind]
  rw [hnew]
  rfl

/-! ### sparse relative indegree -/

theorem sublist_sum_le {l₁ l₂ : List Nat} (h : l₁.Sublist l₂) : l₁.sum ≤ l₂.sum := by
  induction h with
  | slnil => exact Nat.le_refl _
  | cons a _ ih => simp only [List.sum_cons]; omega
  | cons_cons a _ ih => simp only [List.sum_cons]; omega

theorem nodup_map_sum_le (fr : List Nat) (n : Nat) (f : Nat → Nat) (hnd : fr.Nodup)
    (hlt : ∀ x ∈ fr, x < n) : (fr.map f).sum ≤ ((List.range n).map f).sum := by
  have hsub : fr.Subperm (List.range n) :=
    List.subperm_of_subset hnd (fun x hx => List.mem_range.mpr (hlt x hx))
  obtain ⟨l, hl, hs⟩ := hsub
  rw [← (hl.map f).sum_nat]
  exact sublist_sum_le (hs.map f)

/-- the number of entries reached from a duplicate-free frontier is at most the number of all
    entries -/
theorem reached_length_le (adj : IC FinFun) (hwf : adj.wf = true) (fr : List Nat)
    (hnd : fr.Nodup) (hlt : ∀ x ∈ fr, x < adj.len) :
    (fr.flatMap (fun x => adj.segs.getD x [])).length ≤ adj.values.source := by
  have h1 := nodup_map_sum_le fr adj.len (fun x => (adj.segs.getD x []).length) hnd hlt
  have h2 : ((List.range adj.len).map (fun x => (adj.segs.getD x []).length)).sum =
      adj.values.source := by
    have := congrArg List.length (range_flatMap_getD adj.segs)
    rw [segs_length, segs_flatten adj hwf, List.length_flatMap] at this
    exact this
  rw [List.length_flatMap]
  omega

theorem mem_reached (adj : IC FinFun) (fr : List Nat) (y : Nat) :
    y ∈ fr.flatMap (fun x => adj.segs.getD x []) ↔
      ∃ x ∈ fr, ∃ seg, adj.segs[x]? = some seg ∧ y ∈ seg := by
  simp only [List.mem_flatMap, List.getD]
  constructor
  · rintro ⟨x, hx, hy⟩
    cases h : adj.segs[x]? with
    | none => simp [h] at hy
    | some seg => exact ⟨x, hx, seg, h, by simpa [h] using hy⟩
  · rintro ⟨x, hx, seg, hs, hy⟩
    exact ⟨x, hx, by simpa [hs] using hy⟩

theorem reached_lt (adj : IC FinFun) (hwf : adj.wf = true) (fr : List Nat) (y : Nat)
    (hy : y ∈ fr.flatMap (fun x => adj.segs.getD x [])) : y < adj.values.target := by
  obtain ⟨x, _, seg, hs, hy⟩ := (mem_reached adj fr y).mp hy
  exact segs_lt adj hwf seg (List.mem_of_getElem? hs) y hy

open Graph in
/-- for a lawful backend, along a duplicate-free frontier: both checked constructors succeed;
    the keys are the distinct reached nodes and the counts their multiplicities (by
    `Backend.Lawful`) -/
theorem sparseRelativeIndegree_eq (B : Backend) (hB : B.Lawful) (adj : IC FinFun)
    (hwf : adj.wf = true) (ht : adj.values.target = adj.len) (fr : List Nat) (hnd : fr.Nodup)
    (hlt : ∀ x ∈ fr, x < adj.len) :
    sparseRelativeIndegree B adj ⟨fr, adj.len⟩ =
      .ok (⟨(B.sparseBincount (fr.flatMap (fun x => adj.segs.getD x []))).1, adj.len⟩,
           ⟨(B.sparseBincount (fr.flatMap (fun x => adj.segs.getD x []))).2,
             adj.values.source + 1⟩) := by
  have hiv := indexedValues_eq adj hwf ⟨fr, adj.len⟩ hlt rfl
  simp only at hiv
  generalize hg : fr.flatMap (fun x => adj.segs.getD x []) = g at hiv
  have hkeys : ∀ v ∈ (B.sparseBincount g).1, v < adj.len := by
    intro v hv
    rw [hB.sb_mem] at hv
    rw [← ht]; subst hg
    exact reached_lt adj hwf fr v hv
  have hcounts : ∀ c ∈ (B.sparseBincount g).2, c < adj.values.source + 1 := by
    intro c hc
    obtain ⟨k, hk, rfl⟩ := List.getElem_of_mem hc
    have hk' : k < (B.sparseBincount g).1.length := by rw [← hB.sb_length]; exact hk
    have := hB.sb_count g k _ (List.getElem?_eq_getElem hk')
    rw [List.getElem?_eq_getElem hk] at this
    injection this with this
    rw [this]
    have h1 := List.count_le_length (a := (B.sparseBincount g).1[k]) (l := g)
    have h2 := reached_length_le adj hwf fr hnd hlt
    rw [hg] at h2
    omega
  unfold sparseRelativeIndegree
  simp only [ne_eq, not_true_eq_false, if_false]
  rw [hiv]
  simp only [Res.unwrap_ok, Res.ok_bind, Prim.sparseBincount]
  rw [new_ok _ _ hkeys, new_ok _ _ hcounts]
  rfl

end OH.Kahn
