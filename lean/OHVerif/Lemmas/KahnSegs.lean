/-
  Array-level facts used by the verification of `OH.Graph.kahn`:
  segments of a well-formed segmented array, `indexedValues` along a frontier,
  `indegree`, `sparseRelativeIndegree`.
-/
import OHVerif.Model.Plain
import OHVerif.Lemmas.Prim
import OHVerif.Lemmas.FinFun
import OHVerif.Props.C06
import OHVerif.Spec.Lawful
import Mathlib.Data.List.Basic
import Mathlib.Data.List.Induction
import Mathlib.Data.List.Perm.Subperm

namespace OH.Kahn
open OH OH.Prim

variable {α : Type}

/-! ### `splitSegs` -/

theorem splitSegs_length (ks : List Nat) (vs : List α) : (splitSegs ks vs).length = ks.length := by
  induction ks generalizing vs with
  | nil => rfl
  | cons k ks ih => simp [splitSegs, ih]

theorem splitSegs_flatten (ks : List Nat) (vs : List α) (h : ks.sum = vs.length) :
    (splitSegs ks vs).flatten = vs := by
  induction ks generalizing vs with
  | nil =>
    simp at h
    simp [splitSegs, List.length_eq_zero_iff.mp h.symm]
  | cons k ks ih =>
    simp only [splitSegs, List.flatten_cons]
    rw [ih (vs.drop k) (by simp at h ⊢; omega), List.take_append_drop]

theorem splitSegs_getElem? (ks : List Nat) (vs : List α) (x : Nat) (hx : x < ks.length) :
    (splitSegs ks vs)[x]? = some ((vs.drop (ks.take x).sum).take (ks.getD x 0)) := by
  induction ks generalizing vs x with
  | nil => simp at hx
  | cons k ks ih =>
    cases x with
    | zero => simp [splitSegs]
    | succ x =>
      simp only [splitSegs, List.getElem?_cons_succ, List.take_succ_cons, List.sum_cons]
      rw [ih (vs.drop k) x (by simpa using hx)]
      simp [List.drop_drop]

theorem mem_of_mem_splitSegs (ks : List Nat) (vs : List α) (seg : List α) (y : α)
    (hs : seg ∈ splitSegs ks vs) (hy : y ∈ seg) : y ∈ vs := by
  induction ks generalizing vs with
  | nil => simp [splitSegs] at hs
  | cons k ks ih =>
    simp only [splitSegs, List.mem_cons] at hs
    rcases hs with rfl | hs
    · exact List.mem_of_mem_take hy
    · exact List.mem_of_mem_drop (ih _ hs)

/-! ### gather along ranges -/

theorem gatherP_append (xs : List α) (a b : List Nat) :
    gatherP xs (a ++ b) = gatherP xs a ++ gatherP xs b := by
  simp [gatherP, List.filterMap_append]

theorem gatherP_flatMap {ι : Type} (xs : List α) (l : List ι) (g : ι → List Nat) :
    gatherP xs (l.flatMap g) = l.flatMap (fun x => gatherP xs (g x)) := by
  induction l with
  | nil => rfl
  | cons a l ih => simp [List.flatMap_cons, gatherP_append, ih]

theorem gatherP_range' (xs : List α) (a k : Nat) (h : a + k ≤ xs.length) :
    gatherP xs (List.range' a k) = (xs.drop a).take k := by
  induction k generalizing a with
  | zero => simp [gatherP]
  | succ k ih =>
    have ha : a < xs.length := by omega
    have := ih (a + 1) (by omega)
    simp only [gatherP] at this ⊢
    rw [List.range'_succ, List.filterMap_cons, List.getElem?_eq_getElem ha, this,
      List.drop_eq_getElem_cons ha, List.take_succ_cons]

/-! ### facts about a well-formed adjacency -/

theorem wf_unpack (adj : IC FinFun) (hwf : adj.wf = true) :
    adj.sources.table.sum = adj.values.table.length ∧ adj.values.WF := by
  unfold IC.wf IC.valid at hwf
  simp only [Bool.and_eq_true, decide_eq_true_eq] at hwf
  obtain ⟨⟨⟨_, h2⟩, _⟩, h4⟩ := hwf
  refine ⟨?_, (FinFun.wf_iff _).mp h4⟩
  rw [FinFun.sum_eq] at h2
  exact h2

theorem segs_length (adj : IC FinFun) : adj.segs.length = adj.len := by
  simp [IC.segs, splitSegs_length, IC.len, FinFun.source]

theorem segs_flatten (adj : IC FinFun) (hwf : adj.wf = true) :
    adj.segs.flatten = adj.values.table :=
  splitSegs_flatten _ _ (wf_unpack adj hwf).1

theorem segs_lt (adj : IC FinFun) (hwf : adj.wf = true) (seg : List Nat) (hs : seg ∈ adj.segs)
    (y : Nat) (hy : y ∈ seg) : y < adj.values.target :=
  (wf_unpack adj hwf).2 y (mem_of_mem_splitSegs _ _ seg y hs hy)

theorem range_flatMap_getD (l : List (List α)) :
    (List.range l.length).flatMap (fun x => l.getD x []) = l.flatten := by
  induction l using List.reverseRecOn with
  | nil => rfl
  | append_singleton l a ih =>
    rw [List.length_append, List.length_singleton, List.range_succ, List.flatMap_append,
      List.flatten_append]
    congr 1
    · rw [← ih]
      apply List.flatMap_congr
      intro x hx
      have : x < l.length := List.mem_range.mp hx
      simp [List.getD, List.getElem?_append_left this]
    · simp [List.getD]

/-- `indexedValues` of a segmented array along `f` is the concatenation of the selected
    segments -/
theorem indexedValues_eq (adj : IC FinFun) (hwf : adj.wf = true) (f : FinFun) (hf : f.WF)
    (ht : f.target = adj.len) :
    IC.indexedValues adj f =
      .ok ⟨f.table.flatMap (fun x => adj.segs.getD x []), adj.values.target⟩ := by
  obtain ⟨hsum, _⟩ := wf_unpack adj hwf
  obtain ⟨inj, hinj, htgt, htab, _, hwfi⟩ := C06.injections_spec adj.sources f hf ht
  have hcomp := FinFun.compose_ok inj adj.values hwfi (by rw [htgt, hsum]; rfl)
  have hstep : IC.indexedValues adj f = FinFun.compose inj adj.values := by
    show (FinFun.injections adj.sources f >>= fun i => FinFun.compose i adj.values) = _
    rw [hinj]; rfl
  rw [hstep, hcomp, htab, gatherP_flatMap]
  congr 2
  apply List.flatMap_congr
  intro x hx
  have hxl : x < adj.sources.table.length := by
    have := hf x hx; rw [ht] at this; exact this
  have h1 := FinFun.sum_take_succ adj.sources.table x hxl
  have h2 := FinFun.sum_take_le adj.sources.table (x + 1)
  have h4 : adj.sources.table.getD x 0 = adj.sources.table[x] := by
    simp [List.getD, List.getElem?_eq_getElem hxl]
  rw [gatherP_range' _ _ _ (by omega)]
  simp [IC.segs, List.getD, splitSegs_getElem? _ _ x hxl]

end OH.Kahn
