/-
  Array-level description of one round of `OH.Graph.kahnStep` (no graph semantics yet) and the
  "remaining indegree" bookkeeping.
-/
import OHVerif.Lemmas.KahnSegs

namespace OH.Kahn
open OH OH.Prim OH.Graph

/-! ### remaining indegree: multiplicity of `y` among the successor lists of the nodes whose
    `unvisited` flag is still non-zero -/

def remDeg (segs : List (List Nat)) (unv : List Nat) (y : Nat) : Nat :=
  (List.zipWith (fun u seg => if u = 0 then 0 else seg.count y) unv segs).sum

theorem remDeg_cons (s : List Nat) (segs : List (List Nat)) (u : Nat) (unv : List Nat) (y : Nat) :
    remDeg (s :: segs) (u :: unv) y = (if u = 0 then 0 else s.count y) + remDeg segs unv y := by
  simp [remDeg]

theorem remDeg_replicate (segs : List (List Nat)) (y : Nat) :
    remDeg segs (List.replicate segs.length 1) y = segs.flatten.count y := by
  induction segs with
  | nil => simp [remDeg]
  | cons s segs ih =>
    rw [List.length_cons, List.replicate_succ, remDeg_cons, ih]
    simp [List.count_append]

theorem remDeg_set (segs : List (List Nat)) (unv : List Nat) (x y : Nat) (hx : x < segs.length)
    (hu : ∃ u, unv[x]? = some u ∧ u ≠ 0) :
    remDeg segs (unv.set x 0) y + (segs.getD x []).count y = remDeg segs unv y := by
  induction unv generalizing segs x with
  | nil => obtain ⟨u, h, _⟩ := hu; simp at h
  | cons u us ih =>
    cases segs with
    | nil => simp at hx
    | cons s ss =>
      cases x with
      | zero =>
        obtain ⟨u', h, hne⟩ := hu
        simp at h
        subst h
        simp [remDeg_cons, hne]
        omega
      | succ x =>
        have := ih ss x (by simpa using hx) (by simpa using hu)
        simp only [List.set_cons_succ, remDeg_cons]
        simp only [List.getD, List.getElem?_cons_succ] at this ⊢
        omega

theorem remDeg_writeAll (segs : List (List Nat)) (unv : List Nat) (fr : List Nat) (y : Nat)
    (hnd : fr.Nodup) (hlt : ∀ x ∈ fr, x < segs.length)
    (hu : ∀ x ∈ fr, ∃ u, unv[x]? = some u ∧ u ≠ 0) :
    remDeg segs (writeAll unv (fr.map (fun i => (i, 0)))) y +
      (fr.flatMap (fun x => segs.getD x [])).count y = remDeg segs unv y := by
  induction fr generalizing unv with
  | nil => simp [writeAll]
  | cons x rest ih =>
    rw [List.nodup_cons] at hnd
    have h1 := remDeg_set segs unv x y (hlt x (by simp)) (hu x (by simp))
    have h2 := ih (unv.set x 0) hnd.2 (fun z hz => hlt z (by simp [hz])) (by
      intro z hz
      have hzx : x ≠ z := by rintro rfl; exact hnd.1 hz
      rw [List.getElem?_set_ne hzx]
      exact hu z (by simp [hz]))
    simp only [List.map_cons, writeAll, List.flatMap_cons, List.count_append]
    omega

theorem remDeg_eq_zero_iff (segs : List (List Nat)) (unv : List Nat) (y : Nat)
    (hlen : unv.length = segs.length) :
    remDeg segs unv y = 0 ↔
      ∀ (x u : Nat) (seg : List Nat), unv[x]? = some u → segs[x]? = some seg → u ≠ 0 → y ∉ seg := by
  induction unv generalizing segs with
  | nil =>
    simp [remDeg]
  | cons u us ih =>
    cases segs with
    | nil => simp at hlen
    | cons s ss =>
      rw [remDeg_cons, Nat.add_eq_zero_iff, ih ss (by simpa using hlen)]
      constructor
      · rintro ⟨h0, hrest⟩ x u' seg hu hs hne
        cases x with
        | zero =>
          simp at hu hs
          subst hu hs
          simpa [hne, List.count_eq_zero] using h0
        | succ x =>
          exact hrest x u' seg (by simpa using hu) (by simpa using hs) hne
      · intro h
        refine ⟨?_, fun x u' seg hu hs hne => h (x + 1) u' seg (by simpa using hu) (by simpa using hs) hne⟩
        by_cases hu0 : u = 0
        · simp [hu0]
        · have := h 0 u s (by simp) (by simp) hu0
          simp [hu0, List.count_eq_zero, this]

/-! ### list lemmas for the frontier computation -/

theorem gatherP_zeroFrom_aux (pre keys : List Nat) (φ : Nat → Nat) :
    gatherP (pre ++ keys) (zeroFrom pre.length (keys.map φ)) =
      keys.filter (fun y => decide (φ y = 0)) := by
  induction keys generalizing pre with
  | nil => simp [zeroFrom, gatherP]
  | cons a keys ih =>
    have hih := ih (pre ++ [a])
    simp only [List.append_assoc, List.singleton_append, List.length_append,
      List.length_singleton] at hih
    simp only [List.map_cons, zeroFrom]
    by_cases h : φ a = 0
    · rw [if_pos h, List.filter_cons_of_pos (by simpa using h)]
      simp only [gatherP, List.filterMap_cons] at hih ⊢
      rw [hih]
      simp
    · rw [if_neg h, List.filter_cons_of_neg (by simpa using h)]
      exact hih

theorem gatherP_zero_map (keys : List Nat) (φ : Nat → Nat) :
    gatherP keys (zero (keys.map φ)) = keys.filter (fun y => decide (φ y = 0)) := by
  have := gatherP_zeroFrom_aux [] keys φ
  simpa [zero] using this

theorem flatMap_replicate_filter (l : List Nat) (ψ : Nat → Nat) (h : ∀ y ∈ l, ψ y ≤ 1) :
    l.flatMap (fun y => List.replicate (ψ y) y) = l.filter (fun y => decide (ψ y ≠ 0)) := by
  induction l with
  | nil => rfl
  | cons a l ih =>
    have ha := h a (by simp)
    rw [List.flatMap_cons, ih (fun y hy => h y (by simp [hy]))]
    by_cases h0 : ψ a = 0
    · rw [List.filter_cons_of_neg (by simpa using h0), h0]; rfl
    · have h1 : ψ a = 1 := by omega
      rw [List.filter_cons_of_pos (by simpa using h0), h1]; rfl

theorem subTotal_nodup (k : Nat) (keys counts : List Nat) (f : Nat → Nat) (hnd : keys.Nodup)
    (hc : ∀ p v : Nat, keys[p]? = some v → counts[p]? = some (f v)) :
    subTotal k keys counts = if k ∈ keys then f k else 0 := by
  induction keys generalizing counts with
  | nil => simp [subTotal_nil]
  | cons a ks ih =>
    rw [List.nodup_cons] at hnd
    cases counts with
    | nil => have := hc 0 a (by simp); simp at this
    | cons c cs =>
      have hc0 := hc 0 a (by simp)
      simp at hc0
      subst hc0
      rw [subTotal_cons, ih cs hnd.2 (fun p v hp => by simpa using hc (p + 1) v (by simpa using hp))]
      by_cases hak : a = k
      · subst hak
        simp [hnd.1]
      · have : ¬ k = a := fun h => hak h.symm
        simp [hak, this]

theorem subTotal_sparse (B : Backend) (hB : B.Lawful) (g : List Nat) (k : Nat) :
    subTotal k (B.sparseBincount g).1 (B.sparseBincount g).2 = g.count k := by
  rw [subTotal_nodup k _ _ (fun v => g.count v) (hB.sb_nodup g) (hB.sb_count g)]
  split
  · rfl
  · rename_i h
    rw [hB.sb_mem] at h
    exact (List.count_eq_zero.mpr h).symm

/-! ### one round, at the level of arrays -/

/-- the entries reached from a frontier, with multiplicity -/
def reached (adj : IC FinFun) (fr : List Nat) : List Nat := fr.flatMap (fun x => adj.segs.getD x [])

theorem kahnStep_eq (B : Backend) (hB : B.Lawful) (adj : IC FinFun) (hwf : adj.wf = true)
    (ht : adj.values.target = adj.len) (st : KahnState)
    (hlu : st.unvisited.length = adj.len) (hlo : st.order.length = adj.len)
    (hli : st.indegree.length = adj.len)
    (hnd : st.frontier.Nodup) (hlt : ∀ x ∈ st.frontier, x < adj.len)
    (hdeg : ∀ (y v : Nat), st.indegree[y]? = some v → (reached adj st.frontier).count y ≤ v)
    (hu01 : ∀ u ∈ st.unvisited, u ≤ 1) :
    ∃ indeg' fr',
      kahnStep B adj st = .ok ⟨writeAll st.order (st.frontier.map (fun i => (i, st.depth))),
        writeAll st.unvisited (st.frontier.map (fun i => (i, 0))), indeg', fr', st.depth + 1⟩ ∧
      indeg'.length = adj.len ∧
      (∀ (y v : Nat), st.indegree[y]? = some v →
        indeg'[y]? = some (v - (reached adj st.frontier).count y)) ∧
      fr'.Nodup ∧
      (∀ y, y ∈ fr' ↔ y ∈ reached adj st.frontier ∧ indeg'[y]? = some 0 ∧
        (writeAll st.unvisited (st.frontier.map (fun i => (i, 0))))[y]? = some 1) := by
  obtain ⟨order, unvisited, indegree, frontier, depth⟩ := st
  simp only at hlu hlo hli hnd hlt hdeg hu01 ⊢
  generalize hg : reached adj frontier = g at hdeg ⊢
  generalize hunv' : writeAll unvisited (frontier.map (fun i => (i, 0))) = unv'
  have hunv'_len : unv'.length = adj.len := by rw [← hunv', Prim.writeAll_length, hlu]
  have hunv'_get : ∀ k, unv'[k]? = if k ∈ frontier then some 0 else unvisited[k]? := by
    intro k; rw [← hunv']
    exact writeAll_const_getElem? unvisited frontier 0 (by rw [hlu]; exact hlt) k
  have hunv'_le : ∀ (k u : Nat), unv'[k]? = some u → u ≤ 1 := by
    intro k u hk
    rw [hunv'_get] at hk
    split at hk
    · injection hk with hk; omega
    · exact hu01 u (List.mem_of_getElem? hk)
  have h1 := scatterAssignConstant_ok unvisited frontier 0 (by rw [hlu]; exact hlt)
  have h2 := scatterAssignConstant_ok order frontier depth (by rw [hlo]; exact hlt)
  have h3 := new_ok frontier adj.len hlt
  have h4 := sparseRelativeIndegree_eq B hB adj hwf ht frontier hnd hlt
  rw [show frontier.flatMap (fun x => adj.segs.getD x []) = g from hg] at h4
  rw [hunv'] at h1
  generalize hkeys : (B.sparseBincount g).1 = keys at h4
  generalize hcounts : (B.sparseBincount g).2 = counts at h4
  have hkeys_mem : ∀ v, v ∈ keys ↔ v ∈ g := by intro v; rw [← hkeys]; exact hB.sb_mem g v
  have hkeys_nd : keys.Nodup := by rw [← hkeys]; exact hB.sb_nodup g
  have hkeys_lt : ∀ v ∈ keys, v < adj.len := by
    intro v hv
    rw [hkeys_mem, ← hg] at hv
    rw [← ht]
    exact reached_lt adj hwf frontier v hv
  have hsub : ∀ k, subTotal k keys counts = g.count k := by
    intro k; rw [← hkeys, ← hcounts]; exact subTotal_sparse B hB g k
  obtain ⟨indeg', h5⟩ := scatterSubAssign_complete indegree keys counts
    (by rw [← hkeys, ← hcounts, hB.sb_length]; exact Nat.le_refl _)
    (by rw [hli]; exact hkeys_lt)
    (fun k v hv => by rw [hsub]; exact hdeg k v hv)
  obtain ⟨_, _, hlen', hval⟩ := scatterSubAssign_sound _ _ _ _ h5
  rw [hli] at hlen'
  have hindeg' : ∀ (y v : Nat), indegree[y]? = some v → indeg'[y]? = some (v - g.count y) := by
    intro y v hv
    obtain ⟨w, hw, hw2⟩ := hval y v hv
    rw [hsub] at hw2
    rw [hw]; congr 1; omega
  have hφ : ∀ i ∈ keys, indeg'[i]? = some (indeg'.getD i 0) := by
    intro i hi
    have : i < indeg'.length := by rw [hlen']; exact hkeys_lt i hi
    simp [List.getD, List.getElem?_eq_getElem this]
  have h6 : gather indeg' keys = .ok (keys.map (fun y => indeg'.getD y 0)) := by
    rw [FinFun.gather_ok _ _ (by rw [hlen']; exact hkeys_lt),
      FinFun.gatherP_eq_map _ _ (fun y => indeg'.getD y 0) hφ]
  have h7 : gather keys (zero (keys.map (fun y => indeg'.getD y 0))) =
      .ok (keys.filter (fun y => decide (indeg'.getD y 0 = 0))) := by
    rw [FinFun.gather_ok, gatherP_zero_map]
    intro i hi
    rw [mem_zero] at hi
    have := (List.getElem?_eq_some_iff.mp hi).1
    simpa using this
  generalize hfr0 : keys.filter (fun y => decide (indeg'.getD y 0 = 0)) = fr0 at h7
  have hfr0_sub : ∀ y ∈ fr0, y ∈ keys := by
    intro y hy; rw [← hfr0] at hy; exact (List.mem_filter.mp hy).1
  have hψ : ∀ i ∈ fr0, unv'[i]? = some (unv'.getD i 0) := by
    intro i hi
    have : i < unv'.length := by rw [hunv'_len]; exact hkeys_lt i (hfr0_sub i hi)
    simp [List.getD, List.getElem?_eq_getElem this]
  have h8 : gather unv' fr0 = .ok (fr0.map (fun y => unv'.getD y 0)) := by
    rw [FinFun.gather_ok _ _ (by rw [hunv'_len]; exact fun i hi => hkeys_lt i (hfr0_sub i hi)),
      FinFun.gatherP_eq_map _ _ (fun y => unv'.getD y 0) hψ]
  have hψ_le : ∀ y ∈ fr0, unv'.getD y 0 ≤ 1 := fun y hy => hunv'_le y _ (hψ y hy)
  have h9 : Graph.filter fr0 (fr0.map (fun y => unv'.getD y 0)) =
      .ok (fr0.filter (fun y => decide (unv'.getD y 0 ≠ 0))) := by
    unfold Graph.filter «repeat»
    rw [if_pos (by simp)]
    have := FinFun.repeatP_map_map fr0 (fun y => unv'.getD y 0) id
    rw [List.map_id] at this
    rw [this]
    simp only [id]
    rw [flatMap_replicate_filter fr0 _ hψ_le]
  refine ⟨indeg', fr0.filter (fun y => decide (unv'.getD y 0 ≠ 0)), ?_, hlen', hindeg', ?_, ?_⟩
  · unfold kahnStep
    simp only [h1, h2, h3, h4, h5, h6, h7, h8, h9, Res.ok_bind, Res.unwrap_ok, Res.pure_eq]
  · rw [← hfr0]
    exact (hkeys_nd.filter _).filter _
  · intro y
    rw [List.mem_filter, ← hfr0, List.mem_filter, hkeys_mem]
    simp only [decide_eq_true_eq]
    constructor
    · rintro ⟨⟨hyg, h0⟩, h1'⟩
      have hyk : y ∈ keys := (hkeys_mem y).mpr hyg
      have hyf : y ∈ fr0 := by rw [← hfr0]; exact List.mem_filter.mpr ⟨hyk, by simpa using h0⟩
      refine ⟨hyg, ?_, ?_⟩
      · rw [hφ y hyk, h0]
      · rw [hψ y hyf]
        have := hψ_le y hyf
        congr 1; omega
    · rintro ⟨hyg, h0, h1'⟩
      have hyk : y ∈ keys := (hkeys_mem y).mpr hyg
      refine ⟨⟨hyg, ?_⟩, ?_⟩
      · have := hφ y hyk
        rw [h0] at this
        injection this with this
        exact this.symm
      · simp [List.getD, h1']

end OH.Kahn
