/-
  The laws of a symmetric monoidal category for GLUING (`IsGluing`) and JUXTAPOSITION
  (`PDiag.juxt`) of well-formed plain diagrams, up to `≅`:
  associativity of gluing, congruence of gluing / juxtaposition under `≅`, interchange, gluing
  with a spider one of whose legs is a bijection (only relabels an interface), block swaps.
  Everything is proved with the stage-wise quotient library `OHVerif.Lemmas.QuotStages`.
-/
import OHVerif.Lemmas.QuotStages
import OHVerif.Props.C04

namespace OH
open Relation

variable {O A : Type}

/-! ### associativity of gluing -/

theorem gluePre_assoc (F G H : PDiag O A) :
    gluePre (gluePre F G) H = gluePre F (gluePre G H) := by
  simp [gluePre, PDiag.n, PEdge.mapNodes, Function.comp_def, Nat.add_assoc]

/-- the boundary pairs of `(F + G), H` are those of `G, H` shifted past `F` -/
theorem glueRel_shift (F G H : PDiag O A) (a b : Nat) :
    glueRel (gluePre F G) H a b ↔ F.n ≤ a ∧ F.n ≤ b ∧ glueRel G H (a - F.n) (b - F.n) := by
  constructor
  · rintro ⟨k, h1, h2⟩
    have h1' : (G.outs.map (F.n + ·))[k]? = some a := h1
    rw [List.getElem?_map] at h1'
    rw [gluePre_n] at h2
    cases ha : G.outs[k]? with
    | none => rw [ha] at h1'; cases h1'
    | some a0 =>
      rw [ha] at h1'
      cases hc : H.ins[k]? with
      | none => rw [hc] at h2; cases h2
      | some c =>
        rw [hc] at h2
        have e1 : F.n + a0 = a := Option.some.inj h1'
        have e2 : F.n + G.n + c = b := Option.some.inj h2
        refine ⟨by omega, by omega, k, ?_, ?_⟩
        · rw [ha]; congr 1; omega
        · rw [hc]; show some (G.n + c) = _; congr 1; omega
  · rintro ⟨ha, hb, k, h1, h2⟩
    refine ⟨k, ?_, ?_⟩
    · show (G.outs.map (F.n + ·))[k]? = some a
      rw [List.getElem?_map, h1]
      show some (F.n + (a - F.n)) = _
      congr 1; omega
    · rw [gluePre_n]
      cases hc : H.ins[k]? with
      | none => rw [hc] at h2; cases h2
      | some c =>
        rw [hc] at h2
        have e2 : G.n + c = b - F.n := Option.some.inj h2
        show some (F.n + G.n + c) = _
        congr 1; omega

/-- GLUING IS ASSOCIATIVE up to isomorphism -/
theorem glue_assoc {F G H X Y L R : PDiag O A} (hF : F.wf = true) (hG : G.wf = true)
    (hH : H.wf = true) (hX : IsGluing F G X) (hL : IsGluing X H L) (hY : IsGluing G H Y)
    (hR : IsGluing F Y R) : L ≅ R := by
  have hL' := isGluing_quot_left (gluePre_wf hF hG) hH hX hL
  have hR' := isGluing_quot_right hF (gluePre_wf hG hH) hY hR
  rw [gluePre_assoc] at hL'
  refine isQuot_unique (gluePre_wf hF (gluePre_wf hG hH)) hL' hR' ?_
  intro i j _ _
  apply eqvOn_congr
  intro a b _ _
  have hfg : glueRel F (gluePre G H) a b ↔ glueRel F G a b := Iff.rfl
  rw [glueRel_shift, hfg]
  constructor
  · rintro ((⟨_, _, h⟩ | ⟨_, _, h⟩) | h)
    · exact Or.inr h
    · exact h.elim
    · exact Or.inl (Or.inr h)
  · rintro ((⟨_, _, h⟩ | h) | h)
    · exact h.elim
    · exact Or.inr h
    · have := glueRel_lt hF hG a b h
      exact Or.inl (Or.inl ⟨this.1, this.2, h⟩)

/-! ### congruence -/

/-- GLUING RESPECTS ISOMORPHISM -/
theorem glue_congr {F F' G G' R R' : PDiag O A} (hF : F.wf = true) (hG : G.wf = true)
    (h1 : F ≅ F') (h2 : G ≅ G') (hR : IsGluing F G R) (hR' : IsGluing F' G' R') : R ≅ R' := by
  obtain ⟨_, f2, _⟩ := (PDiag.wf_iff F).1 hF
  obtain ⟨g1, _, _⟩ := (PDiag.wf_iff G).1 hG
  obtain ⟨π, ρ, v1⟩ := iso_iff_isoVia.1 h1
  obtain ⟨π', ρ', v2⟩ := iso_iff_isoVia.1 h2
  refine isQuot_iso_of_isoVia (gluePre_wf hF hG) (IsoVia.gluePre hF v1 v2) hR hR' ?_ ?_
  · rintro a b _ _ ⟨k, hk1, hk2⟩
    cases hc : G.ins[k]? with
    | none => rw [hc] at hk2; cases hk2
    | some c =>
      rw [hc] at hk2
      have hb : b = F.n + c := (Option.some.inj hk2).symm
      have ha : a < F.n := f2 a (List.mem_of_getElem? hk1)
      have hc' : c < G.n := g1 c (List.mem_of_getElem? hc)
      subst hb
      rw [plusMap_left ha, plusMap_right]
      have := v1.nbij.1 a ha
      have := v2.nbij.1 c hc'
      refine EqvOn.of_rel (by rw [gluePre_n]; omega) (by rw [gluePre_n]; omega) ⟨k, ?_, ?_⟩
      · rw [v1.outs, List.getElem?_map, hk1]; rfl
      · rw [v2.ins, List.getElem?_map, hc]; rfl
  · rintro a' b' _ _ ⟨k, hk1, hk2⟩
    rw [v1.outs, List.getElem?_map] at hk1
    rw [v2.ins, List.getElem?_map] at hk2
    cases ha : F.outs[k]? with
    | none => rw [ha] at hk1; cases hk1
    | some a =>
      rw [ha] at hk1
      cases hc : G.ins[k]? with
      | none => rw [hc] at hk2; cases hk2
      | some c =>
        rw [hc] at hk2
        have ea : π a = a' := Option.some.inj hk1
        have eb : F'.n + π' c = b' := Option.some.inj hk2
        have ha' : a < F.n := f2 a (List.mem_of_getElem? ha)
        have hc' : c < G.n := g1 c (List.mem_of_getElem? hc)
        refine ⟨a, F.n + c, by rw [gluePre_n]; omega, by rw [gluePre_n]; omega, ?_, ?_, ?_⟩
        · rw [plusMap_left ha', ea]
        · rw [plusMap_right, eb]
        · refine EqvOn.of_rel (by rw [gluePre_n]; omega) (by rw [gluePre_n]; omega) ⟨k, ha, ?_⟩
          rw [hc]; rfl

/-- JUXTAPOSITION RESPECTS ISOMORPHISM -/
theorem juxt_iso_congr {F F' G G' : PDiag O A} (hF : F.wf = true) (h1 : F ≅ F') (h2 : G ≅ G') :
    PDiag.juxt F G ≅ PDiag.juxt F' G' := by
  obtain ⟨π, ρ, v1⟩ := iso_iff_isoVia.1 h1
  obtain ⟨π', ρ', v2⟩ := iso_iff_isoVia.1 h2
  exact (IsoVia.juxt hF v1 v2).iso

/-- the juxtaposition of two quotients is the quotient of the juxtaposition by the two relations,
    each on its own block -/
theorem IsQuot.juxt {P P' X X' : PDiag O A} {R R' : Nat → Nat → Prop} (hP : P.wf = true)
    (h : IsQuot P R X) (h' : IsQuot P' R' X') :
    IsQuot (PDiag.juxt P P') (sumRel P.n R R') (PDiag.juxt X X') := by
  obtain ⟨p, hp, hk⟩ := (isQuot_iff _ _ _).1 h
  obtain ⟨p', hp', hk'⟩ := (isQuot_iff _ _ _).1 h'
  refine (isQuot_iff _ _ _).2 ⟨_, IsQuotMap.juxt hP hp hp', ?_⟩
  rw [juxt_n]
  exact kernel_sum hp.lt hk hk'

/-! ### gluing with a spider whose shared leg is a bijection -/

theorem map_getD_range (l : List Nat) : (List.range l.length).map (fun v => l.getD v 0) = l := by
  apply List.ext_getElem?
  intro k
  by_cases hk : k < l.length
  · simp [hk, List.getD_eq_getElem?_getD]
  · rw [List.getElem?_eq_none (by simpa using hk), List.getElem?_eq_none (by simpa using hk)]

/-- matching boundary types, pointwise: equally many boundary nodes, with equal labels -/
theorem types_pointwise {F G : PDiag O A} (hty : F.targetType = G.sourceType) :
    F.outs.length = G.ins.length ∧
    ∀ (k a c : Nat), F.outs[k]? = some a → G.ins[k]? = some c → F.nodes[a]? = G.nodes[c]? := by
  constructor
  · have := congrArg List.length hty
    simpa [PDiag.targetType, PDiag.sourceType] using this
  · intro k a c h1 h2
    have := congrArg (·[k]?) hty
    simpa [PDiag.targetType, PDiag.sourceType, List.getElem?_map, h1, h2] using this

theorem pdagger_types {F : PDiag O A} :
    F.dagger.sourceType = F.targetType ∧ F.dagger.targetType = F.sourceType := ⟨rfl, rfl⟩

/-- GLUING WITH A PERMUTATION ON THE RIGHT: if the input leg `s` of the spider `(w, s, t)` lists
    every node of `w` exactly once (`u` = position of a node in `s`), the gluing of `F` with the
    spider is `F` with its output interface re-read through the spider -/
theorem isGluing_perm_right {F : PDiag O A} {w : List O} {s t : List Nat} {u : Nat → Nat}
    (hF : F.wf = true) (hty : F.targetType = (⟨w, [], s, t⟩ : PDiag O A).sourceType)
    (hs : ∀ k v, s[k]? = some v → u v = k) (hu : ∀ v, v < w.length → s[u v]? = some v) :
    IsGluing F ⟨w, [], s, t⟩ ⟨F.nodes, F.edges, F.ins, t.map (fun v => F.outs.getD (u v) 0)⟩ := by
  obtain ⟨f1, f2, f3⟩ := (PDiag.wf_iff F).1 hF
  obtain ⟨hlen, hlab⟩ := types_pointwise hty
  have hlen' : F.outs.length = s.length := hlen
  have hn : (gluePre F (⟨w, [], s, t⟩ : PDiag O A)).n = F.n + w.length := gluePre_n F _
  -- the boundary node of `F` glued to the spider node `v`
  have key : ∀ v, v < w.length → ∃ a, F.outs[u v]? = some a ∧ a < F.n ∧
      F.outs.getD (u v) 0 = a ∧ F.nodes[a]? = w[v]? := by
    intro v hv
    have h1 := hu v hv
    have h2 : u v < F.outs.length := by
      rw [hlen']; exact (List.getElem?_eq_some_iff.1 h1).1
    refine ⟨F.outs[u v], List.getElem?_eq_getElem h2, f2 _ (List.getElem_mem h2), ?_, ?_⟩
    · simp [List.getD_eq_getElem?_getD, List.getElem?_eq_getElem h2]
    · exact hlab (u v) _ v (List.getElem?_eq_getElem h2) h1
  let q : Nat → Nat := fun i => if i < F.n then i else F.outs.getD (u (i - F.n)) 0
  have qL : ∀ i, i < F.n → q i = i := fun i hi => if_pos hi
  have qR : ∀ v, q (F.n + v) = F.outs.getD (u v) 0 := by
    intro v
    show (if F.n + v < F.n then _ else _) = _
    rw [if_neg (by omega), Nat.add_sub_cancel_left]
  have qlt : ∀ i, i < F.n + w.length → q i < F.n := by
    intro i hi
    by_cases h : i < F.n
    · rw [qL i h]; exact h
    · obtain ⟨a, _, ha, e, _⟩ := key (i - F.n) (by omega)
      have : i = F.n + (i - F.n) := by omega
      rw [this, qR, e]; exact ha
  refine ⟨q, ?_, ?_, ?_, ?_, ?_, ?_, ?_⟩
  · intro i hi
    rw [hn] at hi
    exact qlt i hi
  · intro k hk
    exact ⟨k, by rw [hn]; show k < F.n + _; have : k < F.n := hk; omega, qL k hk⟩
  · rw [hn]
    refine kernel_of_retraction ?_ ?_
    · intro i hi
      by_cases h : i < F.n
      · rw [qL i h]; exact EqvGen.refl _
      · obtain ⟨a, h1, ha, e, _⟩ := key (i - F.n) (by omega)
        have ei : i = F.n + (i - F.n) := by omega
        have : q i = a := by rw [ei, qR, e]
        rw [this]
        apply EqvGen.symm
        refine EqvOn.of_rel (by omega) hi ⟨u (i - F.n), h1, ?_⟩
        show (s[u (i - F.n)]?).map (F.n + ·) = some i
        rw [hu _ (by omega)]
        show some (F.n + (i - F.n)) = some i
        rw [← ei]
    · rintro a b _ _ ⟨k, hk1, hk2⟩
      have hk2' : (s[k]?).map (F.n + ·) = some b := hk2
      cases hv : s[k]? with
      | none => rw [hv] at hk2'; cases hk2'
      | some v =>
        rw [hv] at hk2'
        have hb : b = F.n + v := (Option.some.inj hk2').symm
        have ha : a < F.n := f2 a (List.mem_of_getElem? hk1)
        rw [hb, qL a ha, qR, hs k v hv]
        simp [List.getD_eq_getElem?_getD, hk1]
  · intro i hi
    rw [hn] at hi
    show F.nodes[q i]? = (F.nodes ++ w)[i]?
    by_cases h : i < F.n
    · rw [qL i h, List.getElem?_append_left h]
    · obtain ⟨a, _, _, e, hl⟩ := key (i - F.n) (by omega)
      have ei : i = F.n + (i - F.n) := by omega
      have : q i = a := by rw [ei, qR, e]
      rw [this, hl, List.getElem?_append_right (by show F.n ≤ i; omega)]
      rfl
  · show F.edges = List.map _ (F.edges ++ List.map _ [])
    rw [List.map_nil, List.append_nil]
    conv => lhs; rw [← List.map_id F.edges]
    apply List.map_congr_left
    intro e he
    rw [id, ← PEdge.mapNodes_id e]
    rw [PEdge.mapNodes_comp]
    exact PEdge.mapNodes_congr (fun v hv => (qL v ((f3 e he).1 v hv)).symm)
      (fun v hv => (qL v ((f3 e he).2 v hv)).symm)
  · show F.ins = F.ins.map q
    conv => lhs; rw [← List.map_id F.ins]
    exact List.map_congr_left (fun v hv => (qL v (f1 v hv)).symm)
  · show t.map _ = (t.map (F.n + ·)).map q
    rw [List.map_map]
    exact List.map_congr_left (fun v _ => (qR v).symm)

theorem iso_dagger {P Q : PDiag O A} (h : P ≅ Q) : P.dagger ≅ Q.dagger := by
  obtain ⟨π, ρ, h1, h2, h3, h4, h5, h6⟩ := h
  exact ⟨π, ρ, h1, h2, h3, h4, h6, h5⟩

/-- GLUING WITH A PERMUTATION ON THE LEFT: the mirror image (the output leg `t` of the spider
    lists every node of `w` exactly once) -/
theorem glue_perm_left {F L : PDiag O A} {w : List O} {s t : List Nat} {u : Nat → Nat}
    (hF : F.wf = true) (hS : (⟨w, [], s, t⟩ : PDiag O A).wf = true)
    (hty : (⟨w, [], s, t⟩ : PDiag O A).targetType = F.sourceType)
    (ht : ∀ k v, t[k]? = some v → u v = k) (hu : ∀ v, v < w.length → t[u v]? = some v)
    (hL : IsGluing ⟨w, [], s, t⟩ F L) :
    L ≅ ⟨F.nodes, F.edges, s.map (fun v => F.ins.getD (u v) 0), F.outs⟩ := by
  have h' := isGluing_perm_right (F := F.dagger) (w := w) (s := t) (t := s) (u := u)
    (C04.pdagger_wf hF) hty.symm ht hu
  have := C04.gluing_dagger hS hF hL h'
  exact iso_dagger this

/-- … and the right-hand version as an isomorphism statement -/
theorem glue_perm_right {F L : PDiag O A} {w : List O} {s t : List Nat} {u : Nat → Nat}
    (hF : F.wf = true) (hS : (⟨w, [], s, t⟩ : PDiag O A).wf = true)
    (hty : F.targetType = (⟨w, [], s, t⟩ : PDiag O A).sourceType)
    (hs : ∀ k v, s[k]? = some v → u v = k) (hu : ∀ v, v < w.length → s[u v]? = some v)
    (hL : IsGluing F ⟨w, [], s, t⟩ L) :
    L ≅ ⟨F.nodes, F.edges, F.ins, t.map (fun v => F.outs.getD (u v) 0)⟩ :=
  isGluing_unique hF hS hL (isGluing_perm_right hF hty hs hu)

/-! ### reading one interface through another: list arithmetic -/

/-- the block of positions `[|X|, |X|+|Y|)` of `X ++ Y ++ Z` is `Y` -/
theorem map_getD_range'_mid {X Y Z : List Nat} {s n : Nat} (hs : s = X.length) (hn : n = Y.length) :
    (List.range' s n).map (fun v => (X ++ Y ++ Z).getD v 0) = Y := by
  subst hs hn
  apply List.ext_getElem?
  intro k
  rw [List.getElem?_map]
  by_cases hk : k < Y.length
  · rw [List.getElem?_range' hk]
    simp [List.getD_eq_getElem?_getD, List.getElem?_append_left, List.getElem?_append_right, hk]
  · rw [List.getElem?_eq_none (by simpa using hk), List.getElem?_eq_none (by simpa using hk)]
    rfl

/-- reading `X ++ Y` through the block swap gives `Y ++ X` -/
theorem map_getD_block_swap {X Y : List Nat} {x y : Nat} (hx : x = X.length) (hy : y = Y.length) :
    (List.range' x y ++ List.range x).map (fun v => (X ++ Y).getD v 0) = Y ++ X := by
  rw [List.map_append]
  congr 1
  · simpa using map_getD_range'_mid (X := X) (Y := Y) (Z := []) hx hy
  · rw [List.range_eq_range']
    simpa using map_getD_range'_mid (X := []) (Y := X) (Z := Y) rfl hx

theorem range_append_range' (a b : Nat) : List.range a ++ List.range' a b = List.range (a + b) := by
  rw [List.range_eq_range', List.range_eq_range']
  simpa using List.range'_append_1 (s := 0) (m := a) (n := b)

theorem pick_mid {X Y Z L : List Nat} {s n : Nat} (hL : L = X ++ Y ++ Z) (hs : s = X.length)
    (hn : n = Y.length) : (List.range' s n).map (fun v => L.getD v 0) = Y := by
  subst hL; exact map_getD_range'_mid hs hn

/-- the input interface of `(σ_{a,b} ⊗ id_c) ; (id_b ⊗ σ_{a,c})` is that of `σ_{a, b ● c}` -/
theorem hexagon_ins (na nb nc k1 k2 k3 : Nat) (h1 : k1 = nb + na) (h2 : k2 = nb) (h3 : k3 = nb + nc) :
    ((List.range' nb na ++ List.range nb) ++ (List.range nc).map (k1 + ·)).map
      (fun v => (List.range nb ++ (List.range' nc na ++ List.range nc).map (k2 + ·)).getD v 0) =
    List.range' k3 na ++ List.range k3 := by
  rw [h1, h2, h3]
  have hy : List.range nb ++ (List.range' nc na ++ List.range nc).map (nb + ·) =
      List.range nb ++ List.range' (nb + nc) na ++ List.range' nb nc := by
    rw [List.map_append, List.map_add_range', ← List.range'_eq_map_range, List.append_assoc]
  have p1 := pick_mid (X := List.range nb) (Y := List.range' (nb + nc) na)
    (Z := List.range' nb nc) (s := nb) (n := na) rfl (by simp) (by simp)
  have p2 := pick_mid (X := []) (Y := List.range nb)
    (Z := List.range' (nb + nc) na ++ List.range' nb nc) (s := 0) (n := nb)
    (L := List.range nb ++ List.range' (nb + nc) na ++ List.range' nb nc) (by simp) rfl (by simp)
  have p3 := pick_mid (X := List.range nb ++ List.range' (nb + nc) na) (Y := List.range' nb nc)
    (Z := []) (s := nb + na) (n := nc)
    (L := List.range nb ++ List.range' (nb + nc) na ++ List.range' nb nc) (by simp) (by simp)
    (by simp)
  rw [← List.range_eq_range'] at p2
  rw [hy, List.map_append, List.map_append, ← List.range'_eq_map_range, p1, p2, p3,
    List.append_assoc, range_append_range']

/-- the input interface of `(id_a ⊗ σ_{b,c}) ; (σ_{a,c} ⊗ id_b)` is that of `σ_{a ● b, c}` -/
theorem hexagon_mirror_ins (na nb nc k1 k2 k3 : Nat) (h1 : k1 = na) (h2 : k2 = nc + na)
    (h3 : k3 = na + nb) :
    (List.range na ++ (List.range' nc nb ++ List.range nc).map (k1 + ·)).map
      (fun v => ((List.range' nc na ++ List.range nc) ++ (List.range nb).map (k2 + ·)).getD v 0) =
    List.range' nc k3 ++ List.range nc := by
  rw [h1, h2, h3]
  have hy : (List.range' nc na ++ List.range nc) ++ (List.range nb).map (nc + na + ·) =
      List.range' nc na ++ List.range nc ++ List.range' (nc + na) nb := by
    rw [← List.range'_eq_map_range]
  have p1 := pick_mid (X := []) (Y := List.range' nc na)
    (Z := List.range nc ++ List.range' (nc + na) nb) (s := 0) (n := na)
    (L := List.range' nc na ++ List.range nc ++ List.range' (nc + na) nb) (by simp) rfl (by simp)
  have p2 := pick_mid (X := List.range' nc na ++ List.range nc) (Y := List.range' (nc + na) nb)
    (Z := []) (s := na + nc) (n := nb)
    (L := List.range' nc na ++ List.range nc ++ List.range' (nc + na) nb) (by simp) (by simp)
    (by simp)
  have p3 := pick_mid (X := List.range' nc na) (Y := List.range nc)
    (Z := List.range' (nc + na) nb) (s := na) (n := nc) rfl (by simp) (by simp)
  rw [← List.range_eq_range'] at p1
  rw [hy, List.map_append, List.map_append, List.map_add_range', ← List.range'_eq_map_range,
    List.map_append, p1, p2, p3, ← List.append_assoc, List.range'_append_1]

theorem range_append_map (n m k : Nat) (h : k = n) :
    List.range n ++ (List.range m).map (k + ·) = List.range (n + m) := by
  subst h
  rw [← List.range'_eq_map_range, range_append_range']

theorem range_getElem?_some {n k v : Nat} (h : (List.range n)[k]? = some v) : v = k ∧ k < n := by
  obtain ⟨h1, h2⟩ := List.getElem?_eq_some_iff.1 h
  simp at h1 h2
  exact ⟨h2.symm, h1⟩

/-- gluing with a spider whose output leg is the identity, on the left: only the input interface
    of `F` is re-read through the spider's input leg -/
theorem glue_idleg_left {F L : PDiag O A} {w : List O} {s : List Nat} (hF : F.wf = true)
    (hS : (⟨w, [], s, List.range w.length⟩ : PDiag O A).wf = true)
    (hty : (⟨w, [], s, List.range w.length⟩ : PDiag O A).targetType = F.sourceType)
    (hL : IsGluing ⟨w, [], s, List.range w.length⟩ F L) :
    L ≅ ⟨F.nodes, F.edges, s.map (fun v => F.ins.getD v 0), F.outs⟩ :=
  glue_perm_left (u := fun v => v) hF hS hty (fun _ _ h => (range_getElem?_some h).1)
    (fun v hv => by simp [hv]) hL

/-- … and on the right, with the identity as input leg -/
theorem glue_idleg_right {F L : PDiag O A} {w : List O} {t : List Nat} (hF : F.wf = true)
    (hS : (⟨w, [], List.range w.length, t⟩ : PDiag O A).wf = true)
    (hty : F.targetType = (⟨w, [], List.range w.length, t⟩ : PDiag O A).sourceType)
    (hL : IsGluing F ⟨w, [], List.range w.length, t⟩ L) :
    L ≅ ⟨F.nodes, F.edges, F.ins, t.map (fun v => F.outs.getD v 0)⟩ :=
  glue_perm_right (u := fun v => v) hF hS hty (fun _ _ h => (range_getElem?_some h).1)
    (fun v hv => by simp [hv]) hL

/-- IDENTITIES ARE UNITS for gluing, up to isomorphism -/
theorem glue_id_left {F L : PDiag O A} {w : List O} (hF : F.wf = true)
    (hty : (⟨w, [], List.range w.length, List.range w.length⟩ : PDiag O A).targetType =
      F.sourceType)
    (hL : IsGluing ⟨w, [], List.range w.length, List.range w.length⟩ F L) : L ≅ F := by
  have hS : (⟨w, [], List.range w.length, List.range w.length⟩ : PDiag O A).wf = true := by
    exact (PDiag.wf_iff _).2 ⟨fun i hi => List.mem_range.1 hi, fun i hi => List.mem_range.1 hi,
      fun e he => by cases he⟩
  have := glue_idleg_left hF hS hty hL
  have hlen : w.length = F.ins.length := by
    simpa [PDiag.targetType, PDiag.sourceType] using congrArg List.length hty
  rwa [hlen, map_getD_range] at this

theorem glue_id_right {F L : PDiag O A} {w : List O} (hF : F.wf = true)
    (hty : F.targetType =
      (⟨w, [], List.range w.length, List.range w.length⟩ : PDiag O A).sourceType)
    (hL : IsGluing F ⟨w, [], List.range w.length, List.range w.length⟩ L) : L ≅ F := by
  have hS : (⟨w, [], List.range w.length, List.range w.length⟩ : PDiag O A).wf = true := by
    exact (PDiag.wf_iff _).2 ⟨fun i hi => List.mem_range.1 hi, fun i hi => List.mem_range.1 hi,
      fun e he => by cases he⟩
  have := glue_idleg_right hF hS hty hL
  have hlen : F.outs.length = w.length := by
    simpa [PDiag.targetType, PDiag.sourceType] using congrArg List.length hty
  rwa [← hlen, map_getD_range] at this

/-! ### interchange -/

/-- exchange of the two middle blocks of `[0,a) + [0,b) + [0,c) + …` -/
def midSwap (a b c i : Nat) : Nat :=
  if i < a then i else if i < a + b then i + c else if i < a + b + c then i - b else i

theorem midSwap_1 {a b c v : Nat} (h : v < a) : midSwap a b c v = v := if_pos h
theorem midSwap_2 {a b c v : Nat} (h : v < b) : midSwap a b c (a + v) = a + c + v := by
  unfold midSwap; rw [if_neg (by omega), if_pos (by omega)]; omega
theorem midSwap_3 {a b c v : Nat} (h : v < c) : midSwap a b c (a + b + v) = a + v := by
  unfold midSwap; rw [if_neg (by omega), if_neg (by omega), if_pos (by omega)]; omega
theorem midSwap_4 (a b c v : Nat) : midSwap a b c (a + b + c + v) = a + c + b + v := by
  unfold midSwap; rw [if_neg (by omega), if_neg (by omega), if_neg (by omega)]; omega

theorem midSwap_bijOn (a b c d : Nat) : BijOn (a + b + c + d) (a + c + b + d) (midSwap a b c) := by
  refine ⟨?_, ?_, ?_⟩
  · intro i hi; unfold midSwap; split
    · omega
    · split
      · omega
      · split <;> omega
  · intro i j _ _ h
    unfold midSwap at h
    repeat' split at h
    all_goals omega
  · intro k hk
    by_cases h1 : k < a
    · exact ⟨k, by omega, midSwap_1 h1⟩
    · by_cases h2 : k < a + c
      · exact ⟨a + b + (k - a), by omega, by rw [midSwap_3 (by omega)]; omega⟩
      · by_cases h3 : k < a + c + b
        · exact ⟨a + (k - a - c), by omega, by rw [midSwap_2 (by omega)]; omega⟩
        · exact ⟨a + b + c + (k - a - c - b), by omega, by rw [midSwap_4]; omega⟩

theorem getElem?_append_add {α : Type} {X Y : List α} {n : Nat} (h : n = X.length) (v : Nat) :
    (X ++ Y)[n + v]? = Y[v]? := by
  subst h; rw [List.getElem?_append_right (Nat.le_add_right _ _), Nat.add_sub_cancel_left]

theorem getElem?_midSwap {α : Type} (A B C D : List α) (i : Nat) :
    ((A ++ C) ++ (B ++ D))[midSwap A.length B.length C.length i]? = ((A ++ B) ++ (C ++ D))[i]? := by
  by_cases h1 : i < A.length
  · rw [midSwap_1 h1, List.getElem?_append_left (by simp; omega), List.getElem?_append_left h1,
      List.getElem?_append_left (by simp; omega), List.getElem?_append_left h1]
  · by_cases h2 : i < A.length + B.length
    · obtain ⟨v, rfl⟩ : ∃ v, i = A.length + v := ⟨i - A.length, by omega⟩
      have hv : v < B.length := by omega
      rw [midSwap_2 hv, getElem?_append_add (by simp) v, List.getElem?_append_left hv,
        List.getElem?_append_left (by simp; omega), getElem?_append_add rfl v]
    · by_cases h3 : i < A.length + B.length + C.length
      · obtain ⟨v, rfl⟩ : ∃ v, i = A.length + B.length + v := ⟨i - (A.length + B.length), by omega⟩
        have hv : v < C.length := by omega
        rw [midSwap_3 hv, List.getElem?_append_left (by simp; omega), getElem?_append_add rfl v,
          getElem?_append_add (by simp) v, List.getElem?_append_left hv]
      · obtain ⟨v, rfl⟩ : ∃ v, i = A.length + B.length + C.length + v :=
          ⟨i - (A.length + B.length + C.length), by omega⟩
        rw [midSwap_4,
          show A.length + C.length + B.length + v = (A.length + C.length) + (B.length + v) by omega,
          getElem?_append_add (by simp) _, getElem?_append_add rfl v,
          show A.length + B.length + C.length + v = (A.length + B.length) + (C.length + v) by omega,
          getElem?_append_add (by simp) _, getElem?_append_add rfl v]

/-- relabelling edges whose nodes are `< n` only depends on the relabelling below `n` -/
theorem map_mapNodes_congr {E : List (PEdge A)} {φ ψ : Nat → Nat} {n : Nat}
    (hE : ∀ e ∈ E, (∀ v ∈ e.src, v < n) ∧ (∀ v ∈ e.tgt, v < n)) (h : ∀ v, v < n → φ v = ψ v) :
    E.map (PEdge.mapNodes φ) = E.map (PEdge.mapNodes ψ) :=
  List.map_congr_left (fun e he => PEdge.mapNodes_congr (fun v hv => h v ((hE e he).1 v hv))
    (fun v hv => h v ((hE e he).2 v hv)))

theorem map_mapNodes_map (E : List (PEdge A)) (φ ψ : Nat → Nat) :
    (E.map (PEdge.mapNodes φ)).map (PEdge.mapNodes ψ) = E.map (PEdge.mapNodes (fun v => ψ (φ v))) := by
  rw [List.map_map]
  exact List.map_congr_left (fun e _ => PEdge.mapNodes_comp φ ψ e)

theorem map_mapNodes_id (E : List (PEdge A)) : E.map (PEdge.mapNodes (fun v => v)) = E := by
  conv => rhs; rw [← List.map_id E]
  exact List.map_congr_left (fun e _ => PEdge.mapNodes_id e)

theorem map_congr_lt {l : List Nat} {φ ψ : Nat → Nat} {n : Nat} (hl : ∀ v ∈ l, v < n)
    (h : ∀ v, v < n → φ v = ψ v) : l.map φ = l.map ψ :=
  List.map_congr_left (fun v hv => h v (hl v hv))

/-- the presentation of `(F ⊗ G) ; (F' ⊗ G')` is the presentation of `(F ; F') ⊗ (G ; G')` with
    the two middle blocks (of nodes and of edges) exchanged -/
theorem interchange_isoVia {F G F' G' : PDiag O A} (hF : F.wf = true) (hG : G.wf = true)
    (hF' : F'.wf = true) (hG' : G'.wf = true) :
    IsoVia (gluePre (PDiag.juxt F G) (PDiag.juxt F' G'))
      (PDiag.juxt (gluePre F F') (gluePre G G'))
      (midSwap F.n G.n F'.n) (midSwap F.edges.length G.edges.length F'.edges.length) := by
  obtain ⟨f1, f2, f3⟩ := (PDiag.wf_iff F).1 hF
  obtain ⟨g1, g2, g3⟩ := (PDiag.wf_iff G).1 hG
  obtain ⟨f1', f2', f3'⟩ := (PDiag.wf_iff F').1 hF'
  obtain ⟨g1', g2', g3'⟩ := (PDiag.wf_iff G').1 hG'
  have s1 : ∀ v, v < F.n → midSwap F.n G.n F'.n v = v := fun v hv => midSwap_1 hv
  have s2 : ∀ v, v < G.n → midSwap F.n G.n F'.n (F.n + v) = F.n + F'.n + v :=
    fun v hv => midSwap_2 hv
  have s3 : ∀ v, v < F'.n → midSwap F.n G.n F'.n (F.n + G.n + v) = F.n + v :=
    fun v hv => midSwap_3 hv
  have s4 : ∀ v, v < G'.n → midSwap F.n G.n F'.n (F.n + G.n + (F'.n + v)) = F.n + F'.n + (G.n + v) := by
    intro v _
    rw [show F.n + G.n + (F'.n + v) = F.n + G.n + F'.n + v by omega, midSwap_4]; omega
  refine ⟨?_, ?_, ?_, ?_, ?_, ?_⟩
  · rw [gluePre_n, juxt_n, juxt_n, juxt_n, gluePre_n, gluePre_n]
    have := midSwap_bijOn F.n G.n F'.n G'.n
    rwa [show F.n + G.n + (F'.n + G'.n) = F.n + G.n + F'.n + G'.n by omega,
      show F.n + F'.n + (G.n + G'.n) = F.n + F'.n + G.n + G'.n by omega]
  · have e1 : (gluePre (PDiag.juxt F G) (PDiag.juxt F' G')).edges.length =
        F.edges.length + G.edges.length + F'.edges.length + G'.edges.length := by
      simp [gluePre, PDiag.juxt]; omega
    have e2 : (PDiag.juxt (gluePre F F') (gluePre G G')).edges.length =
        F.edges.length + F'.edges.length + G.edges.length + G'.edges.length := by
      simp [gluePre, PDiag.juxt]; omega
    rw [e1, e2]
    exact midSwap_bijOn _ _ _ _
  · intro i _
    exact getElem?_midSwap F.nodes G.nodes F'.nodes G'.nodes i
  · intro e _
    rw [← List.getElem?_map]
    have hE1 : (gluePre (PDiag.juxt F G) (PDiag.juxt F' G')).edges.map
        (PEdge.mapNodes (midSwap F.n G.n F'.n)) =
        (F.edges ++ G.edges.map (PEdge.mapNodes (F.n + F'.n + ·))) ++
          (F'.edges.map (PEdge.mapNodes (F.n + ·)) ++
            G'.edges.map (PEdge.mapNodes (fun v => F.n + F'.n + (G.n + v)))) := by
      show List.map _ ((F.edges ++ G.edges.map (PEdge.mapNodes (F.n + ·))) ++
        (F'.edges ++ G'.edges.map (PEdge.mapNodes (F'.n + ·))).map
          (PEdge.mapNodes ((PDiag.juxt F G).n + ·))) = _
      rw [juxt_n]
      simp only [List.map_append, map_mapNodes_map]
      rw [map_mapNodes_congr f3 s1, map_mapNodes_id, map_mapNodes_congr g3 s2,
        map_mapNodes_congr f3' s3, map_mapNodes_congr g3' s4]
    have hE2 : (PDiag.juxt (gluePre F F') (gluePre G G')).edges =
        (F.edges ++ F'.edges.map (PEdge.mapNodes (F.n + ·))) ++
          (G.edges.map (PEdge.mapNodes (F.n + F'.n + ·)) ++
            G'.edges.map (PEdge.mapNodes (fun v => F.n + F'.n + (G.n + v)))) := by
      show (F.edges ++ F'.edges.map (PEdge.mapNodes (F.n + ·))) ++
        (G.edges ++ G'.edges.map (PEdge.mapNodes (G.n + ·))).map
          (PEdge.mapNodes ((gluePre F F').n + ·)) = _
      rw [gluePre_n]
      simp only [List.map_append, map_mapNodes_map]
    rw [hE1, hE2]
    have := getElem?_midSwap F.edges (G.edges.map (PEdge.mapNodes (F.n + F'.n + ·)))
      (F'.edges.map (PEdge.mapNodes (F.n + ·)))
      (G'.edges.map (PEdge.mapNodes (fun v => F.n + F'.n + (G.n + v)))) e
    simpa only [List.length_map] using this
  · show (gluePre F F').ins ++ (gluePre G G').ins.map ((gluePre F F').n + ·) =
      List.map _ (F.ins ++ G.ins.map (F.n + ·))
    rw [gluePre_n, List.map_append, List.map_map, map_congr_lt f1 s1, List.map_id']
    congr 1
    exact (map_congr_lt g1 s2).symm
  · show (gluePre F F').outs ++ (gluePre G G').outs.map ((gluePre F F').n + ·) =
      List.map _ ((F'.outs ++ G'.outs.map (F'.n + ·)).map ((PDiag.juxt F G).n + ·))
    rw [gluePre_n, juxt_n]
    show F'.outs.map (F.n + ·) ++ (G'.outs.map (G.n + ·)).map (F.n + F'.n + ·) = _
    simp only [List.map_append, List.map_map]
    congr 1
    · exact (map_congr_lt f2' s3).symm
    · exact (map_congr_lt g2' s4).symm

/-- INTERCHANGE: gluing two juxtapositions = juxtaposing the two gluings, up to isomorphism
    (the first components must have equally long shared boundaries) -/
theorem glue_interchange {F G F' G' X Y L : PDiag O A} (hF : F.wf = true) (hG : G.wf = true)
    (hF' : F'.wf = true) (hG' : G'.wf = true) (hlen : F.outs.length = F'.ins.length)
    (hX : IsGluing F F' X) (hY : IsGluing G G' Y)
    (hL : IsGluing (PDiag.juxt F G) (PDiag.juxt F' G') L) : L ≅ PDiag.juxt X Y := by
  obtain ⟨f1, f2, f3⟩ := (PDiag.wf_iff F).1 hF
  obtain ⟨g1, g2, g3⟩ := (PDiag.wf_iff G).1 hG
  obtain ⟨f1', f2', f3'⟩ := (PDiag.wf_iff F').1 hF'
  obtain ⟨g1', g2', g3'⟩ := (PDiag.wf_iff G').1 hG'
  have hXY := IsQuot.juxt (gluePre_wf hF hF') hX hY
  have hn1 : (gluePre (PDiag.juxt F G) (PDiag.juxt F' G')).n = F.n + G.n + (F'.n + G'.n) := by
    rw [gluePre_n, juxt_n, juxt_n]
  have hn2 : (PDiag.juxt (gluePre F F') (gluePre G G')).n = F.n + F'.n + (G.n + G'.n) := by
    rw [juxt_n, gluePre_n, gluePre_n]
  have s4 : ∀ v, midSwap F.n G.n F'.n (F.n + G.n + (F'.n + v)) = F.n + F'.n + (G.n + v) := by
    intro v
    rw [show F.n + G.n + (F'.n + v) = F.n + G.n + F'.n + v by omega, midSwap_4]; omega
  refine isQuot_iso_of_isoVia (gluePre_wf (juxt_wf hF hG) (juxt_wf hF' hG'))
    (interchange_isoVia hF hG hF' hG') hL hXY ?_ ?_
  · rintro a b _ _ ⟨k, hk1, hk2⟩
    have hk1' : (F.outs ++ G.outs.map (F.n + ·))[k]? = some a := hk1
    have hk2' : ((F'.ins ++ G'.ins.map (F'.n + ·))[k]?).map ((PDiag.juxt F G).n + ·) = some b := hk2
    rw [juxt_n] at hk2'
    by_cases hk : k < F.outs.length
    · rw [List.getElem?_append_left hk] at hk1'
      rw [List.getElem?_append_left (hlen ▸ hk)] at hk2'
      cases hc : F'.ins[k]? with
      | none => rw [hc] at hk2'; cases hk2'
      | some c =>
        rw [hc] at hk2'
        have hb : b = F.n + G.n + c := (Option.some.inj hk2').symm
        have ha : a < F.n := f2 a (List.mem_of_getElem? hk1')
        have hc' : c < F'.n := f1' c (List.mem_of_getElem? hc)
        rw [hb, midSwap_1 ha, midSwap_3 hc']
        refine EqvOn.of_rel (by rw [hn2]; omega) (by rw [hn2]; omega) (Or.inl ⟨?_, ?_, k, hk1', ?_⟩)
        · rw [gluePre_n]; omega
        · rw [gluePre_n]; omega
        · rw [hc]; rfl
    · rw [List.getElem?_append_right (by omega), List.getElem?_map] at hk1'
      rw [List.getElem?_append_right (by omega), List.getElem?_map, ← hlen] at hk2'
      cases ha0 : G.outs[k - F.outs.length]? with
      | none => rw [ha0] at hk1'; cases hk1'
      | some a0 =>
        rw [ha0] at hk1'
        cases hc : G'.ins[k - F.outs.length]? with
        | none => rw [hc] at hk2'; cases hk2'
        | some c0 =>
          rw [hc] at hk2'
          have ha : a = F.n + a0 := (Option.some.inj hk1').symm
          have hb : b = F.n + G.n + (F'.n + c0) := (Option.some.inj hk2').symm
          have ha0' : a0 < G.n := g2 a0 (List.mem_of_getElem? ha0)
          have hc' : c0 < G'.n := g1' c0 (List.mem_of_getElem? hc)
          rw [ha, hb, midSwap_2 ha0', s4]
          refine EqvOn.of_rel (by rw [hn2]; omega) (by rw [hn2]; omega)
            (Or.inr ⟨by rw [gluePre_n]; omega, by rw [gluePre_n]; omega, k - F.outs.length, ?_, ?_⟩)
          · rw [gluePre_n, Nat.add_sub_cancel_left]; exact ha0
          · rw [gluePre_n, Nat.add_sub_cancel_left, hc]; rfl
  · rintro a' b' _ _ (⟨_, _, k, hk1, hk2⟩ | ⟨hl1, hl2, k, hk1, hk2⟩)
    · cases hc : F'.ins[k]? with
      | none => rw [hc] at hk2; cases hk2
      | some c =>
        rw [hc] at hk2
        have hb : b' = F.n + c := (Option.some.inj hk2).symm
        have ha : a' < F.n := f2 a' (List.mem_of_getElem? hk1)
        have hc' : c < F'.n := f1' c (List.mem_of_getElem? hc)
        have hk : k < F.outs.length := (List.getElem?_eq_some_iff.1 hk1).1
        refine ⟨a', F.n + G.n + c, by rw [hn1]; omega, by rw [hn1]; omega, midSwap_1 ha, ?_, ?_⟩
        · rw [midSwap_3 hc', hb]
        · refine EqvOn.of_rel (by rw [hn1]; omega) (by rw [hn1]; omega) ⟨k, ?_, ?_⟩
          · show (F.outs ++ G.outs.map (F.n + ·))[k]? = some a'
            rw [List.getElem?_append_left hk, hk1]
          · show ((F'.ins ++ G'.ins.map (F'.n + ·))[k]?).map ((PDiag.juxt F G).n + ·) = _
            rw [List.getElem?_append_left (hlen ▸ hk), hc, juxt_n]; rfl
    · rw [gluePre_n] at hl1 hl2 hk1 hk2
      cases hc : G'.ins[k]? with
      | none => rw [hc] at hk2; cases hk2
      | some c0 =>
        rw [hc] at hk2
        have hb : G.n + c0 = b' - (F.n + F'.n) := Option.some.inj hk2
        have ha0' : a' - (F.n + F'.n) < G.n := g2 _ (List.mem_of_getElem? hk1)
        have hc' : c0 < G'.n := g1' c0 (List.mem_of_getElem? hc)
        refine ⟨F.n + (a' - (F.n + F'.n)), F.n + G.n + (F'.n + c0), by rw [hn1]; omega,
          by rw [hn1]; omega, ?_, ?_, ?_⟩
        · rw [midSwap_2 ha0']; omega
        · rw [s4]; omega
        · refine EqvOn.of_rel (by rw [hn1]; omega) (by rw [hn1]; omega) ⟨F.outs.length + k, ?_, ?_⟩
          · show (F.outs ++ G.outs.map (F.n + ·))[F.outs.length + k]? = _
            rw [getElem?_append_add rfl, List.getElem?_map, hk1]; rfl
          · show ((F'.ins ++ G'.ins.map (F'.n + ·))[F.outs.length + k]?).map
              ((PDiag.juxt F G).n + ·) = _
            rw [hlen, getElem?_append_add rfl, List.getElem?_map, hc, juxt_n]; rfl

/-! ### gluing with a symmetry -/

/-- reading `X ++ Y` through the inverse block swap gives `Y ++ X` -/
theorem map_getD_unswap {X Y : List Nat} {b d : Nat} (hx : b = X.length) (hy : d = Y.length) :
    (List.range (b + d)).map (fun v => (X ++ Y).getD (if v < d then b + v else v - d) 0) = Y ++ X := by
  subst hx hy
  apply List.ext_getElem?
  intro k
  rw [List.getElem?_map]
  by_cases hk : k < X.length + Y.length
  · rw [List.getElem?_range hk]
    simp only [Option.map_some, List.getD_eq_getElem?_getD]
    by_cases h1 : k < Y.length
    · rw [if_pos h1, getElem?_append_add rfl, List.getElem?_append_left h1,
        List.getElem?_eq_getElem h1]
      rfl
    · rw [if_neg h1, List.getElem?_append_left (by omega),
        List.getElem?_append_right (by omega), List.getElem?_eq_getElem (by omega)]
      rfl
  · rw [List.getElem?_eq_none (by simpa using hk), List.getElem?_eq_none (by simp; omega)]
    rfl

/-- the position of a node in the input leg of a symmetry -/
theorem twist_leg_pos (b d : Nat) :
    (∀ k v, (List.range' d b ++ List.range d)[k]? = some v → (if v < d then b + v else v - d) = k) ∧
    (∀ v, v < d + b → (List.range' d b ++ List.range d)[if v < d then b + v else v - d]? = some v) := by
  constructor
  · intro k v h
    by_cases hk : k < b
    · rw [List.getElem?_append_left (by simpa using hk), List.getElem?_range' hk] at h
      have := Option.some.inj h
      rw [if_neg (by omega)]; omega
    · rw [List.getElem?_append_right (by simpa using hk)] at h
      simp only [List.length_range'] at h
      obtain ⟨h1, h2⟩ := range_getElem?_some h
      rw [if_pos (by omega)]; omega
  · intro v hv
    by_cases h1 : v < d
    · rw [if_pos h1, getElem?_append_add (by simp), List.getElem?_range h1]
    · rw [if_neg h1, List.getElem?_append_left (by simp; omega), List.getElem?_range' (by omega)]
      congr 1; omega

/-- the plain diagram of the symmetry `σ_{x,y} : x ● y → y ● x` -/
def twistP (x y : List O) : PDiag O A :=
  ⟨y ++ x, [], List.range' y.length x.length ++ List.range y.length,
    List.range (x.length + y.length)⟩

theorem twistP_wf (x y : List O) : (twistP x y : PDiag O A).wf = true := by
  refine (PDiag.wf_iff _).2 ⟨?_, ?_, fun e he => by cases he⟩
  · intro i hi
    show i < (y ++ x).length
    rw [List.length_append]
    rcases List.mem_append.1 hi with h | h
    · have := List.mem_range'_1.1 h; omega
    · have := List.mem_range.1 h; omega
  · intro i hi
    show i < (y ++ x).length
    rw [List.length_append]
    have := List.mem_range.1 hi; omega

/-- gluing with a symmetry on the right exchanges the two blocks of the output interface -/
theorem glue_twist_right {P L : PDiag O A} {wB wD : List O} {X Y : List Nat} (hP : P.wf = true)
    (hX : P.outs = X ++ Y) (hx : X.length = wB.length)
    (hty : P.targetType = (twistP wB wD : PDiag O A).sourceType)
    (hL : IsGluing P (twistP wB wD) L) : L ≅ ⟨P.nodes, P.edges, P.ins, Y ++ X⟩ := by
  have hlen : P.outs.length = wB.length + wD.length := by
    have := congrArg List.length hty
    simpa [PDiag.targetType, PDiag.sourceType, twistP] using this
  have hy : wD.length = Y.length := by
    rw [hX, List.length_append] at hlen; omega
  have := glue_perm_right (u := fun v => if v < wD.length then wB.length + v else v - wD.length)
    hP (twistP_wf wB wD) hty (twist_leg_pos wB.length wD.length).1
    (fun v hv => (twist_leg_pos wB.length wD.length).2 v (by simpa using hv)) hL
  rwa [hX, map_getD_unswap hx.symm hy] at this

/-- gluing with a symmetry on the left exchanges the two blocks of the input interface -/
theorem glue_twist_left {P L : PDiag O A} {wA wC : List O} {X Y : List Nat} (hP : P.wf = true)
    (hX : P.ins = X ++ Y) (hx : X.length = wC.length)
    (hty : (twistP wA wC : PDiag O A).targetType = P.sourceType)
    (hL : IsGluing (twistP wA wC) P L) : L ≅ ⟨P.nodes, P.edges, Y ++ X, P.outs⟩ := by
  have hlen : wA.length + wC.length = P.ins.length := by
    have := congrArg List.length hty
    simpa [PDiag.targetType, PDiag.sourceType, twistP] using this
  have hy : wA.length = Y.length := by
    rw [hX, List.length_append] at hlen; omega
  have hn : wA.length + wC.length = (wC ++ wA).length := by simp; omega
  have hS := twistP_wf (A := A) wA wC
  unfold twistP at hty hL hS
  rw [hn] at hty hL hS
  have := glue_idleg_left hP hS hty hL
  rwa [hX, map_getD_block_swap hx.symm hy] at this

theorem getElem?_swapBlocks {α : Type} (X Y : List α) (i : Nat) (hi : i < X.length + Y.length) :
    (Y ++ X)[C04.swapBlocks X.length Y.length i]? = (X ++ Y)[i]? := by
  unfold C04.swapBlocks
  by_cases h : i < X.length
  · rw [if_pos h, getElem?_append_add rfl, List.getElem?_append_left h]
  · rw [if_neg h, List.getElem?_append_left (by omega), List.getElem?_append_right (by omega)]

/-- `F` next to `G` with the output blocks exchanged is `G` next to `F` with the input blocks
    exchanged, up to the block swap of nodes and edges -/
theorem juxt_swap_isoVia {F G : PDiag O A} (hF : F.wf = true) (hG : G.wf = true) :
    IsoVia
      (⟨F.nodes ++ G.nodes, F.edges ++ G.edges.map (PEdge.mapNodes (F.n + ·)),
        F.ins ++ G.ins.map (F.n + ·), G.outs.map (F.n + ·) ++ F.outs⟩ : PDiag O A)
      ⟨G.nodes ++ F.nodes, G.edges ++ F.edges.map (PEdge.mapNodes (G.n + ·)),
        F.ins.map (G.n + ·) ++ G.ins, G.outs ++ F.outs.map (G.n + ·)⟩
      (C04.swapBlocks F.n G.n) (C04.swapBlocks F.edges.length G.edges.length) := by
  obtain ⟨f1, f2, f3⟩ := (PDiag.wf_iff F).1 hF
  obtain ⟨g1, g2, g3⟩ := (PDiag.wf_iff G).1 hG
  have s1 : ∀ v, v < F.n → C04.swapBlocks F.n G.n v = G.n + v := by
    intro v hv; unfold C04.swapBlocks; rw [if_pos hv]
  have s2 : ∀ v, v < G.n → C04.swapBlocks F.n G.n (F.n + v) = v := by
    intro v _; unfold C04.swapBlocks; rw [if_neg (by omega)]; omega
  refine ⟨?_, ?_, ?_, ?_, ?_, ?_⟩
  · show BijOn (F.nodes ++ G.nodes).length (G.nodes ++ F.nodes).length _
    rw [List.length_append, List.length_append]
    exact C04.swapBlocks_bijOn F.n G.n
  · show BijOn (F.edges ++ G.edges.map _).length (G.edges ++ F.edges.map _).length _
    rw [List.length_append, List.length_append, List.length_map, List.length_map]
    exact C04.swapBlocks_bijOn _ _
  · intro i hi
    have hi' : i < F.nodes.length + G.nodes.length := by
      have : i < (F.nodes ++ G.nodes).length := hi
      rwa [List.length_append] at this
    exact getElem?_swapBlocks F.nodes G.nodes i hi'
  · intro e he
    have he' : e < F.edges.length + G.edges.length := by
      have : e < (F.edges ++ G.edges.map (PEdge.mapNodes (F.n + ·))).length := he
      rwa [List.length_append, List.length_map] at this
    rw [← List.getElem?_map]
    show (G.edges ++ F.edges.map (PEdge.mapNodes (G.n + ·)))[_]? =
      (List.map _ (F.edges ++ G.edges.map (PEdge.mapNodes (F.n + ·))))[e]?
    rw [List.map_append, map_mapNodes_map, map_mapNodes_congr f3 s1, map_mapNodes_congr g3 s2,
      map_mapNodes_id]
    have := getElem?_swapBlocks (F.edges.map (PEdge.mapNodes (G.n + ·))) G.edges e
      (by rw [List.length_map]; exact he')
    rwa [List.length_map] at this
  · show F.ins.map (G.n + ·) ++ G.ins = List.map _ (F.ins ++ G.ins.map (F.n + ·))
    rw [List.map_append, List.map_map]
    congr 1
    · exact (map_congr_lt f1 s1).symm
    · conv => lhs; rw [← List.map_id G.ins]
      exact List.map_congr_left (fun v hv => (s2 v (g1 v hv)).symm)
  · show G.outs ++ F.outs.map (G.n + ·) = List.map _ (G.outs.map (F.n + ·) ++ F.outs)
    rw [List.map_append, List.map_map]
    congr 1
    · conv => lhs; rw [← List.map_id G.outs]
      exact List.map_congr_left (fun v hv => (s2 v (g2 v hv)).symm)
    · exact (map_congr_lt f2 s1).symm

/-- NATURALITY OF THE SYMMETRY: `(F ⊗ G) ; σ_{B,D} ≅ σ_{A,C} ; (G ⊗ F)` for `F : A → B`,
    `G : C → D` -/
theorem glue_twist_natural {F G L R : PDiag O A} {wA wB wC wD : List O} (hF : F.wf = true)
    (hG : G.wf = true) (hFb : F.outs.length = wB.length) (hGc : G.ins.length = wC.length)
    (htyL : (PDiag.juxt F G).targetType = (twistP wB wD : PDiag O A).sourceType)
    (htyR : (twistP wA wC : PDiag O A).targetType = (PDiag.juxt G F).sourceType)
    (hL : IsGluing (PDiag.juxt F G) (twistP wB wD) L)
    (hR : IsGluing (twistP wA wC) (PDiag.juxt G F) R) : L ≅ R := by
  have h1 := glue_twist_right (X := F.outs) (Y := G.outs.map (F.n + ·)) (juxt_wf hF hG) rfl hFb
    htyL hL
  have h2 := glue_twist_left (X := G.ins) (Y := F.ins.map (G.n + ·)) (juxt_wf hG hF) rfl hGc
    htyR hR
  have hRw : R.wf = true := IsGluing.wf (twistP_wf wA wC) (juxt_wf hG hF) hR
  exact iso_trans h1 (iso_trans (juxt_swap_isoVia hF hG).iso (iso_symm hRw h2))

end OH
