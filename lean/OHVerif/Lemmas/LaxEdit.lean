/-
  Helper lemmas for C11 / C09: closed forms of the lax (imperative) editing operations of
  Model/Lax.lean (`keepUnmarked`, `renumber`, `remapIds`, `deleteNodesWitness`, `deleteEdges`,
  `newNodes`, …) and Prop-level well-formedness.
-/
import OHVerif.Model.Lax

namespace OH.LaxEdit
open OH

variable {α : Type}

/-! ### generic list facts -/

/-- the `k`-th element kept by a filter, where `k` counts the kept elements before position `i` -/
theorem filter_getElem?_count (l : List α) (p : α → Bool) (i : Nat) (hi : i < l.length)
    (hp : p l[i] = true) : (l.filter p)[((l.take i).filter p).length]? = some l[i] := by
  have hsplit : l = l.take i ++ l[i] :: l.drop (i + 1) := by
    rw [List.getElem_cons_drop, List.take_append_drop]
  conv => lhs; arg 1; rw [hsplit]
  rw [List.filter_append, List.getElem?_append_right (Nat.le_refl _), Nat.sub_self,
    List.filter_cons_of_pos hp]
  rfl

theorem filterMap_map_some {β : Type} (l : List α) (f : α → Option β)
    (h : ∀ a ∈ l, (f a).isSome) : (l.filterMap f).map some = l.map f := by
  induction l with
  | nil => rfl
  | cons a l ih =>
    have ha := h a (by simp)
    have ih' := ih (fun b hb => h b (by simp [hb]))
    cases hfa : f a with
    | none => rw [hfa] at ha; simp at ha
    | some b => simp [hfa, ih']

theorem filterMap_congr_mem {β : Type} (l : List α) (f g : α → Option β)
    (h : ∀ a ∈ l, f a = g a) : l.filterMap f = l.filterMap g := by
  induction l with
  | nil => rfl
  | cons a l ih =>
    rw [List.filterMap_cons, List.filterMap_cons, h a (by simp),
      ih (fun b hb => h b (by simp [hb]))]

theorem filterMap_eq_filter_map {β γ : Type} (ps : List β) (g : β → Option γ) (k : β → Bool)
    (m : β → γ) (h : ∀ p ∈ ps, g p = if k p then some (m p) else none) :
    ps.filterMap g = (ps.filter k).map m := by
  induction ps with
  | nil => rfl
  | cons p ps ih =>
    rw [List.filterMap_cons, h p (by simp), ih (fun q hq => h q (by simp [hq])), List.filter_cons]
    cases k p <;> simp

theorem filter_const_true (l : List α) : l.filter (fun _ => true) = l :=
  List.filter_eq_self.mpr (by simp)

theorem length_filter_add_not (l : List α) (p : α → Bool) :
    (l.filter p).length + (l.filter (fun x => !p x)).length = l.length := by
  induction l with
  | nil => rfl
  | cons a l ih =>
    rw [List.filter_cons, List.filter_cons]
    cases h : p a <;> simp <;> omega

/-! ### survivors and the renumbering -/

/-- the old indices below `n` that are not named in `ids`, in increasing order -/
def survivors (n : Nat) (ids : List Nat) : List Nat :=
  (List.range n).filter (fun i => !ids.contains i)

/-- the new number of the old index `i`: the number of survivors below `i` -/
def rn (ids : List Nat) (i : Nat) : Nat :=
  ((List.range i).filter (fun j => !ids.contains j)).length

theorem rn_eq_survivors_length (ids : List Nat) (i : Nat) : rn ids i = (survivors i ids).length := rfl

theorem rn_succ (ids : List Nat) (i : Nat) :
    rn ids (i + 1) = rn ids i + (if ids.contains i then 0 else 1) := by
  unfold rn
  rw [List.range_succ, List.filter_append]
  by_cases h : i ∈ ids <;> simp [h]

theorem rn_mono (ids : List Nat) {i j : Nat} (h : i ≤ j) : rn ids i ≤ rn ids j := by
  induction j with
  | zero => have : i = 0 := by omega
            subst this; exact Nat.le_refl _
  | succ j ih =>
    by_cases hij : i = j + 1
    · subst hij; exact Nat.le_refl _
    · have := ih (by omega)
      rw [rn_succ]; omega

/-- the renumbering is strictly monotone on surviving indices -/
theorem rn_strictMono (ids : List Nat) {i j : Nat} (hi : ids.contains i = false) (h : i < j) :
    rn ids i < rn ids j := by
  have h1 := rn_succ ids i
  rw [hi] at h1
  have h2 := rn_mono ids (show i + 1 ≤ j from h)
  simp at h1; omega

theorem rn_nil (i : Nat) : rn [] i = i := by
  unfold rn
  rw [List.filter_eq_self.mpr (by simp)]
  simp

theorem rn_lt_survivors (n : Nat) (ids : List Nat) {i : Nat} (hi : i < n)
    (hk : ids.contains i = false) : rn ids i < (survivors n ids).length := by
  rw [← rn_eq_survivors_length]
  exact rn_strictMono ids hk hi

theorem mem_survivors (n : Nat) (ids : List Nat) (i : Nat) :
    i ∈ survivors n ids ↔ i < n ∧ ids.contains i = false := by
  unfold survivors
  simp [List.mem_filter]

/-- the survivor number `rn ids i` is `i` -/
theorem survivors_getElem?_rn (n : Nat) (ids : List Nat) {i : Nat} (hi : i < n)
    (hk : ids.contains i = false) : (survivors n ids)[rn ids i]? = some i := by
  have hl : i < (List.range n).length := by simpa using hi
  have hk' : i ∉ ids := by simpa using hk
  have := filter_getElem?_count (List.range n) (fun i => !ids.contains i) i hl (by simp [hk'])
  rw [List.take_range, Nat.min_eq_left (Nat.le_of_lt hi)] at this
  simpa [survivors, rn] using this

theorem survivors_nodup (n : Nat) (ids : List Nat) : (survivors n ids).Nodup :=
  List.Nodup.sublist List.filter_sublist List.nodup_range

/-- `survivors` and `rn` are mutually inverse enumerations -/
theorem survivors_getElem?_eq_some_iff (n : Nat) (ids : List Nat) (k i : Nat) :
    (survivors n ids)[k]? = some i ↔ i < n ∧ ids.contains i = false ∧ k = rn ids i := by
  constructor
  · intro h
    have hm := (mem_survivors n ids i).mp (List.mem_of_getElem? h)
    refine ⟨hm.1, hm.2, ?_⟩
    have h2 := survivors_getElem?_rn n ids hm.1 hm.2
    have hk : k < (survivors n ids).length := (List.getElem?_eq_some_iff.mp h).1
    exact (List.getElem?_inj hk (survivors_nodup n ids)).mp (by rw [h, h2])
  · rintro ⟨h1, h2, rfl⟩
    exact survivors_getElem?_rn n ids h1 h2

theorem survivors_nil (n : Nat) : survivors n [] = List.range n := by
  unfold survivors; simp

/-- the number of survivors plus the number of distinct named indices is `n` -/
theorem survivors_length_add (n : Nat) (ids : List Nat) :
    (survivors n ids).length + ((List.range n).filter (fun i => ids.contains i)).length = n := by
  have := length_filter_add_not (List.range n) (fun i => ids.contains i)
  simp only [List.length_range] at this
  unfold survivors
  omega

theorem renumber_eq (n : Nat) (ids : List Nat) :
    LHG.renumber n ids =
      (List.range n).map (fun i => if ids.contains i then none else some (rn ids i)) := rfl

theorem renumber_length (n : Nat) (ids : List Nat) : (LHG.renumber n ids).length = n := by
  simp [renumber_eq]

theorem renumber_getElem? (n : Nat) (ids : List Nat) (i : Nat) (hi : i < n) :
    (LHG.renumber n ids)[i]? = some (if ids.contains i then none else some (rn ids i)) := by
  simp [renumber_eq, hi]

theorem renumber_join (n : Nat) (ids : List Nat) (i : Nat) (hi : i < n) :
    ((LHG.renumber n ids)[i]?).join = if ids.contains i then none else some (rn ids i) := by
  rw [renumber_getElem? n ids i hi]; rfl

theorem renumber_nil (n : Nat) : LHG.renumber n [] = (List.range n).map some := by
  rw [renumber_eq]
  apply List.map_congr_left
  intro i _
  simp [rn_nil]

/-- the two deletion primitives see `ids` only as a set -/
theorem renumber_congr (n : Nat) (ids ids' : List Nat) (h : ∀ i, i ∈ ids ↔ i ∈ ids') :
    LHG.renumber n ids = LHG.renumber n ids' := by
  have hc : ∀ i, ids.contains i = ids'.contains i := by
    intro i
    rw [Bool.eq_iff_iff, List.contains_iff_mem, List.contains_iff_mem]; exact h i
  have hf : (fun j => !ids.contains j) = (fun j => !ids'.contains j) := by
    funext j; rw [hc]
  unfold LHG.renumber
  apply List.map_congr_left
  intro i _
  rw [hc i, hf]

theorem keepUnmarked_congr (xs : List α) (ids ids' : List Nat) (h : ∀ i, i ∈ ids ↔ i ∈ ids') :
    LHG.keepUnmarked xs ids = LHG.keepUnmarked xs ids' := by
  have hc : ∀ i, ids.contains i = ids'.contains i := by
    intro i
    rw [Bool.eq_iff_iff, List.contains_iff_mem, List.contains_iff_mem]; exact h i
  unfold LHG.keepUnmarked
  congr 1
  funext p
  rw [hc]

/-! ### keepUnmarked -/

theorem keepUnmarked_aux (xs : List α) (ids : List Nat) (s : Nat) :
    (xs.zip (List.range' s xs.length)).filterMap
        (fun p => if ids.contains p.2 then Option.none else some p.1) =
      ((List.range' s xs.length).filter (fun i => !ids.contains i)).filterMap
        (fun i => xs[i - s]?) := by
  induction xs generalizing s with
  | nil => rfl
  | cons x xs ih =>
    have hr : List.range' s (x :: xs).length = s :: List.range' (s + 1) xs.length := by
      simp [List.range'_succ]
    rw [hr, List.zip_cons_cons, List.filterMap_cons, List.filter_cons]
    have hrest : ((List.range' (s + 1) xs.length).filter (fun i => !ids.contains i)).filterMap
          (fun i => (x :: xs)[i - s]?) =
        ((List.range' (s + 1) xs.length).filter (fun i => !ids.contains i)).filterMap
          (fun i => xs[i - (s + 1)]?) := by
      apply filterMap_congr_mem
      intro i hi
      have := (List.mem_filter.mp hi).1
      have h1 := List.mem_range'_1.mp this
      have : i - s = (i - (s + 1)) + 1 := by omega
      rw [this, List.getElem?_cons_succ]
    cases h : ids.contains s
    · simp only [Bool.false_eq_true, if_false, Bool.not_false, if_true]
      rw [List.filterMap_cons, Nat.sub_self]
      simp only [List.getElem?_cons_zero]
      rw [ih (s + 1), hrest]
    · simp only [if_true, Bool.not_true, Bool.false_eq_true, if_false]
      rw [ih (s + 1), hrest]

/-- `keepUnmarked` keeps exactly the entries at surviving positions, in order -/
theorem keepUnmarked_eq (xs : List α) (ids : List Nat) :
    LHG.keepUnmarked xs ids = (survivors xs.length ids).filterMap (fun i => xs[i]?) := by
  unfold LHG.keepUnmarked survivors
  rw [List.range_eq_range']
  have := keepUnmarked_aux xs ids 0
  simpa using this

theorem keepUnmarked_map_some (xs : List α) (ids : List Nat) :
    (LHG.keepUnmarked xs ids).map some = (survivors xs.length ids).map (fun i => xs[i]?) := by
  rw [keepUnmarked_eq]
  apply filterMap_map_some
  intro i hi
  have := ((mem_survivors _ _ _).mp hi).1
  simp [this]

theorem keepUnmarked_length (xs : List α) (ids : List Nat) :
    (LHG.keepUnmarked xs ids).length = (survivors xs.length ids).length := by
  have := congrArg List.length (keepUnmarked_map_some xs ids)
  simpa using this

/-- entry `k` of the result is the entry of the `k`-th survivor -/
theorem keepUnmarked_getElem? (xs : List α) (ids : List Nat) (k : Nat) :
    (LHG.keepUnmarked xs ids)[k]? = (survivors xs.length ids)[k]?.bind (fun i => xs[i]?) := by
  have := congrArg (fun l => l[k]?) (keepUnmarked_map_some xs ids)
  simp only [List.getElem?_map] at this
  cases h1 : (LHG.keepUnmarked xs ids)[k]? <;> cases h2 : (survivors xs.length ids)[k]? <;>
    simp_all

/-- a surviving entry is found at its new number -/
theorem keepUnmarked_getElem?_rn (xs : List α) (ids : List Nat) {i : Nat} (hi : i < xs.length)
    (hk : ids.contains i = false) : (LHG.keepUnmarked xs ids)[rn ids i]? = xs[i]? := by
  rw [keepUnmarked_getElem?, survivors_getElem?_rn _ _ hi hk]
  rfl

theorem keepUnmarked_nil (xs : List α) : LHG.keepUnmarked xs [] = xs := by
  apply List.ext_getElem?
  intro k
  rw [keepUnmarked_getElem?, survivors_nil]
  by_cases hk : k < xs.length
  · simp [hk]
  · simp [hk]

/-! ### remapIds -/

theorem remapIds_renumber (n : Nat) (ids l : List Nat) (hl : ∀ i ∈ l, i < n) :
    LHG.remapIds (LHG.renumber n ids) l = (l.filter (fun i => !ids.contains i)).map (rn ids) := by
  unfold LHG.remapIds
  induction l with
  | nil => rfl
  | cons a l ih =>
    have ha : a < n := hl a (by simp)
    have ih' := ih (fun i hi => hl i (by simp [hi]))
    rw [List.filterMap_cons, renumber_join n ids a ha, ih', List.filter_cons]
    by_cases h : a ∈ ids <;> simp [h]

theorem remapIds_lt (n : Nat) (ids l : List Nat) (hl : ∀ i ∈ l, i < n) :
    ∀ j ∈ LHG.remapIds (LHG.renumber n ids) l, j < (survivors n ids).length := by
  rw [remapIds_renumber n ids l hl]
  intro j hj
  obtain ⟨i, hi, rfl⟩ := List.mem_map.mp hj
  have h1 := List.mem_filter.mp hi
  exact rn_lt_survivors n ids (hl i h1.1) (by simpa using h1.2)

/-! ### Prop-level well-formedness -/

variable {O A : Type}

/-- all node ids of a hyperedge are below `n` -/
def EdgeOK (n : Nat) (e : LEdge) : Prop := (∀ v ∈ e.sources, v < n) ∧ (∀ v ∈ e.targets, v < n)

structure WF (h : LHG O A) : Prop where
  len : h.edges.length = h.adjacency.length
  adj : ∀ e ∈ h.adjacency, EdgeOK h.nodes.length e
  qlen : h.quotient.1.length = h.quotient.2.length
  q1 : ∀ v ∈ h.quotient.1, v < h.nodes.length
  q2 : ∀ v ∈ h.quotient.2, v < h.nodes.length

theorem wf_iff (h : LHG O A) : h.wf = true ↔ WF h := by
  unfold LHG.wf
  simp only [Bool.and_eq_true, beq_iff_eq, List.all_eq_true, decide_eq_true_eq]
  constructor
  · rintro ⟨⟨⟨⟨h1, h2⟩, h3⟩, h4⟩, h5⟩
    exact ⟨h1, fun e he => h2 e he, h3, h4, h5⟩
  · rintro ⟨h1, h2, h3, h4, h5⟩
    exact ⟨⟨⟨⟨h1, fun e he => h2 e he⟩, h3⟩, h4⟩, h5⟩

structure OWF (f : LOHG O A) : Prop where
  hg : WF f.hypergraph
  src : ∀ v ∈ f.sources, v < f.hypergraph.nodes.length
  tgt : ∀ v ∈ f.targets, v < f.hypergraph.nodes.length

theorem owf_iff (f : LOHG O A) : f.wf = true ↔ OWF f := by
  unfold LOHG.wf
  simp only [Bool.and_eq_true, List.all_eq_true, decide_eq_true_eq, wf_iff]
  constructor
  · rintro ⟨⟨h1, h2⟩, h3⟩; exact ⟨h1, h2, h3⟩
  · rintro ⟨h1, h2, h3⟩; exact ⟨⟨h1, h2⟩, h3⟩

theorem EdgeOK.mono {n m : Nat} {e : LEdge} (h : EdgeOK n e) (hnm : n ≤ m) : EdgeOK m e :=
  ⟨fun v hv => Nat.lt_of_lt_of_le (h.1 v hv) hnm, fun v hv => Nat.lt_of_lt_of_le (h.2 v hv) hnm⟩

theorem wf_empty : WF (LHG.empty : LHG O A) :=
  ⟨rfl, by simp [LHG.empty], rfl, by simp [LHG.empty], by simp [LHG.empty]⟩

/-! ### newNodes / newOperation -/

theorem newNodes_eq (h : LHG O A) (ts : List O) :
    h.newNodes ts = ({ h with nodes := h.nodes ++ ts }, List.range' h.nodes.length ts.length) := by
  induction ts generalizing h with
  | nil => simp [LHG.newNodes]
  | cons t ts ih =>
    rw [LHG.newNodes]
    simp only [LHG.newNode]
    rw [ih]
    simp [List.range'_succ]

theorem newOperation_eq (h : LHG O A) (x : A) (st tt : List O) :
    h.newOperation x st tt =
      ({ h with nodes := h.nodes ++ (st ++ tt), edges := h.edges ++ [x],
                adjacency := h.adjacency ++
                  [⟨List.range' h.nodes.length st.length,
                    List.range' (h.nodes.length + st.length) tt.length⟩] },
       h.edges.length,
       (List.range' h.nodes.length st.length,
        List.range' (h.nodes.length + st.length) tt.length)) := by
  unfold LHG.newOperation
  rw [newNodes_eq]
  simp only
  rw [newNodes_eq]
  simp [LHG.newEdge]

/-! ### deletion -/

/-- the hypergraph left after deleting the nodes `ids` (closed form) -/
def deletedNodes (h : LHG O A) (ids : List Nat) : LHG O A :=
  let keep := fun i => !ids.contains i
  let pairs := ((h.quotient.1.zip h.quotient.2).filter (fun p => keep p.1 && keep p.2)).map
    (fun p => (rn ids p.1, rn ids p.2))
  { nodes := (survivors h.nodes.length ids).filterMap (fun i => h.nodes[i]?),
    edges := h.edges,
    adjacency := h.adjacency.map (fun e =>
      ⟨(e.sources.filter keep).map (rn ids), (e.targets.filter keep).map (rn ids)⟩),
    quotient := (pairs.map (·.1), pairs.map (·.2)) }

theorem zip_fst_of_length_eq {β : Type} (l : List α) (r : List β) (h : l.length = r.length) :
    (l.zip r).map (·.1) = l ∧ (l.zip r).map (·.2) = r := by
  constructor
  · rw [← List.unzip_fst, List.unzip_zip h]
  · rw [← List.unzip_snd, List.unzip_zip h]

theorem deletedNodes_nil (h : LHG O A) (hw : WF h) : deletedNodes h [] = h := by
  unfold deletedNodes
  have h1 := keepUnmarked_eq h.nodes []
  rw [keepUnmarked_nil] at h1
  obtain ⟨z1, z2⟩ := zip_fst_of_length_eq _ _ hw.qlen
  cases h with
  | mk nodes edges adjacency quotient =>
    simp only at h1 z1 z2 ⊢
    rw [← h1]
    have hrn : rn [] = id := by funext i; exact rn_nil i
    simp [hrn, z1, z2, filter_const_true]

theorem deleteNodesWitness_ok (h : LHG O A) (ids : List Nat) (hw : WF h)
    (hids : ∀ i ∈ ids, i < h.nodes.length) :
    LHG.deleteNodesWitness h ids = .ok (deletedNodes h ids, LHG.renumber h.nodes.length ids) := by
  unfold LHG.deleteNodesWitness
  by_cases he : ids = []
  · subst he
    simp only [List.isEmpty_nil, if_true]
    rw [deletedNodes_nil h hw, renumber_nil]
  · have he' : ids.isEmpty = false := by simpa using he
    simp only [he', Bool.false_eq_true, if_false]
    have hall : ids.all (fun x => decide (x < h.nodes.length)) = true := by
      simpa using hids
    simp only [hall, not_true_eq_false, if_false]
    have hp : ∀ p ∈ h.quotient.1.zip h.quotient.2, p.1 < h.nodes.length ∧ p.2 < h.nodes.length := by
      intro p hp
      exact ⟨hw.q1 _ (List.of_mem_zip hp).1, hw.q2 _ (List.of_mem_zip hp).2⟩
    have hrefs : (h.adjacency.all (fun e => e.sources.all (fun x => decide (x < h.nodes.length)) &&
          e.targets.all (fun x => decide (x < h.nodes.length))) &&
        (h.quotient.1.zip h.quotient.2).all (fun p => decide (p.1 < h.nodes.length) &&
          decide (p.2 < h.nodes.length))) = true := by
      simp only [Bool.and_eq_true, List.all_eq_true, decide_eq_true_eq]
      exact ⟨fun e he => hw.adj e he, hp⟩
    simp only [hrefs, not_true_eq_false, if_false]
    congr 2
    unfold deletedNodes
    simp only
    have hadj : h.adjacency.map (fun e => (⟨LHG.remapIds (LHG.renumber h.nodes.length ids) e.sources,
          LHG.remapIds (LHG.renumber h.nodes.length ids) e.targets⟩ : LEdge)) =
        h.adjacency.map (fun e => ⟨(e.sources.filter (fun i => !ids.contains i)).map (rn ids),
          (e.targets.filter (fun i => !ids.contains i)).map (rn ids)⟩) := by
      apply List.map_congr_left
      intro e he
      rw [remapIds_renumber _ _ _ (hw.adj e he).1, remapIds_renumber _ _ _ (hw.adj e he).2]
    have hq := fun G => filterMap_eq_filter_map (h.quotient.1.zip h.quotient.2) G
      (fun p => !ids.contains p.1 && !ids.contains p.2) (fun p => (rn ids p.1, rn ids p.2))
    rw [keepUnmarked_eq, hadj, hq]
    intro p hpm
    have hp1 := hp p hpm
    rw [renumber_join _ _ _ hp1.1, renumber_join _ _ _ hp1.2]
    by_cases ha : p.1 ∈ ids <;> by_cases hb : p.2 ∈ ids <;> simp [ha, hb]

theorem deletedNodes_nodes_length (h : LHG O A) (ids : List Nat) :
    (deletedNodes h ids).nodes.length = (survivors h.nodes.length ids).length := by
  show ((survivors h.nodes.length ids).filterMap (fun i => h.nodes[i]?)).length = _
  rw [← keepUnmarked_eq, keepUnmarked_length]

theorem deletedNodes_wf (h : LHG O A) (ids : List Nat) (hw : WF h) : WF (deletedNodes h ids) := by
  have hlt : ∀ l : List Nat, (∀ v ∈ l, v < h.nodes.length) →
      ∀ v ∈ (l.filter (fun i => !ids.contains i)).map (rn ids),
        v < (deletedNodes h ids).nodes.length := by
    intro l hl v hv
    rw [deletedNodes_nodes_length]
    obtain ⟨i, hi, rfl⟩ := List.mem_map.mp hv
    have h1 := List.mem_filter.mp hi
    exact rn_lt_survivors _ ids (hl i h1.1) (by simpa using h1.2)
  refine ⟨?_, ?_, ?_, ?_, ?_⟩
  · show h.edges.length = (h.adjacency.map _).length
    rw [List.length_map]; exact hw.len
  · intro e' he'
    obtain ⟨e, he, rfl⟩ := List.mem_map.mp he'
    exact ⟨hlt _ (hw.adj e he).1, hlt _ (hw.adj e he).2⟩
  · simp [deletedNodes]
  · intro v hv
    rw [deletedNodes_nodes_length]
    simp only [deletedNodes, List.map_map, List.mem_map, List.mem_filter] at hv
    obtain ⟨p, ⟨hp, hk⟩, rfl⟩ := hv
    simp only [Bool.and_eq_true, Bool.not_eq_true'] at hk
    exact rn_lt_survivors _ ids (hw.q1 _ (List.of_mem_zip hp).1) hk.1
  · intro v hv
    rw [deletedNodes_nodes_length]
    simp only [deletedNodes, List.map_map, List.mem_map, List.mem_filter] at hv
    obtain ⟨p, ⟨hp, hk⟩, rfl⟩ := hv
    simp only [Bool.and_eq_true, Bool.not_eq_true'] at hk
    exact rn_lt_survivors _ ids (hw.q2 _ (List.of_mem_zip hp).2) hk.2

theorem deleteNodesWitness_panic (h : LHG O A) (ids : List Nat)
    (hbad : ∃ i ∈ ids, h.nodes.length ≤ i) :
    LHG.deleteNodesWitness h ids = .panic "delete_nodes:assert-bounds" := by
  obtain ⟨i, hi, hle⟩ := hbad
  unfold LHG.deleteNodesWitness
  have he' : ids.isEmpty = false := by
    cases ids with
    | nil => simp at hi
    | cons _ _ => rfl
  have hall : ¬ (ids.all (fun x => decide (x < h.nodes.length)) = true) := by
    simp only [List.all_eq_true, decide_eq_true_eq]
    intro hc
    have := hc i hi
    omega
  simp only [he', Bool.false_eq_true, if_false, hall, not_false_eq_true, if_true]

/-- the deletion primitives depend on `ids` only as a set -/
theorem deleteNodesWitness_congr (h : LHG O A) (ids ids' : List Nat)
    (hs : ∀ i, i ∈ ids ↔ i ∈ ids') :
    LHG.deleteNodesWitness h ids = LHG.deleteNodesWitness h ids' := by
  have he : ids.isEmpty = ids'.isEmpty := by
    cases ids with
    | nil =>
      cases ids' with
      | nil => rfl
      | cons a l => exact absurd ((hs a).mpr (by simp)) (by simp)
    | cons a l =>
      cases ids' with
      | nil => exact absurd ((hs a).mp (by simp)) (by simp)
      | cons _ _ => rfl
  have hall : ids.all (fun x => decide (x < h.nodes.length)) =
      ids'.all (fun x => decide (x < h.nodes.length)) := by
    rw [Bool.eq_iff_iff]
    simp only [List.all_eq_true, decide_eq_true_eq]
    exact ⟨fun hc x hx => hc x ((hs x).mpr hx), fun hc x hx => hc x ((hs x).mp hx)⟩
  unfold LHG.deleteNodesWitness
  simp only [he, hall, renumber_congr _ ids ids' hs, keepUnmarked_congr _ ids ids' hs]

/-- the hypergraph left after deleting the edges `ids` -/
def deletedEdges (h : LHG O A) (ids : List Nat) : LHG O A :=
  { h with edges := LHG.keepUnmarked h.edges ids, adjacency := LHG.keepUnmarked h.adjacency ids }

theorem deleteEdges_ok (h : LHG O A) (ids : List Nat) (hlen : h.edges.length = h.adjacency.length)
    (hids : ∀ i ∈ ids, i < h.edges.length) :
    LHG.deleteEdges h ids = .ok (deletedEdges h ids) := by
  unfold LHG.deleteEdges
  rw [if_neg (by simpa using hlen)]
  by_cases he : ids = []
  · subst he
    simp [deletedEdges, keepUnmarked_nil]
  · have he' : ids.isEmpty = false := by simpa using he
    have hall : ids.all (fun x => decide (x < h.edges.length)) = true := by simpa using hids
    simp only [he', Bool.false_eq_true, if_false, hall, not_true_eq_false]
    rfl

theorem deleteEdges_panic (h : LHG O A) (ids : List Nat) (hlen : h.edges.length = h.adjacency.length)
    (hbad : ∃ i ∈ ids, h.edges.length ≤ i) :
    LHG.deleteEdges h ids = .panic "delete_edges:assert-bounds" := by
  obtain ⟨i, hi, hle⟩ := hbad
  unfold LHG.deleteEdges
  rw [if_neg (by simpa using hlen)]
  have he' : ids.isEmpty = false := by
    cases ids with
    | nil => simp at hi
    | cons _ _ => rfl
  have hall : ¬ (ids.all (fun x => decide (x < h.edges.length)) = true) := by
    simp only [List.all_eq_true, decide_eq_true_eq]
    intro hc
    have := hc i hi
    omega
  simp only [he', Bool.false_eq_true, if_false, hall, not_false_eq_true, if_true]

theorem deleteEdges_malformed (h : LHG O A) (ids : List Nat)
    (hlen : h.edges.length ≠ h.adjacency.length) :
    LHG.deleteEdges h ids = .panic "delete_edges:assert-malformed" := by
  unfold LHG.deleteEdges
  rw [if_pos (by simpa using hlen)]

theorem deleteEdges_congr (h : LHG O A) (ids ids' : List Nat) (hs : ∀ i, i ∈ ids ↔ i ∈ ids')
    (hlen : h.edges.length = h.adjacency.length) :
    LHG.deleteEdges h ids = LHG.deleteEdges h ids' := by
  by_cases hb : ∀ i ∈ ids, i < h.edges.length
  · have hb' : ∀ i ∈ ids', i < h.edges.length := fun i hi => hb i ((hs i).mpr hi)
    rw [deleteEdges_ok h ids hlen hb, deleteEdges_ok h ids' hlen hb']
    unfold deletedEdges
    rw [keepUnmarked_congr _ ids ids' hs, keepUnmarked_congr _ ids ids' hs]
  · have hbad : ∃ i ∈ ids, h.edges.length ≤ i := by
      apply Classical.byContradiction
      intro hc
      apply hb
      intro i hi
      apply Classical.byContradiction
      intro hlt
      exact hc ⟨i, hi, by omega⟩
    have hbad' : ∃ i ∈ ids', h.edges.length ≤ i := by
      obtain ⟨i, hi, hle⟩ := hbad
      exact ⟨i, (hs i).mp hi, hle⟩
    rw [deleteEdges_panic h ids hlen hbad, deleteEdges_panic h ids' hlen hbad']

theorem mem_keepUnmarked (xs : List α) (ids : List Nat) (x : α) (hx : x ∈ LHG.keepUnmarked xs ids) :
    x ∈ xs := by
  rw [keepUnmarked_eq] at hx
  obtain ⟨i, _, hi⟩ := List.mem_filterMap.mp hx
  exact List.mem_of_getElem? hi

theorem deletedEdges_wf (h : LHG O A) (ids : List Nat) (hw : WF h) : WF (deletedEdges h ids) := by
  refine ⟨?_, ?_, hw.qlen, hw.q1, hw.q2⟩
  · show (LHG.keepUnmarked h.edges ids).length = (LHG.keepUnmarked h.adjacency ids).length
    rw [keepUnmarked_length, keepUnmarked_length, hw.len]
  · intro e he
    exact hw.adj e (mem_keepUnmarked _ _ _ he)

/-- the open hypergraph left after deleting the nodes `ids` -/
def deletedNodesO (f : LOHG O A) (ids : List Nat) : LOHG O A :=
  ⟨(f.sources.filter (fun i => !ids.contains i)).map (rn ids),
   (f.targets.filter (fun i => !ids.contains i)).map (rn ids),
   deletedNodes f.hypergraph ids⟩

theorem deleteNodesO_ok (f : LOHG O A) (ids : List Nat) (hw : OWF f)
    (hids : ∀ i ∈ ids, i < f.hypergraph.nodes.length) :
    LOHG.deleteNodes f ids = .ok (deletedNodesO f ids) := by
  unfold LOHG.deleteNodes
  rw [deleteNodesWitness_ok _ ids hw.hg hids]
  simp only [bind, Res.bind]
  rw [renumber_length]
  have hsrc : f.sources.all (fun x => decide (x < f.hypergraph.nodes.length)) = true := by
    simpa using hw.src
  have htgt : f.targets.all (fun x => decide (x < f.hypergraph.nodes.length)) = true := by
    simpa using hw.tgt
  rw [if_neg (by simp only [hsrc, htgt]; simp)]
  rw [remapIds_renumber _ _ _ hw.src, remapIds_renumber _ _ _ hw.tgt]
  rfl

theorem deleteNodesO_panic (f : LOHG O A) (ids : List Nat)
    (hbad : ∃ i ∈ ids, f.hypergraph.nodes.length ≤ i) :
    LOHG.deleteNodes f ids = .panic "delete_nodes:assert-bounds" := by
  unfold LOHG.deleteNodes
  rw [deleteNodesWitness_panic _ ids hbad]
  rfl

theorem deletedNodesO_wf (f : LOHG O A) (ids : List Nat) (hw : OWF f) : OWF (deletedNodesO f ids) := by
  have hlt : ∀ l : List Nat, (∀ v ∈ l, v < f.hypergraph.nodes.length) →
      ∀ v ∈ (l.filter (fun i => !ids.contains i)).map (rn ids),
        v < (deletedNodes f.hypergraph ids).nodes.length := by
    intro l hl v hv
    rw [deletedNodes_nodes_length]
    obtain ⟨i, hi, rfl⟩ := List.mem_map.mp hv
    have h1 := List.mem_filter.mp hi
    exact rn_lt_survivors _ ids (hl i h1.1) (by simpa using h1.2)
  exact ⟨deletedNodes_wf _ ids hw.hg, hlt _ hw.src, hlt _ hw.tgt⟩

/-! ### well-formedness of the remaining builder calls -/

theorem newNode_wf (h : LHG O A) (w : O) (hw : WF h) : WF (h.newNode w).1 := by
  have hle : h.nodes.length ≤ (h.nodes ++ [w]).length := by simp
  exact ⟨hw.len, fun e he => (hw.adj e he).mono hle, hw.qlen,
    fun v hv => Nat.lt_of_lt_of_le (hw.q1 v hv) hle, fun v hv => Nat.lt_of_lt_of_le (hw.q2 v hv) hle⟩

theorem appendNodes_wf (h : LHG O A) (ts : List O) (hw : WF h) :
    WF { h with nodes := h.nodes ++ ts } := by
  have hle : h.nodes.length ≤ (h.nodes ++ ts).length := by simp
  exact ⟨hw.len, fun e he => (hw.adj e he).mono hle, hw.qlen,
    fun v hv => Nat.lt_of_lt_of_le (hw.q1 v hv) hle, fun v hv => Nat.lt_of_lt_of_le (hw.q2 v hv) hle⟩

theorem newEdge_wf (h : LHG O A) (x : A) (e : LEdge) (hw : WF h) (he : EdgeOK h.nodes.length e) :
    WF (h.newEdge x e).1 := by
  refine ⟨?_, ?_, hw.qlen, hw.q1, hw.q2⟩
  · show (h.edges ++ [x]).length = (h.adjacency ++ [e]).length
    simp [hw.len]
  · intro e' he'
    rcases List.mem_append.mp he' with h1 | h1
    · exact hw.adj e' h1
    · rw [List.mem_singleton.mp h1]; exact he

theorem newOperation_wf (h : LHG O A) (x : A) (st tt : List O) (hw : WF h) :
    WF (h.newOperation x st tt).1 := by
  rw [newOperation_eq]
  have h1 := appendNodes_wf h (st ++ tt) hw
  refine ⟨?_, ?_, h1.qlen, h1.q1, h1.q2⟩
  · show (h.edges ++ [x]).length = (h.adjacency ++ [_]).length
    simp [hw.len]
  · intro e' he'
    rcases List.mem_append.mp he' with h2 | h2
    · exact h1.adj e' h2
    · rw [List.mem_singleton.mp h2]
      constructor
      · intro v hv
        have := List.mem_range'_1.mp hv
        show v < (h.nodes ++ (st ++ tt)).length
        simp only [List.length_append]; omega
      · intro v hv
        have := List.mem_range'_1.mp hv
        show v < (h.nodes ++ (st ++ tt)).length
        simp only [List.length_append]; omega

theorem unify_wf (h : LHG O A) (v w : Nat) (hw : WF h) (hv : v < h.nodes.length)
    (hw' : w < h.nodes.length) : WF (h.unify v w) := by
  refine ⟨hw.len, hw.adj, ?_, ?_, ?_⟩
  · show (h.quotient.1 ++ [v]).length = (h.quotient.2 ++ [w]).length
    simp [hw.qlen]
  · intro u hu
    rcases List.mem_append.mp hu with h1 | h1
    · exact hw.q1 u h1
    · rw [List.mem_singleton.mp h1]; exact hv
  · intro u hu
    rcases List.mem_append.mp hu with h1 | h1
    · exact hw.q2 u h1
    · rw [List.mem_singleton.mp h1]; exact hw'

/-- closed form of `add_edge_source` on an edge id in range -/
theorem addEdgeSource_ok (h : LHG O A) (e : Nat) (w : O) (he : e < h.adjacency.length) :
    h.addEdgeSource e w =
      .ok ({ h with nodes := h.nodes ++ [w],
                    adjacency := h.adjacency.set e
                      { h.adjacency[e] with sources := h.adjacency[e].sources ++ [h.nodes.length] } },
           h.nodes.length) := by
  unfold LHG.addEdgeSource LHG.newNode
  simp only [List.getElem?_eq_getElem he]

theorem addEdgeSource_panic (h : LHG O A) (e : Nat) (w : O) (he : h.adjacency.length ≤ e) :
    h.addEdgeSource e w = .panic "add_edge_source:index" := by
  unfold LHG.addEdgeSource LHG.newNode
  simp only [List.getElem?_eq_none he]

theorem addEdgeTarget_ok (h : LHG O A) (e : Nat) (w : O) (he : e < h.adjacency.length) :
    h.addEdgeTarget e w =
      .ok ({ h with nodes := h.nodes ++ [w],
                    adjacency := h.adjacency.set e
                      { h.adjacency[e] with targets := h.adjacency[e].targets ++ [h.nodes.length] } },
           h.nodes.length) := by
  unfold LHG.addEdgeTarget LHG.newNode
  simp only [List.getElem?_eq_getElem he]

theorem addEdgeTarget_panic (h : LHG O A) (e : Nat) (w : O) (he : h.adjacency.length ≤ e) :
    h.addEdgeTarget e w = .panic "add_edge_target:index" := by
  unfold LHG.addEdgeTarget LHG.newNode
  simp only [List.getElem?_eq_none he]

theorem set_wf (h : LHG O A) (w : O) (e : Nat) (e' : LEdge) (hw : WF h)
    (he' : EdgeOK (h.nodes.length + 1) e') :
    WF { h with nodes := h.nodes ++ [w], adjacency := h.adjacency.set e e' } := by
  have h1 := appendNodes_wf h [w] hw
  refine ⟨?_, ?_, h1.qlen, h1.q1, h1.q2⟩
  · show h.edges.length = (h.adjacency.set e e').length
    rw [List.length_set]; exact hw.len
  · intro x hx
    rcases List.mem_or_eq_of_mem_set hx with h2 | h2
    · exact h1.adj x h2
    · rw [h2]
      show EdgeOK (h.nodes ++ [w]).length e'
      simpa using he'

theorem mapNodes_wf {T : Type} (h : LHG O A) (k : O → T) (hw : WF h) : WF (h.mapNodes k) := by
  have hl : (h.mapNodes k).nodes.length = h.nodes.length := by simp [LHG.mapNodes]
  exact ⟨hw.len, fun e he => by rw [hl]; exact hw.adj e he, hw.qlen,
    fun v hv => by rw [hl]; exact hw.q1 v hv, fun v hv => by rw [hl]; exact hw.q2 v hv⟩

theorem mapEdges_wf {T : Type} (h : LHG O A) (k : A → T) (hw : WF h) : WF (h.mapEdges k) := by
  refine ⟨?_, hw.adj, hw.qlen, hw.q1, hw.q2⟩
  show (h.edges.map k).length = h.adjacency.length
  rw [List.length_map]; exact hw.len

end OH.LaxEdit
