/-
  Helper lemmas for C04 / C10: closed forms of the conversions between the strict and the lax
  representation (`LHG.fromStrict`, `LHG.toHypergraph`, `LOHG.toStrict`), of the lax
  composition and of the boundary types.  Everything specific to this file lives in the
  namespace `OH.LaxStrict`.
-/
import OHVerif.Lemmas.Segs
import OHVerif.Lemmas.VecBackend
import OHVerif.Spec.Lawful
import OHVerif.Spec.Diagram
import OHVerif.Model.Lax

namespace OH
namespace LaxStrict

variable {O A : Type}

/-! ### backends that number the edgeless graph by the identity -/

/-- the component numbering of a graph without edges is the identity numbering (true for the Vec
    backend; an arbitrary lawful backend may return any permutation) -/
def IdCC (B : Backend) : Prop := ∀ n : Nat, B.cc [] [] n = (List.range n, n)

theorem toDenseAux_range' (m a : Nat) (acc : List Nat) :
    VecB.toDenseAux (List.range' a m) (List.range a) acc =
      (acc.reverse ++ List.range' a m, a + m) := by
  induction m generalizing a acc with
  | zero => simp [VecB.toDenseAux]
  | succ m ih =>
    have h1 : (List.range a).idxOf? a = none := by simp
    rw [List.range'_succ]
    simp only [VecB.toDenseAux, h1]
    rw [← List.range_succ, List.length_range, ih]
    simp
    omega

theorem vecBackend_idCC : IdCC vecBackend := by
  intro n
  show VecB.toDenseAux (List.range n) [] [] = _
  have := toDenseAux_range' n 0 []
  simpa [List.range_eq_range'] using this

/-! ### small list / monad facts -/

theorem mapM_get_eq {α : Type} (xs : List α) (l : List Nat) :
    l.mapM (fun i => Prim.get xs i) =
      if ∀ i ∈ l, i < xs.length then .ok (Prim.gatherP xs l) else .panic "get:index" := by
  induction l with
  | nil => simp [Prim.gatherP]
  | cons a l ih =>
    rw [List.mapM_cons, ih]
    by_cases ha : a < xs.length
    · rw [Prim.get_ok xs a ha]
      by_cases hl : ∀ i ∈ l, i < xs.length
      · have : ∀ i ∈ a :: l, i < xs.length := by
          intro i hi; rcases List.mem_cons.1 hi with rfl | hi
          · exact ha
          · exact hl i hi
        rw [if_pos hl, if_pos this]
        simp [Prim.gatherP, List.getElem?_eq_getElem ha]
      · have : ¬ ∀ i ∈ a :: l, i < xs.length := fun h => hl (fun i hi => h i (by simp [hi]))
        rw [if_neg hl, if_neg this]
        rfl
    · have : ¬ ∀ i ∈ a :: l, i < xs.length := fun h => ha (h a (by simp))
      rw [Prim.get_panic xs a (Nat.le_of_not_lt ha), if_neg this]
      rfl

theorem mapM_get_range (n : Nat) (l : List Nat) (h : ∀ i ∈ l, i < n) :
    l.mapM (fun i => Prim.get (List.range n) i) = .ok l := by
  rw [Res.mapM_ok _ id l]
  · simp
  · intro i hi
    have := h i hi
    simp [Prim.get, Res.ofOption, this]

theorem zipWith_mk_map (adj : List LEdge) :
    List.zipWith LEdge.mk (adj.map (·.sources)) (adj.map (·.targets)) = adj := by
  induction adj with
  | nil => rfl
  | cons e adj ih => simp [ih]

theorem zipWith_mk_sources (a b : List (List Nat)) (h : a.length = b.length) :
    (List.zipWith LEdge.mk a b).map (·.sources) = a := by
  induction a generalizing b with
  | nil => simp
  | cons x a ih =>
    cases b with
    | nil => simp at h
    | cons y b => simp at h; simp [ih b h]

theorem zipWith_mk_targets (a b : List (List Nat)) (h : a.length = b.length) :
    (List.zipWith LEdge.mk a b).map (·.targets) = b := by
  induction a generalizing b with
  | nil => cases b with
    | nil => rfl
    | cons y b => simp at h
  | cons x a ih =>
    cases b with
    | nil => simp at h
    | cons y b => simp at h; simp [ih b h]

/-! ### well-formedness spelled out -/

/-- every node id mentioned by an adjacency entry is a node -/
def AdjInRange (h : LHG O A) : Prop :=
  ∀ e ∈ h.adjacency, (∀ i ∈ e.sources, i < h.nodes.length) ∧ (∀ i ∈ e.targets, i < h.nodes.length)

theorem lhg_wf_iff (h : LHG O A) :
    h.wf = true ↔ h.edges.length = h.adjacency.length ∧ AdjInRange h ∧
      h.quotient.1.length = h.quotient.2.length ∧ (∀ i ∈ h.quotient.1, i < h.nodes.length) ∧
      (∀ i ∈ h.quotient.2, i < h.nodes.length) := by
  simp [LHG.wf, AdjInRange, and_assoc]

theorem lohg_wf_iff (d : LOHG O A) :
    d.wf = true ↔ d.hypergraph.wf = true ∧ (∀ i ∈ d.sources, i < d.hypergraph.nodes.length) ∧
      (∀ i ∈ d.targets, i < d.hypergraph.nodes.length) := by
  simp [LOHG.wf, and_assoc]

theorem ic_wf_iff (c : IC FinFun) :
    c.wf = true ↔ c.valid = true ∧ c.sources.WF ∧ c.values.WF := by
  simp [IC.wf, FinFun.wf_iff, and_assoc]

theorem hg_wf_iff (h : HG O A) :
    h.wf = true ↔ h.s.wf = true ∧ h.t.wf = true ∧ h.s.len = h.x.length ∧ h.t.len = h.x.length ∧
      h.s.values.target = h.w.length ∧ h.t.values.target = h.w.length := by
  simp [HG.wf, and_assoc]

theorem ohg_wf_iff (f : OHG O A) :
    f.wf = true ↔ f.h.wf = true ∧ f.s.WF ∧ f.t.WF ∧ f.s.target = f.h.w.length ∧
      f.t.target = f.h.w.length := by
  simp [OHG.wf, FinFun.wf_iff, and_assoc]

/-! ### strict → lax -/

theorem iterTrace_fst {α : Type} (sizes : List Nat) (values : List α)
    (h : sizes.sum ≤ values.length) :
    ∃ tr, IC.iterTrace (sizes.length + 1) (IC.intoIter sizes values) = .ok tr ∧
      tr.map (·.1) = splitSegs sizes values := by
  refine ⟨_, IC.iterTrace_eq sizes values h _ (Nat.le_refl _), ?_⟩
  have := IC.range_map_getD (splitSegs sizes values)
  rw [splitSegs_length] at this
  simpa [List.map_map, Function.comp_def] using this

/-- `from_strict` unpacks the two segmented arrays into per-edge lists (needs only that the
    segment sizes do not overrun the value arrays) -/
theorem lhg_fromStrict_eq (h : HG O A) (hs : h.s.sources.table.sum ≤ h.s.values.table.length)
    (ht : h.t.sources.table.sum ≤ h.t.values.table.length) :
    LHG.fromStrict h =
      .ok ⟨h.w, h.x, List.zipWith LEdge.mk h.s.segs h.t.segs, ([], [])⟩ := by
  obtain ⟨ss, hss, hss'⟩ := iterTrace_fst _ _ hs
  obtain ⟨ts, hts, hts'⟩ := iterTrace_fst _ _ ht
  unfold LHG.fromStrict
  have e1 : h.s.len = h.s.sources.table.length := rfl
  have e2 : h.t.len = h.t.sources.table.length := rfl
  rw [e1, e2, hss, hts]
  simp only [Res.ok_bind, Res.pure_eq, IC.segs, ← hss', ← hts', List.zipWith_map]

/-! ### lax → strict without pending unifications -/

theorem mk_ic_eq (segs : List (List Nat)) (n : Nat) (h : ∀ seg ∈ segs, ∀ i ∈ seg, i < n) :
    (do let values ← (FinFun.new segs.flatten n).unwrap "to_hypergraph:expect-values"
        (IC.fromSemifinite (segs.map List.length) values).unwrap "to_hypergraph:expect-ic") =
      Res.ok (IC.ofSegs segs n) := by
  have h1 : FinFun.new segs.flatten n = .ok ⟨segs.flatten, n⟩ := by
    apply IC.finfun_new_ok
    intro x hx
    obtain ⟨seg, hseg, hxs⟩ := List.mem_flatten.1 hx
    exact h seg hseg x hxs
  rw [h1]
  simp only [Res.unwrap_ok, Res.ok_bind, IC.fromSemifinite_eq, IC.len_finfun, List.length_flatten,
    if_true, IC.ofSegs, FinFun.foldl_add_eq, Nat.zero_add]

/-- `make_hypergraph` packs the adjacency lists into the two segmented arrays -/
theorem toHypergraph_eq (h : LHG O A) (hr : AdjInRange h) :
    h.toHypergraph = .ok ⟨IC.ofSegs (h.adjacency.map (·.sources)) h.nodes.length,
      IC.ofSegs (h.adjacency.map (·.targets)) h.nodes.length, h.nodes, h.edges⟩ := by
  unfold LHG.toHypergraph
  simp only
  rw [mk_ic_eq, mk_ic_eq]
  · rfl
  · intro seg hseg i hi
    obtain ⟨e, he, rfl⟩ := List.mem_map.1 hseg
    exact (hr e he).2 i hi
  · intro seg hseg i hi
    obtain ⟨e, he, rfl⟩ := List.mem_map.1 hseg
    exact (hr e he).1 i hi

theorem coequalizer_nopending (B : Backend) (hB : IdCC B) (h : LHG O A)
    (hq : h.quotient = ([], [])) :
    LHG.coequalizer B h = .ok ⟨List.range h.nodes.length, h.nodes.length⟩ := by
  simp [LHG.coequalizer, FinFun.coequalizer, Prim.connectedComponents, hq, hB _, FinFun.source]

/-- the universal map through the identity numbering is the identity -/
theorem universalArr_range {α : Type} [DecidableEq α] (B : Backend) (u : List α) :
    FinFun.coequalizerUniversalArr B ⟨List.range u.length, u.length⟩ u = .ok u := by
  obtain ⟨v, hv, hlen, _, hg⟩ := FinFun.universalArr_ok B ⟨List.range u.length, u.length⟩ u
    (by intro x hx; simpa using hx) (by simp [FinFun.source]) (by simp)
    (by
      intro i j hij hi hj
      simp only [FinFun.source, List.length_range] at hi hj
      simp only [List.getElem?_range hi, List.getElem?_range hj, Option.some.injEq] at hij
      rw [hij])
  simp only at hlen hg
  rw [hv]
  have h2 : Prim.gatherP v (List.range v.length) = v := Prim.gatherP_range v
  rw [hlen] at h2
  rw [← hg, h2]

theorem quotientH_nopending [DecidableEq O] (B : Backend) (hB : IdCC B) (h : LHG O A)
    (hq : h.quotient = ([], [])) (hr : AdjInRange h) :
    LHG.quotientH B h = .ok (true, ⟨List.range h.nodes.length, h.nodes.length⟩, h) := by
  have hadj : h.adjacency.mapM (fun e => do
      let s ← e.sources.mapM (fun i => Prim.get (List.range h.nodes.length) i)
      let t ← e.targets.mapM (fun i => Prim.get (List.range h.nodes.length) i)
      Res.ok (⟨s, t⟩ : LEdge)) = Res.ok h.adjacency := by
    rw [Res.mapM_ok _ id]
    · simp
    · intro e he
      rw [mapM_get_range _ _ (hr e he).1, mapM_get_range _ _ (hr e he).2]
      rfl
  unfold LHG.quotientH
  rw [coequalizer_nopending B hB h hq]
  simp only [Res.ok_bind, universalArr_range, hadj, Res.pure_eq]
  obtain ⟨n, e, a, q⟩ := h
  simp only at hq
  rw [hq]

theorem quotient_nopending [DecidableEq O] (B : Backend) (hB : IdCC B) (d : LOHG O A)
    (hwf : d.wf = true) (hq : d.hypergraph.quotient = ([], [])) :
    LOHG.quotient B d =
      .ok (true, ⟨List.range d.hypergraph.nodes.length, d.hypergraph.nodes.length⟩, d) := by
  obtain ⟨hh, hs, ht⟩ := (lohg_wf_iff d).1 hwf
  obtain ⟨_, hr, _⟩ := (lhg_wf_iff _).1 hh
  unfold LOHG.quotient
  rw [quotientH_nopending B hB _ hq hr]
  simp only [Res.ok_bind, Bool.not_true, Bool.false_eq_true, if_false, mapM_get_range _ _ hs,
    mapM_get_range _ _ ht, Res.pure_eq]

/-- the strict diagram with literally the data of a lax diagram -/
def pack (d : LOHG O A) : OHG O A :=
  ⟨⟨d.sources, d.hypergraph.nodes.length⟩, ⟨d.targets, d.hypergraph.nodes.length⟩,
   ⟨IC.ofSegs (d.hypergraph.adjacency.map (·.sources)) d.hypergraph.nodes.length,
    IC.ofSegs (d.hypergraph.adjacency.map (·.targets)) d.hypergraph.nodes.length,
    d.hypergraph.nodes, d.hypergraph.edges⟩⟩

/-- once the quotient step has succeeded with a well-formed result, `to_strict` packs it -/
theorem toStrict_of_quotient [DecidableEq O] (B : Backend) (d g : LOHG O A) (q : FinFun)
    (hquot : LOHG.quotient B d = .ok (true, q, g)) (hwf : g.wf = true) :
    LOHG.toStrict B d = .ok (pack g) := by
  obtain ⟨hh, hs, ht⟩ := (lohg_wf_iff g).1 hwf
  obtain ⟨hlen, hr, _⟩ := (lhg_wf_iff _).1 hh
  unfold LOHG.toStrict
  rw [hquot]
  simp only [Res.ok_bind, Bool.not_true, Bool.false_eq_true, if_false,
    IC.finfun_new_ok _ _ hs, IC.finfun_new_ok _ _ ht, Res.unwrap_ok, toHypergraph_eq _ hr]
  simp [OHG.new, OHG.validate, HG.validate, IC.len, FinFun.source, IC.ofSegs, hlen, pack]

/-- `to_strict` of a well-formed lax diagram without pending unifications packs its data -/
theorem toStrict_nopending [DecidableEq O] (B : Backend) (hB : IdCC B) (d : LOHG O A)
    (hwf : d.wf = true) (hq : d.hypergraph.quotient = ([], [])) :
    LOHG.toStrict B d = .ok (pack d) :=
  toStrict_of_quotient B d d _ (quotient_nopending B hB d hwf hq) hwf

/-! ### the two packings are mutually inverse -/

/-- the lax diagram with literally the data of a strict diagram -/
def unpack (f : OHG O A) : LOHG O A :=
  ⟨f.s.table, f.t.table, ⟨f.h.w, f.h.x, List.zipWith LEdge.mk f.h.s.segs f.h.t.segs, ([], [])⟩⟩

theorem lohg_fromStrict_eq (f : OHG O A)
    (hs : f.h.s.sources.table.sum ≤ f.h.s.values.table.length)
    (ht : f.h.t.sources.table.sum ≤ f.h.t.values.table.length) :
    LOHG.fromStrict f = .ok (unpack f) := by
  unfold LOHG.fromStrict
  rw [lhg_fromStrict_eq f.h hs ht]
  rfl

theorem mem_zipWith_mk (a b : List (List Nat)) (e : LEdge) (he : e ∈ List.zipWith LEdge.mk a b) :
    e.sources ∈ a ∧ e.targets ∈ b := by
  induction a generalizing b with
  | nil => simp at he
  | cons x a ih =>
    cases b with
    | nil => simp at he
    | cons y b =>
      simp only [List.zipWith_cons_cons, List.mem_cons] at he
      rcases he with rfl | he
      · simp
      · have := ih b he
        simp [this.1, this.2]

theorem unpack_wf (f : OHG O A) (hwf : f.wf = true) : (unpack f).wf = true := by
  obtain ⟨hh, hs, ht, hst, htt⟩ := (ohg_wf_iff f).1 hwf
  obtain ⟨hsw, htw, hsl, htl, hsv, htv⟩ := (hg_wf_iff _).1 hh
  obtain ⟨_, _, hsvw⟩ := (ic_wf_iff _).1 hsw
  obtain ⟨_, _, htvw⟩ := (ic_wf_iff _).1 htw
  rw [lohg_wf_iff, lhg_wf_iff]
  refine ⟨⟨?_, ?_, rfl, by simp [unpack], by simp [unpack]⟩, ?_, ?_⟩
  · simp [unpack, IC.segs_length, hsl, htl]
  · intro e he
    obtain ⟨h1, h2⟩ := mem_zipWith_mk _ _ e he
    constructor
    · intro i hi
      have := hsvw i (mem_of_mem_splitSegs _ _ _ _ h1 hi)
      show i < f.h.w.length
      omega
    · intro i hi
      have := htvw i (mem_of_mem_splitSegs _ _ _ _ h2 hi)
      show i < f.h.w.length
      omega
  · intro i hi
    have := hs i hi
    show i < f.h.w.length
    omega
  · intro i hi
    have := ht i hi
    show i < f.h.w.length
    omega

theorem pack_unpack (f : OHG O A) (hwf : f.wf = true) : pack (unpack f) = f := by
  obtain ⟨hh, _, _, hst, htt⟩ := (ohg_wf_iff f).1 hwf
  obtain ⟨hsw, htw, hsl, htl, hsv, htv⟩ := (hg_wf_iff _).1 hh
  obtain ⟨hsvalid, _, _⟩ := (ic_wf_iff _).1 hsw
  obtain ⟨htvalid, _, _⟩ := (ic_wf_iff _).1 htw
  have hlen : f.h.s.segs.length = f.h.t.segs.length := by
    rw [IC.segs_length, IC.segs_length, hsl, htl]
  have e1 := IC.ofSegs_segs f.h.s hsvalid
  have e2 := IC.ofSegs_segs f.h.t htvalid
  rw [hsv] at e1
  rw [htv] at e2
  obtain ⟨⟨st, sg⟩, ⟨tt, tg⟩, ⟨hs, ht, w, x⟩⟩ := f
  simp only at hst htt e1 e2 hlen
  subst hst htt
  simp only [pack, unpack, zipWith_mk_sources _ _ hlen, zipWith_mk_targets _ _ hlen, e1, e2]

theorem unpack_pack (d : LOHG O A) (hq : d.hypergraph.quotient = ([], [])) :
    unpack (pack d) = d := by
  obtain ⟨s, t, ⟨n, e, a, q⟩⟩ := d
  simp only at hq
  subst hq
  simp only [unpack, pack, IC.segs_ofSegs, zipWith_mk_map]

theorem ofSegs_wf (l : List (List Nat)) (n : Nat) (h : ∀ seg ∈ l, ∀ i ∈ seg, i < n) :
    (IC.ofSegs l n).wf = true := by
  rw [ic_wf_iff]
  refine ⟨IC.ofSegs_valid l n, ?_, ?_⟩
  · intro x hx
    have hx' : x ∈ l.map List.length := hx
    have := le_sum_of_mem' _ x hx'
    show x < (l.map List.length).foldl (· + ·) 0 + 1
    rw [FinFun.foldl_add_eq]
    omega
  · intro x hx
    obtain ⟨seg, hseg, hxs⟩ := List.mem_flatten.1 hx
    exact h seg hseg x hxs

theorem pack_wf (d : LOHG O A) (hwf : d.wf = true) : (pack d).wf = true := by
  obtain ⟨hh, hs, ht⟩ := (lohg_wf_iff d).1 hwf
  obtain ⟨hlen, hr, _⟩ := (lhg_wf_iff _).1 hh
  rw [ohg_wf_iff, hg_wf_iff]
  refine ⟨⟨?_, ?_, ?_, ?_, rfl, rfl⟩, hs, ht, rfl, rfl⟩
  · apply ofSegs_wf
    intro seg hseg i hi
    obtain ⟨e, he, rfl⟩ := List.mem_map.1 hseg
    exact (hr e he).1 i hi
  · apply ofSegs_wf
    intro seg hseg i hi
    obtain ⟨e, he, rfl⟩ := List.mem_map.1 hseg
    exact (hr e he).2 i hi
  · simp [pack, IC.ofSegs, IC.len, FinFun.source, hlen]
  · simp [pack, IC.ofSegs, IC.len, FinFun.source, hlen]

/-! ### boundary types and lax composition -/

theorem target_eq (f : LOHG O A) :
    f.target = if ∀ i ∈ f.targets, i < f.hypergraph.nodes.length
      then .ok (Prim.gatherP f.hypergraph.nodes f.targets) else .panic "get:index" :=
  mapM_get_eq _ _

theorem source_eq (f : LOHG O A) :
    f.source = if ∀ i ∈ f.sources, i < f.hypergraph.nodes.length
      then .ok (Prim.gatherP f.hypergraph.nodes f.sources) else .panic "get:index" :=
  mapM_get_eq _ _

theorem foldl_unify (h : LHG O A) (n : Nat) (ps : List (Nat × Nat)) :
    ps.foldl (fun h p => h.unify p.1 (p.2 + n)) h =
      { h with quotient := (h.quotient.1 ++ ps.map (·.1), h.quotient.2 ++ ps.map (·.2 + n)) } := by
  induction ps generalizing h with
  | nil => simp
  | cons p ps ih =>
    rw [List.foldl_cons, ih]
    simp [LHG.unify]

/-- the closed form of `lax_compose` -/
theorem laxCompose_eq (f g : LOHG O A) :
    LOHG.laxCompose f g =
      if f.targets.length = g.sources.length then
        .ok ⟨f.sources, g.targets.map (· + f.hypergraph.nodes.length),
          { LHG.coproduct f.hypergraph g.hypergraph with
            quotient :=
              ((LHG.coproduct f.hypergraph g.hypergraph).quotient.1 ++ f.targets,
               (LHG.coproduct f.hypergraph g.hypergraph).quotient.2 ++
                 g.sources.map (· + f.hypergraph.nodes.length)) }⟩
      else .none := by
  unfold LOHG.laxCompose
  by_cases h : f.targets.length = g.sources.length
  · rw [if_neg (by simpa using h), if_pos h]
    simp only [foldl_unify, LOHG.tensor, List.take_left', List.drop_left', Res.ok.injEq]
    congr 3
    · rw [List.map_fst_zip (Nat.le_of_eq h)]
    · have := List.map_snd_zip (l₁ := f.targets) (l₂ := g.sources) (Nat.le_of_eq h.symm)
      conv => rhs; rw [← this]
      rw [List.map_map]
      rfl
  · rw [if_pos (by simpa using h), if_neg h]

/-! ### arbitrary lawful backend: the numbering of the edgeless graph is a permutation -/

theorem connected_nil (i j : Nat) (h : Connected [] [] i j) : i = j := by
  induction h with
  | rel _ _ h => simp [EdgeRel] at h
  | refl => rfl
  | symm _ _ _ ih => exact ih.symm
  | trans _ _ _ _ _ ih1 ih2 => exact ih1.trans ih2

/-- `p` is (the table of) a permutation of `0..n` -/
structure IsPerm (p : List Nat) (n : Nat) : Prop where
  length : p.length = n
  lt : ∀ x ∈ p, x < n
  inj : ∀ i j, i < n → j < n → p[i]? = p[j]? → i = j
  onto : ∀ c, c < n → c ∈ p

theorem lawful_cc_nil (B : Backend) (hB : B.Lawful) (n : Nat) :
    ∃ p, B.cc [] [] n = (p, n) ∧ IsPerm p n := by
  have hlen := hB.cc_length [] [] n rfl (by simp) (by simp)
  have hlt := hB.cc_lt [] [] n rfl (by simp) (by simp)
  have honto := hB.cc_onto [] [] n rfl (by simp) (by simp)
  have hker := hB.cc_kernel [] [] n rfl (by simp) (by simp)
  have hinj : ∀ i j, i < n → j < n → (B.cc [] [] n).1[i]? = (B.cc [] [] n).1[j]? → i = j :=
    fun i j hi hj h => connected_nil i j ((hker i j hi hj).1 h)
  have hnd : (B.cc [] [] n).1.Nodup := by
    rw [FinFun.nodup_iff_inj, hlen]; exact hinj
  have hperm : (B.cc [] [] n).1.Perm (List.range (B.cc [] [] n).2) := by
    rw [List.perm_ext_iff_of_nodup hnd List.nodup_range]
    intro a
    rw [List.mem_range]
    exact ⟨hlt a, honto a⟩
  have hk : (B.cc [] [] n).2 = n := by
    have := hperm.length_eq
    rw [hlen, List.length_range] at this
    exact this.symm
  refine ⟨(B.cc [] [] n).1, ?_, hlen, ?_, hinj, ?_⟩
  · exact Prod.ext rfl hk
  · intro x hx; have := hlt x hx; omega
  · intro c hc; exact honto c (by omega)

theorem IsPerm.getD_lt {p : List Nat} {n : Nat} (h : IsPerm p n) (i : Nat) (hi : i < n) :
    p.getD i 0 < n := by
  have hi' : i < p.length := by rw [h.length]; exact hi
  have : p.getD i 0 = p[i] := by simp [List.getD_eq_getElem?_getD, List.getElem?_eq_getElem hi']
  rw [this]
  exact h.lt _ (List.getElem_mem hi')

theorem IsPerm.getElem? {p : List Nat} {n : Nat} (h : IsPerm p n) (i : Nat) (hi : i < n) :
    p[i]? = some (p.getD i 0) := by
  have hi' : i < p.length := by rw [h.length]; exact hi
  simp [List.getD_eq_getElem?_getD, List.getElem?_eq_getElem hi']

theorem IsPerm.bijOn {p : List Nat} {n : Nat} (h : IsPerm p n) : BijOn n n (p.getD · 0) := by
  refine ⟨h.getD_lt, ?_, ?_⟩
  · intro i j hi hj hij
    apply h.inj i j hi hj
    rw [h.getElem? i hi, h.getElem? j hj]
    exact congrArg some hij
  · intro c hc
    obtain ⟨i, hi⟩ := List.mem_iff_getElem?.1 (h.onto c hc)
    have hil : i < n := by rw [← h.length]; exact (List.getElem?_eq_some_iff.1 hi).1
    refine ⟨i, hil, ?_⟩
    have := h.getElem? i hil
    rw [hi] at this
    exact (Option.some.inj this).symm

theorem mapM_get_perm {p : List Nat} {n : Nat} (hp : IsPerm p n) (l : List Nat)
    (h : ∀ i ∈ l, i < n) :
    l.mapM (fun i => Prim.get p i) = .ok (l.map (p.getD · 0)) := by
  apply Res.mapM_ok
  intro i hi
  have := hp.getElem? i (h i hi)
  unfold Prim.get
  rw [this]
  rfl

/-- all node ids pushed through `π`, node labels replaced by `v`, no pending unification -/
def relabel (π : Nat → Nat) (v : List O) (d : LOHG O A) : LOHG O A :=
  ⟨d.sources.map π, d.targets.map π,
   ⟨v, d.hypergraph.edges,
    d.hypergraph.adjacency.map (fun e => ⟨e.sources.map π, e.targets.map π⟩), ([], [])⟩⟩

theorem relabel_wf (π : Nat → Nat) (v : List O) (d : LOHG O A) (hwf : d.wf = true)
    (hv : v.length = d.hypergraph.nodes.length)
    (hπ : ∀ i, i < d.hypergraph.nodes.length → π i < d.hypergraph.nodes.length) :
    (relabel π v d).wf = true := by
  obtain ⟨hh, hs, ht⟩ := (lohg_wf_iff d).1 hwf
  obtain ⟨hlen, hr, _⟩ := (lhg_wf_iff _).1 hh
  rw [lohg_wf_iff, lhg_wf_iff]
  refine ⟨⟨by simp [relabel, hlen], ?_, rfl, by simp [relabel], by simp [relabel]⟩, ?_, ?_⟩
  · intro e he
    obtain ⟨e0, he0, rfl⟩ := List.mem_map.1 he
    constructor
    · intro i hi
      obtain ⟨j, hj, rfl⟩ := List.mem_map.1 hi
      show π j < v.length
      rw [hv]; exact hπ j ((hr e0 he0).1 j hj)
    · intro i hi
      obtain ⟨j, hj, rfl⟩ := List.mem_map.1 hi
      show π j < v.length
      rw [hv]; exact hπ j ((hr e0 he0).2 j hj)
  · intro i hi
    obtain ⟨j, hj, rfl⟩ := List.mem_map.1 hi
    show π j < v.length
    rw [hv]; exact hπ j (hs j hj)
  · intro i hi
    obtain ⟨j, hj, rfl⟩ := List.mem_map.1 hi
    show π j < v.length
    rw [hv]; exact hπ j (ht j hj)

/-- the quotient step of a lax diagram without pending unifications, for ANY lawful backend:
    a relabelling of the nodes by a permutation -/
theorem quotient_lawful [DecidableEq O] (B : Backend) (hB : B.Lawful) (d : LOHG O A)
    (hwf : d.wf = true) (hq : d.hypergraph.quotient = ([], [])) :
    ∃ (p : List Nat) (v : List O), IsPerm p d.hypergraph.nodes.length ∧
      v.length = d.hypergraph.nodes.length ∧
      (∀ i, i < d.hypergraph.nodes.length → v[p.getD i 0]? = d.hypergraph.nodes[i]?) ∧
      LOHG.quotient B d =
        .ok (true, ⟨p, d.hypergraph.nodes.length⟩, relabel (p.getD · 0) v d) := by
  obtain ⟨hh, hs, ht⟩ := (lohg_wf_iff d).1 hwf
  obtain ⟨_, hr, _⟩ := (lhg_wf_iff _).1 hh
  obtain ⟨p, hcc, hp⟩ := lawful_cc_nil B hB d.hypergraph.nodes.length
  have hcoeq : LHG.coequalizer B d.hypergraph = .ok ⟨p, d.hypergraph.nodes.length⟩ := by
    simp [LHG.coequalizer, FinFun.coequalizer, Prim.connectedComponents, hq, hcc, FinFun.source]
  obtain ⟨v, hv, hvlen, hvpt, _⟩ := FinFun.universalArr_ok B ⟨p, d.hypergraph.nodes.length⟩
    d.hypergraph.nodes hp.lt (by simp [FinFun.source, hp.length])
    (by intro h0; have := hp.length; simp only at h0; rw [h0] at this; simpa using this.symm)
    (by
      intro i j hij hi hj
      simp only [FinFun.source, hp.length] at hi hj
      rw [hp.inj i j hi hj hij])
  simp only at hvlen hvpt
  have hadj : d.hypergraph.adjacency.mapM (fun e => do
      let s ← e.sources.mapM (fun i => Prim.get p i)
      let t ← e.targets.mapM (fun i => Prim.get p i)
      Res.ok (⟨s, t⟩ : LEdge)) =
      Res.ok (d.hypergraph.adjacency.map
        (fun e => ⟨e.sources.map (p.getD · 0), e.targets.map (p.getD · 0)⟩)) := by
    apply Res.mapM_ok
    intro e he
    rw [mapM_get_perm hp _ (hr e he).1, mapM_get_perm hp _ (hr e he).2]
    rfl
  refine ⟨p, v, hp, hvlen, fun i hi => hvpt i _ (hp.getElem? i hi), ?_⟩
  unfold LOHG.quotient LHG.quotientH
  rw [hcoeq]
  simp only [Res.ok_bind, hv, hadj, Res.pure_eq, Bool.not_true, Bool.false_eq_true, if_false,
    mapM_get_perm hp _ hs, mapM_get_perm hp _ ht]
  rfl

/-- `to_strict` without pending unifications for ANY lawful backend -/
theorem toStrict_lawful [DecidableEq O] (B : Backend) (hB : B.Lawful) (d : LOHG O A)
    (hwf : d.wf = true) (hq : d.hypergraph.quotient = ([], [])) :
    ∃ (p : List Nat) (v : List O), IsPerm p d.hypergraph.nodes.length ∧
      v.length = d.hypergraph.nodes.length ∧
      (∀ i, i < d.hypergraph.nodes.length → v[p.getD i 0]? = d.hypergraph.nodes[i]?) ∧
      (relabel (p.getD · 0) v d).wf = true ∧
      LOHG.toStrict B d = .ok (pack (relabel (p.getD · 0) v d)) := by
  obtain ⟨p, v, hp, hvlen, hvpt, hquot⟩ := quotient_lawful B hB d hwf hq
  have hw := relabel_wf (p.getD · 0) v d hwf hvlen hp.getD_lt
  exact ⟨p, v, hp, hvlen, hvpt, hw, toStrict_of_quotient B d _ _ hquot hw⟩

/-! ### plain view of a lax diagram -/

/-- the plain diagram a lax diagram denotes when its pending unifications are ignored -/
def plain (d : LOHG O A) : PDiag O A :=
  ⟨d.hypergraph.nodes,
   List.zipWith (fun x e => ⟨x, e.sources, e.targets⟩) d.hypergraph.edges d.hypergraph.adjacency,
   d.sources, d.targets⟩

theorem zipWith_edges_eq (x : List A) (adj : List LEdge) :
    List.zipWith (fun x st => (⟨x, st.1, st.2⟩ : PEdge A)) x
        ((adj.map (·.sources)).zip (adj.map (·.targets))) =
      List.zipWith (fun x e => ⟨x, e.sources, e.targets⟩) x adj := by
  induction x generalizing adj with
  | nil => simp
  | cons a x ih =>
    cases adj with
    | nil => simp
    | cons e adj => simp [ih]

theorem pack_toPlain (d : LOHG O A) : (pack d).toPlain = plain d := by
  simp only [OHG.toPlain, HG.toPlainEdges, pack, IC.segs_ofSegs, zipWith_edges_eq, plain]

theorem unpack_plain (f : OHG O A) (hwf : f.wf = true) : plain (unpack f) = f.toPlain := by
  rw [← pack_toPlain, pack_unpack f hwf]

theorem zipWith_edges_map (π : Nat → Nat) (x : List A) (adj : List LEdge) :
    List.zipWith (fun x (e : LEdge) => (⟨x, e.sources, e.targets⟩ : PEdge A)) x
        (adj.map (fun e => ⟨e.sources.map π, e.targets.map π⟩)) =
      (List.zipWith (fun x (e : LEdge) => (⟨x, e.sources, e.targets⟩ : PEdge A)) x adj).map
        (PEdge.mapNodes π) := by
  induction x generalizing adj with
  | nil => simp
  | cons a x ih =>
    cases adj with
    | nil => simp
    | cons e adj => simp [ih, PEdge.mapNodes]

/-- relabelling by a bijection is an isomorphism of plain diagrams -/
theorem plain_iso_relabel (π : Nat → Nat) (v : List O) (d : LOHG O A)
    (hv : v.length = d.hypergraph.nodes.length)
    (hπ : BijOn d.hypergraph.nodes.length d.hypergraph.nodes.length π)
    (hlab : ∀ i, i < d.hypergraph.nodes.length → v[π i]? = d.hypergraph.nodes[i]?) :
    plain d ≅ plain (relabel π v d) := by
  refine ⟨π, fun e => e, ?_, ?_, ?_, ?_, rfl, rfl⟩
  · simpa [PDiag.n, plain, relabel, hv] using hπ
  · have : (plain (relabel π v d)).edges.length = (plain d).edges.length := by
      simp [plain, relabel]
    rw [this]
    exact ⟨fun _ h => h, fun _ _ _ _ h => h, fun k hk => ⟨k, hk, rfl⟩⟩
  · intro i hi
    exact hlab i hi
  · intro e _
    simp only [plain, relabel, zipWith_edges_map, List.getElem?_map]

/-! ### packing commutes with tensor -/

theorem ic_tensor_ofSegs (a b : List (List Nat)) (n m : Nat) :
    IC.tensor (IC.ofSegs a n) (IC.ofSegs b m) =
      .ok (IC.ofSegs (a ++ b.map (·.map (· + n))) (n + m)) := by
  rw [IC.tensor_eq _ _ (IC.ofSegs_valid a n) (IC.ofSegs_valid b m)]
  have e : (fun x => n + x) = (fun x => x + n) := funext fun x => Nat.add_comm n x
  simp only [IC.ofSegs, FinFun.foldl_add_eq, Nat.zero_add, List.map_append, List.map_map,
    List.flatten_append, Function.comp_def, List.length_map, e, List.map_flatten]

/-- the strict tensor of two packed diagrams is the packed lax tensor (equal data) -/
theorem tensor_pack (d1 d2 : LOHG O A) :
    OHG.tensor (pack d1) (pack d2) = .ok (pack (LOHG.tensor d1 d2)) := by
  have e : (fun x => d1.hypergraph.nodes.length + x) = (fun x => x + d1.hypergraph.nodes.length) :=
    funext fun x => Nat.add_comm _ x
  simp only [OHG.tensor, HG.coproduct, pack, ic_tensor_ofSegs, Res.ok_bind, Res.pure_eq,
    FinFun.tensor, LOHG.tensor, LHG.coproduct, List.map_append, List.map_map, Function.comp_def,
    List.length_append, e]

theorem tensor_wf (f g : LOHG O A) (hf : f.wf = true) (hg : g.wf = true) :
    (LOHG.tensor f g).wf = true := by
  obtain ⟨hfh, hfs, hft⟩ := (lohg_wf_iff f).1 hf
  obtain ⟨hgh, hgs, hgt⟩ := (lohg_wf_iff g).1 hg
  obtain ⟨f1, f2, f3, f4, f5⟩ := (lhg_wf_iff _).1 hfh
  obtain ⟨g1, g2, g3, g4, g5⟩ := (lhg_wf_iff _).1 hgh
  have key : ∀ (l1 l2 : List Nat), (∀ i ∈ l1, i < f.hypergraph.nodes.length) →
      (∀ i ∈ l2, i < g.hypergraph.nodes.length) →
      ∀ i ∈ l1 ++ l2.map (· + f.hypergraph.nodes.length),
        i < (f.hypergraph.nodes ++ g.hypergraph.nodes).length := by
    intro l1 l2 h1 h2 i hi
    rw [List.length_append]
    rcases List.mem_append.1 hi with hi | hi
    · have := h1 i hi; omega
    · obtain ⟨j, hj, rfl⟩ := List.mem_map.1 hi
      have := h2 j hj; omega
  rw [lohg_wf_iff, lhg_wf_iff]
  refine ⟨⟨?_, ?_, ?_, key _ _ f4 g4, key _ _ f5 g5⟩, key _ _ hfs hgs, key _ _ hft hgt⟩
  · simp [LOHG.tensor, LHG.coproduct, f1, g1]
  · intro e he
    rcases List.mem_append.1 he with he | he
    · constructor
      · intro i hi
        exact key e.sources [] (f2 e he).1 (by simp) i (by simpa using hi)
      · intro i hi
        exact key e.targets [] (f2 e he).2 (by simp) i (by simpa using hi)
    · obtain ⟨e0, he0, rfl⟩ := List.mem_map.1 he
      constructor
      · intro i hi
        exact key [] e0.sources (by simp) (g2 e0 he0).1 i (by simpa using hi)
      · intro i hi
        exact key [] e0.targets (by simp) (g2 e0 he0).2 i (by simpa using hi)
  · simp [LOHG.tensor, LHG.coproduct, f3, g3]

end LaxStrict
end OH
