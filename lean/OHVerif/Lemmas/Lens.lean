/-
  Semantic vocabulary for C14 (reverse derivatives as lenses), calculus-free:
  dual numbers over a commutative ring, the pairing `dot`, the reverse-derivative predicate
  `IsRevDeriv`, semantic lenses and their sequential / parallel composition.
  Independent of the executable model.
-/
import Mathlib.Tactic.Ring

namespace OH.C14

/-- dual numbers `re + eps·ε` with `ε² = 0` -/
structure Dual (R : Type) where
  re : R
  eps : R

variable {R : Type}

namespace Dual
variable [CommRing R]

instance : Add (Dual R) := ⟨fun a b => ⟨a.re + b.re, a.eps + b.eps⟩⟩
/-- `(a + bε)(c + dε) = ac + (ad + bc)ε` -/
instance : Mul (Dual R) := ⟨fun a b => ⟨a.re * b.re, a.re * b.eps + a.eps * b.re⟩⟩
instance : Neg (Dual R) := ⟨fun a => ⟨-a.re, -a.eps⟩⟩
instance : Zero (Dual R) := ⟨⟨0, 0⟩⟩
instance : One (Dual R) := ⟨⟨1, 0⟩⟩

/-- a constant has no infinitesimal part -/
def const (k : R) : Dual R := ⟨k, 0⟩

@[simp] theorem add_re (a b : Dual R) : (a + b).re = a.re + b.re := rfl
@[simp] theorem add_eps (a b : Dual R) : (a + b).eps = a.eps + b.eps := rfl
@[simp] theorem mul_re (a b : Dual R) : (a * b).re = a.re * b.re := rfl
@[simp] theorem mul_eps (a b : Dual R) : (a * b).eps = a.re * b.eps + a.eps * b.re := rfl
@[simp] theorem neg_re (a : Dual R) : (-a).re = -a.re := rfl
@[simp] theorem neg_eps (a : Dual R) : (-a).eps = -a.eps := rfl
@[simp] theorem const_re (k : R) : (const k).re = k := rfl
@[simp] theorem const_eps (k : R) : (const k).eps = 0 := rfl

omit [CommRing R] in
@[ext] theorem ext {a b : Dual R} (h1 : a.re = b.re) (h2 : a.eps = b.eps) : a = b := by
  cases a; cases b; simp_all

/-- the dual numbers form a commutative ring (the laws used: `ε² = 0` is `mul_eps`) -/
theorem mul_comm' (a b : Dual R) : a * b = b * a := by
  ext <;> simp <;> ring

theorem mul_assoc' (a b c : Dual R) : a * b * c = a * (b * c) := by
  ext <;> simp <;> ring

theorem left_distrib' (a b c : Dual R) : a * (b + c) = a * b + a * c := by
  ext <;> simp <;> ring

/-- `ε · ε = 0` -/
theorem eps_sq : (⟨0, 1⟩ : Dual R) * ⟨0, 1⟩ = 0 := by
  ext <;> simp <;> rfl

end Dual

/-- pair a point with a tangent vector: `x + v·ε` componentwise -/
def dualize (x v : List R) : List (Dual R) := List.zipWith Dual.mk x v

@[simp] theorem dualize_nil_left (v : List R) : dualize ([] : List R) v = [] := by
  simp [dualize]
@[simp] theorem dualize_nil_right (x : List R) : dualize x ([] : List R) = [] := by
  simp [dualize]
@[simp] theorem dualize_cons (a b : R) (x v : List R) :
    dualize (a :: x) (b :: v) = ⟨a, b⟩ :: dualize x v := rfl

theorem dualize_length (x v : List R) (h : v.length = x.length) : (dualize x v).length = x.length := by
  simp [dualize, h]

theorem dualize_map_re (x v : List R) (h : v.length = x.length) :
    (dualize x v).map Dual.re = x := by
  induction x generalizing v with
  | nil => simp
  | cons a x ih =>
    cases v with
    | nil => simp at h
    | cons b v => simp at h; simp [ih v h]

theorem dualize_map_eps (x v : List R) (h : v.length = x.length) :
    (dualize x v).map Dual.eps = v := by
  induction x generalizing v with
  | nil => cases v <;> simp_all
  | cons a x ih =>
    cases v with
    | nil => simp at h
    | cons b v => simp at h; simp [ih v h]

/-- every list of dual numbers is its real part paired with its infinitesimal part -/
theorem dualize_re_eps (l : List (Dual R)) : dualize (l.map Dual.re) (l.map Dual.eps) = l := by
  induction l with
  | nil => rfl
  | cons a l ih => simp [ih]

theorem dualize_append (x1 x2 v1 v2 : List R) (h : v1.length = x1.length) :
    dualize (x1 ++ x2) (v1 ++ v2) = dualize x1 v1 ++ dualize x2 v2 := by
  unfold dualize
  rw [List.zipWith_append (by omega)]

section dot
variable [CommRing R]

/-- the pairing `⟨a, b⟩ = Σ aᵢ bᵢ` (over the common prefix) -/
def dot : List R → List R → R
  | x :: xs, y :: ys => x * y + dot xs ys
  | _, _ => 0

@[simp] theorem dot_nil_left (b : List R) : dot ([] : List R) b = 0 := by
  cases b <;> rfl
@[simp] theorem dot_nil_right (a : List R) : dot a ([] : List R) = 0 := by
  cases a <;> rfl
@[simp] theorem dot_cons (x y : R) (xs ys : List R) : dot (x :: xs) (y :: ys) = x * y + dot xs ys := rfl

theorem dot_comm (a b : List R) : dot a b = dot b a := by
  induction a generalizing b with
  | nil => simp
  | cons x a ih => cases b with
    | nil => simp
    | cons y b => simp [ih b, mul_comm]

theorem dot_append (a1 a2 b1 b2 : List R) (h : a1.length = b1.length) :
    dot (a1 ++ a2) (b1 ++ b2) = dot a1 b1 + dot a2 b2 := by
  induction a1 generalizing b1 with
  | nil => cases b1 <;> simp_all
  | cons x a1 ih =>
    cases b1 with
    | nil => simp at h
    | cons y b1 =>
      simp at h
      simp [ih b1 h]
      ring

/-- the `i`-th unit vector of length `n` -/
def basis : Nat → Nat → List R
  | 0, _ => []
  | n + 1, 0 => 1 :: List.replicate n 0
  | n + 1, i + 1 => 0 :: basis n i

theorem basis_length (n i : Nat) : (basis n i : List R).length = n := by
  induction n generalizing i with
  | zero => rfl
  | succ n ih => cases i <;> simp [basis, ih]

theorem dot_replicate_zero (g : List R) (n : Nat) : dot g (List.replicate n 0) = 0 := by
  induction g generalizing n with
  | nil => simp
  | cons x g ih => cases n <;> simp [List.replicate_succ, ih]

theorem dot_basis (g : List R) (i : Nat) (h : i < g.length) : dot g (basis g.length i) = g[i] := by
  induction g generalizing i with
  | nil => simp at h
  | cons x g ih =>
    cases i with
    | zero => simp [basis, dot_replicate_zero]
    | succ i =>
      simp at h
      simp [basis, ih i h]

/-- `g` is the reverse derivative of the dual-number function `fD` at `x` against the output
    cotangent `dy`:  `⟨g, v⟩ = ⟨dy, Df(x)·v⟩` for every tangent `v`, where the directional
    derivative `Df(x)·v` is read off as the `ε`-part of `fD (x + vε)`. -/
def IsRevDeriv (fD : List (Dual R) → List (Dual R)) (x dy g : List R) : Prop :=
  ∀ v : List R, v.length = x.length → dot g v = dot dy ((fD (dualize x v)).map Dual.eps)

/-- the predicate determines the gradient of input arity uniquely -/
theorem IsRevDeriv.unique {fD : List (Dual R) → List (Dual R)} {x dy g g' : List R}
    (hg : g.length = x.length) (hg' : g'.length = x.length)
    (h : IsRevDeriv fD x dy g) (h' : IsRevDeriv fD x dy g') : g = g' := by
  apply List.ext_getElem (by omega)
  intro i h1 h2
  have e1 := h (basis x.length i) (basis_length _ _)
  have e2 := h' (basis x.length i) (basis_length _ _)
  rw [← hg, dot_basis g i h1] at e1
  rw [← hg', dot_basis g' i h2] at e2
  rw [e1, e2, hg, hg']

end dot

/-- a semantic lens: the forward pass returns the output and a residual, the reverse pass maps the
    residual and an output cotangent to an input cotangent -/
structure Lens (R : Type) where
  fwd : List R → List R × List R
  rev : List R → List R → List R

namespace Lens
variable [CommRing R]

/-- `L` is a correct reverse-derivative lens for `fD` at the point `x`:
    its forward output is the real part of `fD` (whatever the tangent), and for every output
    cotangent of the right arity its reverse pass returns a gradient of input arity which is the
    reverse derivative. -/
structure Correct (L : Lens R) (fD : List (Dual R) → List (Dual R)) (x : List R) : Prop where
  fwd_eq : ∀ v : List R, v.length = x.length → (fD (dualize x v)).map Dual.re = (L.fwd x).1
  rev_length : ∀ dy : List R, dy.length = (L.fwd x).1.length →
    (L.rev (L.fwd x).2 dy).length = x.length
  rev_eq : ∀ dy : List R, dy.length = (L.fwd x).1.length →
    IsRevDeriv fD x dy (L.rev (L.fwd x).2 dy)

/-- sequential composition; `k` is the arity of the residual of `L₁` (residuals are concatenated) -/
def comp (k : Nat) (L₁ L₂ : Lens R) : Lens R where
  fwd := fun x =>
    let r1 := L₁.fwd x
    let r2 := L₂.fwd r1.1
    (r2.1, r1.2 ++ r2.2)
  rev := fun m dz => L₁.rev (m.take k) (L₂.rev (m.drop k) dz)

/-- parallel composition; `a` input arity of `L₁`, `b` output arity of `L₁`, `k` residual arity of
    `L₁` (inputs, outputs, residuals and cotangents are concatenated) -/
def tensor (a b k : Nat) (L₁ L₂ : Lens R) : Lens R where
  fwd := fun x =>
    let r1 := L₁.fwd (x.take a)
    let r2 := L₂.fwd (x.drop a)
    (r1.1 ++ r2.1, r1.2 ++ r2.2)
  rev := fun m dy => L₁.rev (m.take k) (dy.take b) ++ L₂.rev (m.drop k) (dy.drop b)

/-- the identity lens -/
def id : Lens R := ⟨fun x => (x, []), fun _ dy => dy⟩

end Lens

end OH.C14
