/-
  Helper lemmas for the typing clauses of C14 (strict optics, src/strict/functor/optic.rs):
  list facts about the `2 × n` transposition and block injections, closed forms of
  `interleave_blocks` and `partial_dagger`, and typed forms of `compose` / `tensor` / `identity`.
-/
import OHVerif.Model.Functor
import OHVerif.Lemmas.StrictWF
import OHVerif.Props.C05
import Mathlib.Data.List.Perm.Basic

namespace OH.Optic
open OH

variable {O A : Type} {α : Type}

/-! ### `Res` plumbing -/

theorem bind_eq_ok {β γ : Type} {x : Res β} {k : β → Res γ} {r : γ} (h : (x >>= k) = .ok r) :
    ∃ a, x = .ok a ∧ k a = .ok r := by
  cases x with
  | ok a => exact ⟨a, rfl, h⟩
  | none => cases h
  | panic s => cases h

theorem unwrap_eq_ok {β : Type} {x : Res β} {s : String} {a : β} (h : x.unwrap s = .ok a) :
    x = .ok a := by
  cases x <;> simp_all [Res.unwrap]

/-! ### the `2 × n` transposition table -/

/-- table of `FinFun.transpose 2 n`: position `2k` reads block `k` of the first family, position
    `2k+1` block `k` of the second -/
def trTable (n : Nat) : List Nat := (List.range n).flatMap (fun k => [k, n + k])

theorem transpose_two_table_aux (n m : Nat) :
    (List.range (m * 2)).map (fun i => (i % 2) * n + i / 2) =
      (List.range m).flatMap (fun k => [k, n + k]) := by
  induction m with
  | zero => simp
  | succ m ih =>
    have e : (m + 1) * 2 = m * 2 + 1 + 1 := by omega
    rw [e, List.range_succ, List.range_succ, List.range_succ (n := m)]
    simp only [List.map_append, ih, List.flatMap_append, List.map_cons, List.map_nil,
      List.flatMap_cons, List.flatMap_nil, List.append_nil, List.append_assoc]
    have e1 : m * 2 % 2 * n + m * 2 / 2 = m := by
      have : m * 2 % 2 = 0 := by omega
      have : m * 2 / 2 = m := by omega
      simp [*]
    have e2 : (m * 2 + 1) % 2 * n + (m * 2 + 1) / 2 = n + m := by
      have : (m * 2 + 1) % 2 = 1 := by omega
      have : (m * 2 + 1) / 2 = m := by omega
      simp [*]
    rw [e1, e2]
    rfl

theorem transpose_two_eq (n : Nat) : FinFun.transpose 2 n = .ok ⟨trTable n, n * 2⟩ := by
  rw [FinFun.transpose_eq 2 n (by decide), transpose_two_table_aux]
  rfl

theorem trTable_length (n : Nat) : (trTable n).length = n * 2 := by
  simp [trTable, List.length_flatMap]

theorem trTable_lt (n : Nat) : ∀ x ∈ trTable n, x < n * 2 := by
  intro x hx
  simp only [trTable, List.mem_flatMap, List.mem_range, List.mem_cons, List.not_mem_nil,
    or_false] at hx
  obtain ⟨k, hk, rfl | rfl⟩ := hx <;> omega

/-- the transposition is a bijection -/
theorem trTable_perm (n : Nat) : (trTable n).Perm (List.range (n * 2)) := by
  have h := List.flatMap_append_perm (List.range n) (fun k => [k]) (fun k => [n + k])
  have e1 : (List.range n).flatMap (fun k => [k]) = List.range n := by
    rw [← List.map_eq_flatMap]; simp
  have e2 : (List.range n).flatMap (fun k => [n + k]) = (List.range n).map (fun k => n + k) := by
    rw [← List.map_eq_flatMap]
  have e3 : List.range (n * 2) = List.range n ++ (List.range n).map (fun k => n + k) := by
    rw [show n * 2 = n + n by omega, List.range_add]
  rw [e1, e2] at h
  rw [e3]
  exact h.symm

/-! ### block injections -/

/-- the block of positions of segment `x` inside the concatenation of segments of sizes `ks` -/
def blockOf (ks : List Nat) (x : Nat) : List Nat := List.range' (ks.take x).sum (ks.getD x 0)

theorem blocks_range_aux (ks : List Nat) (m : Nat) (hm : m ≤ ks.length) :
    (List.range m).flatMap (blockOf ks) = List.range (ks.take m).sum := by
  induction m with
  | zero => simp
  | succ m ih =>
    have hm' : m < ks.length := hm
    rw [List.range_succ, List.flatMap_append, ih (Nat.le_of_lt hm')]
    simp only [List.flatMap_cons, List.flatMap_nil, List.append_nil, blockOf]
    have h1 := Prim.sum_take_succ ks m hm'
    have h2 : ks.getD m 0 = ks[m] := by
      simp [List.getD_eq_getElem?_getD, List.getElem?_eq_getElem hm']
    rw [h1, h2, List.range_eq_range', List.range_eq_range']
    have := @List.range'_append 0 (ks.take m).sum ks[m] 1
    simpa using this

/-- consecutive blocks tile the whole range -/
theorem blocks_range (ks : List Nat) :
    (List.range ks.length).flatMap (blockOf ks) = List.range ks.sum := by
  rw [blocks_range_aux ks ks.length (Nat.le_refl _), List.take_length]

/-- the target leg of `interleave_blocks` for segment sizes `ks` (first family followed by
    second family, `n` segments each) -/
def ilTable (ks : List Nat) (n : Nat) : List Nat := (trTable n).flatMap (blockOf ks)

theorem ilTable_perm (ks : List Nat) (n : Nat) (h : ks.length = n * 2) :
    (ilTable ks n).Perm (List.range ks.sum) := by
  unfold ilTable
  rw [← blocks_range ks, h]
  exact (trTable_perm n).flatMap_right _

theorem ilTable_lt (ks : List Nat) (n : Nat) (h : ks.length = n * 2) :
    ∀ x ∈ ilTable ks n, x < ks.sum := by
  intro x hx
  have := (ilTable_perm ks n h).mem_iff.1 hx
  simpa using this

theorem ilTable_length (ks : List Nat) (n : Nat) (h : ks.length = n * 2) :
    (ilTable ks n).length = ks.sum := by
  simpa using (ilTable_perm ks n h).length_eq

theorem ilTable_nodup (ks : List Nat) (n : Nat) (h : ks.length = n * 2) : (ilTable ks n).Nodup :=
  (ilTable_perm ks n h).nodup_iff.2 List.nodup_range

/-! ### interleaving two families of segments -/

theorem zipWith_eq_range_map' {β γ : Type} (f : α → β → γ) (A : List α) (B : List β) (da : α)
    (db : β) (n : Nat) (hA : A.length = n) (hB : B.length = n) :
    List.zipWith f A B = (List.range n).map (fun k => f (A.getD k da) (B.getD k db)) := by
  apply List.ext_getElem
  · simp [hA, hB]
  · intro i h1 h2
    simp only [List.length_zipWith, hA, hB, Nat.min_self] at h1
    simp [List.getD_eq_getElem?_getD, List.getElem?_eq_getElem (hA ▸ h1),
      List.getElem?_eq_getElem (hB ▸ h1)]

/-- reading the segments `A ++ B` in transposed order interleaves them -/
theorem trTable_flatMap_segs (A B : List (List α)) (n : Nat) (hA : A.length = n)
    (hB : B.length = n) :
    (trTable n).flatMap (fun j => (A ++ B).getD j []) = (List.zipWith (· ++ ·) A B).flatten := by
  rw [zipWith_eq_range_map' _ A B [] [] n hA hB, List.flatten_eq_flatMap, List.flatMap_map]
  unfold trTable
  rw [List.flatMap_assoc]
  apply List.flatMap_congr
  intro k hk
  have hk' : k < n := List.mem_range.1 hk
  simp only [List.flatMap_cons, List.flatMap_nil, List.append_nil, id]
  congr 1
  · simp [List.getD_eq_getElem?_getD, List.getElem?_append_left (hA ▸ hk')]
  · simp [List.getD_eq_getElem?_getD, List.getElem?_append_right, hA]

/-- the interleaving of two families of label segments, flattened -/
def interleave (A B : List (List α)) : List α := (List.zipWith (· ++ ·) A B).flatten

/-! ### gathering along prefixes and suffixes -/

theorem gatherP_take (xs : List α) (idx : List Nat) (h : ∀ i ∈ idx, i < xs.length) (p : Nat) :
    Prim.gatherP xs (idx.take p) = (Prim.gatherP xs idx).take p := by
  induction idx generalizing p with
  | nil => simp [Prim.gatherP]
  | cons i is ih =>
    have hi := h i (by simp)
    have ih' := fun p => ih (fun j hj => h j (by simp [hj])) p
    cases p with
    | zero => simp [Prim.gatherP]
    | succ p =>
      simp only [Prim.gatherP] at ih' ⊢
      simp [List.getElem?_eq_getElem hi, ih' p]

theorem gatherP_drop (xs : List α) (idx : List Nat) (h : ∀ i ∈ idx, i < xs.length) (p : Nat) :
    Prim.gatherP xs (idx.drop p) = (Prim.gatherP xs idx).drop p := by
  induction idx generalizing p with
  | nil => simp [Prim.gatherP]
  | cons i is ih =>
    have hi := h i (by simp)
    have ih' := fun p => ih (fun j hj => h j (by simp [hj])) p
    cases p with
    | zero => simp [Prim.gatherP]
    | succ p =>
      simp only [Prim.gatherP] at ih' ⊢
      simp [List.getElem?_eq_getElem hi, ih' p]

/-! ### closed form of `interleave_blocks` -/

section interleave
variable [DecidableEq O]

/-- the unequal-length assertion -/
theorem interleaveBlocks_panic (a b : IC (List O)) (h : a.len ≠ b.len) :
    (SOptic.interleaveBlocks a b : Res (OHG O A)) = .panic "interleave_blocks:unequal" := by
  simp [SOptic.interleaveBlocks, h]

/-- closed form on valid families with equally many segments: the discrete diagram on
    `a.values ++ b.values`, source leg the identity, target leg `ilTable` -/
theorem interleaveBlocks_eq (a b : IC (List O)) (ha : a.valid = true) (hb : b.valid = true)
    (hl : a.len = b.len) :
    (SOptic.interleaveBlocks a b : Res (OHG O A)) =
      .ok ⟨⟨List.range (a.values ++ b.values).length, (a.values ++ b.values).length⟩,
           ⟨ilTable (a.sources.table ++ b.sources.table) a.len,
             (a.sources.table ++ b.sources.table).sum⟩,
           HG.discrete (a.values ++ b.values)⟩ := by
  obtain ⟨_, ha2⟩ := (IC.valid_iff a).1 ha
  obtain ⟨_, hb2⟩ := (IC.valid_iff b).1 hb
  simp only [IC.len_list] at ha2 hb2
  have hl' : a.sources.table.length = b.sources.table.length := hl
  have hsum : (a.sources.table ++ b.sources.table).sum = (a.values ++ b.values).length := by
    simp [ha2, hb2]
  have hwf : (⟨trTable a.len, a.len * 2⟩ : FinFun).WF := trTable_lt a.len
  have htg : (⟨trTable a.len, a.len * 2⟩ : FinFun).target =
      (⟨a.sources.table ++ b.sources.table, (a.sources.table ++ b.sources.table).sum + 1⟩ :
        FinFun).source := by
    show a.sources.table.length * 2 = (a.sources.table ++ b.sources.table).length
    rw [List.length_append, ← hl']; omega
  unfold SOptic.interleaveBlocks
  rw [if_neg (by simpa using hl), IC.coproductL_eq a b ha hb]
  simp only [Res.unwrap_ok, Res.ok_bind, FinFun.identity_eq, transpose_two_eq]
  rw [FinFun.injections_ok _ _ hwf htg]
  simp only [Res.unwrap_ok, Res.ok_bind]
  rw [OHG.spider_eq, if_pos ⟨rfl, hsum⟩]
  rfl

/-- whatever the arguments: a diagram returned by `interleave_blocks` is a well-formed discrete
    diagram (the legs come out of `identity` and `injections`) -/
theorem interleaveBlocks_ok_WF (a b : IC (List O)) (r : OHG O A)
    (h : SOptic.interleaveBlocks a b = .ok r) : r.WF ∧ r.h.x = [] := by
  unfold SOptic.interleaveBlocks at h
  split at h
  · cases h
  · obtain ⟨ab, hab, h1⟩ := bind_eq_ok h
    obtain ⟨s, hs, h2⟩ := bind_eq_ok h1
    obtain ⟨tr, htr, h3⟩ := bind_eq_ok h2
    obtain ⟨t, ht, h4⟩ := bind_eq_ok h3
    clear h h1 h2 h3
    have ht := unwrap_eq_ok ht
    have h := unwrap_eq_ok h4
    clear h4
    rw [FinFun.identity_eq] at hs
    cases hs
    rw [transpose_two_eq] at htr
    cases htr
    have htW : t.WF := by
      by_cases hc : (⟨trTable a.len, a.len * 2⟩ : FinFun).target = ab.sources.source
      · obtain ⟨t', ht', _, _, _, hw⟩ := C06.injections_spec ab.sources
          ⟨trTable a.len, a.len * 2⟩ (trTable_lt a.len) hc
        rw [ht] at ht'
        cases ht'
        exact hw
      · rw [C06.injections_none_of_ne _ _ hc] at ht
        cases ht
    have hsW : (⟨List.range ab.values.length, ab.values.length⟩ : FinFun).WF :=
      fun x hx => List.mem_range.1 hx
    refine ⟨(C05.spider_wf_iff _ _ _ r h).2 ⟨hsW, htW⟩, ?_⟩
    rw [OHG.spider_eq] at h
    split at h
    · cases h; rfl
    · cases h

end interleave

/-! ### closed form of `partial_dagger` -/

theorem gatherP_range_take (xs : List α) (p : Nat) : Prim.gatherP xs (List.range p) = xs.take p := by
  rw [List.range_eq_range', gatherP_range']
  simp

/-- the result of `partial_dagger` with `p` forward inputs and `p'` forward outputs: same
    hypergraph, source interface = first `p` source positions followed by the target positions
    from `p'` on, target interface = first `p'` target positions followed by the source positions
    from `p` on -/
def pdResult (c : OHG O A) (p p' : Nat) : OHG O A :=
  ⟨⟨c.s.table.take p ++ c.t.table.drop p', c.h.w.length⟩,
   ⟨c.t.table.take p' ++ c.s.table.drop p, c.h.w.length⟩, c.h⟩

theorem pdResult_WF (c : OHG O A) (p p' : Nat) (hc : c.WF) : (pdResult c p p').WF := by
  refine ⟨hc.hyper, ?_, ?_, rfl, rfl⟩
  · intro x hx
    rcases List.mem_append.1 hx with hx | hx
    · exact hc.src_lt x (List.mem_of_mem_take hx)
    · exact hc.tgt_lt x (List.mem_of_mem_drop hx)
  · intro x hx
    rcases List.mem_append.1 hx with hx | hx
    · exact hc.tgt_lt x (List.mem_of_mem_take hx)
    · exact hc.src_lt x (List.mem_of_mem_drop hx)

/-- `partial_dagger c fa fb ra rb` on a well-formed `c` whose source interface has
    `|fa| + |rb|` positions and whose target interface has `|fb| + |ra|` positions -/
theorem partialDagger_eq (c : OHG O A) (fa fb ra rb : IC (List O)) (hc : c.WF)
    (hs : c.s.table.length = fa.values.length + rb.values.length)
    (ht : c.t.table.length = fb.values.length + ra.values.length) :
    SOptic.partialDagger c fa fb ra rb = .ok (pdResult c fa.values.length fb.values.length) := by
  have wi0 := (C06.inj0_spec fa.values.length rb.values.length).2.2.2
  have wi1 := (C06.inj1_spec fb.values.length ra.values.length).2.2.2
  have wj0 := (C06.inj0_spec fb.values.length ra.values.length).2.2.2
  have wj1 := (C06.inj1_spec fa.values.length rb.values.length).2.2.2
  have e1 : (c.t.table.drop fb.values.length).take ra.values.length =
      c.t.table.drop fb.values.length := List.take_of_length_le (by simp; omega)
  have e2 : (c.s.table.drop fa.values.length).take rb.values.length =
      c.s.table.drop fa.values.length := List.take_of_length_le (by simp; omega)
  have hW := pdResult_WF c fa.values.length fb.values.length hc
  have hnew : OHG.new
      ⟨c.s.table.take fa.values.length ++ c.t.table.drop fb.values.length, c.h.w.length⟩
      ⟨c.t.table.take fb.values.length ++ c.s.table.drop fa.values.length, c.h.w.length⟩ c.h = _ :=
    (C05.ohg_new_wf_iff _ _ c.h hW.src_wf hW.tgt_wf hc.hyper.src hc.hyper.tgt).2 hW
  unfold SOptic.partialDagger
  rw [FinFun.inj0_eq, FinFun.inj1_eq, FinFun.inj0_eq, FinFun.inj1_eq]
  simp only [Res.ok_bind]
  rw [FinFun.compose_ok _ c.s wi0 hs.symm, FinFun.compose_ok _ c.t wi1 ht.symm,
    FinFun.compose_ok _ c.t wj0 ht.symm, FinFun.compose_ok _ c.s wj1 hs.symm]
  simp only [Res.unwrap_ok, Res.ok_bind, gatherP_range_take, gatherP_range', e1, e2,
    FinFun.coproduct, hc.src_nodes, hc.tgt_nodes, if_true]
  rw [hnew]
  rfl

/-- too few / too many source positions: the first `unwrap` fires -/
theorem partialDagger_panic_s (c : OHG O A) (fa fb ra rb : IC (List O))
    (hs : c.s.table.length ≠ fa.values.length + rb.values.length) :
    SOptic.partialDagger c fa fb ra rb = .panic "partial_dagger:unwrap-s_i" := by
  have hn : FinFun.compose ⟨List.range fa.values.length, fa.values.length + rb.values.length⟩ c.s =
      .none := FinFun.compose_none _ _ (fun e => hs e.symm)
  unfold SOptic.partialDagger
  rw [FinFun.inj0_eq]
  simp only [Res.ok_bind]
  rw [hn]
  rfl

/-- right number of source positions, wrong number of target positions: the second `unwrap`
    fires -/
theorem partialDagger_panic_t (c : OHG O A) (fa fb ra rb : IC (List O))
    (hs : c.s.table.length = fa.values.length + rb.values.length)
    (ht : c.t.table.length ≠ fb.values.length + ra.values.length) :
    SOptic.partialDagger c fa fb ra rb = .panic "partial_dagger:unwrap-s_o" := by
  have wi0 := (C06.inj0_spec fa.values.length rb.values.length).2.2.2
  have hn : FinFun.compose
      ⟨List.range' fb.values.length ra.values.length, fb.values.length + ra.values.length⟩ c.t =
      .none := FinFun.compose_none _ _ (fun e => ht e.symm)
  unfold SOptic.partialDagger
  rw [FinFun.inj0_eq, FinFun.inj1_eq]
  simp only [Res.ok_bind]
  rw [FinFun.compose_ok _ c.s wi0 hs.symm]
  simp only [Res.unwrap_ok, Res.ok_bind]
  rw [hn]
  rfl

/-! ### typed diagrams -/

/-- `f` is a well-formed diagram of type `X → Y` -/
def HasType (f : OHG O A) (X Y : List O) : Prop := f.WF ∧ f.source = .ok X ∧ f.target = .ok Y

theorem HasType.dagger {f : OHG O A} {X Y : List O} (h : HasType f X Y) : HasType f.dagger Y X := by
  obtain ⟨hw, hs, ht⟩ := h
  obtain ⟨hd, e1, e2, _⟩ := C05.dagger_wf_type f hw
  exact ⟨hd, e1.trans ht, e2.trans hs⟩

theorem identity_hasType (w : List O) :
    ∃ r : OHG O A, OHG.identity w = .ok r ∧ HasType r w w ∧ r.h.x = [] := by
  obtain ⟨r, hr, hw, hs, ht, _⟩ := C05.identity_wf_type (A := A) w
  refine ⟨r, hr, ⟨hw, hs, ht⟩, ?_⟩
  rw [OHG.identity_eq] at hr
  cases hr
  rfl

theorem tensor_hasType {f g : OHG O A} {X Y X' Y' : List O} (hf : HasType f X Y)
    (hg : HasType g X' Y') :
    ∃ r, OHG.tensor f g = .ok r ∧ HasType r (X ++ X') (Y ++ Y') ∧ r.h.x = f.h.x ++ g.h.x := by
  obtain ⟨r, a, a', b, b', hr, hw, s1, s2, s3, t1, t2, t3, _, hx, _⟩ :=
    C05.tensor_wf_type f g hf.1 hg.1
  rw [hf.2.1] at s1; rw [hg.2.1] at s2; rw [hf.2.2] at t1; rw [hg.2.2] at t2
  cases s1; cases s2; cases t1; cases t2
  exact ⟨r, hr, ⟨hw, s3, t3⟩, hx⟩

theorem compose_hasType [DecidableEq O] (B : Backend) (hB : B.Lawful) {f g : OHG O A}
    {X Y Z : List O} (hf : HasType f X Y) (hg : HasType g Y Z) :
    ∃ r, OHG.compose B f g = .ok r ∧ HasType r X Z ∧ r.h.x = f.h.x ++ g.h.x := by
  obtain ⟨r, hr, hw, hs, ht, hx, _⟩ :=
    (C05.compose_spec B hB f g hf.1 hg.1).1 (hf.2.2.trans hg.2.1.symm)
  exact ⟨r, hr, ⟨hw, hs.trans hf.2.1, ht.trans hg.2.2⟩, hx⟩

/-! ### the type of a partial dagger -/

/-- `partial_dagger` of a well-formed `c : X ● Y → Z ● W` (with `|X| = |fa|`, `|Y| = |rb|`,
    `|Z| = |fb|`, `|W| = |ra|`) is the well-formed diagram `X ● W → Z ● Y` on the same
    hypergraph: the `Y` inputs become outputs, the `W` outputs become inputs -/
theorem partialDagger_typed (c : OHG O A) (fa fb ra rb : IC (List O)) (X Y Z W : List O)
    (hc : HasType c (X ++ Y) (Z ++ W)) (hX : X.length = fa.values.length)
    (hY : Y.length = rb.values.length) (hZ : Z.length = fb.values.length)
    (hW : W.length = ra.values.length) :
    ∃ d, SOptic.partialDagger c fa fb ra rb = .ok d ∧ HasType d (X ++ W) (Z ++ Y) ∧ d.h = c.h ∧
      d.s.table = c.s.table.take fa.values.length ++ c.t.table.drop fb.values.length ∧
      d.t.table = c.t.table.take fb.values.length ++ c.s.table.drop fa.values.length := by
  obtain ⟨hw, hs, ht⟩ := hc
  rw [OHG.source_eq c hw.src_wf hw.src_nodes] at hs
  rw [OHG.target_eq c hw.tgt_wf hw.tgt_nodes] at ht
  have hs := Res.ok.inj hs
  have ht := Res.ok.inj ht
  have ls : c.s.table.length = fa.values.length + rb.values.length := by
    rw [← Prim.gatherP_length c.h.w c.s.table hw.src_lt, hs, List.length_append, hX, hY]
  have lt : c.t.table.length = fb.values.length + ra.values.length := by
    rw [← Prim.gatherP_length c.h.w c.t.table hw.tgt_lt, ht, List.length_append, hZ, hW]
  have heq := partialDagger_eq c fa fb ra rb hw ls lt
  have hW := pdResult_WF c fa.values.length fb.values.length hw
  have hsW := hW.src_wf
  have htW := hW.tgt_wf
  refine ⟨_, heq, ⟨hW, ?_, ?_⟩, rfl, rfl, rfl⟩
  · rw [OHG.source_eq _ hsW rfl]
    show Res.ok (Prim.gatherP c.h.w (c.s.table.take fa.values.length ++
      c.t.table.drop fb.values.length)) = _
    rw [gatherP_append_idx, gatherP_take _ _ hw.src_lt, gatherP_drop _ _ hw.tgt_lt, hs, ht, ← hX,
      ← hZ, List.take_left', List.drop_left'] <;> rfl
  · rw [OHG.target_eq _ htW rfl]
    show Res.ok (Prim.gatherP c.h.w (c.t.table.take fb.values.length ++
      c.s.table.drop fa.values.length)) = _
    rw [gatherP_append_idx, gatherP_take _ _ hw.tgt_lt, gatherP_drop _ _ hw.src_lt, hs, ht, ← hX,
      ← hZ, List.take_left', List.drop_left'] <;> rfl

end OH.Optic
