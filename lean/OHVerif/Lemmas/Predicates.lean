/-
  Helper lemmas for C17 / C18 (the predicates on diagrams and on hypergraph morphisms):
  unpacking of deep well-formedness, the plain edge list of a strict hypergraph, degrees as
  `count`s in the flat incidence tables, the closed form of `is_monogamous`, and the closed
  form of every step of `HArrow.validate`.
-/
import OHVerif.Spec.Diagram
import OHVerif.Lemmas.Segs

namespace OH

variable {O A : Type}

/-! ### unpacking deep well-formedness -/

structure IC.Wf (c : IC FinFun) : Prop where
  valid : c.valid = true
  sources : c.sources.WF
  values : c.values.WF

theorem IC.wf_iff (c : IC FinFun) : c.wf = true ↔ c.Wf := by
  simp only [IC.wf, Bool.and_eq_true, FinFun.wf_iff]
  exact ⟨fun ⟨⟨a, b⟩, c⟩ => ⟨a, b, c⟩, fun ⟨a, b, c⟩ => ⟨⟨a, b⟩, c⟩⟩

structure HG.Wf (h : HG O A) : Prop where
  s : h.s.Wf
  t : h.t.Wf
  slen : h.s.len = h.x.length
  tlen : h.t.len = h.x.length
  stgt : h.s.values.target = h.w.length
  ttgt : h.t.values.target = h.w.length

theorem HG.wf_iff (h : HG O A) : h.wf = true ↔ h.Wf := by
  simp only [HG.wf, Bool.and_eq_true, IC.wf_iff, beq_iff_eq]
  exact ⟨fun ⟨⟨⟨⟨⟨a, b⟩, c⟩, d⟩, e⟩, f⟩ => ⟨a, b, c, d, e, f⟩,
    fun ⟨a, b, c, d, e, f⟩ => ⟨⟨⟨⟨⟨a, b⟩, c⟩, d⟩, e⟩, f⟩⟩

structure OHG.Wf (f : OHG O A) : Prop where
  h : f.h.Wf
  s : f.s.WF
  t : f.t.WF
  stgt : f.s.target = f.h.w.length
  ttgt : f.t.target = f.h.w.length

theorem OHG.wf_iff (f : OHG O A) : f.wf = true ↔ f.Wf := by
  simp only [OHG.wf, Bool.and_eq_true, HG.wf_iff, FinFun.wf_iff, beq_iff_eq]
  exact ⟨fun ⟨⟨⟨⟨a, b⟩, c⟩, d⟩, e⟩ => ⟨a, b, c, d, e⟩,
    fun ⟨a, b, c, d, e⟩ => ⟨⟨⟨⟨a, b⟩, c⟩, d⟩, e⟩⟩

/-! ### the plain edge list -/

namespace HG

theorem toPlainEdges_length (h : HG O A) (hw : h.Wf) : h.toPlainEdges.length = h.x.length := by
  simp [toPlainEdges, IC.segs_length, hw.slen, hw.tlen]

theorem toPlainEdges_getElem? (h : HG O A) (e : Nat) :
    h.toPlainEdges[e]? =
      (h.x[e]?).bind fun x => (h.s.segs[e]?).bind fun s => (h.t.segs[e]?).map fun t => ⟨x, s, t⟩ := by
  have hz : (h.s.segs.zip h.t.segs)[e]? =
      (h.s.segs[e]?).bind fun s => (h.t.segs[e]?).map fun t => (s, t) := by
    rw [List.zip, List.getElem?_zipWith]
    cases h.s.segs[e]? <;> cases h.t.segs[e]? <;> rfl
  simp only [toPlainEdges, List.getElem?_zipWith, hz]
  cases h.x[e]? <;> cases h.s.segs[e]? <;> cases h.t.segs[e]? <;> rfl

theorem toPlainEdges_map_src (h : HG O A) (hw : h.Wf) :
    h.toPlainEdges.map (·.src) = h.s.segs := by
  apply List.ext_getElem?
  intro e
  rw [List.getElem?_map, toPlainEdges_getElem?]
  by_cases he : e < h.x.length
  · have h1 : e < h.s.segs.length := by rw [IC.segs_length, hw.slen]; exact he
    have h2 : e < h.t.segs.length := by rw [IC.segs_length, hw.tlen]; exact he
    simp [List.getElem?_eq_getElem he, List.getElem?_eq_getElem h1, List.getElem?_eq_getElem h2]
  · have h1 : h.s.segs.length ≤ e := by rw [IC.segs_length, hw.slen]; omega
    simp [List.getElem?_eq_none (Nat.le_of_not_lt he), List.getElem?_eq_none h1]

theorem toPlainEdges_map_tgt (h : HG O A) (hw : h.Wf) :
    h.toPlainEdges.map (·.tgt) = h.t.segs := by
  apply List.ext_getElem?
  intro e
  rw [List.getElem?_map, toPlainEdges_getElem?]
  by_cases he : e < h.x.length
  · have h1 : e < h.s.segs.length := by rw [IC.segs_length, hw.slen]; exact he
    have h2 : e < h.t.segs.length := by rw [IC.segs_length, hw.tlen]; exact he
    simp [List.getElem?_eq_getElem he, List.getElem?_eq_getElem h1, List.getElem?_eq_getElem h2]
  · have h1 : h.t.segs.length ≤ e := by rw [IC.segs_length, hw.tlen]; omega
    simp [List.getElem?_eq_none (Nat.le_of_not_lt he), List.getElem?_eq_none h1]

end HG

/-! ### degrees are counts in the flat incidence tables -/

theorem sum_map_count_flatten (L : List (List Nat)) (v : Nat) :
    (L.map (fun l => l.count v)).sum = L.flatten.count v := by
  induction L with
  | nil => rfl
  | cons a L ih => simp [ih, List.count_append]

theorem inDeg_eq_count (nodes : List O) (ins outs : List Nat) (h : HG O A) (hw : h.Wf) (v : Nat) :
    inDeg ⟨nodes, h.toPlainEdges, ins, outs⟩ v = h.t.values.table.count v := by
  have h1 := HG.toPlainEdges_map_tgt h hw
  have : (h.toPlainEdges.map (fun e => e.tgt.count v)) =
      (h.toPlainEdges.map (·.tgt)).map (fun l => l.count v) := by simp
  rw [inDeg, this, h1, sum_map_count_flatten, IC.segs_flatten _ hw.t.valid]

theorem outDeg_eq_count (nodes : List O) (ins outs : List Nat) (h : HG O A) (hw : h.Wf) (v : Nat) :
    outDeg ⟨nodes, h.toPlainEdges, ins, outs⟩ v = h.s.values.table.count v := by
  have h1 := HG.toPlainEdges_map_src h hw
  have : (h.toPlainEdges.map (fun e => e.src.count v)) =
      (h.toPlainEdges.map (·.src)).map (fun l => l.count v) := by simp
  rw [outDeg, this, h1, sum_map_count_flatten, IC.segs_flatten _ hw.s.valid]

/-! ### closed form of `is_monogamous` -/

/-- the guard `counts.max().map_or(false, |m| m > 1)` -/
def maxGt1 (l : List Nat) : Bool :=
  match Prim.max l with | some m => decide (m > 1) | Option.none => false

theorem OHG.isMonogamous_eq (f : OHG O A) : f.isMonogamous = (do
    let n := f.h.w.length
    let inCounts ← Prim.bincount f.s.table n
    if maxGt1 inCounts then pure false
    else do
      let outCounts ← Prim.bincount f.t.table n
      if maxGt1 outCounts then pure false
      else do
        let inDeg ← Prim.bincount f.h.t.values.table n
        let outDeg ← Prim.bincount f.h.s.values.table n
        let a ← Prim.add inDeg inCounts
        let b ← Prim.add outDeg outCounts
        pure (decide (a = List.replicate n 1) && decide (b = List.replicate n 1))) := rfl

theorem maxGt1_false_iff (l : List Nat) : maxGt1 l = false ↔ ∀ c ∈ l, c ≤ 1 := by
  unfold maxGt1
  cases hm : Prim.max l with
  | none =>
    have := (Prim.max_eq_none_iff l).1 hm
    simp [this]
  | some m =>
    obtain ⟨h1, h2⟩ := Prim.max_eq_some l m hm
    simp only [gt_iff_lt, decide_eq_false_iff_not, Nat.not_lt]
    exact ⟨fun h c hc => Nat.le_trans (h2 c hc) h, fun h => h m h1⟩

theorem counts_le_one_iff_nodup (xs : List Nat) (n : Nat) (h : ∀ x ∈ xs, x < n) :
    (∀ c ∈ (List.range n).map (fun v => xs.count v), c ≤ 1) ↔ xs.Nodup := by
  rw [List.nodup_iff_count]
  constructor
  · intro hc v
    by_cases hv : v ∈ xs
    · exact hc _ (List.mem_map.mpr ⟨v, List.mem_range.mpr (h v hv), rfl⟩)
    · rw [List.count_eq_zero_of_not_mem hv]; exact Nat.zero_le _
  · intro hc c hmem
    obtain ⟨v, _, rfl⟩ := List.mem_map.mp hmem
    exact hc v

theorem zipWith_add_counts_eq_ones (f g : Nat → Nat) (n : Nat) :
    List.zipWith (· + ·) ((List.range n).map f) ((List.range n).map g) = List.replicate n 1 ↔
      ∀ v, v < n → f v + g v = 1 := by
  have : List.zipWith (· + ·) ((List.range n).map f) ((List.range n).map g) =
      (List.range n).map (fun v => f v + g v) := by
    simp [List.zipWith_map, List.zipWith_self]
  rw [this]
  constructor
  · intro h v hv
    have := congrArg (fun l => l[v]?) h
    simpa [List.getElem?_range hv, List.getElem?_replicate, hv] using this
  · intro h
    apply List.ext_getElem?
    intro v
    by_cases hv : v < n
    · simp [hv, h v hv]
    · simp [hv]

/-- closed form of `is_monogamous` on a well-formed open hypergraph: it never panics, and
    answers whether both interface tables are duplicate-free and at every node the
    (flat-table) in-count plus the input-count, and the out-count plus the output-count, are 1 -/
theorem OHG.isMonogamous_closed (f : OHG O A) (hw : f.Wf) :
    ∃ b, f.isMonogamous = .ok b ∧ (b = true ↔
      f.s.table.Nodup ∧ f.t.table.Nodup ∧
      (∀ v, v < f.h.w.length → f.h.t.values.table.count v + f.s.table.count v = 1) ∧
      (∀ v, v < f.h.w.length → f.h.s.values.table.count v + f.t.table.count v = 1)) := by
  have hs : ∀ x ∈ f.s.table, x < f.h.w.length := fun x hx => hw.stgt ▸ hw.s x hx
  have ht : ∀ x ∈ f.t.table, x < f.h.w.length := fun x hx => hw.ttgt ▸ hw.t x hx
  have hti : ∀ x ∈ f.h.t.values.table, x < f.h.w.length := fun x hx => hw.h.ttgt ▸ hw.h.t.values x hx
  have hsi : ∀ x ∈ f.h.s.values.table, x < f.h.w.length := fun x hx => hw.h.stgt ▸ hw.h.s.values x hx
  rw [OHG.isMonogamous_eq]
  simp only [Prim.bincount_ok _ _ hs, Prim.bincount_ok _ _ ht, Prim.bincount_ok _ _ hti,
    Prim.bincount_ok _ _ hsi, Res.ok_bind]
  have e1 := maxGt1_false_iff ((List.range f.h.w.length).map (fun v => f.s.table.count v))
  have e2 := maxGt1_false_iff ((List.range f.h.w.length).map (fun v => f.t.table.count v))
  rw [counts_le_one_iff_nodup _ _ hs] at e1
  rw [counts_le_one_iff_nodup _ _ ht] at e2
  generalize maxGt1 ((List.range f.h.w.length).map (fun v => f.s.table.count v)) = c1 at e1
  generalize maxGt1 ((List.range f.h.w.length).map (fun v => f.t.table.count v)) = c2 at e2
  cases c1 with
  | true =>
    refine ⟨false, rfl, ?_⟩
    have : ¬ f.s.table.Nodup := fun hn => by cases e1.2 hn
    simp [this]
  | false =>
    have n1 : f.s.table.Nodup := e1.1 rfl
    cases c2 with
    | true =>
      refine ⟨false, rfl, ?_⟩
      have : ¬ f.t.table.Nodup := fun hn => by cases e2.2 hn
      simp [this]
    | false =>
      have n2 : f.t.table.Nodup := e2.1 rfl
      rw [Prim.add_ok _ _ (by simp), Prim.add_ok _ _ (by simp)]
      refine ⟨_, rfl, ?_⟩
      simp only [Bool.and_eq_true, decide_eq_true_eq, zipWith_add_counts_eq_ones]
      simp [n1, n2]


/-! ### `gather` against a given list -/

/-- a list equals the gather of `xs` along in-range indices iff it has the length of the index
    list and agrees with `xs ∘ idx` position by position -/
theorem eq_gatherP_iff {α : Type} (xs ys : List α) (idx : List Nat) (h : ∀ i ∈ idx, i < xs.length) :
    ys = Prim.gatherP xs idx ↔
      idx.length = ys.length ∧ ∀ i, i < ys.length → xs[idx.getD i 0]? = ys[i]? := by
  have hmap := Prim.gatherP_eq_map xs idx h
  have hinj : ys = Prim.gatherP xs idx ↔ ys.map some = idx.map (fun i => xs[i]?) := by
    rw [← hmap]
    exact ⟨fun e => by rw [e], fun e => (List.map_inj_right (fun x y hxy => Option.some.inj hxy)).1 e⟩
  rw [hinj]
  constructor
  · intro e
    have hl : idx.length = ys.length := by simpa using (congrArg List.length e).symm
    refine ⟨hl, fun i hi => ?_⟩
    have := congrArg (fun l => l[i]?) e
    have hi' : i < idx.length := by omega
    simp only [List.getElem?_map, List.getElem?_eq_getElem hi, List.getElem?_eq_getElem hi',
      Option.map_some, Option.some.injEq] at this
    simp [List.getD_eq_getElem?_getD, List.getElem?_eq_getElem hi', ← this,
      List.getElem?_eq_getElem hi]
  · rintro ⟨hl, hp⟩
    apply List.ext_getElem?
    intro i
    by_cases hi : i < ys.length
    · have hi' : i < idx.length := by omega
      have := hp i hi
      simp only [List.getD_eq_getElem?_getD, List.getElem?_eq_getElem hi', Option.getD_some] at this
      simp [List.getElem?_eq_getElem hi', this, List.getElem?_eq_getElem hi]
    · have hi' : ¬ i < idx.length := by omega
      simp [List.getElem?_eq_none (Nat.le_of_not_lt hi), List.getElem?_eq_none (Nat.le_of_not_lt hi')]

/-! ### naturality of a segmented array along a pair of maps -/

/-- list-of-lists form of `map_values c w = map_indexes d x` -/
theorem IC.natural_iff (c d : IC FinFun) (w : Nat → Nat) (xt : List Nat) (wt : Nat)
    (hc : c.valid = true) (hd : d.valid = true) (hwt : wt = d.values.target) :
    (⟨c.sources, ⟨c.values.table.map w, wt⟩⟩ : IC FinFun) =
        ⟨⟨xt.map (fun j => d.sources.table.getD j 0),
            (xt.flatMap (fun j => d.segs.getD j [])).length + 1⟩,
          ⟨xt.flatMap (fun j => d.segs.getD j []), d.values.target⟩⟩ ↔
      c.segs.map (·.map w) = xt.map (fun j => d.segs.getD j []) := by
  have hc1 := ((IC.valid_iff c).1 hc).1
  have hc2 := ((IC.valid_iff c).1 hc).2
  have hd2 := ((IC.valid_iff d).1 hd).2
  simp only [IC.len_finfun] at hc2 hd2
  have hsizes : xt.map (fun j => d.sources.table.getD j 0) =
      (xt.map (fun j => d.segs.getD j [])).map List.length := by
    rw [List.map_map]
    apply List.map_congr_left
    intro j _
    simp only [Function.comp, IC.segs, splitSegs_getD_length _ _ (Nat.le_of_eq hd2)]
  have hflat : xt.flatMap (fun j => d.segs.getD j []) =
      (xt.map (fun j => d.segs.getD j [])).flatten := by
    rw [List.flatMap_def]
  constructor
  · intro e
    have e1 : c.sources.table = xt.map (fun j => d.sources.table.getD j 0) := by
      have := congrArg (fun (i : IC FinFun) => i.sources.table) e
      exact this
    have e2 : c.values.table.map w = xt.flatMap (fun j => d.segs.getD j []) := by
      have := congrArg (fun (i : IC FinFun) => i.values.table) e
      exact this
    rw [IC.segs, ← splitSegs_map, e1, e2, hsizes, hflat]
    exact splitSegs_map_length_flatten _
  · intro e
    have e1 : c.sources.table = xt.map (fun j => d.sources.table.getD j 0) := by
      rw [hsizes, ← e, ← IC.segs_map_length c hc, List.map_map]
      apply List.map_congr_left
      intro l _
      simp
    have e2 : c.values.table.map w = xt.flatMap (fun j => d.segs.getD j []) := by
      rw [hflat, ← e, ← List.map_flatten, IC.segs_flatten c hc]
    have e3 : c.sources.target = (xt.flatMap (fun j => d.segs.getD j [])).length + 1 := by
      rw [← e2, hc1, hc2]; simp
    obtain ⟨⟨st, tg⟩, ⟨vt, vg⟩⟩ := c
    simp only at e1 e2 e3 ⊢
    subst e1 e3 hwt
    rw [e2]

/-- pointwise form of the list-of-lists equation -/
theorem segs_natural_pointwise (L M : List (List Nat)) (w : Nat → Nat) (xt : List Nat)
    (hlen : L.length = xt.length) (hx : ∀ j ∈ xt, j < M.length) :
    L.map (·.map w) = xt.map (fun j => M.getD j []) ↔
      ∀ e, e < xt.length → M[xt.getD e 0]? = (L[e]?).map (·.map w) := by
  constructor
  · intro h e he
    have := congrArg (fun l => l[e]?) h
    simp only [List.getElem?_map, List.getElem?_eq_getElem he, Option.map_some] at this
    have hj : xt[e] < M.length := hx _ (List.getElem_mem he)
    simp only [List.getD_eq_getElem?_getD, List.getElem?_eq_getElem he, Option.getD_some,
      List.getElem?_eq_getElem hj] at this ⊢
    exact this.symm
  · intro h
    apply List.ext_getElem?
    intro e
    by_cases he : e < xt.length
    · have := h e he
      have hj : xt[e] < M.length := hx _ (List.getElem_mem he)
      simp only [List.getD_eq_getElem?_getD, List.getElem?_eq_getElem he, Option.getD_some,
        List.getElem?_eq_getElem hj] at this
      simp only [List.getElem?_map, List.getElem?_eq_getElem he, Option.map_some,
        List.getD_eq_getElem?_getD, List.getElem?_eq_getElem hj, Option.getD_some]
      exact this.symm
    · have he' : ¬ e < L.length := by omega
      simp [List.getElem?_eq_none (Nat.le_of_not_lt he), List.getElem?_eq_none (Nat.le_of_not_lt he')]


/-! ### hypergraph morphisms: the conditions `validate` checks -/

namespace Graph.HArrow

variable (m : HArrow O A)

/-- the node map / edge map as total functions (value `0` outside the table) -/
def wFn (i : Nat) : Nat := m.w.table.getD i 0
def xFn (e : Nat) : Nat := m.x.table.getD e 0

/-- hypotheses: both hypergraphs deeply well-formed, both tables below their stated codomain -/
structure Wf : Prop where
  source : m.source.Wf
  target : m.target.Wf
  w : m.w.WF
  x : m.x.WF

/-- `TypeMismatchW` names: the node map's codomain is not the target's node count -/
def TypedW : Prop := m.w.target = m.target.w.length
/-- `NotNaturalW` names: the node map has one entry per source node and preserves labels -/
def NatW : Prop := m.w.source = m.source.w.length ∧
  ∀ i, i < m.source.w.length → m.target.w[m.wFn i]? = m.source.w[i]?
def TypedX : Prop := m.x.target = m.target.x.length
def NatX : Prop := m.x.source = m.source.x.length ∧
  ∀ e, e < m.source.x.length → m.target.x[m.xFn e]? = m.source.x[e]?
/-- `NotNaturalS` names: the ordered source list of every edge is sent elementwise onto that of
    its image -/
def NatS : Prop := ∀ e, e < m.source.x.length →
  m.target.s.segs[m.xFn e]? = (m.source.s.segs[e]?).map (·.map m.wFn)
def NatT : Prop := ∀ e, e < m.source.x.length →
  m.target.t.segs[m.xFn e]? = (m.source.t.segs[e]?).map (·.map m.wFn)

variable {m}

theorem composeSemi_w (hw : m.Wf) (ht : m.TypedW) :
    FinFun.composeSemi m.w m.target.w = .ok (Prim.gatherP m.target.w m.w.table) :=
  FinFun.composeSemi_ok _ _ hw.w ht

theorem composeSemi_x (hw : m.Wf) (ht : m.TypedX) :
    FinFun.composeSemi m.x m.target.x = .ok (Prim.gatherP m.target.x m.x.table) :=
  FinFun.composeSemi_ok _ _ hw.x ht

theorem natW_iff (hw : m.Wf) (ht : m.TypedW) :
    m.source.w = Prim.gatherP m.target.w m.w.table ↔ m.NatW :=
  eq_gatherP_iff _ _ _ (fun i hi => ht ▸ hw.w i hi)

theorem natX_iff (hw : m.Wf) (ht : m.TypedX) :
    m.source.x = Prim.gatherP m.target.x m.x.table ↔ m.NatX :=
  eq_gatherP_iff _ _ _ (fun i hi => ht ▸ hw.x i hi)

/-- one incidence check (`c` an incidence array of the source, `d` the corresponding one of the
    target) -/
theorem incidence_step (c d : IC FinFun) (hc : c.Wf) (hd : d.Wf)
    (hct : c.values.target = m.w.source) (hdt : m.w.target = d.values.target)
    (hxw : m.x.WF) (hxt : m.x.target = d.len) (hlen : c.len = m.x.source) :
    ∃ sl sr, IC.mapValues c m.w = .ok sl ∧ IC.mapIndexes d m.x = .ok sr ∧
      (sl = sr ↔ ∀ e, e < m.x.source → d.segs[m.xFn e]? = (c.segs[e]?).map (·.map m.wFn)) := by
  refine ⟨_, _, IC.mapValues_eq c m.w hc.values hct, IC.mapIndexes_eq d m.x hd.valid hxw hxt, ?_⟩
  refine (IC.natural_iff c d m.wFn m.x.table m.w.target hc.valid hd.valid hdt).trans ?_
  refine (segs_natural_pointwise _ _ _ _ ?_ ?_).trans Iff.rfl
  · rw [IC.segs_length]; exact hlen
  · intro j hj
    rw [IC.segs_length, ← hxt]; exact hxw j hj

variable (m)

open Classical in
/-- the verdict of `validate` as a cascade of the named conditions -/
noncomputable def verdict : Except ArrowErr Unit :=
  if ¬ m.TypedW then .error .typeMismatchW
  else if ¬ m.NatW then .error .notNaturalW
  else if ¬ m.TypedX then .error .typeMismatchX
  else if ¬ m.NatX then .error .notNaturalX
  else if ¬ m.NatS then .error .notNaturalS
  else if ¬ m.NatT then .error .notNaturalT
  else .ok ()

variable {m}

theorem validate_eq [DecidableEq O] [DecidableEq A] (hw : m.Wf) :
    m.validate = .ok m.verdict := by
  unfold validate verdict
  dsimp only
  by_cases h1 : m.TypedW
  case neg =>
    have : FinFun.composeSemi m.w m.target.w = .none := by
      simp only [FinFun.composeSemi]; exact if_neg h1
    simp [this, okOr, h1]
  rw [composeSemi_w hw h1]
  by_cases h2 : m.NatW
  case neg =>
    have : m.source.w ≠ Prim.gatherP m.target.w m.w.table := fun e => h2 ((natW_iff hw h1).1 e)
    simp [okOr, h1, h2, this]
  have e2 := (natW_iff hw h1).2 h2
  by_cases h3 : m.TypedX
  case neg =>
    have : FinFun.composeSemi m.x m.target.x = .none := by
      simp only [FinFun.composeSemi]; exact if_neg h3
    simp [this, okOr, h1, h2, h3, e2]
  rw [composeSemi_x hw h3]
  by_cases h4 : m.NatX
  case neg =>
    have : m.source.x ≠ Prim.gatherP m.target.x m.x.table := fun e => h4 ((natX_iff hw h3).1 e)
    simp [okOr, h1, h2, h3, h4, this, e2]
  have e4 := (natX_iff hw h3).2 h4
  obtain ⟨sl, sr, hsl, hsr, hs⟩ := incidence_step (m := m) m.source.s m.target.s hw.source.s
    hw.target.s (by rw [hw.source.stgt, h2.1]) (by rw [h1, hw.target.stgt]) hw.x
    (by rw [h3, hw.target.slen]) (by rw [hw.source.slen, h4.1])
  obtain ⟨tl, tr, htl, htr, ht⟩ := incidence_step (m := m) m.source.t m.target.t hw.source.t
    hw.target.t (by rw [hw.source.ttgt, h2.1]) (by rw [h1, hw.target.ttgt]) hw.x
    (by rw [h3, hw.target.tlen]) (by rw [hw.source.tlen, h4.1])
  rw [h4.1] at hs ht
  have hs' : sl = sr ↔ m.NatS := hs
  have ht' : tl = tr ↔ m.NatT := ht
  rw [hsl, hsr, htl, htr]
  by_cases h5 : m.NatS
  case neg =>
    have : sl ≠ sr := fun e => h5 (hs'.1 e)
    simp [okOr, h1, h2, h3, h4, h5, this, e2, e4]
  have e5 := hs'.2 h5
  by_cases h6 : m.NatT
  · have e6 := ht'.2 h6
    simp [okOr, h1, h2, h3, h4, h5, h6, e2, e4, e5, e6]
  · have : tl ≠ tr := fun e => h6 (ht'.1 e)
    simp [okOr, h1, h2, h3, h4, h5, h6, this, e2, e4, e5]

end Graph.HArrow


/-! ### the plain-diagram reading of the named conditions -/

theorem HG.toPlainEdges_getElem?_eq_some (h : HG O A) (e : Nat) (p : PEdge A) :
    h.toPlainEdges[e]? = some p ↔
      h.x[e]? = some p.label ∧ h.s.segs[e]? = some p.src ∧ h.t.segs[e]? = some p.tgt := by
  rw [HG.toPlainEdges_getElem?]
  obtain ⟨l, s, t⟩ := p
  cases h.x[e]? <;> cases h.s.segs[e]? <;> cases h.t.segs[e]? <;> simp

namespace Graph.HArrow

variable {m : HArrow O A}

/-- `IsMorphism` between the plain diagrams of source and target is exactly the conjunction of
    the four pointwise conditions -/
theorem isMorphism_iff (hw : m.Wf) :
    IsMorphism ⟨m.source.w, m.source.toPlainEdges, [], []⟩ ⟨m.target.w, m.target.toPlainEdges, [], []⟩
        m.wFn m.xFn ↔
      (∀ i, i < m.source.w.length → m.target.w[m.wFn i]? = m.source.w[i]?) ∧
      (∀ e, e < m.source.x.length → m.target.x[m.xFn e]? = m.source.x[e]?) ∧ m.NatS ∧ m.NatT := by
  unfold IsMorphism NatS NatT
  simp only [HG.toPlainEdges_length _ hw.source]
  have hs : ∀ e, e < m.source.x.length → e < m.source.s.segs.length := fun e he => by
    rw [IC.segs_length, hw.source.slen]; exact he
  have ht : ∀ e, e < m.source.x.length → e < m.source.t.segs.length := fun e he => by
    rw [IC.segs_length, hw.source.tlen]; exact he
  constructor
  · rintro ⟨hn, he⟩
    refine ⟨hn, fun e hlt => ?_, fun e hlt => ?_, fun e hlt => ?_⟩ <;>
      obtain ⟨ge, he', h1, h2, h3, h4, h5⟩ := he e hlt <;>
      rw [HG.toPlainEdges_getElem?_eq_some] at h1 h2
    · rw [h2.1, h1.1, h3]
    · rw [h2.2.1, h1.2.1, h4]; rfl
    · rw [h2.2.2, h1.2.2, h5]; rfl
  · rintro ⟨hn, hx, hS, hT⟩
    refine ⟨hn, fun e hlt => ?_⟩
    refine ⟨⟨m.source.x[e], m.source.s.segs[e]'(hs e hlt), m.source.t.segs[e]'(ht e hlt)⟩,
      ⟨m.source.x[e], (m.source.s.segs[e]'(hs e hlt)).map m.wFn,
        (m.source.t.segs[e]'(ht e hlt)).map m.wFn⟩, ?_, ?_, rfl, rfl, rfl⟩
    · rw [HG.toPlainEdges_getElem?_eq_some]
      exact ⟨List.getElem?_eq_getElem hlt, List.getElem?_eq_getElem _, List.getElem?_eq_getElem _⟩
    · rw [HG.toPlainEdges_getElem?_eq_some]
      refine ⟨?_, ?_, ?_⟩
      · rw [hx e hlt, List.getElem?_eq_getElem hlt]
      · rw [hS e hlt, List.getElem?_eq_getElem (hs e hlt)]; rfl
      · rw [hT e hlt, List.getElem?_eq_getElem (ht e hlt)]; rfl

end Graph.HArrow

end OH
