/-
  Helper lemmas for C17 / C18 (the predicates on diagrams and on hypergraph morphisms):
  unpacking of deep well-formedness, the plain edge list of a strict hypergraph, degrees as
  `count`s in the flat incidence tables, the closed form of `is_monogamous`, and the closed
  form of every step of `HArrow.validate`; the correctness of the two-layer frontier search of
  `is_convex_subgraph` (`convexLoop_spec`, `isConvexSubgraph_spec`).
-/
import Mathlib.Data.List.Nodup
import OHVerif.Spec.Diagram
import OHVerif.Lemmas.Segs
import OHVerif.Lemmas.Adjacency

namespace OH

variable {O A : Type}

/-! ### unpacking deep well-formedness -/

structure IC.Wf (c : IC FinFun) : Prop where
  valid : c.valid = true
  sources : c.sources.WF
  values : c.values.WF

theorem IC.wf_iff_Wf (c : IC FinFun) : c.wf = true ↔ c.Wf := by
  simp only [IC.wf, Bool.and_eq_true, FinFun.wf_iff]
  exact ⟨fun ⟨⟨a, b⟩, c⟩ => ⟨a, b, c⟩, fun ⟨a, b, c⟩ => ⟨⟨a, b⟩, c⟩⟩

structure HG.Wf (h : HG O A) : Prop where
  s : h.s.Wf
  t : h.t.Wf
  slen : h.s.len = h.x.length
  tlen : h.t.len = h.x.length
  stgt : h.s.values.target = h.w.length
  ttgt : h.t.values.target = h.w.length

theorem HG.wf_iff_Wf (h : HG O A) : h.wf = true ↔ h.Wf := by
  simp only [HG.wf, Bool.and_eq_true, IC.wf_iff_Wf, beq_iff_eq]
  exact ⟨fun ⟨⟨⟨⟨⟨a, b⟩, c⟩, d⟩, e⟩, f⟩ => ⟨a, b, c, d, e, f⟩,
    fun ⟨a, b, c, d, e, f⟩ => ⟨⟨⟨⟨⟨a, b⟩, c⟩, d⟩, e⟩, f⟩⟩

structure OHG.Wf (f : OHG O A) : Prop where
  h : f.h.Wf
  s : f.s.WF
  t : f.t.WF
  stgt : f.s.target = f.h.w.length
  ttgt : f.t.target = f.h.w.length

theorem OHG.wf_iff_Wf (f : OHG O A) : f.wf = true ↔ f.Wf := by
  simp only [OHG.wf, Bool.and_eq_true, HG.wf_iff_Wf, FinFun.wf_iff, beq_iff_eq]
  exact ⟨fun ⟨⟨⟨⟨a, b⟩, c⟩, d⟩, e⟩ => ⟨a, b, c, d, e⟩,
    fun ⟨a, b, c, d, e⟩ => ⟨⟨⟨⟨a, b⟩, c⟩, d⟩, e⟩⟩

/-! ### the plain edge list -/

namespace HG

theorem toPlainEdges_length (h : HG O A) (hw : h.Wf) : h.toPlainEdges.length = h.x.length := by
  simp [toPlainEdges, IC.segs_length, hw.slen, hw.tlen]

theorem toPlainEdges_getElem? (h : HG O A) (e : Nat) :
    h.toPlainEdges[e]? =
      (h.x[e]?).bind fun x => (h.s.segs[e]?).bind fun s => (h.t.segs[e]?).map fun t => ⟨x, s, t⟩ := by
  have hz : (h.s.segs.zip h.t.segs)[e]? =
      (h.s.segs[e]?).bind fun s => (h.t.segs[e]?).map fun t => (s, t) := by
    rw [List.zip, List.getElem?_zipWith]
    cases h.s.segs[e]? <;> cases h.t.segs[e]? <;> rfl
  simp only [toPlainEdges, List.getElem?_zipWith, hz]
  cases h.x[e]? <;> cases h.s.segs[e]? <;> cases h.t.segs[e]? <;> rfl

theorem toPlainEdges_map_src (h : HG O A) (hw : h.Wf) :
    h.toPlainEdges.map (·.src) = h.s.segs := by
  apply List.ext_getElem?
  intro e
  rw [List.getElem?_map, toPlainEdges_getElem?]
  by_cases he : e < h.x.length
  · have h1 : e < h.s.segs.length := by rw [IC.segs_length, hw.slen]; exact he
    have h2 : e < h.t.segs.length := by rw [IC.segs_length, hw.tlen]; exact he
    simp [List.getElem?_eq_getElem he, List.getElem?_eq_getElem h1, List.getElem?_eq_getElem h2]
  · have h1 : h.s.segs.length ≤ e := by rw [IC.segs_length, hw.slen]; omega
    simp [List.getElem?_eq_none (Nat.le_of_not_lt he), List.getElem?_eq_none h1]

theorem toPlainEdges_map_tgt (h : HG O A) (hw : h.Wf) :
    h.toPlainEdges.map (·.tgt) = h.t.segs := by
  apply List.ext_getElem?
  intro e
  rw [List.getElem?_map, toPlainEdges_getElem?]
  by_cases he : e < h.x.length
  · have h1 : e < h.s.segs.length := by rw [IC.segs_length, hw.slen]; exact he
    have h2 : e < h.t.segs.length := by rw [IC.segs_length, hw.tlen]; exact he
    simp [List.getElem?_eq_getElem he, List.getElem?_eq_getElem h1, List.getElem?_eq_getElem h2]
  · have h1 : h.t.segs.length ≤ e := by rw [IC.segs_length, hw.tlen]; omega
    simp [List.getElem?_eq_none (Nat.le_of_not_lt he), List.getElem?_eq_none h1]

end HG

/-! ### degrees are counts in the flat incidence tables -/

theorem sum_map_count_flatten (L : List (List Nat)) (v : Nat) :
    (L.map (fun l => l.count v)).sum = L.flatten.count v := by
  induction L with
  | nil => rfl
  | cons a L ih => simp [ih, List.count_append]

theorem inDeg_eq_count (nodes : List O) (ins outs : List Nat) (h : HG O A) (hw : h.Wf) (v : Nat) :
    inDeg ⟨nodes, h.toPlainEdges, ins, outs⟩ v = h.t.values.table.count v := by
  have h1 := HG.toPlainEdges_map_tgt h hw
  have : (h.toPlainEdges.map (fun e => e.tgt.count v)) =
      (h.toPlainEdges.map (·.tgt)).map (fun l => l.count v) := by simp
  rw [inDeg, this, h1, sum_map_count_flatten, IC.segs_flatten _ hw.t.valid]

theorem outDeg_eq_count (nodes : List O) (ins outs : List Nat) (h : HG O A) (hw : h.Wf) (v : Nat) :
    outDeg ⟨nodes, h.toPlainEdges, ins, outs⟩ v = h.s.values.table.count v := by
  have h1 := HG.toPlainEdges_map_src h hw
  have : (h.toPlainEdges.map (fun e => e.src.count v)) =
      (h.toPlainEdges.map (·.src)).map (fun l => l.count v) := by simp
  rw [outDeg, this, h1, sum_map_count_flatten, IC.segs_flatten _ hw.s.valid]

/-! ### closed form of `is_monogamous` -/

/-- the guard `counts.max().map_or(false, |m| m > 1)` -/
def maxGt1 (l : List Nat) : Bool :=
  match Prim.max l with | some m => decide (m > 1) | Option.none => false

theorem OHG.isMonogamous_eq (f : OHG O A) : f.isMonogamous = (do
    let n := f.h.w.length
    let inCounts ← Prim.bincount f.s.table n
    if maxGt1 inCounts then pure false
    else do
      let outCounts ← Prim.bincount f.t.table n
      if maxGt1 outCounts then pure false
      else do
        let inDeg ← Prim.bincount f.h.t.values.table n
        let outDeg ← Prim.bincount f.h.s.values.table n
        let a ← Prim.add inDeg inCounts
        let b ← Prim.add outDeg outCounts
        pure (decide (a = List.replicate n 1) && decide (b = List.replicate n 1))) := rfl

theorem maxGt1_false_iff (l : List Nat) : maxGt1 l = false ↔ ∀ c ∈ l, c ≤ 1 := by
  unfold maxGt1
  cases hm : Prim.max l with
  | none =>
    have := (Prim.max_eq_none_iff l).1 hm
    simp [this]
  | some m =>
    obtain ⟨h1, h2⟩ := Prim.max_eq_some l m hm
    simp only [gt_iff_lt, decide_eq_false_iff_not, Nat.not_lt]
    exact ⟨fun h c hc => Nat.le_trans (h2 c hc) h, fun h => h m h1⟩

theorem counts_le_one_iff_nodup (xs : List Nat) (n : Nat) (h : ∀ x ∈ xs, x < n) :
    (∀ c ∈ (List.range n).map (fun v => xs.count v), c ≤ 1) ↔ xs.Nodup := by
  rw [List.nodup_iff_count]
  constructor
  · intro hc v
    by_cases hv : v ∈ xs
    · exact hc _ (List.mem_map.mpr ⟨v, List.mem_range.mpr (h v hv), rfl⟩)
    · rw [List.count_eq_zero_of_not_mem hv]; exact Nat.zero_le _
  · intro hc c hmem
    obtain ⟨v, _, rfl⟩ := List.mem_map.mp hmem
    exact hc v

theorem zipWith_add_counts_eq_ones (f g : Nat → Nat) (n : Nat) :
    List.zipWith (· + ·) ((List.range n).map f) ((List.range n).map g) = List.replicate n 1 ↔
      ∀ v, v < n → f v + g v = 1 := by
  have : List.zipWith (· + ·) ((List.range n).map f) ((List.range n).map g) =
      (List.range n).map (fun v => f v + g v) := by
    simp [List.zipWith_map, List.zipWith_self]
  rw [this]
  constructor
  · intro h v hv
    have := congrArg (fun l => l[v]?) h
    simpa [List.getElem?_range hv, List.getElem?_replicate, hv] using this
  · intro h
    apply List.ext_getElem?
    intro v
    by_cases hv : v < n
    · simp [hv, h v hv]
    · simp [hv]

/-- closed form of `is_monogamous` on a well-formed open hypergraph: it never panics, and
    answers whether both interface tables are duplicate-free and at every node the
    (flat-table) in-count plus the input-count, and the out-count plus the output-count, are 1 -/
theorem OHG.isMonogamous_closed (f : OHG O A) (hw : f.Wf) :
    ∃ b, f.isMonogamous = .ok b ∧ (b = true ↔
      f.s.table.Nodup ∧ f.t.table.Nodup ∧
      (∀ v, v < f.h.w.length → f.h.t.values.table.count v + f.s.table.count v = 1) ∧
      (∀ v, v < f.h.w.length → f.h.s.values.table.count v + f.t.table.count v = 1)) := by
  have hs : ∀ x ∈ f.s.table, x < f.h.w.length := fun x hx => hw.stgt ▸ hw.s x hx
  have ht : ∀ x ∈ f.t.table, x < f.h.w.length := fun x hx => hw.ttgt ▸ hw.t x hx
  have hti : ∀ x ∈ f.h.t.values.table, x < f.h.w.length := fun x hx => hw.h.ttgt ▸ hw.h.t.values x hx
  have hsi : ∀ x ∈ f.h.s.values.table, x < f.h.w.length := fun x hx => hw.h.stgt ▸ hw.h.s.values x hx
  rw [OHG.isMonogamous_eq]
  simp only [Prim.bincount_ok _ _ hs, Prim.bincount_ok _ _ ht, Prim.bincount_ok _ _ hti,
    Prim.bincount_ok _ _ hsi, Res.ok_bind]
  have e1 := maxGt1_false_iff ((List.range f.h.w.length).map (fun v => f.s.table.count v))
  have e2 := maxGt1_false_iff ((List.range f.h.w.length).map (fun v => f.t.table.count v))
  rw [counts_le_one_iff_nodup _ _ hs] at e1
  rw [counts_le_one_iff_nodup _ _ ht] at e2
  generalize maxGt1 ((List.range f.h.w.length).map (fun v => f.s.table.count v)) = c1 at e1
  generalize maxGt1 ((List.range f.h.w.length).map (fun v => f.t.table.count v)) = c2 at e2
  cases c1 with
  | true =>
    refine ⟨false, rfl, ?_⟩
    have : ¬ f.s.table.Nodup := fun hn => by cases e1.2 hn
    simp [this]
  | false =>
    have n1 : f.s.table.Nodup := e1.1 rfl
    cases c2 with
    | true =>
      refine ⟨false, rfl, ?_⟩
      have : ¬ f.t.table.Nodup := fun hn => by cases e2.2 hn
      simp [this]
    | false =>
      have n2 : f.t.table.Nodup := e2.1 rfl
      rw [Prim.add_ok _ _ (by simp), Prim.add_ok _ _ (by simp)]
      refine ⟨_, rfl, ?_⟩
      simp only [Bool.and_eq_true, decide_eq_true_eq, zipWith_add_counts_eq_ones]
      simp [n1, n2]


/-! ### `gather` against a given list -/

/-- a list equals the gather of `xs` along in-range indices iff it has the length of the index
    list and agrees with `xs ∘ idx` position by position -/
theorem eq_gatherP_iff {α : Type} (xs ys : List α) (idx : List Nat) (h : ∀ i ∈ idx, i < xs.length) :
    ys = Prim.gatherP xs idx ↔
      idx.length = ys.length ∧ ∀ i, i < ys.length → xs[idx.getD i 0]? = ys[i]? := by
  have hmap := Prim.gatherP_eq_map xs idx h
  have hinj : ys = Prim.gatherP xs idx ↔ ys.map some = idx.map (fun i => xs[i]?) := by
    rw [← hmap]
    exact ⟨fun e => by rw [e], fun e => (List.map_inj_right (fun x y hxy => Option.some.inj hxy)).1 e⟩
  rw [hinj]
  constructor
  · intro e
    have hl : idx.length = ys.length := by simpa using (congrArg List.length e).symm
    refine ⟨hl, fun i hi => ?_⟩
    have := congrArg (fun l => l[i]?) e
    have hi' : i < idx.length := by omega
    simp only [List.getElem?_map, List.getElem?_eq_getElem hi, List.getElem?_eq_getElem hi',
      Option.map_some, Option.some.injEq] at this
    simp [List.getD_eq_getElem?_getD, List.getElem?_eq_getElem hi', ← this,
      List.getElem?_eq_getElem hi]
  · rintro ⟨hl, hp⟩
    apply List.ext_getElem?
    intro i
    by_cases hi : i < ys.length
    · have hi' : i < idx.length := by omega
      have := hp i hi
      simp only [List.getD_eq_getElem?_getD, List.getElem?_eq_getElem hi', Option.getD_some] at this
      simp [List.getElem?_eq_getElem hi', this, List.getElem?_eq_getElem hi]
    · have hi' : ¬ i < idx.length := by omega
      simp [List.getElem?_eq_none (Nat.le_of_not_lt hi), List.getElem?_eq_none (Nat.le_of_not_lt hi')]

/-! ### naturality of a segmented array along a pair of maps -/

/-- list-of-lists form of `map_values c w = map_indexes d x` -/
theorem IC.natural_iff (c d : IC FinFun) (w : Nat → Nat) (xt : List Nat) (wt : Nat)
    (hc : c.valid = true) (hd : d.valid = true) (hwt : wt = d.values.target) :
    (⟨c.sources, ⟨c.values.table.map w, wt⟩⟩ : IC FinFun) =
        ⟨⟨xt.map (fun j => d.sources.table.getD j 0),
            (xt.flatMap (fun j => d.segs.getD j [])).length + 1⟩,
          ⟨xt.flatMap (fun j => d.segs.getD j []), d.values.target⟩⟩ ↔
      c.segs.map (·.map w) = xt.map (fun j => d.segs.getD j []) := by
  have hc1 := ((IC.valid_iff c).1 hc).1
  have hc2 := ((IC.valid_iff c).1 hc).2
  have hd2 := ((IC.valid_iff d).1 hd).2
  simp only [IC.len_finfun] at hc2 hd2
  have hsizes : xt.map (fun j => d.sources.table.getD j 0) =
      (xt.map (fun j => d.segs.getD j [])).map List.length := by
    rw [List.map_map]
    apply List.map_congr_left
    intro j _
    simp only [Function.comp, IC.segs, splitSegs_getD_length _ _ (Nat.le_of_eq hd2)]
  have hflat : xt.flatMap (fun j => d.segs.getD j []) =
      (xt.map (fun j => d.segs.getD j [])).flatten := by
    rw [List.flatMap_def]
  constructor
  · intro e
    have e1 : c.sources.table = xt.map (fun j => d.sources.table.getD j 0) := by
      have := congrArg (fun (i : IC FinFun) => i.sources.table) e
      exact this
    have e2 : c.values.table.map w = xt.flatMap (fun j => d.segs.getD j []) := by
      have := congrArg (fun (i : IC FinFun) => i.values.table) e
      exact this
    rw [IC.segs, ← splitSegs_map, e1, e2, hsizes, hflat]
    exact splitSegs_map_length_flatten _
  · intro e
    have e1 : c.sources.table = xt.map (fun j => d.sources.table.getD j 0) := by
      rw [hsizes, ← e, ← IC.segs_map_length c hc, List.map_map]
      apply List.map_congr_left
      intro l _
      simp
    have e2 : c.values.table.map w = xt.flatMap (fun j => d.segs.getD j []) := by
      rw [hflat, ← e, ← List.map_flatten, IC.segs_flatten c hc]
    have e3 : c.sources.target = (xt.flatMap (fun j => d.segs.getD j [])).length + 1 := by
      rw [← e2, hc1, hc2]; simp
    obtain ⟨⟨st, tg⟩, ⟨vt, vg⟩⟩ := c
    simp only at e1 e2 e3 ⊢
    subst e1 e3 hwt
    rw [e2]

/-- pointwise form of the list-of-lists equation -/
theorem segs_natural_pointwise (L M : List (List Nat)) (w : Nat → Nat) (xt : List Nat)
    (hlen : L.length = xt.length) (hx : ∀ j ∈ xt, j < M.length) :
    L.map (·.map w) = xt.map (fun j => M.getD j []) ↔
      ∀ e, e < xt.length → M[xt.getD e 0]? = (L[e]?).map (·.map w) := by
  constructor
  · intro h e he
    have := congrArg (fun l => l[e]?) h
    simp only [List.getElem?_map, List.getElem?_eq_getElem he, Option.map_some] at this
    have hj : xt[e] < M.length := hx _ (List.getElem_mem he)
    simp only [List.getD_eq_getElem?_getD, List.getElem?_eq_getElem he, Option.getD_some,
      List.getElem?_eq_getElem hj] at this ⊢
    exact this.symm
  · intro h
    apply List.ext_getElem?
    intro e
    by_cases he : e < xt.length
    · have := h e he
      have hj : xt[e] < M.length := hx _ (List.getElem_mem he)
      simp only [List.getD_eq_getElem?_getD, List.getElem?_eq_getElem he, Option.getD_some,
        List.getElem?_eq_getElem hj] at this
      simp only [List.getElem?_map, List.getElem?_eq_getElem he, Option.map_some,
        List.getD_eq_getElem?_getD, List.getElem?_eq_getElem hj, Option.getD_some]
      exact this.symm
    · have he' : ¬ e < L.length := by omega
      simp [List.getElem?_eq_none (Nat.le_of_not_lt he), List.getElem?_eq_none (Nat.le_of_not_lt he')]


/-! ### hypergraph morphisms: the conditions `validate` checks -/

namespace Graph.HArrow

variable (m : HArrow O A)

/-- the node map / edge map as total functions (value `0` outside the table) -/
def wFn (i : Nat) : Nat := m.w.table.getD i 0
def xFn (e : Nat) : Nat := m.x.table.getD e 0

/-- hypotheses: both hypergraphs deeply well-formed, both tables below their stated codomain -/
structure Wf : Prop where
  source : m.source.Wf
  target : m.target.Wf
  w : m.w.WF
  x : m.x.WF

/-- `TypeMismatchW` names: the node map's codomain is not the target's node count -/
def TypedW : Prop := m.w.target = m.target.w.length
/-- `NotNaturalW` names: the node map has one entry per source node and preserves labels -/
def NatW : Prop := m.w.source = m.source.w.length ∧
  ∀ i, i < m.source.w.length → m.target.w[m.wFn i]? = m.source.w[i]?
def TypedX : Prop := m.x.target = m.target.x.length
def NatX : Prop := m.x.source = m.source.x.length ∧
  ∀ e, e < m.source.x.length → m.target.x[m.xFn e]? = m.source.x[e]?
/-- `NotNaturalS` names: the ordered source list of every edge is sent elementwise onto that of
    its image -/
def NatS : Prop := ∀ e, e < m.source.x.length →
  m.target.s.segs[m.xFn e]? = (m.source.s.segs[e]?).map (·.map m.wFn)
def NatT : Prop := ∀ e, e < m.source.x.length →
  m.target.t.segs[m.xFn e]? = (m.source.t.segs[e]?).map (·.map m.wFn)

variable {m}

theorem composeSemi_w (hw : m.Wf) (ht : m.TypedW) :
    FinFun.composeSemi m.w m.target.w = .ok (Prim.gatherP m.target.w m.w.table) :=
  FinFun.composeSemi_ok _ _ hw.w ht

theorem composeSemi_x (hw : m.Wf) (ht : m.TypedX) :
    FinFun.composeSemi m.x m.target.x = .ok (Prim.gatherP m.target.x m.x.table) :=
  FinFun.composeSemi_ok _ _ hw.x ht

theorem natW_iff (hw : m.Wf) (ht : m.TypedW) :
    m.source.w = Prim.gatherP m.target.w m.w.table ↔ m.NatW :=
  eq_gatherP_iff _ _ _ (fun i hi => ht ▸ hw.w i hi)

theorem natX_iff (hw : m.Wf) (ht : m.TypedX) :
    m.source.x = Prim.gatherP m.target.x m.x.table ↔ m.NatX :=
  eq_gatherP_iff _ _ _ (fun i hi => ht ▸ hw.x i hi)

/-- one incidence check (`c` an incidence array of the source, `d` the corresponding one of the
    target) -/
theorem incidence_step (c d : IC FinFun) (hc : c.Wf) (hd : d.Wf)
    (hct : c.values.target = m.w.source) (hdt : m.w.target = d.values.target)
    (hxw : m.x.WF) (hxt : m.x.target = d.len) (hlen : c.len = m.x.source) :
    ∃ sl sr, IC.mapValues c m.w = .ok sl ∧ IC.mapIndexes d m.x = .ok sr ∧
      (sl = sr ↔ ∀ e, e < m.x.source → d.segs[m.xFn e]? = (c.segs[e]?).map (·.map m.wFn)) := by
  refine ⟨_, _, IC.mapValues_eq c m.w hc.values hct, IC.mapIndexes_eq d m.x hd.valid hxw hxt, ?_⟩
  refine (IC.natural_iff c d m.wFn m.x.table m.w.target hc.valid hd.valid hdt).trans ?_
  refine (segs_natural_pointwise _ _ _ _ ?_ ?_).trans Iff.rfl
  · rw [IC.segs_length]; exact hlen
  · intro j hj
    rw [IC.segs_length, ← hxt]; exact hxw j hj

variable (m)

open Classical in
/-- the verdict of `validate` as a cascade of the named conditions -/
noncomputable def verdict : Except ArrowErr Unit :=
  if ¬ m.TypedW then .error .typeMismatchW
  else if ¬ m.NatW then .error .notNaturalW
  else if ¬ m.TypedX then .error .typeMismatchX
  else if ¬ m.NatX then .error .notNaturalX
  else if ¬ m.NatS then .error .notNaturalS
  else if ¬ m.NatT then .error .notNaturalT
  else .ok ()

variable {m}

theorem validate_eq [DecidableEq O] [DecidableEq A] (hw : m.Wf) :
    m.validate = .ok m.verdict := by
  unfold validate verdict
  dsimp only
  by_cases h1 : m.TypedW
  case neg =>
    have : FinFun.composeSemi m.w m.target.w = .none := by
      simp only [FinFun.composeSemi]; exact if_neg h1
    simp [this, okOr, h1]
  rw [composeSemi_w hw h1]
  by_cases h2 : m.NatW
  case neg =>
    have : m.source.w ≠ Prim.gatherP m.target.w m.w.table := fun e => h2 ((natW_iff hw h1).1 e)
    simp [okOr, h1, h2, this]
  have e2 := (natW_iff hw h1).2 h2
  by_cases h3 : m.TypedX
  case neg =>
    have : FinFun.composeSemi m.x m.target.x = .none := by
      simp only [FinFun.composeSemi]; exact if_neg h3
    simp [this, okOr, h1, h2, h3, e2]
  rw [composeSemi_x hw h3]
  by_cases h4 : m.NatX
  case neg =>
    have : m.source.x ≠ Prim.gatherP m.target.x m.x.table := fun e => h4 ((natX_iff hw h3).1 e)
    simp [okOr, h1, h2, h3, h4, this, e2]
  have e4 := (natX_iff hw h3).2 h4
  obtain ⟨sl, sr, hsl, hsr, hs⟩ := incidence_step (m := m) m.source.s m.target.s hw.source.s
    hw.target.s (by rw [hw.source.stgt, h2.1]) (by rw [h1, hw.target.stgt]) hw.x
    (by rw [h3, hw.target.slen]) (by rw [hw.source.slen, h4.1])
  obtain ⟨tl, tr, htl, htr, ht⟩ := incidence_step (m := m) m.source.t m.target.t hw.source.t
    hw.target.t (by rw [hw.source.ttgt, h2.1]) (by rw [h1, hw.target.ttgt]) hw.x
    (by rw [h3, hw.target.tlen]) (by rw [hw.source.tlen, h4.1])
  rw [h4.1] at hs ht
  have hs' : sl = sr ↔ m.NatS := hs
  have ht' : tl = tr ↔ m.NatT := ht
  rw [hsl, hsr, htl, htr]
  by_cases h5 : m.NatS
  case neg =>
    have : sl ≠ sr := fun e => h5 (hs'.1 e)
    simp [okOr, h1, h2, h3, h4, h5, this, e2, e4]
  have e5 := hs'.2 h5
  by_cases h6 : m.NatT
  · have e6 := ht'.2 h6
    simp [okOr, h1, h2, h3, h4, h5, h6, e2, e4, e5, e6]
  · have : tl ≠ tr := fun e => h6 (ht'.1 e)
    simp [okOr, h1, h2, h3, h4, h5, h6, this, e2, e4, e5]

end Graph.HArrow


/-! ### the plain-diagram reading of the named conditions -/

theorem HG.toPlainEdges_getElem?_eq_some (h : HG O A) (e : Nat) (p : PEdge A) :
    h.toPlainEdges[e]? = some p ↔
      h.x[e]? = some p.label ∧ h.s.segs[e]? = some p.src ∧ h.t.segs[e]? = some p.tgt := by
  rw [HG.toPlainEdges_getElem?]
  obtain ⟨l, s, t⟩ := p
  cases h.x[e]? <;> cases h.s.segs[e]? <;> cases h.t.segs[e]? <;> simp

namespace Graph.HArrow

variable {m : HArrow O A}

/-- `IsMorphism` between the plain diagrams of source and target is exactly the conjunction of
    the four pointwise conditions -/
theorem isMorphism_iff (hw : m.Wf) :
    IsMorphism ⟨m.source.w, m.source.toPlainEdges, [], []⟩ ⟨m.target.w, m.target.toPlainEdges, [], []⟩
        m.wFn m.xFn ↔
      (∀ i, i < m.source.w.length → m.target.w[m.wFn i]? = m.source.w[i]?) ∧
      (∀ e, e < m.source.x.length → m.target.x[m.xFn e]? = m.source.x[e]?) ∧ m.NatS ∧ m.NatT := by
  unfold IsMorphism NatS NatT
  simp only [HG.toPlainEdges_length _ hw.source]
  have hs : ∀ e, e < m.source.x.length → e < m.source.s.segs.length := fun e he => by
    rw [IC.segs_length, hw.source.slen]; exact he
  have ht : ∀ e, e < m.source.x.length → e < m.source.t.segs.length := fun e he => by
    rw [IC.segs_length, hw.source.tlen]; exact he
  constructor
  · rintro ⟨hn, he⟩
    refine ⟨hn, fun e hlt => ?_, fun e hlt => ?_, fun e hlt => ?_⟩ <;>
      obtain ⟨ge, he', h1, h2, h3, h4, h5⟩ := he e hlt <;>
      rw [HG.toPlainEdges_getElem?_eq_some] at h1 h2
    · rw [h2.1, h1.1, h3]
    · rw [h2.2.1, h1.2.1, h4]; rfl
    · rw [h2.2.2, h1.2.2, h5]; rfl
  · rintro ⟨hn, hx, hS, hT⟩
    refine ⟨hn, fun e hlt => ?_⟩
    refine ⟨⟨m.source.x[e], m.source.s.segs[e]'(hs e hlt), m.source.t.segs[e]'(ht e hlt)⟩,
      ⟨m.source.x[e], (m.source.s.segs[e]'(hs e hlt)).map m.wFn,
        (m.source.t.segs[e]'(ht e hlt)).map m.wFn⟩, ?_, ?_, rfl, rfl, rfl⟩
    · rw [HG.toPlainEdges_getElem?_eq_some]
      exact ⟨List.getElem?_eq_getElem hlt, List.getElem?_eq_getElem _, List.getElem?_eq_getElem _⟩
    · rw [HG.toPlainEdges_getElem?_eq_some]
      refine ⟨?_, ?_, ?_⟩
      · rw [hx e hlt, List.getElem?_eq_getElem hlt]
      · rw [hS e hlt, List.getElem?_eq_getElem (hs e hlt)]; rfl
      · rw [hT e hlt, List.getElem?_eq_getElem (ht e hlt)]; rfl

end Graph.HArrow

end OH

/-! ## convexity: the two-layer frontier search -/

namespace OH.Graph
open OH OH.Prim

/-! ### pieces of the convexity search -/

/-- a node is marked in a 0/1 visited array -/
def Marked (vis : List Nat) (v : Nat) : Prop := vis.getD v 0 ≠ 0

theorem Marked.lt {vis : List Nat} {v : Nat} (h : Marked vis v) : v < vis.length := by
  unfold Marked at h
  by_contra hn
  simp [List.getD_eq_getElem?_getD, List.getElem?_eq_none (Nat.le_of_not_lt hn)] at h

theorem successors_spec (B : Backend) (hB : B.Lawful) (adj : IC FinFun) (hw : AdjWF adj)
    (fr : List Nat) (hnd : fr.Nodup) (hlt : ∀ x ∈ fr, x < adj.len) :
    ∃ ks, successors B adj fr = .ok ks ∧ ks.Nodup ∧
      (∀ y, y ∈ ks ↔ ∃ x ∈ fr, adjDep adj x y) ∧ ∀ y ∈ ks, y < adj.len := by
  unfold successors
  by_cases he : fr.isEmpty
  · have : fr = [] := List.isEmpty_iff.1 he
    subst this
    exact ⟨[], by simp, by simp, by simp, by simp⟩
  · rw [if_neg he, IC.finfun_new_ok fr adj.len hlt]
    obtain ⟨keys, counts, hs, hn, _, hm, _, hl, _⟩ :=
      sparseRelativeIndegree_spec B hB adj hw fr hnd hlt
    simp only [Res.unwrap_ok, Res.ok_bind, hs]
    exact ⟨keys, rfl, hn, hm, hl⟩

theorem filterUnvisited_eq (vis cands : List Nat) (h : ∀ y ∈ cands, y < vis.length) :
    filterUnvisited vis cands = .ok (cands.filter (fun y => decide (vis.getD y 0 = 0))) := by
  unfold filterUnvisited
  by_cases he : cands.isEmpty
  · have : cands = [] := List.isEmpty_iff.1 he
    subst this; rfl
  · rw [if_neg he, Prim.gather_ok _ _ h]
    have hmap : gatherP vis cands = cands.map (fun y => vis.getD y 0) := by
      apply FinFun.gatherP_eq_map
      intro i hi
      simp [List.getD_eq_getElem?_getD, List.getElem?_eq_getElem (h i hi)]
    simp only [Res.ok_bind, hmap]
    rw [Prim.gather_ok, Kahn.gatherP_zero_map]
    intro i hi
    have := (Prim.mem_zero _ i).1 hi
    have := (List.getElem?_eq_some_iff.1 this).1
    simpa using this

theorem mark_spec (vis next : List Nat) (h : ∀ y ∈ next, y < vis.length) :
    ∃ vis', scatterAssignConstant vis next 1 = .ok vis' ∧ vis'.length = vis.length ∧
      ∀ v, Marked vis' v ↔ (v ∈ next ∨ Marked vis v) := by
  refine ⟨_, Prim.scatterAssignConstant_ok vis next 1 h, Prim.writeAll_length _ _, ?_⟩
  intro v
  unfold Marked
  rw [List.getD_eq_getElem?_getD, Prim.writeAll_const_getElem? vis next 1 h v]
  by_cases hv : v ∈ next
  · simp [hv]
  · simp [hv, List.getD_eq_getElem?_getD]

theorem filter_length_le {α : Type} (l : List α) (p q : α → Bool)
    (hpq : ∀ x ∈ l, q x = true → p x = true) : (l.filter q).length ≤ (l.filter p).length := by
  induction l with
  | nil => simp
  | cons b l ih =>
    have := ih (fun x hx => hpq x (by simp [hx]))
    by_cases hqb : q b = true
    · have hpb := hpq b (by simp) hqb
      simp [hqb, hpb, this]
    · by_cases hpb : p b = true
      · simp [hqb, hpb]; omega
      · simp [hqb, hpb, this]

theorem filter_length_lt {α : Type} (l : List α) (p q : α → Bool)
    (hpq : ∀ x ∈ l, q x = true → p x = true)
    (x : α) (hx : x ∈ l) (hp : p x = true) (hq : q x = false) :
    (l.filter q).length < (l.filter p).length := by
  induction l with
  | nil => simp at hx
  | cons a l ih =>
    rcases List.mem_cons.1 hx with rfl | hx'
    · have := filter_length_le l p q (fun y hy => hpq y (by simp [hy]))
      simp [hp, hq]; omega
    · have := ih (fun y hy => hpq y (by simp [hy])) hx'
      by_cases hqa : q a = true
      · have hpa := hpq a (by simp) hqa
        simp [hqa, hpa, this]
      · by_cases hpa : p a = true
        · simp [hqa, hpa]; omega
        · simp [hqa, hpa, this]

/-- number of unmarked nodes -/
def unmarked (vis : List Nat) : Nat :=
  ((List.range vis.length).filter (fun v => decide (vis.getD v 0 = 0))).length

theorem unmarked_le (vis : List Nat) : unmarked vis ≤ vis.length := by
  unfold unmarked
  have := List.length_filter_le (fun v => decide (vis.getD v 0 = 0)) (List.range vis.length)
  simpa using this

theorem unmarked_mono (vis vis' : List Nat) (hl : vis'.length = vis.length)
    (h : ∀ v, Marked vis v → Marked vis' v) : unmarked vis' ≤ unmarked vis := by
  unfold unmarked
  rw [hl]
  apply filter_length_le
  intro v _ hv
  simp only [decide_eq_true_eq] at hv ⊢
  by_contra hc
  exact (h v hc) hv

theorem unmarked_lt (vis vis' : List Nat) (hl : vis'.length = vis.length)
    (h : ∀ v, Marked vis v → Marked vis' v) (x : Nat) (hx : ¬ Marked vis x) (hx' : Marked vis' x) :
    unmarked vis' < unmarked vis := by
  unfold unmarked
  rw [hl]
  apply filter_length_lt _ _ _ _ x
  · exact List.mem_range.2 (hl ▸ hx'.lt)
  · unfold Marked at hx; simpa using hx
  · unfold Marked at hx'; simpa using hx'
  · intro v _ hv
    simp only [decide_eq_true_eq] at hv ⊢
    by_contra hc
    exact (h v hc) hv

/-- paths along `Rin` / `Rout` steps; the flag records whether an `Rout` step was used -/
inductive RPath (Rin Rout : Nat → Nat → Prop) (u : Nat) : Nat → Bool → Prop
  | nil : RPath Rin Rout u u false
  | consIn (v w : Nat) (b : Bool) : RPath Rin Rout u v b → Rin v w → RPath Rin Rout u w b
  | consOut (v w : Nat) (b : Bool) : RPath Rin Rout u v b → Rout v w → RPath Rin Rout u w true

theorem RPath.toTrue {Rin Rout : Nat → Nat → Prop} {u v w : Nat} {b : Bool}
    (h : RPath Rin Rout u v true) (hs : Rin v w ∨ Rout v w) (hb : b = true) :
    RPath Rin Rout u w b := by
  subst hb
  rcases hs with hs | hs
  · exact RPath.consIn v w true h hs
  · exact RPath.consOut v w true h hs

section loop
variable (B : Backend) (aIn aOut aAll : IC FinFun) (img : List Nat)

/-- invariant of the two-layer search -/
structure CInv (st : ConvexState) : Prop where
  len0 : st.visited0.length = aIn.len
  len1 : st.visited1.length = aIn.len
  nd0 : st.frontier0.Nodup
  nd1 : st.frontier1.Nodup
  fr0 : ∀ v ∈ st.frontier0, Marked st.visited0 v
  fr1 : ∀ v ∈ st.frontier1, Marked st.visited1 v
  imgM : ∀ u ∈ img, Marked st.visited0 u
  sound0 : ∀ v, Marked st.visited0 v → ∃ u ∈ img, RPath (adjDep aIn) (adjDep aOut) u v false
  sound1 : ∀ v, Marked st.visited1 v → ∃ u ∈ img, RPath (adjDep aIn) (adjDep aOut) u v true
  cIn : ∀ v, Marked st.visited0 v → v ∉ st.frontier0 → ∀ w, adjDep aIn v w → Marked st.visited0 w
  cOut : ∀ v, Marked st.visited0 v → v ∉ st.frontier0 → ∀ w, adjDep aOut v w → Marked st.visited1 w
  cAll : ∀ v, Marked st.visited1 v → v ∉ st.frontier1 → ∀ w, adjDep aAll v w → Marked st.visited1 w

/-- what holds when the search stops -/
structure CFinal (st : ConvexState) : Prop where
  len1 : st.visited1.length = aIn.len
  imgM : ∀ u ∈ img, Marked st.visited0 u
  sound0 : ∀ v, Marked st.visited0 v → ∃ u ∈ img, RPath (adjDep aIn) (adjDep aOut) u v false
  sound1 : ∀ v, Marked st.visited1 v → ∃ u ∈ img, RPath (adjDep aIn) (adjDep aOut) u v true
  cIn : ∀ v, Marked st.visited0 v → ∀ w, adjDep aIn v w → Marked st.visited0 w
  cOut : ∀ v, Marked st.visited0 v → ∀ w, adjDep aOut v w → Marked st.visited1 w
  cAll : ∀ v, Marked st.visited1 v → ∀ w, adjDep aAll v w → Marked st.visited1 w

variable {aIn aOut aAll img}

/-- at the end, layer 1 holds exactly the nodes reachable from the image by a path that uses an
    outside step -/
theorem CFinal.marked1_iff {st : ConvexState} (hf : CFinal aIn aOut aAll img st)
    (hall : ∀ v w, adjDep aAll v w ↔ adjDep aIn v w ∨ adjDep aOut v w) (v : Nat) :
    Marked st.visited1 v ↔ ∃ u ∈ img, RPath (adjDep aIn) (adjDep aOut) u v true := by
  refine ⟨hf.sound1 v, ?_⟩
  rintro ⟨u, hu, hp⟩
  have key : ∀ (v : Nat) (b : Bool), RPath (adjDep aIn) (adjDep aOut) u v b →
      (b = false → Marked st.visited0 v) ∧ (b = true → Marked st.visited1 v) := by
    intro v b hp
    induction hp with
    | nil => exact ⟨fun _ => hf.imgM u hu, fun h => by cases h⟩
    | consIn v w b _ hs ih =>
      obtain ⟨i0, i1⟩ := ih
      exact ⟨fun hb => hf.cIn v (i0 hb) w hs, fun hb => hf.cAll v (i1 hb) w ((hall v w).2 (Or.inl hs))⟩
    | consOut v w b _ hs ih =>
      obtain ⟨i0, i1⟩ := ih
      refine ⟨fun h => (by cases h), fun _ => ?_⟩
      cases b with
      | false => exact hf.cOut v (i0 rfl) w hs
      | true => exact hf.cAll v (i1 rfl) w ((hall v w).2 (Or.inr hs))
  exact (key v true hp).2 rfl

theorem next1_eq (vis1 merged : List Nat) (hB : B.Lawful) (h : ∀ y ∈ merged, y < vis1.length) :
    (if merged.isEmpty then Res.ok [] else filterUnvisited vis1 (sparseBincount B merged).1) =
      .ok ((B.sparseBincount merged).1.filter (fun y => decide (vis1.getD y 0 = 0))) := by
  by_cases he : merged.isEmpty
  · have hm : merged = [] := List.isEmpty_iff.1 he
    have : (B.sparseBincount merged).1 = [] := by
      apply List.eq_nil_iff_forall_not_mem.2
      intro a ha
      rw [hB.sb_mem, hm] at ha
      simp at ha
    rw [if_pos he, this]; rfl
  · rw [if_neg he]
    apply filterUnvisited_eq
    intro y hy
    exact h y ((hB.sb_mem _ _).1 hy)

theorem convexLoop_spec (hB : B.Lawful) (hIn : AdjWF aIn) (hOut : AdjWF aOut) (hAll : AdjWF aAll)
    (hlo : aOut.len = aIn.len) (hla : aAll.len = aIn.len)
    (hall : ∀ v w, adjDep aAll v w ↔ adjDep aIn v w ∨ adjDep aOut v w) :
    ∀ (fuel : Nat) (st : ConvexState), CInv aIn aOut aAll img st →
      unmarked st.visited0 + unmarked st.visited1 < fuel →
      ∃ st', convexLoop B aIn aOut aAll fuel st = .ok st' ∧ CFinal aIn aOut aAll img st' := by
  intro fuel
  induction fuel with
  | zero => intro st _ h; omega
  | succ fuel ih =>
    intro st inv hμ
    unfold convexLoop
    by_cases hemp : st.frontier0.isEmpty = true ∧ st.frontier1.isEmpty = true
    · rw [if_pos hemp]
      have e0 : st.frontier0 = [] := List.isEmpty_iff.1 hemp.1
      have e1 : st.frontier1 = [] := List.isEmpty_iff.1 hemp.2
      exact ⟨st, rfl, inv.len1, inv.imgM, inv.sound0, inv.sound1,
        fun v hv => inv.cIn v hv (by simp [e0]), fun v hv => inv.cOut v hv (by simp [e0]),
        fun v hv => inv.cAll v hv (by simp [e1])⟩
    · rw [if_neg hemp]
      have hlt0 : ∀ x ∈ st.frontier0, x < aIn.len := fun x hx => inv.len0 ▸ (inv.fr0 x hx).lt
      have hlt1 : ∀ x ∈ st.frontier1, x < aIn.len := fun x hx => inv.len1 ▸ (inv.fr1 x hx).lt
      obtain ⟨k0, hk0, nk0, mk0, lk0⟩ := successors_spec B hB aIn hIn st.frontier0 inv.nd0 hlt0
      obtain ⟨k10, hk10, _, mk10, lk10⟩ := successors_spec B hB aOut hOut st.frontier0 inv.nd0
        (fun x hx => hlo ▸ hlt0 x hx)
      obtain ⟨k11, hk11, _, mk11, lk11⟩ := successors_spec B hB aAll hAll st.frontier1 inv.nd1
        (fun x hx => hla ▸ hlt1 x hx)
      have hm : ∀ y ∈ k10 ++ k11, y < st.visited1.length := by
        intro y hy
        rw [inv.len1]
        rcases List.mem_append.1 hy with hy | hy
        · exact hlo ▸ lk10 y hy
        · exact hla ▸ lk11 y hy
      rw [hk0, hk10, hk11]
      simp only [Res.ok_bind]
      rw [filterUnvisited_eq st.visited0 k0 (fun y hy => inv.len0 ▸ lk0 y hy)]
      simp only [Res.ok_bind]
      rw [next1_eq B st.visited1 (k10 ++ k11) hB hm]
      simp only [Res.ok_bind]
      generalize hN0 : k0.filter (fun y => decide (st.visited0.getD y 0 = 0)) = N0
      generalize hN1 : (B.sparseBincount (k10 ++ k11)).1.filter
        (fun y => decide (st.visited1.getD y 0 = 0)) = N1
      have mN0 : ∀ y, y ∈ N0 ↔ (∃ x ∈ st.frontier0, adjDep aIn x y) ∧ ¬ Marked st.visited0 y := by
        intro y
        rw [← hN0, List.mem_filter, mk0]
        simp [Marked]
      have mN1 : ∀ y, y ∈ N1 ↔ ((∃ x ∈ st.frontier0, adjDep aOut x y) ∨
          (∃ x ∈ st.frontier1, adjDep aAll x y)) ∧ ¬ Marked st.visited1 y := by
        intro y
        rw [← hN1, List.mem_filter, hB.sb_mem, List.mem_append, mk10, mk11]
        simp [Marked]
      have ndN0 : N0.Nodup := hN0 ▸ nk0.filter _
      have ndN1 : N1.Nodup := hN1 ▸ (hB.sb_nodup _).filter _
      by_cases hnext : N0.isEmpty = true ∧ N1.isEmpty = true
      · rw [if_pos hnext]
        have e0 : N0 = [] := List.isEmpty_iff.1 hnext.1
        have e1 : N1 = [] := List.isEmpty_iff.1 hnext.2
        refine ⟨st, rfl, inv.len1, inv.imgM, inv.sound0, inv.sound1, ?_, ?_, ?_⟩
        · intro v hv w hs
          by_cases hf : v ∈ st.frontier0
          · by_contra hc
            have : w ∈ N0 := (mN0 w).2 ⟨⟨v, hf, hs⟩, hc⟩
            rw [e0] at this; simp at this
          · exact inv.cIn v hv hf w hs
        · intro v hv w hs
          by_cases hf : v ∈ st.frontier0
          · by_contra hc
            have : w ∈ N1 := (mN1 w).2 ⟨Or.inl ⟨v, hf, hs⟩, hc⟩
            rw [e1] at this; simp at this
          · exact inv.cOut v hv hf w hs
        · intro v hv w hs
          by_cases hf : v ∈ st.frontier1
          · by_contra hc
            have : w ∈ N1 := (mN1 w).2 ⟨Or.inr ⟨v, hf, hs⟩, hc⟩
            rw [e1] at this; simp at this
          · exact inv.cAll v hv hf w hs
      · rw [if_neg hnext]
        have l0 : ∀ y ∈ N0, y < st.visited0.length := by
          intro y hy
          obtain ⟨⟨x, hx, hs⟩, _⟩ := (mN0 y).1 hy
          rw [inv.len0]; exact adjDep_lt_right hIn hs
        have l1 : ∀ y ∈ N1, y < st.visited1.length := by
          intro y hy
          rw [inv.len1]
          rcases ((mN1 y).1 hy).1 with ⟨x, hx, hs⟩ | ⟨x, hx, hs⟩
          · exact hlo ▸ adjDep_lt_right hOut hs
          · exact hla ▸ adjDep_lt_right hAll hs
        obtain ⟨v0, hv0, lv0, mv0⟩ := mark_spec st.visited0 N0 l0
        obtain ⟨v1, hv1, lv1, mv1⟩ := mark_spec st.visited1 N1 l1
        rw [hv0]
        simp only [Res.ok_bind]
        rw [hv1]
        simp only [Res.ok_bind]
        apply ih
        · refine ⟨lv0.trans inv.len0, lv1.trans inv.len1, ndN0, ndN1,
            fun v hv => (mv0 v).2 (Or.inl hv), fun v hv => (mv1 v).2 (Or.inl hv),
            fun u hu => (mv0 u).2 (Or.inr (inv.imgM u hu)), ?_, ?_, ?_, ?_, ?_⟩
          · intro v hv
            rcases (mv0 v).1 hv with hv | hv
            · obtain ⟨⟨x, hx, hs⟩, _⟩ := (mN0 v).1 hv
              obtain ⟨u, hu, hp⟩ := inv.sound0 x (inv.fr0 x hx)
              exact ⟨u, hu, RPath.consIn x v false hp hs⟩
            · exact inv.sound0 v hv
          · intro v hv
            rcases (mv1 v).1 hv with hv | hv
            · rcases ((mN1 v).1 hv).1 with ⟨x, hx, hs⟩ | ⟨x, hx, hs⟩
              · obtain ⟨u, hu, hp⟩ := inv.sound0 x (inv.fr0 x hx)
                exact ⟨u, hu, RPath.consOut x v false hp hs⟩
              · obtain ⟨u, hu, hp⟩ := inv.sound1 x (inv.fr1 x hx)
                exact ⟨u, hu, hp.toTrue ((hall x v).1 hs) rfl⟩
            · exact inv.sound1 v hv
          · intro v hv hnf w hs
            have hv' : Marked st.visited0 v := by
              rcases (mv0 v).1 hv with h | h
              · exact absurd h hnf
              · exact h
            by_cases hf : v ∈ st.frontier0
            · by_cases hc : Marked st.visited0 w
              · exact (mv0 w).2 (Or.inr hc)
              · exact (mv0 w).2 (Or.inl ((mN0 w).2 ⟨⟨v, hf, hs⟩, hc⟩))
            · exact (mv0 w).2 (Or.inr (inv.cIn v hv' hf w hs))
          · intro v hv hnf w hs
            have hv' : Marked st.visited0 v := by
              rcases (mv0 v).1 hv with h | h
              · exact absurd h hnf
              · exact h
            by_cases hf : v ∈ st.frontier0
            · by_cases hc : Marked st.visited1 w
              · exact (mv1 w).2 (Or.inr hc)
              · exact (mv1 w).2 (Or.inl ((mN1 w).2 ⟨Or.inl ⟨v, hf, hs⟩, hc⟩))
            · exact (mv1 w).2 (Or.inr (inv.cOut v hv' hf w hs))
          · intro v hv hnf w hs
            have hv' : Marked st.visited1 v := by
              rcases (mv1 v).1 hv with h | h
              · exact absurd h hnf
              · exact h
            by_cases hf : v ∈ st.frontier1
            · by_cases hc : Marked st.visited1 w
              · exact (mv1 w).2 (Or.inr hc)
              · exact (mv1 w).2 (Or.inl ((mN1 w).2 ⟨Or.inr ⟨v, hf, hs⟩, hc⟩))
            · exact (mv1 w).2 (Or.inr (inv.cAll v hv' hf w hs))
        · -- the measure decreases
          have m0 := unmarked_mono st.visited0 v0 lv0 (fun v hv => (mv0 v).2 (Or.inr hv))
          have m1 := unmarked_mono st.visited1 v1 lv1 (fun v hv => (mv1 v).2 (Or.inr hv))
          have : unmarked v0 < unmarked st.visited0 ∨ unmarked v1 < unmarked st.visited1 := by
            by_cases e0 : N0 = []
            · have e1 : N1 ≠ [] := fun e1 => hnext ⟨by simp [e0], by simp [e1]⟩
              obtain ⟨y, hy⟩ := List.exists_mem_of_ne_nil _ e1
              exact Or.inr (unmarked_lt _ _ lv1 (fun v hv => (mv1 v).2 (Or.inr hv)) y
                ((mN1 y).1 hy).2 ((mv1 y).2 (Or.inl hy)))
            · obtain ⟨y, hy⟩ := List.exists_mem_of_ne_nil _ e0
              exact Or.inl (unmarked_lt _ _ lv0 (fun v hv => (mv0 v).2 (Or.inr hv)) y
                ((mN0 y).1 hy).2 ((mv0 y).2 (Or.inl hy)))
          show unmarked v0 + unmarked v1 < fuel
          omega

end loop

/-! ### adjacency from a pair of incidence arrays -/

theorem nodeAdjacencyFromIncidence_spec (B : Backend) (hB : B.Lawful) (s t : IC FinFun)
    (hs : s.wf = true) (ht : t.wf = true) (hlen : s.len = t.len)
    (htgt : s.values.target = t.values.target) :
    ∃ a, nodeAdjacencyFromIncidence B s t = .ok a ∧ AdjWF a ∧ a.len = s.values.target ∧
      ∀ v w, adjDep a v w ↔ ∃ e, v ∈ s.segs.getD e [] ∧ w ∈ t.segs.getD e [] := by
  have hH : (⟨s, t, List.replicate s.values.target (), List.replicate s.len ()⟩ :
      HG Unit Unit).wf = true := by
    simp [HG.wf, hs, ht, hlen.symm, htgt.symm]
  obtain ⟨a, ha, hawf, halen, _, hdep⟩ := nodeAdjacency_spec B hB _ hH
  refine ⟨a, ha, hawf, by simpa using halen, ?_⟩
  intro v w
  rw [hdep]
  unfold nodeStep
  simp only [mem_toPlainEdges _ hH]
  constructor
  · rintro ⟨e, ⟨x, _, _, hes, het⟩, hv, hw⟩
    exact ⟨x, hes ▸ hv, het ▸ hw⟩
  · rintro ⟨e, hv, hw⟩
    have he : e < s.len := (mem_segs_getD_lt s hs e v hv).1
    exact ⟨⟨(), _, _⟩, ⟨e, by simpa using he, by simp [he], rfl, rfl⟩, hv, hw⟩

variable {O A : Type}

theorem stepVia_iff (T : HG O A) (hT : T.wf = true) (e v w : Nat) :
    stepVia (⟨T.w, T.toPlainEdges, [], []⟩ : PDiag O A) e v w ↔
      v ∈ T.s.segs.getD e [] ∧ w ∈ T.t.segs.getD e [] := by
  obtain ⟨hs, _, hsl, _, _, _⟩ := hg_wf_unpack T hT
  unfold stepVia
  simp only [toPlainEdges_getElem? T hT]
  constructor
  · rintro ⟨he, ⟨_, _, h1, h2⟩, hv, hw⟩
    exact ⟨h1 ▸ hv, h2 ▸ hw⟩
  · rintro ⟨hv, hw⟩
    have he : e < T.x.length := hsl ▸ (mem_segs_getD_lt T.s hs e v hv).1
    exact ⟨⟨T.x[e], _, _⟩, ⟨he, List.getElem?_eq_getElem he, rfl, rfl⟩, hv, hw⟩

theorem stepVia_lt (T : HG O A) (hT : T.wf = true) (e v w : Nat)
    (h : stepVia (⟨T.w, T.toPlainEdges, [], []⟩ : PDiag O A) e v w) : e < T.x.length := by
  obtain ⟨he, h1, _⟩ := h
  have := (List.getElem?_eq_some_iff.1 h1).1
  rwa [toPlainEdges_length T hT] at this

theorem mem_map_getD_iff (L : List (List Nat)) (xt : List Nat) (k v : Nat) :
    v ∈ (xt.map (fun j => L.getD j [])).getD k [] ↔ ∃ e, xt[k]? = some e ∧ v ∈ L.getD e [] := by
  rw [List.getD_eq_getElem?_getD, List.getElem?_map]
  cases xt[k]? <;> simp

/-- the node adjacency built from the hyperedges selected by an index list -/
theorem adjacency_of_indexes (B : Backend) (hB : B.Lawful) (T : HG O A) (hT : T.wf = true)
    (x : FinFun) (hx : x.WF) (hxt : x.target = T.x.length) :
    ∃ sX tX a, IC.mapIndexes T.s x = .ok sX ∧ IC.mapIndexes T.t x = .ok tX ∧
      nodeAdjacencyFromIncidence B sX tX = .ok a ∧ AdjWF a ∧ a.len = T.w.length ∧
      ∀ v w, adjDep a v w ↔
        ∃ e ∈ x.table, stepVia (⟨T.w, T.toPlainEdges, [], []⟩ : PDiag O A) e v w := by
  obtain ⟨hs, ht, hsl, htl, hst, htt⟩ := hg_wf_unpack T hT
  obtain ⟨hsv, _, hsw⟩ := wf_unpack' T.s hs
  obtain ⟨htv, _, htw⟩ := wf_unpack' T.t ht
  obtain ⟨sX, hsX, vsX, tgsX, segsX, _, _⟩ := C08.mapIndexes_spec T.s x hsv hx (by rw [hxt, hsl])
  obtain ⟨tX, htX, vtX, tgtX, segtX, _, _⟩ := C08.mapIndexes_spec T.t x htv hx (by rw [hxt, htl])
  have wsX : sX.wf = true := by
    apply wf_of_valid_segs sX vsX
    intro seg hseg y hy
    rw [segsX, List.mem_map] at hseg
    obtain ⟨j, _, rfl⟩ := hseg
    rw [tgsX]
    exact (mem_segs_getD_lt T.s hs j y hy).2
  have wtX : tX.wf = true := by
    apply wf_of_valid_segs tX vtX
    intro seg hseg y hy
    rw [segtX, List.mem_map] at hseg
    obtain ⟨j, _, rfl⟩ := hseg
    rw [tgtX]
    exact (mem_segs_getD_lt T.t ht j y hy).2
  have hlen : sX.len = tX.len := by
    rw [← IC.segs_length, ← IC.segs_length, segsX, segtX]; simp
  obtain ⟨a, ha, hawf, halen, hdep⟩ := nodeAdjacencyFromIncidence_spec B hB sX tX wsX wtX hlen
    (by rw [tgsX, tgtX, hst, htt])
  refine ⟨sX, tX, a, hsX, htX, ha, hawf, by rw [halen, tgsX, hst], ?_⟩
  intro v w
  rw [hdep]
  simp only [segsX, segtX, mem_map_getD_iff, stepVia_iff T hT]
  constructor
  · rintro ⟨k, ⟨e, he, hv⟩, ⟨e', he', hw⟩⟩
    rw [he] at he'; cases he'
    exact ⟨e, List.mem_of_getElem? he, hv, hw⟩
  · rintro ⟨e, he, hv, hw⟩
    obtain ⟨k, hk⟩ := List.getElem?_of_mem he
    exact ⟨k, ⟨e, hk, hv⟩, ⟨e, hk, hw⟩⟩

/-! ### `PathUsing` as an `RPath` -/

theorem pathUsing_iff_rpath (P : PDiag O A) (inside : Nat → Prop) (u v : Nat) (b : Bool) :
    PathUsing P inside u v b ↔
      RPath (fun v w => ∃ e, stepVia P e v w ∧ inside e)
        (fun v w => ∃ e, stepVia P e v w ∧ ¬ inside e) u v b := by
  constructor
  · intro h
    induction h with
    | nil => exact RPath.nil
    | consIn v w e b _ hs hi ih => exact RPath.consIn v w b ih ⟨e, hs, hi⟩
    | consOut v w e b _ hs hi ih => exact RPath.consOut v w b ih ⟨e, hs, hi⟩
  · intro h
    induction h with
    | nil => exact PathUsing.nil u
    | consIn v w b _ hs ih =>
      obtain ⟨e, hs, hi⟩ := hs
      exact PathUsing.consIn u v w e b ih hs hi
    | consOut v w b _ hs ih =>
      obtain ⟨e, hs, hi⟩ := hs
      exact PathUsing.consOut u v w e b ih hs hi

theorem rpath_congr {Rin Rout Rin' Rout' : Nat → Nat → Prop} (h1 : ∀ v w, Rin v w ↔ Rin' v w)
    (h2 : ∀ v w, Rout v w ↔ Rout' v w) (u v : Nat) (b : Bool) :
    RPath Rin Rout u v b ↔ RPath Rin' Rout' u v b := by
  have e1 : Rin = Rin' := by funext v w; exact propext (h1 v w)
  have e2 : Rout = Rout' := by funext v w; exact propext (h2 v w)
  rw [e1, e2]


/-! ### the convexity test -/

theorem nodup_iff_injOn_getD (l : List Nat) :
    l.Nodup ↔ InjOn l.length (fun i => l.getD i 0) := by
  rw [FinFun.nodup_iff_inj]
  unfold InjOn
  constructor
  · intro h i j hi hj hij
    apply h i j hi hj
    simp only [List.getD_eq_getElem?_getD, List.getElem?_eq_getElem hi, List.getElem?_eq_getElem hj,
      Option.getD_some] at hij
    rw [List.getElem?_eq_getElem hi, List.getElem?_eq_getElem hj, hij]
  · intro h i j hi hj hij
    apply h i j hi hj
    rw [List.getElem?_eq_getElem hi, List.getElem?_eq_getElem hj, Option.some.injEq] at hij
    simp only [List.getD_eq_getElem?_getD, List.getElem?_eq_getElem hi, List.getElem?_eq_getElem hj,
      Option.getD_some, hij]

theorem HArrow.isMonomorphism_eq (m : HArrow O A) (hw : m.w.WF) (hx : m.x.WF) :
    m.isMonomorphism = .ok (decide m.w.table.Nodup && decide m.x.table.Nodup) := by
  unfold HArrow.isMonomorphism
  rw [FinFun.isInjective_ok m.w hw, FinFun.isInjective_ok m.x hx]
  by_cases h : m.w.table.Nodup <;> simp [h]

theorem not_marked_replicate (n v : Nat) : ¬ Marked (List.replicate n 0) v := by
  unfold Marked
  simp only [List.getD_eq_getElem?_getD, List.getElem?_replicate, ne_eq, not_not]
  split <;> rfl

theorem mem_getD_iff (l : List Nat) (u : Nat) : u ∈ l ↔ ∃ i, i < l.length ∧ l.getD i 0 = u := by
  constructor
  · intro h
    obtain ⟨i, hi, rfl⟩ := List.getElem_of_mem h
    exact ⟨i, hi, by simp [List.getD_eq_getElem?_getD, List.getElem?_eq_getElem hi]⟩
  · rintro ⟨i, hi, rfl⟩
    simp only [List.getD_eq_getElem?_getD, List.getElem?_eq_getElem hi, Option.getD_some]
    exact List.getElem_mem hi

theorem HArrow.isConvexSubgraph_spec (B : Backend) (hB : B.Lawful) (m : HArrow O A) (hw : m.Wf)
    (h1 : m.w.source = m.source.w.length) (h2 : m.w.target = m.target.w.length)
    (h3 : m.x.source = m.source.x.length) (h4 : m.x.target = m.target.x.length) :
    ∃ b, m.isConvexSubgraph B = .ok b ∧
      (b = true ↔ Convex (⟨m.source.w, m.source.toPlainEdges, [], []⟩ : PDiag O A)
        ⟨m.target.w, m.target.toPlainEdges, [], []⟩ m.wFn m.xFn) := by
  have hT : m.target.wf = true := (HG.wf_iff_Wf _).2 hw.target
  have hS : m.source.wf = true := (HG.wf_iff_Wf _).2 hw.source
  have hlenE : m.source.toPlainEdges.length = m.x.table.length := by
    rw [toPlainEdges_length _ hS, ← h3]; rfl
  have hlenN : m.source.w.length = m.w.table.length := h1.symm
  unfold HArrow.isConvexSubgraph Convex
  simp only [hlenE, hlenN]
  rw [HArrow.isMonomorphism_eq m hw.w hw.x]
  simp only [Res.ok_bind]
  by_cases hmono : m.w.table.Nodup ∧ m.x.table.Nodup
  case neg =>
    have : (decide m.w.table.Nodup && decide m.x.table.Nodup) = false := by
      rw [Bool.eq_false_iff]; intro hc; apply hmono; simpa using hc
    rw [this]
    refine ⟨false, rfl, ?_⟩
    simp only [Bool.false_eq_true, false_iff]
    rintro ⟨i1, i2, _⟩
    exact hmono ⟨(nodup_iff_injOn_getD _).2 i1, (nodup_iff_injOn_getD _).2 i2⟩
  have hm : (decide m.w.table.Nodup && decide m.x.table.Nodup) = true := by simpa using hmono
  have inj1 : InjOn m.w.table.length m.wFn := (nodup_iff_injOn_getD _).1 hmono.1
  have inj2 : InjOn m.x.table.length m.xFn := (nodup_iff_injOn_getD _).1 hmono.2
  rw [hm]
  simp only [Bool.not_true, Bool.false_eq_true, if_false]
  -- the mask of image edges and the list of outside edges
  have hxlt : ∀ i ∈ m.x.table, i < (List.replicate m.target.x.length 0).length := by
    intro i hi; rw [List.length_replicate, ← h4]; exact hw.x i hi
  obtain ⟨mask, hmask, lmask, mmask⟩ := mark_spec (List.replicate m.target.x.length 0) m.x.table hxlt
  rw [List.length_replicate] at lmask
  have hzero : ∀ i, i ∈ zero mask ↔ i < m.target.x.length ∧ i ∉ m.x.table := by
    intro i
    rw [Prim.mem_zero]
    constructor
    · intro h
      have hi : i < mask.length := (List.getElem?_eq_some_iff.1 h).1
      refine ⟨lmask ▸ hi, fun hc => ?_⟩
      have := (mmask i).2 (Or.inl hc)
      unfold Marked at this
      simp [List.getD_eq_getElem?_getD, h] at this
    · rintro ⟨hi, hni⟩
      have : ¬ Marked mask i := fun hc => by
        rcases (mmask i).1 hc with h | h
        · exact hni h
        · exact not_marked_replicate _ _ h
      unfold Marked at this
      have hi' : i < mask.length := lmask ▸ hi
      simp only [List.getD_eq_getElem?_getD, List.getElem?_eq_getElem hi', Option.getD_some, ne_eq,
        not_not] at this
      rw [List.getElem?_eq_getElem hi', this]
  have hout : FinFun.new (zero mask) m.target.x.length = .ok ⟨zero mask, m.target.x.length⟩ :=
    IC.finfun_new_ok _ _ (fun i hi => ((hzero i).1 hi).1)
  obtain ⟨sIn, tIn, aIn, e1, e2, e3, wfIn, lenIn, depIn⟩ :=
    adjacency_of_indexes B hB m.target hT m.x hw.x h4
  obtain ⟨sOut, tOut, aOut, f1, f2, f3, wfOut, lenOut, depOut⟩ :=
    adjacency_of_indexes B hB m.target hT ⟨zero mask, m.target.x.length⟩
      (fun i hi => ((hzero i).1 hi).1) rfl
  obtain ⟨aAll, g1, wfAll, lenAll, _, depAll⟩ := nodeAdjacency_spec B hB m.target hT
  have hwlt : ∀ i ∈ m.w.table, i < (List.replicate m.target.w.length 0).length := by
    intro i hi; rw [List.length_replicate, ← h2]; exact hw.w i hi
  obtain ⟨v0, hv0, lv0, mv0⟩ := mark_spec (List.replicate m.target.w.length 0) m.w.table hwlt
  rw [List.length_replicate] at lv0
  have mv0' : ∀ v, Marked v0 v ↔ v ∈ m.w.table := fun v =>
    ⟨fun h => ((mv0 v).1 h).resolve_right (not_marked_replicate _ _), fun h => (mv0 v).2 (Or.inl h)⟩
  rw [hmask]
  simp only [Res.ok_bind, hout, Res.unwrap_ok, e1, e2, e3, f1, f2, f3, g1, hv0]
  -- the relations
  have hall : ∀ v w, adjDep aAll v w ↔ adjDep aIn v w ∨ adjDep aOut v w := by
    intro v w
    rw [depAll, depIn, depOut]
    unfold nodeStep
    constructor
    · rintro ⟨e, he, hv, hw'⟩
      obtain ⟨k, hk⟩ := List.getElem?_of_mem he
      have hs : stepVia (⟨m.target.w, m.target.toPlainEdges, [], []⟩ : PDiag O A) k v w :=
        ⟨e, hk, hv, hw'⟩
      by_cases hin : k ∈ m.x.table
      · exact Or.inl ⟨k, hin, hs⟩
      · exact Or.inr ⟨k, (hzero k).2 ⟨stepVia_lt _ hT _ _ _ hs, hin⟩, hs⟩
    · rintro (⟨k, _, e, hk, hv, hw'⟩ | ⟨k, _, e, hk, hv, hw'⟩)
      · exact ⟨e, List.mem_of_getElem? hk, hv, hw'⟩
      · exact ⟨e, List.mem_of_getElem? hk, hv, hw'⟩
  -- the initial state satisfies the invariant
  have inv0 : CInv aIn aOut aAll m.w.table
      ⟨v0, List.replicate m.target.w.length 0, m.w.table, []⟩ := by
    refine ⟨by rw [lv0, lenIn], by rw [List.length_replicate, lenIn], hmono.1, List.nodup_nil,
      fun v hv => (mv0' v).2 hv, fun v hv => by simp at hv, fun u hu => (mv0' u).2 hu,
      fun v hv => ⟨v, (mv0' v).1 hv, RPath.nil⟩,
      fun v hv => absurd hv (not_marked_replicate _ _),
      fun v hv hnf => absurd ((mv0' v).1 hv) hnf, fun v hv hnf => absurd ((mv0' v).1 hv) hnf,
      fun v hv => absurd hv (not_marked_replicate _ _)⟩
  have hμ : unmarked v0 + unmarked (List.replicate m.target.w.length 0) <
      2 * m.target.w.length + 2 := by
    have a1 := unmarked_le v0
    have a2 := unmarked_le (List.replicate m.target.w.length 0)
    rw [List.length_replicate] at a2
    omega
  obtain ⟨st, hst, fin⟩ := convexLoop_spec B hB wfIn wfOut wfAll (by rw [lenOut, lenIn])
    (by rw [lenAll, lenIn]) hall (2 * m.target.w.length + 2) _ inv0 hμ
  rw [hst]
  simp only [Res.ok_bind]
  have hglt : ∀ i ∈ m.w.table, i < st.visited1.length := by
    intro i hi; rw [fin.len1, lenIn, ← h2]; exact hw.w i hi
  rw [Prim.gather_ok _ _ hglt]
  have hgm : gatherP st.visited1 m.w.table = m.w.table.map (fun y => st.visited1.getD y 0) := by
    apply FinFun.gatherP_eq_map
    intro i hi
    simp [List.getD_eq_getElem?_getD, List.getElem?_eq_getElem (hglt i hi)]
  rw [hgm]
  refine ⟨_, rfl, ?_⟩
  -- the final test: some image node is marked in layer 1
  have hfinal : (∃ u ∈ m.w.table, Marked st.visited1 u) ↔
      ∃ i j, i < m.w.table.length ∧ j < m.w.table.length ∧
        PathUsing (⟨m.target.w, m.target.toPlainEdges, [], []⟩ : PDiag O A)
          (fun e => ∃ k, k < m.x.table.length ∧ m.xFn k = e) (m.wFn i) (m.wFn j) true := by
    have hcongr := fun u v => rpath_congr
      (Rin := adjDep aIn) (Rout := adjDep aOut)
      (Rin' := fun v w => ∃ e, stepVia (⟨m.target.w, m.target.toPlainEdges, [], []⟩ : PDiag O A) e v w ∧
        ∃ k, k < m.x.table.length ∧ m.xFn k = e)
      (Rout' := fun v w => ∃ e, stepVia (⟨m.target.w, m.target.toPlainEdges, [], []⟩ : PDiag O A) e v w ∧
        ¬ ∃ k, k < m.x.table.length ∧ m.xFn k = e)
      (fun v w => by
        rw [depIn]
        exact exists_congr fun e => by rw [mem_getD_iff, and_comm]; rfl)
      (fun v w => by
        rw [depOut]
        refine exists_congr fun e => ?_
        simp only [hzero, mem_getD_iff]
        constructor
        · rintro ⟨⟨_, hn⟩, hs⟩; exact ⟨hs, hn⟩
        · rintro ⟨hs, hn⟩; exact ⟨⟨stepVia_lt _ hT _ _ _ hs, hn⟩, hs⟩) u v true
    constructor
    · rintro ⟨u, hu, hmk⟩
      obtain ⟨u', hu', hp⟩ := (fin.marked1_iff hall u).1 hmk
      obtain ⟨j, hj, rfl⟩ := (mem_getD_iff _ _).1 hu
      obtain ⟨i, hi, rfl⟩ := (mem_getD_iff _ _).1 hu'
      exact ⟨i, j, hi, hj, (pathUsing_iff_rpath _ _ _ _ _).2 ((hcongr _ _).1 hp)⟩
    · rintro ⟨i, j, hi, hj, hp⟩
      refine ⟨m.wFn j, (mem_getD_iff _ _).2 ⟨j, hj, rfl⟩, (fin.marked1_iff hall _).2
        ⟨m.wFn i, (mem_getD_iff _ _).2 ⟨i, hi, rfl⟩, (hcongr _ _).2 ((pathUsing_iff_rpath _ _ _ _ _).1 hp)⟩⟩
  rw [← hfinal]
  cases hmx : Prim.max (m.w.table.map (fun y => st.visited1.getD y 0)) with
  | none =>
    have := (Prim.max_eq_none_iff _).1 hmx
    have : m.w.table = [] := by simpa using this
    simp only [this, List.not_mem_nil, false_and, exists_false, not_false_eq_true, and_true,
      Bool.not_false, true_iff]
    exact ⟨this ▸ inj1, inj2⟩
  | some mx =>
    obtain ⟨a1, a2⟩ := Prim.max_eq_some _ _ hmx
    have hmax : mx ≥ 1 ↔ ∃ u ∈ m.w.table, Marked st.visited1 u := by
      constructor
      · intro hge
        obtain ⟨u, hu, rfl⟩ := List.mem_map.1 a1
        exact ⟨u, hu, by unfold Marked; omega⟩
      · rintro ⟨u, hu, hmk⟩
        have := a2 _ (List.mem_map.2 ⟨u, hu, rfl⟩)
        unfold Marked at hmk
        omega
    simp only [Bool.not_eq_true', decide_eq_false_iff_not, hmax]
    exact ⟨fun h => ⟨inj1, inj2, h⟩, fun h => h.2.2⟩


end OH.Graph
