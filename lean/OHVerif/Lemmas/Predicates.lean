/-
  Helper lemmas for C17 / C18 (the predicates on diagrams and on hypergraph morphisms):
  unpacking of deep well-formedness, the plain edge list of a strict hypergraph, degrees as
  `count`s in the flat incidence tables, the closed form of `is_monogamous`, and the closed
  form of every step of `HArrow.validate`.
-/
import OHVerif.Spec.Diagram
import OHVerif.Lemmas.Segs

namespace OH

variable {O A : Type}

/-! ### unpacking deep well-formedness -/

structure IC.Wf (c : IC FinFun) : Prop where
  valid : c.valid = true
  sources : c.sources.WF
  values : c.values.WF

theorem IC.wf_iff (c : IC FinFun) : c.wf = true ↔ c.Wf := by
  simp only [IC.wf, Bool.and_eq_true, FinFun.wf_iff]
  exact ⟨fun ⟨⟨a, b⟩, c⟩ => ⟨a, b, c⟩, fun ⟨a, b, c⟩ => ⟨⟨a, b⟩, c⟩⟩

structure HG.Wf (h : HG O A) : Prop where
  s : h.s.Wf
  t : h.t.Wf
  slen : h.s.len = h.x.length
  tlen : h.t.len = h.x.length
  stgt : h.s.values.target = h.w.length
  ttgt : h.t.values.target = h.w.length

theorem HG.wf_iff (h : HG O A) : h.wf = true ↔ h.Wf := by
  simp only [HG.wf, Bool.and_eq_true, IC.wf_iff, beq_iff_eq]
  exact ⟨fun ⟨⟨⟨⟨⟨a, b⟩, c⟩, d⟩, e⟩, f⟩ => ⟨a, b, c, d, e, f⟩,
    fun ⟨a, b, c, d, e, f⟩ => ⟨⟨⟨⟨⟨a, b⟩, c⟩, d⟩, e⟩, f⟩⟩

structure OHG.Wf (f : OHG O A) : Prop where
  h : f.h.Wf
  s : f.s.WF
  t : f.t.WF
  stgt : f.s.target = f.h.w.length
  ttgt : f.t.target = f.h.w.length

theorem OHG.wf_iff (f : OHG O A) : f.wf = true ↔ f.Wf := by
  simp only [OHG.wf, Bool.and_eq_true, HG.wf_iff, FinFun.wf_iff, beq_iff_eq]
  exact ⟨fun ⟨⟨⟨⟨a, b⟩, c⟩, d⟩, e⟩ => ⟨a, b, c, d, e⟩,
    fun ⟨a, b, c, d, e⟩ => ⟨⟨⟨⟨a, b⟩, c⟩, d⟩, e⟩⟩

/-! ### the plain edge list -/

namespace HG

theorem toPlainEdges_length (h : HG O A) (hw : h.Wf) : h.toPlainEdges.length = h.x.length := by
  simp [toPlainEdges, IC.segs_length, hw.slen, hw.tlen]

theorem toPlainEdges_getElem? (h : HG O A) (e : Nat) :
    h.toPlainEdges[e]? =
      (h.x[e]?).bind fun x => (h.s.segs[e]?).bind fun s => (h.t.segs[e]?).map fun t => ⟨x, s, t⟩ := by
  have hz : (h.s.segs.zip h.t.segs)[e]? =
      (h.s.segs[e]?).bind fun s => (h.t.segs[e]?).map fun t => (s, t) := by
    rw [List.zip, List.getElem?_zipWith]
    cases h.s.segs[e]? <;> cases h.t.segs[e]? <;> rfl
  simp only [toPlainEdges, List.getElem?_zipWith, hz]
  cases h.x[e]? <;> cases h.s.segs[e]? <;> cases h.t.segs[e]? <;> rfl

theorem toPlainEdges_map_src (h : HG O A) (hw : h.Wf) :
    h.toPlainEdges.map (·.src) = h.s.segs := by
  apply List.ext_getElem?
  intro e
  rw [List.getElem?_map, toPlainEdges_getElem?]
  by_cases he : e < h.x.length
  · have h1 : e < h.s.segs.length := by rw [IC.segs_length, hw.slen]; exact he
    have h2 : e < h.t.segs.length := by rw [IC.segs_length, hw.tlen]; exact he
    simp [List.getElem?_eq_getElem he, List.getElem?_eq_getElem h1, List.getElem?_eq_getElem h2]
  · have h1 : h.s.segs.length ≤ e := by rw [IC.segs_length, hw.slen]; omega
    simp [List.getElem?_eq_none (Nat.le_of_not_lt he), List.getElem?_eq_none h1]

theorem toPlainEdges_map_tgt (h : HG O A) (hw : h.Wf) :
    h.toPlainEdges.map (·.tgt) = h.t.segs := by
  apply List.ext_getElem?
  intro e
  rw [List.getElem?_map, toPlainEdges_getElem?]
  by_cases he : e < h.x.length
  · have h1 : e < h.s.segs.length := by rw [IC.segs_length, hw.slen]; exact he
    have h2 : e < h.t.segs.length := by rw [IC.segs_length, hw.tlen]; exact he
    simp [List.getElem?_eq_getElem he, List.getElem?_eq_getElem h1, List.getElem?_eq_getElem h2]
  · have h1 : h.t.segs.length ≤ e := by rw [IC.segs_length, hw.tlen]; omega
    simp [List.getElem?_eq_none (Nat.le_of_not_lt he), List.getElem?_eq_none h1]

end HG

/-! ### degrees are counts in the flat incidence tables -/

theorem sum_map_count_flatten (L : List (List Nat)) (v : Nat) :
    (L.map (fun l => l.count v)).sum = L.flatten.count v := by
  induction L with
  | nil => rfl
  | cons a L ih => simp [ih, List.count_append]

theorem inDeg_eq_count (nodes : List O) (ins outs : List Nat) (h : HG O A) (hw : h.Wf) (v : Nat) :
    inDeg ⟨nodes, h.toPlainEdges, ins, outs⟩ v = h.t.values.table.count v := by
  have h1 := HG.toPlainEdges_map_tgt h hw
  have : (h.toPlainEdges.map (fun e => e.tgt.count v)) =
      (h.toPlainEdges.map (·.tgt)).map (fun l => l.count v) := by simp
  rw [inDeg, this, h1, sum_map_count_flatten, IC.segs_flatten _ hw.t.valid]

theorem outDeg_eq_count (nodes : List O) (ins outs : List Nat) (h : HG O A) (hw : h.Wf) (v : Nat) :
    outDeg ⟨nodes, h.toPlainEdges, ins, outs⟩ v = h.s.values.table.count v := by
  have h1 := HG.toPlainEdges_map_src h hw
  have : (h.toPlainEdges.map (fun e => e.src.count v)) =
      (h.toPlainEdges.map (·.src)).map (fun l => l.count v) := by simp
  rw [outDeg, this, h1, sum_map_count_flatten, IC.segs_flatten _ hw.s.valid]

/-! ### closed form of `is_monogamous` -/

/-- the guard `counts.max().map_or(false, |m| m > 1)` -/
def maxGt1 (l : List Nat) : Bool :=
  match Prim.max l with | some m => decide (m > 1) | Option.none => false

theorem OHG.isMonogamous_eq (f : OHG O A) : f.isMonogamous = (do
    let n := f.h.w.length
    let inCounts ← Prim.bincount f.s.table n
    if maxGt1 inCounts then pure false
    else do
      let outCounts ← Prim.bincount f.t.table n
      if maxGt1 outCounts then pure false
      else do
        let inDeg ← Prim.bincount f.h.t.values.table n
        let outDeg ← Prim.bincount f.h.s.values.table n
        let a ← Prim.add inDeg inCounts
        let b ← Prim.add outDeg outCounts
        pure (decide (a = List.replicate n 1) && decide (b = List.replicate n 1))) := rfl

theorem maxGt1_false_iff (l : List Nat) : maxGt1 l = false ↔ ∀ c ∈ l, c ≤ 1 := by
  unfold maxGt1
  cases hm : Prim.max l with
  | none =>
    have := (Prim.max_eq_none_iff l).1 hm
    simp [this]
  | some m =>
    obtain ⟨h1, h2⟩ := Prim.max_eq_some l m hm
    simp only [gt_iff_lt, decide_eq_false_iff_not, Nat.not_lt]
    exact ⟨fun h c hc => Nat.le_trans (h2 c hc) h, fun h => h m h1⟩

theorem counts_le_one_iff_nodup (xs : List Nat) (n : Nat) (h : ∀ x ∈ xs, x < n) :
    (∀ c ∈ (List.range n).map (fun v => xs.count v), c ≤ 1) ↔ xs.Nodup := by
  rw [List.nodup_iff_count]
  constructor
  · intro hc v
    by_cases hv : v ∈ xs
    · exact hc _ (List.mem_map.mpr ⟨v, List.mem_range.mpr (h v hv), rfl⟩)
    · rw [List.count_eq_zero_of_not_mem hv]; exact Nat.zero_le _
  · intro hc c hmem
    obtain ⟨v, _, rfl⟩ := List.mem_map.mp hmem
    exact hc v

theorem zipWith_add_counts_eq_ones (f g : Nat → Nat) (n : Nat) :
    List.zipWith (· + ·) ((List.range n).map f) ((List.range n).map g) = List.replicate n 1 ↔
      ∀ v, v < n → f v + g v = 1 := by
  have : List.zipWith (· + ·) ((List.range n).map f) ((List.range n).map g) =
      (List.range n).map (fun v => f v + g v) := by
    simp [List.zipWith_map, List.zipWith_self]
  rw [this]
  constructor
  · intro h v hv
    have := congrArg (fun l => l[v]?) h
    simpa [List.getElem?_range hv, List.getElem?_replicate, hv] using this
  · intro h
    apply List.ext_getElem?
    intro v
    by_cases hv : v < n
    · simp [hv, h v hv]
    · simp [hv]

/-- closed form of `is_monogamous` on a well-formed open hypergraph: it never panics, and
    answers whether both interface tables are duplicate-free and at every node the
    (flat-table) in-count plus the input-count, and the out-count plus the output-count, are 1 -/
theorem OHG.isMonogamous_closed (f : OHG O A) (hw : f.Wf) :
    ∃ b, f.isMonogamous = .ok b ∧ (b = true ↔
      f.s.table.Nodup ∧ f.t.table.Nodup ∧
      (∀ v, v < f.h.w.length → f.h.t.values.table.count v + f.s.table.count v = 1) ∧
      (∀ v, v < f.h.w.length → f.h.s.values.table.count v + f.t.table.count v = 1)) := by
  have hs : ∀ x ∈ f.s.table, x < f.h.w.length := fun x hx => hw.stgt ▸ hw.s x hx
  have ht : ∀ x ∈ f.t.table, x < f.h.w.length := fun x hx => hw.ttgt ▸ hw.t x hx
  have hti : ∀ x ∈ f.h.t.values.table, x < f.h.w.length := fun x hx => hw.h.ttgt ▸ hw.h.t.values x hx
  have hsi : ∀ x ∈ f.h.s.values.table, x < f.h.w.length := fun x hx => hw.h.stgt ▸ hw.h.s.values x hx
  rw [OHG.isMonogamous_eq]
  simp only [Prim.bincount_ok _ _ hs, Prim.bincount_ok _ _ ht, Prim.bincount_ok _ _ hti,
    Prim.bincount_ok _ _ hsi, Res.ok_bind]
  have e1 := maxGt1_false_iff ((List.range f.h.w.length).map (fun v => f.s.table.count v))
  have e2 := maxGt1_false_iff ((List.range f.h.w.length).map (fun v => f.t.table.count v))
  rw [counts_le_one_iff_nodup _ _ hs] at e1
  rw [counts_le_one_iff_nodup _ _ ht] at e2
  generalize maxGt1 ((List.range f.h.w.length).map (fun v => f.s.table.count v)) = c1 at e1
  generalize maxGt1 ((List.range f.h.w.length).map (fun v => f.t.table.count v)) = c2 at e2
  cases c1 with
  | true =>
    refine ⟨false, rfl, ?_⟩
    have : ¬ f.s.table.Nodup := fun hn => by cases e1.2 hn
    simp [this]
  | false =>
    have n1 : f.s.table.Nodup := e1.1 rfl
    cases c2 with
    | true =>
      refine ⟨false, rfl, ?_⟩
      have : ¬ f.t.table.Nodup := fun hn => by cases e2.2 hn
      simp [this]
    | false =>
      have n2 : f.t.table.Nodup := e2.1 rfl
      rw [Prim.add_ok _ _ (by simp), Prim.add_ok _ _ (by simp)]
      refine ⟨_, rfl, ?_⟩
      simp only [Bool.and_eq_true, decide_eq_true_eq, zipWith_add_counts_eq_ones]
      simp [n1, n2]

end OH
