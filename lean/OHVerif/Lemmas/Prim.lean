import OHVerif.Model.Prim

namespace OH.Prim

variable {α : Type}

/-! ### gather / get / ranges -/

theorem gatherP_eq_map (xs : List α) (idx : List Nat) (h : ∀ i ∈ idx, i < xs.length) :
    (gatherP xs idx).map some = idx.map (fun i => xs[i]?) := by
  induction idx with
  | nil => rfl
  | cons i is ih =>
    have hi : i < xs.length := h i (by simp)
    have ih' := ih (fun j hj => h j (by simp [hj]))
    simp only [gatherP] at ih' ⊢
    simp [List.getElem?_eq_getElem hi, ih']

theorem gatherP_length (xs : List α) (idx : List Nat) (h : ∀ i ∈ idx, i < xs.length) :
    (gatherP xs idx).length = idx.length := by
  have := congrArg List.length (gatherP_eq_map xs idx h)
  simpa using this

theorem gatherP_getElem? (xs : List α) (idx : List Nat) (h : ∀ i ∈ idx, i < xs.length)
    (k : Nat) (hk : k < idx.length) : (gatherP xs idx)[k]? = xs[idx[k]]? := by
  have h1 := congrArg (fun l => l[k]?) (gatherP_eq_map xs idx h)
  simp only [List.getElem?_map, List.getElem?_eq_getElem hk, Option.map_some] at h1
  have hk' : k < (gatherP xs idx).length := by rw [gatherP_length xs idx h]; exact hk
  rw [List.getElem?_eq_getElem hk'] at h1 ⊢
  simpa using h1

theorem gather_ok (xs : List α) (idx : List Nat) (h : ∀ i ∈ idx, i < xs.length) :
    gather xs idx = .ok (gatherP xs idx) := by
  unfold gather
  rw [if_pos]
  simpa using h

theorem gather_panic (xs : List α) (idx : List Nat) (h : ∃ i ∈ idx, xs.length ≤ i) :
    gather xs idx = .panic "gather:index" := by
  unfold gather
  rw [if_neg]
  simp only [List.all_eq_true, decide_eq_true_eq]
  intro h'
  obtain ⟨i, hi, hle⟩ := h
  exact Nat.lt_irrefl _ (Nat.lt_of_lt_of_le (h' i hi) hle)

theorem get_ok (xs : List α) (i : Nat) (h : i < xs.length) : get xs i = .ok xs[i] := by
  simp [get, List.getElem?_eq_getElem h, Res.ofOption]

theorem get_panic (xs : List α) (i : Nat) (h : xs.length ≤ i) : get xs i = .panic "get:index" := by
  simp [get, List.getElem?_eq_none h, Res.ofOption]

theorem slice_ok (xs : List α) (a b : Nat) (h : a ≤ b ∧ b ≤ xs.length) :
    slice xs a b = .ok ((xs.drop a).take (b - a)) := by
  simp [slice, h]

theorem slice_panic (xs : List α) (a b : Nat) (h : ¬ (a ≤ b ∧ b ≤ xs.length)) :
    slice xs a b = .panic "slice:range" := by
  simp only [slice, if_neg h]

theorem slice_length (xs : List α) (a b : Nat) (h : a ≤ b ∧ b ≤ xs.length) :
    ((xs.drop a).take (b - a)).length = b - a := by
  simp only [List.length_take, List.length_drop]; omega

theorem slice_getElem? (xs : List α) (a b k : Nat) (hk : k < b - a) :
    ((xs.drop a).take (b - a))[k]? = xs[a + k]? := by
  simp [hk, List.getElem?_drop]

theorem slice_ok_iff (xs : List α) (a b : Nat) (r : List α) :
    slice xs a b = .ok r ↔ (a ≤ b ∧ b ≤ xs.length) ∧ r = (xs.drop a).take (b - a) := by
  by_cases h : a ≤ b ∧ b ≤ xs.length
  · rw [slice_ok xs a b h]
    constructor
    · intro e; injection e with e; exact ⟨h, e.symm⟩
    · rintro ⟨_, e⟩; rw [e]
  · rw [slice_panic xs a b h]
    constructor
    · intro e; cases e
    · rintro ⟨h', _⟩; exact absurd h' h

theorem getRange_eq (xs : List α) (r : RangeForm) :
    getRange xs r = slice xs (toRange xs.length r).1 (toRange xs.length r).2 := rfl

theorem setRange_ok (xs : List α) (r : RangeForm) (v : List α)
    (h : (toRange xs.length r).1 ≤ (toRange xs.length r).2 ∧ (toRange xs.length r).2 ≤ xs.length)
    (hv : v.length = (toRange xs.length r).2 - (toRange xs.length r).1) :
    setRange xs r v =
      .ok (xs.take (toRange xs.length r).1 ++ v ++ xs.drop (toRange xs.length r).2) := by
  simp only [setRange, if_pos h, if_pos hv]

theorem setRange_panic_range (xs : List α) (r : RangeForm) (v : List α)
    (h : ¬ ((toRange xs.length r).1 ≤ (toRange xs.length r).2 ∧
      (toRange xs.length r).2 ≤ xs.length)) :
    setRange xs r v = .panic "set_range:range" := by
  simp only [setRange, if_neg h]

theorem setRange_panic_len (xs : List α) (r : RangeForm) (v : List α)
    (h : (toRange xs.length r).1 ≤ (toRange xs.length r).2 ∧ (toRange xs.length r).2 ≤ xs.length)
    (hv : v.length ≠ (toRange xs.length r).2 - (toRange xs.length r).1) :
    setRange xs r v = .panic "set_range:len" := by
  simp only [setRange, if_pos h, if_neg hv]

theorem splice_length (xs v : List α) (a b : Nat) (h : a ≤ b ∧ b ≤ xs.length)
    (hv : v.length = b - a) : (xs.take a ++ v ++ xs.drop b).length = xs.length := by
  simp only [List.length_append, List.length_take, List.length_drop]; omega

theorem splice_getElem? (xs v : List α) (a b : Nat) (h : a ≤ b ∧ b ≤ xs.length)
    (hv : v.length = b - a) (k : Nat) :
    (xs.take a ++ v ++ xs.drop b)[k]? = if a ≤ k ∧ k < b then v[k - a]? else xs[k]? := by
  have hla : (xs.take a).length = a := by simp only [List.length_take]; omega
  rw [List.append_assoc, List.getElem?_append, hla]
  by_cases h1 : k < a
  · rw [if_pos h1, if_neg (by omega), List.getElem?_take, if_pos h1]
  · rw [if_neg h1, List.getElem?_append]
    by_cases h2 : k < b
    · rw [if_pos (by omega), if_pos (by omega)]
    · rw [if_neg (by omega), if_neg (by omega), List.getElem?_drop]
      congr 1; omega

