/-
  Helper lemmas about the array primitives of `OHVerif.Model.Prim`: for every primitive the
  `ok` value inside its precondition, its length and element-wise meaning, and the panic
  outside of it.  Used by `OHVerif.Props.C07`.
-/
import OHVerif.Model.Prim

namespace OH.Prim

variable {α : Type}

/-! ### gather / get / ranges -/

theorem gatherP_eq_map (xs : List α) (idx : List Nat) (h : ∀ i ∈ idx, i < xs.length) :
    (gatherP xs idx).map some = idx.map (fun i => xs[i]?) := by
  induction idx with
  | nil => rfl
  | cons i is ih =>
    have hi : i < xs.length := h i (by simp)
    have ih' := ih (fun j hj => h j (by simp [hj]))
    simp only [gatherP] at ih' ⊢
    simp [List.getElem?_eq_getElem hi, ih']

theorem gatherP_length (xs : List α) (idx : List Nat) (h : ∀ i ∈ idx, i < xs.length) :
    (gatherP xs idx).length = idx.length := by
  have := congrArg List.length (gatherP_eq_map xs idx h)
  simpa using this

theorem gatherP_getElem? (xs : List α) (idx : List Nat) (h : ∀ i ∈ idx, i < xs.length)
    (k : Nat) (hk : k < idx.length) : (gatherP xs idx)[k]? = xs[idx[k]]? := by
  have h1 := congrArg (fun l => l[k]?) (gatherP_eq_map xs idx h)
  simp only [List.getElem?_map, List.getElem?_eq_getElem hk, Option.map_some] at h1
  have hk' : k < (gatherP xs idx).length := by rw [gatherP_length xs idx h]; exact hk
  rw [List.getElem?_eq_getElem hk'] at h1 ⊢
  simpa using h1

theorem gather_ok (xs : List α) (idx : List Nat) (h : ∀ i ∈ idx, i < xs.length) :
    gather xs idx = .ok (gatherP xs idx) := by
  unfold gather
  rw [if_pos]
  simpa using h

theorem gather_panic (xs : List α) (idx : List Nat) (h : ∃ i ∈ idx, xs.length ≤ i) :
    gather xs idx = .panic "gather:index" := by
  unfold gather
  rw [if_neg]
  simp only [List.all_eq_true, decide_eq_true_eq]
  intro h'
  obtain ⟨i, hi, hle⟩ := h
  exact Nat.lt_irrefl _ (Nat.lt_of_lt_of_le (h' i hi) hle)

theorem get_ok (xs : List α) (i : Nat) (h : i < xs.length) : get xs i = .ok xs[i] := by
  simp [get, List.getElem?_eq_getElem h, Res.ofOption]

theorem get_panic (xs : List α) (i : Nat) (h : xs.length ≤ i) : get xs i = .panic "get:index" := by
  simp [get, List.getElem?_eq_none h, Res.ofOption]

theorem slice_ok (xs : List α) (a b : Nat) (h : a ≤ b ∧ b ≤ xs.length) :
    slice xs a b = .ok ((xs.drop a).take (b - a)) := by
  simp [slice, h]

theorem slice_panic (xs : List α) (a b : Nat) (h : ¬ (a ≤ b ∧ b ≤ xs.length)) :
    slice xs a b = .panic "slice:range" := by
  simp only [slice, if_neg h]

theorem slice_length (xs : List α) (a b : Nat) (h : a ≤ b ∧ b ≤ xs.length) :
    ((xs.drop a).take (b - a)).length = b - a := by
  simp only [List.length_take, List.length_drop]; omega

theorem slice_getElem? (xs : List α) (a b k : Nat) (hk : k < b - a) :
    ((xs.drop a).take (b - a))[k]? = xs[a + k]? := by
  simp [hk, List.getElem?_drop]

theorem slice_ok_iff (xs : List α) (a b : Nat) (r : List α) :
    slice xs a b = .ok r ↔ (a ≤ b ∧ b ≤ xs.length) ∧ r = (xs.drop a).take (b - a) := by
  by_cases h : a ≤ b ∧ b ≤ xs.length
  · rw [slice_ok xs a b h]
    constructor
    · intro e; injection e with e; exact ⟨h, e.symm⟩
    · rintro ⟨_, e⟩; rw [e]
  · rw [slice_panic xs a b h]
    constructor
    · intro e; cases e
    · rintro ⟨h', _⟩; exact absurd h' h

theorem getRange_eq (xs : List α) (r : RangeForm) :
    getRange xs r = slice xs (toRange xs.length r).1 (toRange xs.length r).2 := rfl

theorem setRange_ok (xs : List α) (r : RangeForm) (v : List α)
    (h : (toRange xs.length r).1 ≤ (toRange xs.length r).2 ∧ (toRange xs.length r).2 ≤ xs.length)
    (hv : v.length = (toRange xs.length r).2 - (toRange xs.length r).1) :
    setRange xs r v =
      .ok (xs.take (toRange xs.length r).1 ++ v ++ xs.drop (toRange xs.length r).2) := by
  simp only [setRange, if_pos h, if_pos hv]

theorem setRange_panic_range (xs : List α) (r : RangeForm) (v : List α)
    (h : ¬ ((toRange xs.length r).1 ≤ (toRange xs.length r).2 ∧
      (toRange xs.length r).2 ≤ xs.length)) :
    setRange xs r v = .panic "set_range:range" := by
  simp only [setRange, if_neg h]

theorem setRange_panic_len (xs : List α) (r : RangeForm) (v : List α)
    (h : (toRange xs.length r).1 ≤ (toRange xs.length r).2 ∧ (toRange xs.length r).2 ≤ xs.length)
    (hv : v.length ≠ (toRange xs.length r).2 - (toRange xs.length r).1) :
    setRange xs r v = .panic "set_range:len" := by
  simp only [setRange, if_pos h, if_neg hv]

theorem splice_length (xs v : List α) (a b : Nat) (h : a ≤ b ∧ b ≤ xs.length)
    (hv : v.length = b - a) : (xs.take a ++ v ++ xs.drop b).length = xs.length := by
  simp only [List.length_append, List.length_take, List.length_drop]; omega

theorem splice_getElem? (xs v : List α) (a b : Nat) (h : a ≤ b ∧ b ≤ xs.length)
    (hv : v.length = b - a) (k : Nat) :
    (xs.take a ++ v ++ xs.drop b)[k]? = if a ≤ k ∧ k < b then v[k - a]? else xs[k]? := by
  have hla : (xs.take a).length = a := by simp only [List.length_take]; omega
  rw [List.append_assoc, List.getElem?_append, hla]
  by_cases h1 : k < a
  · rw [if_pos h1, if_neg (by omega), List.getElem?_take, if_pos h1]
  · rw [if_neg h1, List.getElem?_append]
    by_cases h2 : k < b
    · rw [if_pos (by omega), if_pos (by omega)]
    · rw [if_neg (by omega), if_neg (by omega), List.getElem?_drop]
      congr 1; omega


/-! ### writeAll -/

theorem writeAll_length (y : List α) (ps : List (Nat × α)) :
    (writeAll y ps).length = y.length := by
  induction ps generalizing y with
  | nil => rfl
  | cons p rest ih => obtain ⟨i, x⟩ := p; simp [writeAll, ih]

/-- the value of the last pair of `ps` whose index is `k` -/
def lastWrite (k : Nat) (ps : List (Nat × α)) : Option α :=
  (ps.findRev? (fun p => p.1 == k)).map (·.2)

theorem lastWrite_nil (k : Nat) : lastWrite k ([] : List (Nat × α)) = none := rfl

theorem lastWrite_cons (k : Nat) (p : Nat × α) (ps : List (Nat × α)) :
    lastWrite k (p :: ps) = (lastWrite k ps).or (if p.1 = k then some p.2 else none) := by
  unfold lastWrite
  rw [List.findRev?]
  cases h : List.findRev? (fun p => p.1 == k) ps with
  | some b => simp
  | none =>
    by_cases hp : p.1 = k <;> simp [hp]

theorem lastWrite_eq_none_iff (k : Nat) (ps : List (Nat × α)) :
    lastWrite k ps = none ↔ ∀ p ∈ ps, p.1 ≠ k := by
  induction ps with
  | nil => simp [lastWrite_nil]
  | cons p rest ih =>
    rw [lastWrite_cons, Option.or_eq_none_iff, ih]
    by_cases hp : p.1 = k <;> simp [hp]

theorem lastWrite_eq_some_iff (k : Nat) (ps : List (Nat × α)) (v : α) :
    lastWrite k ps = some v ↔
      ∃ j, ∃ h : j < ps.length, ps[j].1 = k ∧ ps[j].2 = v ∧
        ∀ j' (h' : j' < ps.length), j < j' → ps[j'].1 ≠ k := by
  induction ps with
  | nil => simp [lastWrite_nil]
  | cons p rest ih =>
    rw [lastWrite_cons]
    constructor
    · intro h
      cases hr : lastWrite k rest with
      | some w =>
        rw [hr] at h
        simp only [Option.some_or] at h
        injection h with h
        subst h
        obtain ⟨j, hj, h1, h2, h3⟩ := (ih).1 hr
        refine ⟨j + 1, by simp only [List.length_cons]; omega, by simpa using h1, by simpa using h2, ?_⟩
        intro j' h' hlt
        obtain ⟨j'', rfl⟩ : ∃ j'', j' = j'' + 1 := ⟨j' - 1, by omega⟩
        simp only [List.getElem_cons_succ]
        exact h3 j'' (by simpa using h') (by omega)
      | none =>
        rw [hr] at h
        simp only [Option.none_or] at h
        by_cases hp : p.1 = k
        · rw [if_pos hp] at h
          injection h with h
          refine ⟨0, by simp, by simpa using hp, by simpa using h, ?_⟩
          intro j' h' hlt
          obtain ⟨j'', rfl⟩ : ∃ j'', j' = j'' + 1 := ⟨j' - 1, by omega⟩
          simp only [List.getElem_cons_succ]
          exact (lastWrite_eq_none_iff k rest).1 hr _ (List.getElem_mem _)
        · rw [if_neg hp] at h; cases h
    · rintro ⟨j, hj, h1, h2, h3⟩
      cases j with
      | zero =>
        have hn : lastWrite k rest = none := by
          rw [lastWrite_eq_none_iff]
          intro q hq
          obtain ⟨m, hm, rfl⟩ := List.getElem_of_mem hq
          have := h3 (m + 1) (by simp only [List.length_cons]; omega) (by omega)
          simpa using this
        simp only [List.getElem_cons_zero] at h1 h2
        rw [hn, if_pos h1, h2]; rfl
      | succ j =>
        have : lastWrite k rest = some v := by
          rw [ih]
          refine ⟨j, by simpa using hj, by simpa using h1, by simpa using h2, ?_⟩
          intro j' h' hlt
          have := h3 (j' + 1) (by simp only [List.length_cons]; omega) (by omega)
          simpa using this
        rw [this]; rfl

theorem writeAll_getElem? (y : List α) (ps : List (Nat × α)) (k : Nat) :
    (writeAll y ps)[k]? = if k < y.length then (lastWrite k ps).or y[k]? else none := by
  induction ps generalizing y with
  | nil =>
    simp only [writeAll, lastWrite_nil, Option.none_or]
    split
    · rfl
    · exact List.getElem?_eq_none (by omega)
  | cons p rest ih =>
    obtain ⟨i, x⟩ := p
    rw [writeAll, ih, lastWrite_cons, List.length_set]
    by_cases hk : k < y.length
    · simp only [if_pos hk, List.getElem?_set]
      cases lastWrite k rest with
      | some w => simp
      | none =>
        simp only [Option.none_or]
        by_cases hik : i = k
        · subst hik; simp [hk]
        · simp [hik]
    · simp only [if_neg hk]

/-- position `k` is never written: it keeps its old value -/
theorem writeAll_getElem?_of_not_mem (y : List α) (ps : List (Nat × α)) (k : Nat)
    (h : ∀ p ∈ ps, p.1 ≠ k) : (writeAll y ps)[k]? = y[k]? := by
  rw [writeAll_getElem?, (lastWrite_eq_none_iff k ps).2 h, Option.none_or]
  split
  · rfl
  · exact (List.getElem?_eq_none (by omega)).symm

/-- position `k < y.length` holds the value of the last pair whose index is `k` -/
theorem writeAll_getElem?_of_last (y : List α) (ps : List (Nat × α)) (k : Nat) (hk : k < y.length)
    (j : Nat) (hj : j < ps.length) (hjk : ps[j].1 = k)
    (hlast : ∀ j' (h' : j' < ps.length), j < j' → ps[j'].1 ≠ k) :
    (writeAll y ps)[k]? = some ps[j].2 := by
  rw [writeAll_getElem?, if_pos hk,
    (lastWrite_eq_some_iff k ps ps[j].2).2 ⟨j, hj, hjk, rfl, hlast⟩]
  rfl

/-! ### scatter -/

theorem forall_mem_take_iff (idx : List Nat) (m : Nat) (hm : m ≤ idx.length) (P : Nat → Prop) :
    (∀ i ∈ idx.take m, P i) ↔ ∀ j (h : j < m), P (idx[j]'(Nat.lt_of_lt_of_le h hm)) := by
  constructor
  · intro h j hj
    apply h
    rw [List.mem_take_iff_getElem]
    exact ⟨j, by omega, rfl⟩
  · intro h i hi
    rw [List.mem_take_iff_getElem] at hi
    obtain ⟨j, hj, rfl⟩ := hi
    exact h j (by omega)

theorem scatter_nil (B : Backend) (idx : List Nat) (n : Nat) :
    scatter B ([] : List α) idx n =
      if idx = [] then .ok [] else .panic "scatter:assert-empty" := by
  cases idx <;> rfl

/-- the filler value used by `scatter` for the non-empty source `x0 :: tl` -/
def scatterFill (B : Backend) (x0 : α) (tl : List α) : α :=
  (x0 :: tl).getD (B.fillerIdx (tl.length + 1)) x0

theorem scatterFill_mem (B : Backend) (x0 : α) (tl : List α) :
    scatterFill B x0 tl ∈ x0 :: tl := by
  unfold scatterFill
  rw [List.getD_eq_getElem?_getD]
  cases h : (x0 :: tl)[B.fillerIdx (tl.length + 1)]? with
  | none => simp
  | some v => simpa using List.mem_of_getElem? h

theorem scatterFill_eq (B : Backend) (x0 : α) (tl : List α)
    (h : B.fillerIdx (tl.length + 1) < tl.length + 1) :
    (x0 :: tl)[B.fillerIdx (tl.length + 1)]? = some (scatterFill B x0 tl) := by
  unfold scatterFill
  rw [List.getD_eq_getElem?_getD, List.getElem?_eq_getElem (by simpa using h)]
  rfl

theorem scatter_cons_ok (B : Backend) (x0 : α) (tl : List α) (idx : List Nat) (n : Nat)
    (hlen : tl.length + 1 ≤ idx.length) (hidx : ∀ i ∈ idx.take (tl.length + 1), i < n) :
    scatter B (x0 :: tl) idx n =
      .ok (writeAll (List.replicate n (scatterFill B x0 tl))
        ((idx.take (tl.length + 1)).zip (x0 :: tl))) := by
  unfold scatter scatterFill
  simp only [List.length_cons]
  rw [if_pos]
  refine ⟨hlen, ?_⟩
  simpa using hidx

theorem scatter_cons_panic (B : Backend) (x0 : α) (tl : List α) (idx : List Nat) (n : Nat)
    (h : ¬ (tl.length + 1 ≤ idx.length ∧ ∀ i ∈ idx.take (tl.length + 1), i < n)) :
    scatter B (x0 :: tl) idx n = .panic "scatter:index" := by
  unfold scatter
  simp only [List.length_cons]
  rw [if_neg]
  intro h'
  apply h
  refine ⟨h'.1, ?_⟩
  simpa using h'.2

/-- Full description of `scatter` on a non-empty source inside its precondition. -/
theorem scatter_ok_spec (B : Backend) (xs : List α) (idx : List Nat) (n : Nat) (hne : xs ≠ [])
    (hlen : xs.length ≤ idx.length) (hidx : ∀ i ∈ idx.take xs.length, i < n) :
    ∃ r fill, scatter B xs idx n = .ok r ∧ r.length = n ∧ fill ∈ xs ∧
      (B.fillerIdx xs.length < xs.length → xs[B.fillerIdx xs.length]? = some fill) ∧
      (∀ j (hj : j < xs.length),
        (∀ j' (hj' : j' < xs.length), j < j' →
          idx[j']'(Nat.lt_of_lt_of_le hj' hlen) ≠ idx[j]'(Nat.lt_of_lt_of_le hj hlen)) →
        r[idx[j]'(Nat.lt_of_lt_of_le hj hlen)]? = some xs[j]) ∧
      (∀ k, k < n → (∀ j (hj : j < xs.length), idx[j]'(Nat.lt_of_lt_of_le hj hlen) ≠ k) →
        r[k]? = some fill) := by
  cases xs with
  | nil => exact absurd rfl hne
  | cons x0 tl =>
    simp only [List.length_cons] at hlen hidx ⊢
    refine ⟨_, scatterFill B x0 tl, scatter_cons_ok B x0 tl idx n hlen hidx, ?_,
      scatterFill_mem B x0 tl, scatterFill_eq B x0 tl, ?_, ?_⟩
    · rw [writeAll_length, List.length_replicate]
    · intro j hj hlast
      have hjn : idx[j]'(by omega) < n :=
        (forall_mem_take_iff idx (tl.length + 1) hlen (· < n)).1 hidx j hj
      have hpl : ((idx.take (tl.length + 1)).zip (x0 :: tl)).length = tl.length + 1 := by
        simp only [List.length_zip, List.length_take, List.length_cons]; omega
      have := writeAll_getElem?_of_last (List.replicate n (scatterFill B x0 tl))
        ((idx.take (tl.length + 1)).zip (x0 :: tl)) (idx[j]'(by omega))
        (by simpa using hjn) j (by omega) (by simp) (by
          intro j' h' hlt
          simp only [List.getElem_zip, List.getElem_take]
          exact hlast j' (by omega) hlt)
      simpa using this
    · intro k hk hnot
      rw [writeAll_getElem?_of_not_mem]
      · simp [hk]
      · intro p hp
        obtain ⟨j, hj, rfl⟩ := List.getElem_of_mem hp
        have hj' : j < tl.length + 1 := by
          simp only [List.length_zip, List.length_take, List.length_cons] at hj; omega
        simp only [List.getElem_zip, List.getElem_take]
        exact hnot j hj'

/-! ### scatterAssign / scatterAssignConstant -/

theorem scatterAssign_ok (self : List α) (ixs : List Nat) (values : List α)
    (h : ∀ p ∈ ixs.zip values, p.1 < self.length) :
    scatterAssign self ixs values = .ok (writeAll self (ixs.zip values)) := by
  unfold scatterAssign
  simp only
  rw [if_pos]
  simpa using h

theorem scatterAssign_panic (self : List α) (ixs : List Nat) (values : List α)
    (h : ¬ ∀ p ∈ ixs.zip values, p.1 < self.length) :
    scatterAssign self ixs values = .panic "scatter_assign:index" := by
  unfold scatterAssign
  simp only
  rw [if_neg]
  intro h'
  apply h
  simpa using h'

theorem lastWrite_map_const (k : Nat) (ixs : List Nat) (c : α) :
    lastWrite k (ixs.map (fun i => (i, c))) = if k ∈ ixs then some c else none := by
  induction ixs with
  | nil => simp [lastWrite_nil]
  | cons i rest ih =>
    rw [List.map_cons, lastWrite_cons, ih]
    by_cases h1 : k ∈ rest
    · simp [h1]
    · by_cases h2 : i = k
      · subst h2; simp [h1]
      · have : ¬ k = i := fun h => h2 h.symm
        simp [h1, h2, this]

theorem scatterAssignConstant_ok (self : List α) (ixs : List Nat) (c : α)
    (h : ∀ i ∈ ixs, i < self.length) :
    scatterAssignConstant self ixs c = .ok (writeAll self (ixs.map (fun i => (i, c)))) := by
  unfold scatterAssignConstant
  rw [if_pos]
  simpa using h

theorem scatterAssignConstant_panic (self : List α) (ixs : List Nat) (c : α)
    (h : ∃ i ∈ ixs, self.length ≤ i) :
    scatterAssignConstant self ixs c = .panic "scatter_assign_constant:index" := by
  unfold scatterAssignConstant
  rw [if_neg]
  simp only [List.all_eq_true, decide_eq_true_eq]
  intro h'
  obtain ⟨i, hi, hle⟩ := h
  exact Nat.lt_irrefl _ (Nat.lt_of_lt_of_le (h' i hi) hle)

theorem writeAll_const_getElem? (self : List α) (ixs : List Nat) (c : α)
    (h : ∀ i ∈ ixs, i < self.length) (k : Nat) :
    (writeAll self (ixs.map (fun i => (i, c))))[k]? = if k ∈ ixs then some c else self[k]? := by
  rw [writeAll_getElem?, lastWrite_map_const]
  by_cases hk : k ∈ ixs
  · simp [hk, h k hk]
  · simp only [if_neg hk, Option.none_or]
    split
    · rfl
    · exact (List.getElem?_eq_none (by omega)).symm

/-! ### scatterSubAssign -/

/-- the total subtracted from position `k`: `Σ { rhs[i] | i < ixs.length, ixs[i] = k }` -/
def subTotal (k : Nat) (ixs rhs : List Nat) : Nat :=
  (((ixs.zip rhs).filter (fun p => p.1 == k)).map (·.2)).sum

theorem subTotal_nil (k : Nat) (rhs : List Nat) : subTotal k [] rhs = 0 := by
  simp [subTotal]

theorem subTotal_cons (k i r : Nat) (ixs rhs : List Nat) :
    subTotal k (i :: ixs) (r :: rhs) = (if i = k then r else 0) + subTotal k ixs rhs := by
  unfold subTotal
  by_cases h : i = k <;> simp [h]

theorem subTotal_eq_zero (k : Nat) (ixs rhs : List Nat) (h : ∀ i ∈ ixs, i ≠ k) :
    subTotal k ixs rhs = 0 := by
  induction ixs generalizing rhs with
  | nil => exact subTotal_nil k rhs
  | cons i ixs ih =>
    cases rhs with
    | nil => simp [subTotal]
    | cons r rhs =>
      rw [subTotal_cons, if_neg (h i (by simp)), ih rhs (fun j hj => h j (by simp [hj]))]

theorem scatterSubAssign_nil (self rhs : List Nat) : scatterSubAssign self [] rhs = .ok self := by
  unfold scatterSubAssign; rfl

theorem scatterSubAssign_cons_nil (self : List Nat) (i : Nat) (ixs : List Nat) :
    scatterSubAssign self (i :: ixs) [] = .panic "scatter_sub_assign:rhs-index" := by
  unfold scatterSubAssign; rfl

theorem scatterSubAssign_cons_cons (self : List Nat) (i : Nat) (ixs : List Nat) (r : Nat)
    (rhs : List Nat) :
    scatterSubAssign self (i :: ixs) (r :: rhs) =
      match self[i]? with
      | Option.none => .panic "scatter_sub_assign:index"
      | some v =>
        if r ≤ v then scatterSubAssign (self.set i (v - r)) ixs rhs
        else .panic "scatter_sub_assign:underflow" := by
  rw [scatterSubAssign]
  cases self[i]? <;> rfl

theorem scatterSubAssign_ne_none (self ixs rhs : List Nat) :
    scatterSubAssign self ixs rhs ≠ .none := by
  induction ixs generalizing self rhs with
  | nil => rw [scatterSubAssign_nil]; intro h; cases h
  | cons i ixs ih =>
    cases rhs with
    | nil => rw [scatterSubAssign_cons_nil]; intro h; cases h
    | cons r rhs =>
      rw [scatterSubAssign_cons_cons]
      cases self[i]? with
      | none => intro h; cases h
      | some v =>
        simp only
        split
        · exact ih _ _
        · intro h; cases h

theorem scatterSubAssign_sound (self ixs rhs r : List Nat)
    (h : scatterSubAssign self ixs rhs = .ok r) :
    ixs.length ≤ rhs.length ∧ (∀ i ∈ ixs, i < self.length) ∧ r.length = self.length ∧
      ∀ k v, self[k]? = some v → ∃ w, r[k]? = some w ∧ w + subTotal k ixs rhs = v := by
  induction ixs generalizing self rhs with
  | nil =>
    rw [scatterSubAssign_nil] at h
    injection h with h
    subst h
    refine ⟨by simp, by simp, rfl, ?_⟩
    intro k v hv
    exact ⟨v, hv, by rw [subTotal_nil]; rfl⟩
  | cons i ixs ih =>
    cases rhs with
    | nil => rw [scatterSubAssign_cons_nil] at h; cases h
    | cons x rhs =>
      rw [scatterSubAssign_cons_cons] at h
      cases hi : self[i]? with
      | none => rw [hi] at h; cases h
      | some v =>
        rw [hi] at h
        simp only at h
        by_cases hxv : x ≤ v
        · rw [if_pos hxv] at h
          obtain ⟨h1, h2, h3, h4⟩ := ih _ _ h
          have hil : i < self.length := by
            apply Classical.byContradiction
            intro hn
            rw [List.getElem?_eq_none (by omega)] at hi
            cases hi
          rw [List.length_set] at h2 h3
          refine ⟨by simp only [List.length_cons]; omega, ?_, h3, ?_⟩
          · intro j hj
            rcases List.mem_cons.1 hj with rfl | hj
            · exact hil
            · exact h2 j hj
          · intro k w hw
            rw [subTotal_cons]
            by_cases hik : i = k
            · subst hik
              rw [hi] at hw
              injection hw with hw
              subst hw
              obtain ⟨w, hw1, hw2⟩ := h4 i (v - x) (by simp [hil])
              exact ⟨w, hw1, by rw [if_pos rfl]; omega⟩
            · obtain ⟨w', hw1, hw2⟩ := h4 k w (by rw [List.getElem?_set_ne hik]; exact hw)
              exact ⟨w', hw1, by rw [if_neg hik]; omega⟩
        · rw [if_neg hxv] at h; cases h

theorem scatterSubAssign_complete (self ixs rhs : List Nat)
    (hlen : ixs.length ≤ rhs.length) (hidx : ∀ i ∈ ixs, i < self.length)
    (hle : ∀ k v, self[k]? = some v → subTotal k ixs rhs ≤ v) :
    ∃ r, scatterSubAssign self ixs rhs = .ok r := by
  induction ixs generalizing self rhs with
  | nil => exact ⟨self, scatterSubAssign_nil self rhs⟩
  | cons i ixs ih =>
    cases rhs with
    | nil => simp at hlen
    | cons x rhs =>
      have hil : i < self.length := hidx i (by simp)
      have hi : self[i]? = some self[i] := List.getElem?_eq_getElem hil
      have hx := hle i _ hi
      rw [subTotal_cons, if_pos rfl] at hx
      rw [scatterSubAssign_cons_cons, hi]
      simp only
      rw [if_pos (by omega)]
      apply ih
      · simpa using hlen
      · intro j hj
        rw [List.length_set]
        exact hidx j (by simp [hj])
      · intro k v hv
        by_cases hik : i = k
        · subst hik
          rw [List.getElem?_set_self hil] at hv
          injection hv with hv
          omega
        · rw [List.getElem?_set_ne hik] at hv
          have := hle k v hv
          rw [subTotal_cons, if_neg hik] at this
          omega

/-! ### arange / cumulativeSum / sum -/

theorem arange_ok (start stop : Nat) (h : start ≤ stop) :
    arange start stop = .ok (List.range' start (stop - start)) := by
  simp [arange, h]

theorem arange_panic (start stop : Nat) (h : stop < start) :
    arange start stop = .panic "arange:assert" := by
  simp [arange, Nat.not_le.2 h]

theorem range'_getElem?_of_lt (start n k : Nat) (hk : k < n) :
    (List.range' start n)[k]? = some (start + k) := by
  rw [List.getElem?_range' hk, Nat.one_mul]

theorem cumsumFrom_length (a : Nat) (xs : List Nat) : (cumsumFrom a xs).length = xs.length + 1 := by
  induction xs generalizing a with
  | nil => rfl
  | cons x xs ih => simp [cumsumFrom, ih]

theorem cumsumFrom_getElem? (a : Nat) (xs : List Nat) (k : Nat) (hk : k ≤ xs.length) :
    (cumsumFrom a xs)[k]? = some (a + (xs.take k).sum) := by
  induction xs generalizing a k with
  | nil =>
    have : k = 0 := by simpa using hk
    subst this; simp [cumsumFrom]
  | cons x xs ih =>
    cases k with
    | zero => simp [cumsumFrom]
    | succ k =>
      simp only [cumsumFrom, List.getElem?_cons_succ, List.take_succ_cons, List.sum_cons]
      rw [ih (a + x) k (by simpa using hk)]
      congr 1; omega

theorem cumulativeSum_length (xs : List Nat) : (cumulativeSum xs).length = xs.length + 1 :=
  cumsumFrom_length 0 xs

theorem cumulativeSum_getElem? (xs : List Nat) (k : Nat) (hk : k ≤ xs.length) :
    (cumulativeSum xs)[k]? = some ((xs.take k).sum) := by
  rw [cumulativeSum, cumsumFrom_getElem? 0 xs k hk, Nat.zero_add]

theorem cumulativeSum_getElem?_none (xs : List Nat) (k : Nat) (hk : xs.length < k) :
    (cumulativeSum xs)[k]? = none :=
  List.getElem?_eq_none (by rw [cumulativeSum_length]; omega)

theorem sum_eq (xs : List Nat) : Prim.sum xs = xs.sum := by
  rw [Prim.sum, List.sum_eq_foldl]

/-! ### repeat -/

theorem repeatP_eq (counts : List Nat) (x : List α) :
    repeatP counts x = (List.zipWith List.replicate counts x).flatten := by
  induction counts generalizing x with
  | nil => simp [repeatP]
  | cons k ks ih =>
    cases x with
    | nil => simp [repeatP]
    | cons a x => simp [repeatP, ih]

theorem repeatP_length (counts : List Nat) (x : List α) (h : counts.length = x.length) :
    (repeatP counts x).length = counts.sum := by
  induction counts generalizing x with
  | nil => simp [repeatP]
  | cons k ks ih =>
    cases x with
    | nil => simp at h
    | cons a x => simp [repeatP, ih x (by simpa using h)]

theorem repeat_ok (counts : List Nat) (x : List α) (h : counts.length = x.length) :
    «repeat» counts x = .ok ((List.zipWith List.replicate counts x).flatten) := by
  rw [«repeat», if_pos h, repeatP_eq]

theorem repeat_panic (counts : List Nat) (x : List α) (h : counts.length ≠ x.length) :
    «repeat» counts x = .panic "repeat:assert-len" := by
  rw [«repeat», if_neg h]

/-! ### quotRem / mulConstantAdd / add -/

theorem quotRem_ok (xs : List Nat) (d : Nat) (h : d ≠ 0) :
    quotRem xs d = .ok (xs.map (· / d), xs.map (· % d)) := by
  rw [quotRem, if_pos h]

theorem quotRem_panic (xs : List Nat) : quotRem xs 0 = .panic "quot_rem:assert" := by
  simp [quotRem]

theorem mulConstantAdd_ok (xs : List Nat) (c : Nat) (ys : List Nat) (h : xs.length = ys.length) :
    mulConstantAdd xs c ys = .ok (List.zipWith (fun s x => s * c + x) xs ys) := by
  rw [mulConstantAdd, if_pos h]

theorem mulConstantAdd_panic (xs : List Nat) (c : Nat) (ys : List Nat)
    (h : xs.length ≠ ys.length) :
    mulConstantAdd xs c ys = .panic "mul_constant_add:assert-len" := by
  rw [mulConstantAdd, if_neg h]

theorem add_ok (xs ys : List Nat) (h : xs.length = ys.length) :
    add xs ys = .ok (List.zipWith (· + ·) xs ys) := by
  rw [add, if_pos h]

theorem add_panic (xs ys : List Nat) (h : xs.length ≠ ys.length) :
    add xs ys = .panic "add:assert-len" := by
  rw [add, if_neg h]

/-! ### sub -/

theorem subP_ok (xs ys : List Nat) (h : ∀ p ∈ xs.zip ys, p.2 ≤ p.1) :
    subP xs ys = .ok (List.zipWith (· - ·) xs ys) := by
  induction xs generalizing ys with
  | nil => simp [subP]
  | cons x xs ih =>
    cases ys with
    | nil => simp [subP]
    | cons y ys =>
      have hxy : y ≤ x := h (x, y) (by simp)
      rw [subP, if_pos hxy, ih ys (fun p hp => h p (by simp [hp]))]
      rfl

theorem subP_panic (xs ys : List Nat) (h : ∃ p ∈ xs.zip ys, p.1 < p.2) :
    subP xs ys = .panic "sub:underflow" := by
  induction xs generalizing ys with
  | nil => simp at h
  | cons x xs ih =>
    cases ys with
    | nil => simp at h
    | cons y ys =>
      rw [subP]
      by_cases hxy : y ≤ x
      · rw [if_pos hxy, ih ys]
        · rfl
        · obtain ⟨p, hp, hlt⟩ := h
          simp only [List.zip_cons_cons, List.mem_cons] at hp
          rcases hp with rfl | hp
          · simp only at hlt; omega
          · exact ⟨p, hp, hlt⟩
      · rw [if_neg hxy]

theorem forall_mem_zip_iff (xs ys : List Nat) (P : Nat → Nat → Prop) :
    (∀ p ∈ xs.zip ys, P p.1 p.2) ↔
      ∀ k (h1 : k < xs.length) (h2 : k < ys.length), P xs[k] ys[k] := by
  constructor
  · intro h k h1 h2
    have : (xs[k], ys[k]) ∈ xs.zip ys := by
      rw [List.mem_iff_getElem]
      exact ⟨k, by simp only [List.length_zip]; omega, by simp⟩
    exact h _ this
  · intro h p hp
    obtain ⟨k, hk, rfl⟩ := List.getElem_of_mem hp
    simp only [List.length_zip] at hk
    simp only [List.getElem_zip]
    exact h k (by omega) (by omega)

theorem sub_ok (xs ys : List Nat) (hlen : xs.length = ys.length)
    (h : ∀ k (h1 : k < xs.length) (h2 : k < ys.length), ys[k] ≤ xs[k]) :
    sub xs ys = .ok (List.zipWith (· - ·) xs ys) := by
  rw [sub, if_pos hlen]
  exact subP_ok xs ys ((forall_mem_zip_iff xs ys (fun a b => b ≤ a)).2 h)

theorem sub_panic_len (xs ys : List Nat) (hlen : xs.length ≠ ys.length) :
    sub xs ys = .panic "sub:assert-len" := by
  rw [sub, if_neg hlen]

theorem sub_panic_underflow (xs ys : List Nat) (hlen : xs.length = ys.length)
    (h : ∃ k, ∃ (h1 : k < xs.length) (h2 : k < ys.length), xs[k] < ys[k]) :
    sub xs ys = .panic "sub:underflow" := by
  rw [sub, if_pos hlen]
  apply subP_panic
  obtain ⟨k, h1, h2, hlt⟩ := h
  refine ⟨(xs[k], ys[k]), ?_, hlt⟩
  rw [List.mem_iff_getElem]
  exact ⟨k, by simp only [List.length_zip]; omega, by simp⟩

theorem sub_ok_iff (xs ys r : List Nat) :
    sub xs ys = .ok r ↔
      xs.length = ys.length ∧
      (∀ k (h1 : k < xs.length) (h2 : k < ys.length), ys[k] ≤ xs[k]) ∧
      r = List.zipWith (· - ·) xs ys := by
  constructor
  · intro h
    by_cases hlen : xs.length = ys.length
    · by_cases hle : ∀ k (h1 : k < xs.length) (h2 : k < ys.length), ys[k] ≤ xs[k]
      · rw [sub_ok xs ys hlen hle] at h
        injection h with h
        exact ⟨hlen, hle, h.symm⟩
      · rw [sub_panic_underflow xs ys hlen] at h
        · cases h
        · apply Classical.byContradiction
          intro hn
          apply hle
          intro k h1 h2
          apply Classical.byContradiction
          intro hlt
          exact hn ⟨k, h1, h2, by omega⟩
    · rw [sub_panic_len xs ys hlen] at h; cases h
  · rintro ⟨hlen, hle, rfl⟩
    exact sub_ok xs ys hlen hle

/-! ### bincount / zero / max -/

theorem bincount_ok (xs : List Nat) (size : Nat) (h : ∀ i ∈ xs, i < size) :
    bincount xs size = .ok ((List.range size).map (fun v => xs.count v)) := by
  rw [bincount, if_pos]
  simpa using h

theorem bincount_panic (xs : List Nat) (size : Nat) (h : ∃ i ∈ xs, size ≤ i) :
    bincount xs size = .panic "bincount:index" := by
  rw [bincount, if_neg]
  simp only [List.all_eq_true, decide_eq_true_eq]
  intro h'
  obtain ⟨i, hi, hle⟩ := h
  exact Nat.lt_irrefl _ (Nat.lt_of_lt_of_le (h' i hi) hle)

theorem bincount_getElem? (xs : List Nat) (size v : Nat) (hv : v < size) :
    ((List.range size).map (fun v => xs.count v))[v]? = some (xs.count v) := by
  simp [List.getElem?_map, List.getElem?_range hv]

theorem mem_zeroFrom (a : Nat) (xs : List Nat) (i : Nat) :
    i ∈ zeroFrom a xs ↔ a ≤ i ∧ xs[i - a]? = some 0 := by
  induction xs generalizing a with
  | nil => simp [zeroFrom]
  | cons x xs ih =>
    unfold zeroFrom
    by_cases hx : x = 0
    · rw [if_pos hx, List.mem_cons, ih]
      constructor
      · rintro (rfl | ⟨h1, h2⟩)
        · simp [hx]
        · refine ⟨by omega, ?_⟩
          have : i - a = (i - (a + 1)) + 1 := by omega
          rw [this, List.getElem?_cons_succ]; exact h2
      · rintro ⟨h1, h2⟩
        by_cases hia : i = a
        · exact Or.inl hia
        · refine Or.inr ⟨by omega, ?_⟩
          have : i - a = (i - (a + 1)) + 1 := by omega
          rw [this, List.getElem?_cons_succ] at h2; exact h2
    · rw [if_neg hx, ih]
      constructor
      · rintro ⟨h1, h2⟩
        refine ⟨by omega, ?_⟩
        have : i - a = (i - (a + 1)) + 1 := by omega
        rw [this, List.getElem?_cons_succ]; exact h2
      · rintro ⟨h1, h2⟩
        have hia : i ≠ a := by
          rintro rfl
          simp at h2; exact hx h2
        refine ⟨by omega, ?_⟩
        have : i - a = (i - (a + 1)) + 1 := by omega
        rw [this, List.getElem?_cons_succ] at h2; exact h2

theorem zeroFrom_pairwise (a : Nat) (xs : List Nat) : (zeroFrom a xs).Pairwise (· < ·) := by
  induction xs generalizing a with
  | nil => simp [zeroFrom]
  | cons x xs ih =>
    unfold zeroFrom
    split
    · rw [List.pairwise_cons]
      refine ⟨?_, ih (a + 1)⟩
      intro j hj
      have := ((mem_zeroFrom (a + 1) xs j).1 hj).1
      omega
    · exact ih (a + 1)

theorem mem_zero (xs : List Nat) (i : Nat) : i ∈ zero xs ↔ xs[i]? = some 0 := by
  rw [zero, mem_zeroFrom]; simp

theorem zero_pairwise (xs : List Nat) : (zero xs).Pairwise (· < ·) := zeroFrom_pairwise 0 xs

theorem foldl_max_spec (xs : List Nat) (a : Nat) :
    (xs.foldl Nat.max a = a ∨ xs.foldl Nat.max a ∈ xs) ∧ a ≤ xs.foldl Nat.max a ∧
      ∀ x ∈ xs, x ≤ xs.foldl Nat.max a := by
  induction xs generalizing a with
  | nil => simp
  | cons y ys ih =>
    obtain ⟨h1, h2, h3⟩ := ih (Nat.max a y)
    simp only [List.foldl_cons]
    have hmax : Nat.max a y = a ∨ Nat.max a y = y := by
      show Max.max a y = a ∨ Max.max a y = y
      omega
    have ha : a ≤ Nat.max a y := Nat.le_max_left a y
    have hy : y ≤ Nat.max a y := Nat.le_max_right a y
    refine ⟨?_, by omega, ?_⟩
    · rcases h1 with h1 | h1
      · rcases hmax with hm | hm
        · left; rw [h1, hm]
        · right; rw [h1, hm]; simp
      · right; exact List.mem_cons_of_mem _ h1
    · intro x hx
      rcases List.mem_cons.1 hx with rfl | hx
      · omega
      · exact h3 x hx

theorem max_eq_none_iff (xs : List Nat) : Prim.max xs = none ↔ xs = [] := by
  cases xs <;> simp [Prim.max]

theorem max_eq_some (xs : List Nat) (m : Nat) (h : Prim.max xs = some m) :
    m ∈ xs ∧ ∀ x ∈ xs, x ≤ m := by
  cases xs with
  | nil => simp [Prim.max] at h
  | cons a ys =>
    simp only [Prim.max, Option.some.injEq] at h
    subst h
    obtain ⟨h1, h2, h3⟩ := foldl_max_spec ys a
    constructor
    · rcases h1 with h1 | h1
      · rw [h1]; simp
      · exact List.mem_cons_of_mem _ h1
    · intro x hx
      rcases List.mem_cons.1 hx with rfl | hx
      · exact h2
      · exact h3 x hx

/-! ### segmentedSum -/

theorem sum_take_add (x : List Nat) (p s : Nat) :
    (x.take (p + s)).sum = (x.take p).sum + ((x.drop p).take s).sum := by
  rw [List.take_add, List.sum_append]

theorem sum_take_mono (l : List Nat) {k k' : Nat} (h : k ≤ k') :
    (l.take k).sum ≤ (l.take k').sum := by
  obtain ⟨d, rfl⟩ : ∃ d, k' = k + d := ⟨k' - k, by omega⟩
  rw [sum_take_add]; omega

theorem sum_take_le (l : List Nat) (k : Nat) : (l.take k).sum ≤ l.sum := by
  have := sum_take_mono l (Nat.le_max_left k l.length)
  rwa [List.take_of_length_le (Nat.le_max_right k l.length)] at this

theorem sum_take_succ (l : List Nat) (k : Nat) (hk : k < l.length) :
    (l.take (k + 1)).sum = (l.take k).sum + l[k] := by
  rw [List.take_add_one, List.sum_append, List.getElem?_eq_getElem hk]
  simp

theorem getRange_from_one_cumulativeSum (sizes : List Nat) :
    getRange (cumulativeSum sizes) (.from 1) =
      .ok ((List.range sizes.length).map (fun k => (sizes.take (k + 1)).sum)) := by
  rw [getRange_eq]
  simp only [toRange, cumulativeSum_length]
  rw [slice_ok _ _ _ (by rw [cumulativeSum_length]; omega)]
  congr 1
  apply List.ext_getElem?
  intro k
  rw [List.getElem?_take, List.getElem?_drop, List.getElem?_map]
  by_cases hk : k < sizes.length
  · rw [if_pos (by omega), cumulativeSum_getElem? _ _ (by omega), List.getElem?_range hk,
      Nat.add_comm 1 k]
    rfl
  · rw [if_neg (by omega), List.getElem?_eq_none (by simpa using Nat.le_of_not_lt hk)]
    rfl

theorem getRange_to_cumulativeSum (sizes : List Nat) :
    getRange (cumulativeSum sizes) (.to sizes.length) =
      .ok ((List.range sizes.length).map (fun k => (sizes.take k).sum)) := by
  rw [getRange_eq]
  simp only [toRange]
  rw [slice_ok _ _ _ (by rw [cumulativeSum_length]; omega)]
  congr 1
  apply List.ext_getElem?
  intro k
  rw [List.getElem?_take, List.getElem?_drop, List.getElem?_map]
  by_cases hk : k < sizes.length
  · rw [if_pos (by omega), cumulativeSum_getElem? _ _ (by omega), List.getElem?_range hk,
      Nat.zero_add]
    rfl
  · rw [if_neg (by omega), List.getElem?_eq_none (by simpa using Nat.le_of_not_lt hk)]
    rfl

theorem gatherP_map_of {β : Type} (s : List α) (l : List β) (f : β → Nat) (g : β → α)
    (h : ∀ k ∈ l, s[f k]? = some (g k)) : gatherP s (l.map f) = l.map g := by
  induction l with
  | nil => rfl
  | cons a l ih =>
    have ih' := ih (fun k hk => h k (by simp [hk]))
    simp only [gatherP] at ih' ⊢
    simp [h a (by simp), ih']

theorem subP_map_of {β : Type} (l : List β) (g1 g2 : β → Nat) (h : ∀ k ∈ l, g2 k ≤ g1 k) :
    subP (l.map g1) (l.map g2) = .ok (l.map (fun k => g1 k - g2 k)) := by
  induction l with
  | nil => rfl
  | cons a l ih =>
    simp only [List.map_cons]
    rw [subP, if_pos (h a (by simp)), ih (fun k hk => h k (by simp [hk]))]
    rfl

/-- the sum of the `k`-th consecutive segment of `x` (segment lengths `sizes`) -/
def segSum (sizes x : List Nat) (k : Nat) : Nat :=
  ((x.drop (sizes.take k).sum).take (sizes.getD k 0)).sum

theorem segmentedSum_ok (sizes x : List Nat) (h : sizes.sum ≤ x.length) :
    segmentedSum sizes x = .ok ((List.range sizes.length).map (segSum sizes x)) := by
  unfold segmentedSum
  simp only [cumulativeSum_length, Nat.add_sub_cancel, getRange_from_one_cumulativeSum,
    getRange_to_cumulativeSum, Res.ok_bind]
  have hin : ∀ k, (sizes.take k).sum ≤ x.length := fun k => Nat.le_trans (sum_take_le sizes k) h
  have hmem1 : ∀ i ∈ (List.range sizes.length).map (fun k => (sizes.take (k + 1)).sum),
      i < (cumulativeSum x).length := by
    intro i hi
    obtain ⟨k, _, rfl⟩ := List.mem_map.1 hi
    rw [cumulativeSum_length]; have := hin (k + 1); omega
  have hmem2 : ∀ i ∈ (List.range sizes.length).map (fun k => (sizes.take k).sum),
      i < (cumulativeSum x).length := by
    intro i hi
    obtain ⟨k, _, rfl⟩ := List.mem_map.1 hi
    rw [cumulativeSum_length]; have := hin k; omega
  rw [gather_ok _ _ hmem1, gather_ok _ _ hmem2]
  simp only [Res.ok_bind]
  rw [gatherP_map_of (cumulativeSum x) _ _ (fun k => (x.take (sizes.take (k + 1)).sum).sum)
      (fun k _ => cumulativeSum_getElem? x _ (hin (k + 1))),
    gatherP_map_of (cumulativeSum x) _ _ (fun k => (x.take (sizes.take k).sum).sum)
      (fun k _ => cumulativeSum_getElem? x _ (hin k))]
  rw [sub, if_pos (by simp), subP_map_of]
  · congr 1
    apply List.map_congr_left
    intro k hk
    have hk' : k < sizes.length := List.mem_range.1 hk
    rw [segSum, sum_take_succ sizes k hk', sum_take_add, Nat.add_sub_cancel_left,
      List.getD_eq_getElem?_getD, List.getElem?_eq_getElem hk']
    rfl
  · intro k _
    exact sum_take_mono x (sum_take_mono sizes (Nat.le_succ k))

theorem segmentedSum_panic (sizes x : List Nat) (h : x.length < sizes.sum) :
    segmentedSum sizes x = .panic "gather:index" := by
  unfold segmentedSum
  simp only [cumulativeSum_length, Nat.add_sub_cancel, getRange_from_one_cumulativeSum,
    getRange_to_cumulativeSum, Res.ok_bind]
  rw [gather_panic]
  · rfl
  · refine ⟨sizes.sum, ?_, by rw [cumulativeSum_length]; omega⟩
    have hne : 0 < sizes.length := by
      cases sizes with
      | nil => simp at h
      | cons _ _ => simp
    rw [List.mem_map]
    refine ⟨sizes.length - 1, List.mem_range.2 (by omega), ?_⟩
    rw [List.take_of_length_le (by omega)]

/-! ### segmentedArange -/

theorem zipWith_sub_range'_replicate (a s : Nat) :
    List.zipWith (· - ·) (List.range' a s) (List.replicate s a) = List.range s := by
  apply List.ext_getElem
  · simp
  · intro k h1 h2
    simp

theorem zip_range'_replicate_le (a s : Nat) :
    ∀ p ∈ (List.range' a s).zip (List.replicate s a), p.2 ≤ p.1 := by
  intro p hp
  have := List.of_mem_zip (a := p.1) (b := p.2) hp
  have h1 := List.mem_range'_1.1 this.1
  have h2 := (List.mem_replicate.1 this.2).2
  omega

theorem repeatP_cons_cons (k : Nat) (ks : List Nat) (a : α) (x : List α) :
    repeatP (k :: ks) (a :: x) = List.replicate k a ++ repeatP ks x := rfl

theorem segArange_aux (sizes : List Nat) (a : Nat) :
    (∀ p ∈ (List.range' a sizes.sum).zip
        (repeatP sizes ((cumsumFrom a sizes).take sizes.length)), p.2 ≤ p.1) ∧
    List.zipWith (· - ·) (List.range' a sizes.sum)
        (repeatP sizes ((cumsumFrom a sizes).take sizes.length)) =
      (sizes.map List.range).flatten := by
  induction sizes generalizing a with
  | nil => simp [repeatP]
  | cons s rest ih =>
    obtain ⟨ih1, ih2⟩ := ih (a + s)
    have hlen : (List.range' a s).length = (List.replicate s a).length := by simp
    have hsplit : List.range' a (s + rest.sum) = List.range' a s ++ List.range' (a + s) rest.sum := by
      rw [← List.range'_append]; simp
    simp only [cumsumFrom, List.length_cons, List.take_succ_cons, repeatP_cons_cons,
      List.sum_cons, List.map_cons, List.flatten_cons]
    rw [hsplit]
    constructor
    · rw [List.zip_append hlen]
      intro p hp
      rcases List.mem_append.1 hp with hp | hp
      · exact zip_range'_replicate_le a s p hp
      · exact ih1 p hp
    · rw [List.zipWith_append hlen, zipWith_sub_range'_replicate, ih2]

theorem repeat_ok' (counts : List Nat) (x : List α) (h : counts.length = x.length) :
    «repeat» counts x = .ok (repeatP counts x) := by
  unfold «repeat»; rw [if_pos h]

theorem segmentedArange_ok (sizes : List Nat) :
    segmentedArange sizes = .ok ((sizes.map List.range).flatten) := by
  unfold segmentedArange
  have hget : get (cumulativeSum sizes) sizes.length = .ok sizes.sum := by
    have := cumulativeSum_getElem? sizes sizes.length (Nat.le_refl _)
    rw [List.take_of_length_le (Nat.le_refl _)] at this
    simp [get, this, Res.ofOption]
  have hpfx : getRange (cumulativeSum sizes) (.to sizes.length) =
      .ok ((cumsumFrom 0 sizes).take sizes.length) := by
    rw [getRange_eq]
    simp only [toRange]
    rw [slice_ok _ _ _ (by rw [cumulativeSum_length]; omega)]
    simp [cumulativeSum]
  have hplen : ((cumsumFrom 0 sizes).take sizes.length).length = sizes.length := by
    rw [List.length_take, cumsumFrom_length]; omega
  simp only [cumulativeSum_length, checkedSub, Nat.add_sub_cancel]
  rw [if_pos (by omega)]
  simp only [Res.ok_bind, hget, hpfx, repeat_ok' _ _ hplen.symm, arange_ok 0 _ (Nat.zero_le _),
    Nat.sub_zero]
  obtain ⟨h1, h2⟩ := segArange_aux sizes 0
  rw [sub, if_pos (by rw [repeatP_length _ _ hplen.symm]; simp), subP_ok _ _ h1, h2]

/-! ### sortBy -/

theorem gatherP_range (xs : List α) : gatherP xs (List.range xs.length) = xs := by
  have hin : ∀ i ∈ List.range xs.length, i < xs.length := fun i hi => List.mem_range.1 hi
  apply List.ext_getElem?
  intro k
  by_cases hk : k < xs.length
  · rw [gatherP_getElem? xs _ hin k (by simpa using hk)]
    simp
  · rw [List.getElem?_eq_none (by rw [gatherP_length xs _ hin]; simpa using Nat.le_of_not_lt hk),
      List.getElem?_eq_none (Nat.le_of_not_lt hk)]

theorem sortBy_ok (B : Backend) (xs : List α) (key : List Nat)
    (hperm : (B.argsort key).Perm (List.range key.length)) (hlen : xs.length = key.length) :
    sortBy B xs key = .ok (gatherP xs (B.argsort key)) ∧ (gatherP xs (B.argsort key)).Perm xs := by
  constructor
  · rw [sortBy, argsort, gather_ok]
    intro i hi
    have := List.mem_range.1 (hperm.mem_iff.1 hi)
    omega
  · have := hperm.filterMap (fun i => xs[i]?)
    rw [← hlen] at this
    have h2 := gatherP_range xs
    unfold gatherP at h2 ⊢
    rwa [h2] at this

/-! ### bundled forms used by the headline theorems -/

theorem zipWith_getElem?_of_lt {β γ : Type} (f : α → β → γ) (xs : List α) (ys : List β) (k : Nat)
    (h1 : k < xs.length) (h2 : k < ys.length) :
    (List.zipWith f xs ys)[k]? = some (f xs[k] ys[k]) := by
  rw [List.getElem?_eq_getElem (by simp only [List.length_zipWith]; omega), List.getElem_zipWith]

theorem getRange_spec_of (xs : List α) (r : RangeForm) (a b : Nat)
    (hab : toRange xs.length r = (a, b)) :
    (a ≤ b ∧ b ≤ xs.length →
      getRange xs r = .ok ((xs.drop a).take (b - a)) ∧
      ((xs.drop a).take (b - a)).length = b - a ∧
      ∀ k, k < b - a → ((xs.drop a).take (b - a))[k]? = xs[a + k]?) ∧
    (¬ (a ≤ b ∧ b ≤ xs.length) → getRange xs r = .panic "slice:range") := by
  rw [getRange_eq, hab]
  exact ⟨fun h => ⟨slice_ok xs a b h, slice_length xs a b h, fun k hk => slice_getElem? xs a b k hk⟩,
    slice_panic xs a b⟩

theorem setRange_spec_of (xs : List α) (r : RangeForm) (v : List α) (a b : Nat)
    (hab : toRange xs.length r = (a, b)) :
    (a ≤ b ∧ b ≤ xs.length → v.length = b - a →
      setRange xs r v = .ok (xs.take a ++ v ++ xs.drop b) ∧
      (xs.take a ++ v ++ xs.drop b).length = xs.length ∧
      ∀ k, (xs.take a ++ v ++ xs.drop b)[k]? = if a ≤ k ∧ k < b then v[k - a]? else xs[k]?) ∧
    (¬ (a ≤ b ∧ b ≤ xs.length) → setRange xs r v = .panic "set_range:range") ∧
    (a ≤ b ∧ b ≤ xs.length → v.length ≠ b - a → setRange xs r v = .panic "set_range:len") := by
  have ha : (toRange xs.length r).1 = a := by rw [hab]
  have hb : (toRange xs.length r).2 = b := by rw [hab]
  refine ⟨fun h hv => ⟨?_, splice_length xs v a b h hv, splice_getElem? xs v a b h hv⟩, ?_, ?_⟩
  · have := setRange_ok xs r v (by rw [ha, hb]; exact h) (by rw [ha, hb]; exact hv)
    rwa [ha, hb] at this
  · intro h
    exact setRange_panic_range xs r v (by rw [ha, hb]; exact h)
  · intro h hv
    exact setRange_panic_len xs r v (by rw [ha, hb]; exact h) (by rw [ha, hb]; exact hv)

theorem scatter_panic (B : Backend) (xs : List α) (idx : List Nat) (n : Nat) (hne : xs ≠ [])
    (h : ¬ (xs.length ≤ idx.length ∧ ∀ i ∈ idx.take xs.length, i < n)) :
    scatter B xs idx n = .panic "scatter:index" := by
  cases xs with
  | nil => exact absurd rfl hne
  | cons x0 tl => exact scatter_cons_panic B x0 tl idx n h

theorem scatter_nil_spec (B : Backend) (idx : List Nat) (n : Nat) :
    (idx = [] → scatter B ([] : List α) idx n = .ok []) ∧
    (idx ≠ [] → scatter B ([] : List α) idx n = .panic "scatter:assert-empty") ∧
    (∀ r, scatter B ([] : List α) idx n = .ok r ↔ idx = [] ∧ r = []) := by
  cases idx with
  | nil =>
    refine ⟨fun _ => rfl, fun h' => absurd rfl h', fun r => ⟨?_, ?_⟩⟩
    · intro e
      have e' : Res.ok [] = Res.ok r := e
      injection e' with e'
      exact ⟨rfl, e'.symm⟩
    · rintro ⟨_, rfl⟩; rfl
  | cons i idx =>
    refine ⟨fun h' => (by cases h'), fun _ => rfl, fun r => ⟨?_, ?_⟩⟩
    · intro e
      have e' : Res.panic "scatter:assert-empty" = Res.ok r := e
      cases e'
    · rintro ⟨h', _⟩; cases h'

theorem scatterAssign_ok_spec (self : List α) (ixs : List Nat) (values : List α)
    (h : ∀ p ∈ ixs.zip values, p.1 < self.length) :
    ∃ r, scatterAssign self ixs values = .ok r ∧ r.length = self.length ∧
      (∀ k, r[k]? = if k < self.length then
          (((ixs.zip values).findRev? (fun p => p.1 == k)).map (·.2)).or self[k]? else none) ∧
      (∀ j (h1 : j < ixs.length) (h2 : j < values.length),
        (∀ j' (h1' : j' < ixs.length), j' < values.length → j < j' → ixs[j'] ≠ ixs[j]) →
        r[ixs[j]]? = some values[j]) ∧
      (∀ k, (∀ j (h1 : j < ixs.length), j < values.length → ixs[j] ≠ k) → r[k]? = self[k]?) := by
  refine ⟨_, scatterAssign_ok self ixs values h, writeAll_length _ _,
    fun k => writeAll_getElem? self _ k, ?_, ?_⟩
  · intro j h1 h2 hlast
    have hj : j < (ixs.zip values).length := by simp only [List.length_zip]; omega
    have hmem : (ixs.zip values)[j] ∈ ixs.zip values := List.getElem_mem hj
    have := writeAll_getElem?_of_last self (ixs.zip values) ixs[j]
      (by simpa using h _ hmem) j hj (by simp) (by
        intro j' h' hlt
        simp only [List.length_zip] at h'
        simp only [List.getElem_zip]
        exact hlast j' (by omega) (by omega) hlt)
    simpa using this
  · intro k hk
    apply writeAll_getElem?_of_not_mem
    intro p hp
    obtain ⟨j, hj, rfl⟩ := List.getElem_of_mem hp
    simp only [List.length_zip] at hj
    simp only [List.getElem_zip]
    exact hk j (by omega) (by omega)

theorem repeat_flatten_length (counts : List Nat) (x : List α) (h : counts.length = x.length) :
    ((List.zipWith List.replicate counts x).flatten).length = counts.sum := by
  rw [← repeatP_eq, repeatP_length counts x h]

theorem segmentedSum_ok_spec (sizes x : List Nat) (h : sizes.sum ≤ x.length) :
    ∃ r, segmentedSum sizes x = .ok r ∧ r.length = sizes.length ∧
      ∀ k (hk : k < sizes.length),
        r[k]? = some (((x.drop (sizes.take k).sum).take sizes[k]).sum) := by
  refine ⟨_, segmentedSum_ok sizes x h, by simp, ?_⟩
  intro k hk
  rw [List.getElem?_map, List.getElem?_range hk]
  simp [segSum, List.getD_eq_getElem?_getD, List.getElem?_eq_getElem hk]

theorem sub_ok_getElem? (xs ys r : List Nat) (h : sub xs ys = .ok r) :
    r.length = xs.length ∧
      ∀ k (h1 : k < xs.length) (h2 : k < ys.length), r[k]? = some (xs[k] - ys[k]) := by
  obtain ⟨hlen, _, rfl⟩ := (sub_ok_iff xs ys r).1 h
  refine ⟨by simp only [List.length_zipWith]; omega, ?_⟩
  intro k h1 h2
  exact zipWith_getElem?_of_lt _ xs ys k h1 h2

theorem sub_panic (xs ys : List Nat)
    (h : ¬ (xs.length = ys.length ∧
      ∀ k (h1 : k < xs.length) (h2 : k < ys.length), ys[k] ≤ xs[k])) :
    ∃ s, sub xs ys = .panic s := by
  by_cases hlen : xs.length = ys.length
  · refine ⟨_, sub_panic_underflow xs ys hlen ?_⟩
    apply Classical.byContradiction
    intro hn
    apply h
    refine ⟨hlen, ?_⟩
    intro k h1 h2
    apply Classical.byContradiction
    intro hlt
    exact hn ⟨k, h1, h2, by omega⟩
  · exact ⟨_, sub_panic_len xs ys hlen⟩

theorem sortBy_ok_spec (B : Backend) (xs : List α) (key : List Nat)
    (hperm : (B.argsort key).Perm (List.range key.length)) (hlen : xs.length = key.length) :
    ∃ r, sortBy B xs key = .ok r ∧ r.Perm xs ∧ r.length = xs.length ∧
      ∀ k (hk : k < (B.argsort key).length), r[k]? = xs[(B.argsort key)[k]]? := by
  obtain ⟨h1, h2⟩ := sortBy_ok B xs key hperm hlen
  have hin : ∀ i ∈ B.argsort key, i < xs.length := by
    intro i hi
    have := List.mem_range.1 (hperm.mem_iff.1 hi)
    omega
  exact ⟨_, h1, h2, h2.length_eq, gatherP_getElem? xs _ hin⟩

end OH.Prim
