/-
  Quotient library for plain diagrams: bijections on initial segments of `Nat` (with a
  choice-free inverse), `Iso` is an equivalence relation (symmetry needs a well-formed left-hand
  side, see `iso_symm_counterexample`), quotient maps of plain diagrams and the kernel-iso theorem
  (two quotient maps out of the same well-formed diagram with the same kernel have isomorphic
  codomains), uniqueness of `IsQuot` / `IsGluing` up to `≅`.
-/
import OHVerif.Spec.Diagram

namespace OH
open Relation

variable {O A : Type}

/-! ### bijections between initial segments -/

theorem BijOn.refl (n : Nat) : BijOn n n (fun i => i) :=
  ⟨fun _ h => h, fun _ _ _ _ h => h, fun k hk => ⟨k, hk, rfl⟩⟩

theorem BijOn.comp {n m k : Nat} {π σ : Nat → Nat} (h1 : BijOn n m π) (h2 : BijOn m k σ) :
    BijOn n k (fun i => σ (π i)) := by
  obtain ⟨a1, b1, c1⟩ := h1
  obtain ⟨a2, b2, c2⟩ := h2
  refine ⟨fun i hi => a2 _ (a1 i hi), ?_, ?_⟩
  · intro i j hi hj h
    exact b1 i j hi hj (b2 _ _ (a1 i hi) (a1 j hj) h)
  · intro c hc
    obtain ⟨b, hb, rfl⟩ := c2 c hc
    obtain ⟨a, ha, rfl⟩ := c1 b hb
    exact ⟨a, ha, rfl⟩

/-- a choice-free section of `π` on `[0,n)`: the least `i < n` with `π i = k` (`0` if none) -/
def invOn (n : Nat) (π : Nat → Nat) (k : Nat) : Nat :=
  ((List.range n).find? (fun i => π i == k)).getD 0

theorem invOn_spec {n : Nat} {π : Nat → Nat} {k : Nat} (h : ∃ i, i < n ∧ π i = k) :
    invOn n π k < n ∧ π (invOn n π k) = k := by
  unfold invOn
  cases hf : (List.range n).find? (fun i => π i == k) with
  | none =>
    obtain ⟨i, hi, hik⟩ := h
    have := List.find?_eq_none.1 hf i (List.mem_range.2 hi)
    simp [hik] at this
  | some i =>
    have h1 := List.mem_of_find?_eq_some hf
    have h2 := List.find?_some hf
    simp only [Option.getD_some]
    exact ⟨List.mem_range.1 h1, by simpa using h2⟩

theorem BijOn.invOn_left {n m : Nat} {π : Nat → Nat} (h : BijOn n m π) (i : Nat) (hi : i < n) :
    invOn n π (π i) = i := by
  have := invOn_spec (n := n) (π := π) (k := π i) ⟨i, hi, rfl⟩
  exact h.2.1 _ _ this.1 hi this.2

theorem BijOn.invOn_right {n m : Nat} {π : Nat → Nat} (h : BijOn n m π) (k : Nat) (hk : k < m) :
    invOn n π k < n ∧ π (invOn n π k) = k :=
  invOn_spec (h.2.2 k hk)

/-- the inverse of a bijection `[0,n) → [0,m)` -/
theorem BijOn.inv {n m : Nat} {π : Nat → Nat} (h : BijOn n m π) : BijOn m n (invOn n π) := by
  refine ⟨fun k hk => (h.invOn_right k hk).1, ?_, ?_⟩
  · intro k l hk hl hkl
    have h1 := (h.invOn_right k hk).2
    have h2 := (h.invOn_right l hl).2
    rw [← h1, ← h2, hkl]
  · intro i hi
    exact ⟨π i, h.1 i hi, h.invOn_left i hi⟩

/-! ### relabelling the nodes of an edge -/

namespace PEdge

@[simp] theorem mapNodes_label (π : Nat → Nat) (e : PEdge A) : (mapNodes π e).label = e.label := rfl
@[simp] theorem mapNodes_src (π : Nat → Nat) (e : PEdge A) : (mapNodes π e).src = e.src.map π := rfl
@[simp] theorem mapNodes_tgt (π : Nat → Nat) (e : PEdge A) : (mapNodes π e).tgt = e.tgt.map π := rfl

theorem mapNodes_id (e : PEdge A) : mapNodes (fun i => i) e = e := by
  cases e; simp [mapNodes]

theorem mapNodes_comp (π σ : Nat → Nat) (e : PEdge A) :
    mapNodes σ (mapNodes π e) = mapNodes (fun i => σ (π i)) e := by
  simp [mapNodes, Function.comp_def]

theorem mapNodes_congr {π σ : Nat → Nat} {e : PEdge A} (hs : ∀ v ∈ e.src, π v = σ v)
    (ht : ∀ v ∈ e.tgt, π v = σ v) : mapNodes π e = mapNodes σ e := by
  simp only [mapNodes, mk.injEq, true_and]
  exact ⟨List.map_congr_left hs, List.map_congr_left ht⟩

end PEdge

/-! ### well-formedness of plain diagrams -/

theorem PDiag.wf_iff (d : PDiag O A) :
    d.wf = true ↔ (∀ i ∈ d.ins, i < d.n) ∧ (∀ i ∈ d.outs, i < d.n) ∧
      ∀ e ∈ d.edges, (∀ v ∈ e.src, v < d.n) ∧ (∀ v ∈ e.tgt, v < d.n) := by
  simp [PDiag.wf, and_assoc]

theorem PDiag.wf_of_map {P Q : PDiag O A} {φ : Nat → Nat} (hP : P.wf = true)
    (hφ : ∀ i, i < P.n → φ i < Q.n)
    (hi : Q.ins = P.ins.map φ) (ho : Q.outs = P.outs.map φ)
    (he : ∀ e' ∈ Q.edges, ∃ e ∈ P.edges, e' = PEdge.mapNodes φ e) : Q.wf = true := by
  obtain ⟨h1, h2, h3⟩ := (PDiag.wf_iff P).1 hP
  refine (PDiag.wf_iff Q).2 ⟨?_, ?_, ?_⟩
  · intro i hi'
    rw [hi] at hi'
    obtain ⟨j, hj, rfl⟩ := List.mem_map.1 hi'
    exact hφ j (h1 j hj)
  · intro i hi'
    rw [ho] at hi'
    obtain ⟨j, hj, rfl⟩ := List.mem_map.1 hi'
    exact hφ j (h2 j hj)
  · intro e' he'
    obtain ⟨e, hem, rfl⟩ := he e' he'
    obtain ⟨hs, ht⟩ := h3 e hem
    constructor
    · intro v hv
      obtain ⟨j, hj, rfl⟩ := List.mem_map.1 hv
      exact hφ j (hs j hj)
    · intro v hv
      obtain ⟨j, hj, rfl⟩ := List.mem_map.1 hv
      exact hφ j (ht j hj)

/-! ### `Iso` is an equivalence relation -/

theorem iso_refl (P : PDiag O A) : P ≅ P := by
  refine ⟨fun i => i, fun e => e, BijOn.refl _, BijOn.refl _, fun _ _ => rfl, ?_, by simp, by simp⟩
  intro e _
  cases P.edges[e]? with
  | none => rfl
  | some x => simp [PEdge.mapNodes_id]

theorem iso_trans {P Q R : PDiag O A} (h1 : P ≅ Q) (h2 : Q ≅ R) : P ≅ R := by
  obtain ⟨π, ρ, bπ, bρ, hn, he, hi, ho⟩ := h1
  obtain ⟨π', ρ', bπ', bρ', hn', he', hi', ho'⟩ := h2
  refine ⟨fun i => π' (π i), fun e => ρ' (ρ e), bπ.comp bπ', bρ.comp bρ', ?_, ?_, ?_, ?_⟩
  · intro i hi
    rw [hn' (π i) (bπ.1 i hi), hn i hi]
  · intro e hl
    rw [he' (ρ e) (bρ.1 e hl), he e hl, Option.map_map]
    congr 1
    funext x
    exact PEdge.mapNodes_comp π π' x
  · rw [hi', hi, List.map_map]; rfl
  · rw [ho', ho, List.map_map]; rfl

/-- isomorphism transports well-formedness -/
theorem Iso.wf {P Q : PDiag O A} (hP : P.wf = true) (h : P ≅ Q) : Q.wf = true := by
  obtain ⟨π, ρ, bπ, bρ, _, he, hi, ho⟩ := h
  refine PDiag.wf_of_map hP bπ.1 hi ho ?_
  intro e' hmem
  obtain ⟨k, hk, rfl⟩ := List.getElem_of_mem hmem
  obtain ⟨e, hel, rfl⟩ := bρ.2.2 k hk
  have := he e hel
  rw [List.getElem?_eq_getElem hk, List.getElem?_eq_getElem hel] at this
  simp only [Option.map_some, Option.some.injEq] at this
  exact ⟨P.edges[e], List.getElem_mem hel, this⟩

/-- symmetry, for a well-formed left-hand side (without well-formedness the node map is
    unconstrained on the out-of-range entries of the interfaces and symmetry fails, see below) -/
theorem iso_symm {P Q : PDiag O A} (hP : P.wf = true) (h : P ≅ Q) : Q ≅ P := by
  obtain ⟨w1, w2, w3⟩ := (PDiag.wf_iff P).1 hP
  obtain ⟨π, ρ, bπ, bρ, hn, he, hi, ho⟩ := h
  refine ⟨invOn P.n π, invOn P.edges.length ρ, bπ.inv, bρ.inv, ?_, ?_, ?_, ?_⟩
  · intro k hk
    obtain ⟨h1, h2⟩ := bπ.invOn_right k hk
    have := hn _ h1
    rw [h2] at this
    exact this.symm
  · intro k hk
    obtain ⟨h1, h2⟩ := bρ.invOn_right k hk
    have := he _ h1
    rw [h2] at this
    rw [this, List.getElem?_eq_getElem h1]
    simp only [Option.map_some, Option.some.injEq]
    rw [PEdge.mapNodes_comp]
    obtain ⟨hs, ht⟩ := w3 _ (List.getElem_mem h1)
    refine (PEdge.mapNodes_id _).symm.trans ?_
    exact PEdge.mapNodes_congr (fun v hv => (bπ.invOn_left v (hs v hv)).symm)
      (fun v hv => (bπ.invOn_left v (ht v hv)).symm)
  · rw [hi, List.map_map]
    refine (List.map_id P.ins).symm.trans ?_
    exact List.map_congr_left (fun v hv => (bπ.invOn_left v (w1 v hv)).symm)
  · rw [ho, List.map_map]
    refine (List.map_id P.outs).symm.trans ?_
    exact List.map_congr_left (fun v hv => (bπ.invOn_left v (w2 v hv)).symm)

/-- `Iso` is NOT symmetric on ill-formed diagrams: with no nodes, the interface `[0, 1]` maps onto
    `[0, 0]` (by the constant map) but not conversely -/
theorem iso_symm_counterexample :
    (⟨[], [], [0, 1], []⟩ : PDiag Nat Nat) ≅ ⟨[], [], [0, 0], []⟩ ∧
    ¬ ((⟨[], [], [0, 0], []⟩ : PDiag Nat Nat) ≅ ⟨[], [], [0, 1], []⟩) := by
  constructor
  · refine ⟨fun _ => 0, fun e => e, ?_, ?_, ?_, ?_, rfl, rfl⟩
    · exact ⟨fun i hi => absurd hi (Nat.not_lt_zero i), fun i _ hi => absurd hi (Nat.not_lt_zero i),
        fun k hk => absurd hk (Nat.not_lt_zero k)⟩
    · exact ⟨fun i hi => absurd hi (Nat.not_lt_zero i), fun i _ hi => absurd hi (Nat.not_lt_zero i),
        fun k hk => absurd hk (Nat.not_lt_zero k)⟩
    · intro i hi; exact absurd hi (Nat.not_lt_zero i)
    · intro i hi; exact absurd hi (Nat.not_lt_zero i)
  · rintro ⟨π, _, _, _, _, _, hi, _⟩
    simp at hi
    omega

/-! ### quotient maps and the kernel-iso theorem -/

/-- `q` is a quotient map of plain diagrams `P → r`: onto the nodes of `r`, commuting with the
    node labels, `r`'s edges / interfaces are `P`'s pushed through `q` (order, labels untouched) -/
structure IsQuotMap (P r : PDiag O A) (q : Nat → Nat) : Prop where
  lt : ∀ i, i < P.n → q i < r.n
  onto : ∀ k, k < r.n → ∃ i, i < P.n ∧ q i = k
  nodes : ∀ i, i < P.n → r.nodes[q i]? = P.nodes[i]?
  edges : r.edges = P.edges.map (PEdge.mapNodes q)
  ins : r.ins = P.ins.map q
  outs : r.outs = P.outs.map q

theorem isQuot_iff (P : PDiag O A) (R : Nat → Nat → Prop) (r : PDiag O A) :
    IsQuot P R r ↔ ∃ q, IsQuotMap P r q ∧ ∀ i j, i < P.n → j < P.n →
      (q i = q j ↔ EqvGen (fun a b => a < P.n ∧ b < P.n ∧ R a b) i j) := by
  constructor
  · rintro ⟨q, h1, h2, h3, h4, h5, h6, h7⟩
    exact ⟨q, ⟨h1, h2, h4, h5, h6, h7⟩, h3⟩
  · rintro ⟨q, ⟨h1, h2, h4, h5, h6, h7⟩, h3⟩
    exact ⟨q, h1, h2, h3, h4, h5, h6, h7⟩

theorem IsQuotMap.id (P : PDiag O A) : IsQuotMap P P (fun i => i) :=
  ⟨fun _ h => h, fun k hk => ⟨k, hk, rfl⟩, fun _ _ => rfl,
    by rw [show PEdge.mapNodes (A := A) (fun i => i) = _root_.id from funext PEdge.mapNodes_id,
      List.map_id], by simp, by simp⟩

/-- quotient maps compose (the kernel of the composite is the preimage of the second kernel) -/
theorem IsQuotMap.comp {P r s : PDiag O A} {q p : Nat → Nat} (h1 : IsQuotMap P r q)
    (h2 : IsQuotMap r s p) : IsQuotMap P s (fun i => p (q i)) := by
  refine ⟨fun i hi => h2.lt _ (h1.lt i hi), ?_, ?_, ?_, ?_, ?_⟩
  · intro k hk
    obtain ⟨j, hj, rfl⟩ := h2.onto k hk
    obtain ⟨i, hi, rfl⟩ := h1.onto j hj
    exact ⟨i, hi, rfl⟩
  · intro i hi
    rw [h2.nodes _ (h1.lt i hi), h1.nodes i hi]
  · rw [h2.edges, h1.edges, List.map_map]
    apply List.map_congr_left
    intro e _
    exact PEdge.mapNodes_comp q p e
  · rw [h2.ins, h1.ins, List.map_map]; rfl
  · rw [h2.outs, h1.outs, List.map_map]; rfl

theorem IsQuotMap.wf {P r : PDiag O A} {q : Nat → Nat} (hP : P.wf = true) (h : IsQuotMap P r q) :
    r.wf = true := by
  refine PDiag.wf_of_map hP h.lt h.ins h.outs ?_
  intro e' he'
  rw [h.edges] at he'
  obtain ⟨e, he, rfl⟩ := List.mem_map.1 he'
  exact ⟨e, he, rfl⟩

theorem IsQuot.wf {P r : PDiag O A} {R : Nat → Nat → Prop} (hP : P.wf = true) (h : IsQuot P R r) :
    r.wf = true := by
  obtain ⟨q, hq, _⟩ := (isQuot_iff P R r).1 h
  exact hq.wf hP

/-- kernel-iso: two quotient maps out of the same well-formed diagram with the same kernel have
    isomorphic codomains (the node bijection is `q' ∘ section of q`, built without choice; the
    edge bijection is the identity) -/
theorem iso_of_quotMaps {P r r' : PDiag O A} {q q' : Nat → Nat} (hP : P.wf = true)
    (h : IsQuotMap P r q) (h' : IsQuotMap P r' q')
    (hker : ∀ i j, i < P.n → j < P.n → (q i = q j ↔ q' i = q' j)) : r ≅ r' := by
  obtain ⟨w1, w2, w3⟩ := (PDiag.wf_iff P).1 hP
  -- the node map and its defining property
  have key : ∀ i, i < P.n → q' (invOn P.n q (q i)) = q' i := by
    intro i hi
    obtain ⟨h1, h2⟩ := invOn_spec (n := P.n) (π := q) (k := q i) ⟨i, hi, rfl⟩
    exact (hker _ _ h1 hi).1 h2
  refine ⟨fun k => q' (invOn P.n q k), fun e => e, ?_, ?_, ?_, ?_, ?_, ?_⟩
  · refine ⟨?_, ?_, ?_⟩
    · intro k hk
      exact h'.lt _ (invOn_spec (h.onto k hk)).1
    · intro k l hk hl hkl
      obtain ⟨a1, a2⟩ := invOn_spec (h.onto k hk)
      obtain ⟨b1, b2⟩ := invOn_spec (h.onto l hl)
      have := (hker _ _ a1 b1).2 hkl
      rw [a2, b2] at this
      exact this
    · intro m hm
      obtain ⟨i, hi, rfl⟩ := h'.onto m hm
      exact ⟨q i, h.lt i hi, key i hi⟩
  · have : r'.edges.length = r.edges.length := by rw [h.edges, h'.edges]; simp
    rw [this]
    exact BijOn.refl _
  · intro k hk
    obtain ⟨a1, a2⟩ := invOn_spec (h.onto k hk)
    rw [h'.nodes _ a1, ← h.nodes _ a1, a2]
  · intro e _
    rw [h.edges, h'.edges, List.getElem?_map, List.getElem?_map, Option.map_map]
    cases hpe : P.edges[e]? with
    | none => rfl
    | some pe =>
      simp only [Option.map_some, Option.some.injEq, Function.comp]
      rw [PEdge.mapNodes_comp]
      obtain ⟨hs, ht⟩ := w3 pe (List.mem_of_getElem? hpe)
      exact PEdge.mapNodes_congr (fun v hv => (key v (hs v hv)).symm)
        (fun v hv => (key v (ht v hv)).symm)
  · rw [h.ins, h'.ins, List.map_map]
    exact List.map_congr_left (fun v hv => (key v (w1 v hv)).symm)
  · rw [h.outs, h'.outs, List.map_map]
    exact List.map_congr_left (fun v hv => (key v (w2 v hv)).symm)

/-- a quotient of a well-formed diagram is determined up to isomorphism by the equivalence
    generated by the relation (on the nodes of the diagram) -/
theorem isQuot_unique {P r r' : PDiag O A} {R R' : Nat → Nat → Prop} (hP : P.wf = true)
    (h : IsQuot P R r) (h' : IsQuot P R' r')
    (hR : ∀ i j, i < P.n → j < P.n →
      (EqvGen (fun a b => a < P.n ∧ b < P.n ∧ R a b) i j ↔
        EqvGen (fun a b => a < P.n ∧ b < P.n ∧ R' a b) i j)) : r ≅ r' := by
  obtain ⟨q, hq, hk⟩ := (isQuot_iff P R r).1 h
  obtain ⟨q', hq', hk'⟩ := (isQuot_iff P R' r').1 h'
  apply iso_of_quotMaps hP hq hq'
  intro i j hi hj
  rw [hk i j hi hj, hk' i j hi hj]
  exact hR i j hi hj

/-- restricting a relation that only relates in-range indices does not change its closure -/
theorem eqvGen_restrict_iff {n : Nat} {R : Nat → Nat → Prop} (hR : ∀ a b, R a b → a < n ∧ b < n)
    (i j : Nat) : EqvGen (fun a b => a < n ∧ b < n ∧ R a b) i j ↔ EqvGen R i j := by
  constructor
  · exact EqvGen.mono (fun a b h => h.2.2) i j
  · exact EqvGen.mono (fun a b h => ⟨(hR a b h).1, (hR a b h).2, h⟩) i j

/-- a quotient by a relation whose closure is trivial on the nodes is isomorphic to the diagram -/
theorem isQuot_iso_self {P r : PDiag O A} {R : Nat → Nat → Prop} (hP : P.wf = true)
    (h : IsQuot P R r)
    (hR : ∀ i j, i < P.n → j < P.n → EqvGen (fun a b => a < P.n ∧ b < P.n ∧ R a b) i j → i = j) :
    P ≅ r := by
  obtain ⟨q, hq, hk⟩ := (isQuot_iff P R r).1 h
  apply iso_of_quotMaps hP (IsQuotMap.id P) hq
  intro i j hi hj
  rw [hk i j hi hj]
  exact ⟨fun e => e ▸ EqvGen.refl _, hR i j hi hj⟩

/-! ### gluing -/

theorem gluePre_n (f g : PDiag O A) : (gluePre f g).n = f.n + g.n := by
  simp [gluePre, PDiag.n]

theorem gluePre_wf {f g : PDiag O A} (hf : f.wf = true) (hg : g.wf = true) :
    (gluePre f g).wf = true := by
  obtain ⟨f1, f2, f3⟩ := (PDiag.wf_iff f).1 hf
  obtain ⟨g1, g2, g3⟩ := (PDiag.wf_iff g).1 hg
  refine (PDiag.wf_iff _).2 ⟨?_, ?_, ?_⟩
  · intro i hi
    rw [gluePre_n]
    have := f1 i hi
    omega
  · intro i hi
    rw [gluePre_n]
    obtain ⟨j, hj, rfl⟩ := List.mem_map.1 hi
    have := g2 j hj
    omega
  · intro e he
    rw [gluePre_n]
    rcases List.mem_append.1 he with he | he
    · obtain ⟨hs, ht⟩ := f3 e he
      exact ⟨fun v hv => by have := hs v hv; omega, fun v hv => by have := ht v hv; omega⟩
    · obtain ⟨e0, he0, rfl⟩ := List.mem_map.1 he
      obtain ⟨hs, ht⟩ := g3 e0 he0
      constructor
      · intro v hv
        obtain ⟨j, hj, rfl⟩ := List.mem_map.1 hv
        have := hs j hj; omega
      · intro v hv
        obtain ⟨j, hj, rfl⟩ := List.mem_map.1 hv
        have := ht j hj; omega

/-- the generating pairs of a gluing of well-formed diagrams are nodes of the disjoint union -/
theorem glueRel_lt {f g : PDiag O A} (hf : f.wf = true) (hg : g.wf = true) (a b : Nat)
    (h : glueRel f g a b) : a < (gluePre f g).n ∧ b < (gluePre f g).n := by
  obtain ⟨_, f2, _⟩ := (PDiag.wf_iff f).1 hf
  obtain ⟨g1, _, _⟩ := (PDiag.wf_iff g).1 hg
  obtain ⟨k, hk1, hk2⟩ := h
  rw [gluePre_n]
  have ha := f2 a (List.mem_of_getElem? hk1)
  cases hgk : g.ins[k]? with
  | none => rw [hgk] at hk2; cases hk2
  | some b' =>
    rw [hgk] at hk2
    simp only [Option.map_some, Option.some.injEq] at hk2
    have hb := g1 b' (List.mem_of_getElem? hgk)
    omega

/-- the gluing of two well-formed diagrams along their shared boundary is unique up to
    isomorphism -/
theorem isGluing_unique {f g r r' : PDiag O A} (hf : f.wf = true) (hg : g.wf = true)
    (h : IsGluing f g r) (h' : IsGluing f g r') : r ≅ r' :=
  isQuot_unique (gluePre_wf hf hg) h h' (fun _ _ _ _ => Iff.rfl)

theorem IsGluing.wf {f g r : PDiag O A} (hf : f.wf = true) (hg : g.wf = true)
    (h : IsGluing f g r) : r.wf = true :=
  IsQuot.wf (gluePre_wf hf hg) h

/-- without well-formedness a gluing is NOT unique up to isomorphism (an out-of-range interface
    entry may be sent anywhere by the quotient map) -/
theorem isGluing_unique_counterexample :
    let f : PDiag Nat Nat := ⟨[], [], [0, 1], []⟩
    let g : PDiag Nat Nat := ⟨[], [], [], []⟩
    IsGluing f g ⟨[], [], [0, 0], []⟩ ∧ IsGluing f g ⟨[], [], [0, 1], []⟩ ∧
    ¬ ((⟨[], [], [0, 0], []⟩ : PDiag Nat Nat) ≅ ⟨[], [], [0, 1], []⟩) := by
  refine ⟨?_, ?_, iso_symm_counterexample.2⟩
  · refine ⟨fun _ => 0, ?_, ?_, ?_, ?_, rfl, rfl, rfl⟩
    · intro i hi; exact absurd hi (Nat.not_lt_zero i)
    · intro i hi; exact absurd hi (Nat.not_lt_zero i)
    · intro i j hi; exact absurd hi (Nat.not_lt_zero i)
    · intro i hi; exact absurd hi (Nat.not_lt_zero i)
  · refine ⟨fun i => i, ?_, ?_, ?_, ?_, rfl, rfl, rfl⟩
    · intro i hi; exact absurd hi (Nat.not_lt_zero i)
    · intro i hi; exact absurd hi (Nat.not_lt_zero i)
    · intro i j hi; exact absurd hi (Nat.not_lt_zero i)
    · intro i hi; exact absurd hi (Nat.not_lt_zero i)

end OH
