/-
  Helper library for `Props/C14Poly.lean` (the derivative theorem at the concrete optic and
  signature of the correspondence check).  Nothing here mentions the optic or the signature:

  * Part A — `eval_map`: THE MODEL EVALUATOR IS NATURAL IN THE VALUE TYPE.  A map `h : T → T'` that
    commutes with two generator-wise interpretations commutes with `Graph.eval` (as a `Res`, so
    also for `none`/`panic`), for EVERY diagram (no well-formedness hypothesis: the layering never
    looks at the values) and every backend.
  * Part B — explicit quotients: `isQuot_explicit` (a checkable criterion for `IsQuot` of the plain
    reading of a lax diagram by its recorded pairs) and `strict_of_quot` (strictification, every
    lawful backend, up to isomorphism from such an explicit quotient).
  * Part C — `strict_facts`: everything `GenFacts` asks of a strict diagram (monogamous, acyclic,
    no bare wire, arities, boundary types, evaluation) transported along an isomorphism from an
    explicit plain diagram.
  * Part D — the one-operation diagram `sq a s t = plain (LOHG.singleton a s t)` and its facts.
-/
import OHVerif.Props.C14Deriv

namespace OH.RdI
open OH OH.Prim OH.Graph OH.C14 OH.RevDeriv OH.LaxStrict OH.LaxIso Relation

variable {O A T T' : Type}

/-! ## Part A: evaluation is natural in the value type -/

theorem writeAll_map (h : T → T') (y : List T) (ps : List (Nat × T)) :
    (writeAll y ps).map h = writeAll (y.map h) (ps.map (fun p => (p.1, h p.2))) := by
  induction ps generalizing y with
  | nil => rfl
  | cons p ps ih =>
    obtain ⟨i, x⟩ := p
    simp only [writeAll, List.map_cons]
    rw [ih, List.map_set]

theorem scatterAssign_map (h : T → T') (mem : List T) (ixs : List Nat) (vals : List T) :
    scatterAssign (mem.map h) ixs (vals.map h) = List.map h <$> scatterAssign mem ixs vals := by
  unfold scatterAssign
  have hz : ixs.zip (vals.map h) = (ixs.zip vals).map (fun p => (p.1, h p.2)) := by
    rw [List.zip_map_right]
    rfl
  simp only [hz, List.all_map, List.length_map, Function.comp_def]
  split
  · rw [Res.map_ok, writeAll_map]
  · rfl

theorem gatherP_map (h : T → T') (xs : List T) (idx : List Nat) :
    gatherP (xs.map h) idx = (gatherP xs idx).map h := by
  unfold gatherP
  rw [List.map_filterMap]
  congr 1
  funext i
  rw [List.getElem?_map]

theorem gather_map (h : T → T') (xs : List T) (idx : List Nat) :
    gather (xs.map h) idx = List.map h <$> gather xs idx := by
  unfold gather
  simp only [List.length_map]
  split
  · rw [Res.map_ok, gatherP_map]
  · rfl

theorem composeSemi_map (h : T → T') (f : FinFun) (g : List T) :
    FinFun.composeSemi f (g.map h) = List.map h <$> FinFun.composeSemi f g := by
  unfold FinFun.composeSemi
  simp only [List.length_map]
  split
  · exact gather_map h g f.table
  · rfl

theorem splitSegs_map (h : T → T') : ∀ (ks : List Nat) (vs : List T),
    splitSegs ks (vs.map h) = (splitSegs ks vs).map (List.map h)
  | [], _ => rfl
  | k :: ks, vs => by
    simp only [splitSegs, List.map_cons, List.map_take]
    rw [← List.map_drop, splitSegs_map h ks]

theorem applyOf_map (h : T → T') (opfn : A → List T → List T) (opfn' : A → List T' → List T')
    (hc : ∀ l args, opfn' l (args.map h) = (opfn l args).map h) (labels : List A)
    (c : IC (List T)) :
    Eval.applyOf opfn' labels ⟨c.sources, c.values.map h⟩ =
      ⟨(Eval.applyOf opfn labels c).sources, (Eval.applyOf opfn labels c).values.map h⟩ := by
  unfold Eval.applyOf IC.segsL IC.ofSegsL
  simp only
  rw [splitSegs_map]
  have : List.zipWith opfn' labels ((splitSegs c.sources.table c.values).map (List.map h)) =
      (List.zipWith opfn labels (splitSegs c.sources.table c.values)).map (List.map h) := by
    generalize splitSegs c.sources.table c.values = L
    induction labels generalizing L with
    | nil => simp
    | cons l ls ih =>
      cases L with
      | nil => simp
      | cons a L => simp [hc, ih]
  rw [this]
  simp [List.map_flatten]

theorem map_bind {α β γ : Type} (g : β → γ) (x : Res α) (f : α → Res β) :
    g <$> (x >>= f) = x >>= fun a => g <$> f a := by
  cases x <;> rfl

theorem evalBody_map (h : T → T') (opfn : A → List T → List T) (opfn' : A → List T' → List T')
    (hc : ∀ l args, opfn' l (args.map h) = (opfn l args).map h) (f : OHG O A) (mem : List T)
    (g : List Nat) :
    Eval.evalBody f (Eval.applyOf opfn') (mem.map h) g =
      List.map h <$> Eval.evalBody f (Eval.applyOf opfn) mem g := by
  unfold Eval.evalBody
  simp only
  cases (FinFun.composeSemi ⟨g, f.h.x.length⟩ f.h.x).unwrap "eval:unwrap-labels" with
  | none => rfl
  | panic s => rfl
  | ok labels =>
    simp only [Res.ok_bind]
    cases (IC.mapIndexes f.h.s ⟨g, f.h.x.length⟩).unwrap "eval:unwrap-in-indexes" with
    | none => rfl
    | panic s => rfl
    | ok inIdx =>
      simp only [Res.ok_bind]
      unfold IC.mapSemifinite
      rw [composeSemi_map]
      cases FinFun.composeSemi inIdx.values mem with
      | none => rfl
      | panic s => rfl
      | ok v =>
        simp only [Res.map_ok, Res.ok_bind, Res.pure_eq, Res.unwrap_ok]
        cases (IC.mapIndexes f.h.t ⟨g, f.h.x.length⟩).unwrap "eval:unwrap-out-indexes" with
        | none => rfl
        | panic s => rfl
        | ok outIdx =>
          simp only [Res.ok_bind]
          rw [applyOf_map h opfn opfn' hc labels ⟨inIdx.sources, v⟩]
          exact scatterAssign_map h mem _ _

theorem foldlM_evalBody_map (h : T → T') (opfn : A → List T → List T)
    (opfn' : A → List T' → List T')
    (hc : ∀ l args, opfn' l (args.map h) = (opfn l args).map h) (f : OHG O A) :
    ∀ (order : List (List Nat)) (mem : List T),
      order.foldlM (Eval.evalBody f (Eval.applyOf opfn')) (mem.map h) =
        List.map h <$> order.foldlM (Eval.evalBody f (Eval.applyOf opfn)) mem
  | [], mem => rfl
  | g :: order, mem => by
    rw [List.foldlM_cons, List.foldlM_cons, evalBody_map h opfn opfn' hc, map_bind]
    cases Eval.evalBody f (Eval.applyOf opfn) mem g with
    | none => rfl
    | panic s => rfl
    | ok m => exact foldlM_evalBody_map h opfn opfn' hc f order m

theorem evalOrder_map (h : T → T') (opfn : A → List T → List T) (opfn' : A → List T' → List T')
    (hc : ∀ l args, opfn' l (args.map h) = (opfn l args).map h) (f : OHG O A) (dflt : T)
    (s : List T) (order : List (List Nat)) :
    evalOrder f (h dflt) (s.map h) order (Eval.applyOf opfn') =
      (fun r => (r.1.map h, r.2.map h)) <$> evalOrder f dflt s order (Eval.applyOf opfn) := by
  rw [Eval.evalOrder_unfold, Eval.evalOrder_unfold]
  have : List.replicate f.h.w.length (h dflt) = (List.replicate f.h.w.length dflt).map h := by simp
  rw [this, scatterAssign_map]
  cases scatterAssign (List.replicate f.h.w.length dflt) f.s.table s with
  | none => rfl
  | panic s => rfl
  | ok mem1 =>
    simp only [Res.map_ok, Res.ok_bind]
    rw [foldlM_evalBody_map h opfn opfn' hc]
    cases order.foldlM (Eval.evalBody f (Eval.applyOf opfn)) mem1 with
    | none => rfl
    | panic s => rfl
    | ok mem =>
      simp only [Res.map_ok, Res.ok_bind]
      rw [gather_map]
      cases gather mem f.t.table with
      | none => rfl
      | panic s => rfl
      | ok outs => rfl

/-- **evaluation is natural in the value type**: a map `h` of values that commutes with the two
    interpretations commutes with the model evaluator (no hypothesis on the diagram: the layering
    does not look at the values) -/
theorem eval_map (B : Backend) (h : T → T') (opfn : A → List T → List T)
    (opfn' : A → List T' → List T')
    (hc : ∀ l args, opfn' l (args.map h) = (opfn l args).map h) (f : OHG O A) (dflt : T)
    (s : List T) :
    eval B f (h dflt) (s.map h) (Eval.applyOf opfn') =
      List.map h <$> eval B f dflt s (Eval.applyOf opfn) := by
  unfold eval
  cases layer B f with
  | none => rfl
  | panic s => rfl
  | ok p =>
    obtain ⟨order, unv⟩ := p
    simp only [Res.ok_bind]
    cases converseIter B order with
    | none => rfl
    | panic s => rfl
    | ok layering =>
      simp only [Res.ok_bind]
      split
      · rw [evalOrder_map h opfn opfn' hc]
        cases evalOrder f dflt s layering (Eval.applyOf opfn) with
        | none => rfl
        | panic s => rfl
        | ok r => rfl
      · rfl

/-! ## Part B: explicit quotients -/

theorem pairs_iff_mem_zip (h : LHG O A) (a b : Nat) :
    C09.Pairs h a b ↔ (a, b) ∈ h.quotient.1.zip h.quotient.2 := by
  unfold C09.Pairs
  rw [List.mem_iff_getElem?]
  constructor
  · rintro ⟨k, h1, h2⟩
    exact ⟨k, by rw [List.getElem?_zip_eq_some]; exact ⟨h1, h2⟩⟩
  · rintro ⟨k, hk⟩
    rw [List.getElem?_zip_eq_some] at hk
    exact ⟨k, hk.1, hk.2⟩

/-- an explicit quotient: `q` pushes the presentation onto `Q`, identifies the recorded pairs,
    and every node is equal or directly paired to the chosen representative `s (q i)` of its class -/
theorem isQuot_explicit (d : LOHG O A) (hwf : d.wf = true) (Q : PDiag O A) (q s : Nat → Nat)
    (hlt : ∀ i, i < d.hypergraph.nodes.length → q i < Q.n)
    (hsec : ∀ k, k < Q.n → s k < d.hypergraph.nodes.length ∧ q (s k) = k)
    (hpairs : ∀ p ∈ d.hypergraph.quotient.1.zip d.hypergraph.quotient.2, q p.1 = q p.2)
    (hrep : ∀ i, i < d.hypergraph.nodes.length → i = s (q i) ∨
      (i, s (q i)) ∈ d.hypergraph.quotient.1.zip d.hypergraph.quotient.2 ∨
      (s (q i), i) ∈ d.hypergraph.quotient.1.zip d.hypergraph.quotient.2)
    (hnodes : ∀ i, i < d.hypergraph.nodes.length → Q.nodes[q i]? = d.hypergraph.nodes[i]?)
    (hedges : Q.edges = (plain d).edges.map (PEdge.mapNodes q))
    (hins : Q.ins = d.sources.map q) (houts : Q.outs = d.targets.map q) :
    IsQuot (plain d) (pairsRel d) Q := by
  have hw := (LaxEdit.owf_iff d).mp hwf
  refine ⟨q, hlt, fun k hk => ⟨s k, (hsec k hk).1, (hsec k hk).2⟩, ?_, hnodes, hedges, hins, houts⟩
  intro i j hi hj
  have hn : (plain d).n = d.hypergraph.nodes.length := rfl
  rw [hn] at hi hj
  constructor
  · intro hij
    have key : ∀ i, i < d.hypergraph.nodes.length →
        EqvGen (fun a b => a < (plain d).n ∧ b < (plain d).n ∧ pairsRel d a b) i (s (q i)) := by
      intro i hi
      have hsi := (hsec _ (hlt i hi)).1
      rcases hrep i hi with h | h | h
      · rw [← h]; exact EqvGen.refl _
      · exact EqvGen.rel _ _ ⟨hi, hsi, (pairs_iff_mem_zip _ _ _).2 h⟩
      · exact EqvGen.symm _ _ (EqvGen.rel _ _ ⟨hsi, hi, (pairs_iff_mem_zip _ _ _).2 h⟩)
    have h1 := key i hi
    have h2 := key j hj
    rw [hij] at h1
    exact EqvGen.trans _ _ _ h1 (EqvGen.symm _ _ h2)
  · intro he
    clear hi hj
    induction he with
    | rel a b hab => exact hpairs (a, b) ((pairs_iff_mem_zip _ _ _).1 hab.2.2)
    | refl a => rfl
    | symm a b _ ih => exact ih.symm
    | trans a b c _ _ ih1 ih2 => exact ih1.trans ih2

/-- strictification of a lax diagram with recorded pairs, up to isomorphism, from an explicit
    quotient (every lawful backend) -/
theorem strict_of_quot [DecidableEq O] (B : Backend) (hB : B.Lawful) (d : LOHG O A)
    (hwf : d.wf = true) (Q : PDiag O A) (hQ : IsQuot (plain d) (pairsRel d) Q) :
    ∃ r, LOHG.toStrict B d = .ok r ∧ r.wf = true ∧ Q ≅ r.toPlain := by
  have hw := (LaxEdit.owf_iff d).mp hwf
  have hc : C09.LabelConsistent d.hypergraph := by
    rw [labelConsistent_iff_gen]
    intro a b hab
    obtain ⟨q, hq, hk⟩ := (isQuot_iff _ _ _).1 hQ
    obtain ⟨ha, hb⟩ := C09.pairs_lt d.hypergraph hw.hg hab
    have : q a = q b := (hk a b ha hb).2 (EqvGen.rel _ _ ⟨ha, hb, hab⟩)
    have h1 := hq.nodes a ha
    have h2 := hq.nodes b hb
    rw [this] at h1
    exact h1.symm.trans h2
  obtain ⟨r, hr, hrwf, hrq, _⟩ := toStrict_isQuot B hB d hwf hc
  exact ⟨r, hr, hrwf, isQuot_unique (plain_wf d hwf) hQ hrq (fun _ _ _ _ => Iff.rfl)⟩

/-! ## Part C: facts transported along an isomorphism -/

theorem iso_types {Q X : PDiag O A} (hQ : Q.wf = true) (h : Q ≅ X) :
    X.sourceType = Q.sourceType ∧ X.targetType = Q.targetType := by
  obtain ⟨π, ρ, _, _, hn, _, hi, ho⟩ := h
  obtain ⟨h1, h2, _⟩ := Eval.pdiag_wf_unpack hQ
  unfold PDiag.sourceType PDiag.targetType
  rw [hi, ho, List.map_map, List.map_map]
  exact ⟨List.map_congr_left (fun v hv => hn v (h1 v hv)),
    List.map_congr_left (fun v hv => hn v (h2 v hv))⟩

/-- everything the derivative theorem asks of a strictified generator image, from an explicit
    plain diagram `Q` isomorphic to it -/
theorem strict_facts {T : Type} [Inhabited T] (B : Backend) (hB : B.Lawful) (r : OHG O A) (hr : r.wf = true)
    (Q : PDiag O A) (hQ : Q.wf = true) (hiso : Q ≅ r.toPlain)
    (hm : Monogamous Q) (rk : Nat → Nat) (hrk : Lab rankΦ Q rk) (hnd : (Q.ins ++ Q.outs).Nodup)
    (sem : A → List T → List T) (har : Lab (arΦ sem) Q (fun _ => ())) (dflt : T) :
    Monogamous r.toPlain ∧ Acyclic r.toPlain ∧ (∀ v ∈ r.s.table, v ∉ r.t.table) ∧
    C16.ArityOK r sem ∧ r.toPlain.sourceType = Q.sourceType ∧ r.toPlain.targetType = Q.targetType ∧
    (∀ a b : List T, a.length = Q.ins.length → Den (valΦ sem) Q a b →
      Graph.eval B r dflt a (Eval.applyOf sem) = .ok b) := by
  have hmono : Monogamous r.toPlain := monogamous_iso hQ hiso hm
  have hac : Acyclic r.toPlain := by
    have : Den rankΦ Q (Q.ins.map rk) (Q.outs.map rk) := ⟨rk, hrk, rfl, rfl⟩
    obtain ⟨lab, hlab, _, _⟩ := (den_iso hQ hiso _ _).1 this
    exact acyclic_of_rank hlab
  have har' : C16.ArityOK r sem := by
    have : Den (arΦ sem) Q (Q.ins.map (fun _ => ())) (Q.outs.map (fun _ => ())) :=
      ⟨fun _ => (), har, rfl, rfl⟩
    exact arityOK_of_den r sem ((den_iso hQ hiso _ _).1 this)
  have hnd' : (r.toPlain.ins ++ r.toPlain.outs).Nodup := by
    have : Den (fun (_ : A) (_ _ : List Nat) => True) Q (Q.ins.map id) (Q.outs.map id) :=
      ⟨id, fun _ _ => trivial, rfl, rfl⟩
    refine nodup_of_den ((den_iso hQ hiso _ _).1 this) ?_
    simpa using hnd
  obtain ⟨t1, t2⟩ := iso_types hQ hiso
  refine ⟨hmono, hac, ?_, har', t1, t2, ?_⟩
  · intro v hv hv'
    exact (List.nodup_append.1 hnd').2.2 v hv v hv' rfl
  · intro a b ha hd
    have hlen : a.length = r.s.table.length := by
      obtain ⟨π, _, _, _, _, _, hi, _⟩ := hiso
      have : r.s.table = Q.ins.map π := hi
      rw [this, List.length_map, ha]
    exact (den_val_iff_eval B hB r hr hac hmono sem har' dflt a b hlen).1
      ((den_iso hQ hiso _ _).1 hd)

/-! ## Part D: the one-operation diagram -/

/-- the plain reading of `LOHG.singleton a s t`: nodes `s ++ t`, one hyperedge from the first
    block to the second -/
def sq (a : A) (s t : List O) : PDiag O A :=
  ⟨s ++ t, [⟨a, List.range s.length, List.range' s.length t.length⟩], List.range s.length,
    List.range' s.length t.length⟩

theorem plain_singleton (a : A) (s t : List O) : plain (LOHG.singleton a s t) = sq a s t := by
  rw [C10.lax_singleton_eq]
  rfl

theorem singleton_wf (a : A) (s t : List O) : (LOHG.singleton a s t : LOHG O A).wf = true := by
  rw [C10.lax_singleton_eq, lohg_wf_iff, lhg_wf_iff]
  refine ⟨⟨rfl, ?_, rfl, by simp, by simp⟩, ?_, ?_⟩
  · intro e he
    simp only [List.mem_singleton] at he
    subst he
    constructor
    · intro i hi
      have := List.mem_range.1 hi
      simp only [List.length_append]; omega
    · intro i hi
      have := List.mem_range'_1.1 hi
      simp only [List.length_append]; omega
  · intro i hi
    have := List.mem_range.1 hi
    simp only [List.length_append]; omega
  · intro i hi
    have := List.mem_range'_1.1 hi
    simp only [List.length_append]; omega

theorem singleton_strict [DecidableEq O] (B : Backend) (hB : B.Lawful) (a : A) (s t : List O) :
    ∃ r, LOHG.toStrict B (LOHG.singleton a s t) = .ok r ∧ r.wf = true ∧ sq a s t ≅ r.toPlain := by
  obtain ⟨r, hr, hw, hiso, _⟩ := C10.toStrict_lawful_spec B hB _ (singleton_wf a s t)
    (by rw [C10.lax_singleton_eq])
  rw [plain_singleton] at hiso
  exact ⟨r, hr, hw, hiso⟩

theorem sq_wf (a : A) (s t : List O) : (sq a s t).wf = true := by
  rw [← plain_singleton]
  exact plain_wf _ (singleton_wf a s t)

theorem range_append_range' (m n : Nat) : List.range m ++ List.range' m n = List.range (m + n) := by
  rw [List.range_eq_range', List.range_eq_range']
  have := List.range'_append_1 (s := 0) (m := m) (n := n)
  simpa using this

theorem sq_mono (a : A) (s t : List O) : Monogamous (sq a s t) := by
  apply monogamous_of_perm
  · show (List.range s.length ++ ([List.range' s.length t.length].flatten)).Perm
      (List.range (s ++ t).length)
    simp only [List.flatten_cons, List.flatten_nil, List.append_nil, List.length_append]
    rw [range_append_range']
  · show (List.range' s.length t.length ++ ([List.range s.length].flatten)).Perm
      (List.range (s ++ t).length)
    simp only [List.flatten_cons, List.flatten_nil, List.append_nil, List.length_append]
    rw [← range_append_range']
    exact List.perm_append_comm

theorem sq_rank (a : A) (s t : List O) :
    Lab rankΦ (sq a s t) (fun v => if v < s.length then 0 else 1) := by
  intro e he
  simp only [sq, List.mem_singleton] at he
  subst he
  intro x hx y hy
  simp only [List.mem_map, List.mem_range, List.mem_range'_1] at hx hy
  obtain ⟨u, hu, rfl⟩ := hx
  obtain ⟨w, hw, rfl⟩ := hy
  rw [if_pos hu, if_neg (by omega)]
  exact Nat.zero_lt_one

theorem sq_nodup (a : A) (s t : List O) : ((sq a s t).ins ++ (sq a s t).outs).Nodup := by
  show (List.range s.length ++ List.range' s.length t.length).Nodup
  rw [range_append_range']
  exact List.nodup_range

theorem sq_arity {T : Type} (a : A) (s t : List O) (sem : A → List T → List T)
    (h : ∀ args : List T, args.length = s.length → (sem a args).length = t.length) :
    Lab (arΦ sem) (sq a s t) (fun _ => ()) := by
  intro e he
  simp only [sq, List.mem_singleton] at he
  subst he
  intro args hargs
  simp only [List.length_map, List.length_range, List.length_range'] at hargs ⊢
  exact h args hargs

theorem map_getElem?_range (l l' : List O) :
    (List.range l.length).map ((l ++ l')[·]?) = l.map some := by
  apply List.ext_getElem (by simp)
  intro i h1 h2
  simp only [List.length_map, List.length_range] at h1
  simp [List.getElem?_append_left h1]

theorem map_getElem?_range' (l l' : List O) :
    (List.range' l.length l'.length).map ((l ++ l')[·]?) = l'.map some := by
  apply List.ext_getElem (by simp)
  intro i h1 h2
  simp only [List.length_map, List.length_range'] at h1
  simp [h1]

theorem sq_types (a : A) (s t : List O) :
    (sq a s t).sourceType = s.map some ∧ (sq a s t).targetType = t.map some :=
  ⟨map_getElem?_range s t, map_getElem?_range' s t⟩

theorem sq_den {T : Type} (a : A) (s t : List O) (sem : A → List T → List T) (dflt : T)
    (x : List T) (hx : x.length = s.length) (hy : (sem a x).length = t.length) :
    Den (valΦ sem) (sq a s t) x (sem a x) := by
  have h1 : (List.range s.length).map (fun v => (x ++ sem a x).getD v dflt) = x := by
    apply List.ext_getElem (by simp [hx])
    intro i h1 h2
    simp [List.getD_eq_getElem?_getD, List.getElem?_append_left h2, List.getElem?_eq_getElem h2]
  have h2 : (List.range' s.length t.length).map (fun v => (x ++ sem a x).getD v dflt) =
      sem a x := by
    apply List.ext_getElem (by simp [hy])
    intro i h1 h2
    simp [List.getD_eq_getElem?_getD, hx, h2]
  refine ⟨fun v => (x ++ sem a x).getD v dflt, ?_, h1, h2⟩
  intro e he
  simp only [sq, List.mem_singleton] at he
  subst he
  show _ = sem a _
  rw [h1, h2]

/-! ## Part E: `GenFacts` from explicit plain diagrams -/

section genfacts
variable {R : Type} [CommRing R] {O1 A1 O2 A2 : Type} [DecidableEq O2]

/-- `GenFacts` for strict images `sFa`, `sRa` known up to isomorphism from explicit plain diagrams
    `QF`, `QR`: all clauses are read off the explicit diagrams -/
theorem genFacts_of_plain (B : Backend) (hB : B.Lawful) (P : LOptic O1 A1 O2 A2)
    (semD : A1 → List (Dual R) → List (Dual R)) (sem2 : A2 → List R → List R)
    (a : A1) (s t : List O1) (sFa sRa : OHG O2 A2) (wF : sFa.wf = true) (wR : sRa.wf = true)
    (QF QR : PDiag O2 A2) (hQF : QF.wf = true) (hQR : QR.wf = true)
    (isoF : QF ≅ sFa.toPlain) (isoR : QR ≅ sRa.toPlain)
    (mF : Monogamous QF) (mR : Monogamous QR) (rkF rkR : Nat → Nat)
    (hrkF : Lab rankΦ QF rkF) (hrkR : Lab rankΦ QR rkR)
    (ndF : (QF.ins ++ QF.outs).Nodup) (ndR : (QR.ins ++ QR.outs).Nodup)
    (arF : Lab (arΦ sem2) QF (fun _ => ())) (arR : Lab (arΦ sem2) QR (fun _ => ()))
    (tyF1 : QF.sourceType = (s.flatMap P.fwdObject).map some)
    (tyF2 : QF.targetType = (t.flatMap P.fwdObject ++ P.residual a).map some)
    (tyR1 : QR.sourceType = (P.residual a ++ t.flatMap P.revObject).map some)
    (tyR2 : QR.targetType = (s.flatMap P.revObject).map some)
    (lenF : QF.ins.length = s.length) (lenR : QR.ins.length = (P.residual a).length + t.length)
    (sem : ∀ (x dy : List R), x.length = s.length → dy.length = t.length →
      ∃ (y m g : List R), Den (valΦ sem2) QF x (y ++ m) ∧ y.length = t.length ∧
        m.length = (P.residual a).length ∧ Den (valΦ sem2) QR (m ++ dy) g ∧
        (∀ v : List R, v.length = x.length → (semD a (dualize x v)).map Dual.re = y) ∧
        IsRevDeriv (semD a) x dy g) :
    GenFacts B P semD sem2 a s t sFa sRa := by
  have : Inhabited R := ⟨0⟩
  obtain ⟨f1, f2, f3, f4, f5, f6, f7⟩ := strict_facts B hB sFa wF QF hQF isoF mF rkF hrkF ndF sem2 arF (0 : R)
  obtain ⟨r1, r2, r3, r4, r5, r6, r7⟩ := strict_facts B hB sRa wR QR hQR isoR mR rkR hrkR ndR sem2 arR (0 : R)
  refine ⟨C12.source_of_plain wF (f5.trans tyF1), C12.target_of_plain wF (f6.trans tyF2),
    C12.source_of_plain wR (r5.trans tyR1), C12.target_of_plain wR (r6.trans tyR2),
    f1, r1, f2, r2, f3, r3, f4, r4, ?_⟩
  intro x dy hx hdy
  obtain ⟨y, m, g, d1, hy, hm, d2, h4, h5⟩ := sem x dy hx hdy
  refine ⟨y, m, g, ?_, hy, ?_, h4, h5⟩
  · rw [applyOf_eq]
    exact f7 x _ (by rw [hx, lenF]) d1
  · rw [applyOf_eq]
    exact r7 _ g (by rw [List.length_append, hm, hdy, lenR]) d2

end genfacts

end OH.RdI
